(** Property C11, the capstone: feeding [Vt::dump()] into a fresh terminal of the same size
    yields a terminal observationally equal to the original ([holds_C11]).

    Hypotheses: the invariants [Inv] (Proofs/Inv.v), [PReach] (parser reachability,
    Proofs/DumpParserRT.v), [PensInv] / [CharsInv] (well-formed pens, printable characters,
    Proofs/PenInv*.v), [MarginsInv] (Proofs/DumpMargins.v) - all of them established at
    construction and preserved by every operation - and the three known limitations of
    [Terminal::dump]: [kf1_C11] (origin mode with the cursor outside the region), [kf2_C11]
    (alternate screen active, parked primary of a stale geometry), [dumpable'] (numeric
    parameters written by the dump fit the parser's u16). *)

From Coq Require Import Lia ZArith ZifyBool ZifyNat ZifyN String.
From Avt Require Import Model.Vt Spec.Screen Oracles.Rel Proofs.Inv Proofs.ParserInv Proofs.ParserSim
  Proofs.ListLemmas Proofs.BufScroll Proofs.Tabs Proofs.Frames Proofs.InvTerm Proofs.StepC17
  Proofs.ParamDT Proofs.PenInv Proofs.DumpParserEmits Proofs.DumpParserRT
  Proofs.DumpRowsList Proofs.DumpRowsStep Proofs.DumpRows Proofs.InvStep Proofs.PenInvProofs
  Proofs.DumpMargins Proofs.DumpScriptBase Proofs.DumpScriptExec Proofs.DumpScriptSim
  Proofs.DumpScriptSeg Proofs.DumpScriptHead Proofs.DumpScriptMid Proofs.DumpScriptTail.
Ltac Zify.zify_post_hook ::= Z.div_mod_to_equations.
Local Open Scope nat_scope.

(** every CUP / CHA / REP / DECSTBM parameter the dump writes is below 65536.  Besides the
    screen size ([dumpable]) this concerns STALE data: on the primary screen the alternate
    screen's saved context [asctx] may date from an older, larger geometry, and
    [dump_ctx] writes [sc_row + 1 ; sc_col + 1].  (The active screen's [sctx] is inside the
    screen by [TInv]; with the alternate screen active, [asctx] is inside the parked geometry,
    which [kf2_C11 = false] equates with the current one.) *)
Definition dumpable' (t : term) : Prop :=
  dumpable t = true
  /\ (N.of_nat (sc_col (asctx t)) < 65535)%N /\ (N.of_nat (sc_row (asctx t)) < 65535)%N.

(** * the parser *)

Lemma obs_psim a b x :
  PInv a -> PInv b -> psim a b -> obs_eqb_parser x a = obs_eqb_parser x b.
Proof.
  intros Ha Hb HS. destruct (data_state (pst a)) eqn:D.
  - rewrite (psim_data_eq a b Ha Hb HS D). reflexivity.
  - destruct HS as [S _]. unfold obs_eqb_parser. rewrite <- S.
    destruct (pst x) eqn:Ex; try reflexivity; destruct (pst a); try reflexivity; discriminate D.
Qed.

Lemma sim_parser p v1 :
  PInv p -> PReach p -> GroundP (vparser v1) ->
  exists p', feed_chars v1 (parser_dump p) = Ok (mkVt p' (vterm v1)) /\ obs_eqb_parser p p' = true.
Proof.
  intros HP HR [H1 G1].
  destruct (C11_parser p HP HR) as (p0 & R0' & O0).
  destruct (C03_memoryless_ground (parser_dump p) (vparser v1) init_parser H1 init_parser_PInv G1 eq_refl)
    as (p1' & q' & fs & R1 & R2 & HS).
  rewrite R0' in R2. apply Ok_inj in R2. injection R2 as <- <-.
  exists p1'. split.
  - rewrite (feed_chars_run _ v1 H1).
    rewrite runP_char in R1 by exact H1. apply Ok_inj in R1. injection R1 as <- E1.
    rewrite E1. reflexivity.
  - rewrite (obs_psim p1' p0 p); [exact O0| | |exact HS].
    + rewrite runP_char in R1 by exact H1. apply Ok_inj in R1. injection R1 as <- _.
      apply run_step_inv, H1.
    + rewrite runP_char in R0' by apply init_parser_PInv. apply Ok_inj in R0'. injection R0' as <- _.
      apply run_step_inv, init_parser_PInv.
Qed.

(** * the final flush *)

Lemma view_flushed u : view (buf (flushed u)) = view (buf u).
Proof.
  pose proof (gc_excess_le (buf u)) as Hle.
  unfold flushed. rsimp. unfold view, sb_len in *. rsimp.
  rewrite skipn_length, skipn_add. f_equal. lia.
Qed.

(** * assembling [holds_C11] *)

Lemma holds_C11_intro (v r : vt) :
  let a := vterm v in let b := vterm r in
  cols a = cols b -> rows a = rows b -> active a = active b ->
  cur_col a = cur_col b -> cur_row a = cur_row b -> cur_vis a = cur_vis b -> tpen a = tpen b ->
  cs0 a = cs0 b -> cs1 a = cs1 b -> acs a = acs b -> tabs a = tabs b ->
  ins a = ins b -> org a = org b -> awm a = awm b -> nlm a = nlm b -> ckm a = ckm b ->
  pend a = pend b -> top a = top b -> bot a = bot b -> sctx a = sctx b ->
  clamp_ctx (asctx a) (cols a) (rows a) = clamp_ctx (asctx b) (cols b) (rows b) ->
  xtw a = xtw b ->
  view (buf a) = view (buf b) -> bcols (buf a) = bcols (buf b) -> brows (buf a) = brows (buf b) ->
  (active a = Alternate ->
   view (other a) = view (other b) /\ bcols (other a) = bcols (other b)
   /\ brows (other a) = brows (other b)) ->
  obs_eqb_parser (vparser v) (vparser r) = true ->
  holds_C11 v r = true.
Proof.
  cbv zeta. intros H1 H2 H3 H4 H5 H6 H7 H8 H9 H10 H11 H12 H13 H14 H15 H16 H17 H18 H19 H20 H21 H22
    V1 V2 V3 HO HP.
  unfold holds_C11. rewrite HP.
  assert (OB : obs_buffer_eqb (buf (vterm v)) (buf (vterm r)) = true).
  { unfold obs_buffer_eqb. rewrite V1, V2, V3, !Nat.eqb_refl, lines_eqb_refl. reflexivity. }
  assert (OO : match active (vterm v) with
               | Alternate => obs_buffer_eqb (other (vterm v)) (other (vterm r))
               | Primary => true end = true).
  { destruct (active (vterm v)) eqn:EA; [reflexivity|]. destruct (HO eq_refl) as (W1 & W2 & W3).
    unfold obs_buffer_eqb. rewrite W1, W2, W3, !Nat.eqb_refl, lines_eqb_refl. reflexivity. }
  rewrite OO.
  unfold obs_eqb_term, norm_C11. rsimp. rewrite OB, OO.
  unfold term_scalars_eqb. rsimp.
  rewrite <- H1, <- H2, <- H3, <- H4, <- H5, <- H6, <- H7, <- H8, <- H9, <- H10, <- H11, <- H12, <- H13,
    <- H14, <- H15, <- H16, <- H17, <- H18, <- H19, <- H20, <- H22. rewrite H21 at 1. rewrite <- H1, <- H2.
  rewrite !Nat.eqb_refl, !Bool.eqb_reflx, btype_eqb_refl, pen_eqb_refl, !charset_eqb_refl,
    !ctx_eqb_refl, (list_eqb_refl _ Nat.eqb_refl).
  reflexivity.
Qed.

(** * buffers under the invariants *)

Lemma buffer_facts b :
  BInv b -> Forall (fun l => Forall (fun c => ch_ok (ch c)) (cells l)) (lines b) -> lines_wf (lines b) ->
  printable_view (view b) /\ lines_wf (view b) /\ last_not_wrapped (view b).
Proof.
  intros [G L] Hc Hw. split; [|split].
  - unfold printable_view, view. apply Forall_skipn_of.
    eapply Forall_impl; [|exact Hc]. intros l Hl. eapply Forall_impl; [|exact Hl].
    intros x Hx. apply ch_ok_printable, Hx.
  - unfold lines_wf, view. apply Forall_skipn_of. exact Hw.
  - apply InvLemmas.lnw_view'; assumption.
Qed.

Lemma text_split {A} (s1 s2 s3 s4a s4b s5 s6 C : list A) :
  s1 ++ s2 ++ s3 ++ s4a ++ s4b ++ s5 ++ s6 ++ C
  = (s1 ++ s2 ++ s3) ++ (s4a ++ s4b ++ s5 ++ s6) ++ C.
Proof. rewrite <- !app_assoc. reflexivity. Qed.

Lemma feed_split v0 (A B C : list N) v3 v6 vf :
  feed_chars v0 A = Ok v3 -> feed_chars v3 B = Ok v6 -> feed_chars v6 C = Ok vf ->
  feed_chars v0 (A ++ B ++ C) = Ok vf.
Proof. intros H1 H2 H3. apply (sim_app _ _ _ v3 _ H1). apply (sim_app _ _ _ v6 _ H2). exact H3. Qed.

(** * from the restored terminal to [holds_C11] *)

Lemma finish v dt vf Bact Boff asc dd :
  let t := vterm v in
  Inv v -> PReach (vparser v) ->
  feed_chars (vt_new (cols t) (rows t) None) dt = Ok vf ->
  Sim vf (mkTerm (cols t) (rows t) Bact Boff (active t) None (cur_col t) (cur_row t) (cur_vis t)
                 (tpen t) (cs0 t) (cs1 t) (acs t) (tabs t) (ins t) (org t) (awm t) (nlm t) (ckm t)
                 (pend t) (top t) (bot t) (sctx t) asc dd false) ->
  view Bact = view (buf t) -> bcols Bact = cols t -> brows Bact = rows t ->
  clamp_ctx asc (cols t) (rows t) = clamp_ctx (asctx t) (cols t) (rows t) ->
  (active t = Alternate ->
   view Boff = view (other t) /\ bcols Boff = bcols (other t) /\ brows Boff = brows (other t)) ->
  exists r o,
    feed_str (vt_new (cols t) (rows t) None) (dt ++ parser_dump (vparser v)) = Ok (r, o)
    /\ holds_C11 v r = true.
Proof.
  cbv zeta. intros [HP HT] HR F (HG & HTf & HS) V1 V2 V3 HC HO.
  destruct (sim_parser (vparser v) vf HP HR HG) as (p' & Fp & Op).
  set (u := vterm vf) in *.
  pose proof (vt_flush_eq (mkVt p' u) HTf) as Ffl. rsimp_in Ffl.
  eexists. eexists. split.
  - unfold feed_str. rewrite (sim_app _ _ _ vf _ F Fp). cbn [bind]. exact Ffl.
  - pose proof HS as H0. destruct H0.
    pose proof rd_buf as [Bl Bc Br _]. pose proof rd_other as [Ol Oc Or _].
    rsimp_in Bc. rsimp_in Br. rsimp_in Oc. rsimp_in Or.
    apply holds_C11_intro; rsimp;
      try (symmetry; assumption).
    + (* asctx *) change (asctx (flushed u)) with (asctx u). change (cols (flushed u)) with (cols u).
      change (rows (flushed u)) with (rows u). rewrite rd_asctx, rd_cols, rd_rows. rsimp. symmetry. exact HC.
    + (* xtw *) rewrite (ti_xtw _ HT). symmetry. exact rd_xtw.
    + (* view *) rewrite view_flushed, (RB_view _ _ _ rd_buf). rsimp. symmetry. exact V1.
    + (* bcols *) change (bcols (buf (flushed u))) with (bcols (buf u)).
      rewrite Bc, V2. apply (ti_bcols _ HT).
    + (* brows *) change (brows (buf (flushed u))) with (brows (buf u)).
      rewrite Br, V3. apply (ti_brows _ HT).
    + (* other *) intros HA. destruct (HO HA) as (W1 & W2 & W3).
      change (other (flushed u)) with (other u).
      rewrite (RB_view _ _ _ rd_other), Oc, Or. rsimp. repeat split; symmetry; assumption.
    + exact Op.
Qed.

(** * the theorem *)

Theorem C11_dump : forall v,
  Inv v -> PReach (vparser v) -> PensInv (vterm v) -> CharsInv (vterm v) -> MarginsInv (vterm v) ->
  dumpable' (vterm v) -> kf1_C11 (vterm v) = false -> kf2_C11 (vterm v) = false ->
  exists d r o,
    vt_dump v = Ok d
    /\ feed_str (vt_new (cols (vterm v)) (rows (vterm v)) None) d = Ok (r, o)
    /\ holds_C11 v r = true.
Proof.
  intros v HI HR HPen HCh HM (HD & HA1 & HA2) Hk1 Hk2.
  destruct (vt_dump_ok v HI) as (d & Hd). exists d.
  pose proof HI as [HP HT]. set (t := vterm v) in *.
  pose proof (ti_cols _ HT) as Hc. pose proof (ti_rows _ HT) as Hr.
  assert (Hc2 : (N.of_nat (cols t) <= 65534)%N) by (unfold dumpable in HD; lia).
  assert (Hr2 : (N.of_nat (rows t) <= 65535)%N) by (unfold dumpable in HD; lia).
  pose proof (ti_sctx _ HT) as [Hs1 Hs2].
  pose proof HPen as (Pp & Pb & Po & Ps & Pa). pose proof HCh as [Cb Co].
  destruct (buffer_facts _ (ti_buf _ HT) Cb Pb) as (Fb1 & Fb2 & Fb3).
  destruct (buffer_facts _ (ti_other _ HT) Co Po) as (Fo1 & Fo2 & Fo3).
  (* split the dump *)
  pose proof Hd as Hd0.
  unfold vt_dump in Hd. apply bind_ok in Hd as (a & Ha & Hd). apply bind_ok in Hd as (b & Hb & Hd).
  apply Ok_inj in Hd. subst d.
  assert (Eb : b = parser_dump (vparser v)).
  { unfold parser_dumpM in Hb. destruct (cur_param (vparser v) <? length (params (vparser v))); [|discriminate].
    apply Ok_inj in Hb. symmetry. exact Hb. }
  subst b. fold t in Ha.
  destruct (active t) eqn:HA.
  - (* the original is on the primary screen *)
    unfold term_dump, primary_buffer, alternate_buffer, is_alt in Ha. rewrite HA in Ha.
    cbv beta iota zeta in Ha.
    apply bind_ok in Ha as (s1 & D1 & Ha). cbn [bind] in Ha.
    apply bind_ok in Ha as (s9b & D9 & Ha). apply Ok_inj in Ha. subst a.
    destruct (sim_head (cols t) (rows t) (buf t) (sctx t) (tabs t) s1 Hc Hr Hc2 Hr2
                (proj1 (ti_buf _ HT)) (ti_bcols _ HT) (ti_brows _ HT) Fb1 Fb2 Fb3 (ti_tabs _ HT) Hs1 Hs2 Ps D1)
      as (v3 & B1 & x3 & y3 & z3 & F3 & S3 & V1 & G1 & G2 & G3).
    destruct (sim_mid_primary (cols t) (rows t) v3 B1 _ x3 y3 z3 (tabs t) (sctx t) (asctx t) _
                Hc Hr Hc2 Hr2 G1 G2 Hs1 Hs2 Pa HA1 HA2 S3)
      as (v6 & Boff & x6 & y6 & p6 & z6 & asc & F6 & S6 & HC).
    rewrite <- HA in S6.
    destruct (sim_tail t v6 B1 Boff x6 y6 p6 z6 (sctx t) asc _ s9b HT HM HPen HCh HD Hk1 V1 S6 D9)
      as (vf & Ff & Sf).
    rewrite text_split in Hd0 |- *.
    destruct (finish v _ vf B1 Boff asc _ HI HR (feed_split _ _ _ _ _ _ _ F3 F6 Ff) Sf V1 G1 G2 HC)
      as (r & o & Fr & Hh).
    { fold t. rewrite HA. discriminate. }
    exists r, o. split; [exact Hd0|]. split; assumption.
  - (* the original is on the alternate screen *)
    assert (Hgeo : bcols (other t) = cols t /\ brows (other t) = rows t).
    { unfold kf2_C11, is_alt_b in Hk2. fold t in Hk2. rewrite HA in Hk2. cbn [btype_eqb andb] in Hk2. lia. }
    destruct Hgeo as [Hg1 Hg2].
    pose proof (ti_parked _ HT) as Hpk. rewrite HA, Hg1, Hg2 in Hpk. destruct Hpk as [Hp1 Hp2].
    unfold term_dump, primary_buffer, alternate_buffer, is_alt in Ha. rewrite HA in Ha.
    cbv beta iota zeta in Ha.
    apply bind_ok in Ha as (s1 & D1 & Ha).
    apply bind_ok in Ha as (s4b & D4 & Ha).
    apply bind_ok in D4 as (s4 & D4 & E4). apply Ok_inj in E4. subst s4b.
    apply bind_ok in Ha as (s9b & D9 & Ha). apply Ok_inj in Ha. subst a.
    destruct (sim_head (cols t) (rows t) (other t) (asctx t) (tabs t) s1 Hc Hr Hc2 Hr2
                (proj1 (ti_other _ HT)) Hg1 Hg2 Fo1 Fo2 Fo3 (ti_tabs _ HT) Hp1 Hp2 Pa D1)
      as (v3 & B1 & x3 & y3 & z3 & F3 & S3 & V1 & G1 & G2 & G3).
    destruct (sim_mid_alternate (cols t) (rows t) v3 B1 _ x3 y3 z3 (tabs t) (asctx t) (sctx t) _ (buf t) s4
                Hc Hr Hc2 Hr2 Hs1 Hs2 Ps (proj1 (ti_buf _ HT)) (ti_bcols _ HT) (ti_brows _ HT)
                Fb1 Fb2 Fb3 D4 S3)
      as (v6 & B2 & x6 & y6 & p6 & z6 & F6 & S6 & V2 & G4 & G5).
    rewrite <- HA in S6.
    destruct (sim_tail t v6 B2 B1 x6 y6 p6 z6 (sctx t) (asctx t) _ s9b HT HM HPen HCh HD Hk1 V2 S6 D9)
      as (vf & Ff & Sf).
    rewrite text_split in Hd0 |- *.
    destruct (finish v _ vf B2 B1 (asctx t) _ HI HR (feed_split _ _ _ _ _ _ _ F3 F6 Ff) Sf V2 G4 G5 eq_refl)
      as (r & o & Fr & Hh).
    { intros _. split; [exact V1|]. split; [rewrite G1; symmetry; exact Hg1|rewrite G2; symmetry; exact Hg2]. }
    exists r, o. split; [exact Hd0|]. split; assumption.
Qed.
Print Assumptions C11_dump.

(** * every state reached through the public API *)

Lemma stepM_PReach v o v' ou :
  PInv (vparser v) -> PReach (vparser v) -> stepM v o = Ok (v', ou) -> PReach (vparser v').
Proof.
  intros HP HR E. destruct o as [c| |c r].
  - apply stepM_feed_inv in E. unfold vt_feed in E. rewrite (feedM_char _ c HP) in E. cbn [bind] in E.
    assert (Ep : vparser v' = feed_step (vparser v) c).
    { destruct (feed_emit (vparser v) c) as [f|].
      - apply bind_ok in E as (t1 & _ & E). apply Ok_inj in E. subst v'. reflexivity.
      - apply Ok_inj in E. subst v'. reflexivity. }
    rewrite Ep. apply feed_step_PReach; assumption.
  - apply stepM_flush_inv, vt_flush_frame in E. destruct E as (-> & _). exact HR.
  - apply stepM_resize_inv in E as (t1 & _ & E). apply vt_flush_frame in E. destruct E as (-> & _).
    destruct v; exact HR.
Qed.

Lemma runM_PReach_Margins : forall ops v v',
  Inv v -> PReach (vparser v) -> MarginsInv (vterm v) -> Forall op_ok ops -> runM v ops = Ok v' ->
  PReach (vparser v') /\ MarginsInv (vterm v').
Proof.
  induction ops as [|o ops IH]; intros v v' HI HR HM HF E; cbn [runM] in E.
  - apply Ok_inj in E. subst v'. split; assumption.
  - inversion HF as [|? ? Ho HF']; subst.
    apply bind_ok in E as ([v1 ou] & E1 & E). cbn [fst] in E.
    destruct (stepM_Inv v o HI Ho) as (v1' & ou' & E1' & HI1). rewrite E1 in E1'.
    apply Ok_inj in E1'. injection E1' as <- <-.
    exact (IH v1 v' HI1 (stepM_PReach _ _ _ _ (proj1 HI) HR E1) (stepM_MarginsInv _ _ _ _ HM E1) HF' E).
Qed.

(** C11 for every state reachable from [Vt::new] by feeds, flushes and resizes, outside the
    three known limitations *)
Theorem C11_dump_run : forall c r l ops v,
  1 <= c -> 1 <= r -> Forall op_ok ops -> runM (vt_new c r l) ops = Ok v ->
  dumpable' (vterm v) -> kf1_C11 (vterm v) = false -> kf2_C11 (vterm v) = false ->
  exists d r' o,
    vt_dump v = Ok d
    /\ feed_str (vt_new (cols (vterm v)) (rows (vterm v)) None) d = Ok (r', o)
    /\ holds_C11 v r' = true.
Proof.
  intros c r l ops v Hc Hr HF E HD Hk1 Hk2.
  destruct (C01_no_panic c r l ops Hc Hr HF) as (v1 & E1 & HI). rewrite E in E1. apply Ok_inj in E1. subst v1.
  destruct (runM_PReach_Margins ops (vt_new c r l) v (vt_new_Inv c r l Hc Hr) init_parser_PReach
              (term_new_MarginsInv c r l) HF E) as [HR HM].
  destruct (runM_invs ops (vt_new c r l) v init_parser_PInv (term_new_PensInv c r l)
              (term_new_CharsInv c r l) E) as (_ & HPen & HCh).
  exact (C11_dump v HI HR HPen HCh HM HD Hk1 Hk2).
Qed.
Print Assumptions C11_dump_run.
