(** Property C11, an auxiliary invariant: the scroll region is either a genuine region
    ([top < bot]) or the whole screen.  [TInv] only has [top <= bot]; [Terminal::dump] re-emits
    the region as [CSI top+1 ; bot+1 r], which DECSTBM ignores unless [top < bot], so the dump
    round trip needs the stronger fact.  It holds at construction and is preserved by every
    operation ([execute], [term_resize]; [changes]/[gc] do not touch the margins). *)

From Coq Require Import Lia ZArith ZifyBool ZifyNat ZifyN.
From Avt Require Import Oracles.Step Proofs.Inv Proofs.ListLemmas Proofs.TermEasy Proofs.Tabs
  Proofs.Frames.
Ltac Zify.zify_post_hook ::= Z.div_mod_to_equations.

Ltac rsimp :=
  cbn [set cols rows buf other active sb_limit cur_col cur_row cur_vis tpen cs0 cs1 acs tabs ins org
       awm nlm ckm pend top bot sctx asctx dirty xtw sc_col sc_row sc_pen sc_origin sc_awm
       lines bcols brows blimit trim_needed].

Definition MarginsInv (t : term) : Prop :=
  top t < bot t \/ (top t = 0 /\ bot t = rows t - 1).

Lemma MarginsInv_ext t t' :
  rows t' = rows t -> top t' = top t -> bot t' = bot t -> MarginsInv t -> MarginsInv t'.
Proof. unfold MarginsInv. intros -> -> ->. auto. Qed.

Theorem term_new_MarginsInv : forall c r l, MarginsInv (term_new_gen c r l).
Proof. intros c r l. right. split; reflexivity. Qed.

Lemma keepD_margins t t' : keepD t' = keepD t -> MarginsInv t -> MarginsInv t'.
Proof.
  unfold keepD. intros H. injection H; intros. apply (MarginsInv_ext t); assumption.
Qed.

Lemma keepR_margins t t' : keepR t' = keepR t -> MarginsInv t -> MarginsInv t'.
Proof. intros H. apply keepD_margins, keepR_keepD, H. Qed.

Theorem term_resize_MarginsInv : forall t c r t',
  MarginsInv t -> term_resize t c r = Ok t' -> MarginsInv t'.
Proof.
  intros t c r t' H E. rewrite term_resize_eq in E. apply reflow_keepR in E.
  apply (keepR_margins _ _ E). unfold MarginsInv in *. rsimp.
  destruct (Nat.compare_spec r (rows t)); auto. subst r. exact H.
Qed.

Lemma home_margins t : MarginsInv t -> MarginsInv (move_cursor_home t).
Proof. intros H. apply (keepD_margins _ _ (home_keepD t)), H. Qed.

Lemma decstbm_MarginsInv t tp bt : MarginsInv t -> MarginsInv (decstbm t tp bt).
Proof.
  intros H. unfold decstbm. apply home_margins.
  destruct ((as_usize tp 1 - 1 <? as_usize bt (rows t) - 1) && (as_usize bt (rows t) - 1 <? rows t)) eqn:E;
    [|exact H].
  left. rsimp. lia.
Qed.

Theorem execute_MarginsInv : forall t f t',
  MarginsInv t -> execute t f = Ok t' -> MarginsInv t'.
Proof.
  intros t f t' HM H. destruct (is_cb_fn f) eqn:E.
  - pose proof (exec_cb_tfr _ _ _ E H) as F.
    apply (MarginsInv_ext t); [exact (tfr_rows _ _ F)|exact (tfr_top _ _ F)|exact (tfr_bot _ _ F)|exact HM].
  - destruct f; try discriminate E.
    all: try (apply (MarginsInv_ext t); [non_cb H t|non_cb H t|non_cb H t|exact HM]).
    + (* Decrst *) cbn [execute] in H. apply decrst_keepD in H. exact (keepD_margins _ _ H HM).
    + (* Decset *) cbn [execute] in H. apply decset_keepD in H. exact (keepD_margins _ _ H HM).
    + (* Decstbm *) cbn [execute] in H. injection H as <-. apply decstbm_MarginsInv, HM.
    + (* Decstr *) cbn [execute] in H. injection H as <-. right. destruct t; split; reflexivity.
    + (* Ris *) cbn [execute] in H. injection H as <-. right. destruct t; split; reflexivity.
    + (* Xtwinops *) cbn [execute] in H. unfold xtwinops in H. destruct (xtw t).
      * destruct op as [c r]. exact (term_resize_MarginsInv _ _ _ _ HM H).
      * injection H as <-. exact HM.
Qed.
Print Assumptions execute_MarginsInv.
Print Assumptions term_resize_MarginsInv.
Print Assumptions term_new_MarginsInv.

(** [changes] and [term_gc] (the tail of every public call) do not touch the margins *)
Theorem vt_flush_MarginsInv : forall v v' o,
  MarginsInv (vterm v) -> vt_flush v = Ok (v', o) -> MarginsInv (vterm v').
Proof.
  intros v v' o HM E. unfold vt_flush, changes in E.
  apply bind_ok in E as ([t1 dr] & E1 & E). injection E as <- _.
  unfold term_gc in E1. apply bind_ok in E1 as ([b d] & _ & E1).
  assert (Et : t1 = vterm v <| dirty := dirty_clear (dirty (vterm v)) |> <| buf := b |>).
  { revert E1. rsimp. destruct (active (vterm v)); intros E1; injection E1 as <- _; reflexivity. }
  subst t1. apply (MarginsInv_ext (vterm v)); [| | |exact HM]; destruct v as [p t]; reflexivity.
Qed.
Print Assumptions vt_flush_MarginsInv.

Theorem stepM_MarginsInv : forall v o v' ou,
  MarginsInv (vterm v) -> stepM v o = Ok (v', ou) -> MarginsInv (vterm v').
Proof.
  intros v o v' ou HM. destruct o as [c| |c r]; cbn [stepM].
  - intros E. apply bind_ok in E as (v1 & E1 & E). injection E as <- _.
    unfold vt_feed in E1. apply bind_ok in E1 as ([p f] & _ & E1).
    destruct f as [f|].
    + apply bind_ok in E1 as (t1 & Et & E1). injection E1 as <-. cbn [vterm].
      exact (execute_MarginsInv _ _ _ HM Et).
    + injection E1 as <-. exact HM.
  - intros E. exact (vt_flush_MarginsInv _ _ _ HM E).
  - intros E. apply bind_ok in E as (t1 & E1 & E).
    apply (vt_flush_MarginsInv (v <| vterm := t1 |>) v' ou); [|exact E].
    destruct v; cbn. exact (term_resize_MarginsInv _ _ _ _ HM E1).
Qed.
Print Assumptions stepM_MarginsInv.
