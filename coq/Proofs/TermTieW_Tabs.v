(** CTC TBC and the tab movers (leaf of Proofs/TermTieW.v; see Proofs/TermTieW_Core.v for the method) *)
From Coq Require Import Lia ZArith ZifyBool ZifyNat ZifyN.
From Avt Require Import Oracles.Step Proofs.Inv Proofs.TermEasy Gen.TermFns Proofs.TermTie_Core Proofs.InvStep
  Proofs.TermTieW_Core.
Ltac Zify.zify_post_hook ::= Z.div_mod_to_equations.
Local Open Scope Z_scope.

Lemma w_ctc_eq t op : ZW t -> w_ctc Om (zabs t) (wabs t) op = wres (Ok (ctc t op)).
Proof. intros H. destruct op; w_tie t H. Qed.

Lemma w_tbc_eq t sc : ZW t -> w_tbc Om (zabs t) (wabs t) sc = wres (Ok (tbc t sc)).
Proof. intros H. destruct sc; w_tie t H. Qed.

Lemma w_move_cursor_to_next_tab_eq t n : ZW t ->
  w_move_cursor_to_next_tab Om (zabs t) (wabs t) (Z.of_nat n) = wres (move_cursor_to_next_tab t n).
Proof. intros H. w_tie t H. Qed.

Lemma w_move_cursor_to_prev_tab_eq t n : ZW t ->
  w_move_cursor_to_prev_tab Om (zabs t) (wabs t) (Z.of_nat n) = wres (move_cursor_to_prev_tab t n).
Proof. intros H. w_tie t H. Qed.

Lemma w_ht_eq t : ZW t -> w_ht Om (zabs t) (wabs t) = wres (move_cursor_to_next_tab t 1).
Proof. intros H. w_tie t H. Qed.

Lemma w_cht_eq t n : ZW t ->
  w_cht Om (zabs t) (wabs t) (Z.of_N n) = wres (move_cursor_to_next_tab t (as_usize n 1)).
Proof. intros H. w_tie t H. Qed.

Lemma w_cbt_eq t n : ZW t ->
  w_cbt Om (zabs t) (wabs t) (Z.of_N n) = wres (move_cursor_to_prev_tab t (as_usize n 1)).
Proof. intros H. w_tie t H. Qed.

