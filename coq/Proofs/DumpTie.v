(** The tie between the hand-written dump model (Model/Dump.v: [sgr_params], [pen_dump], [ctx_is_default],
    [buf_dump], [term_dump]; Model/Parser.v: [param_show], [parser_dump]; Model/Vt.v: [vt_dump]) and the Gallina
    regenerated from the Rust source on every run (Gen/DumpFns.v, by translate/dump2coq.py).  Property C11
    ("dump() reproduces the terminal") is proved about the model; these theorems carry it over to the code.

    [x =~ y] (Proofs/BufTie.v) is equality up to the panic SITE number.  The ties are unconditional except where
    the honest translation of the Rust differs from the model outside the invariants (FINDINGS D1 - D4 below,
    each with a concrete input); there the hypothesis is the weakest one that excludes the difference, and a
    corollary shows that the invariant of reachable states ([TInv], [PInv], [pen_wf]) implies it. *)

From Coq Require Import Lia ZArith ZifyBool ZifyNat ZifyN.
From Avt Require Import Model.Dump Model.Vt Gen.Resets Proofs.Inv Proofs.InvStep Proofs.PenInv Proofs.ListLemmas Proofs.BufTie Gen.BufFns Gen.SgrFns Gen.DumpFns.

Local Arguments Nat.sub : simpl never.
Local Arguments Nat.add : simpl never.
Local Arguments Nat.leb : simpl never.
Local Arguments Nat.ltb : simpl never.
Local Arguments Nat.eqb : simpl never.
Local Arguments N.add : simpl never.
Local Arguments N.ltb : simpl never.
Local Arguments N.eqb : simpl never.
Local Arguments N.land : simpl never.
(* the decimal printer is never unfolded by the proofs: a mismatch between two numbers must fail at once *)
Local Opaque show_N show_nat N.add.

Lemma same_sym {A} (x y : res A) : x =~ y -> y =~ x.
Proof. destruct x, y; cbn; auto. Qed.

Lemma same_trans {A} (x y z : res A) : x =~ y -> y =~ z -> x =~ z.
Proof. destruct x, y, z; cbn; try tauto; congruence. Qed.

(** * color.rs, pen.rs *)

Theorem tie_sgr_params : forall c base, g_sgr_params c base = sgr_params c base.
Proof. intros [i|r g b] base; reflexivity. Qed.
Print Assumptions tie_sgr_params.

Theorem tie_pen_dump : forall p, g_pen_dump p = pen_dump p.
Proof.
  intros [[c|] [c'|] i a]; unfold g_pen_dump, pen_dump; cbn [foreground background intensity].
  - rewrite (tie_sgr_params c 30), (tie_sgr_params c' 40). reflexivity.
  - rewrite (tie_sgr_params c 30). reflexivity.
  - rewrite (tie_sgr_params c' 40). reflexivity.
  - reflexivity.
Qed.
Print Assumptions tie_pen_dump.

(** FINDING D1.  [Pen::is_default] tests the five attribute bits one by one, the model compares [attrs] with 0:
    they differ on a pen with one of the three unused bits of the [u8] set (no operation sets them: [pen_wf]). *)
Example D1_pen_is_default :
  let p := mkPen None None Normal 32 in (g_pen_is_default p, pen_is_default p) = (true, false).
Proof. vm_compute. reflexivity. Qed.

Lemma attrs_bits a : (a < 32)%N ->
  (N.land a ITALIC_MASK =? 0)%N && (N.land a UNDERLINE_MASK =? 0)%N && (N.land a STRIKETHROUGH_MASK =? 0)%N
  && (N.land a BLINK_MASK =? 0)%N && (N.land a INVERSE_MASK =? 0)%N = (a =? 0)%N.
Proof.
  intros H. destruct a as [|p]; [reflexivity|].
  do 5 (try destruct p as [p|p|]); try reflexivity; exfalso; lia.
Qed.

Theorem tie_pen_is_default : forall p, (attrs p < 32)%N -> g_pen_is_default p = pen_is_default p.
Proof.
  intros [[c|] [c'|] i a] H; try reflexivity. cbn [attrs] in H.
  unfold g_pen_is_default, pen_is_default, pen_eqb, default_pen, g_is_italic, g_is_underline, g_is_strikethrough,
    g_is_blink, g_is_inverse.
  cbn [foreground background intensity attrs opt_eqb andb].
  destruct i; cbn [inten_eqb andb]; try reflexivity.
  rewrite !negb_involutive. apply attrs_bits. exact H.
Qed.
Print Assumptions tie_pen_is_default.

(** the hypothesis is the weakest possible: for a pen with the default colours and intensity the two agree ONLY
    below 32 (or when all five tested bits are clear and so is the rest) *)
Lemma tie_pen_is_default_conv : forall a,
  g_pen_is_default (mkPen None None Normal a) = pen_is_default (mkPen None None Normal a) ->
  (a < 32)%N \/ N.land a 31 <> 0%N.
Proof.
  intros a H. destruct (N.ltb_spec a 32) as [Hlt|Hge]; [left; exact Hlt|right].
  intros Hz. revert H.
  unfold g_pen_is_default, pen_is_default, pen_eqb, default_pen, g_is_italic, g_is_underline, g_is_strikethrough,
    g_is_blink, g_is_inverse.
  cbn [foreground background intensity attrs opt_eqb inten_eqb andb]. rewrite !negb_involutive.
  assert (Hb : forall m, N.land 31 m = m -> N.land a m = 0%N).
  { intros m Hm. rewrite <- Hm, N.land_assoc, Hz. reflexivity. }
  unfold ITALIC_MASK, UNDERLINE_MASK, STRIKETHROUGH_MASK, BLINK_MASK, INVERSE_MASK.
  rewrite !Hb by reflexivity. cbn [N.eqb andb].
  destruct (N.eqb_spec a 0) as [->|]; [lia|discriminate].
Qed.

(** * terminal.rs: SavedCtx *)

Theorem tie_ctx_is_default : forall c, (attrs (sc_pen c) < 32)%N -> g_ctx_is_default c = ctx_is_default c.
Proof.
  intros c H. unfold g_ctx_is_default, ctx_is_default. rewrite tie_pen_is_default by exact H. reflexivity.
Qed.
Print Assumptions tie_ctx_is_default.

Example D1_ctx_is_default :
  let c := mkCtx 0 0 (mkPen None None Normal 32) false true in (g_ctx_is_default c, ctx_is_default c) = (true, false).
Proof. vm_compute. reflexivity. Qed.

(** * parser.rs *)

Lemma g_join_eq : forall sep l, g_join sep l = join_with sep l.
Proof. intros sep. induction l as [|x [|y r] IH]; [reflexivity|reflexivity|]. cbn [g_join join_with] in *. now rewrite IH. Qed.

Lemma join_colon : forall x r,
  join_with [58%N] (map show_N (x :: r)) = show_N x ++ flat_map (fun p => [58%N] ++ show_N p) r.
Proof.
  intros x r. revert x. induction r as [|y r IH]; intros x.
  - cbn. now rewrite app_nil_r.
  - change (join_with [58%N] (map show_N (x :: y :: r)))
      with (show_N x ++ [58%N] ++ join_with [58%N] (map show_N (y :: r))).
    rewrite IH. cbn [flat_map]. now rewrite <- !app_assoc.
Qed.

(** [impl Display for Param]: [param.parts()] slices [..=cur_part] (a panic for [cur_part >= 6]) and the empty
    slice is [unreachable!()]; the model's [param_show] is total.  FINDING D2 (outside [ParamInv]). *)
Theorem tie_param_fmt : forall q, (cur_part q < length (parts q))%nat -> g_param_fmt q = Ok (param_show q).
Proof.
  intros q H. unfold g_param_fmt, param_show, pparts.
  replace (cur_part q <? length (parts q))%nat with true by (symmetry; apply Nat.ltb_lt; exact H).
  cbn [guard bind].
  destruct (parts q) as [|x l] eqn:E; [cbn in H; lia|].
  cbn [firstn]. destruct (firstn (cur_part q) l) as [|y r] eqn:F.
  - reflexivity.
  - rewrite join_colon. reflexivity.
Qed.
Print Assumptions tie_param_fmt.

Example D2_param_fmt :
  let q := mkParam 0 [] in (g_param_fmt q, param_show q) = (Panic 204, []).
Proof. vm_compute. reflexivity. Qed.

Lemma tie_param_fmt_conv : forall q, is_ok (g_param_fmt q) = true -> (cur_part q < length (parts q))%nat.
Proof.
  intros q. unfold g_param_fmt. destruct (Nat.ltb_spec (cur_part q) (length (parts q))); [auto|discriminate].
Qed.

Lemma mapM_param_fmt : forall l, forallb param_clear_ok l = true -> g_mapM g_param_fmt l = Ok (map param_show l).
Proof.
  induction l as [|q l IH]; [reflexivity|]. cbn [forallb g_mapM map]. intros H.
  apply andb_prop in H as [Hq Hl]. unfold param_clear_ok in Hq. apply Nat.ltb_lt in Hq.
  rewrite tie_param_fmt by exact Hq. cbn [bind]. rewrite IH by exact Hl. reflexivity.
Qed.

Definition needs_params (s : pstate) : bool :=
  match s with CsiParam | DcsParam => true | _ => false end.

(** [Parser::dump] slices [self.params[..=self.cur_param]] (a panic for [cur_param >= 32]) and formats every
    parameter of the slice, in the two states that print parameters only.  [clear_ok] is the model's guard of
    [Parser::clear], which touches the same slices. *)
Theorem tie_parser_dump : forall p,
  (needs_params (pst p) = true -> clear_ok p = true) -> g_parser_dump p = Ok (parser_dump p).
Proof.
  intros p H. unfold g_parser_dump, parser_dump, params_str, inter_str.
  destruct (pst p); try reflexivity;
    (specialize (H eq_refl); unfold clear_ok in H; apply andb_prop in H as [H1 H2]; rewrite H1; cbn [guard bind];
     change (fun v_param : param => g_param_fmt v_param) with g_param_fmt;
     rewrite mapM_param_fmt by exact H2; cbn [bind]; rewrite g_join_eq; reflexivity).
Qed.
Print Assumptions tie_parser_dump.

(** the model's [parser_dumpM] (used by [vt_dump]) guards [cur_param < 32] in EVERY state: it panics (site 4) in
    states where the Rust code does not look at the parameters.  FINDING D3 (outside [PInv]). *)
Example D3_parser_dump :
  let p := mkParser Ground [] 0 None in (g_parser_dump p, parser_dumpM p) = (Ok [], Panic 4).
Proof. vm_compute. reflexivity. Qed.

Lemma PInv_clear_ok : forall p, PInv p -> clear_ok p = true.
Proof.
  intros p (Hlen & Hcur & Hall & _). unfold clear_ok.
  apply andb_true_intro; split; [apply Nat.ltb_lt; lia|].
  apply forallb_forall. intros q Hq.
  assert (Hq' : In q (params p)) by (rewrite <- (firstn_skipn (S (cur_param p))); apply in_or_app; left; exact Hq).
  clear Hq; rename Hq' into Hq.
  rewrite Forall_forall in Hall. destruct (Hall q Hq) as (Hl & Hc & _).
  unfold param_clear_ok. apply Nat.ltb_lt. lia.
Qed.

Theorem tie_parser_dumpM : forall p, PInv p -> g_parser_dump p = parser_dumpM p.
Proof.
  intros p H. rewrite tie_parser_dump by (intros _; apply PInv_clear_ok; exact H).
  unfold parser_dumpM. destruct H as (Hlen & Hcur & _).
  replace (cur_param p <? length (params p))%nat with true by (symmetry; apply Nat.ltb_lt; lia). reflexivity.
Qed.
Print Assumptions tie_parser_dumpM.

(** * buffer.rs *)

Lemma flat_map_const {A} (x : A) a n : flat_map (fun _ : nat => [x]) (seq a n) = repeat x n.
Proof. revert a. induction n as [|n IH]; intros a; [reflexivity|]. cbn [seq flat_map repeat app]. now rewrite IH. Qed.

(** the cell [self.buffer[(col, row)]] in terms of the model's [get_row] (as used by [term_dump]) *)
Definition cell_at (b : buffer) (c r : nat) : res cell :=
  l <- get_row b r ;; match nth_error (cells l) c with Some x => Ok x | None => Panic 83 end.

Theorem tie_buffer_index b c r : g_buffer_index b c r =~ cell_at b c r.
Proof.
  unfold g_buffer_index, cell_at, get_row.
  pose proof (tie_buffer_view b) as Hv. unfold viewM in Hv.
  destruct (view_ok b) eqn:Ev; cbn [andb].
  - destruct (g_buffer_view b) as [v|]; [|contradiction]. cbn in Hv. subst v. cbn [bind].
    unfold nthM, view. rewrite nth_error_skipn_add.
    destruct (r <? brows b) eqn:Er.
    + destruct (nth_error (lines b) (sb_len b + r)) as [l|]; cbn [bind same]; [|exact I].
      destruct (nth_error (cells l) c); cbn; auto.
    + replace (nth_error (lines b) (sb_len b + r)) with (@None line); [exact I|].
      symmetry. apply nth_error_None. unfold view_ok, sb_len in *. lia.
  - destruct (g_buffer_view b); [contradiction|]. exact I.
Qed.
Print Assumptions tie_buffer_index.

(** the loop of [rep_encode_cell_text] as a function: the text flushed so far and the final [(prev, count)] *)
Fixpoint rep_loop (prev : N) (count : nat) (l : list cell) : list N * (N * nat) :=
  match l with
  | [] => ([], (prev, count))
  | c :: r => if (ch c =? prev)%N then rep_loop prev (S count) r
              else let '(s, st) := rep_loop (ch c) 1 r in (rep_flush prev count ++ s, st)
  end.

Lemma rep_loop_go : forall l prev count,
  let '(s, (p, c)) := rep_loop prev count l in
  s ++ rep_flush p c = rep_go prev count l /\ (1 <= count -> 1 <= c).
Proof.
  induction l as [|x l IH]; intros prev count; cbn [rep_loop rep_go].
  - split; [reflexivity|auto].
  - destruct (ch x =? prev)%N.
    + specialize (IH prev (S count)). destruct (rep_loop prev (S count) l) as [s [p c]].
      destruct IH as [H1 H2]. split; [exact H1|intros _; apply H2; lia].
    + specialize (IH (ch x) 1). destruct (rep_loop (ch x) 1 l) as [s [p c]].
      destruct IH as [H1 H2]. split; [rewrite <- app_assoc, H1; reflexivity|intros _; apply H2; lia].
Qed.

Theorem tie_rep_encode b cs : g_buffer_rep_encode_cell_text b cs =~ rep_encode cs.
Proof.
  unfold g_buffer_rep_encode_cell_text, rep_encode. destruct cs as [|c0 r]; [exact I|]. cbn [g_next bind].
  match goal with |- context [g_for ?f _ _] => set (body := f) end.
  assert (Hloop : forall l prev count, 1 <= count -> g_for body l (prev, count) = Ok (rep_loop prev count l)).
  { induction l as [|x l IH]; intros prev count Hc; cbn [g_for rep_loop]; [reflexivity|].
    unfold body at 1. cbn beta iota. destruct (ch x =? prev)%N.
    - cbn [bind]. rewrite IH by lia. replace (count + 1) with (S count) by lia.
      destruct (rep_loop prev (S count) l) as [s [p c]]. reflexivity.
    - unfold rep_flush. destruct (5 <? count) eqn:E5.
      + replace (1 <=? count) with true by lia. cbn [guard bind]. rewrite IH by lia.
        destruct (rep_loop (ch x) 1 l) as [s [p c]]. reflexivity.
      + cbn [bind]. rewrite IH by lia. rewrite flat_map_const, Nat.sub_0_r.
        destruct (rep_loop (ch x) 1 l) as [s [p c]]. reflexivity. }
  rewrite Hloop by lia. pose proof (rep_loop_go r (ch c0) 1) as H.
  destruct (rep_loop (ch c0) 1 r) as [s [p c]]. destruct H as [H1 H2]. specialize (H2 (le_n 1)).
  cbn [bind]. rewrite <- H1. unfold rep_flush. destruct (5 <? c) eqn:E5.
  - replace (1 <=? c) with true by lia. reflexivity.
  - cbn [bind same]. rewrite flat_map_const, Nat.sub_0_r. reflexivity.
Qed.
Print Assumptions tie_rep_encode.

(** [Line::chunks] with the predicate of [Buffer::dump] (the iterator itself is hand-written in the prelude of
    Gen/DumpFns.v, pinned to the Rust text by the translator) *)
Lemma tie_chunks l : g_chunks (fun c1 c2 => negb (pen_eqb (cpen c1) (cpen c2))) l = chunks l.
Proof.
  unfold g_chunks, chunks. generalize (@nil cell). induction (cells l) as [|c r IH]; intros cur; [reflexivity|].
  cbn [g_chunks_go chunks_go]. destruct cur as [|x cur]; rewrite ?IH; reflexivity.
Qed.

(** the cut-off loop as a function: the final [(cutoff, wrapped)] *)
Fixpoint cut_loop (v : list line) (i : nat) (w : bool) (cutoff : nat) : nat * bool :=
  match v with
  | [] => (cutoff, w)
  | l :: r => cut_loop r (S i) (wrapped l) (if w || wrapped l || negb (line_is_blank l) then S i else cutoff)
  end.

Lemma cut_loop_fst : forall v i w c, fst (cut_loop v i w c) = dump_cutoff v i w c.
Proof. induction v as [|l r IH]; intros i w c; [reflexivity|]. cbn [cut_loop dump_cutoff]. apply IH. Qed.

(** [res] values compared on the text only (the loop also returns the final pen, the model does not) *)
Definition same_fst {S} (x : res (list N * S)) (y : res (list N)) : Prop :=
  match x, y with
  | Ok (s, _), Ok s' => s = s'
  | Panic _, Panic _ => True
  | _, _ => False
  end.

Theorem tie_buffer_dump b : g_buffer_dump b =~ buf_dump b.
Proof.
  unfold g_buffer_dump, buf_dump.
  pose proof (tie_buffer_view b) as Hv.
  destruct (g_buffer_view b) as [v|s], (viewM b) as [v'|s']; cbn in Hv; try contradiction; [subst v'|exact I].
  cbn [bind].
  (* the cut-off loop *)
  match goal with |- context [g_for ?f (enumerate v) _] => set (cut := f) end.
  assert (Hcut : forall l i w c, g_for cut (combine (seq i (length l)) l) (c, w) = Ok ([], cut_loop l i w c)).
  { induction l as [|x l IH]; intros i w c; [reflexivity|].
    cbn [length seq combine g_for cut_loop]. unfold cut at 1. cbn beta iota.
    change (g_line_is_blank x) with (Ok (line_is_blank x)).
    destruct (w || wrapped x) eqn:E; cbn [bind orb]; rewrite IH;
      replace (i + 1) with (S i) by lia; destruct (cut_loop l (S i) (wrapped x) _); reflexivity. }
  unfold enumerate. rewrite Hcut. cbn [bind].
  pose proof (cut_loop_fst v 0 false 0) as Hc. destruct (cut_loop v 0 false 0) as [cutoff w]. cbn [fst] in Hc.
  rewrite <- Hc. clear Hc w Hcut cut.
  destruct (1 <=? brows b); cbn [guard bind same]; [|exact I].
  (* the rows *)
  generalize (firstn cutoff v) as rows_. intros rows_.
  match goal with |- context [g_for ?f (combine _ rows_) _] => set (row := f) end.
  match eval unfold row in row with context [g_for ?f (g_chunks _ _) _] => set (chunk := f) in * end.
  assert (Hchunk : forall cks p, g_for chunk cks p =~ dump_chunks cks p).
  { induction cks as [|ck cks IH]; intros p; [reflexivity|].
    cbn [g_for dump_chunks]. unfold chunk at 1. destruct ck as [|c0 ck]; [exact I|].
    cbn [nthM nth_error bind]. rewrite tie_pen_dump.
    pose proof (tie_rep_encode b (c0 :: ck)) as Hr.
    destruct (negb (pen_eqb (cpen c0) p)); cbn [bind];
      (destruct (g_buffer_rep_encode_cell_text b (c0 :: ck)) as [body|], (rep_encode (c0 :: ck)) as [body'|];
       cbn in Hr; try contradiction; [subst body'|exact I]; cbn [bind];
       match goal with |- context [g_for chunk cks ?q] => specialize (IH q) end;
       destruct (g_for chunk cks _) as [[rest p'']|], (dump_chunks cks _) as [[rest' p''']|];
       cbn in IH; try contradiction; [|exact I]; injection IH as -> ->; cbn [bind same];
       rewrite <- ?app_assoc; reflexivity). }
  assert (Hrows : forall l i p, same_fst (g_for row (combine (seq i (length l)) l) p) (dump_rows l i (brows b - 1) p)).
  { induction l as [|x l IH]; intros i p; [reflexivity|].
    cbn [length seq combine g_for dump_rows]. unfold row at 1. cbn beta iota. fold chunk. rewrite tie_chunks.
    pose proof (Hchunk (chunks x) p) as Hc.
    destruct (g_for chunk (chunks x) p) as [[s p']|], (dump_chunks (chunks x) p) as [[s' p'']|];
      cbn in Hc; try contradiction; [|exact I]. injection Hc as -> ->. cbn [bind].
    specialize (IH (S i) p'').
    destruct (g_for row _ p'') as [[rest pe]|], (dump_rows l (S i) (brows b - 1) p'') as [rest'|];
      cbn in IH; try contradiction; [|exact I]. subst rest'. cbn [bind same_fst].
    rewrite <- app_assoc. reflexivity. }
  unfold enumerate. specialize (Hrows rows_ 0 default_pen). change g_pen_default with default_pen.
  destruct (g_for row _ default_pen) as [[s pe]|], (dump_rows rows_ 0 (brows b - 1) default_pen) as [s'|];
    cbn in Hrows; try contradiction; [|exact I]. subst s'. reflexivity.
Qed.
Print Assumptions tie_buffer_dump.

(** * terminal.rs: Terminal *)

(* from here on the callees are only used through their ties: a mismatch must not send [rewrite] / [reflexivity]
   into comparing their bodies *)
Local Opaque g_sgr_params sgr_params g_pen_dump pen_dump g_pen_is_default pen_is_default
  g_ctx_is_default ctx_is_default g_buffer_dump buf_dump g_buffer_index.

Lemma tie_primary_buffer t : g_term_primary_buffer t = primary_buffer t.
Proof. unfold g_term_primary_buffer, primary_buffer. destruct (active t); reflexivity. Qed.

Lemma tie_alternate_buffer t : g_term_alternate_buffer t = alternate_buffer t.
Proof. unfold g_term_alternate_buffer, alternate_buffer. destruct (active t); reflexivity. Qed.

(** step 9 of the model's [term_dump] (cursor position), as a function of the terminal *)
Definition dump_cursor (t : term) : list N :=
  let col := cur_col t in
  let row := cur_row t in
  if org t then
    if (row <? top t)%nat || (bot t <? row)%nat then
      CSI :: [117%N]
      ++ (match Nat.compare col (sc_col (sctx t)) with
          | Lt => CSI :: show_nat (sc_col (sctx t) - col) ++ [68%N]
          | Gt => CSI :: show_nat (col - sc_col (sctx t)) ++ [67%N]
          | Eq => []
          end)
      ++ (match Nat.compare row (sc_row (sctx t)) with
          | Lt => CSI :: show_nat (sc_row (sctx t) - row) ++ [65%N]
          | Gt => CSI :: show_nat (row - sc_row (sctx t)) ++ [66%N]
          | Eq => []
          end)
    else CSI :: show_nat (row - top t + 1) ++ [59%N] ++ show_nat (col + 1) ++ [72%N]
  else CSI :: show_nat (row + 1) ++ [59%N] ++ show_nat (col + 1) ++ [72%N].

(** step 9, second part (the re-print of the last column when the cursor is past the right border) *)
Definition dump_reprint (t : term) : res (list N) :=
  if (cols t <=? cur_col t)%nat then
    c <- cell_at (buf t) (cols t - 1) (cur_row t) ;; Ok (pen_dump (cpen c) ++ [ch c])
  else Ok [].

(** The arithmetic side conditions of [Terminal::dump] that the model does not have:
    - [self.rows - 1] in step 8, evaluated when [top_margin == 0];
    - [self.cols - 1] in step 9, evaluated when [cursor.col >= cols], which always holds for [cols = 0];
    and the pens of the two saved contexts must be within the five attribute bits (FINDING D1).
    FINDING D4: outside these conditions the Rust code panics (debug build) where the model returns a dump. *)
Definition dump_pre (t : term) : Prop :=
  (attrs (sc_pen (sctx t)) < 32)%N /\ (attrs (sc_pen (asctx t)) < 32)%N
  /\ (top t = 0 -> 1 <= rows t) /\ 1 <= cols t.

Ltac guards_true :=
  repeat match goal with
         | |- context [guard (?a <=? ?b) _] => replace (a <=? b) with true by lia
         end; cbn [guard bind].

(** [(a ++ b) ++ c] -> [a ++ b ++ c], [(x :: a) ++ b] -> [x :: a ++ b] *)
Ltac norm_app := repeat first [rewrite <- !app_assoc | progress cbn [app]].

(** the ties of the callees, at the instances that occur in [Terminal::dump] (closed instances: a [rewrite !tie] with
    an open pattern compares bodies up to conversion once the syntactic instances are used up, which takes
    minutes on a mutant) *)
Ltac use_ties t Hs Ha :=
  rewrite ?(tie_ctx_is_default (sctx t) Hs), ?(tie_ctx_is_default (asctx t) Ha),
    ?(tie_pen_dump (sc_pen (sctx t))), ?(tie_pen_dump (sc_pen (asctx t))), ?(tie_pen_dump (tpen t)).

Theorem tie_term_dump : forall t, dump_pre t -> g_term_dump t =~ term_dump t.
Proof.
  intros t (Hs & Ha & Hrows & Hcols). unfold g_term_dump, term_dump, dump_ctx, is_alt.
  rewrite tie_primary_buffer, tie_alternate_buffer.
  change (g_tabs_new (cols t)) with (Ok (tabs_new (cols t))).
  (* steps 8, 9, 9b of the generated code in closed form *)
  cbv zeta.
  match goal with |- context [bind ?m _] =>
    lazymatch m with context [rows t - 1] =>
      assert (H8 : m = Ok ((0 <? top t) || (bot t <? rows t - 1))) end end.
  { destruct (0 <? top t) eqn:E; [reflexivity|]. replace (1 <=? rows t) with true by lia. reflexivity. }
  rewrite H8; clear H8.
  match goal with |- context [bind ?m _] =>
    lazymatch m with context [Nat.compare] => assert (H9 : m = Ok (dump_cursor t)) end end.
  { unfold dump_cursor. destruct (org t); [|reflexivity].
    destruct ((cur_row t <? top t) || (bot t <? cur_row t)) eqn:Ec.
    - destruct (Nat.compare_spec (cur_col t) (sc_col (sctx t)));
        destruct (Nat.compare_spec (cur_row t) (sc_row (sctx t))); guards_true; reflexivity.
    - guards_true. reflexivity. }
  rewrite H9; clear H9.
  match goal with |- context [bind ?m _] =>
    lazymatch m with context [g_buffer_index] => assert (H9b : m =~ dump_reprint t) end end.
  { unfold dump_reprint. destruct (cols t <=? cur_col t); [|reflexivity]. guards_true.
    pose proof (tie_buffer_index (buf t) (cols t - 1) (cur_row t)) as Hi.
    destruct (g_buffer_index _ _ _), (cell_at _ _ _); cbn in Hi; try contradiction; [subst|exact I].
    cbn [bind same]. rewrite tie_pen_dump. reflexivity. }
  assert (H9m : forall k : list N -> res (list N),
            (s9b <- (if (cols t <=? cur_col t)%nat then
                       l <- get_row (buf t) (cur_row t) ;;
                       match nth_error (cells l) (cols t - 1) with
                       | Some c => Ok (pen_dump (cpen c) ++ [ch c])
                       | None => Panic 83
                       end
                     else Ok []) ;; k s9b) =~ (s9b <- dump_reprint t ;; k s9b)).
  { intros k. unfold dump_reprint, cell_at. destruct (cols t <=? cur_col t); [|apply same_refl].
    destruct (get_row (buf t) (cur_row t)) as [l|]; [|exact I]. cbn [bind].
    destruct (nth_error (cells l) (cols t - 1)); [apply same_refl|exact I]. }
  cbn [bind].
  destruct (active t) eqn:Eact; cbv beta iota; use_ties t Hs Ha.
  - (* primary screen active *)
    pose proof (tie_buffer_dump (primary_buffer t)) as Hp.
    destruct (g_buffer_dump (primary_buffer t)) as [s1|], (buf_dump (primary_buffer t)) as [s1'|];
      cbn in Hp; try contradiction; [subst s1'|exact I]. cbn [bind orb andb negb].
    eapply same_trans; [|apply same_sym, H9m].
    apply same_bind; [exact H9b|]. intros s9b. apply same_eq. f_equal. unfold dump_cursor.
    use_ties t Hs Ha. norm_app. destruct (cs0 t), (cs1 t); reflexivity.
  - (* alternate screen active *)
    pose proof (tie_buffer_dump (primary_buffer t)) as Hp.
    destruct (g_buffer_dump (primary_buffer t)) as [s1|], (buf_dump (primary_buffer t)) as [s1'|];
      cbn in Hp; try contradiction; [subst s1'|exact I]. cbn [bind orb andb negb].
    pose proof (tie_buffer_dump (alternate_buffer t)) as Hq.
    destruct (g_buffer_dump (alternate_buffer t)) as [s2|], (buf_dump (alternate_buffer t)) as [s2'|];
      cbn in Hq; try contradiction; [subst s2'|exact I]. cbn [bind].
    eapply same_trans; [|apply same_sym, H9m].
    apply same_bind; [exact H9b|]. intros s9b. apply same_eq. f_equal. unfold dump_cursor.
    use_ties t Hs Ha. norm_app. destruct (cs0 t), (cs1 t); reflexivity.
Qed.
Print Assumptions tie_term_dump.

(** FINDING D4, concretely: a 2x1 terminal whose [rows] (resp. [cols]) field is 0 while its buffers still have the
    old size.  The Rust code panics on [self.rows - 1] (resp. [self.cols - 1]), the model returns a dump.  Such a
    terminal violates [TInv] ([ti_rows], [ti_cols]), so it is not reachable. *)
Example D4_rows :
  let t := term_new_gen 2 1 None <| rows := 0%nat |> in
  (g_term_dump t, is_ok (term_dump t)) = (Panic 211, true).
Proof. vm_compute. reflexivity. Qed.

Example D4_cols :
  let t := term_new_gen 2 1 None <| cols := 0%nat |> in
  (g_term_dump t, is_ok (term_dump t)) = (Panic 211, true).
Proof. vm_compute. reflexivity. Qed.

(** the arithmetic part of [dump_pre] is also NECESSARY: wherever the regenerated [Terminal::dump] does not panic --
    in particular wherever it agrees with a model dump that does not -- both conditions hold *)
Lemma bind_ok_inv {A B} (m : res A) (k : A -> res B) :
  is_ok (bind m k) = true -> exists a, m = Ok a /\ is_ok (k a) = true.
Proof. destruct m as [a|]; cbn; [eauto|discriminate]. Qed.

Theorem dump_pre_necessary : forall t,
  is_ok (g_term_dump t) = true -> (top t = 0 -> 1 <= rows t) /\ 1 <= cols t.
Proof.
  intros t H. unfold g_term_dump in H. cbv zeta in H.
  destruct (active t); cbv beta iota in H;
    repeat match type of H with
           | is_ok (bind _ _) = true => let a := fresh "a" in let E := fresh "E" in apply bind_ok_inv in H as (a & E & H)
           end;
    (split;
     [ intros Htop;
       match goal with E : context [rows t - 1] |- _ => rename E into E8 end;
       destruct (0 <? top t) eqn:Ez; [lia|]; destruct (1 <=? rows t) eqn:Eo; [lia|discriminate E8]
     | match goal with E : context [g_buffer_index] |- _ => rename E into E9 end;
       destruct (cols t <=? cur_col t) eqn:Ez; [|lia]; destruct (1 <=? cols t) eqn:Eo; [lia|discriminate E9] ]).
Qed.
Print Assumptions dump_pre_necessary.

Corollary tie_term_dump_conv : forall t,
  is_ok (term_dump t) = true -> g_term_dump t =~ term_dump t -> (top t = 0 -> 1 <= rows t) /\ 1 <= cols t.
Proof.
  intros t Hm Hs. apply dump_pre_necessary. destruct (g_term_dump t), (term_dump t); cbn in *; auto; contradiction.
Qed.
Print Assumptions tie_term_dump_conv.

(** on the states the emulator can reach the regenerated code and the model are EQUAL: [dump_pre] follows from
    the invariants, and the model's dump does not panic there ([term_dump_ok]) *)
Lemma TInv_dump_pre t : TInv t -> PensInv t -> dump_pre t.
Proof.
  intros HT (_ & _ & _ & Hs & Ha). destruct Hs as [_ Hs], Ha as [_ Ha].
  repeat split; try assumption; [intros _; apply (ti_rows _ HT) | apply (ti_cols _ HT)].
Qed.

Theorem tie_term_dump_inv : forall t, TInv t -> PensInv t -> g_term_dump t = term_dump t.
Proof.
  intros t HT HP. pose proof (tie_term_dump t (TInv_dump_pre t HT HP)) as H.
  destruct (term_dump_ok t HT) as [s E]. rewrite E in *.
  destruct (g_term_dump t); cbn in H; [subst; reflexivity|contradiction].
Qed.
Print Assumptions tie_term_dump_inv.

(** * vt.rs *)

Theorem tie_vt_dump : forall v, dump_pre (vterm v) -> PInv (vparser v) -> g_vt_dump v =~ vt_dump v.
Proof.
  intros v HT HP. unfold g_vt_dump, vt_dump. cbv zeta. rewrite tie_parser_dumpM by exact HP.
  apply same_bind; [apply tie_term_dump; exact HT|]. intros a. apply same_refl.
Qed.
Print Assumptions tie_vt_dump.

Theorem tie_vt_dump_inv : forall v, Inv v -> PensInv (vterm v) -> g_vt_dump v = vt_dump v.
Proof.
  intros v [HP HT] HW. pose proof (tie_vt_dump v (TInv_dump_pre _ HT HW) HP) as H.
  destruct (vt_dump_ok v (conj HP HT)) as [s E]. rewrite E in *.
  destruct (g_vt_dump v); cbn in H; [subst; reflexivity|contradiction].
Qed.
Print Assumptions tie_vt_dump_inv.
