(** the functions that also call into buffer / tabs / dirty lines (leaf of Proofs/TermTie.v) *)
From Coq Require Import Lia ZArith ZifyBool ZifyNat ZifyN.
From Avt Require Import Oracles.Step Proofs.Inv Proofs.TermEasy Gen.TermFns Proofs.TermTie_Core.
Ltac Zify.zify_post_hook ::= Z.div_mod_to_equations.
Local Open Scope Z_scope.

Local Arguments Z.add : simpl never.
Local Arguments Z.sub : simpl never.
Local Arguments Z.opp : simpl never.
Local Arguments Z.mul : simpl never.
Local Arguments Z.leb : simpl never.
Local Arguments Z.ltb : simpl never.
Local Arguments Z.eqb : simpl never.
Local Arguments Z.min : simpl never.
Local Arguments Z.max : simpl never.
Local Arguments Z.of_nat : simpl never.
Local Arguments Z.of_N : simpl never.
Local Arguments Z.to_nat : simpl never.
Local Arguments N.eqb : simpl never.
Local Arguments N.to_nat : simpl never.
Local Arguments Nat.sub : simpl never.
Local Arguments Nat.add : simpl never.
Local Arguments Nat.min : simpl never.
Local Arguments Nat.max : simpl never.
Local Arguments Nat.leb : simpl never.
Local Arguments Nat.ltb : simpl never.
Local Arguments Nat.eqb : simpl never.

Theorem tie_set_tab : forall t, TScal t ->
  let '(z, ok) := g_set_tab (zabs t) in ok = true /\ Ok (set_tab t) = zrun z t.
Proof. intros t H. ev_tie t H. Qed.
Print Assumptions tie_set_tab.

Theorem tie_hts : forall t, TScal t ->
  let '(z, ok) := g_hts (zabs t) in ok = true /\ Ok (set_tab t) = zrun z t.
Proof. intros t H. ev_tie t H. Qed.
Print Assumptions tie_hts.

Theorem tie_clear_tab : forall t, TScal t ->
  let '(z, ok) := g_clear_tab (zabs t) in ok = true /\ Ok (clear_tab t) = zrun z t.
Proof. intros t H. ev_tie t H. Qed.
Print Assumptions tie_clear_tab.

Theorem tie_clear_all_tabs : forall t, TScal t ->
  let '(z, ok) := g_clear_all_tabs (zabs t) in ok = true /\ Ok (clear_all_tabs t) = zrun z t.
Proof. intros t H. ev_tie t H. Qed.
Print Assumptions tie_clear_all_tabs.

Theorem tie_scroll_up_in_region : forall t n, TScal t ->
  let '(z, ok) := g_scroll_up_in_region (zabs t) (Z.of_nat n) in
  ok = true /\ scroll_up_in_region t n = zrun z t.
Proof. intros t n H. ev_tie t H. Qed.
Print Assumptions tie_scroll_up_in_region.

Theorem tie_scroll_down_in_region : forall t n, TScal t ->
  let '(z, ok) := g_scroll_down_in_region (zabs t) (Z.of_nat n) in
  ok = true /\ scroll_down_in_region t n = zrun z t.
Proof. intros t n H. ev_tie t H. Qed.
Print Assumptions tie_scroll_down_in_region.

Theorem tie_move_cursor_down_with_scroll : forall t, TScal t ->
  let '(z, ok) := g_move_cursor_down_with_scroll (zabs t) in
  ok = true /\ move_cursor_down_with_scroll t = zrun z t.
Proof. intros t H. ev_tie t H. Qed.
Print Assumptions tie_move_cursor_down_with_scroll.

Theorem tie_lf : forall t, TScal t ->
  let '(z, ok) := g_lf (zabs t) in ok = true /\ lf t = zrun z t.
Proof. intros t H. ev_tie t H. Qed.
Print Assumptions tie_lf.

Theorem tie_nel : forall t, TScal t ->
  let '(z, ok) := g_nel (zabs t) in ok = true /\ nel t = zrun z t.
Proof. intros t H. ev_tie t H. Qed.
Print Assumptions tie_nel.

Theorem tie_ri : forall t, TScal t ->
  let '(z, ok) := g_ri (zabs t) in ok = true /\ ri t = zrun z t.
Proof. intros t H. ev_tie t H. Qed.
Print Assumptions tie_ri.

Theorem tie_il : forall t (n : N), TScal t ->
  let '(z, ok) := g_il (zabs t) (Z.of_N n) in ok = true /\ il t n = zrun z t.
Proof. intros t n H. ev_tie t H. Qed.
Print Assumptions tie_il.

Theorem tie_dl : forall t (n : N), TScal t ->
  let '(z, ok) := g_dl (zabs t) (Z.of_N n) in ok = true /\ dl t n = zrun z t.
Proof. intros t n H. ev_tie t H. Qed.
Print Assumptions tie_dl.

Theorem tie_su : forall t (n : N), TScal t ->
  let '(z, ok) := g_su (zabs t) (Z.of_N n) in
  ok = true /\ scroll_up_in_region t (as_usize n 1%nat) = zrun z t.
Proof. intros t n H. ev_tie t H. Qed.
Print Assumptions tie_su.

Theorem tie_sd : forall t (n : N), TScal t ->
  let '(z, ok) := g_sd (zabs t) (Z.of_N n) in
  ok = true /\ scroll_down_in_region t (as_usize n 1%nat) = zrun z t.
Proof. intros t n H. ev_tie t H. Qed.
Print Assumptions tie_sd.

(** [Terminal::execute]: the arms forwarding to the functions with recorded calls *)
Definition ev_fn (f : func) : bool :=
  match f with
  | Dl _ | Il _ | Lf | Nel | Ri | Sd _ | Su _ | Hts => true
  | _ => false
  end.

Theorem tie_execute_ev : forall t f, TScal t -> ev_fn f = true ->
  exists z, g_execute (zabs t) f = Some (z, true) /\ execute t f = zrun z t.
Proof.
  intros t f H Hf.
  assert (K : forall (p : zt * bool) (m : res term),
             (let '(z, ok) := p in ok = true /\ m = zrun z t) ->
             exists z, Some p = Some (z, true) /\ m = zrun z t).
  { intros [z ok] m [-> E]. exists z. split; [reflexivity | exact E]. }
  destruct f; try discriminate Hf; cbn [execute g_execute]; apply K.
  - apply tie_dl, H.
  - apply tie_hts, H.
  - apply tie_il, H.
  - apply tie_lf, H.
  - apply tie_nel, H.
  - apply tie_ri, H.
  - apply tie_sd, H.
  - apply tie_su, H.
Qed.
Print Assumptions tie_execute_ev.

