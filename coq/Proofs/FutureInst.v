(** [C11_future] with its Section hypothesis discharged by the invariant development. *)
From Avt Require Import Oracles.Rel Proofs.Inv Proofs.InvStep Proofs.ParamChop Proofs.Future.

Lemma vt_feed_Inv_det : forall v c v', Inv v -> vt_feed v c = Ok v' -> Inv v'.
Proof.
  intros v c v' H E. destruct (vt_feed_Inv v c H) as (v'' & E' & H'). rewrite E in E'.
  injection E' as ->. exact H'.
Qed.

Definition C11_future_closed := C11_future vt_feed_Inv_det.
Definition R11_feed_str_closed := R11_feed_str vt_feed_Inv_det.
