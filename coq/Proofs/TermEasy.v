(** Terminal-level refinement lemmas for the commands whose model code needs only scalar
    reasoning: the cursor commands of C05 (tab searches aside), save/restore of C17, RIS of
    C19.  "The control function, unfolded, is the specification." *)

From Coq Require Import Lia ZArith ZifyBool ZifyNat ZifyN.
From Avt Require Import Oracles.Step Proofs.Inv.
Ltac Zify.zify_post_hook ::= Z.div_mod_to_equations.

(** * C19 *)
Lemma hard_reset_is_new t : xtw t = false ->
  hard_reset_gen t = term_new_gen (cols t) (rows t) (sb_limit t).
Proof. intros H. destruct t; cbn in *. subst. reflexivity. Qed.

(** * scalar facts of the invariant *)
Record TScal (t : term) : Prop := mkTScal {
  ts_cols : 1 <= cols t;
  ts_rows : 1 <= rows t;
  ts_row : cur_row t < rows t;
  ts_col : cur_col t <= cols t;
  ts_pend : pend t = true <-> cur_col t = cols t;
  ts_margins : top t <= bot t /\ bot t < rows t
}.

Lemma TInv_TScal t : TInv t -> TScal t.
Proof. intros H. destruct H. constructor; assumption. Qed.

Ltac break_ifs :=
  repeat match goal with
         | |- context [if ?b then _ else _] => destruct b eqn:?
         | H : context [if ?b then _ else _] |- _ => destruct b eqn:?
         end.

Ltac rec_eq := cbn; try reflexivity; repeat (f_equal; try reflexivity; try lia).

Definition is_tab_fn (f : func) : bool :=
  match f with Ht | Cht _ | Cbt _ => true | _ => false end.

Lemma as_usize_n1 n : as_usize_gen n 1 = n1 n.
Proof. reflexivity. Qed.

Lemma pend_false_col t : TScal t -> pend t = false -> cur_col t < cols t.
Proof.
  intros [? ? ? Hc Hp ?] E. destruct (Nat.eq_dec (cur_col t) (cols t)) as [e|e]; [|lia].
  apply Hp in e. congruence.
Qed.

Lemma pend_true_col t : TScal t -> pend t = true -> cur_col t = cols t.
Proof. intros [? ? ? Hc Hp ?] E. now apply Hp. Qed.

Section Cursor.
  Variable t : term.
  Hypothesis HT : TScal t.

  Ltac facts := pose proof (ts_cols t HT) as Hcols; pose proof (ts_rows t HT) as Hrows;
                pose proof (ts_row t HT) as Hrow; pose proof (ts_col t HT) as Hcol;
                pose proof (ts_margins t HT) as Hmar.

  Lemma exec_cuu n : execute t (Cuu n) = Ok (set_cursor t (viscol t) (spec_up t (n1 n)) false).
  Proof. destruct t; reflexivity. Qed.

  Lemma exec_cud n : execute t (Cud n) = Ok (set_cursor t (viscol t) (spec_down t (n1 n)) false).
  Proof. destruct t; reflexivity. Qed.

  Lemma exec_vpr n : execute t (Vpr n) = Ok (set_cursor t (viscol t) (spec_down t (n1 n)) false).
  Proof. destruct t; reflexivity. Qed.

  Lemma exec_cnl n : execute t (Cnl n) = Ok (set_cursor t 0 (spec_down t (n1 n)) false).
  Proof. destruct t; reflexivity. Qed.

  Lemma exec_cpl n : execute t (Cpl n) = Ok (set_cursor t 0 (spec_up t (n1 n)) false).
  Proof. destruct t; reflexivity. Qed.

  Lemma exec_cr : execute t Cr = Ok (set_cursor t 0 (cur_row t) false).
  Proof. destruct t; reflexivity. Qed.

  Lemma exec_cha n : execute t (Cha n) = Ok (set_cursor t (Nat.min (n1 n - 1) (cols t - 1)) (cur_row t) false).
  Proof.
    facts. unfold execute, move_cursor_to_col. rewrite as_usize_n1.
    destruct (Nat.leb_spec (cols t) (n1 n - 1)).
    - replace (Nat.min (n1 n - 1) (cols t - 1)) with (cols t - 1) by lia. destruct t; reflexivity.
    - replace (Nat.min (n1 n - 1) (cols t - 1)) with (n1 n - 1) by lia. destruct t; reflexivity.
  Qed.

  Lemma exec_cuf n :
    execute t (Cuf n) = Ok (set_cursor t (Nat.min (cols t - 1) (viscol t + n1 n)) (cur_row t) false).
  Proof.
    facts. unfold execute, move_cursor_to_rel_col. rewrite as_usize_n1.
    assert (Hn : 1 <= n1 n) by (unfold n1; destruct (N.eqb_spec n 0); lia).
    destruct (Z.ltb_spec (Z.of_nat (cur_col t) + Z.of_nat (n1 n)) 0); [lia|].
    unfold viscol.
    destruct (Nat.leb_spec (cols t) (Z.to_nat (Z.of_nat (cur_col t) + Z.of_nat (n1 n)))).
    - replace (Nat.min (cols t - 1) (Nat.min (cur_col t) (cols t - 1) + n1 n)) with (cols t - 1) by lia.
      destruct t; reflexivity.
    - replace (Nat.min (cols t - 1) (Nat.min (cur_col t) (cols t - 1) + n1 n))
        with (Z.to_nat (Z.of_nat (cur_col t) + Z.of_nat (n1 n))) by lia.
      destruct t; reflexivity.
  Qed.

  Lemma rel_col_left k : 1 <= k ->
    move_cursor_to_rel_col t (if pend t then - Z.of_nat k - 1 else - Z.of_nat k)
    = set_cursor t (viscol t - k) (cur_row t) false.
  Proof.
    facts. intros Hk. unfold move_cursor_to_rel_col, viscol.
    destruct (pend t) eqn:Ep.
    - pose proof (pend_true_col t HT Ep) as Ec.
      destruct (Z.ltb_spec (Z.of_nat (cur_col t) + (- Z.of_nat k - 1)) 0).
      + replace (Nat.min (cur_col t) (cols t - 1) - k) with 0 by lia. destruct t; reflexivity.
      + destruct (Nat.leb_spec (cols t) (Z.to_nat (Z.of_nat (cur_col t) + (- Z.of_nat k - 1)))); [lia|].
        replace (Nat.min (cur_col t) (cols t - 1) - k)
          with (Z.to_nat (Z.of_nat (cur_col t) + (- Z.of_nat k - 1))) by lia.
        destruct t; reflexivity.
    - pose proof (pend_false_col t HT Ep) as Ec.
      destruct (Z.ltb_spec (Z.of_nat (cur_col t) + - Z.of_nat k) 0).
      + replace (Nat.min (cur_col t) (cols t - 1) - k) with 0 by lia. destruct t; reflexivity.
      + destruct (Nat.leb_spec (cols t) (Z.to_nat (Z.of_nat (cur_col t) + - Z.of_nat k))); [lia|].
        replace (Nat.min (cur_col t) (cols t - 1) - k)
          with (Z.to_nat (Z.of_nat (cur_col t) + - Z.of_nat k)) by lia.
        destruct t; reflexivity.
  Qed.

  Lemma exec_cub n : execute t (Cub n) = Ok (set_cursor t (viscol t - n1 n) (cur_row t) false).
  Proof.
    unfold execute, cub. rewrite as_usize_n1.
    assert (Hn : 1 <= n1 n) by (unfold n1; destruct (N.eqb_spec n 0); lia).
    rewrite <- (rel_col_left (n1 n) Hn). destruct (pend t); reflexivity.
  Qed.

  Lemma exec_bs : execute t Bs = Ok (set_cursor t (viscol t - 1) (cur_row t) false).
  Proof.
    unfold execute, bs. rewrite <- (rel_col_left 1 (le_n 1)). destruct (pend t); reflexivity.
  Qed.

  Lemma exec_vpa n :
    execute t (Vpa n) = Ok (set_cursor t (viscol t) (spec_abs_row t (n1 n - 1)) false).
  Proof. destruct t; reflexivity. Qed.

  Lemma move_to_row_spec (u : term) r : cols u = cols t -> rows u = rows t -> top u = top t -> bot u = bot t ->
    org u = org t ->
    move_cursor_to_row u r = set_cursor u (Nat.min (cur_col u) (cols u - 1)) (spec_abs_row t r) false.
  Proof.
    intros E1 E2 E3 E4 E5. unfold move_cursor_to_row, do_move_cursor_to_row, spec_abs_row,
      actual_top_margin, actual_bottom_margin. rewrite E2, E3, E4, E5.
    destruct u; reflexivity.
  Qed.

  Lemma exec_cup r c :
    execute t (Cup r c)
    = Ok (set_cursor t (Nat.min (n1 c - 1) (cols t - 1)) (spec_abs_row t (n1 r - 1)) false).
  Proof.
    facts. unfold execute, cup, move_cursor_to_col. rewrite !as_usize_n1.
    destruct (Nat.leb_spec (cols t) (n1 c - 1)).
    - rewrite move_to_row_spec by (destruct t; reflexivity).
      replace (Nat.min (n1 c - 1) (cols t - 1)) with (cols t - 1) by lia.
      destruct t; cbn in *. rewrite Nat.min_id. reflexivity.
    - rewrite move_to_row_spec by (destruct t; reflexivity).
      replace (Nat.min (n1 c - 1) (cols t - 1)) with (n1 c - 1) by lia.
      destruct t; cbn in *. rewrite Nat.min_l by lia. reflexivity.
  Qed.

  Lemma exec_decstbm tp bt : exists t', spec_cursor t (Decstbm tp bt) = Some t' /\ execute t (Decstbm tp bt) = Ok t'.
  Proof.
    eexists. split; [reflexivity|]. unfold execute, decstbm. rewrite as_usize_n1.
    unfold as_usize, as_usize_gen.
    destruct ((n1 tp - 1 <? (if N.eqb bt 0 then rows t else N.to_nat bt) - 1)
              && ((if N.eqb bt 0 then rows t else N.to_nat bt) - 1 <? rows t)); destruct t; reflexivity.
  Qed.

  Lemma exec_decom_set : execute t (Decset [Origin]) = Ok (spec_home (t <| org := true |>)).
  Proof. destruct t; reflexivity. Qed.

  Lemma exec_decom_rst : execute t (Decrst [Origin]) = Ok (spec_home (t <| org := false |>)).
  Proof. destruct t; reflexivity. Qed.

  (** LF / NEL / RI away from the margins move the cursor and nothing else *)
  Lemma exec_lf_off t' : spec_cursor t Lf = Some t' -> execute t Lf = Ok t'.
  Proof.
    cbn [spec_cursor]. destruct (Nat.eqb_spec (cur_row t) (bot t)) as [e|e]; [discriminate|].
    intros H. injection H as <-.
    unfold execute, lf, move_cursor_down_with_scroll.
    destruct (Nat.eqb_spec (cur_row t) (bot t)); [contradiction|].
    destruct (cur_row t <? rows t - 1); cbn [bind]; destruct t; cbn; destruct nlm; reflexivity.
  Qed.

  Lemma exec_nel_off t' : spec_cursor t Nel = Some t' -> execute t Nel = Ok t'.
  Proof.
    cbn [spec_cursor]. destruct (Nat.eqb_spec (cur_row t) (bot t)) as [e|e]; [discriminate|].
    intros H. injection H as <-.
    unfold execute, nel, move_cursor_down_with_scroll.
    destruct (Nat.eqb_spec (cur_row t) (bot t)); [contradiction|].
    destruct (cur_row t <? rows t - 1); cbn [bind]; destruct t; reflexivity.
  Qed.

  Lemma exec_ri_off t' : spec_cursor t Ri = Some t' -> execute t Ri = Ok t'.
  Proof.
    cbn [spec_cursor]. destruct (Nat.eqb_spec (cur_row t) (top t)) as [e|e]; [discriminate|].
    intros H. injection H as <-.
    unfold execute, ri.
    destruct (Nat.eqb_spec (cur_row t) (top t)); [contradiction|].
    destruct (0 <? cur_row t); destruct t; reflexivity.
  Qed.
End Cursor.

(** the C05 statement for every cursor command except the tab searches *)
Theorem spec_cursor_refines t f t' :
  TScal t -> is_tab_fn f = false -> spec_cursor t f = Some t' -> execute t f = Ok t'.
Proof.
  intros HT Hn H.
  destruct f; try discriminate;
    try (apply exec_lf_off; assumption); try (apply exec_nel_off; assumption);
    try (apply exec_ri_off; assumption);
    try (cbn [spec_cursor] in H; injection H as <-;
         first [ apply exec_bs; assumption | apply exec_cha; assumption | apply exec_cnl; assumption
               | apply exec_cpl; assumption | apply exec_cr; assumption | apply exec_cub; assumption
               | apply exec_cud; assumption | apply exec_cuf; assumption | apply exec_cup; assumption
               | apply exec_cuu; assumption | apply exec_vpa; assumption | apply exec_vpr; assumption ]).
  - (* Decrst *) cbn [spec_cursor] in H. destruct ms as [|[] [|? ?]]; try discriminate.
    injection H as <-. apply exec_decom_rst; assumption.
  - (* Decset *) cbn [spec_cursor] in H. destruct ms as [|[] [|? ?]]; try discriminate.
    injection H as <-. apply exec_decom_set; assumption.
  - (* Decstbm *) destruct (exec_decstbm t HT t0 b) as [t'' [E1 E2]]. rewrite E1 in H. injection H as <-. exact E2.
Qed.

(** * C17: the four save and the restore spellings *)
Ltac destruct_term t sc :=
  destruct t as [? ? ? ? ? ? ? ? ? ? ? ? ? ? ? ? ? ? ? ? ? ? sc ? ? ?]; destruct sc;
  cbn; unfold save_cursor, save_cursor_gen, spec_saved_now, viscol, restore_cursor, restore_cursor_gen, spec_restore; cbn.

Lemma exec_save t f :
  match f with Decsc | Scosc | Decset [SaveCursor] => True | _ => False end ->
  execute t f = Ok (t <| sctx := spec_saved_now t |>).
Proof.
  destruct f; try contradiction; try (intros _; destruct_term t sc; reflexivity).
  destruct ms as [|[] [|? ?]]; try contradiction. intros _. destruct_term t sc; reflexivity.
Qed.

Lemma exec_restore t f :
  match f with Decrc | Scorc | Decrst [SaveCursor] => True | _ => False end ->
  execute t f = Ok (spec_restore t).
Proof.
  destruct f; try contradiction; try (intros _; destruct_term t sc; reflexivity).
  destruct ms as [|[] [|? ?]]; try contradiction. intros _. destruct_term t sc; reflexivity.
Qed.
