(** The invariant: every state reachable through the public API satisfies [Inv]
    (proved in [Proofs/InvStep.v]); all property theorems are stated for [forall v, Inv v].
    Definitions only. *)

From Avt Require Export Model.Vt.

(** * parser *)

Definition ParamInv (q : param) : Prop :=
  length (parts q) = MAX_PARAM_LEN /\ cur_part q < MAX_PARAM_LEN
  /\ Forall (fun x => (x < 65536)%N) (parts q)
  /\ (forall i, cur_part q < i -> nth i (parts q) 0%N = 0%N).

Definition PInv (p : parser) : Prop :=
  length (params p) = PARAMS_LEN /\ cur_param p < PARAMS_LEN
  /\ Forall ParamInv (params p)
  /\ (forall i, cur_param p < i -> i < PARAMS_LEN -> nth i (params p) default_param = default_param).

(** * buffers *)

Definition LineInv (c : nat) (l : line) : Prop := length (cells l) = c.

Definition last_not_wrapped (ls : list line) : Prop :=
  match last_opt ls with Some l => wrapped l = false | None => True end.

(** geometry only (holds also in the middle of [print], between [wrap] and [scroll_up]) *)
Definition BGeom (b : buffer) : Prop :=
  1 <= bcols b /\ 1 <= brows b /\ brows b <= length (lines b)
  /\ Forall (LineInv (bcols b)) (lines b).

Definition BInv (b : buffer) : Prop := BGeom b /\ last_not_wrapped (lines b).

Definition limit_ok (l : option N) (b : buffer) : Prop := blimit b = limit_of l.

(** * tabs *)

Fixpoint sorted_lt (l : list nat) : Prop :=
  match l with
  | a :: ((b :: _) as r) => a < b /\ sorted_lt r
  | _ => True
  end.

Definition TabsInv (c : nat) (l : list nat) : Prop :=
  sorted_lt l /\ Forall (fun s => 0 < s < c) l.

(** * terminal *)

Definition CtxInv (c r : nat) (x : saved_ctx) : Prop := sc_col x < c /\ sc_row x < r.

Record TInv (t : term) : Prop := mkTInv {
  ti_cols : 1 <= cols t;
  ti_rows : 1 <= rows t;
  ti_bcols : bcols (buf t) = cols t;
  ti_brows : brows (buf t) = rows t;
  ti_buf : BInv (buf t);
  ti_other : BInv (other t);
  ti_row : cur_row t < rows t;
  ti_col : cur_col t <= cols t;
  ti_pend : pend t = true <-> cur_col t = cols t;
  ti_margins : top t <= bot t /\ bot t < rows t;
  ti_dirty : length (dirty t) = rows t;
  ti_acs : acs t <= 1;
  ti_tabs : TabsInv (cols t) (tabs t);
  ti_sctx : CtxInv (cols t) (rows t) (sctx t);
  ti_xtw : xtw t = false;
  (* scrollback limits: the primary buffer has the configured limit, the alternate none *)
  ti_limit : match active t with
             | Primary => blimit (buf t) = limit_of (sb_limit t) /\ blimit (other t) = limit_of (Some 0%N)
             | Alternate => blimit (buf t) = limit_of (Some 0%N) /\ blimit (other t) = limit_of (sb_limit t)
             end;
  (* the parked primary's saved context lies inside the parked (possibly stale) geometry *)
  ti_parked : match active t with
              | Primary => True
              | Alternate => CtxInv (bcols (other t)) (brows (other t)) (asctx t)
              end
}.

Definition Inv (v : vt) : Prop := PInv (vparser v) /\ TInv (vterm v).

Definition op_ok (o : op) : Prop :=
  match o with Resize c r => 1 <= c /\ 1 <= r | _ => True end.
