(** Property C11, terminal level: the four steps of the dump script that touch the buffers
    (switching to / from the alternate screen, re-printing the last cell of the cursor row,
    replaying [Buffer::dump]), stated on the simulation [Sim v E]. *)

From Coq Require Import Lia ZArith ZifyBool ZifyNat ZifyN.
From Avt Require Import Model.Vt Spec.Screen Oracles.Rel Proofs.Inv Proofs.ParserInv Proofs.ListLemmas
  Proofs.Tabs Proofs.Frames Proofs.Resize Proofs.BufRow Proofs.VisEq Proofs.SpecPrint Proofs.ParamDT
  Proofs.DumpParserEmits Proofs.PenInv Proofs.DumpRowsList Proofs.DumpRowsStep Proofs.DumpRows
  Proofs.InvStep Proofs.PenInvProofs Proofs.DumpScriptBase.
Ltac Zify.zify_post_hook ::= Z.div_mod_to_equations.

(** [R0 (u <| setters |>) (E <| the same setters |>)] from [R0 u E] *)
Ltac r0_fields HR :=
  let H := fresh in
  pose proof HR as H; destruct H; constructor; rsimp;
  try assumption; try reflexivity; try apply RB_refl; try apply leq_refl.

(** * entering the alternate screen *)

Theorem sim_alt_on v E :
  Sim v E -> active E = Primary ->
  exists v', feed_chars v [155; 63; 49; 48; 52; 55; 104]%N = Ok v'
    /\ Sim v' (E <| active := Alternate |> <| sctx := clamp_ctx (asctx E) (cols E) (rows E) |>
                 <| asctx := sctx E |> <| other := buf E |>
                 <| buf := buffer_new (cols E) (rows E) (Some 0%N) (Some (tpen E)) |>).
Proof.
  intros HS HA. pose proof HS as (HP & HT & HR).
  destruct (feed_chars_emits _ _ v emits_decset_alt HP) as (p' & HP' & F).
  destruct (execute_ok (vterm v) (Decset [AltScreenBuffer]) HT) as (u1 & X & HT1).
  rewrite foldM_one, X in F. cbn [bind] in F.
  exists (mkVt p' u1). split; [exact F|]. split; [exact HP'|]. split; [exact HT1|]. rsimp.
  rewrite exec_decset_one, decset_asb_eq in X. apply bind_ok in X as (t1 & X1 & X2).
  apply switch_alt_inv in X1 as [[A _]|[_ [d ->]]].
  { rewrite (rd_active _ _ _ HR), HA in A. discriminate A. }
  apply reflow_inv in X2 as (b & c & r & d' & Xb & ->).
  assert (Eb : buf (to_alt (vterm v) d) = buffer_new (cols (vterm v)) (rows (vterm v)) (Some 0%N) (Some (tpen (vterm v))))
    by reflexivity.
  assert (Ec : cols (to_alt (vterm v) d) = cols (vterm v)) by reflexivity.
  assert (Er : rows (to_alt (vterm v) d) = rows (vterm v)) by reflexivity.
  rewrite Eb, Ec, Er in Xb.
  pose proof (buf_resize_same' (buffer_new (cols (vterm v)) (rows (vterm v)) (Some 0%N) (Some (tpen (vterm v))))
                (cur_col (to_alt (vterm v) d)) (cur_row (to_alt (vterm v) d))) as Y.
  cbn [buffer_new bcols brows lines] in Y. rewrite repeat_length in Y. specialize (Y (le_n _)).
  cbn [buffer_new] in Xb. rewrite Y in Xb. apply Ok_inj in Xb. injection Xb as <- <- <-.
  unfold reflowed, to_alt. pose proof HR as H0. destruct H0. constructor; rsimp;
    try assumption; try reflexivity; try apply leq_refl.
  - (* buf *) rewrite rd_cols, rd_rows, rd_tpen. apply RB_false_intro; reflexivity.
  - (* pend *) rewrite Nat.eqb_refl. cbn [negb]. exact rd_pend.
  - (* sctx *) rewrite rd_asctx, rd_cols, rd_rows. reflexivity.
  - (* dirty *) pose proof (ti_dirty _ HT1) as Hd. unfold reflowed, to_alt in Hd. rsimp_in Hd.
    rewrite Hd, <- rd_dirty. symmetry. apply (ti_dirty _ HT).
Qed.
Print Assumptions sim_alt_on.

(** * leaving the alternate screen (geometry of the parked primary = current geometry) *)

Theorem sim_alt_off v E :
  Sim v E -> active E = Alternate -> bcols (other E) = cols E -> brows (other E) = rows E ->
  exists v', feed_chars v [155; 63; 49; 48; 52; 55; 108]%N = Ok v'
    /\ Sim v' (E <| active := Primary |> <| sctx := clamp_ctx (asctx E) (cols E) (rows E) |>
                 <| asctx := sctx E |> <| buf := other E |> <| other := buf E |>).
Proof.
  intros HS HA Hbc Hbr. pose proof HS as (HP & HT & HR).
  destruct (feed_chars_emits _ _ v emits_decrst_alt HP) as (p' & HP' & F).
  destruct (execute_ok (vterm v) (Decrst [AltScreenBuffer]) HT) as (u1 & X & HT1).
  rewrite foldM_one, X in F. cbn [bind] in F.
  exists (mkVt p' u1). split; [exact F|]. split; [exact HP'|]. split; [exact HT1|]. rsimp.
  rewrite exec_decrst_one, decrst_asb_eq in X. apply bind_ok in X as (t1 & X1 & X2).
  apply switch_prim_inv in X1 as [[A _]|[_ [d ->]]].
  { rewrite (rd_active _ _ _ HR), HA in A. discriminate A. }
  apply reflow_inv in X2 as (b & c & r & d' & Xb & ->).
  assert (Eb : buf (to_prim (vterm v) d) = other (vterm v)) by reflexivity.
  assert (Ec : cols (to_prim (vterm v) d) = cols (vterm v)) by reflexivity.
  assert (Er : rows (to_prim (vterm v) d) = rows (vterm v)) by reflexivity.
  rewrite Eb, Ec, Er in Xb.
  pose proof (rd_other _ _ _ HR) as [Ol Oc Or _].
  assert (Gc : cols (vterm v) = bcols (other (vterm v))) by (rewrite Oc, Hbc; exact (rd_cols _ _ _ HR)).
  assert (Gr : rows (vterm v) = brows (other (vterm v))) by (rewrite Or, Hbr; exact (rd_rows _ _ _ HR)).
  rewrite Gc, Gr in Xb at 1.
  rewrite buf_resize_same' in Xb by (destruct (ti_other _ HT) as [(_ & _ & L & _) _]; exact L).
  apply Ok_inj in Xb. injection Xb as <- <- <-.
  unfold reflowed, to_prim. pose proof HR as H0. destruct H0. constructor; rsimp;
    try assumption; try reflexivity; try apply leq_refl.
  - (* buf *) apply RB_false_intro; rsimp; assumption.
  - (* pend *) rewrite <- Gc, Nat.eqb_refl. cbn [negb]. exact rd_pend.
  - (* sctx *) rewrite rd_asctx, rd_cols, rd_rows. reflexivity.
  - (* dirty *) pose proof (ti_dirty _ HT1) as Hd. unfold reflowed, to_prim in Hd. rsimp_in Hd.
    rewrite Hd, <- rd_dirty. symmetry. apply (ti_dirty _ HT).
Qed.
Print Assumptions sim_alt_off.

(** * replaying [Buffer::dump] *)

Theorem sim_bufdump b d v E :
  Sim v E -> BGeom b -> (N.of_nat (bcols b) <= 65536)%N ->
  printable_view (view b) -> lines_wf (view b) -> last_not_wrapped (view b) ->
  awm E = true -> ins E = false -> cs0 E = CsAscii -> cs1 E = CsAscii -> acs E = 0 ->
  top E = 0 -> bot E = rows E - 1 -> cur_col E = 0 -> cur_row E = 0 -> Types.pend E = false ->
  tpen E = default_pen ->
  view (buf E) = repeat (blank_line (cols E) default_pen) (rows E) ->
  cols E = bcols b -> rows E = brows b -> buf_dump b = Ok d ->
  exists v' B x y z p,
    feed_chars v d = Ok v'
    /\ Sim v' (E <| buf := B |> <| cur_col := x |> <| cur_row := y |> <| Types.pend := z |> <| tpen := p |>)
    /\ view B = view b /\ bcols B = bcols b /\ brows B = brows b /\ BGeom B.
Proof.
  intros (HP & HT & HR) HG Hw Hpr Hwf Hl A1 A2 A3 A4 A5 A6 A7 A8 A9 A10 A11 A12 Hc Hr D.
  assert (HRdy : Ready (vterm v)).
  { pose proof HR as H0. destruct H0. unfold Ready. split; [exact HT|].
    repeat split; try congruence.
    unfold tview. rewrite (RB_view _ _ _ rd_buf), rd_cols, rd_rows. exact A12. }
  destruct (buf_dump_replay b v d HG Hw Hpr Hwf Hl HRdy (proj1 HP) (proj2 HP)
              ltac:(rewrite (rd_cols _ _ _ HR); exact Hc) ltac:(rewrite (rd_rows _ _ _ HR); exact Hr) D)
    as (v' & F & G' & P' & HT' & Hv & _ & Ev & _).
  exists v', (buf (vterm v')), (cur_col (vterm v')), (cur_row (vterm v')), (Types.pend (vterm v')),
    (tpen (vterm v')).
  split; [exact F|].
  assert (Ecols : cols (vterm v') = cols (vterm v)) by (rewrite Ev; reflexivity).
  assert (Erows : rows (vterm v') = rows (vterm v)) by (rewrite Ev; reflexivity).
  split; [split; [split; assumption|split; [exact HT'|]]|].
  - pose proof (ti_dirty _ HT') as Hd.
    set (B := buf (vterm v')) in *. set (x := cur_col (vterm v')) in *.
    set (y := cur_row (vterm v')) in *. set (z := Types.pend (vterm v')) in *.
    set (p := tpen (vterm v')) in *. set (dd := dirty (vterm v')) in *.
    rewrite Ev. pose proof HR as H0. destruct H0. constructor; rsimp;
      try assumption; try reflexivity; try apply RB_refl; try apply leq_refl.
    rewrite Hd, Erows, <- rd_dirty. symmetry. apply (ti_dirty _ HT).
  - split; [exact Hv|].
    split; [rewrite (ti_bcols _ HT'), Ecols, (rd_cols _ _ _ HR); exact Hc|].
    split; [rewrite (ti_brows _ HT'), Erows, (rd_rows _ _ _ HR); exact Hr|].
    apply (ti_buf _ HT').
Qed.
Print Assumptions sim_bufdump.

(** * re-printing the last cell of the cursor row *)

Lemma upd_fix {A} i (f : A -> A) l x : nth_error l i = Some x -> f x = x -> upd i f l = l.
Proof.
  intros H Hf. rewrite (upd_eq _ _ _ _ H), Hf. symmetry. apply firstn_skipn_nth_error. exact H.
Qed.

Lemma set_view_same u : set_view u (tview u) = u.
Proof.
  unfold set_view, set_screen, tsb, tview, view. rewrite firstn_skipn.
  destruct u as [? ? b ? ? ? ? ? ? ? ? ? ? ? ? ? ? ? ? ? ? ? ? ? ? ?]. destruct b. reflexivity.
Qed.

Theorem sim_print_last v E x l :
  Sim v E -> ch_ok x -> awm E = true -> Types.pend E = false -> acs E = 0 -> cs0 E = CsAscii ->
  cur_col E + 1 = cols E ->
  nth_error (view (buf E)) (cur_row E) = Some l ->
  nth_error (cells l) (cols E - 1) = Some (mkCell x (tpen E)) ->
  exists v', feed_chars v [x] = Ok v' /\ Sim v' (E <| cur_col := cols E |> <| Types.pend := true |>).
Proof.
  intros HS Hx A1 A2 A3 A4 A5 Hl Hc. pose proof HS as (HP & HT & HR).
  destruct (feed_chars_emits _ _ v (emits_print x Hx) HP) as (p' & HP' & F).
  destruct (C04_print (vterm v) x HT) as (u1 & X & N & HT1).
  rewrite foldM_one, X in F. cbn [bind] in F.
  exists (mkVt p' u1). split; [exact F|]. split; [exact HP'|]. split; [exact HT1|]. rsimp.
  set (u := vterm v) in *.
  pose proof HR as H0. destruct H0.
  assert (Esp : spec_print u x = set_cursor u (cols u) (cur_row u) true).
  { unfold spec_print, spec_active_cs. rewrite rd_acs, A3, rd_cs0, A4. cbn [Nat.eqb spec_translate].
    unfold spec_print_glyph. rewrite rd_awm, A1, rd_pend, A2. cbn [andb]. cbv zeta.
    rewrite rd_cur_col, rd_cols, A5, Nat.leb_refl.
    rewrite (upd_fix (cur_row u) _ (tview u) l).
    - rewrite set_view_same, <- rd_cols. reflexivity.
    - unfold tview. rewrite (RB_view _ _ _ rd_buf), rd_cur_row. exact Hl.
    - unfold set_cell. rewrite (upd_fix _ _ _ (mkCell x (tpen u))); [destruct l; reflexivity| |reflexivity].
      rewrite rd_tpen. exact Hc. }
  rewrite Esp in N.
  assert (HRdt : Rdt (set_cursor u (cols u) (cur_row u) true) u1).
  { apply Rdt_iff_vis_norm. split; [exact N|].
    apply (f_equal rows) in N. unfold vis_norm, set_cursor in N. rsimp_in N.
    unfold set_cursor. rsimp. rewrite (ti_dirty _ HT1), <- N. apply (ti_dirty _ HT). }
  apply (Rdtg_weaken false) in HRdt. apply R0_sym in HRdt. apply (R0_trans _ _ _ HRdt).
  unfold set_cursor. constructor; rsimp; try assumption; try reflexivity; try apply leq_refl.
Qed.
Print Assumptions sim_print_last.
