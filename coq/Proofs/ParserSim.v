(** Property C03, memorylessness: the future behaviour of the parser (emitted functions and
    states) depends only on the parser state and -- inside an escape / control sequence --
    on the data collected since the sequence's introducer. *)

From Avt Require Import Model.Parser Spec.Williams Proofs.Inv Proofs.ParserTable
  Proofs.ParserInv.
Require Import Lia ZArith ZifyBool ZifyNat ZifyN.
Local Open Scope N_scope.

Ltac Zify.zify_post_hook ::= Z.div_mod_to_equations.

(** * the simulation relation *)

(** states in which the collected data ([inter], [params[..=cur_param]]) is live *)
Definition data_state (s : pstate) : bool :=
  match s with
  | Escape | EscapeIntermediate | CsiEntry | CsiParam | CsiIntermediate
  | DcsEntry | DcsParam | DcsIntermediate => true
  | _ => false
  end.

Definition psim (p q : parser) : Prop :=
  pst p = pst q
  /\ (data_state (pst p) = true ->
      inter p = inter q /\ cur_param p = cur_param q
      /\ forall i, (i <= cur_param p)%nat ->
           nth i (params p) default_param = nth i (params q) default_param).

Lemma psim_refl p : psim p p.
Proof. split; auto. Qed.

Lemma psim_sym p q : psim p q -> psim q p.
Proof.
  intros [S D]. split; [auto|]. rewrite <- S. intros H. destruct (D H) as (I & C & P).
  repeat split; auto. intros i Hi. symmetry. apply P. lia.
Qed.

(** under the invariant the parameters beyond [cur_param] are all default, so in a data
    state [psim] is equality *)
Lemma psim_data_eq p q :
  PInv p -> PInv q -> psim p q -> data_state (pst p) = true -> p = q.
Proof.
  intros (Lp & Cp & _ & Zp) (Lq & Cq & _ & Zq) [S D] HD. destruct (D HD) as (I & C & P).
  assert (E : params p = params q).
  { apply (nth_ext _ _ default_param default_param); [congruence|].
    intros i Hi. destruct (Nat.le_gt_cases i (cur_param p)) as [H|H]; [now apply P|].
    rewrite Zp, Zq; auto; lia. }
  destruct p, q. cbn in *. congruence.
Qed.

(** * one step *)

(** outside the data states nothing is dispatched, and a data state can only be entered
    through an entry action [clear] *)
Definition nodata_row (s : pstate) (c : N) : bool :=
  implb (negb (data_state s))
        (match t_kind (williams s c) with KCsiDispatch | KEscDispatch => false | _ => true end
         && implb (data_state (t_next (williams s c))) (t_clear (williams s c))).

Lemma nodata_sweep :
  forallb (fun s => forallb (nodata_row s) (codes_upto 161)) all_pstates = true.
Proof. vm_compute. reflexivity. Qed.

Lemma nodata_row_all s c : nodata_row s c = true.
Proof.
  pose proof nodata_sweep as F. rewrite forallb_forall in F.
  specialize (F s (all_pstates_complete s)). rewrite forallb_forall in F.
  destruct (N.lt_ge_cases c 160) as [H|H].
  - apply F. apply codes_upto_complete. cbn. lia.
  - unfold nodata_row. rewrite (williams_high s c H). apply (F 160).
    apply codes_upto_complete. cbn. lia.
Qed.

Lemma psim_step_pure p q c :
  PInv p -> PInv q -> psim p q ->
  feed_emit p c = feed_emit q c /\ psim (feed_step p c) (feed_step q c).
Proof.
  intros HP HQ HS. destruct (data_state (pst p)) eqn:HD.
  - rewrite (psim_data_eq p q HP HQ HS HD). split; [reflexivity|apply psim_refl].
  - destruct HS as [S _]. pose proof (nodata_row_all (pst p) c) as R.
    unfold nodata_row in R. rewrite HD in R. cbn [negb implb] in R.
    apply andb_prop in R as [RK RC]. split.
    + unfold feed_emit. rewrite <- S.
      destruct (t_kind (williams (pst p) c)); try discriminate RK; reflexivity.
    + unfold psim. rewrite !feed_step_pst, <- S. split; [reflexivity|]. intros HN.
      rewrite HN in RC. cbn [implb] in RC. unfold feed_step. rewrite <- S, RC.
      rewrite (clear_eq p HP), (clear_eq q HQ). cbn. auto.
Qed.

Theorem psim_step : forall p q c,
  PInv p -> PInv q -> psim p q ->
  exists p' q' f, feedM p c = Ok (p', f) /\ feedM q c = Ok (q', f) /\ psim p' q'.
Proof.
  intros p q c HP HQ HS. destruct (psim_step_pure p q c HP HQ HS) as [E S].
  exists (feed_step p c), (feed_step q c), (feed_emit p c).
  rewrite !feedM_char by assumption. rewrite E. auto.
Qed.
Print Assumptions psim_step.

Corollary psim_ground : forall p q, pst p = Ground -> pst q = Ground -> psim p q.
Proof. intros p q Hp Hq. split; [congruence|]. rewrite Hp. discriminate. Qed.

(** more generally: outside the data states only the state matters *)
Corollary psim_nodata : forall p q, pst p = pst q -> data_state (pst p) = false -> psim p q.
Proof. intros p q S D. split; [exact S|]. rewrite D. discriminate. Qed.

(** * whole strings *)

Theorem C03_memoryless_all : forall s p q,
  PInv p -> PInv q -> psim p q ->
  exists p' q' fs, runP p s = Ok (p', fs) /\ runP q s = Ok (q', fs) /\ psim p' q'.
Proof.
  induction s as [|c r IH]; intros p q HP HQ HS.
  - exists p, q, []. auto.
  - destruct (psim_step_pure p q c HP HQ HS) as [E S].
    destruct (IH (feed_step p c) (feed_step q c)) as (p' & q' & fs & Rp & Rq & S');
      auto using feed_step_inv.
    exists p', q', (opt_cons (feed_emit p c) fs). cbn [runP].
    rewrite !feedM_char by assumption. cbn [bind]. rewrite Rp, Rq, E. cbn [bind]. auto.
Qed.
Print Assumptions C03_memoryless_all.

(** the instance in the property text: from [Ground] the past is forgotten *)
Corollary C03_memoryless_ground : forall s p q,
  PInv p -> PInv q -> pst p = Ground -> pst q = Ground ->
  exists p' q' fs, runP p s = Ok (p', fs) /\ runP q s = Ok (q', fs) /\ psim p' q'.
Proof. intros. apply C03_memoryless_all; auto using psim_ground. Qed.
Print Assumptions C03_memoryless_ground.

(** * 7-bit ESC Fe and the 8-bit C1 controls *)

Lemma esc_fe_pure c : 64 <= c <= 95 -> forall p,
  feed_emit p 27 = None
  /\ feed_emit (feed_step p 27) c = feed_emit p (c + 64)
  /\ pst (feed_step (feed_step p 27) c) = pst (feed_step p (c + 64)).
Proof.
  intros H p.
  assert (Hin : In c (codes_upto 96)) by (apply codes_upto_complete; cbn; lia).
  vm_compute in Hin.
  repeat (destruct Hin as [<-|Hin]; [try (exfalso; lia); repeat split; reflexivity|]).
  destruct Hin.
Qed.

Theorem C03_esc_fe : forall p c,
  PInv p -> 64 <= c <= 95 ->
  exists p1 p2 p3 f,
    feedM p 27 = Ok (p1, None) /\ feedM p1 c = Ok (p2, f)
    /\ feedM p (c + 64) = Ok (p3, f) /\ pst p2 = pst p3.
Proof.
  intros p c HP Hc. destruct (esc_fe_pure c Hc p) as (E0 & E1 & S).
  exists (feed_step p 27), (feed_step (feed_step p 27) c), (feed_step p (c + 64)),
         (feed_emit p (c + 64)).
  rewrite !feedM_char by auto using feed_step_inv. rewrite E0, E1. auto.
Qed.
Print Assumptions C03_esc_fe.

(** * decimal digits accumulate into the current parameter *)

Section UpdFacts.
  Context {A : Type}.

  Lemma upd_ext i (f g : A -> A) l : (forall x, f x = g x) -> upd i f l = upd i g l.
  Proof.
    intros H. revert i; induction l as [|x l IH]; intros i; [now rewrite !upd_nil|].
    destruct i; [rewrite !upd_0_cons; now rewrite H|rewrite !upd_S_cons; now rewrite IH].
  Qed.

  Lemma upd_upd i (f g : A -> A) l : upd i g (upd i f l) = upd i (fun x => g (f x)) l.
  Proof.
    revert i; induction l as [|x l IH]; intros i; [now rewrite !upd_nil|].
    destruct i; [reflexivity|]. rewrite !upd_S_cons. now rewrite IH.
  Qed.

  Lemma upd_id i (f : A -> A) l : (forall x, f x = x) -> upd i f l = l.
  Proof.
    intros H. revert i; induction l as [|x l IH]; intros i; [now rewrite upd_nil|].
    destruct i; [rewrite upd_0_cons; now rewrite H|rewrite upd_S_cons; now rewrite IH].
  Qed.
End UpdFacts.

(** apply [f] to the current part of the current parameter, nothing else changes *)
Definition set_cell (f : N -> N) (p : parser) : parser :=
  p <| params := upd (cur_param p)
                     (fun q => q <| parts := upd (cur_part q) f (parts q) |>) (params p) |>.

Definition digit_acc (v d : N) : N := (10 * v + (d - 48)) mod 65536.
Definition digit_fold (ds : list N) (v0 : N) : N := fold_left digit_acc ds v0.

Lemma set_cell_id f p : (forall v, f v = v) -> set_cell f p = p.
Proof.
  intros H. unfold set_cell. rewrite upd_id; [destruct p; reflexivity|].
  intros q. rewrite upd_id by exact H. destruct q; reflexivity.
Qed.

Lemma set_cell_set_cell f g p : set_cell g (set_cell f p) = set_cell (fun v => g (f v)) p.
Proof.
  unfold set_cell.
  change (cur_param (p <| params := ?x |>)) with (cur_param p).
  change (params (p <| params := ?x |>)) with x.
  rewrite upd_upd.
  rewrite (upd_ext _ _ (fun q => q <| parts := upd (cur_part q) (fun v => g (f v)) (parts q) |>)).
  - destruct p; reflexivity.
  - intros q. change (cur_part (q <| parts := ?x |>)) with (cur_part q).
    change (parts (q <| parts := ?x |>)) with x. rewrite upd_upd. destruct q; reflexivity.
Qed.

Lemma w_csi_param_digit : forall c, 48 <= c <= 57 -> williams CsiParam c = mkTrans CsiParam KParam false.
Proof. apply row_is_spec. vm_compute. reflexivity. Qed.

Lemma digit_step p d :
  pst p = CsiParam -> 48 <= d <= 57 ->
  feed_emit p d = None /\ feed_step p d = set_cell (fun v => digit_acc v d) p.
Proof.
  intros HS Hd.
  assert (W : williams (pst p) d = mkTrans CsiParam KParam false)
    by (rewrite HS; now apply w_csi_param_digit).
  unfold feed_emit, feed_step. rewrite W. cbn [t_kind t_clear t_next]. split; [reflexivity|].
  unfold param_step, PARAM_SEP, PART_SEP, DIGIT_BASE.
  replace (d =? 59) with false by lia. replace (d =? 58) with false by lia.
  unfold set_cell, param_add_digit, add_digit_gen, digit_acc.
  rewrite (N.mod_small d 256) by lia. destruct p as [s ps cp i]. cbn in HS. subst s. reflexivity.
Qed.

Lemma digits_run : forall ds p,
  pst p = CsiParam -> Forall (fun d => 48 <= d <= 57) ds ->
  run_emit p ds = [] /\ run_step p ds = set_cell (digit_fold ds) p.
Proof.
  induction ds as [|d ds IH]; intros p HS HF.
  - cbn [run_emit run_step]. split; [reflexivity|]. symmetry. now apply set_cell_id.
  - pose proof (Forall_inv HF) as Hd. apply Forall_inv_tail in HF.
    destruct (digit_step p d HS Hd) as [E1 S1]. cbn [run_emit run_step]. rewrite E1, S1.
    destruct (IH (set_cell (fun v => digit_acc v d) p)) as [E2 S2]; [exact HS|exact HF|].
    rewrite E2, S2, set_cell_set_cell. auto.
Qed.

Theorem C03_digits : forall ds p,
  PInv p -> pst p = CsiParam -> Forall (fun d => 48 <= d <= 57) ds ->
  exists p', runP p ds = Ok (p', [])
    /\ p' = set_cell (fold_left (fun v d => (10 * v + (d - 48)) mod 65536) ds) p
    /\ pst p' = CsiParam.
Proof.
  intros ds p HP HS HF. destruct (digits_run ds p HS HF) as [E S].
  exists (run_step p ds). rewrite runP_char by exact HP. rewrite E. split; [reflexivity|].
  split; [exact S|]. rewrite S. exact HS.
Qed.
Print Assumptions C03_digits.

(** the accumulated value in closed form *)
Definition digit_raw (ds : list N) (v0 : N) : N := fold_left (fun v d => 10 * v + (d - 48)) ds v0.
Definition digit_value (ds : list N) : N := digit_raw ds 0.

Lemma digit_raw_mod : forall ds a b,
  a mod 65536 = b mod 65536 -> digit_raw ds a mod 65536 = digit_raw ds b mod 65536.
Proof.
  induction ds as [|d ds IH]; intros a b H; [exact H|].
  unfold digit_raw in *. cbn [fold_left]. apply IH.
  rewrite (N.add_mod (10 * a)), (N.add_mod (10 * b)) by discriminate.
  rewrite (N.mul_mod 10 a), (N.mul_mod 10 b) by discriminate. now rewrite H.
Qed.

Lemma digit_fold_raw : forall ds v0, v0 < 65536 -> digit_fold ds v0 = digit_raw ds v0 mod 65536.
Proof.
  induction ds as [|d ds IH]; intros v0 H.
  - unfold digit_fold, digit_raw. cbn [fold_left]. now rewrite N.mod_small.
  - unfold digit_fold, digit_raw in *. cbn [fold_left]. rewrite IH.
    + apply digit_raw_mod. unfold digit_acc. apply N.mod_mod. discriminate.
    + unfold digit_acc. apply N.mod_lt. discriminate.
Qed.

Lemma digit_raw_split : forall ds v0,
  digit_raw ds v0 = v0 * 10 ^ N.of_nat (length ds) + digit_raw ds 0.
Proof.
  induction ds as [|d ds IH]; intros v0.
  - unfold digit_raw. cbn [fold_left length]. change (10 ^ N.of_nat 0) with 1. lia.
  - unfold digit_raw in *. cbn [fold_left length].
    rewrite (IH (10 * v0 + (d - 48))), (IH (10 * 0 + (d - 48))).
    rewrite Nat2N.inj_succ, N.pow_succ_r'. lia.
Qed.

Corollary digit_fold_value : forall ds v0,
  v0 < 65536 ->
  digit_fold ds v0 = (v0 * 10 ^ N.of_nat (length ds) + digit_value ds) mod 65536.
Proof. intros ds v0 H. rewrite digit_fold_raw by exact H. now rewrite digit_raw_split. Qed.
Print Assumptions digit_fold_value.

Lemma set_cell_ext_inv f g p :
  PInv p -> (forall v, v < 65536 -> f v = g v) -> set_cell f p = set_cell g p.
Proof.
  intros (L & C & F & _) H. unfold set_cell.
  rewrite (upd_ext_in (cur_param p) _
             (fun q => q <| parts := upd (cur_part q) g (parts q) |>) (params p) default_param);
    [reflexivity|].
  set (q := nth (cur_param p) (params p) default_param).
  assert (HQ : ParamInv q).
  { rewrite Forall_nth in F. apply F. rewrite L. exact C. }
  destruct HQ as (Lq & Cq & Fq & _).
  rewrite (upd_ext_in (cur_part q) f g (parts q) 0); [reflexivity|].
  apply H. rewrite Forall_nth in Fq. apply Fq. rewrite Lq. exact Cq.
Qed.

Theorem C03_digits_value : forall ds p,
  PInv p -> pst p = CsiParam -> Forall (fun d => 48 <= d <= 57) ds ->
  exists p', runP p ds = Ok (p', [])
    /\ p' = set_cell (fun v0 => (v0 * 10 ^ N.of_nat (length ds) + digit_value ds) mod 65536) p
    /\ pst p' = CsiParam.
Proof.
  intros ds p HP HS HF. destruct (C03_digits ds p HP HS HF) as (p' & R & E & S).
  exists p'. split; [exact R|]. split; [|exact S]. rewrite E.
  apply set_cell_ext_inv; [exact HP|]. intros v Hv. now apply digit_fold_value.
Qed.
Print Assumptions C03_digits_value.
