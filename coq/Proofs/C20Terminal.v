(** Property C20, the terminal half (audit gaps of C20):

    1. [C20_terminal_inert]: feeding a control string / unimplemented sequence / unassigned
       control (the grammar [inert_spec] of Spec/Inert.v, known finding [kf_c20] aside) to a
       machine whose parser is in [Ground] never panics, leaves the WHOLE terminal record
       untouched ([vterm v' = vterm v]: cells, cursor, modes, margins, tab stops, both
       buffers, saved contexts, dirty flags) and ends in [Ground].  Corollaries: the
       executable statement [holds_C20] of Oracles/Step.v, and [C20_flush_unchanged]: the
       call [feed_str v s] reports exactly what [feed_str v []] reports.
    2. [C20_terminal_inert_anywhere]: the same from EVERY parser state (no [Ground]
       hypothesis) when the text starts with ESC or a C1 code point (CSI, DCS, OSC, SOS, PM,
       APC introducers and the unassigned C1 controls), and [C20_terminal_inert_after_cancel]
       for CAN / SUB followed by inert text.
    3. The two malformed CSI shapes are pinned on the parser level ([runP]):
       [C20_csi_marker_not_first] (a private marker after the first parameter byte sends the
       sequence to [CsiIgnore]: nothing is dispatched) and [C20_csi_c0_executed] (a C0
       control inside a CSI sequence is executed at once and the sequence goes on as if it
       were not there). *)

From Avt Require Import Model.Parser Model.Vt Spec.Williams Spec.Inert Spec.Eqb Oracles.Step
  Proofs.Inv Proofs.ParserTable Proofs.ParserInv Proofs.ParserSim Proofs.ParserInert
  Proofs.InvStep.
Require Import Lia ZArith ZifyBool ZifyNat ZifyN.
Local Open Scope N_scope.

Ltac Zify.zify_post_hook ::= Z.div_mod_to_equations.

(** * 0. no function emitted => the terminal record is not touched *)

Lemma opt_cons_nil {A} (o : option A) (l : list A) : opt_cons o l = [] -> o = None /\ l = [].
Proof. destruct o; [discriminate|auto]. Qed.

Lemma vt_feed_quiet v c :
  PInv (vparser v) -> feed_emit (vparser v) c = None ->
  vt_feed v c = Ok (mkVt (feed_step (vparser v) c) (vterm v)).
Proof.
  intros HP E. unfold vt_feed. rewrite feedM_char by exact HP. cbn [bind]. rewrite E. reflexivity.
Qed.

Lemma feed_chars_quiet : forall s v,
  PInv (vparser v) -> run_emit (vparser v) s = [] ->
  feed_chars v s = Ok (mkVt (run_step (vparser v) s) (vterm v)).
Proof.
  induction s as [|c r IH]; intros v HP E.
  - cbn [feed_chars run_step]. destruct v; reflexivity.
  - cbn [run_emit] in E. apply opt_cons_nil in E as [E1 E2].
    cbn [feed_chars run_step]. rewrite (vt_feed_quiet v c HP E1). cbn [bind].
    rewrite IH; cbn [vparser vterm]; [reflexivity|now apply feed_step_inv|exact E2].
Qed.

Lemma Ok_inj {A} (a b : A) : Ok a = Ok b -> a = b.
Proof. intros H. injection H as H. exact H. Qed.

(** DESIGN's "C20_terminal": whatever the characters are, if the parser emits no function
    over them then [Vt::feed] leaves the terminal record alone *)
Theorem C20_terminal_no_function : forall v s p',
  Inv v -> runP (vparser v) s = Ok (p', []) -> feed_chars v s = Ok (mkVt p' (vterm v)).
Proof.
  intros v s p' [HP _] R. rewrite runP_char in R by exact HP.
  apply Ok_inj in R. injection R as R1 R2. rewrite <- R1. now apply feed_chars_quiet.
Qed.
Print Assumptions C20_terminal_no_function.

(** * 1. inert text from ground state *)

Theorem C20_terminal_inert : forall v s,
  Inv v -> pst (vparser v) = Ground -> inert_spec s = true -> kf_c20 s = false ->
  exists v', feed_chars v s = Ok v' /\ vterm v' = vterm v /\ pst (vparser v') = Ground.
Proof.
  intros v s [HP _] HG HI HK.
  destruct (C20_inert_pure s (vparser v) HG HI HK) as [EM ST].
  exists (mkVt (run_step (vparser v) s) (vterm v)).
  split; [now apply feed_chars_quiet|]. split; [reflexivity|exact ST].
Qed.
Print Assumptions C20_terminal_inert.

(** the same with the resulting machine spelled out: only the parser record moves *)
Theorem C20_terminal_inert_eq : forall v s,
  Inv v -> pst (vparser v) = Ground -> inert_spec s = true -> kf_c20 s = false ->
  exists p', feed_chars v s = Ok (mkVt p' (vterm v)) /\ pst p' = Ground /\ PInv p'.
Proof.
  intros v s [HP _] HG HI HK.
  destruct (C20_inert_pure s (vparser v) HG HI HK) as [EM ST].
  exists (run_step (vparser v) s).
  split; [now apply feed_chars_quiet|]. split; [exact ST|now apply run_step_inv].
Qed.
Print Assumptions C20_terminal_inert_eq.

(** the executable statement of Oracles/Step.v holds of every run of the model outside the
    known finding ([holds_C20] itself tests [Ground] and [inert_spec], so neither is a
    hypothesis here) *)
Theorem C20_holds : forall v s v',
  Inv v -> kf_c20 s = false -> feed_chars v s = Ok v' -> holds_C20 v s v' = true.
Proof.
  intros v s v' HV HK E. unfold holds_C20.
  destruct (pst (vparser v)) eqn:HG; try reflexivity.
  destruct (inert_spec s) eqn:HI; [|reflexivity].
  destruct (C20_terminal_inert v s HV HG HI HK) as (w & E' & T & G).
  rewrite E' in E. apply Ok_inj in E. subst w.
  rewrite T, G, term_eqb_refl. reflexivity.
Qed.
Print Assumptions C20_holds.

(** [vt_flush] reads and writes the terminal record only *)
Lemma vt_flush_parser_indep v w v1 o :
  vterm w = vterm v -> vt_flush v = Ok (v1, o) ->
  vt_flush w = Ok (mkVt (vparser w) (vterm v1), o).
Proof.
  intros H. unfold vt_flush. rewrite H.
  destruct (changes (vterm v)) as [t ls]. destruct (term_gc t) as [[t' dr]|site]; cbn [bind].
  - intros E. apply Ok_inj in E. injection E as E1 E2. subst v1 o. destruct v, w; reflexivity.
  - discriminate.
Qed.

(** "no changed line is reported": the call [feed_str v s] hands back exactly the changed
    rows and drained scrollback lines that the empty call [feed_str v []] hands back (what
    was pending before), and leaves the same terminal; only the parser record differs *)
Theorem C20_flush_unchanged : forall v s,
  Inv v -> pst (vparser v) = Ground -> inert_spec s = true -> kf_c20 s = false ->
  exists v0 v1 o,
    feed_str v [] = Ok (v0, o) /\ feed_str v s = Ok (v1, o)
    /\ vterm v1 = vterm v0 /\ vparser v0 = vparser v /\ pst (vparser v1) = Ground.
Proof.
  intros v s HV HG HI HK.
  destruct (C20_terminal_inert_eq v s HV HG HI HK) as (p' & E & G & _).
  destruct (vt_flush_Inv v HV) as (v0 & o & F & _).
  exists v0, (mkVt p' (vterm v0)), o. unfold feed_str. rewrite E. cbn [feed_chars bind].
  split; [exact F|]. split.
  - apply (vt_flush_parser_indep v (mkVt p' (vterm v)) v0 o eq_refl F).
  - split; [reflexivity|]. split; [|exact G].
    pose proof (vt_flush_parser_indep v v v0 o eq_refl F) as F'. rewrite F in F'.
    apply Ok_inj in F'. injection F' as F'. rewrite F'. reflexivity.
Qed.
Print Assumptions C20_flush_unchanged.

(** non-vacuity: after "Hi" on a 10x4 screen, an OSC title (BEL), a DCS string (ESC \), an
    APC string (ST), CSI > c, CSI 5 SP q, ESC SP F, NUL and U+0080 are claimed inert and
    leave the terminal alone *)
Definition c20_sample : list N :=
  [27;93;50;59;104;105;7; 144;49;36;114;10;27;92; 27;95;71;97;156; 155;62;99;
   27;91;53;32;113; 27;32;70; 0; 128].

Example C20_terminal_inert_ex :
  match feed_str (vt_new 10 4 None) [72;105] with
  | Ok (v, _) =>
    pstate_eqb (pst (vparser v)) Ground && inert_spec c20_sample && negb (kf_c20 c20_sample)
    && match feed_chars v c20_sample with
       | Ok v' => term_eqb (vterm v) (vterm v') && holds_C20 v c20_sample v'
                  && negb (term_eqb (vterm (vt_new 10 4 None)) (vterm v'))
       | Panic _ => false
       end
  | Panic _ => false
  end = true.
Proof. vm_compute. reflexivity. Qed.

(** * 2. from every parser state *)

(** the characters with an "anywhere" transition that abandons whatever was in progress:
    CAN, SUB, ESC and the C1 code points *)
Definition cancels (c : N) : bool := (c =? 24) || (c =? 26) || (c =? 27) || inrng 128 159 c.

Definition cancel_row (s : pstate) (c : N) : bool :=
  implb (cancels c)
    (trans_eqb (williams s c) (williams Ground c)
     && (match t_kind (williams Ground c) with KIgnore | KExecute => true | _ => false end)
     && implb (data_state (t_next (williams Ground c))) (t_clear (williams Ground c))).

Lemma cancel_sweep :
  forallb (fun s => forallb (cancel_row s) (codes_upto 160)) all_pstates = true.
Proof. vm_compute. reflexivity. Qed.

Lemma cancels_lt c : cancels c = true -> c < 160.
Proof. unfold cancels, inrng. lia. Qed.

(** after such a character two parsers are indistinguishable, whatever they were doing *)
Lemma cancel_step p q c :
  PInv p -> PInv q -> cancels c = true ->
  feed_emit p c = feed_emit q c /\ psim (feed_step p c) (feed_step q c).
Proof.
  intros HP HQ HC.
  pose proof (sweep_lt _ cancel_sweep (pst p) c (cancels_lt c HC)) as Rp.
  pose proof (sweep_lt _ cancel_sweep (pst q) c (cancels_lt c HC)) as Rq.
  unfold cancel_row in Rp, Rq. rewrite HC in Rp, Rq. cbn [implb] in Rp, Rq.
  apply andb_prop in Rp as [Rp RC]. apply andb_prop in Rp as [Wp RK].
  apply andb_prop in Rq as [Rq _]. apply andb_prop in Rq as [Wq _].
  apply trans_eqb_eq in Wp. apply trans_eqb_eq in Wq.
  split.
  - unfold feed_emit. rewrite Wp, Wq.
    destruct (t_kind (williams Ground c)); try discriminate RK; reflexivity.
  - unfold psim. rewrite !feed_step_pst, Wp, Wq. split; [reflexivity|]. intros HD.
    rewrite HD in RC. cbn [implb] in RC. unfold feed_step. rewrite Wp, Wq, RC.
    rewrite (clear_eq p HP), (clear_eq q HQ). cbn. auto.
Qed.

(** [C03_memoryless_all] on the level of the total functions *)
Lemma psim_run_pure : forall s p q,
  PInv p -> PInv q -> psim p q ->
  run_emit p s = run_emit q s /\ psim (run_step p s) (run_step q s).
Proof.
  induction s as [|c r IH]; intros p q HP HQ HS; [cbn [run_emit run_step]; auto|].
  destruct (psim_step_pure p q c HP HQ HS) as [E S].
  destruct (IH (feed_step p c) (feed_step q c)) as [E' S']; auto using feed_step_inv.
  cbn [run_emit run_step]. rewrite E, E'. auto.
Qed.

Lemma cancel_run c r p q :
  PInv p -> PInv q -> cancels c = true ->
  run_emit p (c :: r) = run_emit q (c :: r)
  /\ pst (run_step p (c :: r)) = pst (run_step q (c :: r)).
Proof.
  intros HP HQ HC. destruct (cancel_step p q c HP HQ HC) as [E S].
  destruct (psim_run_pure r (feed_step p c) (feed_step q c)) as [E' [S' _]];
    auto using feed_step_inv.
  cbn [run_emit run_step]. rewrite E, E'. auto.
Qed.

(** the text begins with ESC or a C1 code point: a 7- or 8-bit introducer (CSI, DCS, OSC,
    SOS, PM, APC) or an unassigned C1 control.  Among the texts of [inert_spec] this
    excludes exactly those whose first item is an unassigned C0 control (which does not
    cancel a sequence in progress, see [C20_anywhere_needs_introducer]). *)
Definition starts_with_introducer (s : list N) : bool :=
  match s with c :: _ => (c =? 27) || inrng 128 159 c | [] => false end.

Theorem C20_inert_anywhere : forall s p,
  PInv p -> starts_with_introducer s = true -> inert_spec s = true -> kf_c20 s = false ->
  exists p', runP p s = Ok (p', []) /\ pst p' = Ground.
Proof.
  intros s p HP HS HI HK. destruct s as [|c r]; [discriminate HS|]. cbn [starts_with_introducer] in HS.
  assert (HC : cancels c = true) by (unfold cancels, inrng in *; lia).
  destruct (cancel_run c r p init_parser HP init_parser_PInv HC) as [E S].
  destruct (C20_inert_pure (c :: r) init_parser eq_refl HI HK) as [EM ST].
  exists (run_step p (c :: r)). rewrite runP_char by exact HP. rewrite E, EM, S. auto.
Qed.
Print Assumptions C20_inert_anywhere.

Theorem C20_terminal_inert_anywhere : forall v s,
  Inv v -> starts_with_introducer s = true -> inert_spec s = true -> kf_c20 s = false ->
  exists v', feed_chars v s = Ok v' /\ vterm v' = vterm v /\ pst (vparser v') = Ground.
Proof.
  intros v s HV HS HI HK. pose proof HV as [HP _].
  destruct (C20_inert_anywhere s (vparser v) HP HS HI HK) as (p' & R & G).
  exists (mkVt p' (vterm v)). split; [now apply C20_terminal_no_function|]. auto.
Qed.
Print Assumptions C20_terminal_inert_anywhere.

(** CAN / SUB abandon whatever is in progress without any effect; inert text may follow *)
Lemma w_can s c : c = 24 \/ c = 26 -> williams s c = mkTrans Ground KExecute false.
Proof. intros [->| ->]; reflexivity. Qed.

Theorem C20_terminal_inert_after_cancel : forall v c s,
  Inv v -> c = 24 \/ c = 26 ->
  s = [] \/ (inert_spec s = true /\ kf_c20 s = false) ->
  exists v', feed_chars v (c :: s) = Ok v' /\ vterm v' = vterm v /\ pst (vparser v') = Ground.
Proof.
  intros v c s HV Hc Hs. pose proof HV as [HP _].
  pose proof (w_can (pst (vparser v)) c Hc) as W.
  assert (E1 : feed_emit (vparser v) c = None).
  { rewrite (step_emit _ _ _ W). destruct Hc as [->| ->]; reflexivity. }
  pose proof (step_pst _ _ _ W) as G1. cbn [t_next] in G1.
  assert (R : run_emit (vparser v) (c :: s) = [] /\ pst (run_step (vparser v) (c :: s)) = Ground).
  { cbn [run_emit run_step]. rewrite E1. cbn [opt_cons]. destruct Hs as [->|[HI HK]].
    - cbn [run_emit run_step]. auto.
    - apply C20_inert_pure; assumption. }
  destruct R as [EM ST].
  exists (mkVt (run_step (vparser v) (c :: s)) (vterm v)).
  split; [now apply feed_chars_quiet|]. auto.
Qed.
Print Assumptions C20_terminal_inert_after_cancel.

(** non-vacuity: the parser is parked inside an OSC string, inside CSI parameters, inside a
    DCS passthrough; the sample (which starts with ESC) and CAN + sample leave the terminal
    alone and end in ground state *)
Definition c20_parked (pre : list N) (s : list N) : bool :=
  match feed_str (vt_new 10 4 None) ([72;105] ++ pre) with
  | Ok (v, _) =>
    negb (pstate_eqb (pst (vparser v)) Ground)
    && match feed_chars v s with
       | Ok v' => term_eqb (vterm v) (vterm v') && pstate_eqb (pst (vparser v')) Ground
       | Panic _ => false
       end
  | Panic _ => false
  end.

Example C20_terminal_inert_anywhere_ex :
  starts_with_introducer c20_sample = true
  /\ forallb (fun pre => c20_parked pre c20_sample && c20_parked pre (24 :: c20_sample)
                         && c20_parked pre [26])
       [[27;93;50;59;120]; [155;53;59]; [144;49;113;35]; [27]; [27;91;63;50;36]; [155;49;62]]
     = true.
Proof. split; vm_compute; reflexivity. Qed.

(** the hypothesis [starts_with_introducer] is needed: NUL is an unassigned C0 control
    ([inert_spec [0] = true]), but inside a CSI sequence it does not bring the parser back
    to ground state (it is executed -- to no effect -- and the sequence goes on) *)
Example C20_anywhere_needs_introducer :
  inert_spec [0] = true /\ kf_c20 [0] = false /\ starts_with_introducer [0] = false
  /\ match feed_str (vt_new 10 4 None) [155;53] with
     | Ok (v, _) =>
       match feed_chars v [0] with
       | Ok v' => pstate_eqb (pst (vparser v')) CsiParam && term_eqb (vterm v) (vterm v')
       | Panic _ => false
       end
     | Panic _ => false
     end = true.
Proof. repeat split; vm_compute; reflexivity. Qed.

(** * 3. malformed CSI shapes *)

(** ** 3a. a private marker that is not in first position *)

Lemma w_csi_param_marker :
  forall c, 60 <= c <= 63 -> williams CsiParam c = mkTrans CsiIgnore KIgnore false.
Proof. apply row_is_spec. vm_compute. reflexivity. Qed.

Lemma w_csi_ignore_body :
  forall c, 32 <= c <= 63 -> williams CsiIgnore c = mkTrans CsiIgnore KIgnore false.
Proof. apply row_is_spec. vm_compute. reflexivity. Qed.

Lemma w_csi_ignore_final :
  forall c, 64 <= c <= 126 -> williams CsiIgnore c = mkTrans Ground KIgnore false.
Proof. apply row_is_spec. vm_compute. reflexivity. Qed.

(** [CsiIgnore] swallows parameter and intermediate bytes and the final byte *)
Lemma csi_ignore_run : forall body p f,
  pst p = CsiIgnore -> Forall (rng 32 63) body -> 64 <= f <= 126 ->
  run_emit p (body ++ [f]) = [] /\ pst (run_step p (body ++ [f])) = Ground.
Proof.
  induction body as [|c body IH]; intros p f HS HB Hf.
  - assert (W : williams (pst p) f = mkTrans Ground KIgnore false)
      by (rewrite HS; now apply w_csi_ignore_final).
    cbn [app run_emit run_step]. rewrite (step_emit _ _ _ W), (step_pst _ _ _ W). auto.
  - pose proof (Forall_inv HB) as Hc. apply rng_iff in Hc. apply Forall_inv_tail in HB.
    assert (W : williams (pst p) c = mkTrans CsiIgnore KIgnore false)
      by (rewrite HS; now apply w_csi_ignore_body).
    cbn [app run_emit run_step]. rewrite (step_emit _ _ _ W). cbn [t_kind opt_cons].
    apply IH; [apply (step_pst _ _ _ W)|exact HB|exact Hf].
Qed.

Theorem C20_csi_ignore_absorbs : forall p body f,
  PInv p -> pst p = CsiIgnore -> Forall (rng 32 63) body -> 64 <= f <= 126 ->
  exists p', runP p (body ++ [f]) = Ok (p', []) /\ pst p' = Ground.
Proof.
  intros p body f HP HS HB Hf. destruct (csi_ignore_run body p f HS HB Hf) as [EM ST].
  exists (run_step p (body ++ [f])). rewrite runP_char by exact HP. rewrite EM. auto.
Qed.
Print Assumptions C20_csi_ignore_absorbs.

(** after the introducer: first parameter byte [x] (a digit, ';' or a private marker),
    more parameter bytes, then a private marker [m] -- not in first position *)
Lemma csi_late_marker_run p x tail m body f :
  pst p = CsiEntry -> 48 <= x <= 63 -> x <> 58 -> Forall (rng 48 59) tail -> 60 <= m <= 63 ->
  Forall (rng 32 63) body -> 64 <= f <= 126 ->
  run_emit p (x :: tail ++ m :: body ++ [f]) = []
  /\ pst (run_step p (x :: tail ++ m :: body ++ [f])) = Ground.
Proof.
  intros HS Hx Hx58 HT Hm HB Hf.
  assert (W : exists k, williams (pst p) x = mkTrans CsiParam k false /\ (k = KParam \/ k = KCollect)).
  { rewrite HS. destruct (N.le_gt_cases 60 x) as [H60|H60].
    - exists KCollect. split; [apply w_csi_entry_marker; lia|auto].
    - exists KParam. split; [|auto]. destruct (N.eq_dec x 59) as [->|N59].
      + apply w_csi_entry_semi. lia.
      + apply w_csi_entry_digit. lia. }
  destruct W as (k & W & Hk).
  assert (E0 : feed_emit p x = None).
  { rewrite (step_emit _ _ _ W). cbn [t_kind]. destruct Hk as [->| ->]; reflexivity. }
  pose proof (step_pst _ _ _ W) as S0. cbn [t_next] in S0.
  destruct (csi_params_run tail (feed_step p x) S0 HT) as (E1 & S1 & _).
  set (p1 := run_step (feed_step p x) tail) in *.
  assert (W2 : williams (pst p1) m = mkTrans CsiIgnore KIgnore false)
    by (rewrite S1; now apply w_csi_param_marker).
  destruct (csi_ignore_run body (feed_step p1 m) f (step_pst _ _ _ W2) HB Hf) as [E3 S3].
  cbn [run_emit run_step]. rewrite E0. cbn [opt_cons].
  rewrite run_emit_app, run_step_app, E1. fold p1. cbn [app run_emit run_step].
  rewrite (step_emit _ _ _ W2). cbn [t_kind opt_cons]. auto.
Qed.

(** CSI Pm <marker> ... final: nothing is dispatched, from every parser state, in the
    8-bit and in the 7-bit introducer form *)
Theorem C20_csi_marker_not_first : forall p intro x tail m body f,
  PInv p -> intro = [155] \/ intro = [27; 91] ->
  48 <= x <= 63 -> x <> 58 -> Forall (rng 48 59) tail -> 60 <= m <= 63 ->
  Forall (rng 32 63) body -> 64 <= f <= 126 ->
  exists p', runP p (intro ++ x :: tail ++ m :: body ++ [f]) = Ok (p', []) /\ pst p' = Ground.
Proof.
  intros p intro x tail m body f HP HI Hx Hx58 HT Hm HB Hf.
  set (s := x :: tail ++ m :: body ++ [f]).
  assert (R : run_emit p (intro ++ s) = [] /\ pst (run_step p (intro ++ s)) = Ground).
  { destruct HI as [->| ->]; cbn [app run_emit run_step].
    - rewrite (step_emit p _ _ (w_csi (pst p))). cbn [t_kind opt_cons].
      apply csi_late_marker_run; auto; try apply (step_pst p _ _ (w_csi (pst p))).
    - pose proof (step_pst p 27 _ (w_esc (pst p))) as P1. cbn [t_next] in P1.
      assert (W : williams (pst (feed_step p 27)) 91 = mkTrans CsiEntry KIgnore true)
        by (rewrite P1; apply w_esc_csi).
      rewrite (step_emit p _ _ (w_esc (pst p))), (step_emit _ _ _ W). cbn [t_kind opt_cons].
      apply csi_late_marker_run; auto; try apply (step_pst _ _ _ W). }
  destruct R as [EM ST]. exists (run_step p (intro ++ s)).
  rewrite runP_char by exact HP. rewrite EM. auto.
Qed.
Print Assumptions C20_csi_marker_not_first.

(** terminal level *)
Corollary C20_terminal_csi_marker_not_first : forall v intro x tail m body f,
  Inv v -> intro = [155] \/ intro = [27; 91] ->
  48 <= x <= 63 -> x <> 58 -> Forall (rng 48 59) tail -> 60 <= m <= 63 ->
  Forall (rng 32 63) body -> 64 <= f <= 126 ->
  exists v', feed_chars v (intro ++ x :: tail ++ m :: body ++ [f]) = Ok v'
             /\ vterm v' = vterm v /\ pst (vparser v') = Ground.
Proof.
  intros v intro x tail m body f HV HI Hx Hx58 HT Hm HB Hf. pose proof HV as [HP _].
  destruct (C20_csi_marker_not_first (vparser v) intro x tail m body f HP HI Hx Hx58 HT Hm HB Hf)
    as (p' & R & G).
  exists (mkVt p' (vterm v)). split; [now apply C20_terminal_no_function|]. auto.
Qed.
Print Assumptions C20_terminal_csi_marker_not_first.

(** non-vacuity: CSI 1 ? 2 5 l (would hide the cursor if the marker were honoured),
    CSI ? 6 ? h, ESC [ ; > 5 SP A; outside [parse_csi]'s grammar, yet nothing happens *)
Example C20_csi_marker_not_first_ex :
  forallb (fun s =>
    match parse_csi (tl s) with Some _ => false | None => true end
    && negb (inert_spec s)
    && match runP init_parser s with Ok (p', fs) => pstate_eqb (pst p') Ground
                                        && match fs with [] => true | _ => false end
       | Panic _ => false end)
    [[155;49;63;50;53;108]; [155;63;54;63;104]; [155;59;62;53;32;65]] = true
  /\ exists p', runP init_parser [155;63;50;53;108] = Ok (p', [Decrst [TextCursorEnable]]).
Proof. split; [vm_compute; reflexivity|]. eexists. vm_compute. reflexivity. Qed.

(** ** 3b. a C0 control inside a CSI sequence *)

Definition csi_state (s : pstate) : bool :=
  match s with CsiEntry | CsiParam | CsiIntermediate | CsiIgnore => true | _ => false end.

Lemma c0_exec_lt c : c0_exec c = true -> c < 160.
Proof. unfold c0_exec, inr. lia. Qed.

Lemma w_csi_c0 s : csi_state s = true ->
  forall c, c < 160 -> c0_exec c = true -> williams s c = mkTrans s KExecute false.
Proof. destruct s; try discriminate; intros _; apply row_if_spec; vm_compute; reflexivity. Qed.

(** one step: the control is executed, the parser record does not move at all *)
Lemma csi_c0_step p c :
  csi_state (pst p) = true -> c0_exec c = true ->
  feed_step p c = p /\ feed_emit p c = execute_gen c.
Proof.
  intros HS Hc. pose proof (w_csi_c0 _ HS c (c0_exec_lt c Hc) Hc) as W. split.
  - unfold feed_step. rewrite W. cbn [t_clear t_kind t_next]. destruct p; reflexivity.
  - rewrite (step_emit _ _ _ W). reflexivity.
Qed.

(** CSI ... <C0 control> ... : if after [a] the parser is inside a CSI sequence (entry,
    parameters, intermediates or ignore) then the C0 control [c] (anything below 0x20 but
    CAN, SUB, ESC) is EXECUTED at that point -- its function, if it has one ([execute_gen]:
    BS, HT, LF, VT, FF, CR, SO, SI), is emitted there -- and the sequence continues exactly
    as if [c] had not been sent *)
Theorem C20_csi_c0_executed : forall p a c b p1 fa,
  PInv p -> runP p a = Ok (p1, fa) -> csi_state (pst p1) = true -> c0_exec c = true ->
  exists p2 fb,
    runP p1 b = Ok (p2, fb)
    /\ runP p (a ++ c :: b) = Ok (p2, fa ++ opt_cons (execute_gen c) fb)
    /\ runP p (a ++ b) = Ok (p2, fa ++ fb).
Proof.
  intros p a c b p1 fa HP R HS Hc.
  rewrite runP_char in R by exact HP. apply Ok_inj in R. injection R as R1 R2. subst p1 fa.
  pose proof (run_step_inv a p HP) as HP1.
  destruct (csi_c0_step (run_step p a) c HS Hc) as [ES EE].
  exists (run_step (run_step p a) b), (run_emit (run_step p a) b).
  rewrite !runP_char by assumption.
  rewrite !run_step_app, !run_emit_app. cbn [run_step run_emit]. rewrite ES, EE. auto.
Qed.
Print Assumptions C20_csi_c0_executed.

(** the family of the audit: CSI Pm <C0> Pm final *)
Corollary C20_csi_c0_inside_params : forall p ps c rest,
  PInv p -> Forall (rng 48 59) ps -> (forall t, ps <> 58 :: t) -> c0_exec c = true ->
  exists p1 p2 fs,
    runP p (155 :: ps) = Ok (p1, [])
    /\ runP p1 rest = Ok (p2, fs)
    /\ runP p (155 :: ps ++ c :: rest) = Ok (p2, opt_cons (execute_gen c) fs)
    /\ runP p (155 :: ps ++ rest) = Ok (p2, fs).
Proof.
  intros p ps c rest HP HF H58 Hc.
  pose proof (step_pst p _ _ (w_csi (pst p))) as S0.
  pose proof (step_inter p _ _ (w_csi (pst p))) as I0. cbn [t_next t_clear] in S0, I0.
  destruct (csi_ps_run (feed_step p 155) None ps S0 I0 (conj HF H58)) as (E1 & S1 & _).
  assert (R : runP p (155 :: ps) = Ok (run_step p (155 :: ps), [])).
  { rewrite runP_char by exact HP. cbn [run_emit run_step].
    rewrite (step_emit p _ _ (w_csi (pst p))), E1. reflexivity. }
  assert (CS : csi_state (pst (run_step p (155 :: ps))) = true).
  { cbn [run_step]. destruct (pst (run_step (feed_step p 155) ps)); try discriminate S1; reflexivity. }
  destruct (C20_csi_c0_executed p (155 :: ps) c rest _ _ HP R CS Hc) as (p2 & fb & R1 & R2 & R3).
  exists (run_step p (155 :: ps)), p2, fb. cbn [app] in R2, R3. auto.
Qed.
Print Assumptions C20_csi_c0_inside_params.

(** non-vacuity: CSI 5 LF 3 A moves the cursor down one row at once and then up by 53
    (the digits on both sides of the control form ONE parameter); with BS inside CsiIgnore
    the backspace is executed although the sequence itself is discarded *)
Example C20_csi_c0_executed_ex :
  (exists p', runP init_parser [155;53;10;51;65] = Ok (p', [Lf; Cuu 53]))
  /\ (exists p', runP init_parser [155;49;63;8;50;53;108] = Ok (p', [Bs]))
  /\ match feed_str (vt_new 10 4 None) [72;105] with
     | Ok (v, _) =>
       match feed_chars v [155;49;63;8;50;53;108] with
       | Ok v' => negb (term_eqb (vterm v) (vterm v')) && pstate_eqb (pst (vparser v')) Ground
       | Panic _ => false
       end
     | Panic _ => false
     end = true.
Proof. split; [|split]; [eexists; vm_compute; reflexivity ..|vm_compute; reflexivity]. Qed.
