(** How to establish the conclusions [visible_eqb e t = true] of the step statements:
    it suffices that [e] and [t] agree after forgetting the dirty flags and the lazy-trim
    flags. *)

From Avt Require Import Spec.Screen.

Definition vis_norm (t : term) : term :=
  t <| dirty := [] |>
    <| buf := (buf t) <| trim_needed := false |> |>
    <| other := (other t) <| trim_needed := false |> |>.

Lemma buffer_vis_eqb_refl b : buffer_vis_eqb b b = true.
Proof.
  unfold buffer_vis_eqb. now rewrite lines_eqb_refl, !Nat.eqb_refl, limit_eqb_refl.
Qed.

Lemma buffer_vis_eqb_norm a b :
  a <| trim_needed := false |> = b <| trim_needed := false |> -> buffer_vis_eqb a b = true.
Proof.
  intros H. destruct a as [la ca ra lima ta], b as [lb cb rb limb tb]. cbn in H.
  injection H as -> -> -> ->. unfold buffer_vis_eqb; cbn.
  now rewrite lines_eqb_refl, !Nat.eqb_refl, limit_eqb_refl.
Qed.

Lemma visible_eqb_refl t : visible_eqb t t = true.
Proof. unfold visible_eqb. now rewrite term_scalars_eqb_refl, !buffer_vis_eqb_refl. Qed.

Theorem visible_eqb_norm a b : vis_norm a = vis_norm b -> visible_eqb a b = true.
Proof.
  intros H.
  assert (Hs : term_scalars_eqb a b = true).
  { replace (term_scalars_eqb a b) with (term_scalars_eqb (vis_norm a) (vis_norm b)) by (destruct a, b; reflexivity).
    rewrite H. apply term_scalars_eqb_refl. }
  assert (Hb : (buf a) <| trim_needed := false |> = (buf b) <| trim_needed := false |>).
  { change ((buf a) <| trim_needed := false |>) with (buf (vis_norm a)). rewrite H. destruct b; reflexivity. }
  assert (Ho : (other a) <| trim_needed := false |> = (other b) <| trim_needed := false |>).
  { change ((other a) <| trim_needed := false |>) with (other (vis_norm a)). rewrite H. destruct b; reflexivity. }
  unfold visible_eqb. now rewrite Hs, (buffer_vis_eqb_norm _ _ Hb), (buffer_vis_eqb_norm _ _ Ho).
Qed.

(** corollary used most often: the two terms are equal except for [dirty] and the active
    buffer's [trim_needed] *)
Corollary visible_eqb_eq a b : a = b -> visible_eqb a b = true.
Proof. intros ->. apply visible_eqb_refl. Qed.
