(** C16 (alternate screen) holds for every model step from every state satisfying [TInv]. *)

From Coq Require Import Lia ZArith ZifyBool ZifyNat ZifyN.
From Avt Require Import Oracles.Step Proofs.Inv Proofs.TermEasy Proofs.VisEq Proofs.Frames
  Proofs.Resize Proofs.StepC17.

(** * the DEC private modes, one at a time *)

Definition is_switch (m : dec_mode) : bool :=
  match m with AltScreenBuffer | SaveCursorAltScreenBuffer => true | _ => false end.

(** fields untouched by the non-switching modes *)
Definition keepB (t : term) := (cols t, rows t, buf t, other t, active t).

Lemma decset_one_pure u m u' :
  is_switch m = false -> decset_one u m = Ok u' -> keepB u' = keepB u.
Proof.
  destruct m; try discriminate; intros _ H; cbn [decset_one] in H; injection H as <-;
    destruct u; reflexivity.
Qed.

Lemma decrst_one_pure u m u' :
  is_switch m = false -> decrst_one u m = Ok u' -> keepB u' = keepB u.
Proof.
  destruct m; try discriminate; intros _ H; cbn [decrst_one] in H; injection H as <-;
    destruct u; reflexivity.
Qed.

Lemma save_cursor_keepB u : keepB (save_cursor u) = keepB u /\ tpen (save_cursor u) = tpen u.
Proof. destruct u; split; reflexivity. Qed.

Lemma restore_cursor_keepB u : keepB (restore_cursor u) = keepB u.
Proof. destruct u; reflexivity. Qed.

Lemma decset_one_switch u m u' :
  is_switch m = true -> decset_one u m = Ok u' ->
  exists u1 u2, keepB u1 = keepB u /\ tpen u1 = tpen u
                /\ switch_to_alternate_buffer u1 = Ok u2 /\ reflow u2 = Ok u'.
Proof.
  destruct m; try discriminate; intros _ H.
  - rewrite decset_asb_eq in H. apply bind_ok in H as (u2 & H2 & H). exists u, u2. auto.
  - rewrite decset_scasb_eq in H. apply bind_ok in H as (u2 & H2 & H).
    exists (save_cursor u), u2. destruct (save_cursor_keepB u). auto.
Qed.

Lemma decrst_one_switch u m u' :
  is_switch m = true -> decrst_one u m = Ok u' ->
  exists u2 u3, switch_to_primary_buffer u = Ok u2 /\ keepB u3 = keepB u2 /\ reflow u3 = Ok u'.
Proof.
  destruct m; try discriminate; intros _ H.
  - rewrite decrst_asb_eq in H. apply bind_ok in H as (u2 & H2 & H). exists u2, u2. auto.
  - rewrite decrst_scasb_eq in H. apply bind_ok in H as (u2 & H2 & H).
    exists u2, (restore_cursor u2). pose proof (restore_cursor_keepB u2). auto.
Qed.

Lemma keepB_inv u u' :
  keepB u' = keepB u ->
  cols u' = cols u /\ rows u' = rows u /\ buf u' = buf u /\ other u' = other u /\ active u' = active u.
Proof. unfold keepB. intros H. injection H; intros; repeat split; assumption. Qed.

Lemma keepR_inv u u' :
  keepR u' = keepR u ->
  cols u' = cols u /\ rows u' = rows u /\ other u' = other u /\ active u' = active u
  /\ tpen u' = tpen u /\ asctx u' = asctx u.
Proof. unfold keepR. intros H. injection H; intros; repeat split; assumption. Qed.

(** [reflow] at unchanged geometry keeps the lines *)
Lemma reflow_same u u' :
  bcols (buf u) = cols u -> brows (buf u) = rows u -> brows (buf u) <= length (lines (buf u)) ->
  reflow u = Ok u' ->
  lines (buf u') = lines (buf u) /\ bcols (buf u') = bcols (buf u) /\ brows (buf u') = brows (buf u)
  /\ keepR u' = keepR u.
Proof.
  intros Ec Er Hl H. apply reflow_inv in H as (b & c & r & d & Hb & ->).
  rewrite <- Ec, <- Er, (buf_resize_same' _ _ _ Hl) in Hb. injection Hb as <- _ _.
  rewrite reflowed_buf, reflowed_keepR. destruct (buf u); repeat split.
Qed.

(** * entering the alternate screen: the invariant of the [Decset] fold *)

Definition PB (t u : term) : Prop :=
  cols u = cols t /\ rows u = rows t /\ tpen u = tpen t /\
  match active u with
  | Primary => buf u = buf t
  | Alternate =>
    other u = buf t /\ lines (buf u) = repeat (blank_line (cols t) (tpen t)) (rows t)
    /\ bcols (buf u) = cols t /\ brows (buf u) = rows t
  end.

Lemma PB_keepB t u u' : keepB u' = keepB u -> tpen u' = tpen u -> PB t u -> PB t u'.
Proof.
  intros HK Hp (P1 & P2 & P3 & P4). apply keepB_inv in HK as (K1 & K2 & K3 & K4 & K5).
  unfold PB. rewrite K1, K2, K3, K4, K5, Hp. auto.
Qed.

Lemma PB_reflow t u u' : active u = Alternate -> PB t u -> reflow u = Ok u' -> PB t u'.
Proof.
  intros Ea (P1 & P2 & P3 & P4) H. rewrite Ea in P4. destruct P4 as (Q1 & Q2 & Q3 & Q4).
  assert (Hl : brows (buf u) <= length (lines (buf u))) by (rewrite Q2, Q4, repeat_length; apply le_n).
  destruct (reflow_same u u' (eq_trans Q3 (eq_sym P1)) (eq_trans Q4 (eq_sym P2)) Hl H)
    as (R1 & R2 & R3 & R4).
  apply keepR_inv in R4 as (K1 & K2 & K3 & K4 & K5 & _).
  unfold PB. rewrite K1, K2, K3, K4, K5, Ea, R1, R2, R3. auto 10.
Qed.

Lemma PB_to_alt t u d : active u = Primary -> PB t u -> PB t (to_alt u d).
Proof.
  intros Ea (P1 & P2 & P3 & P4). rewrite Ea in P4.
  destruct (to_alt_fields u d) as (T1 & _ & _ & T4 & T5 & T6 & T7 & _ & _ & T10 & _).
  unfold PB. rewrite T1, T4, T5, T6, T7, T10, P1, P2, P3. unfold buffer_new. cbn [lines bcols brows]. auto 10.
Qed.

Lemma PB_step t u m u' : decset_one u m = Ok u' -> PB t u -> PB t u'.
Proof.
  intros H HP. destruct (is_switch m) eqn:Em.
  - destruct (decset_one_switch u m u' Em H) as (u1 & u2 & K & Kp & H1 & H2).
    pose proof (PB_keepB t u u1 K Kp HP) as HP1.
    apply switch_alt_inv in H1 as [[Ea ->]|[Ea [d ->]]].
    + exact (PB_reflow t u1 u' Ea HP1 H2).
    + refine (PB_reflow t _ u' _ (PB_to_alt t u1 d Ea HP1) H2). apply to_alt_fields.
  - exact (PB_keepB t u u' (decset_one_pure u m u' Em H) (decset_one_tpen u m u' H) HP).
Qed.

Lemma PB_refl t : active t = Primary -> PB t t.
Proof. intros Ea. unfold PB. rewrite Ea. auto. Qed.

Lemma decset_PB ms t t' : active t = Primary -> execute t (Decset ms) = Ok t' -> PB t t'.
Proof.
  intros Ea H. cbn [execute] in H.
  apply (foldM_inv decset_one (PB t)) with (l := ms) (a := t); [|exact H|exact (PB_refl t Ea)].
  intros a x a' Hx Ha. exact (PB_step t a x a' Hx Ha).
Qed.

(** * on the alternate screen the parked primary is untouched *)

Lemma decset_alt_step t u m u' :
  decset_one u m = Ok u' -> active u = Alternate /\ other u = other t ->
  active u' = Alternate /\ other u' = other t.
Proof.
  intros H [Ea Eo]. destruct (is_switch m) eqn:Em.
  - destruct (decset_one_switch u m u' Em H) as (u1 & u2 & K & _ & H1 & H2).
    apply keepB_inv in K as (_ & _ & _ & K4 & K5).
    apply switch_alt_inv in H1 as [[_ ->]|[Ea1 _]]; [|congruence].
    apply reflow_keepR, keepR_inv in H2 as (_ & _ & R3 & R4 & _). split; congruence.
  - apply (decset_one_pure u m u' Em), keepB_inv in H as (_ & _ & _ & K4 & K5). split; congruence.
Qed.

Definition RB (t u : term) : Prop :=
  (active u = Alternate /\ other u = other t) \/ active u = Primary.

Lemma decrst_alt_step t u m u' : decrst_one u m = Ok u' -> RB t u -> RB t u'.
Proof.
  intros H HR. destruct (is_switch m) eqn:Em.
  - right. destruct (decrst_one_switch u m u' Em H) as (u2 & u3 & H1 & K & H2).
    apply keepB_inv in K as (_ & _ & _ & _ & K5).
    apply reflow_keepR, keepR_inv in H2 as (_ & _ & _ & R4 & _). rewrite R4, K5.
    apply switch_prim_inv in H1 as [[Ea ->]|[_ [d ->]]]; [exact Ea|apply to_prim_fields].
  - apply (decrst_one_pure u m u' Em), keepB_inv in H as (_ & _ & _ & K4 & K5).
    unfold RB. rewrite K4, K5. exact HR.
Qed.

Lemma alt_alt t f t' :
  TInv t -> execute t f = Ok t' -> active t = Alternate -> active t' = Alternate ->
  other t' = other t.
Proof.
  intros HT H Ea Ea'. pose proof (other_frame t f t' H) as F.
  destruct f; try exact F.
  - (* Decrst *) cbn [execute] in H.
    assert (HR : RB t t').
    { apply (foldM_inv decrst_one (RB t)) with (l := ms) (a := t); [|exact H|left; auto].
      intros a x a' Hx Ha. exact (decrst_alt_step t a x a' Hx Ha). }
    destruct HR as [[_ E]|E]; [exact E|congruence].
  - (* Decset *) cbn [execute] in H.
    apply (foldM_inv decset_one (fun u => active u = Alternate /\ other u = other t))
      with (l := ms) (a := t); [|exact H|auto].
    intros a x a' Hx Ha. exact (decset_alt_step t a x a' Hx Ha).
  - (* Ris *) cbn [execute] in H. injection H as <-.
    replace (active (hard_reset_gen t)) with Primary in Ea' by (destruct t; reflexivity). discriminate.
  - (* Xtwinops *) rewrite (xtwinops_noop t op t' (ti_xtw t HT) H). reflexivity.
Qed.

(** * only [Decset] enters the alternate screen *)

Lemma decrst_prim_step u m u' : decrst_one u m = Ok u' -> active u = Primary -> active u' = Primary.
Proof.
  intros H Ea. destruct (is_switch m) eqn:Em.
  - destruct (decrst_one_switch u m u' Em H) as (u2 & u3 & H1 & K & H2).
    apply keepB_inv in K as (_ & _ & _ & _ & K5).
    apply reflow_keepR, keepR_inv in H2 as (_ & _ & _ & R4 & _). rewrite R4, K5.
    apply switch_prim_inv in H1 as [[_ ->]|[_ [d ->]]]; [exact Ea|apply to_prim_fields].
  - apply (decrst_one_pure u m u' Em), keepB_inv in H as (_ & _ & _ & _ & K5). congruence.
Qed.

Lemma prim_alt t f t' :
  TInv t -> execute t f = Ok t' -> active t = Primary -> active t' = Alternate ->
  exists ms, f = Decset ms.
Proof.
  intros HT H Ea Ea'. pose proof (active_frame t f t' H) as F.
  destruct f; try (exfalso; congruence).
  - (* Decrst *) exfalso. cbn [execute] in H.
    assert (E : active t' = Primary); [|congruence].
    apply (foldM_inv decrst_one (fun u => active u = Primary)) with (l := ms) (a := t); [|exact H|exact Ea].
    intros a x a' Hx Ha. exact (decrst_prim_step a x a' Hx Ha).
  - eauto.
  - (* Ris *) exfalso. cbn [execute] in H. injection H as <-.
    replace (active (hard_reset_gen t)) with Primary in Ea' by (destruct t; reflexivity). discriminate.
  - (* Xtwinops *) exfalso. rewrite (xtwinops_noop t op t' (ti_xtw t HT) H) in Ea'. congruence.
Qed.

(** * leaving the alternate screen at unchanged size *)

Definition SB (t u : term) : Prop :=
  cols u = cols t /\ rows u = rows t /\
  match active u with
  | Alternate => other u = other t
  | Primary => lines (buf u) = lines (other t) /\ bcols (buf u) = cols t /\ brows (buf u) = rows t
  end.

Lemma SB_keepB t u u' : keepB u' = keepB u -> SB t u -> SB t u'.
Proof.
  intros HK (P1 & P2 & P3). apply keepB_inv in HK as (K1 & K2 & K3 & K4 & K5).
  unfold SB. rewrite K1, K2, K3, K4, K5. auto.
Qed.

Lemma SB_reflow t u u' :
  rows t <= length (lines (other t)) ->
  active u = Primary -> SB t u -> reflow u = Ok u' -> SB t u'.
Proof.
  intros Hlen Ea (P1 & P2 & P3) H. rewrite Ea in P3. destruct P3 as (Q1 & Q2 & Q3).
  assert (Hl : brows (buf u) <= length (lines (buf u))).
  { rewrite Q1, Q3. exact Hlen. }
  destruct (reflow_same u u' (eq_trans Q2 (eq_sym P1)) (eq_trans Q3 (eq_sym P2)) Hl H)
    as (R1 & R2 & R3 & R4).
  apply keepR_inv in R4 as (K1 & K2 & K3 & K4 & _).
  unfold SB. rewrite K1, K2, K4, Ea, R1, R2, R3. auto.
Qed.

Lemma SB_to_prim t u d :
  bcols (other t) = cols t -> brows (other t) = rows t ->
  active u = Alternate -> SB t u -> SB t (to_prim u d).
Proof.
  intros Gc Gr Ea (P1 & P2 & P3). rewrite Ea in P3.
  destruct (to_prim_fields u d) as (T1 & _ & _ & _ & T5 & T6 & T7 & _).
  unfold SB. rewrite T1, T5, T6, T7, P1, P2, P3. auto.
Qed.

Lemma SB_step t u m u' :
  rows t <= length (lines (other t)) -> bcols (other t) = cols t -> brows (other t) = rows t ->
  decrst_one u m = Ok u' -> SB t u -> SB t u'.
Proof.
  intros Hlen Gc Gr H HS. destruct (is_switch m) eqn:Em.
  - destruct (decrst_one_switch u m u' Em H) as (u2 & u3 & H1 & K & H2).
    assert (H3 : active u2 = Primary /\ SB t u2).
    { apply switch_prim_inv in H1 as [[Ea ->]|[Ea [d ->]]].
      - split; assumption.
      - split; [apply to_prim_fields|exact (SB_to_prim t u d Gc Gr Ea HS)]. }
    destruct H3 as [Ea2 HS2].
    pose proof (SB_keepB t u2 u3 K HS2) as HS3.
    apply keepB_inv in K as (_ & _ & _ & _ & K5).
    exact (SB_reflow t u3 u' Hlen (eq_trans K5 Ea2) HS3 H2).
  - exact (SB_keepB t u u' (decrst_one_pure u m u' Em H) HS).
Qed.

Lemma alt_prim t ms t' :
  TInv t -> execute t (Decrst ms) = Ok t' -> active t = Alternate -> active t' = Primary ->
  bcols (other t) = cols t -> brows (other t) = rows t ->
  lines (buf t') = lines (other t).
Proof.
  intros HT H Ea Ea' Gc Gr. cbn [execute] in H.
  assert (Hlen : rows t <= length (lines (other t))).
  { rewrite <- Gr. destruct (ti_other t HT) as [(_ & _ & Hl & _) _]. exact Hl. }
  assert (HS : SB t t').
  { apply (foldM_inv decrst_one (SB t)) with (l := ms) (a := t); [|exact H|].
    - intros a x a' Hx Ha. exact (SB_step t a x a' Hlen Gc Gr Hx Ha).
    - unfold SB. rewrite Ea. auto. }
  destruct HS as (_ & _ & HS). rewrite Ea' in HS. apply HS.
Qed.

(** * the singleton forms: what lands in the alternate saved context *)

Lemma decset_asb_asctx t t' :
  execute t (Decset [AltScreenBuffer]) = Ok t' -> active t = Primary -> asctx t' = sctx t.
Proof.
  intros H Ea. rewrite exec_decset_one, decset_asb_eq in H.
  apply bind_ok in H as (t1 & H1 & H).
  apply reflow_keepR, keepR_inv in H as (_ & _ & _ & _ & _ & ->).
  apply switch_alt_inv in H1 as [[Ea1 _]|[_ [d ->]]]; [congruence|apply to_alt_fields].
Qed.

Theorem C16_holds : forall p p' t f t',
  TInv t -> execute t f = Ok t' -> holds_C16 (mkVt p t) f (mkVt p' t') = true.
Proof.
  intros p p' t f t' HT H. unfold holds_C16, is_alt_b. cbn [vterm].
  destruct (active t) eqn:Ea, (active t') eqn:Ea'; cbn [btype_eqb andb negb].
  - reflexivity.
  - (* entering *)
    destruct (prim_alt t f t' HT H Ea Ea') as [ms ->].
    destruct (decset_PB ms t t' Ea H) as (_ & _ & _ & HP). rewrite Ea' in HP.
    destruct HP as (Q1 & Q2 & _ & _).
    rewrite Q1, Q2, buffer_vis_eqb_refl, lines_eqb_refl. cbn [andb].
    destruct ms as [|m [|m' ms']]; try reflexivity; destruct m; try reflexivity.
    + rewrite (decset_asb_asctx t t' H Ea). apply ctx_eqb_refl.
    + pose proof (C17_decset_scasb t t' HT H) as E. unfold saved_of in E.
      rewrite Ea, Ea' in E. cbn [btype_eqb] in E. rewrite E. apply ctx_eqb_refl.
  - (* leaving *)
    destruct f; try reflexivity.
    destruct ((bcols (other t) =? cols t) && (brows (other t) =? rows t)) eqn:Eg; [|reflexivity].
    apply andb_prop in Eg as [G1 G2]. apply Nat.eqb_eq in G1, G2.
    rewrite (alt_prim t ms t' HT H Ea Ea' G1 G2). apply lines_eqb_refl.
  - (* staying on the alternate screen *)
    rewrite (alt_alt t f t' HT H Ea Ea'). apply buffer_vis_eqb_refl.
Qed.

Print Assumptions C16_holds.
