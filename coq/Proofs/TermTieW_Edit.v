(** ICH DCH ECH ED EL DECALN (leaf of Proofs/TermTieW.v; see Proofs/TermTieW_Core.v for the method) *)
From Coq Require Import Lia ZArith ZifyBool ZifyNat ZifyN.
From Avt Require Import Oracles.Step Proofs.Inv Proofs.TermEasy Gen.TermFns Proofs.TermTie_Core Proofs.InvStep
  Proofs.TermTieW_Core.
Ltac Zify.zify_post_hook ::= Z.div_mod_to_equations.
Local Open Scope Z_scope.

Lemma w_ich_eq t n : ZW t -> w_ich Om (zabs t) (wabs t) (Z.of_N n) = wres (ich t n).
Proof. intros H. w_tie t H. Qed.

Lemma w_dch_eq t n : ZW t -> w_dch Om (zabs t) (wabs t) (Z.of_N n) = wres (dch t n).
Proof. intros H. w_tie t H. Qed.

Lemma w_ech_eq t n : ZW t -> w_ech Om (zabs t) (wabs t) (Z.of_N n) = wres (ech t n).
Proof. intros H. w_tie t H. Qed.

Lemma w_ed_eq t sc : ZW t -> w_ed Om (zabs t) (wabs t) sc = wres (ed t sc).
Proof. intros H. destruct sc; w_tie t H. Qed.

Lemma w_el_eq t sc : ZW t -> w_el Om (zabs t) (wabs t) sc = wres (el t sc).
Proof. intros H. destruct sc; w_tie t H. Qed.


(** ** DECALN *)
Lemma on_buf_decaln_cols r n : forall t k,
  foldM (fun t c => on_buf t (fun b => buf_print b c r (mkCell 69 default_pen))) (seq k n) t
  = on_buf t (fun b => decaln_cols b r n k).
Proof.
  induction n as [|n IH]; intros t k; cbn [seq foldM decaln_cols].
  - destruct t; reflexivity.
  - unfold on_buf at 1 3. unfold bind.
    destruct (buf_print (buf t) k r {| ch := 69; cpen := default_pen |}) as [b|e]; [|reflexivity].
    rewrite IH. destruct t; reflexivity.
Qed.

Lemma decaln_rows_foldM n : forall t k,
  decaln_rows t n k
  = foldM (fun t r => t <- on_buf t (fun b => decaln_cols b r (cols t) 0) ;; mark t r) (seq k n) t.
Proof.
  induction n as [|n IH]; intros t k; cbn [decaln_rows seq foldM]; [reflexivity|].
  unfold bind. destruct (on_buf t _) as [t1|e]; [|reflexivity].
  destruct (mark t1 k) as [t2|e]; [apply IH | reflexivity].
Qed.

Lemma w_decaln_cell t c r :
  zb (op_ev Om (wabs t) (EvBufPrint (0 + Z.of_nat c) (0 + Z.of_nat r) (ZCellChar 69)))
     (fun w => Some (zabs t, w, true))
  = wres (on_buf t (fun b => buf_print b c r (mkCell 69 default_pen))).
Proof. destruct t. w_loop. Qed.

Lemma w_decaln_mark t r :
  zb (op_ev Om (wabs t) (EvDirtyAdd (0 + Z.of_nat r))) (fun w => Some (zabs t, w, true)) = wres (mark t r).
Proof. destruct t. w_loop. Qed.

Lemma w_decaln_eq t : ZW t -> w_decaln Om (zabs t) (wabs t) = wres (decaln t).
Proof.
  intros _. unfold w_decaln, decaln. cbn [fst snd].
  change (z_rows (zabs t)) with (Z.of_nat (rows t)). rewrite zrange_0, decaln_rows_foldM.
  rewrite (zfor_tie (fun i => 0 + Z.of_nat i) (seq 0 (rows t)) _
             (fun t r => t <- on_buf t (fun b => decaln_cols b r (cols t) 0) ;; mark t r) (fun _ => True)).
  - destruct (foldM _ (seq 0 (rows t)) t); reflexivity.
  - intros t0 r _. change (z_cols (zabs t0)) with (Z.of_nat (cols t0)). rewrite zrange_0.
    rewrite (zfor_tie (fun i => 0 + Z.of_nat i) (seq 0 (cols t0)) _
               (fun t c => on_buf t (fun b => buf_print b c r (mkCell 69 default_pen))) (fun _ => True)).
    + rewrite on_buf_decaln_cols. unfold bind.
      destruct (on_buf t0 _) as [t1|e]; cbn [wres zb]; [|reflexivity]. apply w_decaln_mark.
    + intros t1 c _. apply w_decaln_cell.
    + trivial.
    + trivial.
  - trivial.
  - trivial.
Qed.

