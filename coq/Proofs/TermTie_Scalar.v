(** the scalar control functions (leaf of Proofs/TermTie.v) *)
From Coq Require Import Lia ZArith ZifyBool ZifyNat ZifyN.
From Avt Require Import Oracles.Step Proofs.Inv Proofs.TermEasy Gen.TermFns Proofs.TermTie_Core.
Ltac Zify.zify_post_hook ::= Z.div_mod_to_equations.
Local Open Scope Z_scope.

Local Arguments Z.add : simpl never.
Local Arguments Z.sub : simpl never.
Local Arguments Z.opp : simpl never.
Local Arguments Z.mul : simpl never.
Local Arguments Z.leb : simpl never.
Local Arguments Z.ltb : simpl never.
Local Arguments Z.eqb : simpl never.
Local Arguments Z.min : simpl never.
Local Arguments Z.max : simpl never.
Local Arguments Z.of_nat : simpl never.
Local Arguments Z.of_N : simpl never.
Local Arguments Z.to_nat : simpl never.
Local Arguments N.eqb : simpl never.
Local Arguments N.to_nat : simpl never.
Local Arguments Nat.sub : simpl never.
Local Arguments Nat.add : simpl never.
Local Arguments Nat.min : simpl never.
Local Arguments Nat.max : simpl never.
Local Arguments Nat.leb : simpl never.
Local Arguments Nat.ltb : simpl never.
Local Arguments Nat.eqb : simpl never.

Lemma g_do_move_cursor_to_col_eq t c :
  g_do_move_cursor_to_col (zabs t) (Z.of_nat c) = (zabs (do_move_cursor_to_col t c), true).
Proof. destruct t; reflexivity. Qed.

Lemma g_move_cursor_to_col_eq t c : TScal t ->
  g_move_cursor_to_col (zabs t) (Z.of_nat c) = (zabs (move_cursor_to_col t c), true).
Proof. intros H. tie t H. Qed.

Lemma g_do_move_cursor_to_row_eq t r : TScal t ->
  g_do_move_cursor_to_row (zabs t) (Z.of_nat r) = (zabs (do_move_cursor_to_row t r), true).
Proof. intros H. tie t H. Qed.

Lemma g_actual_top_margin_eq t :
  g_actual_top_margin (zabs t) = (Z.of_nat (actual_top_margin t), true).
Proof. destruct t; nrm. destruct org; reflexivity. Qed.

Lemma g_actual_bottom_margin_eq t : TScal t ->
  g_actual_bottom_margin (zabs t) = (Z.of_nat (actual_bottom_margin t), true).
Proof.
  intros H. tie t H.
Qed.

Lemma g_move_cursor_to_row_eq t r : TScal t ->
  g_move_cursor_to_row (zabs t) (Z.of_nat r) = (zabs (move_cursor_to_row t r), true).
Proof. intros H. tie t H. Qed.

Lemma g_move_cursor_to_rel_col_eq t r : TScal t ->
  g_move_cursor_to_rel_col (zabs t) r = (zabs (move_cursor_to_rel_col t r), true).
Proof. intros H. tie t H. Qed.

Lemma g_move_cursor_home_eq t : TScal t ->
  g_move_cursor_home (zabs t) = (zabs (move_cursor_home t), true).
Proof. intros H. tie t H. Qed.

Lemma g_cursor_down_eq t n : TScal t ->
  g_cursor_down (zabs t) (Z.of_nat n) = (zabs (cursor_down t n), true).
Proof. intros H. tie t H. Qed.

Lemma g_cursor_up_eq t n : TScal t ->
  g_cursor_up (zabs t) (Z.of_nat n) = (zabs (cursor_up t n), true).
Proof. intros H. tie t H. Qed.

Lemma g_bs_eq t : TScal t -> g_bs (zabs t) = (zabs (bs t), true).
Proof. intros H. tie t H. Qed.

Lemma g_cr_eq t : g_cr (zabs t) = (zabs (do_move_cursor_to_col t 0%nat), true).
Proof. destruct t; reflexivity. Qed.

Lemma g_so_eq t : g_so (zabs t) = (zabs (t <| acs := 1%nat |>), true).
Proof. destruct t; reflexivity. Qed.

Lemma g_si_eq t : g_si (zabs t) = (zabs (t <| acs := 0%nat |>), true).
Proof. destruct t; reflexivity. Qed.

Lemma g_gzd4_eq t c : g_gzd4 (zabs t) c = (zabs (t <| cs0 := c |>), true).
Proof. destruct t; reflexivity. Qed.

Lemma g_g1d4_eq t c : g_g1d4 (zabs t) c = (zabs (t <| cs1 := c |>), true).
Proof. destruct t; reflexivity. Qed.

Lemma g_cuu_eq t n : TScal t -> g_cuu (zabs t) (Z.of_N n) = (zabs (cursor_up t (as_usize n 1%nat)), true).
Proof. intros H. tie t H. Qed.

Lemma g_cud_eq t n : TScal t -> g_cud (zabs t) (Z.of_N n) = (zabs (cursor_down t (as_usize n 1%nat)), true).
Proof. intros H. tie t H. Qed.

Lemma g_vpr_eq t n : TScal t -> g_vpr (zabs t) (Z.of_N n) = (zabs (cursor_down t (as_usize n 1%nat)), true).
Proof. intros H. tie t H. Qed.

Lemma g_cuf_eq t n : TScal t ->
  g_cuf (zabs t) (Z.of_N n) = (zabs (move_cursor_to_rel_col t (Z.of_nat (as_usize n 1%nat))), true).
Proof. intros H. tie t H. Qed.

Lemma g_cub_eq t n : TScal t -> g_cub (zabs t) (Z.of_N n) = (zabs (cub t n), true).
Proof. intros H. tie t H. Qed.

Lemma g_cnl_eq t n : TScal t ->
  g_cnl (zabs t) (Z.of_N n) = (zabs (do_move_cursor_to_col (cursor_down t (as_usize n 1%nat)) 0%nat), true).
Proof. intros H. tie t H. Qed.

Lemma g_cpl_eq t n : TScal t ->
  g_cpl (zabs t) (Z.of_N n) = (zabs (do_move_cursor_to_col (cursor_up t (as_usize n 1%nat)) 0%nat), true).
Proof. intros H. tie t H. Qed.

Lemma g_cha_eq t n : TScal t ->
  g_cha (zabs t) (Z.of_N n) = (zabs (move_cursor_to_col t ((as_usize n 1 - 1)%nat)), true).
Proof. intros H. tie t H. Qed.

Lemma g_vpa_eq t n : TScal t ->
  g_vpa (zabs t) (Z.of_N n) = (zabs (move_cursor_to_row t ((as_usize n 1 - 1)%nat)), true).
Proof. intros H. tie t H. Qed.

Lemma g_cup_eq t r c : TScal t -> g_cup (zabs t) (Z.of_N r) (Z.of_N c) = (zabs (cup t r c), true).
Proof. intros H. tie t H. Qed.

Lemma g_decstbm_eq t a b : TScal t -> g_decstbm (zabs t) (Z.of_N a) (Z.of_N b) = (zabs (decstbm t a b), true).
Proof. intros H. tie t H. Qed.

(** * the tie theorems, one per Rust function *)

Theorem tie_as_usize : forall n d,
  let '(v, ok) := g_as_usize (Z.of_N n) (Z.of_nat d) in ok = true /\ Z.of_nat (as_usize n d) = v.
Proof. intros n d. rewrite g_as_usize_eq. split; reflexivity. Qed.
Print Assumptions tie_as_usize.

Theorem tie_actual_top_margin : forall t,
  let '(v, ok) := g_actual_top_margin (zabs t) in ok = true /\ Z.of_nat (actual_top_margin t) = v.
Proof. intros t. rewrite g_actual_top_margin_eq. split; reflexivity. Qed.
Print Assumptions tie_actual_top_margin.

Theorem tie_actual_bottom_margin : forall t, TScal t ->
  let '(v, ok) := g_actual_bottom_margin (zabs t) in ok = true /\ Z.of_nat (actual_bottom_margin t) = v.
Proof. intros t H. rewrite g_actual_bottom_margin_eq by exact H. split; reflexivity. Qed.
Print Assumptions tie_actual_bottom_margin.

Theorem tie_do_move_cursor_to_col : forall t c,
  let '(z, ok) := g_do_move_cursor_to_col (zabs t) (Z.of_nat c) in
  ok = true /\ zabs (do_move_cursor_to_col t c) = z.
Proof. intros t c. exact (tie_of_eq _ _ (g_do_move_cursor_to_col_eq t c)). Qed.
Print Assumptions tie_do_move_cursor_to_col.

Theorem tie_move_cursor_to_col : forall t c, TScal t ->
  let '(z, ok) := g_move_cursor_to_col (zabs t) (Z.of_nat c) in
  ok = true /\ zabs (move_cursor_to_col t c) = z.
Proof. intros t c H. exact (tie_of_eq _ _ (g_move_cursor_to_col_eq t c H)). Qed.
Print Assumptions tie_move_cursor_to_col.

Theorem tie_do_move_cursor_to_row : forall t r, TScal t ->
  let '(z, ok) := g_do_move_cursor_to_row (zabs t) (Z.of_nat r) in
  ok = true /\ zabs (do_move_cursor_to_row t r) = z.
Proof. intros t r H. exact (tie_of_eq _ _ (g_do_move_cursor_to_row_eq t r H)). Qed.
Print Assumptions tie_do_move_cursor_to_row.

Theorem tie_move_cursor_to_row : forall t r, TScal t ->
  let '(z, ok) := g_move_cursor_to_row (zabs t) (Z.of_nat r) in
  ok = true /\ zabs (move_cursor_to_row t r) = z.
Proof. intros t r H. exact (tie_of_eq _ _ (g_move_cursor_to_row_eq t r H)). Qed.
Print Assumptions tie_move_cursor_to_row.

Theorem tie_move_cursor_to_rel_col : forall t (r : Z), TScal t ->
  let '(z, ok) := g_move_cursor_to_rel_col (zabs t) r in
  ok = true /\ zabs (move_cursor_to_rel_col t r) = z.
Proof. intros t r H. exact (tie_of_eq _ _ (g_move_cursor_to_rel_col_eq t r H)). Qed.
Print Assumptions tie_move_cursor_to_rel_col.

Theorem tie_move_cursor_home : forall t, TScal t ->
  let '(z, ok) := g_move_cursor_home (zabs t) in ok = true /\ zabs (move_cursor_home t) = z.
Proof. intros t H. exact (tie_of_eq _ _ (g_move_cursor_home_eq t H)). Qed.
Print Assumptions tie_move_cursor_home.

Theorem tie_cursor_down : forall t n, TScal t ->
  let '(z, ok) := g_cursor_down (zabs t) (Z.of_nat n) in ok = true /\ zabs (cursor_down t n) = z.
Proof. intros t n H. exact (tie_of_eq _ _ (g_cursor_down_eq t n H)). Qed.
Print Assumptions tie_cursor_down.

Theorem tie_cursor_up : forall t n, TScal t ->
  let '(z, ok) := g_cursor_up (zabs t) (Z.of_nat n) in ok = true /\ zabs (cursor_up t n) = z.
Proof. intros t n H. exact (tie_of_eq _ _ (g_cursor_up_eq t n H)). Qed.
Print Assumptions tie_cursor_up.

Theorem tie_bs : forall t, TScal t ->
  let '(z, ok) := g_bs (zabs t) in ok = true /\ zabs (bs t) = z.
Proof. intros t H. exact (tie_of_eq _ _ (g_bs_eq t H)). Qed.
Print Assumptions tie_bs.

Theorem tie_cr : forall t,
  let '(z, ok) := g_cr (zabs t) in ok = true /\ zabs (do_move_cursor_to_col t 0%nat) = z.
Proof. intros t. exact (tie_of_eq _ _ (g_cr_eq t)). Qed.
Print Assumptions tie_cr.

Theorem tie_so : forall t,
  let '(z, ok) := g_so (zabs t) in ok = true /\ zabs (t <| acs := 1%nat |>) = z.
Proof. intros t. exact (tie_of_eq _ _ (g_so_eq t)). Qed.
Print Assumptions tie_so.

Theorem tie_si : forall t,
  let '(z, ok) := g_si (zabs t) in ok = true /\ zabs (t <| acs := 0%nat |>) = z.
Proof. intros t. exact (tie_of_eq _ _ (g_si_eq t)). Qed.
Print Assumptions tie_si.

Theorem tie_gzd4 : forall t c,
  let '(z, ok) := g_gzd4 (zabs t) c in ok = true /\ zabs (t <| cs0 := c |>) = z.
Proof. intros t c. exact (tie_of_eq _ _ (g_gzd4_eq t c)). Qed.
Print Assumptions tie_gzd4.

Theorem tie_g1d4 : forall t c,
  let '(z, ok) := g_g1d4 (zabs t) c in ok = true /\ zabs (t <| cs1 := c |>) = z.
Proof. intros t c. exact (tie_of_eq _ _ (g_g1d4_eq t c)). Qed.
Print Assumptions tie_g1d4.

(** the functions taking the raw u16 parameter *)
Theorem tie_cuu : forall t (n : N), TScal t ->
  let '(z, ok) := g_cuu (zabs t) (Z.of_N n) in ok = true /\ zabs (cursor_up t (as_usize n 1%nat)) = z.
Proof. intros t n H. exact (tie_of_eq _ _ (g_cuu_eq t n H)). Qed.
Print Assumptions tie_cuu.

Theorem tie_cud : forall t (n : N), TScal t ->
  let '(z, ok) := g_cud (zabs t) (Z.of_N n) in ok = true /\ zabs (cursor_down t (as_usize n 1%nat)) = z.
Proof. intros t n H. exact (tie_of_eq _ _ (g_cud_eq t n H)). Qed.
Print Assumptions tie_cud.

Theorem tie_vpr : forall t (n : N), TScal t ->
  let '(z, ok) := g_vpr (zabs t) (Z.of_N n) in ok = true /\ zabs (cursor_down t (as_usize n 1%nat)) = z.
Proof. intros t n H. exact (tie_of_eq _ _ (g_vpr_eq t n H)). Qed.
Print Assumptions tie_vpr.

Theorem tie_cuf : forall t (n : N), TScal t ->
  let '(z, ok) := g_cuf (zabs t) (Z.of_N n) in
  ok = true /\ zabs (move_cursor_to_rel_col t (Z.of_nat (as_usize n 1%nat))) = z.
Proof. intros t n H. exact (tie_of_eq _ _ (g_cuf_eq t n H)). Qed.
Print Assumptions tie_cuf.

Theorem tie_cub : forall t (n : N), TScal t ->
  let '(z, ok) := g_cub (zabs t) (Z.of_N n) in ok = true /\ zabs (cub t n) = z.
Proof. intros t n H. exact (tie_of_eq _ _ (g_cub_eq t n H)). Qed.
Print Assumptions tie_cub.

Theorem tie_cnl : forall t (n : N), TScal t ->
  let '(z, ok) := g_cnl (zabs t) (Z.of_N n) in
  ok = true /\ zabs (do_move_cursor_to_col (cursor_down t (as_usize n 1%nat)) 0%nat) = z.
Proof. intros t n H. exact (tie_of_eq _ _ (g_cnl_eq t n H)). Qed.
Print Assumptions tie_cnl.

Theorem tie_cpl : forall t (n : N), TScal t ->
  let '(z, ok) := g_cpl (zabs t) (Z.of_N n) in
  ok = true /\ zabs (do_move_cursor_to_col (cursor_up t (as_usize n 1%nat)) 0%nat) = z.
Proof. intros t n H. exact (tie_of_eq _ _ (g_cpl_eq t n H)). Qed.
Print Assumptions tie_cpl.

Theorem tie_cha : forall t (n : N), TScal t ->
  let '(z, ok) := g_cha (zabs t) (Z.of_N n) in
  ok = true /\ zabs (move_cursor_to_col t (as_usize n 1 - 1)%nat) = z.
Proof. intros t n H. exact (tie_of_eq _ _ (g_cha_eq t n H)). Qed.
Print Assumptions tie_cha.

Theorem tie_vpa : forall t (n : N), TScal t ->
  let '(z, ok) := g_vpa (zabs t) (Z.of_N n) in
  ok = true /\ zabs (move_cursor_to_row t (as_usize n 1 - 1)%nat) = z.
Proof. intros t n H. exact (tie_of_eq _ _ (g_vpa_eq t n H)). Qed.
Print Assumptions tie_vpa.

Theorem tie_cup : forall t (r c : N), TScal t ->
  let '(z, ok) := g_cup (zabs t) (Z.of_N r) (Z.of_N c) in ok = true /\ zabs (cup t r c) = z.
Proof. intros t r c H. exact (tie_of_eq _ _ (g_cup_eq t r c H)). Qed.
Print Assumptions tie_cup.

Theorem tie_decstbm : forall t (a b : N), TScal t ->
  let '(z, ok) := g_decstbm (zabs t) (Z.of_N a) (Z.of_N b) in ok = true /\ zabs (decstbm t a b) = z.
Proof. intros t a b H. exact (tie_of_eq _ _ (g_decstbm_eq t a b H)). Qed.
Print Assumptions tie_decstbm.

(** * [Terminal::execute]: the arms of the scalar functions forward as the model's [execute] does *)
Definition scalar_fn (f : func) : bool :=
  match f with
  | Bs | Cha _ | Cnl _ | Cpl _ | Cr | Cub _ | Cud _ | Cuf _ | Cup _ _ | Cuu _ | Decstbm _ _
  | G1d4 _ | Gzd4 _ | Si | So | Vpa _ | Vpr _ => true
  | _ => false
  end.

Theorem tie_execute : forall t f, TScal t -> scalar_fn f = true ->
  exists t', execute t f = Ok t' /\ g_execute (zabs t) f = Some (zabs t', true).
Proof.
  intros t f H Hf.
  destruct f; try discriminate Hf; cbn [execute g_execute]; eexists; (split; [reflexivity|]); f_equal;
    first [ apply g_bs_eq, H | apply g_cha_eq, H | apply g_cnl_eq, H | apply g_cpl_eq, H | apply g_cr_eq
          | apply g_cub_eq, H | apply g_cud_eq, H | apply g_cuf_eq, H | apply g_cup_eq, H | apply g_cuu_eq, H
          | apply g_decstbm_eq, H | apply g_g1d4_eq | apply g_gzd4_eq | apply g_si_eq | apply g_so_eq
          | apply g_vpa_eq, H | apply g_vpr_eq, H ].
Qed.
Print Assumptions tie_execute.

