(** C18 (tab stops) holds for every model step and every resize from every state satisfying
    [TInv]. *)

From Coq Require Import Lia ZArith ZifyBool ZifyNat ZifyN.
From Avt Require Import Oracles.Step Proofs.Inv Proofs.TermEasy Proofs.Tabs Proofs.Frames.
Ltac Zify.zify_post_hook ::= Z.div_mod_to_equations.

(** * the boolean statement [stops_agree] from the propositional facts *)

Lemma strictly_sorted_iff l : strictly_sorted l = true <-> sorted_lt l.
Proof.
  induction l as [|a l IH]; [cbn; tauto|]. destruct l as [|b r]; [cbn; tauto|].
  change (strictly_sorted (a :: b :: r)) with ((a <? b) && strictly_sorted (b :: r)).
  change (sorted_lt (a :: b :: r)) with (a < b /\ sorted_lt (b :: r)).
  rewrite andb_true_iff, Nat.ltb_lt, IH. tauto.
Qed.

Lemma stops_agree_intro bound l f :
  TabsInv bound l -> (forall k, is_stop l k = f k) -> stops_agree bound l f = true.
Proof.
  intros [Hs Hb] Hf. unfold stops_agree. rewrite !andb_true_iff. repeat split.
  - apply forallb_forall. intros k _. rewrite Hf. apply Bool.eqb_reflx.
  - apply forallb_forall. intros k Hk. rewrite Forall_forall in Hb. apply Nat.ltb_lt. apply (Hb k Hk).
  - apply strictly_sorted_iff. exact Hs.
Qed.

Lemma stops_agree_elim bound l f :
  stops_agree bound l f = true -> (forall k, bound <= k -> f k = false) ->
  sorted_lt l /\ (forall k, is_stop l k = f k).
Proof.
  unfold stops_agree. rewrite !andb_true_iff. intros [[H1 H2] H3] Hf. split.
  - apply strictly_sorted_iff. exact H3.
  - intros k. rewrite forallb_forall in H1, H2.
    destruct (Nat.lt_ge_cases k bound) as [Hk|Hk].
    + apply Bool.eqb_prop. apply H1. apply in_seq. lia.
    + rewrite (Hf k Hk). destruct (is_stop l k) eqn:E; [|reflexivity].
      apply is_stop_In in E. apply H2 in E. apply Nat.ltb_lt in E. lia.
Qed.

Lemma stop_lt c l k : TabsInv c l -> is_stop l k = true -> 0 < k < c.
Proof. intros [_ Hb] H. apply is_stop_In in H. rewrite Forall_forall in Hb. exact (Hb k H). Qed.

Lemma list_eqb_nat_refl l : list_eqb Nat.eqb l l = true.
Proof. apply list_eqb_refl. apply Nat.eqb_refl. Qed.

(** * steps *)

Lemma set_tab_agree t :
  TInv t ->
  stops_agree (cols t) (tabs (set_tab t))
    (fun k => is_stop (tabs t) k || ((k =? cur_col t) && (0 <? cur_col t) && (cur_col t <? cols t))) = true.
Proof.
  intros HT. pose proof (ti_tabs t HT) as Hi. unfold set_tab.
  destruct ((0 <? cur_col t) && (cur_col t <? cols t)) eqn:Ec.
  - apply andb_prop in Ec as [E1 E2]. apply Nat.ltb_lt in E1, E2.
    replace (tabs (t <| tabs := tabs_set (cur_col t) (tabs t) |>)) with (tabs_set (cur_col t) (tabs t))
      by (destruct t; reflexivity).
    apply stops_agree_intro; [apply tabs_set_inv; [exact Hi|lia]|].
    intros k. rewrite (tabs_set_spec _ _ _ (proj1 Hi)).
    replace (0 <? cur_col t) with true by (symmetry; apply Nat.ltb_lt; lia).
    replace (cur_col t <? cols t) with true by (symmetry; apply Nat.ltb_lt; lia).
    now rewrite !andb_true_r.
  - apply stops_agree_intro; [exact Hi|]. intros k.
    rewrite <- andb_assoc, Ec, andb_false_r, orb_false_r. reflexivity.
Qed.

Lemma clear_tab_agree t :
  TInv t ->
  stops_agree (cols t) (tabs (clear_tab t)) (fun k => is_stop (tabs t) k && negb (k =? cur_col t)) = true.
Proof.
  intros HT. pose proof (ti_tabs t HT) as Hi. unfold clear_tab.
  replace (tabs (t <| tabs := tabs_unset (cur_col t) (tabs t) |>)) with (tabs_unset (cur_col t) (tabs t))
    by (destruct t; reflexivity).
  apply stops_agree_intro; [apply tabs_unset_inv; exact Hi|].
  intros k. apply (tabs_unset_spec _ _ _ (proj1 Hi)).
Qed.

Theorem C18_holds : forall p p' t f t',
  TInv t -> execute t f = Ok t' -> holds_C18 (mkVt p t) f (mkVt p' t') = true.
Proof.
  intros p p' t f t' HT H. pose proof (tabs_frame t f t' H) as F.
  unfold holds_C18. cbn [vterm].
  destruct f; try (rewrite F; apply list_eqb_nat_refl); try reflexivity;
    cbn [execute] in H; try injection H as <-.
  - (* Ctc *) destruct op; cbn [ctc].
    + apply set_tab_agree; exact HT.
    + apply clear_tab_agree; exact HT.
    + destruct t; reflexivity.
  - (* Hts *) apply set_tab_agree; exact HT.
  - (* Ris *) replace (tabs (hard_reset_gen t)) with (tabs_new (cols t)) by (destruct t; reflexivity).
    apply stops_agree_intro; [apply tabs_new_inv|apply tabs_new_spec].
  - (* Tbc *) destruct s; cbn [tbc].
    + apply clear_tab_agree; exact HT.
    + destruct t; reflexivity.
Qed.

Print Assumptions C18_holds.

(** * resize *)

Lemma tabs_resize_stop c c' l k :
  1 <= c -> 1 <= c' -> TabsInv c l ->
  is_stop (tabs_resize c c' l) k
  = (is_stop l k && (k <? c')) || ((c <=? k) && (k <? c') && (k mod 8 =? 0) && (0 <? k)).
Proof.
  intros Hc Hc' Hi. pose proof (stop_lt c l k Hi) as Hk. unfold tabs_resize.
  destruct (Nat.compare_spec c' c) as [e|e|e].
  - subst c'. destruct (is_stop l k) eqn:E; [specialize (Hk eq_refl)|clear Hk]; cbn [andb orb]; lia.
  - rewrite (tabs_contract_spec _ _ _ (proj1 Hi)).
    destruct (is_stop l k) eqn:E; [specialize (Hk eq_refl)|clear Hk]; cbn [andb orb]; lia.
  - rewrite (tabs_expand_spec c c' l k Hc (Nat.lt_le_incl _ _ e) Hi).
    destruct (is_stop l k) eqn:E; [specialize (Hk eq_refl)|clear Hk]; cbn [andb orb]; lia.
Qed.

Theorem C18_resize_holds : forall p p' t c r t',
  TInv t -> 1 <= c -> 1 <= r -> term_resize t c r = Ok t' ->
  holds_C18_resize (mkVt p t) (mkVt p' t') = true
  /\ (tabs_are_default t = true -> tabs_are_default t' = true).
Proof.
  intros p p' t c r t' HT Hc Hr H.
  destruct (term_resize_fields _ _ _ _ H) as (Ec & _ & Et & _).
  pose proof (ti_tabs t HT) as Hi. pose proof (ti_cols t HT) as Hcols.
  split.
  - unfold holds_C18_resize. cbn [vterm]. rewrite Ec, Et.
    apply stops_agree_intro; [apply tabs_resize_inv; assumption|].
    intros k. apply tabs_resize_stop; assumption.
  - unfold tabs_are_default. rewrite Ec, Et. intros Hd.
    apply stops_agree_elim in Hd as [Hs Hd].
    2:{ intros k Hk. unfold default_stop. lia. }
    assert (E : tabs t = tabs_new (cols t)).
    { apply sorted_lt_stop_ext; [exact Hs|apply tabs_new_sorted|].
      intros k. rewrite Hd, tabs_new_spec. reflexivity. }
    rewrite E, (C18_fresh_resize _ _ Hcols Hc).
    apply stops_agree_intro; [apply tabs_new_inv|apply tabs_new_spec].
Qed.

Print Assumptions C18_resize_holds.
