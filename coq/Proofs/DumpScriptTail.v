(** Property C11, terminal level: the last segments of the dump script (origin mode, margins,
    cursor, the re-printed cell of a wrap-pending cursor, pen, cursor visibility, charsets,
    modes) replayed on a terminal whose active screen already shows the original view. *)

From Coq Require Import Lia ZArith ZifyBool ZifyNat ZifyN String.
From Avt Require Import Model.Vt Spec.Screen Oracles.Rel Proofs.Inv Proofs.ParserInv Proofs.ListLemmas
  Proofs.Tabs Proofs.Frames Proofs.InvTerm Proofs.PenInv Proofs.DumpParserEmits
  Proofs.DumpRowsList Proofs.DumpRowsStep Proofs.DumpRows Proofs.InvStep Proofs.PenInvProofs Proofs.DumpMargins
  Proofs.DumpScriptBase Proofs.DumpScriptExec Proofs.DumpScriptSim Proofs.DumpScriptSeg.
Ltac Zify.zify_post_hook ::= Z.div_mod_to_equations.
Local Open Scope nat_scope.

Lemma get_row_view b r l : get_row b r = Ok l -> nth_error (view b) r = Some l.
Proof.
  unfold get_row, view. destruct (view_ok b && (r <? brows b)); [|discriminate].
  rewrite nth_error_skipn_add. destruct (nth_error (lines b) (sb_len b + r)); [|discriminate].
  intros H. injection H as <-. reflexivity.
Qed.

Lemma view_In b l : In l (view b) -> In l (lines b).
Proof. unfold view. intros H. rewrite <- (firstn_skipn (sb_len b) (lines b)). apply in_or_app. now right. Qed.

(** replace the record of a [Sim] hypothesis / the result of a [foldM] equation by a convertible
    explicit one *)
Ltac norm_sim H T :=
  match type of H with Sim ?v ?E => replace E with T in H by reflexivity end.
Ltac norm_res H T :=
  match type of H with _ = Ok ?E => replace E with T in H by reflexivity end.

Lemma feed_app3 v a b c R v1 v2 :
  feed_chars v (a ++ b ++ c) = Ok v1 -> feed_chars v1 R = Ok v2 ->
  feed_chars v (a ++ b ++ c ++ R) = Ok v2.
Proof.
  intros H1 H2. replace (a ++ b ++ c ++ R) with ((a ++ b ++ c) ++ R) by (rewrite <- !app_assoc; reflexivity).
  exact (sim_app _ _ _ _ _ H1 H2).
Qed.

Theorem sim_tail t v6 Bact Boff x y pn z sc asc d s9b :
  TInv t -> MarginsInv t -> PensInv t -> CharsInv t -> dumpable t = true -> kf1_C11 t = false ->
  view Bact = view (buf t) ->
  Sim v6 (mkTerm (cols t) (rows t) Bact Boff (active t) None x y true pn CsAscii CsAscii 0 (tabs t)
                 false false true false false z 0 (rows t - 1) sc asc d false) ->
  (if cols t <=? cur_col t then
     l <- get_row (buf t) (cur_row t) ;;
     match nth_error (cells l) (cols t - 1) with
     | Some c => Ok (pen_dump (cpen c) ++ [ch c])
     | None => Panic 83
     end
   else Ok []) = Ok s9b ->
  exists vf,
    feed_chars v6
      ((if org t then CSI :: str "?6h" else [])
       ++ (if (0 <? top t) || (bot t <? rows t - 1)
           then CSI :: show_nat (top t + 1) ++ [59%N] ++ show_nat (bot t + 1) ++ [114%N] else [])
       ++ (if org t then
             if (cur_row t <? top t) || (bot t <? cur_row t) then
               CSI :: [117%N]
               ++ (match Nat.compare (cur_col t) (sc_col (sctx t)) with
                   | Lt => CSI :: show_nat (sc_col (sctx t) - cur_col t) ++ [68%N]
                   | Gt => CSI :: show_nat (cur_col t - sc_col (sctx t)) ++ [67%N]
                   | Eq => []
                   end)
               ++ (match Nat.compare (cur_row t) (sc_row (sctx t)) with
                   | Lt => CSI :: show_nat (sc_row (sctx t) - cur_row t) ++ [65%N]
                   | Gt => CSI :: show_nat (cur_row t - sc_row (sctx t)) ++ [66%N]
                   | Eq => []
                   end)
             else CSI :: show_nat (cur_row t - top t + 1) ++ [59%N] ++ show_nat (cur_col t + 1) ++ [72%N]
           else CSI :: show_nat (cur_row t + 1) ++ [59%N] ++ show_nat (cur_col t + 1) ++ [72%N])
       ++ s9b
       ++ (pen_dump (tpen t) ++ (if negb (cur_vis t) then CSI :: str "?25l" else []))
       ++ ((match cs0 t with CsDrawing => ESC :: str "(0" | CsAscii => [] end)
           ++ (match cs1 t with CsDrawing => ESC :: str ")0" | CsAscii => [] end)
           ++ (if (acs t =? 1)%nat then [14%N] else []))
       ++ (if ins t then CSI :: str "4h" else [])
       ++ (if negb (awm t) then CSI :: str "?7l" else [])
       ++ (if nlm t then CSI :: str "20h" else [])
       ++ (if ckm t then CSI :: str "?1h" else [])) = Ok vf
    /\ Sim vf (mkTerm (cols t) (rows t) Bact Boff (active t) None (cur_col t) (cur_row t) (cur_vis t)
                      (tpen t) (cs0 t) (cs1 t) (acs t) (tabs t) (ins t) (org t) (awm t) (nlm t) (ckm t)
                      (pend t) (top t) (bot t) sc asc d false).
Proof.
  intros HT HM HPen HCh HD Hk HV S6 H9b.
  (* s7 - s9 *)
  match type of S6 with Sim _ ?E => pose proof (pure_cursor E t HT HM Hk eq_refl eq_refl eq_refl eq_refl eq_refl) as P7 end.
  assert (Em7 : emits _ (fs_org t ++ fs_margins t ++ fs_cursor t))
    by exact (emits_app _ _ _ _ (emits_org t)
                (emits_app _ _ _ _ (emits_margins t HT HD) (emits_cursor t HT HD Hk))).
  norm_res P7 (mkTerm (cols t) (rows t) Bact Boff (active t) None (Nat.min (cur_col t) (cols t - 1))
                 (cur_row t) true pn CsAscii CsAscii 0 (tabs t) false (org t) true false false false
                 (top t) (bot t) sc asc d false).
  destruct (sim_emits _ _ v6 _ _ Em7 S6 P7) as (v7 & F7 & S7).
  (* s9b *)
  assert (H9 : exists v9 p9, feed_chars v7 s9b = Ok v9
                 /\ Sim v9 (mkTerm (cols t) (rows t) Bact Boff (active t) None (cur_col t)
                              (cur_row t) true p9 CsAscii CsAscii 0 (tabs t) false (org t) true false false
                              (pend t) (top t) (bot t) sc asc d false)).
  { pose proof (ti_col _ HT) as Hcol. pose proof (ti_pend _ HT) as Hpend. pose proof (ti_cols _ HT) as Hcols.
    destruct (Nat.leb_spec (cols t) (cur_col t)) as [Hge|Hlt].
    - (* wrap pending *)
      assert (Ecol : cur_col t = cols t) by lia.
      assert (Epend : pend t = true) by (apply Hpend; exact Ecol).
      apply bind_ok in H9b as (l & Hg & H9b).
      destruct (nth_error (cells l) (cols t - 1)) as [cl|] eqn:Hcl; [|discriminate].
      apply Ok_inj in H9b. subst s9b.
      apply get_row_view in Hg.
      assert (Hin : In l (lines (buf t))) by (apply view_In; eapply nth_error_In; exact Hg).
      assert (Hcin : In cl (cells l)) by (eapply nth_error_In; exact Hcl).
      assert (Hpw : pen_wf (cpen cl)).
      { destruct HPen as (_ & Hl & _). unfold lines_wf, cells_wf in Hl. rewrite Forall_forall in Hl.
        specialize (Hl l Hin). rewrite Forall_forall in Hl. exact (Hl cl Hcin). }
      assert (Hch : ch_ok (ch cl)).
      { destruct HCh as [Hl _]. rewrite Forall_forall in Hl.
        specialize (Hl l Hin). rewrite Forall_forall in Hl. exact (Hl cl Hcin). }
      assert (P8 : foldM execute [Sgr (dp_ops (cpen cl))]
                     (mkTerm (cols t) (rows t) Bact Boff (active t) None (Nat.min (cur_col t) (cols t - 1))
                        (cur_row t) true pn CsAscii CsAscii 0 (tabs t) false (org t) true false false false
                        (top t) (bot t) sc asc d false)
                   = Ok (mkTerm (cols t) (rows t) Bact Boff (active t) None (Nat.min (cur_col t) (cols t - 1))
                        (cur_row t) true (cpen cl) CsAscii CsAscii 0 (tabs t) false (org t) true false false false
                        (top t) (bot t) sc asc d false)).
      { rewrite foldM_one, pure_pen by exact Hpw. reflexivity. }
      destruct (sim_emits _ _ v7 _ _ (emits_pen _ Hpw) S7 P8) as (v8 & F8 & S8).
      destruct (sim_print_last v8 _ (ch cl) l S8 Hch) as (v9 & F9 & S9).
      + reflexivity.
      + reflexivity.
      + reflexivity.
      + reflexivity.
      + rsimp. lia.
      + rsimp. rewrite HV. exact Hg.
      + rsimp. rewrite Hcl. destruct cl; reflexivity.
      + exists v9, (cpen cl). split; [exact (sim_app _ _ _ v8 _ F8 F9)|].
        rewrite Ecol, Epend.
        norm_sim S9 (mkTerm (cols t) (rows t) Bact Boff (active t) None (cols t)
                              (cur_row t) true (cpen cl) CsAscii CsAscii 0 (tabs t) false (org t) true false false
                              true (top t) (bot t) sc asc d false).
        exact S9.
    - (* cursor inside *)
      apply Ok_inj in H9b. subst s9b.
      assert (Epend : pend t = false).
      { destruct (pend t) eqn:Ep; [|reflexivity]. assert (cur_col t = cols t) by (apply Hpend; reflexivity). lia. }
      assert (Hmin : Nat.min (cur_col t) (cols t - 1) = cur_col t) by lia.
      exists v7, pn. split; [reflexivity|].
      rewrite Epend. rewrite Hmin in S7. exact S7. }
  destruct H9 as (v9 & p9 & F9 & S9).
  (* s9c - s14 *)
  match type of S9 with Sim _ ?E =>
    pose proof (pure_modes t E (proj1 HPen) (ti_acs _ HT) eq_refl eq_refl eq_refl eq_refl eq_refl eq_refl
                  eq_refl eq_refl) as P10 end.
  norm_res P10 (mkTerm (cols t) (rows t) Bact Boff (active t) None (cur_col t) (cur_row t) (cur_vis t)
                      (tpen t) (cs0 t) (cs1 t) (acs t) (tabs t) (ins t) (org t) (awm t) (nlm t) (ckm t)
                      (pend t) (top t) (bot t) sc asc d false).
  destruct (sim_emits _ _ v9 _ _ (emits_modes t (proj1 HPen)) S9 P10) as (vf & Ff & Sf).
  exists vf. split.
  - apply (feed_app3 _ _ _ _ _ v7 _ F7). apply (sim_app _ _ _ v9 _ F9). exact Ff.
  - exact Sf.
Qed.
Print Assumptions sim_tail.
