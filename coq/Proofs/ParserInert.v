(** Property C20: control strings, unimplemented CSI/ESC sequences and unassigned C0/C1
    controls emit no function and leave the parser in [Ground] -- except for the known
    finding KF-C20-1 ([kf_c20]), which the hypothesis excludes. *)

From Avt Require Import Model.Parser Spec.Williams Spec.Inert Proofs.Inv Proofs.ParserTable
  Proofs.ParserInv.
Require Import Lia ZArith ZifyBool ZifyNat ZifyN.
Local Open Scope N_scope.

(** * list helpers *)

Lemma take_skip_while {A} (f : A -> bool) s : take_while f s ++ skip_while f s = s.
Proof.
  induction s as [|x s IH]; [reflexivity|]. cbn [take_while skip_while].
  destruct (f x); [|reflexivity]. cbn [app]. now rewrite IH.
Qed.

Lemma take_while_Forall {A} (f : A -> bool) s : Forall (fun x => f x = true) (take_while f s).
Proof.
  induction s as [|x s IH]; [constructor|]. cbn [take_while].
  destruct (f x) eqn:E; constructor; auto.
Qed.

Lemma last_opt_cons_some {A} (x : A) l : exists y, last_opt (x :: l) = Some y.
Proof.
  revert x; induction l as [|z l IH]; intros x; [now exists x|].
  destruct (IH z) as [y Hy]. exists y. exact Hy.
Qed.

Lemma last_opt_In {A} (l : list A) y : last_opt l = Some y -> In y l.
Proof.
  induction l as [|x l IH]; [discriminate|]. destruct l as [|z l].
  - cbn. intros [= ->]. now left.
  - intros H. right. apply IH. exact H.
Qed.

(** * single steps *)

Lemma step_pst p c t : williams (pst p) c = t -> pst (feed_step p c) = t_next t.
Proof. intros <-. reflexivity. Qed.

Lemma step_inter p c t :
  williams (pst p) c = t ->
  inter (feed_step p c)
  = if t_clear t then None else match t_kind t with KCollect => Some c | _ => inter p end.
Proof. intros <-. apply feed_step_inter. Qed.

Lemma step_emit p c t :
  williams (pst p) c = t ->
  feed_emit p c = match t_kind t with
                  | KPrint => Some (Print c)
                  | KExecute => execute_gen c
                  | KCsiDispatch => csi_dispatch_gen (inter p) c (params p) (cur_param p)
                  | KEscDispatch => snd (esc_dispatch_gen (inter p) c)
                  | _ => None
                  end.
Proof. intros <-. reflexivity. Qed.

(** * item kind 1: unassigned C0 / C1 controls *)

Definition unassigned_row (s : pstate) (c : N) : bool :=
  implb (pstate_eqb s Ground && (c0_unassigned c || c1_unassigned c))
        (pstate_eqb (t_next (williams s c)) Ground
         && match t_kind (williams s c) with
            | KIgnore => true
            | KExecute => match execute_gen c with None => true | Some _ => false end
            | _ => false
            end).

Lemma unassigned_sweep :
  forallb (fun s => forallb (unassigned_row s) (codes_upto 160)) all_pstates = true.
Proof. vm_compute. reflexivity. Qed.

Lemma unassigned_lt c : c0_unassigned c || c1_unassigned c = true -> c < 160.
Proof. unfold c0_unassigned, c1_unassigned, inrng. lia. Qed.

Lemma unassigned_run p c :
  pst p = Ground -> c0_unassigned c || c1_unassigned c = true ->
  feed_emit p c = None /\ pst (feed_step p c) = Ground.
Proof.
  intros HG HU. pose proof (sweep_lt _ unassigned_sweep Ground c (unassigned_lt c HU)) as R.
  unfold unassigned_row in R. rewrite HU in R. cbn [pstate_eqb andb implb] in R.
  apply andb_prop in R as [R1 R2]. rewrite feed_step_pst, HG. unfold feed_emit. rewrite HG.
  split.
  - destruct (t_kind (williams Ground c)); try discriminate R2; [reflexivity|].
    destruct (execute_gen c); [discriminate R2|reflexivity].
  - destruct (t_next (williams Ground c)); try discriminate R1; reflexivity.
Qed.

(** * item kind 2: control strings *)

Definition in_str (k : strkind) (s : pstate) : bool :=
  match k, s with
  | KOsc, OscString => true
  | KDcs, (DcsEntry | DcsParam | DcsIntermediate | DcsPassthrough | DcsIgnore) => true
  | KSos, SosPmApcString => true
  | _, _ => false
  end.

Definition cls_ignore (k : akind) : bool :=
  match class_of k with ClsIgnore => true | _ => false end.

Definition payload_row (k : strkind) (s : pstate) (c : N) : bool :=
  implb (in_str k s && payload_ok k c)
        (in_str k (t_next (williams s c)) && cls_ignore (t_kind (williams s c))).

Lemma payload_sweep k :
  forallb (fun s => forallb (payload_row k s) (codes_upto 160)) all_pstates = true.
Proof. destruct k; vm_compute; reflexivity. Qed.

(** inside a string every payload character keeps the parser inside the string's states
    (for DCS: one of DcsEntry/DcsParam/DcsIntermediate/DcsPassthrough/DcsIgnore) and
    emits nothing *)
Lemma payload_step k s c :
  in_str k s = true -> payload_ok k c = true ->
  in_str k (t_next (williams s c)) = true /\ class_of (t_kind (williams s c)) = ClsIgnore.
Proof.
  intros HS HP.
  assert (R : in_str k (t_next (williams s c)) && cls_ignore (t_kind (williams s c)) = true).
  { destruct (N.lt_ge_cases c 160) as [Hc|Hc].
    - pose proof (sweep_lt _ (payload_sweep k) s c Hc) as R. unfold payload_row in R.
      rewrite HS, HP in R. exact R.
    - rewrite (williams_high s c Hc). destruct k, s; try discriminate HS; reflexivity. }
  apply andb_prop in R as [R1 R2]. split; [exact R1|].
  unfold cls_ignore in R2. destruct (class_of (t_kind (williams s c))); try discriminate R2.
  reflexivity.
Qed.

Lemma w_st s : williams s 156 = mkTrans Ground KIgnore false.
Proof. reflexivity. Qed.
Lemma w_esc s : williams s 27 = mkTrans Escape KIgnore true.
Proof. reflexivity. Qed.
Lemma w_osc_bel : williams OscString 7 = mkTrans Ground KIgnore false.
Proof. reflexivity. Qed.
Lemma w_esc_backslash : williams Escape 92 = mkTrans Ground KEscDispatch false.
Proof. reflexivity. Qed.

Lemma in_str_osc s : in_str KOsc s = true -> s = OscString.
Proof. destruct s; try discriminate; reflexivity. Qed.

Lemma skip_string_run k : forall s r p,
  skip_string k s = Some r -> in_str k (pst p) = true ->
  exists pre, s = pre ++ r /\ run_emit p pre = [] /\ pst (run_step p pre) = Ground.
Proof.
  induction s as [|c s IH]; intros r p H HS; [discriminate H|].
  cbn [skip_string] in H.
  destruct (N.eqb_spec c 156) as [->|N156].
  { injection H as <-. exists [156]. cbn [app run_emit run_step].
    rewrite (step_emit p _ _ (w_st (pst p))), (step_pst p _ _ (w_st (pst p))). auto. }
  destruct (match k with KOsc => c =? 7 | _ => false end) eqn:EB.
  { injection H as <-. destruct k; try discriminate EB. apply N.eqb_eq in EB. subst c.
    apply in_str_osc in HS. exists [7]. cbn [app run_emit run_step].
    assert (W : williams (pst p) 7 = mkTrans Ground KIgnore false) by (rewrite HS; apply w_osc_bel).
    rewrite (step_emit _ _ _ W), (step_pst _ _ _ W). auto. }
  destruct (N.eqb_spec c 27) as [->|N27].
  { destruct s as [|c2 s]; [discriminate H|].
    destruct (N.eqb_spec c2 92) as [->|N92].
    - injection H as <-. exists [27; 92]. cbn [app run_emit run_step].
      pose proof (step_pst _ _ _ (w_esc (pst p))) as P1.
      pose proof (step_inter _ _ _ (w_esc (pst p))) as I1.
      cbn [t_next t_clear] in P1, I1.
      assert (W : williams (pst (feed_step p 27)) 92 = mkTrans Ground KEscDispatch false)
        by (rewrite P1; apply w_esc_backslash).
      rewrite (step_emit p _ _ (w_esc (pst p))), (step_emit _ _ _ W), (step_pst _ _ _ W), I1.
      cbn [t_kind t_next opt_cons]. split; [reflexivity|]. split; reflexivity.
    - exfalso. destruct c2 as [|q]; [discriminate H|].
      do 7 (try (destruct q as [q|q|]; try discriminate H)). apply N92. reflexivity. }
  destruct (payload_ok k c) eqn:EP; [|discriminate H].
  destruct (payload_step k (pst p) c HS EP) as [S1 Q1].
  destruct (IH r (feed_step p c) H) as (pre & E & EM & ST).
  { rewrite feed_step_pst. exact S1. }
  exists (c :: pre). cbn [app run_emit run_step]. rewrite E, EM, ST.
  rewrite (feed_emit_quiet _ _ Q1). auto.
Qed.

(** * item kind 3: CSI sequences *)

(** which (intermediate, final) pairs [csi_dispatch_gen] can answer at all *)
Lemma csi_dispatch_some i f ps cp :
  csi_dispatch_gen i f ps cp <> None ->
  (i = None /\ mem_N f csi_finals_plain = true)
  \/ (i = Some 33 /\ f = 112)
  \/ (i = Some 63 /\ (f = 104 \/ f = 108)).
Proof.
  unfold csi_dispatch_gen. destruct i as [x|]; cbn [opt_is_none opt_is andb].
  - destruct (N.eqb_spec x 33) as [->|N33]; cbn [andb].
    + destruct (N.eqb_spec f 112) as [->|]; [auto|].
      change (33 =? 63) with false. cbn [andb]. congruence.
    + destruct (N.eqb_spec x 63) as [->|N63]; cbn [andb]; [|congruence].
      destruct (N.eqb_spec f 104) as [->|]; [auto|].
      destruct (N.eqb_spec f 108) as [->|]; [auto|]. congruence.
  - repeat lazymatch goal with
    | |- (if N.eqb f ?k then _ else _) <> None -> _ =>
      destruct (N.eqb_spec f k) as [->|?]; [intros _; left; split; reflexivity|]
    end.
    congruence.
Qed.

Definition rng (lo hi c : N) : Prop := inrng lo hi c = true.

Lemma rng_iff lo hi c : rng lo hi c <-> lo <= c <= hi.
Proof. unfold rng, inrng. lia. Qed.

Definition marker_ok (m : option N) : Prop :=
  match m with Some x => 60 <= x <= 63 | None => True end.

(** the final byte of an unimplemented CSI sequence outside the known finding dispatches
    to nothing; the parser's [inter] is the last prefix byte *)
Lemma csi_quiet m is f ps cp :
  marker_ok m -> Forall (rng 32 47) is ->
  csi_implemented m is f = false -> kf_c20_csi m is f = false ->
  csi_dispatch_gen (match last_opt is with Some y => Some y | None => m end) f ps cp = None.
Proof.
  intros HM HI IMP KF.
  destruct (csi_dispatch_gen (match last_opt is with Some y => Some y | None => m end) f ps cp)
    as [fn|] eqn:E; [exfalso|reflexivity].
  assert (NE : csi_dispatch_gen (match last_opt is with Some y => Some y | None => m end) f ps cp
               <> None) by congruence.
  clear E fn. apply csi_dispatch_some in NE.
  destruct is as [|a [|b is']].
  - cbn [last_opt] in NE. destruct NE as [[-> M]|[[-> ->]|[-> Hf]]].
    + cbn [csi_implemented] in IMP. congruence.
    + cbn [marker_ok] in HM. lia.
    + destruct Hf as [->| ->]; vm_compute in IMP; discriminate IMP.
  - cbn [last_opt] in NE. apply Forall_inv in HI. apply rng_iff in HI.
    destruct NE as [[NE _]|[[NE ->]|[NE _]]]; try discriminate NE; injection NE as ->; [|lia].
    destruct m as [x|]; [vm_compute in KF; discriminate KF|vm_compute in IMP; discriminate IMP].
  - destruct (last_opt_cons_some b is') as [y Hy].
    change (last_opt (a :: b :: is')) with (last_opt (b :: is')) in NE. rewrite Hy in NE.
    assert (Hy' : rng 32 47 y).
    { rewrite Forall_forall in HI. apply HI. right. apply last_opt_In. exact Hy. }
    apply rng_iff in Hy'.
    destruct NE as [[NE _]|[[NE ->]|[NE _]]]; try discriminate NE; injection NE as ->; [|lia].
    unfold kf_c20_csi, last_N in KF.
    destruct m as [x|]; cbn [app length Nat.leb andb] in KF.
    + change (last_opt (x :: a :: b :: is')) with (last_opt (b :: is')) in KF.
      rewrite Hy in KF. vm_compute in KF. discriminate KF.
    + change (last_opt (a :: b :: is')) with (last_opt (b :: is')) in KF.
      rewrite Hy in KF. vm_compute in KF. discriminate KF.
Qed.

(** the grammar of [parse_csi] *)
Lemma parse_csi_inv s m is f rest :
  parse_csi s = Some (m, is, f, rest) ->
  exists ps, s = ps ++ is ++ f :: rest /\ Forall (rng 32 47) is /\ 64 <= f <= 126
    /\ match m with
       | Some x => 60 <= x <= 63 /\ exists tail, ps = x :: tail /\ Forall (rng 48 59) tail
       | None => Forall (rng 48 59) ps /\ (forall tail, ps <> 58 :: tail)
       end.
Proof.
  unfold parse_csi, split_while.
  pose proof (take_skip_while (inrng 48 63) s) as E1.
  pose proof (take_while_Forall (inrng 48 63) s) as F1.
  set (ps := take_while (inrng 48 63) s) in *. set (r1 := skip_while (inrng 48 63) s) in *.
  pose proof (take_skip_while (inrng 32 47) r1) as E2.
  pose proof (take_while_Forall (inrng 32 47) r1) as F2.
  set (is0 := take_while (inrng 32 47) r1) in *. set (r2 := skip_while (inrng 32 47) r1) in *.
  clearbody ps r1 is0 r2. cbv beta iota.
  destruct r2 as [|f0 rest0]; [discriminate|].
  destruct (inrng 64 126 f0) eqn:EF; [|discriminate].
  match goal with |- (if ?b then _ else _) = _ -> _ => destruct b eqn:EC; [|discriminate] end.
  intros [= <- <- <- <-]. apply andb_prop in EC as [EC1 EC2].
  exists ps. split; [now rewrite E2, E1|]. split; [exact F2|].
  split; [unfold inrng in EF; lia|].
  destruct ps as [|m0 tail].
  - split; [constructor|]. intros tail; discriminate.
  - destruct (inrng 60 63 m0) eqn:EM.
    + split; [unfold inrng in EM; lia|]. exists tail. split; [reflexivity|].
      cbn [tl] in EC1. rewrite forallb_forall in EC1. apply Forall_forall. exact EC1.
    + split.
      * rewrite forallb_forall in EC1. apply Forall_forall. exact EC1.
      * intros tail' [= -> ->]. cbn in EC2. discriminate EC2.
Qed.

(** rows of the table used for CSI sequences *)
Definition csi_pre (s : pstate) : bool :=
  match s with CsiEntry | CsiParam | CsiIntermediate => true | _ => false end.

Lemma w_csi_entry_digit : forall c, 48 <= c <= 57 -> williams CsiEntry c = mkTrans CsiParam KParam false.
Proof. apply row_is_spec. vm_compute. reflexivity. Qed.
Lemma w_csi_entry_semi : forall c, 59 <= c <= 59 -> williams CsiEntry c = mkTrans CsiParam KParam false.
Proof. apply row_is_spec. vm_compute. reflexivity. Qed.
Lemma w_csi_entry_marker : forall c, 60 <= c <= 63 -> williams CsiEntry c = mkTrans CsiParam KCollect false.
Proof. apply row_is_spec. vm_compute. reflexivity. Qed.
Lemma w_csi_param : forall c, 48 <= c <= 59 -> williams CsiParam c = mkTrans CsiParam KParam false.
Proof. apply row_is_spec. vm_compute. reflexivity. Qed.

Lemma w_csi_inter s : csi_pre s = true ->
  forall c, 32 <= c <= 47 -> williams s c = mkTrans CsiIntermediate KCollect false.
Proof. destruct s; try discriminate; intros _; apply row_is_spec; vm_compute; reflexivity. Qed.

Lemma w_csi_final s : csi_pre s = true ->
  forall c, 64 <= c <= 126 -> williams s c = mkTrans Ground KCsiDispatch false.
Proof. destruct s; try discriminate; intros _; apply row_is_spec; vm_compute; reflexivity. Qed.

Lemma w_csi s : williams s 155 = mkTrans CsiEntry KIgnore true.
Proof. reflexivity. Qed.
Lemma w_esc_csi : williams Escape 91 = mkTrans CsiEntry KIgnore true.
Proof. reflexivity. Qed.

Lemma csi_params_run : forall l p,
  pst p = CsiParam -> Forall (rng 48 59) l ->
  run_emit p l = [] /\ pst (run_step p l) = CsiParam /\ inter (run_step p l) = inter p.
Proof.
  induction l as [|c l IH]; intros p HS HF; [cbn; auto|].
  pose proof (Forall_inv HF) as Hc. apply rng_iff in Hc. apply Forall_inv_tail in HF.
  assert (W : williams (pst p) c = mkTrans CsiParam KParam false) by (rewrite HS; now apply w_csi_param).
  cbn [run_emit run_step]. rewrite (step_emit _ _ _ W). cbn [t_kind opt_cons].
  destruct (IH (feed_step p c)) as (E & S & I); [apply (step_pst _ _ _ W)|exact HF|].
  rewrite E, S, I, (step_inter _ _ _ W). auto.
Qed.

Lemma csi_inters_run : forall l p,
  csi_pre (pst p) = true -> Forall (rng 32 47) l ->
  run_emit p l = [] /\ csi_pre (pst (run_step p l)) = true
  /\ inter (run_step p l) = match last_opt l with Some y => Some y | None => inter p end.
Proof.
  induction l as [|c l IH]; intros p HS HF; [cbn; auto|].
  pose proof (Forall_inv HF) as Hc. apply rng_iff in Hc. apply Forall_inv_tail in HF.
  pose proof (w_csi_inter _ HS c Hc) as W.
  cbn [run_emit run_step]. rewrite (step_emit _ _ _ W). cbn [t_kind opt_cons].
  destruct (IH (feed_step p c)) as (E & S & I);
    [rewrite (step_pst _ _ _ W); reflexivity|exact HF|].
  rewrite E, S, I, (step_inter _ _ _ W). cbn [t_clear t_kind]. repeat split.
  destruct l as [|y l]; [reflexivity|].
  destruct (last_opt_cons_some y l) as [z Hz].
  change (last_opt (c :: y :: l)) with (last_opt (y :: l)). now rewrite Hz.
Qed.

(** the parameter bytes, from [CsiEntry] *)
Lemma csi_ps_run p m ps :
  pst p = CsiEntry -> inter p = None ->
  match m with
  | Some x => 60 <= x <= 63 /\ exists tail, ps = x :: tail /\ Forall (rng 48 59) tail
  | None => Forall (rng 48 59) ps /\ (forall tail, ps <> 58 :: tail)
  end ->
  run_emit p ps = [] /\ csi_pre (pst (run_step p ps)) = true /\ inter (run_step p ps) = m.
Proof.
  intros HS HI HM. destruct m as [x|].
  - destruct HM as (Hx & tail & -> & HT).
    assert (W : williams (pst p) x = mkTrans CsiParam KCollect false)
      by (rewrite HS; now apply w_csi_entry_marker).
    cbn [run_emit run_step]. rewrite (step_emit _ _ _ W). cbn [t_kind opt_cons].
    destruct (csi_params_run tail (feed_step p x)) as (E & S & I);
      [apply (step_pst _ _ _ W)|exact HT|].
    rewrite E, S, I, (step_inter _ _ _ W). auto.
  - destruct HM as (HF & H58). destruct ps as [|d tail]; [cbn; rewrite HS; auto|].
    pose proof (Forall_inv HF) as Hd. apply rng_iff in Hd. apply Forall_inv_tail in HF.
    assert (d <> 58) by (intros ->; now apply (H58 tail)).
    assert (W : williams (pst p) d = mkTrans CsiParam KParam false).
    { rewrite HS. destruct (N.eq_dec d 59) as [->|]; [now apply w_csi_entry_semi|].
      apply w_csi_entry_digit. lia. }
    cbn [run_emit run_step]. rewrite (step_emit _ _ _ W). cbn [t_kind opt_cons].
    destruct (csi_params_run tail (feed_step p d)) as (E & S & I);
      [apply (step_pst _ _ _ W)|exact HF|].
    rewrite E, S, I, (step_inter _ _ _ W). auto.
Qed.

(** a whole unimplemented CSI sequence after its introducer *)
Lemma csi_seq_run s m is f rest p :
  parse_csi s = Some (m, is, f, rest) ->
  csi_implemented m is f = false -> kf_c20_csi m is f = false ->
  pst p = CsiEntry -> inter p = None ->
  exists pre, s = pre ++ rest /\ run_emit p pre = [] /\ pst (run_step p pre) = Ground.
Proof.
  intros HP IMP KF HS HI.
  destruct (parse_csi_inv _ _ _ _ _ HP) as (ps & -> & FI & Hf & HM).
  assert (MO : marker_ok m) by (destruct m; [apply HM|exact I]).
  destruct (csi_ps_run p m ps HS HI HM) as (E1 & S1 & I1).
  destruct (csi_inters_run is (run_step p ps) S1 FI) as (E2 & S2 & I2).
  pose proof (w_csi_final _ S2 f Hf) as W.
  exists (ps ++ is ++ [f]). split; [now rewrite <- !app_assoc|].
  rewrite !run_emit_app, !run_step_app, E1, E2. cbn [app run_emit run_step].
  rewrite (step_emit _ _ _ W), (step_pst _ _ _ W). cbn [t_kind t_next].
  rewrite I2, I1, (csi_quiet m is f _ _ MO FI IMP KF). auto.
Qed.

(** * item kind 4: ESC sequences *)

Ltac Zify.zify_post_hook ::= Z.div_mod_to_equations.

Lemma esc_dispatch_some i f :
  snd (esc_dispatch_gen i f) <> None ->
  (i = None /\ mem_N f [68; 69; 72; 77; 55; 56; 99] = true)
  \/ (i = Some 35 /\ f = 56) \/ i = Some 40 \/ i = Some 41.
Proof.
  unfold esc_dispatch_gen. destruct i as [x|]; cbn [opt_is_none opt_is andb].
  - intros H.
    destruct (N.eqb_spec x 40) as [->|N40]; [auto|].
    destruct (N.eqb_spec x 41) as [->|N41]; [auto|].
    destruct (N.eqb_spec x 35) as [E35|N35]; destruct (N.eqb_spec f 56) as [E56|N56];
      cbn [andb snd] in H; try congruence.
    subst x f. right; left; split; reflexivity.
  - destruct ((64 <=? f) && (f <=? 95)) eqn:E1.
    + cbn [snd]. unfold execute_gen.
      repeat lazymatch goal with
      | |- (if N.eqb ?a ?k then _ else _) <> None -> _ =>
        destruct (N.eqb_spec a k) as [Hk|?];
          [intros _; left; split; [reflexivity|];
           first [exfalso; lia | (assert (Hf : f = k - 64) by lia; cbn in Hf; subst f; reflexivity)]|]
      end.
      congruence.
    + repeat lazymatch goal with
      | |- snd (if N.eqb f ?k then _ else _) <> None -> _ =>
        destruct (N.eqb_spec f k) as [->|?]; [intros _; left; split; reflexivity|]
      end.
      cbn [snd]. congruence.
Qed.

Lemma esc_quiet is f :
  Forall (rng 32 47) is -> esc_implemented is f = false -> kf_c20_esc is f = false ->
  snd (esc_dispatch_gen (last_opt is) f) = None.
Proof.
  intros HI IMP KF.
  destruct (snd (esc_dispatch_gen (last_opt is) f)) as [fn|] eqn:E; [exfalso|reflexivity].
  assert (NE : snd (esc_dispatch_gen (last_opt is) f) <> None) by congruence.
  clear E fn. apply esc_dispatch_some in NE.
  destruct is as [|a [|b is']].
  - cbn [last_opt] in NE. destruct NE as [[_ M]|[[NE _]|[NE|NE]]]; try discriminate NE.
    cbn [esc_implemented] in IMP.
    change [68; 69; 72; 77; 55; 56; 99; 80; 88; 91; 93; 94; 95]
      with ([68; 69; 72; 77; 55; 56; 99] ++ [80; 88; 91; 93; 94; 95]) in IMP.
    unfold mem_N in *. rewrite existsb_app, M in IMP. discriminate IMP.
  - cbn [last_opt] in NE.
    destruct NE as [[NE _]|[[NE ->]|[NE|NE]]]; try discriminate NE; injection NE as ->;
      vm_compute in IMP; discriminate IMP.
  - destruct (last_opt_cons_some b is') as [y Hy].
    change (last_opt (a :: b :: is')) with (last_opt (b :: is')) in NE. rewrite Hy in NE.
    unfold kf_c20_esc, last_N in KF. cbn [length Nat.leb andb] in KF.
    change (last_opt (a :: b :: is')) with (last_opt (b :: is')) in KF. rewrite Hy in KF.
    destruct NE as [[NE _]|[[NE ->]|[NE|NE]]]; try discriminate NE; injection NE as ->;
      vm_compute in KF; discriminate KF.
Qed.

Lemma parse_esc_inv s is f rest :
  parse_esc s = Some (is, f, rest) ->
  s = is ++ f :: rest /\ Forall (rng 32 47) is /\ 48 <= f <= 126.
Proof.
  unfold parse_esc, split_while.
  pose proof (take_skip_while (inrng 32 47) s) as E1.
  pose proof (take_while_Forall (inrng 32 47) s) as F1.
  set (is0 := take_while (inrng 32 47) s) in *. set (r := skip_while (inrng 32 47) s) in *.
  clearbody is0 r. cbv beta iota.
  destruct r as [|f0 rest0]; [discriminate|].
  destruct (inrng 48 126 f0) eqn:EF; [|discriminate].
  intros [= <- <- <-]. split; [now rewrite E1|]. split; [exact F1|]. unfold inrng in EF. lia.
Qed.

Definition esc_pre (s : pstate) : bool :=
  match s with Escape | EscapeIntermediate => true | _ => false end.

Lemma w_esc_inter s : esc_pre s = true ->
  forall c, 32 <= c <= 47 -> williams s c = mkTrans EscapeIntermediate KCollect false.
Proof. destruct s; try discriminate; intros _; apply row_is_spec; vm_compute; reflexivity. Qed.

Lemma w_escint_final :
  forall c, 48 <= c <= 126 -> williams EscapeIntermediate c = mkTrans Ground KEscDispatch false.
Proof. apply row_is_spec. vm_compute. reflexivity. Qed.

Definition esc_plain_final (c : N) : bool :=
  inrng 48 126 c && negb (mem_N c [80; 88; 91; 93; 94; 95]).

Lemma w_esc_final :
  forall c, c < 160 -> esc_plain_final c = true -> williams Escape c = mkTrans Ground KEscDispatch false.
Proof. apply row_if_spec. vm_compute. reflexivity. Qed.

Lemma esc_inters_run : forall l p,
  esc_pre (pst p) = true -> Forall (rng 32 47) l ->
  run_emit p l = []
  /\ pst (run_step p l) = match l with [] => pst p | _ => EscapeIntermediate end
  /\ inter (run_step p l) = match last_opt l with Some y => Some y | None => inter p end.
Proof.
  induction l as [|c l IH]; intros p HS HF; [cbn; auto|].
  pose proof (Forall_inv HF) as Hc. apply rng_iff in Hc. apply Forall_inv_tail in HF.
  pose proof (w_esc_inter _ HS c Hc) as W.
  cbn [run_emit run_step]. rewrite (step_emit _ _ _ W). cbn [t_kind opt_cons].
  pose proof (step_pst _ _ _ W) as P1. cbn [t_next] in P1.
  destruct (IH (feed_step p c)) as (E & S & I); [rewrite P1; reflexivity|exact HF|].
  rewrite E, S, I, (step_inter _ _ _ W), P1. cbn [t_clear t_kind]. repeat split.
  - destruct l; reflexivity.
  - destruct l as [|y l]; [reflexivity|].
    destruct (last_opt_cons_some y l) as [z Hz].
    change (last_opt (c :: y :: l)) with (last_opt (y :: l)). now rewrite Hz.
Qed.

(** a whole unimplemented ESC sequence after ESC *)
Lemma esc_seq_run s is f rest p :
  parse_esc s = Some (is, f, rest) ->
  esc_implemented is f = false -> kf_c20_esc is f = false ->
  pst p = Escape -> inter p = None ->
  exists pre, s = pre ++ rest /\ run_emit p pre = [] /\ pst (run_step p pre) = Ground.
Proof.
  intros HP IMP KF HS HI.
  destruct (parse_esc_inv _ _ _ _ HP) as (-> & FI & Hf).
  destruct (esc_inters_run is p) as (E1 & S1 & I1); [now rewrite HS|exact FI|].
  assert (W : williams (pst (run_step p is)) f = mkTrans Ground KEscDispatch false).
  { rewrite S1. destruct is as [|a is'].
    - rewrite HS. apply w_esc_final; [lia|]. unfold esc_plain_final.
      cbn [esc_implemented] in IMP.
      change [68; 69; 72; 77; 55; 56; 99; 80; 88; 91; 93; 94; 95]
        with ([68; 69; 72; 77; 55; 56; 99] ++ [80; 88; 91; 93; 94; 95]) in IMP.
      unfold mem_N in *. rewrite existsb_app in IMP. apply orb_false_elim in IMP as [_ IMP].
      rewrite IMP. unfold inrng. lia.
    - now apply w_escint_final. }
  exists (is ++ [f]). split; [now rewrite <- app_assoc|].
  rewrite run_emit_app, run_step_app, E1. cbn [app run_emit run_step].
  rewrite (step_emit _ _ _ W), (step_pst _ _ _ W). cbn [t_kind t_next].
  rewrite I1, HI.
  replace (match last_opt is with Some y => Some y | None => None end) with (last_opt is)
    by (destruct (last_opt is); reflexivity).
  rewrite (esc_quiet is f FI IMP KF). auto.
Qed.

(** * one inert item *)

(** the known-finding test for the item at the head of [c :: r] (the [here] of [kf_c20_go]) *)
Definition kf_here (c : N) (r : list N) : bool :=
  if c =? 155 then
    match parse_csi r with Some (m, is, f, _) => kf_c20_csi m is f | None => false end
  else if c =? 27 then
    match r with
    | 91 :: r' => match parse_csi r' with Some (m, is, f, _) => kf_c20_csi m is f | None => false end
    | _ => match parse_esc r with Some (is, f, _) => kf_c20_esc is f | None => false end
    end
  else false.

Lemma kf_c20_go_S fuel c r :
  kf_c20_go (S fuel) (c :: r)
  = kf_here c r || match inert_item (c :: r) with Some r' => kf_c20_go fuel r' | None => false end.
Proof. reflexivity. Qed.

(** the ESC branch of [inert_item] and of [kf_here], with the nested pattern match on the
    second character written as a cascade of tests *)
Definition csi_item (r : list N) : option (list N) :=
  match parse_csi r with
  | Some (m, is, f, rest) => if csi_implemented m is f then None else Some rest
  | None => None
  end.

Definition esc_item (r : list N) : option (list N) :=
  match parse_esc r with
  | Some (is, f, rest) => if esc_implemented is f then None else Some rest
  | None => None
  end.

Lemma inert_item_esc r :
  inert_item (27 :: r)
  = match r with
    | [] => None
    | c :: r' =>
      if c =? 93 then skip_string KOsc r' else
      if c =? 80 then skip_string KDcs r' else
      if (c =? 88) || (c =? 94) || (c =? 95) then skip_string KSos r' else
      if c =? 91 then csi_item r' else esc_item (c :: r')
    end.
Proof.
  destruct r as [|c r']; [reflexivity|]. destruct c as [|q]; [reflexivity|].
  do 8 (try (destruct q as [q|q|]; try reflexivity)).
Qed.

Lemma kf_here_esc r :
  kf_here 27 r
  = match r with
    | [] => false
    | c :: r' =>
      if c =? 91
      then match parse_csi r' with Some (m, is, f, _) => kf_c20_csi m is f | None => false end
      else match parse_esc (c :: r') with Some (is, f, _) => kf_c20_esc is f | None => false end
    end.
Proof.
  destruct r as [|c r']; [reflexivity|]. destruct c as [|q]; [reflexivity|].
  do 8 (try (destruct q as [q|q|]; try reflexivity)).
Qed.

Lemma quiet_cons p c pre :
  class_of (t_kind (williams (pst p) c)) = ClsIgnore ->
  run_emit (feed_step p c) pre = [] -> run_emit p (c :: pre) = [].
Proof. intros K E. cbn [run_emit]. now rewrite (feed_emit_quiet _ _ K), E. Qed.

Definition item_run (p : parser) (s r : list N) : Prop :=
  exists pre, s = pre ++ r /\ pre <> [] /\ run_emit p pre = [] /\ pst (run_step p pre) = Ground.

(** a quiet introducer character followed by something that runs quietly to [Ground] *)
Lemma item_run_cons p c s r :
  class_of (t_kind (williams (pst p) c)) = ClsIgnore ->
  (exists pre, s = pre ++ r /\ run_emit (feed_step p c) pre = []
               /\ pst (run_step (feed_step p c) pre) = Ground) ->
  item_run p (c :: s) r.
Proof.
  intros K (pre & -> & EM & ST). exists (c :: pre).
  split; [reflexivity|]. split; [discriminate|]. split; [now apply quiet_cons|exact ST].
Qed.

Lemma string_item k c s r p t :
  williams (pst p) c = t -> t_kind t = KIgnore -> in_str k (t_next t) = true ->
  skip_string k s = Some r -> item_run p (c :: s) r.
Proof.
  intros W K HS H. apply item_run_cons; [rewrite W, K; reflexivity|].
  apply skip_string_run with (k := k); [exact H|]. rewrite (step_pst _ _ _ W). exact HS.
Qed.

Lemma csi_item_run c s r p :
  williams (pst p) c = mkTrans CsiEntry KIgnore true ->
  csi_item s = Some r ->
  match parse_csi s with Some (m, is, f, _) => kf_c20_csi m is f | None => false end = false ->
  item_run p (c :: s) r.
Proof.
  intros W H KF. apply item_run_cons; [rewrite W; reflexivity|].
  unfold csi_item in H. destruct (parse_csi s) as [[[[m is] f] rest]|] eqn:EP; [|discriminate H].
  destruct (csi_implemented m is f) eqn:IMP; [discriminate H|]. injection H as <-.
  apply (csi_seq_run s m is f rest); auto.
  - apply (step_pst _ _ _ W).
  - rewrite (step_inter _ _ _ W). reflexivity.
Qed.

Lemma w_osc s : williams s 157 = mkTrans OscString KIgnore false.
Proof. reflexivity. Qed.
Lemma w_dcs s : williams s 144 = mkTrans DcsEntry KIgnore true.
Proof. reflexivity. Qed.
Lemma w_sos s c : (c =? 152) || (c =? 158) || (c =? 159) = true ->
  williams s c = mkTrans SosPmApcString KIgnore false.
Proof.
  intros H. assert (E : c = 152 \/ c = 158 \/ c = 159) by lia.
  destruct E as [->|[->| ->]]; reflexivity.
Qed.
Lemma w_esc_osc : williams Escape 93 = mkTrans OscString KIgnore false.
Proof. reflexivity. Qed.
Lemma w_esc_dcs : williams Escape 80 = mkTrans DcsEntry KIgnore true.
Proof. reflexivity. Qed.
Lemma w_esc_sos c : (c =? 88) || (c =? 94) || (c =? 95) = true ->
  williams Escape c = mkTrans SosPmApcString KIgnore false.
Proof.
  intros H. assert (E : c = 88 \/ c = 94 \/ c = 95) by lia.
  destruct E as [->|[->| ->]]; reflexivity.
Qed.

Lemma inert_item_run c r0 r p :
  inert_item (c :: r0) = Some r -> kf_here c r0 = false -> pst p = Ground ->
  item_run p (c :: r0) r.
Proof.
  intros H KF HG.
  destruct (N.eq_dec c 27) as [->|N27].
  { rewrite inert_item_esc in H. rewrite kf_here_esc in KF.
    destruct r0 as [|c2 r']; [discriminate H|].
    pose proof (step_pst p 27 _ (w_esc (pst p))) as P1.
    pose proof (step_inter p 27 _ (w_esc (pst p))) as I1. cbn [t_next t_clear] in P1, I1.
    apply item_run_cons; [reflexivity|].
    assert (G : item_run (feed_step p 27) (c2 :: r') r).
    { revert H KF.
      destruct (N.eqb_spec c2 93) as [->|N93].
      { intros H _. apply (string_item KOsc) with (t := mkTrans OscString KIgnore false); auto.
        all: try (rewrite P1; apply w_esc_osc). }
      destruct (N.eqb_spec c2 80) as [->|N80].
      { intros H _. apply (string_item KDcs) with (t := mkTrans DcsEntry KIgnore true); auto.
        all: try (rewrite P1; apply w_esc_dcs). }
      destruct ((c2 =? 88) || (c2 =? 94) || (c2 =? 95)) eqn:ES.
      { intros H _. apply (string_item KSos) with (t := mkTrans SosPmApcString KIgnore false); auto.
        all: try (rewrite P1; now apply w_esc_sos). }
      destruct (N.eqb_spec c2 91) as [->|N91].
      { intros H KF. apply csi_item_run; auto. all: try (rewrite P1; apply w_esc_csi). }
      intros H KF.
      unfold esc_item in H.
      destruct (parse_esc (c2 :: r')) as [[[is f] rest]|] eqn:EP; [|discriminate H].
      destruct (esc_implemented is f) eqn:IMP; [discriminate H|]. injection H as <-.
      destruct (esc_seq_run _ _ _ _ (feed_step p 27) EP IMP KF P1 I1) as (pre & E & EM & ST).
      exists pre. repeat split; auto. intros ->. cbn [app] in E.
      apply parse_esc_inv in EP as (E2 & _). rewrite E2 in E.
      apply (f_equal (@length N)) in E. rewrite app_length in E. cbn [length] in E. lia. }
    destruct G as (pre & E & _ & EM & ST). exists pre. auto. }
  revert H KF. unfold inert_item, kf_here.
  destruct (N.eqb_spec c 27) as [|_]; [contradiction|].
  destruct (c0_unassigned c || c1_unassigned c) eqn:EU.
  { intros [= <-] _. destruct (unassigned_run p c HG EU) as [E S]. exists [c].
    split; [reflexivity|]. split; [discriminate|]. cbn [run_emit run_step]. rewrite E. auto. }
  destruct (N.eqb_spec c 157) as [->|N157].
  { intros H _. apply (string_item KOsc) with (t := mkTrans OscString KIgnore false); auto. }
  destruct (N.eqb_spec c 144) as [->|N144].
  { intros H _. apply (string_item KDcs) with (t := mkTrans DcsEntry KIgnore true); auto. }
  destruct ((c =? 152) || (c =? 158) || (c =? 159)) eqn:ES.
  { intros H _. apply (string_item KSos) with (t := mkTrans SosPmApcString KIgnore false); auto.
    now apply w_sos. }
  destruct (N.eqb_spec c 155) as [->|N155]; [|discriminate].
  intros H KF. apply csi_item_run; auto.
Qed.

(** * the whole string *)

Lemma item_run_length p s r : item_run p s r -> (length r < length s)%nat.
Proof.
  intros (pre & -> & NE & _). rewrite app_length. destruct pre; [contradiction|]. cbn [length]. lia.
Qed.

Lemma inert_go_run : forall fuel1 fuel2 s p,
  (length s <= fuel2)%nat -> inert_go fuel1 s = true -> kf_c20_go fuel2 s = false ->
  pst p = Ground ->
  run_emit p s = [] /\ pst (run_step p s) = Ground.
Proof.
  induction fuel1 as [|f1 IH]; intros fuel2 s p HL HI HK HG.
  - destruct s; [cbn; auto|discriminate HI].
  - destruct s as [|c r0]; [cbn; auto|]. cbn [inert_go] in HI.
    destruct (inert_item (c :: r0)) as [r|] eqn:EI; [|discriminate HI].
    destruct fuel2 as [|f2]; [cbn [length] in HL; lia|].
    rewrite kf_c20_go_S, EI in HK. apply orb_false_elim in HK as [KH KR].
    pose proof (inert_item_run c r0 r p EI KH HG) as IR.
    pose proof (item_run_length _ _ _ IR) as LR.
    destruct IR as (pre & E & _ & EM & ST). rewrite E.
    destruct (IH f2 r (run_step p pre)) as [EM2 ST2]; auto.
    { cbn [length] in *. lia. }
    rewrite run_emit_app, run_step_app, EM, EM2, ST2. auto.
Qed.

(** C20 on the table level: no function is emitted and the parser is back in [Ground] *)
Theorem C20_inert_pure : forall s p,
  pst p = Ground -> inert_spec s = true -> kf_c20 s = false ->
  run_emit p s = [] /\ pst (run_step p s) = Ground.
Proof.
  intros s p HG HI HK. unfold inert_spec in HI. unfold kf_c20 in HK.
  destruct s as [|c r]; [discriminate HI|].
  apply (inert_go_run (length (c :: r)) (length (c :: r))); auto.
Qed.
Print Assumptions C20_inert_pure.

Theorem C20_inert : forall s p,
  PInv p -> pst p = Ground -> inert_spec s = true -> kf_c20 s = false ->
  exists p', runP p s = Ok (p', []) /\ pst p' = Ground.
Proof.
  intros s p HP HG HI HK. destruct (C20_inert_pure s p HG HI HK) as [EM ST].
  exists (run_step p s). rewrite runP_char by exact HP. rewrite EM. auto.
Qed.
Print Assumptions C20_inert.

(** the known finding the hypothesis [kf_c20 s = false] excludes: CSI > ! p is not an
    implemented sequence (two prefix bytes), yet it executes DECSTR *)
Example C20_kf_witness :
  inert_spec [155; 62; 33; 112] = true
  /\ kf_c20 [155; 62; 33; 112] = true
  /\ exists p', runP init_parser [155; 62; 33; 112] = Ok (p', [Decstr]).
Proof. split; [|split]; [vm_compute; reflexivity ..|]. eexists. vm_compute. reflexivity. Qed.
Print Assumptions C20_kf_witness.
