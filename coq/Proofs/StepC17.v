(** C17 (saved cursor contexts, per screen) holds for every model step and every resize from
    every state satisfying [TInv]. *)

From Coq Require Import Lia ZArith ZifyBool ZifyNat ZifyN.
From Avt Require Import Oracles.Step Proofs.Inv Proofs.TermEasy Proofs.VisEq Proofs.Frames
  Proofs.Resize.
Ltac Zify.zify_post_hook ::= Z.div_mod_to_equations.

Lemma Ok_inj {A} (a b : A) : Ok a = Ok b -> a = b.
Proof. intros H. exact (f_equal (fun r => match r with Ok x => x | Panic _ => a end) H). Qed.

Lemma save_cursor_eq t : save_cursor t = t <| sctx := spec_saved_now t |>.
Proof. apply Ok_inj. exact (exec_save t Decsc I). Qed.

Lemma restore_cursor_eq t : restore_cursor t = spec_restore t.
Proof. apply Ok_inj. exact (exec_restore t Decrc I). Qed.

Lemma clamp_id s c r : sc_col s <= c - 1 -> sc_row s <= r - 1 -> clamp_ctx s c r = s.
Proof.
  intros H1 H2. destruct s as [sc sr sp so sa]. unfold clamp_ctx, set. cbn -[Nat.min Nat.sub] in *.
  f_equal; lia.
Qed.

Lemma saved_now_in t : TInv t ->
  sc_col (spec_saved_now t) <= cols t - 1 /\ sc_row (spec_saved_now t) <= rows t - 1.
Proof.
  intros HT. pose proof (ti_row t HT). unfold spec_saved_now, viscol. cbn [sc_col sc_row]. lia.
Qed.

(** restoring then reflowing: the primary's context comes back, inside the screen *)
Lemma reflow_restore u t' :
  BInv (buf u) -> 1 <= cols u -> 1 <= rows u ->
  CtxInv (bcols (buf u)) (brows (buf u)) (sctx u) ->
  reflow (restore_cursor u) = Ok t' ->
  tpen t' = sc_pen (sctx u) /\ org t' = sc_origin (sctx u) /\ awm t' = sc_awm (sctx u)
  /\ pend t' = false /\ cols t' = cols u /\ rows t' = rows u
  /\ cur_col t' < cols u /\ cur_row t' < rows u
  /\ (bcols (buf u) = cols u -> brows (buf u) = rows u ->
      cur_col t' = sc_col (sctx u) /\ cur_row t' = sc_row (sctx u)).
Proof.
  intros HB Hc Hr [Hsc Hsr] H. apply reflow_inv in H as (b & c & r & d & Hb & ->).
  destruct (restore_cursor_fields_eq u) as (R1 & R2 & R3 & R4 & R5 & R6 & R7 & R8 & R9 & R10 & _).
  rewrite R1, R3, R4, R5, R6 in Hb.
  assert (Hcr : c < cols u /\ r < rows u
                /\ (bcols (buf u) = cols u -> brows (buf u) = rows u ->
                    c = sc_col (sctx u) /\ r = sc_row (sctx u))).
  { destruct (buf_resize_ok' (buf u) (cols u) (rows u) (sc_col (sctx u)) (sc_row (sctx u)) HB Hc Hr)
      as (b' & cc' & cr' & E & _ & _ & _ & _ & _ & Hr' & Hne & Heq); [lia|].
    rewrite Hb in E. injection E as <- <- <-. split; [|split].
    - destruct (Nat.eq_dec (cols u) (bcols (buf u))) as [e|e]; [rewrite (Heq e); lia|exact (Hne e)].
    - exact Hr'.
    - intros E1 E2. rewrite <- E1, <- E2 in Hb.
      rewrite buf_resize_same' in Hb by (destruct HB as [(_ & _ & Hl & _) _]; exact Hl).
      injection Hb as _ <- <-. split; reflexivity. }
  destruct Hcr as (Hc' & Hr' & Hsame).
  destruct (reflowed_cur (restore_cursor u) b c r d) as [Ecc Ecr].
  destruct (reflowed_fields (restore_cursor u) b c r d) as (_ & _ & _ & F4 & F5 & F6 & F7 & F8).
  rewrite Ecc, Ecr, reflowed_pend, F4, F5, F6, F7, F8, R3, R4, R7, R8, R9, R10.
  repeat split; try assumption.
  - destruct (negb (cols u =? bcols (buf (restore_cursor u)))); reflexivity.
  - apply Hsame; assumption.
  - apply Hsame; assumption.
Qed.

Lemma C17_decrst_scasb t t' :
  TInv t -> execute t (Decrst [SaveCursorAltScreenBuffer]) = Ok t' ->
  let c := saved_of t Primary in
  tpen t' = sc_pen c /\ org t' = sc_origin c /\ awm t' = sc_awm c /\ pend t' = false
  /\ cur_col t' < cols t' /\ cur_row t' < rows t'
  /\ (bcols (primary_buffer t) = cols t -> brows (primary_buffer t) = rows t ->
      cur_col t' = sc_col c /\ cur_row t' = sc_row c).
Proof.
  intros HT H. rewrite exec_decrst_one, decrst_scasb_eq in H.
  apply bind_ok in H as (t1 & H1 & H). rename t' into t2.
  unfold saved_of, primary_buffer. cbv zeta.
  apply switch_prim_inv in H1 as [[Ea ->]|[Ea [d ->]]]; rewrite Ea; cbn [btype_eqb].
  - assert (HC : CtxInv (bcols (buf t)) (brows (buf t)) (sctx t)).
    { rewrite (ti_bcols t HT), (ti_brows t HT). exact (ti_sctx t HT). }
    destruct (reflow_restore t t2 (ti_buf t HT) (ti_cols t HT) (ti_rows t HT) HC H)
      as (A1 & A2 & A3 & A4 & A5 & A6 & A7 & A8 & A9).
    rewrite A5, A6. repeat split; try assumption; apply A9; assumption.
  - pose proof (ti_parked t HT) as HP. rewrite Ea in HP.
    destruct (to_prim_fields t d) as (_ & P2 & _ & _ & P5 & P6 & P7 & _).
    assert (HB : BInv (buf (to_prim t d))) by (rewrite P5; exact (ti_other _ HT)).
    assert (HC : CtxInv (bcols (buf (to_prim t d))) (brows (buf (to_prim t d))) (sctx (to_prim t d)))
      by (rewrite P5, P2; exact HP).
    assert (Hc : 1 <= cols (to_prim t d)) by (rewrite P6; exact (ti_cols _ HT)).
    assert (Hr : 1 <= rows (to_prim t d)) by (rewrite P7; exact (ti_rows _ HT)).
    destruct (reflow_restore _ t2 HB Hc Hr HC H) as (A1 & A2 & A3 & A4 & A5 & A6 & A7 & A8 & A9).
    rewrite P2, P5, P6, P7 in *.
    rewrite A5, A6. repeat split; try assumption; apply A9; assumption.
Qed.

Lemma C17_decset_scasb t t' :
  TInv t -> execute t (Decset [SaveCursorAltScreenBuffer]) = Ok t' ->
  saved_of t' (active t) = spec_saved_now t.
Proof.
  intros HT H. rewrite exec_decset_one, decset_scasb_eq in H.
  apply bind_ok in H as (t1 & H1 & H). rewrite save_cursor_eq in H1.
  apply reflow_inv in H as (b & c & r & d' & _ & ->).
  destruct (saved_now_in t HT) as [B1 B2].
  destruct (set_sctx_fields t (spec_saved_now t)) as (S1 & S2 & S3 & S4 & S5 & _).
  unfold saved_of.
  destruct (reflowed_fields t1 b c r d') as (F1 & _ & F3 & _).
  rewrite F1, F3, reflowed_sctx.
  apply switch_alt_inv in H1 as [[Ea ->]|[Ea [d ->]]]; rewrite S1 in Ea.
  - rewrite S1, S2, S4, S5, btype_eqb_refl. apply clamp_id; assumption.
  - destruct (to_alt_fields (t <| sctx := spec_saved_now t |>) d) as (T1 & _ & T3 & _).
    rewrite T1, T3, Ea, S2. reflexivity.
Qed.

Theorem C17_holds : forall p p' t f t',
  TInv t -> execute t f = Ok t' -> holds_C17 (mkVt p t) f (mkVt p' t') = true.
Proof.
  intros p p' t f t' HT H. pose proof (saved_frame t f t' H) as F.
  pose proof (ti_sctx t HT) as [Hsc Hsr].
  assert (Hsave : forall g, match g with Decsc | Scosc | Decset [SaveCursor] => True | _ => False end ->
                  execute t g = Ok t' -> visible_eqb (t <| sctx := spec_saved_now t |>) t' = true).
  { intros g Hg Hx. rewrite (exec_save t g Hg) in Hx. injection Hx as <-. apply visible_eqb_refl. }
  assert (Hrest : forall g, match g with Decrc | Scorc | Decrst [SaveCursor] => True | _ => False end ->
                  execute t g = Ok t' ->
                  visible_eqb (spec_restore t) t' && (cur_col t' <? cols t') && (cur_row t' <? rows t') = true).
  { intros g Hg Hx. rewrite (exec_restore t g Hg) in Hx. injection Hx as <-.
    rewrite visible_eqb_refl.
    replace (cur_col (spec_restore t)) with (sc_col (sctx t)) by (destruct t; reflexivity).
    replace (cur_row (spec_restore t)) with (sc_row (sctx t)) by (destruct t; reflexivity).
    replace (cols (spec_restore t)) with (cols t) by (destruct t; reflexivity).
    replace (rows (spec_restore t)) with (rows t) by (destruct t; reflexivity).
    cbn [andb]. apply andb_true_iff. split; apply Nat.ltb_lt; assumption. }
  unfold holds_C17. cbn [vterm].
  destruct f;
    try (destruct F as (F1 & F2 & F3); rewrite F1, F2, F3, !ctx_eqb_refl, btype_eqb_refl; reflexivity);
    try reflexivity.
  - exact (Hrest Decrc I H).
  - (* Decrst *)
    destruct ms as [|m [|m' ms']]; try reflexivity; destruct m; try reflexivity.
    + exact (Hrest (Decrst [SaveCursor]) I H).
    + destruct (C17_decrst_scasb t t' HT H) as (A1 & A2 & A3 & A4 & A5 & A6 & A7). cbv zeta in *.
      rewrite A1, A2, A3, A4, pen_eqb_refl, !Bool.eqb_reflx. cbn [andb negb].
      replace (cur_col t' <? cols t') with true by (symmetry; apply Nat.ltb_lt; exact A5).
      replace (cur_row t' <? rows t') with true by (symmetry; apply Nat.ltb_lt; exact A6).
      cbn [andb].
      destruct ((bcols (primary_buffer t) =? cols t) && (brows (primary_buffer t) =? rows t)) eqn:Eg;
        [|reflexivity].
      apply andb_prop in Eg as [G1 G2]. apply Nat.eqb_eq in G1, G2.
      destruct (A7 G1 G2) as [-> ->]. now rewrite !Nat.eqb_refl.
  - exact (Hsave Decsc I H).
  - (* Decset *)
    destruct ms as [|m [|m' ms']]; try reflexivity; destruct m; try reflexivity.
    + exact (Hsave (Decset [SaveCursor]) I H).
    + rewrite (C17_decset_scasb t t' HT H). apply ctx_eqb_refl.
  - (* Decstr *)
    cbn [execute] in H. injection H as <-.
    destruct t as [? ? ? ? act ? ? ? ? ? ? ? ? ? ? ? ? ? ? ? ? ? ? ? ? ?]; destruct act; cbn;
      rewrite ctx_eqb_refl; reflexivity.
  - (* Ris *)
    cbn [execute] in H. injection H as <-. destruct t; reflexivity.
  - exact (Hrest Scorc I H).
  - exact (Hsave Scosc I H).
Qed.

Print Assumptions C17_holds.

Theorem C17_resize_holds : forall p p' t c r t',
  TInv t -> 1 <= c -> 1 <= r -> term_resize t c r = Ok t' ->
  holds_C17_resize (mkVt p t) (mkVt p' t') = true.
Proof.
  intros p p' t c r t' _ _ _ H.
  destruct (term_resize_fields _ _ _ _ H) as (Ec & Er & _ & Es & Ea & _).
  unfold holds_C17_resize. cbn [vterm]. rewrite Ec, Er, Es, Ea, !ctx_eqb_refl. reflexivity.
Qed.

Print Assumptions C17_resize_holds.
