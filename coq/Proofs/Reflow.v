(** Umbrella for the reflow / resize proofs.

    - [Proofs/ReflowCore.v]: line primitives ([llen_trim], [llen_expand], [line_contract_spec],
      [line_extend_spec]) and the reflow loop ([reflow_total], [reflow_ok]).
    - [Proofs/Resize.v]: [Buffer::resize] ([buf_resize_total], [buf_resize_panic_44],
      [buf_resize_ok'], [buf_resize_ok], [buf_resize_cursor_row_needed], [buf_resize_same'],
      [buf_resize_same]). *)

From Avt Require Import Proofs.Inv.
From Avt Require Export Proofs.ReflowCore Proofs.Resize.
Require Import Lia.
Import ListNotations.

(** Concrete illustrations (computed). *)

Definition X : cell := mkCell 120 default_pen.
Definition D : cell := default_cell.

(** a stale 3x2 buffer; the terminal is now 5x4 and the cursor (4, 3) lives in the new
    geometry (caller situation (ii)): no panic, cursor clamped into the new view *)
Definition stale : buffer :=
  mkBuffer [mkLine [X; X; X] true; mkLine [X; D; D] false] 3 2 None false.

Example stale_BInv : BInv stale.
Proof.
  unfold stale, BInv, BGeom. cbn. repeat split; try lia.
  repeat constructor.
Qed.

Example resize_stale_ii :
  buf_resize stale 5 4 4 3 =
  Ok (mkBuffer [mkLine [X; X; X; X; D] false; blank_line 5 default_pen;
                blank_line 5 default_pen; blank_line 5 default_pen] 5 4 None true, (4, 1)).
Proof. vm_compute. reflexivity. Qed.

(** same width, more rows, cursor row in the new geometry (situation (ii)): fine *)
Example resize_stale_ii_same_width :
  buf_resize stale 3 4 3 3 =
  Ok (mkBuffer [mkLine [X; X; X] true; mkLine [X; D; D] false;
                blank_line 3 default_pen; blank_line 3 default_pen] 3 4 None true, (3, 3)).
Proof. vm_compute. reflexivity. Qed.

(** the only way to make [buf_resize] panic from a [BInv] buffer with positive sizes:
    unchanged width, fewer rows, cursor row outside the old view (not a caller situation) *)
Example resize_panic_44 : buf_resize stale 3 1 0 2 = Panic 44.
Proof. vm_compute. reflexivity. Qed.
