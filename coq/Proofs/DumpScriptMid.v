(** Property C11, terminal level: segments 4 - 6 of the dump script (the alternate screen:
    its saved context and, when it is the active one, its view). *)

From Coq Require Import Lia ZArith ZifyBool ZifyNat ZifyN String.
From Avt Require Import Model.Vt Spec.Screen Oracles.Rel Proofs.Inv Proofs.ParserInv Proofs.ListLemmas
  Proofs.Tabs Proofs.Frames Proofs.InvTerm Proofs.StepC17 Proofs.PenInv Proofs.DumpParserEmits
  Proofs.DumpRowsList Proofs.DumpRowsStep Proofs.DumpRows Proofs.InvStep Proofs.PenInvProofs
  Proofs.DumpScriptBase Proofs.DumpScriptExec Proofs.DumpScriptSim Proofs.DumpScriptSeg
  Proofs.DumpScriptHead.
Ltac Zify.zify_post_hook ::= Z.div_mod_to_equations.
Local Open Scope nat_scope.

Ltac norm_sim H T :=
  match type of H with Sim ?v ?E => replace E with T in H by reflexivity end.
Ltac norm_res H T :=
  match type of H with _ = Ok ?E => replace E with T in H by reflexivity end.

(** * the original is on the primary screen *)

Theorem sim_mid_primary c r v3 B1 O0 x y z tb pc ac d0 :
  1 <= c -> 1 <= r -> (N.of_nat c <= 65534)%N -> (N.of_nat r <= 65535)%N ->
  bcols B1 = c -> brows B1 = r ->
  sc_col pc < c -> sc_row pc < r ->
  pen_wf (sc_pen ac) -> (N.of_nat (sc_col ac) < 65535)%N -> (N.of_nat (sc_row ac) < 65535)%N ->
  Sim v3 (mkTerm c r B1 O0 Primary None x y true default_pen CsAscii CsAscii 0 tb
                 false false true false false z 0 (r - 1) pc default_ctx d0 false) ->
  exists v6 Boff x' y' pn z' asc,
    feed_chars v3
      ((if false || negb (ctx_is_default ac) then CSI :: str "?1047h" else [])
       ++ [] ++ dump_ctx ac
       ++ (if negb false && negb (ctx_is_default ac) then CSI :: str "?1047l" else [])) = Ok v6
    /\ Sim v6 (mkTerm c r B1 Boff Primary None x' y' true pn CsAscii CsAscii 0 tb
                      false false true false false z' 0 (r - 1) pc asc d0 false)
    /\ clamp_ctx asc c r = clamp_ctx ac c r.
Proof.
  intros Hc Hr Hc2 Hr2 Hbc Hbr Hp1 Hp2 Hpen Ha1 Ha2 S3.
  cbn [orb negb andb app]. destruct (ctx_is_default ac) eqn:D; cbn [negb].
  - (* nothing to restore *)
    apply ctx_is_default_eq in D. subst ac.
    exists v3, O0, x, y, default_pen, z, default_ctx. split; [|split; [exact S3|reflexivity]].
    unfold dump_ctx. reflexivity.
  - (* visit the alternate screen *)
    destruct (sim_alt_on v3 _ S3 eq_refl) as (v4 & F4 & S4).
    norm_sim S4 (mkTerm c r (buffer_new c r (Some 0%N) (Some default_pen)) B1 Alternate None x y true
                   default_pen CsAscii CsAscii 0 tb false false true false false z 0 (r - 1)
                   default_ctx pc d0 false).
    match type of S4 with Sim _ ?E =>
      destruct (pure_ctx E ac eq_refl eq_refl eq_refl eq_refl eq_refl Hpen) as (x5 & y5 & z5 & p5 & P5) end.
    norm_res P5 (mkTerm c r (buffer_new c r (Some 0%N) (Some default_pen)) B1 Alternate None x5 y5 true
                   p5 CsAscii CsAscii 0 tb false false true false false z5 0 (r - 1)
                   (clamp_ctx ac c r) pc d0 false).
    destruct (sim_emits _ _ v4 _ _ (emits_ctx ac Hpen ltac:(lia) ltac:(lia)) S4 P5) as (v5 & F5 & S5).
    destruct (sim_alt_off v5 _ S5 eq_refl Hbc Hbr) as (v6 & F6 & S6).
    assert (Ecl : clamp_ctx pc c r = pc) by (apply clamp_id; lia).
    norm_sim S6 (mkTerm c r B1 (buffer_new c r (Some 0%N) (Some default_pen)) Primary None x5 y5 true
                   p5 CsAscii CsAscii 0 tb false false true false false z5 0 (r - 1)
                   (clamp_ctx pc c r) (clamp_ctx ac c r) d0 false).
    rewrite Ecl in S6.
    exists v6, (buffer_new c r (Some 0%N) (Some default_pen)), x5, y5, p5, z5, (clamp_ctx ac c r).
    split; [|split; [exact S6|apply clamp_clamp]].
    apply (sim_app _ _ _ v4 _ F4). apply (sim_app _ _ _ v5 _ F5). exact F6.
Qed.
Print Assumptions sim_mid_primary.

(** * the original is on the alternate screen *)

Theorem sim_mid_alternate c r v3 B1 O0 x y z tb pc ac d0 AB s4 :
  1 <= c -> 1 <= r -> (N.of_nat c <= 65534)%N -> (N.of_nat r <= 65535)%N ->
  sc_col ac < c -> sc_row ac < r -> pen_wf (sc_pen ac) ->
  BGeom AB -> bcols AB = c -> brows AB = r ->
  printable_view (view AB) -> lines_wf (view AB) -> last_not_wrapped (view AB) ->
  buf_dump AB = Ok s4 ->
  Sim v3 (mkTerm c r B1 O0 Primary None x y true default_pen CsAscii CsAscii 0 tb
                 false false true false false z 0 (r - 1) pc default_ctx d0 false) ->
  exists v6 B2 x' y' pn z',
    feed_chars v3
      ((if true || negb (ctx_is_default ac) then CSI :: str "?1047h" else [])
       ++ (CSI :: str "1;1H" ++ s4) ++ dump_ctx ac
       ++ (if negb true && negb (ctx_is_default ac) then CSI :: str "?1047l" else [])) = Ok v6
    /\ Sim v6 (mkTerm c r B2 B1 Alternate None x' y' true pn CsAscii CsAscii 0 tb
                      false false true false false z' 0 (r - 1) ac pc d0 false)
    /\ view B2 = view AB /\ bcols B2 = c /\ brows B2 = r.
Proof.
  intros Hc Hr Hc2 Hr2 Ha1 Ha2 Hpen HG Hbc Hbr Hpv Hwf Hlnw D S3.
  cbn [orb negb andb]. rewrite app_nil_r.
  destruct (sim_alt_on v3 _ S3 eq_refl) as (v4 & F4 & S4).
  norm_sim S4 (mkTerm c r (buffer_new c r (Some 0%N) (Some default_pen)) B1 Alternate None x y true
                 default_pen CsAscii CsAscii 0 tb false false true false false z 0 (r - 1)
                 default_ctx pc d0 false).
  (* CSI 1;1 H *)
  assert (P4 : foldM execute [Cup 1 1]
                 (mkTerm c r (buffer_new c r (Some 0%N) (Some default_pen)) B1 Alternate None x y true
                    default_pen CsAscii CsAscii 0 tb false false true false false z 0 (r - 1)
                    default_ctx pc d0 false)
               = Ok (mkTerm c r (buffer_new c r (Some 0%N) (Some default_pen)) B1 Alternate None 0 0 true
                    default_pen CsAscii CsAscii 0 tb false false true false false false 0 (r - 1)
                    default_ctx pc d0 false)).
  { rewrite foldM_one. change (Cup 1 1) with (Cup (N.of_nat (0 + 1)) (N.of_nat (0 + 1))).
    rewrite x_cup. reflexivity. }
  destruct (sim_emits _ _ v4 _ _ emits_cup_home S4 P4) as (v4' & F4' & S4').
  (* the alternate view *)
  destruct (sim_bufdump AB s4 v4' _ S4' HG ltac:(rewrite Hbc; lia) Hpv Hwf Hlnw)
    as (v4'' & B2 & x2 & y2 & z2 & p2 & F4'' & S4'' & V2 & G1 & G2 & _);
    try reflexivity; try (symmetry; assumption); try exact D.
  { rsimp. apply view_buffer_new. }
  norm_sim S4'' (mkTerm c r B2 B1 Alternate None x2 y2 true
                 p2 CsAscii CsAscii 0 tb false false true false false z2 0 (r - 1)
                 default_ctx pc d0 false).
  (* the alternate saved context *)
  match type of S4'' with Sim _ ?E =>
    destruct (pure_ctx E ac eq_refl eq_refl eq_refl eq_refl eq_refl Hpen) as (x5 & y5 & z5 & p5 & P5) end.
  assert (Ecl : clamp_ctx ac c r = ac) by (apply clamp_id; lia).
  norm_res P5 (mkTerm c r B2 B1 Alternate None x5 y5 true
                 p5 CsAscii CsAscii 0 tb false false true false false z5 0 (r - 1)
                 (clamp_ctx ac c r) pc d0 false).
  rewrite Ecl in P5.
  destruct (sim_emits _ _ v4'' _ _ (emits_ctx ac Hpen ltac:(lia) ltac:(lia)) S4'' P5) as (v5 & F5 & S5).
  exists v5, B2, x5, y5, p5, z5.
  split; [|split; [exact S5|split; [exact V2|split; [rewrite G1; exact Hbc|rewrite G2; exact Hbr]]]].
  apply (sim_app _ _ _ v4 _ F4). apply (sim_app _ _ _ v4'' _); [|exact F5].
  change (CSI :: str "1;1H" ++ s4) with ([155; 49; 59; 49; 72]%N ++ s4).
  exact (sim_app _ _ _ v4' _ F4' F4'').
Qed.
Print Assumptions sim_mid_alternate.
