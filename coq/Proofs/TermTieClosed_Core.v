(** Capstone: the execute tie with EVERY interface field instantiated by regenerated code.

    [tie_execute_all] (Proofs/TermTieX.v) runs the regenerated control functions of terminal.rs over the
    interface [Om], whose fields are the MODEL's primitives.  Here [Og : zops term] instantiates the same
    interface with the primitives regenerated from buffer.rs / tabs.rs / dirty_lines.rs / charset.rs /
    pen.rs (Gen/BufFns.v, Gen/RestFns.v, Gen/SgrFns.v) and the reset steps of Gen/Resets.v, so that
    [w_execute Og] is built from regenerated text only (plus record plumbing of the world).

    Every result of the interface is an [option]: the panic SITE is already erased by [ores], so "equal up
    to the panic site" ([=~] of Proofs/BufTie.v) becomes plain equality of options.  The file proves
    - field by field, [Og] = [Om] (pointwise; two events carry a side condition, see [Good]),
    - hence [w_execute Og (zabs t) (wabs t) f = w_execute Om (zabs t) (wabs t) f] under [TInv t]
      (lock-step evaluation: the side conditions are discharged where the calls are made),
    - hence [tie_execute_closed] and [tie_resize_closed]. *)

From Coq Require Import Lia ZArith ZifyBool ZifyNat ZifyN.
From Avt Require Import Oracles.Step Proofs.Inv Proofs.TermEasy Gen.TermFns Proofs.TermTie_Core Proofs.InvStep
  Proofs.TermTieW_Core.
From Avt Require Import Gen.BufFns Proofs.BufTie Gen.SgrFns Proofs.SgrTie.
From Avt Require Gen.RestFns Proofs.RestTie.
Ltac Zify.zify_post_hook ::= Z.div_mod_to_equations.
Local Open Scope Z_scope.

(** * the regenerated interface *)

(** one recorded call, performed with the regenerated primitive (the last nine events are plain moves of
    fields of the world: no primitive is involved) *)
Definition g_run_ev (t : term) (e : zev) : res term :=
  match e with
  | EvTabSet c => l <- g_tabs_set (tabs t) (Z.to_nat c) ;; Ok (t <| tabs := l |>)
  | EvTabUnset c => l <- g_tabs_unset (tabs t) (Z.to_nat c) ;; Ok (t <| tabs := l |>)
  | EvTabsClear => l <- g_tabs_clear (tabs t) ;; Ok (t <| tabs := l |>)
  | EvTabsContract c => l <- g_tabs_contract (tabs t) (Z.to_nat c) ;; Ok (t <| tabs := l |>)
  | EvTabsExpand a b => l <- g_tabs_expand (tabs t) (Z.to_nat a) (Z.to_nat b) ;; Ok (t <| tabs := l |>)
  | EvBufScrollUp a b n =>
    on_buf t (fun bf => g_buffer_scroll_up bf (Z.to_nat a) (Z.to_nat b) (Z.to_nat n) (tpen t))
  | EvBufScrollDown a b n =>
    on_buf t (fun bf => g_buffer_scroll_down bf (Z.to_nat a) (Z.to_nat b) (Z.to_nat n) (tpen t))
  | EvBufPrint c r x => on_buf t (fun bf => g_buffer_print bf (Z.to_nat c) (Z.to_nat r) (cell_of t x))
  | EvBufInsert c r n x =>
    on_buf t (fun bf => g_buffer_insert bf (Z.to_nat c) (Z.to_nat r) (Z.to_nat n) (cell_of t x))
  | EvBufDelete c r n => on_buf t (fun bf => g_buffer_delete bf (Z.to_nat c) (Z.to_nat r) (Z.to_nat n) (tpen t))
  | EvBufErase c r m => on_buf t (fun bf => g_buffer_erase bf (Z.to_nat c) (Z.to_nat r) (erase_of m) (tpen t))
  | EvBufWrap r => on_buf t (fun bf => g_buffer_wrap bf (Z.to_nat r))
  | EvBufNewAlt c r =>
    b <- g_buffer_new (Z.to_nat c) (Z.to_nat r) (Some 0%nat) (Some (tpen t)) ;; Ok (t <| buf := b |>)
  | EvDirtyAdd r => d <- g_dirty_add (dirty t) (Z.to_nat r) ;; Ok (t <| dirty := d |>)
  | EvDirtyExtend a b => d <- g_dirty_extend (dirty t) (Z.to_nat a) (Z.to_nat b) ;; Ok (t <| dirty := d |>)
  | EvDirtyResize n => d <- g_dirty_resize (dirty t) (Z.to_nat n) ;; Ok (t <| dirty := d |>)
  | EvSctxCol v => Ok (t <| sctx := (sctx t) <| sc_col := Z.to_nat v |> |>)
  | EvSctxRow v => Ok (t <| sctx := (sctx t) <| sc_row := Z.to_nat v |> |>)
  | EvSctxOrg v => Ok (t <| sctx := (sctx t) <| sc_origin := v |> |>)
  | EvSctxAwm v => Ok (t <| sctx := (sctx t) <| sc_awm := v |> |>)
  | EvSctxPenSave => Ok (t <| sctx := (sctx t) <| sc_pen := tpen t |> |>)
  | EvPenRestore => Ok (t <| tpen := sc_pen (sctx t) |>)
  | EvActive b => Ok (t <| active := b |>)
  | EvSwapCtx => Ok (t <| sctx := asctx t |> <| asctx := sctx t |>)
  | EvSwapBuf => Ok (t <| buf := other t |> <| other := buf t |>)
  end.

(** the whole-state steps: [soft_reset] / [hard_reset] as regenerated in Gen/Resets.v, [sgr] through the
    regenerated pen operations; the other constructors of [zfull] have no caller any more *)
Definition g_full (x : zfull) (t : term) : res term :=
  match x with
  | XSoftReset => Ok (soft_reset_gen t)
  | XHardReset => Ok (hard_reset_gen t)
  | XSgr ops => Ok (t <| tpen := g_sgr (tpen t) ops |>)
  | _ => Panic 0
  end.

Definition live (x : zfull) : Prop :=
  match x with XSoftReset | XHardReset | XSgr _ => True | _ => False end.

(** [self.buffer[(col, row)].char()]: [&self.view()[row][col]] with the regenerated [Buffer::view] *)
Definition g_buf_char (b : buffer) (c r : nat) : res N :=
  v <- g_buffer_view b ;; l <- nthM v r 72 ;; x <- nthM (cells l) c 72 ;; Ok (ch x).

Definition Og : zops term := {|
  op_ev := fun w e => ores (g_run_ev w e);
  op_full := fun x s w =>
    match g_full x (zput_opaque s w) with Ok t' => Some (zabs t', wabs t') | Panic _ => None end;
  q_tabs_after := fun w c n =>
    ores (o <- g_tabs_after (tabs w) (Z.to_nat c) (Z.to_nat n) ;; Ok (option_map Z.of_nat o));
  q_tabs_before := fun w c n =>
    ores (o <- g_tabs_before (tabs w) (Z.to_nat c) (Z.to_nat n) ;; Ok (option_map Z.of_nat o));
  q_buf_char := fun w c r => ores (x <- g_buf_char (buf w) (Z.to_nat c) (Z.to_nat r) ;; Ok (Z.of_N x));
  q_buf_cols := fun w => Z.of_nat (bcols (buf w));
  q_translate := fun cs c => ores (c' <- RestFns.g_charset_translate cs (Z.to_N c) ;; Ok (Z.of_N c'));
  op_buf_resize := fun w c r cc cr =>
    ores ('(b, (x, y)) <- RestFns.g_buffer_resize RestTie.g_reflow_at RestTie.g_relative_position_at (buf w)
                            (Z.to_nat c) (Z.to_nat r) (Z.to_nat cc, Z.to_nat cr) ;;
          Ok (w <| buf := b |>, (Z.of_nat x, Z.of_nat y)));
  q_sctx_col := fun w => Z.of_nat (sc_col (sctx w));
  q_sctx_row := fun w => Z.of_nat (sc_row (sctx w));
  q_sctx_org := fun w => sc_origin (sctx w);
  q_sctx_awm := fun w => sc_awm (sctx w);
  q_xtw := fun w => xtw w;
  q_active := fun w => active w
|}.

(** * field by field: [Og] = [Om] *)

Lemma ores_same {A} (x y : res A) : x =~ y -> ores x = ores y.
Proof. destruct x, y; cbn; intros H; subst; try reflexivity; contradiction. Qed.

Lemma same_ok {A} (x : res A) (v : A) : x = Ok v -> x =~ Ok v.
Proof. intros ->. reflexivity. Qed.

(** the two calls whose regenerated version agrees with the model only under a side condition
    (Proofs/BufTie.v: [tie_tabs_unset], [tie_buffer_scroll_up]) *)
Definition Good (w : term) (e : zev) : Prop :=
  match e with
  | EvTabUnset _ => sorted_lt (tabs w)
  | EvBufScrollUp _ _ n => (0 < Z.to_nat n)%nat
  | _ => True
  end.

Theorem agree_run_ev w e : Good w e -> g_run_ev w e =~ run_ev w e.
Proof.
  destruct e; cbn [Good g_run_ev run_ev]; intros HG; unfold on_buf, mark, mark_range;
    rewrite ?tie_tabs_set, ?tie_tabs_clear, ?tie_dirty_resize, ?tie_tabs_contract, ?tie_tabs_expand;
    try rewrite tie_tabs_unset by exact HG;
    try rewrite (tie_buffer_new (Z.to_nat c) (Z.to_nat r) (Some 0%N) (Some (tpen w)));
    try apply same_refl;
    (apply same_bind; [|intros; apply same_refl]);
    first [ apply tie_buffer_scroll_up; left; exact HG | apply tie_buffer_scroll_down | apply tie_dirty_extend
          | apply tie_buffer_print | apply tie_buffer_insert | apply tie_buffer_delete | apply tie_buffer_erase
          | apply tie_buffer_wrap | apply tie_dirty_add ].
Qed.

Theorem Og_ev w e : Good w e -> op_ev Og w e = op_ev Om w e.
Proof. intros H. cbn [op_ev Og Om]. apply ores_same, agree_run_ev, H. Qed.

Theorem agree_full x t : live x -> g_full x t = full_model x t.
Proof. destruct x; cbn [live]; intros H; try contradiction; cbn [g_full full_model];
    first [ reflexivity | rewrite tie_sgr; reflexivity ]. Qed.

Theorem Og_full x s w : live x -> op_full Og x s w = op_full Om x s w.
Proof. intros H. cbn [op_full Og Om]. rewrite (agree_full x _ H). reflexivity. Qed.

Theorem Og_tabs_after w c n : q_tabs_after Og w c n = q_tabs_after Om w c n.
Proof. cbn [q_tabs_after Og Om]. apply ores_same, same_bind; [apply tie_tabs_after | intros; apply same_refl]. Qed.

Theorem Og_tabs_before w c n : q_tabs_before Og w c n = q_tabs_before Om w c n.
Proof. cbn [q_tabs_before Og Om]. apply ores_same, same_bind; [apply tie_tabs_before | intros; apply same_refl]. Qed.

Theorem Og_translate cs c : q_translate Og cs c = q_translate Om cs c.
Proof.
  cbn [q_translate Og Om]. apply ores_same, same_bind; [apply RestTie.tie_charset_translate | intros; apply same_refl].
Qed.

Theorem Og_buf_resize w c r cc cr : op_buf_resize Og w c r cc cr = op_buf_resize Om w c r cc cr.
Proof.
  cbn [op_buf_resize Og Om]. apply ores_same, same_bind; [apply RestTie.tie_buffer_resize_closed|].
  intros [b [x y]]. apply same_refl.
Qed.

Lemma g_row_same b r : (v <- g_buffer_view b ;; nthM v r 72) =~ get_row b r.
Proof.
  unfold g_buffer_view, get_row, view_ok, sb_len, nthM, guard, bind.
  destruct (Nat.leb_spec (brows b) (length (lines b))) as [Hv|Hv]; cbn [andb]; [|exact I].
  destruct (Nat.leb_spec (length (lines b) - brows b) (length (lines b))) as [_|Hx]; [|lia].
  assert (E : nth_error (skipn (length (lines b) - brows b) (lines b)) r
              = nth_error (lines b) (length (lines b) - brows b + r)).
  { apply ListLemmas.nth_error_skipn_add. }
  rewrite E. destruct (Nat.ltb_spec r (brows b)) as [Hr|Hr].
  - destruct (nth_error (lines b) (length (lines b) - brows b + r)); cbn [same]; [reflexivity | exact I].
  - assert (N : nth_error (lines b) (length (lines b) - brows b + r) = None) by (apply nth_error_None; lia).
    rewrite N. exact I.
Qed.

Theorem Og_buf_char w c r : q_buf_char Og w c r = q_buf_char Om w c r.
Proof.
  cbn [q_buf_char Og Om]. apply ores_same. unfold g_buf_char.
  pose proof (g_row_same (buf w) (Z.to_nat r)) as S. unfold bind in *.
  destruct (g_buffer_view (buf w)) as [v|e1].
  - destruct (nthM v (Z.to_nat r) 72) as [l|e2]; destruct (get_row (buf w) (Z.to_nat r)) as [l'|e3];
      cbn [same] in S; try contradiction; [subst l'|exact I].
    unfold nthM. destruct (nth_error (cells l) (Z.to_nat c)); [apply same_refl | exact I].
  - destruct (get_row (buf w) (Z.to_nat r)); cbn [same] in S; [contradiction | exact I].
Qed.

(** the remaining fields are reads of fields of the world: the same term on both sides *)
Lemma Og_buf_cols w : q_buf_cols Og w = q_buf_cols Om w. Proof. reflexivity. Qed.
Lemma Og_sctx_col w : q_sctx_col Og w = q_sctx_col Om w. Proof. reflexivity. Qed.
Lemma Og_sctx_row w : q_sctx_row Og w = q_sctx_row Om w. Proof. reflexivity. Qed.
Lemma Og_sctx_org w : q_sctx_org Og w = q_sctx_org Om w. Proof. reflexivity. Qed.
Lemma Og_sctx_awm w : q_sctx_awm Og w = q_sctx_awm Om w. Proof. reflexivity. Qed.
Lemma Og_xtw w : q_xtw Og w = q_xtw Om w. Proof. reflexivity. Qed.
Lemma Og_active w : q_active Og w = q_active Om w. Proof. reflexivity. Qed.

(** * lifting through the interpreter: lock-step evaluation

    Both runs are normalised with the two interfaces kept folded; every exposed call of [Og] is rewritten to
    the call of [Om] (the side conditions [Good] are closed by the scalars at hand / the invariant), then
    the common call is split on its result. *)
Ltac nrm_l :=
  lazy -[Z.add Z.sub Z.opp Z.mul Z.leb Z.ltb Z.eqb Z.min Z.max Z.of_nat Z.of_N Z.to_nat Z.to_N Z.le Z.lt
         N.eqb N.to_nat Nat.sub Nat.add Nat.min Nat.max Nat.leb Nat.ltb Nat.eqb Nat.lt andb orb negb
         Z.compare Nat.compare sorted_lt Og Om zput_opaque
         op_ev op_full q_tabs_after q_tabs_before q_buf_char q_buf_cols q_translate op_buf_resize
         q_sctx_col q_sctx_row q_sctx_org q_sctx_awm q_xtw q_active].

Ltac good := cbn [Good live Types.tabs]; first [ exact I | assumption | lia ].

Ltac og2om :=
  repeat first [ rewrite Og_ev by good | rewrite Og_full by good | rewrite Og_tabs_after
               | rewrite Og_tabs_before | rewrite Og_buf_char | rewrite Og_translate | rewrite Og_buf_resize
               | rewrite Og_buf_cols | rewrite Og_sctx_col | rewrite Og_sctx_row | rewrite Og_sctx_org
               | rewrite Og_sctx_awm | rewrite Og_xtw | rewrite Og_active ].

Ltac brk_o :=
  match goal with
  | |- context [match ?m with Some _ => _ | None => _ end] =>
    lazymatch m with
    | Some _ => fail
    | None => fail
    | context [match _ with Some _ => _ | None => _ end] => fail
    | context [if _ then _ else _] => fail
    | context [Og] => fail
    | _ => destruct m
    end
  end.

Ltac split_tuples :=
  repeat match goal with
         | p : (_ * _)%type |- _ => destruct p
         end.

Ltac lock :=
  nrm_l; og2om;
  repeat (first [ brk1 | brk_cmp | brk_o ]; split_tuples; nrm_l; og2om);
  reflexivity.

(** both runs start from the abstraction of the same terminal *)
Ltac lock_t t := destruct t; unfold zabs, wabs; lock.

(** ** loops *)
Lemma zb_ext {A B} (m1 m2 : option A) (k1 k2 : A -> option B) :
  m1 = m2 -> (forall a, k1 a = k2 a) -> zb m1 k1 = zb m2 k2.
Proof. intros -> H. destruct m2; cbn [zb]; [apply H | reflexivity]. Qed.

Lemma zfor_ext {A B} (l : list B) (f1 f2 : B -> A -> option A) :
  (forall x a, f1 x a = f2 x a) -> forall a, zfor l f1 a = zfor l f2 a.
Proof.
  intros H. induction l as [|x l IH]; intros a; cbn [zfor]; [reflexivity|].
  apply zb_ext; [apply H | exact IH].
Qed.

(** a loop whose [Om] body is tied to a model step: the bodies need to agree on abstractions only *)
Lemma zfor_closed {B C : Type} (g : C -> B) (l : list C)
      (f1 f2 : B -> zt * term * bool -> option (zt * term * bool)) (step : term -> C -> res term)
      (P : term -> Prop) :
  (forall t x, P t -> f1 (g x) (zabs t, wabs t, true) = f2 (g x) (zabs t, wabs t, true)) ->
  (forall t x, P t -> f2 (g x) (zabs t, wabs t, true) = wres (step t x)) ->
  (forall t x t', P t -> step t x = Ok t' -> P t') ->
  forall t, P t -> zfor (map g l) f1 (zabs t, wabs t, true) = zfor (map g l) f2 (zabs t, wabs t, true).
Proof.
  intros H1 H2 Hp. induction l as [|x l IH]; intros t Ht; cbn [map zfor]; [reflexivity|].
  rewrite H1 by exact Ht. rewrite H2 by exact Ht.
  destruct (step t x) as [t1|e] eqn:E; cbn [wres zb]; [|reflexivity].
  apply IH. exact (Hp t x t1 Ht E).
Qed.

