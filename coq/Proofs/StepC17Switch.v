(** C17 (separate saved cursor contexts): DECSET / DECRST of modes other than the two save-cursor
    ones (1048 / 1049) keep the saved context of EACH screen, up to the clamp into the current
    size that [reflow] performs on the (now) active one.  [holds_C17_switch] holds for every
    model step. *)

From Coq Require Import Lia ZArith ZifyBool ZifyNat ZifyN String.
From Avt Require Import Oracles.Step Proofs.Inv Proofs.TermEasy Proofs.VisEq Proofs.Frames
  Proofs.Resize Proofs.StepC17.
Ltac Zify.zify_post_hook ::= Z.div_mod_to_equations.

(** * the clamp is idempotent *)
Lemma clamp_idem s c r : clamp_ctx (clamp_ctx s c r) c r = clamp_ctx s c r.
Proof.
  destruct s as [sc sr sp so sa]. unfold clamp_ctx, set. cbn -[Nat.min Nat.sub].
  f_equal; lia.
Qed.

(** * the relation kept by every non-save mode change *)
Definition SwRel (t t' : term) : Prop :=
  cols t' = cols t /\ rows t' = rows t
  /\ forall s, clamp_ctx (saved_of t' s) (cols t) (rows t) = clamp_ctx (saved_of t s) (cols t) (rows t).

Lemma SwRel_refl t : SwRel t t.
Proof. repeat split. Qed.

Lemma SwRel_trans t1 t2 t3 : SwRel t1 t2 -> SwRel t2 t3 -> SwRel t1 t3.
Proof.
  intros (C12 & R12 & S12) (C23 & R23 & S23). rewrite C12, R12 in *.
  split; [congruence|]. split; [congruence|]. intros s. rewrite S23. apply S12.
Qed.

Lemma SwRel_same t t' :
  cols t' = cols t -> rows t' = rows t -> sctx t' = sctx t -> asctx t' = asctx t ->
  active t' = active t -> SwRel t t'.
Proof.
  intros Hc Hr Hs Ha Hact. repeat split; try assumption. intros s.
  unfold saved_of. rewrite Hs, Ha, Hact. reflexivity.
Qed.

(** [reflow] after a (possible) swap *)
Lemma SwRel_reflow t1 t' :
  reflow t1 = Ok t' ->
  cols t' = cols t1 /\ rows t' = rows t1 /\ active t' = active t1 /\ asctx t' = asctx t1
  /\ sctx t' = clamp_ctx (sctx t1) (cols t1) (rows t1).
Proof.
  intros H. apply reflow_inv in H as (b & c & r & d & _ & ->).
  destruct (reflowed_fields t1 b c r d) as (F1 & _ & F3 & F4 & F5 & _).
  rewrite reflowed_sctx. repeat split; assumption.
Qed.

Lemma SwRel_reflow_same t t' : reflow t = Ok t' -> SwRel t t'.
Proof.
  intros H. destruct (SwRel_reflow _ _ H) as (Hc & Hr & Hact & Ha & Hs).
  repeat split; try assumption. intros s. unfold saved_of. rewrite Hact, Ha, Hs.
  destruct (btype_eqb (active t) s); [apply clamp_idem|reflexivity].
Qed.

Lemma SwRel_to_alt t d : active t = Primary -> SwRel t (to_alt t d).
Proof.
  intros Ea. destruct (to_alt_fields t d) as (T1 & T2 & T3 & _ & _ & T6 & T7 & _).
  repeat split; try assumption. intros s. unfold saved_of. rewrite T1, T2, T3, Ea.
  destruct s; reflexivity.
Qed.

Lemma SwRel_to_prim t d : active t = Alternate -> SwRel t (to_prim t d).
Proof.
  intros Ea. destruct (to_prim_fields t d) as (T1 & T2 & T3 & _ & _ & T6 & T7 & _).
  repeat split; try assumption. intros s. unfold saved_of. rewrite T1, T2, T3, Ea.
  destruct s; reflexivity.
Qed.

Lemma SwRel_switch_alt t t1 : switch_to_alternate_buffer t = Ok t1 -> SwRel t t1.
Proof.
  intros H. apply switch_alt_inv in H as [[_ ->]|[Ea [d ->]]];
    [apply SwRel_refl|apply SwRel_to_alt; exact Ea].
Qed.

Lemma SwRel_switch_prim t t1 : switch_to_primary_buffer t = Ok t1 -> SwRel t t1.
Proof.
  intros H. apply switch_prim_inv in H as [[_ ->]|[Ea [d ->]]];
    [apply SwRel_refl|apply SwRel_to_prim; exact Ea].
Qed.

Lemma SwRel_home t : SwRel t (move_cursor_home t).
Proof.
  pose proof (tfr_cfr _ _ (cfr_home t)) as F.
  apply SwRel_same;
    [exact (tfr_cols _ _ F)|exact (tfr_rows _ _ F)|exact (tfr_sctx _ _ F)
    |exact (tfr_asctx _ _ F)|exact (tfr_active _ _ F)].
Qed.

Definition not_save (m : dec_mode) : bool :=
  match m with SaveCursor | SaveCursorAltScreenBuffer => false | _ => true end.

(** * one mode (no invariant is needed) *)
Lemma decset_one_SwRel t m t' : not_save m = true -> decset_one t m = Ok t' -> SwRel t t'.
Proof.
  intros Hm H. destruct m; try discriminate Hm.
  - cbn [decset_one] in H. apply Ok_inj in H as <-. apply SwRel_same; destruct t; reflexivity.
  - cbn [decset_one] in H. apply Ok_inj in H as <-.
    eapply SwRel_trans; [|apply SwRel_home]. apply SwRel_same; destruct t; reflexivity.
  - cbn [decset_one] in H. apply Ok_inj in H as <-. apply SwRel_same; destruct t; reflexivity.
  - cbn [decset_one] in H. apply Ok_inj in H as <-. apply SwRel_same; destruct t; reflexivity.
  - rewrite decset_asb_eq in H. apply bind_ok in H as (t1 & H1 & H).
    exact (SwRel_trans _ _ _ (SwRel_switch_alt _ _ H1) (SwRel_reflow_same _ _ H)).
Qed.

Lemma decrst_one_SwRel t m t' : not_save m = true -> decrst_one t m = Ok t' -> SwRel t t'.
Proof.
  intros Hm H. destruct m; try discriminate Hm.
  - cbn [decrst_one] in H. apply Ok_inj in H as <-. apply SwRel_same; destruct t; reflexivity.
  - cbn [decrst_one] in H. apply Ok_inj in H as <-.
    eapply SwRel_trans; [|apply SwRel_home]. apply SwRel_same; destruct t; reflexivity.
  - cbn [decrst_one] in H. apply Ok_inj in H as <-. apply SwRel_same; destruct t; reflexivity.
  - cbn [decrst_one] in H. apply Ok_inj in H as <-. apply SwRel_same; destruct t; reflexivity.
  - rewrite decrst_asb_eq in H. apply bind_ok in H as (t1 & H1 & H).
    exact (SwRel_trans _ _ _ (SwRel_switch_prim _ _ H1) (SwRel_reflow_same _ _ H)).
Qed.

(** * the list of modes *)
Lemma decset_SwRel ms : forall t t',
  no_save_modes ms = true -> execute t (Decset ms) = Ok t' -> SwRel t t'.
Proof.
  induction ms as [|m ms IH]; intros t t' Hn H.
  - rewrite exec_decset_nil in H. apply Ok_inj in H as <-. apply SwRel_refl.
  - rewrite exec_decset_cons in H. apply bind_ok in H as (t1 & H1 & H).
    unfold no_save_modes in Hn. cbn [forallb] in Hn. apply andb_prop in Hn as [Hm Hn].
    exact (SwRel_trans _ _ _ (decset_one_SwRel _ _ _ Hm H1) (IH _ _ Hn H)).
Qed.

Lemma decrst_SwRel ms : forall t t',
  no_save_modes ms = true -> execute t (Decrst ms) = Ok t' -> SwRel t t'.
Proof.
  induction ms as [|m ms IH]; intros t t' Hn H.
  - rewrite exec_decrst_nil in H. apply Ok_inj in H as <-. apply SwRel_refl.
  - rewrite exec_decrst_cons in H. apply bind_ok in H as (t1 & H1 & H).
    unfold no_save_modes in Hn. cbn [forallb] in Hn. apply andb_prop in Hn as [Hm Hn].
    exact (SwRel_trans _ _ _ (decrst_one_SwRel _ _ _ Hm H1) (IH _ _ Hn H)).
Qed.

Lemma SwRel_holds t t' :
  SwRel t t' ->
  forallb (fun s => ctx_eqb (clamp_ctx (saved_of t' s) (cols t') (rows t'))
                            (clamp_ctx (saved_of t s) (cols t') (rows t')))
          [Primary; Alternate] = true.
Proof.
  intros (Hc & Hr & Hs). rewrite Hc, Hr. cbn [forallb]. rewrite !Hs, !ctx_eqb_refl. reflexivity.
Qed.

(** the statement as a proposition, without any invariant: geometry unchanged, and both saved
    contexts agree after the clamp into it *)
Theorem C17_switch_rel : forall t f t',
  execute t f = Ok t' ->
  match f with
  | Decset ms | Decrst ms =>
    no_save_modes ms = true ->
    cols t' = cols t /\ rows t' = rows t
    /\ forall s, clamp_ctx (saved_of t' s) (cols t) (rows t) = clamp_ctx (saved_of t s) (cols t) (rows t)
  | _ => True
  end.
Proof.
  intros t f t' H. destruct f; try exact I; intros Hn.
  - exact (decrst_SwRel _ _ _ Hn H).
  - exact (decset_SwRel _ _ _ Hn H).
Qed.

Print Assumptions C17_switch_rel.

Theorem C17_switch_holds : forall p p' t f t',
  TInv t -> execute t f = Ok t' -> holds_C17_switch (mkVt p t) f (mkVt p' t') = true.
Proof.
  intros p p' t f t' _ H. unfold holds_C17_switch. cbn [vterm].
  destruct f; try reflexivity.
  - destruct (no_save_modes ms) eqn:Hn; [|reflexivity].
    exact (SwRel_holds _ _ (decrst_SwRel _ _ _ Hn H)).
  - destruct (no_save_modes ms) eqn:Hn; [|reflexivity].
    exact (SwRel_holds _ _ (decset_SwRel _ _ _ Hn H)).
Qed.

Print Assumptions C17_switch_holds.

(** * non-vacuity: a reachable state whose alternate screen holds a non-default saved context
      while the primary is shown; showing the alternate screen again brings that context back
      (a swap), and a model that dropped it (a [take]) would be rejected by the statement *)
Local Open Scope string_scope.
Definition sw_input : list N :=
  (27%N :: str "[?47h") ++ str "x" ++ (27%N :: str "[?1048h") ++ (27%N :: str "[?47l").

Example C17_switch_nonvacuous :
  match feed_str (vt_new 10 6 None) sw_input with
  | Ok (v, _) =>
    match execute (vterm v) (Decset [AltScreenBuffer]) with
    | Ok t' =>
      holds_C17_switch v (Decset [AltScreenBuffer]) (mkVt (vparser v) t') = true
      /\ active (vterm v) = Primary /\ active t' = Alternate
      /\ saved_of t' Alternate = saved_of (vterm v) Alternate
      /\ sc_col (saved_of t' Alternate) = 1 /\ sc_row (saved_of t' Alternate) = 0
      /\ ctx_eqb (saved_of t' Alternate) default_ctx = false
      /\ ctx_eqb (saved_of t' Primary) default_ctx = true
      (* the alternate context replaced by the default one: rejected *)
      /\ holds_C17_switch v (Decset [AltScreenBuffer])
           (mkVt (vparser v) (t' <| sctx := default_ctx |>)) = false
    | Panic _ => False
    end
  | Panic _ => False
  end.
Proof. vm_compute. repeat split. Qed.
