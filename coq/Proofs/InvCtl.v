(** C01 / C02, part 1: the monadic glue ([on_buf], [mark], [mark_range]) and every control
    function of Model/Terminal.v that neither switches buffers nor resizes keeps [TInv]
    (and never panics under it); each lemma also carries [LimP] (the scrollback-limit
    invariant of both buffers is kept, for C13). *)

From Avt Require Import Model.Prims Model.Terminal Spec.Screen Proofs.Inv Proofs.ListLemmasS
  Proofs.BufRow Proofs.BufScroll Proofs.Tabs Proofs.TermEasy Proofs.InvLemmas.
From Avt Require Import Gen.Consts.
Require Import Lia ZArith ZifyBool ZifyNat ZifyN.
Ltac Zify.zify_post_hook ::= Z.div_mod_to_equations.

Ltac tfacts H :=
  pose proof (ti_cols _ H) as Hcols; pose proof (ti_rows _ H) as Hrows;
  pose proof (ti_row _ H) as Hrow; pose proof (ti_col _ H) as Hcol;
  pose proof (ti_margins _ H) as Hmar; pose proof (ti_pend _ H) as Hpend;
  pose proof (ti_bcols _ H) as Hbc; pose proof (ti_brows _ H) as Hbr;
  pose proof (ti_dirty _ H) as Hdirty.

(** a state transformer that leaves both buffers, the geometry and the non-cursor
    components alone keeps [TInv] as soon as the scalar clauses hold again *)
Lemma TInv_scalar t t' :
  TInv t ->
  cols t' = cols t -> rows t' = rows t -> buf t' = buf t -> other t' = other t ->
  active t' = active t -> sb_limit t' = sb_limit t -> dirty t' = dirty t -> xtw t' = xtw t ->
  asctx t' = asctx t ->
  cur_row t' < rows t -> cur_col t' <= cols t -> (pend t' = true <-> cur_col t' = cols t) ->
  (top t' <= bot t' /\ bot t' < rows t) -> acs t' <= 1 -> TabsInv (cols t) (tabs t') ->
  CtxInv (cols t) (rows t) (sctx t') ->
  TInv t' /\ LimP t t'.
Proof.
  intros H Ec Er Eb Eo Ea El Ed Ex Eas Hrow Hcol Hpend Hmar Hacs Htabs Hctx.
  split; [|apply LimP_same; assumption].
  destruct H. constructor; rewrite ?Ec, ?Er, ?Eb, ?Eo, ?Ea, ?El, ?Ed, ?Ex, ?Eas; assumption.
Qed.

(** ** glue *)

Lemma TInv_set_buf t b' :
  TInv t -> BFrame (buf t) b' -> TInv (t <| buf := b' |>) /\ LimP t (t <| buf := b' |>).
Proof.
  intros H (I & C & R & L & P). split.
  - destruct H. constructor; cbn; try assumption; try congruence.
    destruct (active t); rewrite L; assumption.
  - intros [A B]. split; cbn; auto.
Qed.

Lemma TInv_set_dirty t d :
  TInv t -> length d = rows t -> TInv (t <| dirty := d |>) /\ LimP t (t <| dirty := d |>).
Proof.
  intros H L. split.
  - destruct H. constructor; cbn; assumption.
  - apply LimP_same; reflexivity.
Qed.

Theorem on_buf_TInv t f :
  TInv t -> (exists b', f (buf t) = Ok b' /\ BFrame (buf t) b') ->
  exists b', on_buf t f = Ok (t <| buf := b' |>)
             /\ TInv (t <| buf := b' |>) /\ LimP t (t <| buf := b' |>).
Proof.
  intros H (b' & E & F). exists b'. unfold on_buf. rewrite E. cbn [bind].
  split; [reflexivity|]. apply TInv_set_buf; assumption.
Qed.

Theorem mark_TInv t n :
  TInv t -> n < rows t ->
  exists d, mark t n = Ok (t <| dirty := d |>) /\ length d = length (dirty t)
            /\ TInv (t <| dirty := d |>) /\ LimP t (t <| dirty := d |>).
Proof.
  intros H Hn. tfacts H. unfold mark, dirty_add.
  destruct (Nat.ltb_spec n (length (dirty t))); [|lia]. cbn [bind].
  eexists; split; [reflexivity|]. split; [apply upd_length|].
  apply TInv_set_dirty; [exact H|]. rewrite upd_length. exact Hdirty.
Qed.

Theorem mark_range_TInv t a z :
  TInv t -> a <= z -> z <= rows t ->
  exists d, mark_range t a z = Ok (t <| dirty := d |>) /\ length d = length (dirty t)
            /\ TInv (t <| dirty := d |>) /\ LimP t (t <| dirty := d |>).
Proof.
  intros H Ha Hz. tfacts H. unfold mark_range, dirty_extend.
  destruct (Nat.leb_spec a z); [|lia]. destruct (Nat.leb_spec z (length (dirty t))); [|lia].
  cbn [andb bind]. eexists; split; [reflexivity|].
  assert (L : length (fill_range a z true (dirty t)) = length (dirty t)).
  { apply ListLemmas.fill_range_length; lia. }
  split; [exact L|]. apply TInv_set_dirty; [exact H|]. rewrite L. exact Hdirty.
Qed.

(** the usual shape: edit the buffer, then mark rows dirty *)
Lemma on_buf_then_mark t f n :
  TInv t -> (exists b', f (buf t) = Ok b' /\ BFrame (buf t) b') -> n < rows t ->
  exists t', (t1 <- on_buf t f ;; mark t1 n) = Ok t' /\ TInv t' /\ LimP t t'.
Proof.
  intros H Hf Hn. destruct (on_buf_TInv t f H Hf) as (b' & E & I & P). rewrite E. cbn [bind].
  destruct (mark_TInv (t <| buf := b' |>) n I Hn) as (d & E' & _ & I' & P').
  eexists; split; [exact E'|]. split; [exact I'|]. eapply LimP_trans; eassumption.
Qed.

Lemma on_buf_then_mark_range t f a z :
  TInv t -> (exists b', f (buf t) = Ok b' /\ BFrame (buf t) b') -> a <= z -> z <= rows t ->
  exists t', (t1 <- on_buf t f ;; mark_range t1 a z) = Ok t' /\ TInv t' /\ LimP t t'.
Proof.
  intros H Hf Ha Hz. destruct (on_buf_TInv t f H Hf) as (b' & E & I & P). rewrite E. cbn [bind].
  destruct (mark_range_TInv (t <| buf := b' |>) a z I Ha Hz) as (d & E' & _ & I' & P').
  eexists; split; [exact E'|]. split; [exact I'|]. eapply LimP_trans; eassumption.
Qed.

(** ** cursor *)

Ltac scalar H := apply (TInv_scalar _ _ H); cbn; try reflexivity; try assumption; try lia.

Lemma do_move_cursor_to_col_TInv t c :
  TInv t -> c < cols t -> TInv (do_move_cursor_to_col t c) /\ LimP t (do_move_cursor_to_col t c).
Proof.
  intros H Hc. tfacts H. unfold do_move_cursor_to_col. scalar H; try apply H.
Qed.

Lemma do_move_cursor_to_row_TInv t r :
  TInv t -> r < rows t -> TInv (do_move_cursor_to_row t r) /\ LimP t (do_move_cursor_to_row t r).
Proof.
  intros H Hc. tfacts H. unfold do_move_cursor_to_row. scalar H; try apply H.
Qed.

Lemma move_cursor_to_col_TInv t c :
  TInv t -> TInv (move_cursor_to_col t c) /\ LimP t (move_cursor_to_col t c).
Proof.
  intros H. tfacts H. unfold move_cursor_to_col.
  destruct (Nat.leb_spec (cols t) c); apply do_move_cursor_to_col_TInv; try assumption; lia.
Qed.

Lemma move_cursor_to_rel_col_TInv t rel :
  TInv t -> TInv (move_cursor_to_rel_col t rel) /\ LimP t (move_cursor_to_rel_col t rel).
Proof.
  intros H. tfacts H. unfold move_cursor_to_rel_col.
  destruct (Z.ltb_spec (Z.of_nat (cur_col t) + rel) 0);
    [|destruct (Nat.leb_spec (cols t) (Z.to_nat (Z.of_nat (cur_col t) + rel)))];
    apply do_move_cursor_to_col_TInv; try assumption; lia.
Qed.

Lemma move_cursor_to_row_TInv t r :
  TInv t -> TInv (move_cursor_to_row t r) /\ LimP t (move_cursor_to_row t r).
Proof.
  intros H. tfacts H. unfold move_cursor_to_row, actual_top_margin, actual_bottom_margin.
  apply do_move_cursor_to_row_TInv; [assumption|]. destruct (org t); lia.
Qed.

Lemma move_cursor_home_TInv t :
  TInv t -> TInv (move_cursor_home t) /\ LimP t (move_cursor_home t).
Proof.
  intros H. tfacts H. unfold move_cursor_home.
  destruct (do_move_cursor_to_col_TInv t 0 H) as [I P]; [lia|].
  destruct (do_move_cursor_to_row_TInv (do_move_cursor_to_col t 0)
              (actual_top_margin (do_move_cursor_to_col t 0)) I) as [I' P'].
  { unfold actual_top_margin, do_move_cursor_to_col. cbn. destruct (org t); lia. }
  split; [exact I'|]. eapply LimP_trans; eassumption.
Qed.

Lemma cursor_down_TInv t n : TInv t -> TInv (cursor_down t n) /\ LimP t (cursor_down t n).
Proof.
  intros H. tfacts H. unfold cursor_down. apply do_move_cursor_to_row_TInv; [assumption|].
  destruct (bot t <? cur_row t); lia.
Qed.

Lemma cursor_up_TInv t n : TInv t -> TInv (cursor_up t n) /\ LimP t (cursor_up t n).
Proof.
  intros H. tfacts H. unfold cursor_up. apply do_move_cursor_to_row_TInv; [assumption|].
  destruct (cur_row t <? top t); lia.
Qed.

Lemma bs_TInv t : TInv t -> TInv (bs t) /\ LimP t (bs t).
Proof. intros H. unfold bs. destruct (pend t); apply move_cursor_to_rel_col_TInv, H. Qed.

Lemma cub_TInv t n : TInv t -> TInv (cub t n) /\ LimP t (cub t n).
Proof. intros H. unfold cub. apply move_cursor_to_rel_col_TInv, H. Qed.

Lemma cup_TInv t r c : TInv t -> TInv (cup t r c) /\ LimP t (cup t r c).
Proof.
  intros H. unfold cup. destruct (move_cursor_to_col_TInv t (as_usize c 1 - 1) H) as [I P].
  destruct (move_cursor_to_row_TInv _ (as_usize r 1 - 1) I) as [I' P'].
  split; [exact I'|]. eapply LimP_trans; eassumption.
Qed.

Lemma as_usize_ge1 n : 1 <= as_usize n 1.
Proof. unfold as_usize, as_usize_gen. destruct (N.eqb_spec n 0); lia. Qed.

Lemma move_cursor_to_next_tab_TInv t n :
  TInv t -> 1 <= n ->
  exists t', move_cursor_to_next_tab t n = Ok t' /\ TInv t' /\ LimP t t'.
Proof.
  intros H Hn. unfold move_cursor_to_next_tab.
  rewrite (tabs_after_spec _ _ _ (proj1 (ti_tabs _ H)) Hn). cbn [bind].
  eexists; split; [reflexivity|]. apply move_cursor_to_col_TInv, H.
Qed.

Lemma move_cursor_to_prev_tab_TInv t n :
  TInv t -> 1 <= n ->
  exists t', move_cursor_to_prev_tab t n = Ok t' /\ TInv t' /\ LimP t t'.
Proof.
  intros H Hn. unfold move_cursor_to_prev_tab.
  rewrite (tabs_before_spec _ _ _ (proj1 (ti_tabs _ H)) Hn). cbn [bind].
  eexists; split; [reflexivity|]. apply move_cursor_to_col_TInv, H.
Qed.

(** ** tabs *)

Lemma set_tabs_TInv t l :
  TInv t -> TabsInv (cols t) l -> TInv (t <| tabs := l |>) /\ LimP t (t <| tabs := l |>).
Proof. intros H Hl. tfacts H. scalar H; apply H. Qed.

Lemma set_tab_TInv t : TInv t -> TInv (set_tab t) /\ LimP t (set_tab t).
Proof.
  intros H. unfold set_tab.
  destruct (Nat.ltb_spec 0 (cur_col t)); destruct (Nat.ltb_spec (cur_col t) (cols t)); cbn [andb];
    try (split; [exact H|apply LimP_refl]).
  apply set_tabs_TInv; [exact H|]. apply tabs_set_inv; [apply H|lia].
Qed.

Lemma clear_tab_TInv t : TInv t -> TInv (clear_tab t) /\ LimP t (clear_tab t).
Proof.
  intros H. unfold clear_tab. apply set_tabs_TInv; [exact H|]. apply tabs_unset_inv, H.
Qed.

Lemma clear_all_tabs_TInv t : TInv t -> TInv (clear_all_tabs t) /\ LimP t (clear_all_tabs t).
Proof.
  intros H. unfold clear_all_tabs. apply set_tabs_TInv; [exact H|]. split; [exact I|constructor].
Qed.

Lemma ctc_TInv t op : TInv t -> TInv (ctc t op) /\ LimP t (ctc t op).
Proof.
  intros H. destruct op; cbn [ctc];
    [apply set_tab_TInv|apply clear_tab_TInv|apply clear_all_tabs_TInv]; exact H.
Qed.

Lemma tbc_TInv t s : TInv t -> TInv (tbc t s) /\ LimP t (tbc t s).
Proof.
  intros H. destruct s; cbn [tbc]; [apply clear_tab_TInv|apply clear_all_tabs_TInv]; exact H.
Qed.

(** ** scrolling *)

Lemma scroll_up_in_region_TInv t n :
  TInv t -> exists t', scroll_up_in_region t n = Ok t' /\ TInv t' /\ LimP t t'.
Proof.
  intros H. tfacts H. unfold scroll_up_in_region.
  apply on_buf_then_mark_range; try assumption; try lia.
  destruct (buf_scroll_up_BF (buf t) (top t) (bot t + 1) n (tpen t) (ti_buf _ H)) as (b' & E & F & _);
    try lia.
  exists b'; split; assumption.
Qed.

Lemma scroll_down_in_region_TInv t n :
  TInv t -> exists t', scroll_down_in_region t n = Ok t' /\ TInv t' /\ LimP t t'.
Proof.
  intros H. tfacts H. unfold scroll_down_in_region.
  apply on_buf_then_mark_range; try assumption; try lia.
  apply buf_scroll_down_BF; [apply H|lia|lia].
Qed.

Lemma move_cursor_down_with_scroll_TInv t :
  TInv t -> exists t', move_cursor_down_with_scroll t = Ok t' /\ TInv t' /\ LimP t t'.
Proof.
  intros H. tfacts H. unfold move_cursor_down_with_scroll.
  destruct (cur_row t =? bot t); [apply scroll_up_in_region_TInv, H|].
  destruct (Nat.ltb_spec (cur_row t) (rows t - 1)).
  - eexists; split; [reflexivity|]. apply do_move_cursor_to_row_TInv; [exact H|lia].
  - eexists; split; [reflexivity|]. split; [exact H|apply LimP_refl].
Qed.

Lemma lf_TInv t : TInv t -> exists t', lf t = Ok t' /\ TInv t' /\ LimP t t'.
Proof.
  intros H. unfold lf. destruct (move_cursor_down_with_scroll_TInv t H) as (t1 & E & I & P).
  rewrite E. cbn [bind]. eexists; split; [reflexivity|].
  destruct (nlm t1); [|split; assumption].
  destruct (do_move_cursor_to_col_TInv t1 0 I) as [I' P']; [pose proof (ti_cols _ I); lia|].
  split; [exact I'|]. eapply LimP_trans; eassumption.
Qed.

Lemma nel_TInv t : TInv t -> exists t', nel t = Ok t' /\ TInv t' /\ LimP t t'.
Proof.
  intros H. unfold nel. destruct (move_cursor_down_with_scroll_TInv t H) as (t1 & E & I & P).
  rewrite E. cbn [bind]. eexists; split; [reflexivity|].
  destruct (do_move_cursor_to_col_TInv t1 0 I) as [I' P']; [pose proof (ti_cols _ I); lia|].
  split; [exact I'|]. eapply LimP_trans; eassumption.
Qed.

Lemma ri_TInv t : TInv t -> exists t', ri t = Ok t' /\ TInv t' /\ LimP t t'.
Proof.
  intros H. tfacts H. unfold ri.
  destruct (cur_row t =? top t); [apply scroll_down_in_region_TInv, H|].
  destruct (Nat.ltb_spec 0 (cur_row t)).
  - eexists; split; [reflexivity|]. apply do_move_cursor_to_row_TInv; [exact H|lia].
  - eexists; split; [reflexivity|]. split; [exact H|apply LimP_refl].
Qed.

Lemma il_TInv t n : TInv t -> exists t', il t n = Ok t' /\ TInv t' /\ LimP t t'.
Proof.
  intros H. tfacts H. unfold il, il_dl_range.
  destruct (Nat.leb_spec (cur_row t) (bot t));
    (apply on_buf_then_mark_range; [exact H| |lia|lia]);
    (apply buf_scroll_down_BF; [apply H|lia|lia]).
Qed.

Lemma dl_TInv t n : TInv t -> exists t', dl t n = Ok t' /\ TInv t' /\ LimP t t'.
Proof.
  intros H. tfacts H. unfold dl, il_dl_range.
  destruct (Nat.leb_spec (cur_row t) (bot t)).
  - apply on_buf_then_mark_range; [exact H| |lia|lia].
    destruct (buf_scroll_up_BF (buf t) (cur_row t) (bot t + 1) (as_usize n 1) (tpen t) (ti_buf _ H))
      as (b' & E & F & _); try lia.
    exists b'; split; assumption.
  - apply on_buf_then_mark_range; [exact H| |lia|lia].
    destruct (buf_scroll_up_BF (buf t) (cur_row t) (rows t) (as_usize n 1) (tpen t) (ti_buf _ H))
      as (b' & E & F & _); try lia.
    exists b'; split; assumption.
Qed.

(** ** editing *)

Lemma ich_TInv t n : TInv t -> exists t', ich t n = Ok t' /\ TInv t' /\ LimP t t'.
Proof.
  intros H. tfacts H. unfold ich.
  destruct (on_buf_TInv t (fun b => buf_insert b (cur_col t) (cur_row t) (as_usize n 1)
                                       (blank_cell (tpen t))) H) as (b' & E & I & P).
  { apply buf_insert_BF; [apply H|lia|lia]. }
  rewrite E. cbn [bind].
  destruct (mark_TInv _ (cur_row (t <| buf := b' |>)) I) as (d & E' & _ & I' & P'); [cbn; lia|].
  eexists; split; [exact E'|]. split; [exact I'|]. eapply LimP_trans; eassumption.
Qed.

Lemma ech_TInv t n : TInv t -> exists t', ech t n = Ok t' /\ TInv t' /\ LimP t t'.
Proof.
  intros H. tfacts H. unfold ech.
  destruct (on_buf_TInv t (fun b => buf_erase b (cur_col t) (cur_row t) (NextChars (as_usize n 1))
                                       (tpen t)) H) as (b' & E & I & P).
  { apply buf_erase_BF; [apply H|lia|lia]. }
  rewrite E. cbn [bind].
  destruct (mark_TInv _ (cur_row (t <| buf := b' |>)) I) as (d & E' & _ & I' & P'); [cbn; lia|].
  eexists; split; [exact E'|]. split; [exact I'|]. eapply LimP_trans; eassumption.
Qed.

Lemma el_TInv t s : TInv t -> exists t', el t s = Ok t' /\ TInv t' /\ LimP t t'.
Proof.
  intros H. tfacts H. unfold el.
  match goal with |- context [on_buf t ?f] =>
    destruct (on_buf_TInv t f H) as (b' & E & I & P) end.
  { apply buf_erase_BF; [apply H|lia|lia]. }
  rewrite E. cbn [bind].
  destruct (mark_TInv _ (cur_row (t <| buf := b' |>)) I) as (d & E' & _ & I' & P'); [cbn; lia|].
  eexists; split; [exact E'|]. split; [exact I'|]. eapply LimP_trans; eassumption.
Qed.

Lemma ed_TInv t s : TInv t -> exists t', ed t s = Ok t' /\ TInv t' /\ LimP t t'.
Proof.
  intros H. tfacts H. destruct s; cbn [ed].
  - match goal with |- context [on_buf t ?f] =>
      destruct (on_buf_TInv t f H) as (b' & E & I & P) end.
    { apply buf_erase_BF; [apply H|lia|lia]. }
    rewrite E. cbn [bind].
    destruct (mark_range_TInv _ (cur_row (t <| buf := b' |>)) (rows (t <| buf := b' |>)) I)
      as (d & E' & _ & I' & P'); [cbn; lia|cbn; lia|].
    eexists; split; [exact E'|]. split; [exact I'|]. eapply LimP_trans; eassumption.
  - match goal with |- context [on_buf t ?f] =>
      destruct (on_buf_TInv t f H) as (b' & E & I & P) end.
    { apply buf_erase_BF; [apply H|lia|lia]. }
    rewrite E. cbn [bind].
    destruct (mark_range_TInv _ 0 (cur_row (t <| buf := b' |>) + 1) I)
      as (d & E' & _ & I' & P'); [cbn; lia|cbn; lia|].
    eexists; split; [exact E'|]. split; [exact I'|]. eapply LimP_trans; eassumption.
  - match goal with |- context [on_buf t ?f] =>
      destruct (on_buf_TInv t f H) as (b' & E & I & P) end.
    { apply buf_erase_BF; [apply H|lia|lia]. }
    rewrite E. cbn [bind].
    destruct (mark_range_TInv _ 0 (rows (t <| buf := b' |>)) I)
      as (d & E' & _ & I' & P'); [cbn; lia|cbn; lia|].
    eexists; split; [exact E'|]. split; [exact I'|]. eapply LimP_trans; eassumption.
  - eexists; split; [reflexivity|]. split; [exact H|apply LimP_refl].
Qed.

Lemma dch_TInv t n : TInv t -> exists t', dch t n = Ok t' /\ TInv t' /\ LimP t t'.
Proof.
  intros H. unfold dch.
  assert (X : exists t0, (if cols t <=? cur_col t then move_cursor_to_col t (cols t - 1) else t) = t0
                         /\ TInv t0 /\ LimP t t0 /\ cur_col t0 < cols t0).
  { tfacts H. destruct (Nat.leb_spec (cols t) (cur_col t)).
    - eexists; split; [reflexivity|]. destruct (move_cursor_to_col_TInv t (cols t - 1) H) as [I P].
      split; [exact I|]. split; [exact P|]. unfold move_cursor_to_col.
      destruct (Nat.leb_spec (cols t) (cols t - 1)); cbn; lia.
    - eexists; split; [reflexivity|]. split; [exact H|]. split; [apply LimP_refl|lia]. }
  destruct X as (t0 & -> & I0 & P0 & Hc0). clear H. tfacts I0.
  destruct (on_buf_TInv t0 (fun b => buf_delete b (cur_col t0) (cur_row t0) (as_usize n 1) (tpen t0)) I0)
    as (b' & E & I & P).
  { apply buf_delete_BF; [apply I0|lia|lia]. }
  rewrite E. cbn [bind].
  destruct (mark_TInv _ (cur_row (t0 <| buf := b' |>)) I) as (d & E' & _ & I' & P'); [cbn; lia|].
  eexists; split; [exact E'|]. split; [exact I'|].
  eapply LimP_trans; [exact P0|]. eapply LimP_trans; eassumption.
Qed.

Lemma decaln_rows_TInv : forall n t row,
  TInv t -> row + n <= rows t ->
  exists t', decaln_rows t n row = Ok t' /\ TInv t' /\ LimP t t' /\ rows t' = rows t.
Proof.
  induction n as [|n IH]; intros t row H Hn; cbn [decaln_rows].
  - exists t. split; [reflexivity|]. split; [exact H|]. split; [apply LimP_refl|reflexivity].
  - tfacts H.
    destruct (on_buf_TInv t (fun b => decaln_cols b row (cols t) 0) H) as (b' & E & I & P).
    { apply decaln_cols_BF; [apply H|lia|lia]. }
    rewrite E. cbn [bind].
    destruct (mark_TInv _ row I) as (d & E' & _ & I' & P'); [cbn; lia|].
    rewrite E'. cbn [bind].
    destruct (IH _ (S row) I') as (t' & E'' & I'' & P'' & R''); [cbn; lia|].
    exists t'. split; [exact E''|]. split; [exact I''|]. split; [|rewrite R''; reflexivity].
    eapply LimP_trans; [exact P|]. eapply LimP_trans; [exact P'|exact P''].
Qed.

Lemma decaln_TInv t : TInv t -> exists t', decaln t = Ok t' /\ TInv t' /\ LimP t t'.
Proof.
  intros H. unfold decaln. destruct (decaln_rows_TInv (rows t) t 0 H) as (t' & E & I & P & _); [lia|].
  exists t'. auto.
Qed.

(** ** modes, pen, margins, charsets *)

Lemma sgr_TInv t ops : TInv t -> TInv (sgr t ops) /\ LimP t (sgr t ops).
Proof. intros H. tfacts H. unfold sgr. scalar H; apply H. Qed.

Lemma sm_one_TInv t m : TInv t -> TInv (sm_one t m) /\ LimP t (sm_one t m).
Proof. intros H. tfacts H. destruct m; cbn [sm_one]; scalar H; apply H. Qed.

Lemma rm_one_TInv t m : TInv t -> TInv (rm_one t m) /\ LimP t (rm_one t m).
Proof. intros H. tfacts H. destruct m; cbn [rm_one]; scalar H; apply H. Qed.

Lemma fold_sm_TInv ms : forall t, TInv t -> TInv (fold_left sm_one ms t) /\ LimP t (fold_left sm_one ms t).
Proof.
  induction ms as [|m ms IH]; intros t H; cbn [fold_left]; [split; [exact H|apply LimP_refl]|].
  destruct (sm_one_TInv t m H) as [I P]. destruct (IH _ I) as [I' P'].
  split; [exact I'|eapply LimP_trans; eassumption].
Qed.

Lemma fold_rm_TInv ms : forall t, TInv t -> TInv (fold_left rm_one ms t) /\ LimP t (fold_left rm_one ms t).
Proof.
  induction ms as [|m ms IH]; intros t H; cbn [fold_left]; [split; [exact H|apply LimP_refl]|].
  destruct (rm_one_TInv t m H) as [I P]. destruct (IH _ I) as [I' P'].
  split; [exact I'|eapply LimP_trans; eassumption].
Qed.

Lemma decstbm_TInv t tp bt : TInv t -> TInv (decstbm t tp bt) /\ LimP t (decstbm t tp bt).
Proof.
  intros H. tfacts H. unfold decstbm.
  match goal with |- context [if ?c then ?a else ?b] =>
    assert (X : TInv (if c then a else b) /\ LimP t (if c then a else b)) end.
  { destruct (Nat.ltb_spec (as_usize tp 1 - 1) (as_usize bt (rows t) - 1));
      destruct (Nat.ltb_spec (as_usize bt (rows t) - 1) (rows t)); cbn [andb];
      try (split; [exact H|apply LimP_refl]).
    scalar H; apply H. }
  destruct X as [I P]. destruct (move_cursor_home_TInv _ I) as [I' P'].
  split; [exact I'|eapply LimP_trans; eassumption].
Qed.

Lemma set_cs0_TInv t c : TInv t -> TInv (t <| cs0 := c |>) /\ LimP t (t <| cs0 := c |>).
Proof. intros H. tfacts H. scalar H; apply H. Qed.

Lemma set_cs1_TInv t c : TInv t -> TInv (t <| cs1 := c |>) /\ LimP t (t <| cs1 := c |>).
Proof. intros H. tfacts H. scalar H; apply H. Qed.

Lemma set_acs_TInv t n : TInv t -> n <= 1 -> TInv (t <| acs := n |>) /\ LimP t (t <| acs := n |>).
Proof. intros H Hn. tfacts H. scalar H; apply H. Qed.

Lemma set_ckm_TInv t v : TInv t -> TInv (t <| ckm := v |>) /\ LimP t (t <| ckm := v |>).
Proof. intros H. tfacts H. scalar H; apply H. Qed.

Lemma set_awm_TInv t v : TInv t -> TInv (t <| awm := v |>) /\ LimP t (t <| awm := v |>).
Proof. intros H. tfacts H. scalar H; apply H. Qed.

Lemma set_cur_vis_TInv t v : TInv t -> TInv (t <| cur_vis := v |>) /\ LimP t (t <| cur_vis := v |>).
Proof. intros H. tfacts H. scalar H; apply H. Qed.

Lemma set_org_TInv t v : TInv t -> TInv (t <| org := v |>) /\ LimP t (t <| org := v |>).
Proof. intros H. tfacts H. scalar H; apply H. Qed.

Lemma set_org_home_TInv t v :
  TInv t -> TInv (move_cursor_home (t <| org := v |>)) /\ LimP t (move_cursor_home (t <| org := v |>)).
Proof.
  intros H. destruct (set_org_TInv t v H) as [I P]. destruct (move_cursor_home_TInv _ I) as [I' P'].
  split; [exact I'|eapply LimP_trans; eassumption].
Qed.

(** ** save / restore / resets *)

Lemma save_cursor_TInv t : TInv t -> TInv (save_cursor t) /\ LimP t (save_cursor t).
Proof.
  intros H. tfacts H. unfold save_cursor, save_cursor_gen. scalar H; try apply H.
  split; cbn; lia.
Qed.

Lemma restore_cursor_TInv t : TInv t -> TInv (restore_cursor t) /\ LimP t (restore_cursor t).
Proof.
  intros H. tfacts H. pose proof (ti_sctx _ H) as [Hsc Hsr].
  unfold restore_cursor, restore_cursor_gen. scalar H; try apply H.
Qed.

Lemma soft_reset_TInv t : TInv t -> TInv (soft_reset_gen t) /\ LimP t (soft_reset_gen t).
Proof.
  intros H. tfacts H. unfold soft_reset_gen. scalar H; try apply H.
  split; cbn; lia.
Qed.

(** ** REP, given PRINT *)

Lemma rep_cell t :
  TInv t -> 0 < cur_col t ->
  exists l c, get_row (buf t) (cur_row t) = Ok l /\ nth_error (cells l) (cur_col t - 1) = Some c.
Proof.
  intros H Hc. tfacts H. pose proof (ti_buf _ H) as [G _].
  rewrite (get_row_spec (buf t) (cur_row t) G) by lia.
  pose proof (view_row_LineInv (buf t) (cur_row t) G ltac:(lia)) as L. unfold LineInv in L.
  destruct (nth_error (cells (row_at (view (buf t)) (cur_row t))) (cur_col t - 1)) as [c|] eqn:E.
  - eauto.
  - apply nth_error_None in E. lia.
Qed.
