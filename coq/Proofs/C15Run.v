(** C15 (changed-line reports are sound): the UNCONDITIONAL forms.

    Proofs/Dirty.v proves the marking discipline under a section hypothesis (totality and
    invariance of [print]) and the session theorem [session_C15] under two hypotheses.  Both
    hypotheses are theorems of the invariant development (Proofs/InvStep.v: [print_TInv],
    [stepM_Inv]); here they are discharged, the ghost invariant [DInv] is established for the
    fresh terminal ([DInv_new]) and carried along every history of Feed / Flush / Resize
    operations, so that "a row not reported since the previous report is cell-for-cell what it
    was at that report" is a theorem about EVERY run from EVERY fresh terminal.

    Only hypotheses used: [1 <= c], [1 <= r] (Vt::new contract), [Forall op_ok ops]
    ([op_ok] only excludes [Resize 0 _] / [Resize _ 0], excluded by the property text too),
    and [Inv] / [TInv] (hold in every reachable state: [vt_new_Inv], [stepM_Inv]). *)

From Coq Require Import Lia List.
From Avt Require Import Model.Vt Oracles.Step Proofs.Inv Proofs.Dirty Proofs.InvStep.
Import ListNotations.

(** * 1. every control function marks what it changes - no premise *)

Theorem C15_execute_uncond : forall v0 t f t',
  TInv t -> DInv v0 t -> execute t f = Ok t' -> DInv v0 t'.
Proof. exact (execute_DInv print_TInv). Qed.
Print Assumptions C15_execute_uncond.

(** one fed character keeps the ghost invariant (nothing is reported by [Feed]) *)
Theorem C15_feed : forall v0 v c v' o,
  TInv (vterm v) -> DInv v0 (vterm v) -> stepM v (Feed c) = Ok (v', o) -> DInv v0 (vterm v').
Proof. exact (stepM_Feed_DInv print_TInv). Qed.
Print Assumptions C15_feed.

(** * 2. whole histories *)

(** [reports_sound] of Proofs/Dirty.v reads a panicking step as [True].  The strict variant
    reads it as [False]: it additionally says that no step of the run panics. *)
Fixpoint reports_sound_strict (v0 : list line) (v : vt) (ops : list op) : Prop :=
  match ops with
  | [] => True
  | o :: rest =>
    match stepM v o with
    | Panic _ => False
    | Ok (v', out) =>
      match o with
      | Feed _ => reports_sound_strict v0 v' rest
      | _ => holds_C15 v0 v' (o_lines out) = true
             /\ reports_sound_strict (tview (vterm v')) v' rest
      end
    end
  end.

Lemma reports_sound_strict_sound : forall ops v0 v,
  reports_sound_strict v0 v ops -> reports_sound v0 v ops.
Proof.
  induction ops as [|o rest IH]; intros v0 v; cbn [reports_sound_strict reports_sound]; [auto|].
  destruct (stepM v o) as [[v' out]|]; [|auto].
  destruct o as [c| |c r].
  - apply IH.
  - intros [C R]. split; [exact C|apply IH, R].
  - intros [C R]. split; [exact C|apply IH, R].
Qed.

(** from every state satisfying the invariants *)
Theorem session_C15_strict : forall ops v0 v,
  Inv v -> DInv v0 (vterm v) -> Forall op_ok ops -> reports_sound_strict v0 v ops.
Proof.
  induction ops as [|o rest IH]; intros v0 v HI D Hok; cbn [reports_sound_strict]; [exact I|].
  inversion Hok as [|o' rest' Ho Hrest]; subst.
  destruct (stepM_Inv v o HI Ho) as (v' & out & E & HI'). rewrite E.
  pose proof (proj2 HI) as H.
  destruct o as [c| |c r].
  - apply IH; [exact HI'|exact (C15_feed v0 v c v' out H D E)|exact Hrest].
  - destruct (stepM_Flush_C15 v0 v v' out H D E) as [C D']. split; [exact C|].
    apply IH; [exact HI'|exact D'|exact Hrest].
  - destruct Ho as [Hc Hr].
    destruct (stepM_Resize_C15 v0 v c r v' out H Hc Hr E) as [C D']. split; [exact C|].
    apply IH; [exact HI'|exact D'|exact Hrest].
Qed.
Print Assumptions session_C15_strict.

Theorem session_C15_uncond : forall ops v0 v,
  Inv v -> DInv v0 (vterm v) -> Forall op_ok ops -> reports_sound v0 v ops.
Proof. intros ops v0 v HI D Hok. apply reports_sound_strict_sound, session_C15_strict; assumption. Qed.
Print Assumptions session_C15_uncond.

(** every history from every fresh terminal; at construction every row is marked, so the
    reference view of the first report is arbitrary ([v0] universally quantified) *)
Theorem C15_run_strict : forall v0 c r l ops,
  1 <= c -> 1 <= r -> Forall op_ok ops -> reports_sound_strict v0 (vt_new c r l) ops.
Proof.
  intros v0 c r l ops Hc Hr Hok.
  apply session_C15_strict; [apply vt_new_Inv; assumption|apply DInv_new|exact Hok].
Qed.
Print Assumptions C15_run_strict.

(** the form asked for by the audit *)
Theorem C15_run : forall c r l ops,
  1 <= c -> 1 <= r -> Forall op_ok ops ->
  reports_sound (tview (vterm (vt_new c r l))) (vt_new c r l) ops.
Proof.
  intros c r l ops Hc Hr Hok. apply reports_sound_strict_sound, C15_run_strict; assumption.
Qed.
Print Assumptions C15_run.

(** * 3. the ghost invariant in every reachable state, with its reference view named

    [exists v0, DInv v0 t] would be trivial ([v0 := tview t]); the reference view has to be
    the view AT THE PREVIOUS REPORT.  [ref_view v0 v ops] computes it: the view right after
    the last non-[Feed] operation of [ops] (run from [v]), or [v0] when there is none. *)
Fixpoint ref_view (v0 : list line) (v : vt) (ops : list op) : list line :=
  match ops with
  | [] => v0
  | o :: rest =>
    match stepM v o with
    | Panic _ => v0
    | Ok (v', _) =>
      match o with
      | Feed _ => ref_view v0 v' rest
      | _ => ref_view (tview (vterm v')) v' rest
      end
    end
  end.

Definition is_report (o : op) : Prop := match o with Feed _ => False | _ => True end.

Theorem runM_DInv : forall ops v0 v v',
  Inv v -> DInv v0 (vterm v) -> Forall op_ok ops -> runM v ops = Ok v' ->
  Inv v' /\ DInv (ref_view v0 v ops) (vterm v').
Proof.
  induction ops as [|o rest IH]; intros v0 v v' HI D Hok; cbn [runM ref_view].
  - intros E. inversion E; subst. split; assumption.
  - inversion Hok as [|o' rest' Ho Hrest]; subst.
    destruct (stepM_Inv v o HI Ho) as (v1 & out & E & HI1). rewrite E. unfold bind. cbn [fst].
    pose proof (proj2 HI) as H.
    destruct o as [c| |c r].
    + apply IH; [exact HI1|exact (C15_feed v0 v c v1 out H D E)|exact Hrest].
    + destruct (stepM_Flush_C15 v0 v v1 out H D E) as [_ D']. apply IH; assumption.
    + destruct Ho as [Hc Hr].
      destruct (stepM_Resize_C15 v0 v c r v1 out H Hc Hr E) as [_ D']. apply IH; assumption.
Qed.
Print Assumptions runM_DInv.

(** every state reachable from a fresh terminal satisfies [Inv] and [DInv] w.r.t. the view at
    the previous report: [C15_sound] / [C15_flush] / [C15_execute_uncond] apply to it *)
Theorem C15_DInv_run : forall v0 c r l ops v,
  1 <= c -> 1 <= r -> Forall op_ok ops -> runM (vt_new c r l) ops = Ok v ->
  Inv v /\ DInv (ref_view v0 (vt_new c r l) ops) (vterm v).
Proof.
  intros v0 c r l ops v Hc Hr Hok E.
  eapply runM_DInv; [apply vt_new_Inv; assumption|apply DInv_new|exact Hok|exact E].
Qed.
Print Assumptions C15_DInv_run.

(** the reporting call made in any reachable state is sound w.r.t. the previous report *)
Theorem C15_report_after_run : forall v0 c r l ops v o v' out,
  1 <= c -> 1 <= r -> Forall op_ok ops -> runM (vt_new c r l) ops = Ok v ->
  is_report o -> op_ok o -> stepM v o = Ok (v', out) ->
  holds_C15 (ref_view v0 (vt_new c r l) ops) v' (o_lines out) = true
  /\ DInv (tview (vterm v')) (vterm v').
Proof.
  intros v0 c r l ops v o v' out Hc Hr Hok E Hrep Ho Es.
  destruct (C15_DInv_run v0 c r l ops v Hc Hr Hok E) as [HI D]. pose proof (proj2 HI) as H.
  destruct o as [ch| |c1 r1].
  - destruct Hrep.
  - exact (stepM_Flush_C15 _ v v' out H D Es).
  - destruct Ho as [Hc1 Hr1]. exact (stepM_Resize_C15 _ v c1 r1 v' out H Hc1 Hr1 Es).
Qed.
Print Assumptions C15_report_after_run.

(** ** [ref_view] is what its comment says *)

Lemma ref_view_app : forall a b v0 v v1,
  runM v a = Ok v1 -> ref_view v0 v (a ++ b) = ref_view (ref_view v0 v a) v1 b.
Proof.
  induction a as [|o a IH]; intros b v0 v v1; cbn [runM ref_view app].
  - intros E. inversion E; subst. reflexivity.
  - destruct (stepM v o) as [[v' out]|]; unfold bind; [cbn [fst]|discriminate].
    intros E. destruct o as [c| |c r]; apply IH, E.
Qed.

Lemma ref_view_feeds : forall cs v0 v, ref_view v0 v (map Feed cs) = v0.
Proof.
  induction cs as [|c cs IH]; intros v0 v; cbn [map ref_view]; [reflexivity|].
  destruct (stepM v (Feed c)) as [[v' out]|]; [apply IH|reflexivity].
Qed.

(** after [pre ++ [o]] with [o] a reporting call, followed by any fed characters, the
    reference view is the view right after [o] *)
Theorem ref_view_last_report : forall v0 v pre o cs v1,
  is_report o -> runM v (pre ++ [o]) = Ok v1 ->
  ref_view v0 v ((pre ++ [o]) ++ map Feed cs) = tview (vterm v1).
Proof.
  intros v0 v pre o cs v1 Hrep E.
  rewrite (ref_view_app _ _ v0 v v1 E), ref_view_feeds.
  revert E. rewrite runM_app. destruct (runM v pre) as [vp|] eqn:Ep; unfold bind; [|discriminate].
  rewrite (ref_view_app _ _ v0 v vp Ep). cbn [runM ref_view]. unfold bind.
  destruct (stepM vp o) as [[v' out]|]; [cbn [fst]|discriminate].
  intros E. inversion E; subst. destruct o as [c| |c r]; [destruct Hrep|reflexivity|reflexivity].
Qed.
Print Assumptions ref_view_last_report.

(** The explicit "between two consecutive reports" statement: run any history [pre], make a
    reporting call [o1] (state [v1]), feed any characters [cs] (state [v2]), make a reporting
    call [o2] (state [v3], reported rows [o_lines out]): every row of the final view that is
    not reported has exactly the cells it had in the view of [v1]. *)
Theorem C15_between_reports : forall c r l pre o1 cs o2 v1 v2 v3 out,
  1 <= c -> 1 <= r -> Forall op_ok pre -> op_ok o1 -> op_ok o2 -> is_report o1 -> is_report o2 ->
  runM (vt_new c r l) (pre ++ [o1]) = Ok v1 ->
  runM v1 (map Feed cs) = Ok v2 ->
  stepM v2 o2 = Ok (v3, out) ->
  holds_C15 (tview (vterm v1)) v3 (o_lines out) = true.
Proof.
  intros c r l pre o1 cs o2 v1 v2 v3 out Hc Hr Hpre Ho1 Ho2 R1 R2 E1 E2 E3.
  assert (Hok : Forall op_ok ((pre ++ [o1]) ++ map Feed cs)).
  { apply Forall_app. split; [apply Forall_app; split; [exact Hpre|constructor; [exact Ho1|constructor]]|].
    apply Forall_forall. intros o Hin. apply in_map_iff in Hin as (ch & <- & _). exact I. }
  assert (E : runM (vt_new c r l) ((pre ++ [o1]) ++ map Feed cs) = Ok v2).
  { rewrite runM_app, E1. exact E2. }
  destruct (C15_report_after_run (tview (vterm v1)) c r l _ v2 o2 v3 out Hc Hr Hok E R2 Ho2 E3) as [C _].
  rewrite (ref_view_last_report _ _ pre o1 cs v1 R1 E1) in C. exact C.
Qed.
Print Assumptions C15_between_reports.

(** * non-vacuity *)

(** reported rows of the reporting calls of a run *)
Fixpoint reports (v : vt) (ops : list op) : list (list nat) :=
  match ops with
  | [] => []
  | o :: rest =>
    match stepM v o with
    | Panic _ => []
    | Ok (v', out) =>
      match o with Feed _ => reports v' rest | _ => o_lines out :: reports v' rest end
    end
  end.

(** "A", report, LF "B", report, "C", resize to 5x3 (which reports) *)
Definition ex_ops : list op :=
  [Feed 65; Flush; Feed 10; Feed 66; Flush; Feed 67; Resize 5 3]%N.

(** the second report names row 1 only: rows 0 ("A") and 2 are unreported, and the theorem
    says they are cell-for-cell what they were at the first report *)
Example ex_reports : reports (vt_new 4 3 None) ex_ops = [[0; 1; 2]; [1]; [0; 1; 2]].
Proof. vm_compute. reflexivity. Qed.

Example ex_run : reports_sound_strict [] (vt_new 4 3 None) ex_ops.
Proof. exact (C15_run_strict [] 4 3 None ex_ops ltac:(lia) ltac:(lia)
                ltac:(repeat constructor; lia)). Qed.

(** the instance computes to a conjunction of three informative checks *)
Example ex_run_computed : reports_sound_strict [] (vt_new 4 3 None) ex_ops.
Proof. vm_compute. repeat split. Qed.

(** the check is not trivially true: against a wrong reference view (here: the view of a
    terminal where row 0 holds "Z") the second report [1] is rejected *)
Example ex_check_rejects :
  match feed_str (vt_new 4 3 None) [90]%N, runM (vt_new 4 3 None) (firstn 4 ex_ops) with
  | Ok (vz, _), Ok v2 =>
    match stepM v2 Flush with
    | Ok (v3, out) => (o_lines out, holds_C15 (tview (vterm vz)) v3 (o_lines out))
    | Panic _ => ([], true)
    end
  | _, _ => ([], true)
  end = ([1], false).
Proof. vm_compute. reflexivity. Qed.

(** [C15_execute_uncond]: in the state after the first report (all flags clear, [DInv] w.r.t.
    its own view) PRINT 'B' sets exactly the flag of the cursor row *)
Example ex_execute :
  match feed_str (vt_new 4 3 None) [65]%N with
  | Ok (v, _) =>
    match execute (vterm v) (Print 66%N) with
    | Ok t' => (dirty (vterm v), dirty t')
    | Panic _ => ([], [])
    end
  | Panic _ => ([], [])
  end = ([false; false; false], [true; false; false]).
Proof. vm_compute. reflexivity. Qed.
