(** Reflow keeps the logical text (property C10, the heart).

    [logical ls] joins the cells of the rows of [ls] across soft-wrap marks, [trimd] drops
    trailing default cells, [logical_t ls = map trimd (logical ls)].

    Main result: [reflow_logical]
      [1 <= c -> last_not_wrapped ls -> reflowM ls c = Ok out -> logical_t out = logical_t ls]
    for ARBITRARY input rows (no width hypothesis at all): same number of logical lines, same
    order, same cells up to trailing default cells of each logical line.

    Also: generic facts relating [logical], [curs_go] and the rows of a buffer
    ([logical_go_app], [curs_go_spec], [row_in_logical]), used by [Proofs/ResizeText.v], and
    [reflow_wrapped_rows]: a soft-wrapped output row is a full [c]-cell segment of its logical
    line. *)

From Avt Require Import Spec.Logical Proofs.Inv Proofs.ReflowCore.
Require Import Lia ZArith ZifyBool ZifyNat.
Import ListNotations.

(** * 0. Record plumbing *)

Lemma cells_set_cells l cs : cells (l <| cells := cs |>) = cs.
Proof. destruct l; reflexivity. Qed.

Lemma cells_set_wrapped l w : cells (l <| wrapped := w |>) = cells l.
Proof. destruct l; reflexivity. Qed.

(** * 1. [trimd] *)

Lemma take_skip_while {A} (f : A -> bool) (l : list A) :
  take_while f l ++ skip_while f l = l.
Proof.
  induction l as [|x r IH]; [reflexivity|].
  cbn [take_while skip_while]. destruct (f x); [|reflexivity].
  cbn [app]. rewrite IH. reflexivity.
Qed.

Lemma take_while_all {A} (f : A -> bool) (l : list A) : forallb f (take_while f l) = true.
Proof.
  induction l as [|x r IH]; [reflexivity|].
  cbn [take_while]. destruct (f x) eqn:E; [|reflexivity].
  cbn [forallb]. rewrite E, IH. reflexivity.
Qed.

Lemma skip_while_app_all {A} (f : A -> bool) (d r : list A) :
  forallb f d = true -> skip_while f (d ++ r) = skip_while f r.
Proof.
  induction d as [|x d IH]; intros H; [reflexivity|].
  cbn [forallb] in H. apply andb_prop in H. destruct H as (Hx & Hd).
  cbn [app skip_while]. rewrite Hx. apply IH. exact Hd.
Qed.

Lemma forallb_rev' {A} (f : A -> bool) (l : list A) :
  forallb f l = true -> forallb f (rev l) = true.
Proof.
  intros H. apply forallb_forall. intros x Hx. apply in_rev in Hx.
  rewrite forallb_forall in H. apply H. exact Hx.
Qed.

Lemma forallb_firstn' {A} (f : A -> bool) n (l : list A) :
  forallb f l = true -> forallb f (firstn n l) = true.
Proof.
  intros H. apply forallb_forall. intros x Hx.
  rewrite forallb_forall in H. apply H.
  rewrite <- (firstn_skipn n l). apply in_or_app. left. exact Hx.
Qed.

Lemma forallb_skipn' {A} (f : A -> bool) n (l : list A) :
  forallb f l = true -> forallb f (skipn n l) = true.
Proof.
  intros H. apply forallb_forall. intros x Hx.
  rewrite forallb_forall in H. apply H.
  rewrite <- (firstn_skipn n l). apply in_or_app. right. exact Hx.
Qed.

(** trailing default cells do not count *)
Lemma trimd_app_default a d :
  forallb cell_is_default d = true -> trimd (a ++ d) = trimd a.
Proof.
  intros H. unfold trimd. rewrite rev_app_distr.
  rewrite skip_while_app_all by (apply forallb_rev'; exact H). reflexivity.
Qed.

(** [l] is [trimd l] followed by [trailers] default cells *)
Lemma trimd_split l :
  exists d, l = trimd l ++ d /\ forallb cell_is_default d = true
            /\ length d = length (take_while cell_is_default (rev l)).
Proof.
  exists (rev (take_while cell_is_default (rev l))). split; [|split].
  - unfold trimd. rewrite <- rev_app_distr, take_skip_while, rev_involutive. reflexivity.
  - apply forallb_rev'. apply take_while_all.
  - apply rev_length.
Qed.

Lemma trimd_length l :
  length (trimd l) = length l - length (take_while cell_is_default (rev l)).
Proof.
  destruct (trimd_split l) as (d & E & _ & L).
  apply (f_equal (@length cell)) in E. rewrite app_length in E. lia.
Qed.

Lemma trimd_length_le l : length (trimd l) <= length l.
Proof. rewrite trimd_length. lia. Qed.

Lemma trimd_app a b : trimd (a ++ b) = trimd (a ++ trimd b).
Proof.
  destruct (trimd_split b) as (d & E & D & _).
  rewrite E at 1. rewrite app_assoc. apply trimd_app_default. exact D.
Qed.

Lemma trimd_congr a x y : trimd x = trimd y -> trimd (a ++ x) = trimd (a ++ y).
Proof. intros E. rewrite (trimd_app a x), (trimd_app a y), E. reflexivity. Qed.

(** [trimd l] is a prefix of [l] *)
Lemma trimd_firstn l : trimd l = firstn (length (trimd l)) l.
Proof.
  destruct (trimd_split l) as (d & E & _ & _).
  rewrite E at 3. rewrite firstn_app, Nat.sub_diag, firstn_all. cbn [firstn].
  rewrite app_nil_r. reflexivity.
Qed.

(** cutting inside the trailing default cells does not matter *)
Lemma trimd_firstn_ge n l : length (trimd l) <= n -> trimd (firstn n l) = trimd l.
Proof.
  intros H. destruct (trimd_split l) as (d & E & D & _).
  rewrite E at 1. rewrite firstn_app, (firstn_all2 (n := n)) by exact H.
  rewrite trimd_app_default by (apply forallb_firstn'; exact D).
  rewrite E at 2. rewrite trimd_app_default by exact D. reflexivity.
Qed.

Lemma cells_trim l : cells (line_trim l) = trimd (cells l).
Proof.
  unfold line_trim. rewrite cells_set_cells. unfold llen, trailers.
  rewrite <- trimd_length. symmetry. apply trimd_firstn.
Qed.

Lemma blank_default_is_default : cell_is_default (blank_cell default_pen) = true.
Proof. reflexivity. Qed.

Lemma repeat_default_all n : forallb cell_is_default (repeat (blank_cell default_pen) n) = true.
Proof.
  apply forallb_forall. intros x Hx. apply repeat_spec in Hx. subst x.
  apply blank_default_is_default.
Qed.

Lemma cells_expand len p l : cells (line_expand len p l) = cells l ++ repeat (blank_cell p) (len - llen l).
Proof. unfold line_expand. apply cells_set_cells. Qed.

Lemma trimd_expand len l : trimd (cells (line_expand len default_pen l)) = trimd (cells l).
Proof. rewrite cells_expand. apply trimd_app_default. apply repeat_default_all. Qed.

(** * 2. [logical_go] *)

Lemma logical_go_cons l r cur :
  logical_go (l :: r) cur =
  if wrapped l then logical_go r (cur ++ cells l) else (cur ++ cells l) :: logical_go r [].
Proof. reflexivity. Qed.

(** the effect of a prefix of rows: the completed logical lines and the pending cells *)
Fixpoint lg_pre (A : list line) (cur : list cell) : list (list cell) * list cell :=
  match A with
  | [] => ([], cur)
  | l :: r =>
    if wrapped l then lg_pre r (cur ++ cells l)
    else let '(d, c') := lg_pre r [] in ((cur ++ cells l) :: d, c')
  end.

Lemma logical_go_app A R cur :
  logical_go (A ++ R) cur = fst (lg_pre A cur) ++ logical_go R (snd (lg_pre A cur)).
Proof.
  revert cur. induction A as [|l r IH]; intros cur; [reflexivity|].
  cbn [app lg_pre]. rewrite logical_go_cons. destruct (wrapped l).
  - apply IH.
  - rewrite IH. destruct (lg_pre r []) as [d c']. reflexivity.
Qed.

(** one row replaced by an equivalent row *)
Lemma lg_one a a' it cur :
  wrapped a' = wrapped a ->
  (if wrapped a then cells a' = cells a else trimd (cells a') = trimd (cells a)) ->
  map trimd (logical_go (a :: it) cur) = map trimd (logical_go (a' :: it) cur).
Proof.
  intros W E. rewrite !logical_go_cons, W. destruct (wrapped a).
  - rewrite E. reflexivity.
  - cbn [map]. rewrite (trimd_congr cur _ _ E). reflexivity.
Qed.

(** one row split into a wrapped row and a rest *)
Lemma lg_split a a' b' it cur :
  wrapped a' = true -> wrapped b' = wrapped a ->
  (if wrapped a then cells a' ++ cells b' = cells a
   else trimd (cells a' ++ cells b') = trimd (cells a)) ->
  map trimd (logical_go (a :: it) cur) = map trimd (logical_go (a' :: b' :: it) cur).
Proof.
  intros W1 W2 E. rewrite !logical_go_cons, W1, W2, <- app_assoc. destruct (wrapped a).
  - rewrite E. reflexivity.
  - cbn [map]. rewrite (trimd_congr cur _ _ E). reflexivity.
Qed.

(** two rows re-split *)
Lemma lg_two a b a' b' it cur :
  wrapped a = true -> wrapped a' = true -> wrapped b' = wrapped b ->
  (if wrapped b then cells a' ++ cells b' = cells a ++ cells b
   else trimd (cells a' ++ cells b') = trimd (cells a ++ cells b)) ->
  map trimd (logical_go (a :: b :: it) cur) = map trimd (logical_go (a' :: b' :: it) cur).
Proof.
  intros W1 W2 W3 E. rewrite !logical_go_cons, W1, W2, W3, <- !app_assoc. destruct (wrapped b).
  - rewrite E. reflexivity.
  - cbn [map]. rewrite (trimd_congr cur _ _ E). reflexivity.
Qed.

(** two rows merged *)
Lemma lg_merge a b a' it cur :
  wrapped a = true -> wrapped a' = wrapped b ->
  (if wrapped b then cells a' = cells a ++ cells b
   else trimd (cells a') = trimd (cells a ++ cells b)) ->
  map trimd (logical_go (a :: b :: it) cur) = map trimd (logical_go (a' :: it) cur).
Proof.
  intros W1 W2 E. rewrite !logical_go_cons, W1, W2, <- !app_assoc. destruct (wrapped b).
  - rewrite E. reflexivity.
  - cbn [map]. rewrite (trimd_congr cur _ _ E). reflexivity.
Qed.

(** * 3. The text of [Line::contract] and [Line::extend] *)

Lemma line_contract_text len l l' r :
  line_contract len l = (l', r) ->
  match r with
  | None =>
    wrapped l' = wrapped l /\
    (if wrapped l then cells l' = cells l else trimd (cells l') = trimd (cells l))
  | Some x =>
    wrapped l' = true /\ wrapped x = wrapped l /\
    (if wrapped l then cells l' ++ cells x = cells l
     else trimd (cells l' ++ cells x) = trimd (cells l))
  end.
Proof.
  unfold line_contract.
  set (l1 := if wrapped l then l else _).
  assert (H1 : wrapped l1 = wrapped l /\
               (if wrapped l then cells l1 = cells l else trimd (cells l1) = trimd (cells l))).
  { unfold l1. destruct (wrapped l) eqn:W.
    - split; [exact W|reflexivity].
    - rewrite wrapped_set_cells, cells_set_cells. split; [exact W|].
      apply trimd_firstn_ge. rewrite trimd_length. unfold llen, trailers. lia. }
  clearbody l1. destruct H1 as (Hw & Hc).
  destruct (len <? llen l1).
  2: { intros [= <- <-]. split; [exact Hw|exact Hc]. }
  set (rest0 := mkLine (skipn len (cells l1)) (wrapped l1)).
  set (l2 := l1 <| cells := firstn len (cells l1) |>).
  assert (H2 : wrapped l2 = wrapped l /\ cells l2 = firstn len (cells l1)).
  { unfold l2. rewrite wrapped_set_cells, cells_set_cells. split; [exact Hw|reflexivity]. }
  assert (H0 : wrapped rest0 = wrapped l /\ cells rest0 = skipn len (cells l1)).
  { unfold rest0. cbn [wrapped cells]. split; [exact Hw|reflexivity]. }
  clearbody rest0 l2. destruct H2 as (H2w & H2c). destruct H0 as (H0w & H0c).
  set (rest := if wrapped l2 then rest0 else line_trim rest0).
  assert (Hr : wrapped rest = wrapped l /\
               (if wrapped l then cells rest = skipn len (cells l1)
                else cells rest = trimd (skipn len (cells l1)))).
  { unfold rest. rewrite H2w. destruct (wrapped l).
    - split; [exact H0w|exact H0c].
    - rewrite wrapped_trim, cells_trim, H0c. split; [exact H0w|reflexivity]. }
  clearbody rest. destruct Hr as (Hrw & Hrc).
  assert (Key : if wrapped l then cells l2 ++ cells rest = cells l
                else trimd (cells l2 ++ cells rest) = trimd (cells l)).
  { rewrite H2c. destruct (wrapped l).
    - rewrite Hrc, firstn_skipn. exact Hc.
    - rewrite Hrc, <- trimd_app, firstn_skipn. exact Hc. }
  destruct (cells rest) as [|x xs] eqn:C.
  - intros [= <- <-]. split; [exact H2w|]. rewrite app_nil_r in Key. exact Key.
  - intros [= <- <-]. rewrite wrapped_set_wrapped, cells_set_wrapped.
    split; [reflexivity|]. split; [exact Hrw|]. rewrite C. exact Key.
Qed.

Lemma firstn_rotl {A} n (l : list A) :
  n <= length l -> firstn (length l - n) (rotl n l) = skipn n l.
Proof.
  intros H. unfold rotl. rewrite firstn_app, skipn_length, Nat.sub_diag. cbn [firstn].
  rewrite app_nil_r. apply firstn_all2. rewrite skipn_length. lia.
Qed.

Lemma line_extend_text l o len l' b r :
  line_extend l o len = Ok (l', (b, r)) ->
  match b, r with
  | true, Some x =>
    wrapped x = wrapped o /\
    ((wrapped l' = wrapped l /\ x = o /\
      (if wrapped l then cells l' = cells l else trimd (cells l') = trimd (cells l)))
     \/
     (wrapped l = true /\ wrapped l' = true /\
      (if wrapped o then cells l' ++ cells x = cells l ++ cells o
       else trimd (cells l' ++ cells x) = trimd (cells l ++ cells o))))
  | true, None =>
    wrapped l = true /\ wrapped o = false /\ wrapped l' = false /\
    trimd (cells l') = trimd (cells l ++ cells o)
  | false, None =>
    wrapped l = true /\ wrapped o = true /\ wrapped l' = true /\
    cells l' = cells l ++ cells o
  | false, Some _ => False
  end.
Proof.
  unfold line_extend.
  destruct (llen l <=? len); cbn [negb]; [|discriminate].
  destruct (len - llen l =? 0).
  { intros [= <- <- <-]. split; [reflexivity|]. left. split; [reflexivity|].
    split; [reflexivity|]. destruct (wrapped l); reflexivity. }
  destruct (wrapped l) eqn:Wl; cbn [negb].
  2: { intros [= <- <- <-]. split; [reflexivity|]. left.
       rewrite wrapped_expand, Wl. split; [reflexivity|]. split; [reflexivity|].
       apply trimd_expand. }
  set (o' := if wrapped o then o else line_trim o).
  assert (Ho : wrapped o' = wrapped o /\
               (if wrapped o then cells o' = cells o else cells o' = trimd (cells o))).
  { unfold o'. destruct (wrapped o) eqn:Wo.
    - split; [exact Wo|reflexivity].
    - rewrite wrapped_trim, cells_trim. split; [exact Wo|reflexivity]. }
  clearbody o'. destruct Ho as (How & Hoc).
  assert (Key : if wrapped o then cells l ++ cells o' = cells l ++ cells o
                else trimd (cells l ++ cells o') = trimd (cells l ++ cells o)).
  { destruct (wrapped o); rewrite Hoc; [reflexivity|]. symmetry. apply trimd_app. }
  destruct (len - llen l <? llen o') eqn:E1.
  { apply Nat.ltb_lt in E1. intros [= <- <- <-]. cbn [wrapped cells].
    split; [exact How|]. right. rewrite wrapped_set_cells, cells_set_cells.
    split; [reflexivity|]. split; [exact Wl|].
    unfold llen in *. rewrite firstn_rotl by lia. rewrite <- app_assoc, firstn_skipn.
    exact Key. }
  rewrite How. destruct (wrapped o) eqn:Wo; cbn [negb].
  - intros [= <- <- <-]. rewrite wrapped_set_cells, cells_set_cells.
    repeat split; [exact Wl|exact Key].
  - set (l'' := (l <| cells := cells l ++ cells o' |>) <| wrapped := false |>).
    assert (Hl : wrapped l'' = false /\ cells l'' = cells l ++ cells o').
    { unfold l''. rewrite wrapped_set_wrapped, cells_set_wrapped, cells_set_cells.
      split; reflexivity. }
    clearbody l''. destruct Hl as (Hl1 & Hl2).
    destruct (llen l'' <? len).
    + intros [= <- <- <-]. rewrite wrapped_expand, trimd_expand, Hl2.
      repeat split; [exact Hl1|exact Key].
    + intros [= <- <- <-]. rewrite Hl2. repeat split; [exact Hl1|exact Key].
Qed.

(** * 4. One iteration of the loop keeps the trimmed logical lines *)

Definition opt_cons (e : option line) (ls : list line) : list line :=
  match e with Some x => x :: ls | None => ls end.

Lemma rstep_logical c l it r it' e :
  last_not_wrapped (l :: it) -> rstep c l it = Ok (r, it', e) ->
  forall cur, map trimd (logical_go (l :: it) cur)
            = map trimd (logical_go (opt_cons e (pend r it')) cur).
Proof.
  intros L. unfold rstep. destruct (Nat.compare c (llen l)).
  - (* Eq *) intros [= <- <- <-] cur. reflexivity.
  - (* Lt *)
    destruct (line_contract c l) as [l' r0] eqn:E. intros [= <- <- <-] cur.
    apply line_contract_text in E. destruct r0 as [x|]; cbn [opt_cons pend].
    + destruct E as (W1 & W2 & K). apply lg_split; assumption.
    + destruct E as (W & K). apply lg_one; assumption.
  - (* Gt *)
    destruct it as [|next it0].
    + unfold line_expandM. destruct (line_expand_ok c l); cbn [bind]; [|discriminate].
      intros [= <- <- <-] cur. cbn [opt_cons pend].
      apply lnw_one in L. apply lg_one.
      * rewrite wrapped_set_wrapped. symmetry. exact L.
      * rewrite L, cells_set_wrapped. apply trimd_expand.
    + destruct (line_extend l next c) as [[l' [b r0]]|s] eqn:E; cbn [bind]; [|discriminate].
      apply line_extend_text in E. destruct b.
      * intros [= <- <- <-] cur. cbn [opt_cons]. destruct r0 as [x|]; cbn [pend].
        -- destruct E as (Wx & [(W & -> & K)|(W1 & W2 & K)]).
           ++ apply lg_one; assumption.
           ++ apply lg_two; assumption.
        -- destruct E as (W1 & W2 & W3 & K). apply lg_merge; [exact W1|congruence|].
           rewrite W2. exact K.
      * intros [= <- <- <-] cur. cbn [opt_cons pend]. destruct r0 as [x|]; [contradiction|].
        destruct E as (W1 & W2 & W3 & K). apply lg_merge; [exact W1|congruence|].
        rewrite W2. exact K.
Qed.

(** * 5. The loop *)

Lemma reflow_go_logical c :
  1 <= c -> forall fuel rest iter acc out,
  reflow_go fuel c rest iter acc = Ok out ->
  last_not_wrapped (pend rest iter) ->
  logical_t out = logical_t (rev acc ++ pend rest iter).
Proof.
  intros Hc. induction fuel as [|f IH]; intros rest iter acc out; [discriminate|].
  rewrite reflow_go_S. destruct (pend rest iter) as [|l it] eqn:P.
  - intros [= <-] _. rewrite app_nil_r. reflexivity.
  - destruct (rstep_spec c l it Hc) as (r & it' & e & E & _ & _ & _ & Hl).
    rewrite E. cbn [bind]. intros Eo L.
    destruct (Hl L) as (L1 & _).
    rewrite (IH r it' (push e acc) out Eo L1).
    unfold logical_t, logical.
    replace (rev (push e acc) ++ pend r it') with (rev acc ++ opt_cons e (pend r it')).
    2: { destruct e as [x|]; cbn [push opt_cons rev]; [|reflexivity].
         rewrite <- app_assoc. reflexivity. }
    rewrite !logical_go_app, !map_app. f_equal.
    symmetry. apply (rstep_logical c l it r it' e L E).
Qed.

(** ** C10, the heart: [reflow()] keeps every logical line (up to trailing default cells),
    their number and their order.  No hypothesis on the width of the input rows. *)
Theorem reflow_logical : forall ls c out,
  1 <= c -> last_not_wrapped ls -> reflowM ls c = Ok out -> logical_t out = logical_t ls.
Proof.
  intros ls c out Hc L. unfold reflowM.
  destruct (reflow_go (reflow_fuel ls) c None ls []) as [o|s] eqn:E; cbn [bind]; [|discriminate].
  destruct (forallb _ o); [|discriminate]. intros [= <-].
  apply (reflow_go_logical c Hc _ None ls [] o E L).
Qed.

Print Assumptions reflow_logical.

(** [last_not_wrapped] cannot be dropped for arbitrary rows: a trailing EMPTY wrapped row
    contributes no logical line, but is expanded and un-wrapped by the reflow.  (With rows of a
    uniform positive width no counterexample exists among all buffers of <= 3 rows of width
    <= 3 over {blank, x}; the hypothesis is then probably redundant, but [BInv] provides it.) *)
Example reflow_logical_needs_lnw :
  reflowM [mkLine [] true] 1 = Ok [mkLine [default_cell] false] /\
  logical_t [mkLine [] true] = [] /\ logical_t [mkLine [default_cell] false] = [[]].
Proof. vm_compute. repeat split. Qed.

(** * 6. Rows, logical lines and [curs_go] (generic facts, used by [ResizeText]) *)

Lemma lnw_app_r A B : B <> [] -> last_not_wrapped (A ++ B) -> last_not_wrapped B.
Proof.
  intros HB. induction A as [|a r IH]; [exact (fun H => H)|].
  intros H. apply IH. cbn [app] in H. destruct (r ++ B) as [|y t] eqn:E.
  - apply app_eq_nil in E. destruct E as (_ & E). contradiction.
  - exact H.
Qed.

Lemma lg_pre_lnw A : forall cur,
  last_not_wrapped A -> (A = [] -> cur = []) -> snd (lg_pre A cur) = [].
Proof.
  induction A as [|l r IH]; intros cur L H.
  - cbn [lg_pre snd]. apply H. reflexivity.
  - apply lnw_tail in L. destruct L as (L1 & L2). cbn [lg_pre].
    destruct (wrapped l) eqn:W.
    + apply IH; [exact L1|]. intros ->. specialize (L2 eq_refl). congruence.
    + specialize (IH [] L1 (fun _ => eq_refl)).
      destruct (lg_pre r []) as [d c']. exact IH.
Qed.

Lemma logical_lnw A : last_not_wrapped A -> logical A = fst (lg_pre A []).
Proof.
  intros L. unfold logical. rewrite <- (app_nil_r A) at 1.
  rewrite logical_go_app, lg_pre_lnw by auto. cbn [logical_go]. apply app_nil_r.
Qed.

Lemma logical_app_lnw A B : last_not_wrapped A -> logical (A ++ B) = logical A ++ logical B.
Proof.
  intros L. unfold logical at 1. rewrite logical_go_app, lg_pre_lnw by auto.
  rewrite <- logical_lnw by exact L. reflexivity.
Qed.

Lemma logical_t_app_lnw A B :
  last_not_wrapped A -> logical_t (A ++ B) = logical_t A ++ logical_t B.
Proof. intros L. unfold logical_t. rewrite logical_app_lnw by exact L. apply map_app. Qed.

Lemma trimd_repeat_default n : trimd (repeat (blank_cell default_pen) n) = [].
Proof. apply (trimd_app_default [] _ (repeat_default_all n)). Qed.

Lemma logical_t_blank c n : logical_t (repeat (blank_line c default_pen) n) = repeat [] n.
Proof.
  induction n as [|n IH]; [reflexivity|].
  change (repeat (blank_line c default_pen) (S n))
    with ([blank_line c default_pen] ++ repeat (blank_line c default_pen) n).
  rewrite logical_t_app_lnw by reflexivity. rewrite IH.
  unfold logical_t, logical. cbn [logical_go blank_line wrapped cells app map].
  rewrite trimd_repeat_default. reflexivity.
Qed.

(** padding with blank rows adds empty logical lines *)
Lemma logical_t_pad ls c n :
  last_not_wrapped ls ->
  logical_t (ls ++ repeat (blank_line c default_pen) n) = logical_t ls ++ repeat [] n.
Proof. intros L. rewrite logical_t_app_lnw by exact L. rewrite logical_t_blank. reflexivity. Qed.

Lemma curs_go_0 ls k off c : curs_go ls 0 k off c = (k, off).
Proof. destruct ls; reflexivity. Qed.

Lemma curs_go_app A B c : Forall (LineInv c) A -> forall k cur,
  curs_go (A ++ B) (length A) k (length cur) c =
  (k + length (fst (lg_pre A cur)), length (snd (lg_pre A cur))).
Proof.
  induction A as [|l r IH]; intros F k cur.
  - cbn [app length lg_pre fst snd]. rewrite curs_go_0. f_equal. lia.
  - apply Forall_cons_iff in F. destruct F as (Fl & Fr). unfold LineInv in Fl.
    cbn [app length curs_go lg_pre]. destruct (wrapped l).
    + replace (length cur + c) with (length (cur ++ cells l)) by (rewrite app_length; lia).
      apply IH. exact Fr.
    + pose proof (IH Fr (S k) []) as H. cbn [length] in H. rewrite H.
      destruct (lg_pre r []) as [d c']. cbn [fst snd length]. f_equal. lia.
Qed.

Lemma curs_go_app0 A B c : Forall (LineInv c) A ->
  curs_go (A ++ B) (length A) 0 0 c =
  (length (fst (lg_pre A [])), length (snd (lg_pre A []))).
Proof. intros F. exact (curs_go_app A B c F 0 []). Qed.

Lemma curs_go_firstn ls c : forall R k off,
  curs_go ls R k off c = curs_go (firstn R ls) R k off c.
Proof.
  induction ls as [|l r IH]; intros R k off.
  - destruct R; reflexivity.
  - destruct R as [|R]; [reflexivity|]. cbn [firstn curs_go]. destruct (wrapped l); apply IH.
Qed.

Lemma curs_go_same_prefix ls ls' c R k off :
  firstn R ls = firstn R ls' -> curs_go ls R k off c = curs_go ls' R k off c.
Proof. intros E. rewrite (curs_go_firstn ls), (curs_go_firstn ls'), E. reflexivity. Qed.

Lemma curs_go_step ls c : forall n k0 off0 l,
  nth_error ls n = Some l ->
  curs_go ls (S n) k0 off0 c =
  let '(k, off) := curs_go ls n k0 off0 c in if wrapped l then (k, off + c) else (S k, 0).
Proof.
  induction ls as [|a r IH]; intros n k0 off0 l N.
  - destruct n; discriminate N.
  - destruct n as [|n].
    + injection N as ->. cbn [curs_go]. rewrite !curs_go_0. reflexivity.
    + cbn [nth_error] in N.
      change (curs_go (a :: r) (S (S n)) k0 off0 c)
        with (if wrapped a then curs_go r (S n) k0 (off0 + c) c else curs_go r (S n) (S k0) 0 c).
      change (curs_go (a :: r) (S n) k0 off0 c)
        with (if wrapped a then curs_go r n k0 (off0 + c) c else curs_go r n (S k0) 0 c).
      destruct (wrapped a); apply IH; exact N.
Qed.

(** the cursor position is monotone in the row, strictly across a non-wrapped row *)
Lemma curs_go_mono ls c R : forall d k1 o1 k2 o2,
  R + d <= length ls ->
  curs_go ls R 0 0 c = (k1, o1) -> curs_go ls (R + d) 0 0 c = (k2, o2) ->
  (k1 < k2 \/ (k1 = k2 /\ o1 <= o2)) /\
  (1 <= d -> forall x, nth_error ls R = Some x -> wrapped x = false -> k1 < k2).
Proof.
  induction d as [|d IH]; intros k1 o1 k2 o2 Hle E1 E2.
  - rewrite Nat.add_0_r in E2. rewrite E1 in E2. injection E2 as <- <-.
    split; [right; split; [reflexivity|lia]|lia].
  - destruct (curs_go ls (R + d) 0 0 c) as [k' o'] eqn:E'.
    destruct (IH k1 o1 k' o' ltac:(lia) E1 eq_refl) as (M1 & M2).
    destruct (nth_error ls (R + d)) as [y|] eqn:N.
    2: { apply nth_error_None in N. lia. }
    replace (R + S d) with (S (R + d)) in E2 by lia.
    rewrite (curs_go_step ls c _ 0 0 y N), E' in E2.
    split.
    + destruct (wrapped y); injection E2 as <- <-; lia.
    + intros _ x Nx Wx. destruct d as [|d].
      * rewrite Nat.add_0_r in N, E'. rewrite E1 in E'. injection E' as <- <-.
        rewrite Nx in N. injection N as <-. rewrite Wx in E2. injection E2 as <- <-. lia.
      * specialize (M2 ltac:(lia) x Nx Wx). destruct (wrapped y); injection E2 as <- <-; lia.
Qed.

Lemma curs_go_total ls c :
  Forall (LineInv c) ls -> last_not_wrapped ls ->
  fst (curs_go ls (length ls) 0 0 c) = length (logical ls).
Proof.
  intros F L. rewrite <- (app_nil_r ls) at 1.
  rewrite (curs_go_app0 ls [] c F). cbn [fst]. rewrite logical_lnw by exact L. reflexivity.
Qed.

Lemma logical_go_head B : forall x cur,
  last_not_wrapped (x :: B) ->
  exists more tl, logical_go (x :: B) cur = (cur ++ cells x ++ more) :: tl /\
    (wrapped x = false -> more = []).
Proof.
  induction B as [|y B IH]; intros x cur L.
  - apply lnw_one in L. rewrite logical_go_cons, L. exists [], (logical_go [] []).
    rewrite app_nil_r. split; [reflexivity|reflexivity].
  - apply lnw_cons_cons in L. rewrite logical_go_cons. destruct (wrapped x) eqn:W.
    + destruct (IH y (cur ++ cells x) L) as (more & tl & E & _).
      exists (cells y ++ more), tl. rewrite E, <- !app_assoc. split; [reflexivity|discriminate].
    + exists [], (logical_go (y :: B) []). rewrite app_nil_r. split; reflexivity.
Qed.

(** row [length A] of [A ++ x :: B] sits at offset [off] of logical line [k], where [(k, off)]
    is what [curs_go] computes; a non-wrapped row ends its logical line; cutting the buffer
    after that row cuts logical line [k] after the row and drops the later ones *)
Lemma row_in_logical_split A x B c k off :
  Forall (LineInv c) A -> last_not_wrapped (A ++ x :: B) ->
  curs_go (A ++ x :: B) (length A) 0 0 c = (k, off) ->
  exists D pre more tl,
    logical (A ++ x :: B) = D ++ (pre ++ cells x ++ more) :: tl /\
    logical (A ++ [x <| wrapped := false |>]) = D ++ [pre ++ cells x] /\
    length D = k /\ length pre = off /\ (wrapped x = false -> more = []).
Proof.
  intros FA L E. rewrite (curs_go_app0 A (x :: B) c FA) in E.
  injection E as E1 E2.
  assert (Lx : last_not_wrapped (x :: B)) by (apply (lnw_app_r A); [discriminate|exact L]).
  destruct (logical_go_head B x (snd (lg_pre A [])) Lx) as (more & tl & Eh & Hm).
  exists (fst (lg_pre A [])), (snd (lg_pre A [])), more, tl.
  split; [|split; [|split; [exact E1|split; [exact E2|exact Hm]]]].
  - unfold logical. rewrite logical_go_app, Eh. reflexivity.
  - unfold logical. rewrite logical_go_app, logical_go_cons, wrapped_set_wrapped, cells_set_wrapped.
    reflexivity.
Qed.

Lemma row_in_logical ls c R x k off :
  Forall (LineInv c) ls -> last_not_wrapped ls -> nth_error ls R = Some x ->
  curs_go ls R 0 0 c = (k, off) ->
  exists D pre more tl,
    logical ls = D ++ (pre ++ cells x ++ more) :: tl /\
    length D = k /\ length pre = off /\ (wrapped x = false -> more = []).
Proof.
  intros F L N E. destruct (nth_error_split ls R N) as (A & B & -> & HA).
  apply Forall_app in F. destruct F as (FA & _). rewrite <- HA in E.
  destruct (row_in_logical_split A x B c k off FA L E) as (D & pre & more & tl & E1 & _ & R1).
  exists D, pre, more, tl. split; [exact E1|exact R1].
Qed.

(** * 7. Every output row is a window of its logical line

    Row [R] of the output, at logical position [(k, off)] (as computed by [curs_go]: [k] is the
    index of its logical line, [off] the number of cells of that line in earlier rows, a
    multiple of [c]), has exactly [c] cells and these are the [c] cells at offset [off] of the
    INPUT's logical line [k] -- trimmed of its trailing default cells and padded again with
    default cells.  In particular a soft-wrapped row is never trimmed or padded in the middle
    of the text: rows [off = 0, c, 2c, ...] of line [k] tile it without gap. *)
Theorem reflow_rows : forall ls c out R x k off,
  1 <= c -> last_not_wrapped ls -> reflowM ls c = Ok out ->
  nth_error out R = Some x -> curs_go out R 0 0 c = (k, off) ->
  k < length (logical_t ls) /\ llen x = c /\
  exists d, forallb cell_is_default d = true /\
    cells x = firstn c (skipn off (nth k (logical_t ls) [] ++ d)).
Proof.
  intros ls c out R x k off Hc L E N C.
  destruct (reflow_total ls c Hc) as (out' & E' & F & _ & Lo).
  rewrite E in E'. injection E' as <-. specialize (Lo L).
  pose proof (reflow_logical ls c out Hc L E) as T.
  destruct (row_in_logical out c R x k off F Lo N C) as (D & pre & more & tl & EL & HD & Hpre & _).
  assert (Hx : llen x = c).
  { rewrite Forall_forall in F. apply F. eapply nth_error_In. exact N. }
  assert (Tk : nth k (logical_t ls) [] = trimd (pre ++ cells x ++ more)).
  { rewrite <- T. unfold logical_t. rewrite EL, map_app, app_nth2 by (rewrite map_length; lia).
    rewrite map_length, HD, Nat.sub_diag. reflexivity. }
  split; [|split; [exact Hx|]].
  - rewrite <- T. unfold logical_t. rewrite map_length, EL, app_length. cbn [length]. lia.
  - destruct (trimd_split (pre ++ cells x ++ more)) as (d & Ed & Dd & _).
    exists d. split; [exact Dd|]. rewrite Tk, <- Ed.
    rewrite skipn_app, skipn_all2 by lia. rewrite Hpre, Nat.sub_diag. cbn [skipn app].
    rewrite firstn_app. unfold llen in Hx. rewrite Hx, Nat.sub_diag. cbn [firstn].
    rewrite app_nil_r. symmetry. apply firstn_all2. lia.
Qed.

Print Assumptions reflow_rows.
