(** Property C11, rows part: list-level facts about [Buffer::dump].

    - [chunks]: the chunks of a line concatenate to its cells, none is empty, all cells of a
      chunk carry the pen of its first cell;
    - [dump_cutoff]: rows from the cut-off on are blank and unwrapped; the row before the
      cut-off is unwrapped (unless the cut-off is the number of rows);
    - [pen_ops_exact]: the SGR operations of [pen_dump p], folded over ANY pen, give exactly
      [p] when [attrs p < 32];
    - the abstract replay state [(done, cur)] and [a_put]. *)

From Coq Require Import Lia ZArith ZifyBool ZifyNat ZifyN.
From Avt Require Import Model.Vt Spec.Screen Proofs.Inv Proofs.ListLemmasS Proofs.DumpPen Proofs.PenInv.
From Avt Require Import Gen.Consts.
Ltac Zify.zify_post_hook ::= Z.div_mod_to_equations.

(** * 0. pens *)

Lemma dr_color_eqb_eq a b : color_eqb a b = true -> a = b.
Proof.
  destruct a as [i|r g b0], b as [j|r' g' b']; cbn [color_eqb]; try discriminate.
  - intros H. apply N.eqb_eq in H. congruence.
  - intros H. apply andb_prop in H as [H H3]. apply andb_prop in H as [H1 H2].
    apply N.eqb_eq in H1, H2, H3. congruence.
Qed.

Lemma dr_opt_color_eqb_eq a b : opt_eqb color_eqb a b = true -> a = b.
Proof.
  destruct a as [x|], b as [y|]; cbn [opt_eqb]; try discriminate; [|reflexivity].
  intros H. apply dr_color_eqb_eq in H. congruence.
Qed.

Lemma dr_inten_eqb_eq a b : inten_eqb a b = true -> a = b.
Proof. destruct a, b; cbn; congruence. Qed.

Lemma dr_pen_eqb_eq p q : pen_eqb p q = true -> p = q.
Proof.
  destruct p as [f1 b1 i1 a1], q as [f2 b2 i2 a2]. unfold pen_eqb. cbn [foreground background intensity attrs].
  intros H. apply andb_prop in H as [H H4]. apply andb_prop in H as [H H3]. apply andb_prop in H as [H1 H2].
  apply dr_opt_color_eqb_eq in H1, H2. apply dr_inten_eqb_eq in H3. apply N.eqb_eq in H4. congruence.
Qed.

(** the operations of [pen_dump p] rebuild [p] exactly (not just observationally) *)
Definition flags_of (a : N) : list sgr_op :=
  flag_ops (negb (N.land a ITALIC_MASK =? 0)%N) SetItalic
  ++ flag_ops (negb (N.land a UNDERLINE_MASK =? 0)%N) SetUnderline
  ++ flag_ops (negb (N.land a BLINK_MASK =? 0)%N) SetBlink
  ++ flag_ops (negb (N.land a INVERSE_MASK =? 0)%N) SetInverse
  ++ flag_ops (negb (N.land a STRIKETHROUGH_MASK =? 0)%N) SetStrikethrough.

Lemma flags_exact (fg bg : option color) (i : inten) (a : N) :
  (a < 32)%N -> fold_left sgr_one (flags_of a) (mkPen fg bg i 0) = mkPen fg bg i a.
Proof.
  intros Ha. destruct a as [|p]; [reflexivity|].
  do 6 (try (destruct p as [p|p|]; try (exfalso; lia); try reflexivity)).
Qed.

Theorem pen_ops_exact : forall p q, (attrs p < 32)%N -> fold_left sgr_one (pen_ops p) q = p.
Proof.
  intros [fg bg i a] q Ha. cbn [attrs] in Ha.
  unfold pen_ops, pen_has. cbn [foreground background intensity attrs].
  fold (flags_of a). cbn [fold_left sgr_one]. rewrite !fold_left_app.
  destruct fg as [cf|], bg as [cb|], i; cbn [opt_color_ops inten_ops fold_left sgr_one];
    exact (flags_exact _ _ _ a Ha).
Qed.

Corollary pen_ops_wf : forall p q, pen_wf p -> pen_wf (fold_left sgr_one (pen_ops p) q).
Proof. intros p q H. rewrite pen_ops_exact; [exact H|apply H]. Qed.

(** * 1. chunks *)

Definition upen (p : pen) (ck : list cell) : Prop := Forall (fun c => cpen c = p) ck.

(** a chunk as [dump_chunks] needs it: not empty, one pen *)
Definition chunk_ok (ck : list cell) : Prop :=
  match ck with [] => False | c0 :: _ => upen (cpen c0) ck end.

Lemma chunk_ok_intro p ck : ck <> [] -> upen p ck -> chunk_ok ck.
Proof.
  destruct ck as [|c0 r]; [congruence|]. intros _ H. unfold chunk_ok.
  pose proof (Forall_inv H) as H0. cbn beta in H0. rewrite H0. exact H.
Qed.

Lemma upen_rev p l : upen p l -> upen p (rev l).
Proof. apply Forall_rev. Qed.

Lemma chunks_go_concat l : forall cur, concat (chunks_go cur l) = rev cur ++ l.
Proof.
  induction l as [|c r IH]; intros cur; cbn [chunks_go].
  - destruct cur as [|x cur]; [reflexivity|]. cbn [concat]. now rewrite !app_nil_r.
  - destruct cur as [|lst cur].
    + rewrite IH. reflexivity.
    + destruct (negb (pen_eqb (cpen lst) (cpen c))).
      * cbn [concat]. rewrite IH. reflexivity.
      * rewrite IH. cbn [rev]. rewrite <- app_assoc. reflexivity.
Qed.

Lemma chunks_go_ok l : forall cur p, upen p cur -> Forall chunk_ok (chunks_go cur l).
Proof.
  induction l as [|c r IH]; intros cur p Hu; cbn [chunks_go].
  - destruct cur as [|x cur]; [constructor|]. constructor; [|constructor].
    apply (chunk_ok_intro p); [|apply upen_rev; exact Hu].
    cbn [rev]. intros E. apply app_eq_nil in E as [_ E]. discriminate.
  - destruct cur as [|lst cur].
    + apply (IH [c] (cpen c)). constructor; [reflexivity|constructor].
    + destruct (pen_eqb (cpen lst) (cpen c)) eqn:E; cbn [negb].
      * apply (IH (c :: lst :: cur) p). constructor; [|exact Hu].
        apply dr_pen_eqb_eq in E. rewrite <- E. exact (Forall_inv Hu).
      * constructor.
        -- apply (chunk_ok_intro p); [|apply upen_rev; exact Hu].
           cbn [rev]. intros E'. apply app_eq_nil in E' as [_ E']. discriminate.
        -- apply (IH [c] (cpen c)). constructor; [reflexivity|constructor].
Qed.

Theorem chunks_concat l : concat (chunks l) = cells l.
Proof. unfold chunks. rewrite chunks_go_concat. reflexivity. Qed.

Theorem chunks_ok l : Forall chunk_ok (chunks l).
Proof. unfold chunks. apply (chunks_go_ok _ [] default_pen). constructor. Qed.

(** * 2. the cut-off *)

Definition quiet (l : line) : Prop := wrapped l = false /\ line_is_blank l = true.

Definition dline : line := mkLine [] false.

Lemma dump_cutoff_spec v : forall i pw c0, c0 <= i ->
  let k := dump_cutoff v i pw c0 in
  (k = c0 /\ (v <> [] -> pw = false) /\ Forall quiet v)
  \/ (i < k /\ k <= i + length v /\ Forall quiet (skipn (k - i) v)
      /\ (k - i < length v -> wrapped (nth (k - i - 1) v dline) = false)).
Proof.
  induction v as [|l r IH]; intros i pw c0 Hc; cbn [dump_cutoff].
  - left. split; [reflexivity|]. split; [congruence|constructor].
  - set (c1 := if pw || wrapped l || negb (line_is_blank l) then S i else c0).
    assert (Hc1 : c1 <= S i) by (subst c1; destruct (pw || wrapped l || negb (line_is_blank l)); lia).
    specialize (IH (S i) (wrapped l) c1 Hc1). cbn zeta in IH.
    set (k := dump_cutoff r (S i) (wrapped l) c1) in *. clearbody k.
    destruct IH as [(Ek & Hw & Hq)|(Hlt & Hle & Hq & Hw)].
    + subst c1. destruct (pw || wrapped l || negb (line_is_blank l)) eqn:Econd.
      * right. subst k. split; [lia|]. split; [cbn [length]; lia|].
        replace (S i - i) with 1 by lia. cbn [skipn]. split; [exact Hq|].
        cbn [length nth Nat.sub]. intros Hr. apply Hw. destruct r; [cbn [length] in Hr; lia|congruence].
      * left. split; [exact Ek|].
        apply orb_false_elim in Econd as [Econd Hb]. apply orb_false_elim in Econd as [Hpw Hwl].
        split; [intros _; exact Hpw|]. constructor; [|exact Hq].
        split; [exact Hwl|]. now destruct (line_is_blank l).
    + right. split; [lia|]. split; [cbn [length]; lia|].
      replace (k - i) with (S (k - S i)) by lia. cbn [skipn]. split; [exact Hq|].
      cbn [length]. intros Hr. replace (S (k - S i) - 1) with (S (k - S i - 1)) by lia.
      cbn [nth]. apply Hw. lia.
Qed.

Lemma cell_is_default_eq c : cell_is_default c = true -> c = default_cell.
Proof.
  destruct c as [x p]. unfold cell_is_default, pen_is_default. cbn [ch cpen].
  intros H. apply andb_prop in H as [H1 H2]. apply N.eqb_eq in H1. apply dr_pen_eqb_eq in H2.
  subst. reflexivity.
Qed.

Lemma quiet_blank c l : quiet l -> length (cells l) = c -> l = blank_line c default_pen.
Proof.
  intros [Hw Hb] Hl. destruct l as [cs w]. cbn [wrapped cells] in *. subst w.
  unfold blank_line. f_equal. unfold line_is_blank in Hb. cbn [cells] in Hb. subst c.
  induction cs as [|x cs IH]; [reflexivity|].
  cbn [forallb] in Hb. apply andb_prop in Hb as [Hx Hb].
  cbn [length repeat]. rewrite <- (IH Hb). f_equal. apply cell_is_default_eq. exact Hx.
Qed.

Lemma Forall_quiet_blank c v :
  Forall quiet v -> Forall (LineInv c) v -> v = repeat (blank_line c default_pen) (length v).
Proof.
  induction 1 as [|l v Hl _ IH]; intros HF; [reflexivity|].
  cbn [length repeat]. rewrite <- (IH (Forall_inv_tail HF)). f_equal.
  apply quiet_blank; [exact Hl|exact (Forall_inv HF)].
Qed.

(** the top-level facts: the view splits at the cut-off into the dumped rows and blanks, and
    the last dumped row is not soft-wrapped *)
Theorem cutoff_facts c (V : list line) :
  Forall (LineInv c) V -> last_not_wrapped V ->
  let k := dump_cutoff V 0 false 0 in
  k <= length V
  /\ V = firstn k V ++ repeat (blank_line c default_pen) (length V - k)
  /\ last_not_wrapped (firstn k V).
Proof.
  intros HL Hlast k. pose proof (dump_cutoff_spec V 0 false 0 (le_n 0)) as S. cbn zeta in S.
  fold k in S. destruct S as [(Ek & _ & Hq)|(Hlt & Hle & Hq & Hw)].
  - rewrite Ek. cbn [firstn app]. split; [lia|]. split; [|exact I].
    rewrite Nat.sub_0_r. apply Forall_quiet_blank; assumption.
  - rewrite Nat.sub_0_r in *. cbn [Nat.add] in Hle. split; [exact Hle|]. split.
    + rewrite <- (firstn_skipn k V) at 1. f_equal.
      rewrite (Forall_quiet_blank c _ Hq (Forall_skipn_S _ _ _ HL)), skipn_length. reflexivity.
    + destruct (Nat.eq_dec k (length V)) as [E|E].
      * rewrite E, firstn_all. exact Hlast.
      * specialize (Hw ltac:(lia)).
        assert (Es : firstn k V = firstn (k - 1) V ++ [nth (k - 1) V dline]).
        { replace k with (S (k - 1)) at 1 by lia.
          assert (Hk : k - 1 < length V) by lia. revert Hk. generalize (k - 1) as n. clear.
          induction V as [|x V IH]; intros n Hn; [cbn [length] in Hn; lia|].
          destruct n as [|n]; [reflexivity|]. cbn [length] in Hn.
          change (firstn (S (S n)) (x :: V)) with (x :: firstn (S n) V).
          rewrite (IH n) by lia. reflexivity. }
        unfold last_not_wrapped. rewrite Es, last_opt_snoc. exact Hw.
Qed.

(** * 3. the abstract replay state *)

(** [done]: the rows completed so far (final cells and wrap flags); [cur]: the cells printed
    so far on the cursor row. [length cur = c] means the wrap is pending. *)
Definition astate := (list line * list cell)%type.

Section Abs.
Variables c r : nat.

Definition a_put (s : astate) (cs : list cell) : astate :=
  match cs with
  | [] => s
  | _ => let '(dn, cur) := s in
         if length cur <? c then (dn, cur ++ cs) else (dn ++ [mkLine cur true], cs)
  end.

(** [n] more cells can be printed without scrolling and without leaving the (possibly new) row *)
Definition room (s : astate) (n : nat) : Prop :=
  let '(dn, cur) := s in
  n = 0 \/ (length cur < c /\ length cur + n <= c) \/ (length cur = c /\ length dn + 1 < r /\ n <= c).

Definition a_crlf (s : astate) : astate :=
  let '(dn, cur) := s in
  (dn ++ [mkLine (cur ++ blanks (c - length cur) default_pen) false], []).

(** the view, cursor of an abstract state *)
Definition sview (s : astate) : list line :=
  let '(dn, cur) := s in
  dn ++ mkLine (cur ++ blanks (c - length cur) default_pen) false
     :: repeat (blank_line c default_pen) (r - length dn - 1).

Lemma a_put_nil s : a_put s [] = s.
Proof. reflexivity. Qed.

Lemma room_app s n m : room s (n + m) -> room s n.
Proof. destruct s as [dn cur]. unfold room. lia. Qed.

Lemma room_le s n m : room s m -> n <= m -> room s n.
Proof. destruct s as [dn cur]. unfold room. lia. Qed.

Lemma a_put_app s cs1 cs2 :
  room s (length cs1 + length cs2) ->
  a_put (a_put s cs1) cs2 = a_put s (cs1 ++ cs2) /\ room (a_put s cs1) (length cs2).
Proof.
  destruct s as [dn cur]. intros H.
  destruct cs1 as [|x1 cs1]; [cbn [length Nat.add] in H; split; [reflexivity|exact H]|].
  destruct cs2 as [|x2 cs2]; [rewrite app_nil_r; split; [reflexivity|]|].
  - unfold a_put at 1. destruct (length cur <? c); unfold room; cbn [length]; lia.
  - unfold room in H. cbn [length] in H.
    unfold a_put. cbn [app]. destruct (Nat.ltb_spec (length cur) c) as [Hlt|Hge].
    + unfold room. rewrite app_length. cbn [length].
      replace (length cur + S (length cs1) <? c) with true by lia.
      rewrite <- app_assoc. split; [reflexivity|lia].
    + unfold room. cbn [length].
      replace (S (length cs1) <? c) with true by lia.
      split; [reflexivity|lia].
Qed.

Lemma a_put_last s x cs : exists pre, snd (a_put s (cs ++ [x])) = pre ++ [x].
Proof.
  destruct s as [dn cur]. unfold a_put.
  destruct (cs ++ [x]) eqn:E; [apply app_eq_nil in E as [_ E]; discriminate|]. rewrite <- E.
  destruct (length cur <? c); cbn [snd].
  - exists (cur ++ cs). now rewrite app_assoc.
  - exists cs. reflexivity.
Qed.

End Abs.

Print Assumptions pen_ops_exact.
Print Assumptions chunks_concat.
Print Assumptions chunks_ok.
Print Assumptions cutoff_facts.
