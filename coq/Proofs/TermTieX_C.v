(** [tie_execute_all] for one group of [func] constructors that forward to trace-style functions
    (compiled in parallel with the other groups; assembled in Proofs/TermTieX.v) *)
From Coq Require Import Lia ZArith ZifyBool ZifyNat ZifyN.
From Avt Require Import Oracles.Step Proofs.Inv Proofs.TermEasy Gen.TermFns Proofs.TermTie_Core Proofs.InvStep
  Proofs.TermTieW_Core.
Ltac Zify.zify_post_hook ::= Z.div_mod_to_equations.
Local Open Scope Z_scope.

Definition xgrp_C (f : func) : bool := match f with Dl _ | G1d4 _ | Gzd4 _ | Hts | Il _ | Lf | Nel | Ri | Sd _ | Si | So | Su _ | Vpa _ | Vpr _ => true | _ => false end.

Lemma tie_execute_C : forall t f, TInv t -> xgrp_C f = true ->
  w_execute Om (zabs t) (wabs t) f = Some (wres (execute t f)).
Proof.
  intros t f HT Hf. pose proof (TInv_ZW t HT) as H.
  destruct f; try discriminate Hf; cbn [w_execute execute]; f_equal; w_tie t H.
Qed.
