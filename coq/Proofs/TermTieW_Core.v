(** The tie for the methods of [impl Terminal] that mix scalar logic with calls into buffer / tabs /
    dirty lines and need answers back from them (W-mode functions of Gen/TermFns.v).

    A W-mode function [w_f O s w args] threads the scalar record [s : zt] and an abstract non-scalar world
    [w : W] behind the interface [O : zops W]: [op_ev] performs a call, the [q_*] fields answer queries.
    Here the interface is instantiated with the model: [W := term] (its scalar fields zeroed by [wabs]),
    [op_ev := run_ev] (the model's own primitives), queries := the model's [tabs_after], [tabs_before],
    [get_row]/[nth_error], [bcols], [translate].  One equation per function:

      [w_f Om (zabs t) (wabs t) args = wres (f t args)]

    i.e. the regenerated Rust code, run on the abstraction of [t] with the model's primitives, performs the
    same primitive calls with the same arguments in the same order, panics exactly when the model panics,
    never underflows / casts a negative number ([ok = true]) and ends in the abstraction of the model's
    result.  The equations compose (loops by induction). *)

From Coq Require Import Lia ZArith ZifyBool ZifyNat ZifyN.
From Avt Require Import Oracles.Step Proofs.Inv Proofs.TermEasy Gen.TermFns Proofs.TermTie_Core Proofs.InvStep.
Ltac Zify.zify_post_hook ::= Z.div_mod_to_equations.
Local Open Scope Z_scope.

Definition ores {A} (r : res A) : option A := match r with Ok a => Some a | Panic _ => None end.

Definition zzero : zt := {|
  z_cols := 0; z_rows := 0; z_col := 0; z_row := 0; z_pend := false; z_top := 0; z_bot := 0;
  z_org := false; z_nlm := false; z_acs := 0; z_cs0 := CsAscii; z_cs1 := CsAscii; z_ins := false;
  z_awm := false; z_vis := false; z_ckm := false; z_ev := []
|}.

(** the non-scalar part of a terminal: the scalar fields are zeroed *)
Definition wabs (t : term) : term := zput zzero t.

(** the methods taken as one opaque step: the model's own functions on the recombined terminal *)
Definition full_model (x : zfull) (t : term) : res term :=
  match x with
  | XSaveCursor => Ok (save_cursor t)
  | XRestoreCursor => Ok (restore_cursor t)
  | XSoftReset => Ok (soft_reset_gen t)
  | XHardReset => Ok (hard_reset_gen t)
  | XSwitchAlt => switch_to_alternate_buffer t
  | XSwitchPrimary => switch_to_primary_buffer t
  | XReflow => reflow t
  | XSgr ops => Ok (sgr t ops)
  | XXtwinops op => xtwinops t op
  end.

(** [zput] under a name that the normalisation tactic leaves folded *)
Definition zput_opaque := zput.

Definition Om : zops term := {|
  op_ev := fun w e => ores (run_ev w e);
  op_full := fun x s w =>
    match full_model x (zput_opaque s w) with Ok t' => Some (zabs t', wabs t') | Panic _ => None end;
  q_tabs_after := fun w c n =>
    ores (o <- tabs_after (tabs w) (Z.to_nat c) (Z.to_nat n) ;; Ok (option_map Z.of_nat o));
  q_tabs_before := fun w c n =>
    ores (o <- tabs_before (tabs w) (Z.to_nat c) (Z.to_nat n) ;; Ok (option_map Z.of_nat o));
  q_buf_char := fun w c r =>
    ores (l <- get_row (buf w) (Z.to_nat r) ;;
          match nth_error (cells l) (Z.to_nat c) with
          | Some x => Ok (Z.of_N (ch x))
          | None => Panic 72
          end);
  q_buf_cols := fun w => Z.of_nat (bcols (buf w));
  q_translate := fun cs c => ores (c' <- translate cs (Z.to_N c) ;; Ok (Z.of_N c'));
  op_buf_resize := fun w c r cc cr =>
    ores ('(b, (x, y)) <- buf_resize (buf w) (Z.to_nat c) (Z.to_nat r) (Z.to_nat cc) (Z.to_nat cr) ;;
          Ok (w <| buf := b |>, (Z.of_nat x, Z.of_nat y)));
  q_sctx_col := fun w => Z.of_nat (sc_col (sctx w));
  q_sctx_row := fun w => Z.of_nat (sc_row (sctx w));
  q_sctx_org := fun w => sc_origin (sctx w);
  q_sctx_awm := fun w => sc_awm (sctx w);
  q_xtw := fun w => xtw w;
  q_active := fun w => active w
|}.

Definition wres (r : res term) : option (zt * term * bool) :=
  match r with Ok t' => Some (zabs t', wabs t', true) | Panic _ => None end.

(** the scalar facts the side conditions need; preserved by every control function *)
Definition ZW (t : term) : Prop := (1 <= cols t /\ 1 <= rows t /\ acs t <= 1)%nat.

Lemma TInv_ZW t : TInv t -> ZW t.
Proof. intros H. destruct H. repeat split; assumption. Qed.

Lemma z2n_ofN n : Z.to_nat (Z.of_N n) = N.to_nat n.
Proof. lia. Qed.

(** normalise everything except arithmetic and the model's primitives (call-by-need) *)
Ltac nrm_w :=
  lazy -[Z.add Z.sub Z.opp Z.mul Z.leb Z.ltb Z.eqb Z.min Z.max Z.of_nat Z.of_N Z.to_nat Z.to_N Z.le Z.lt
         N.eqb N.to_nat Nat.sub Nat.add Nat.min Nat.max Nat.leb Nat.ltb Nat.eqb Nat.lt andb orb negb
         buf_scroll_up buf_scroll_down buf_print buf_insert buf_delete buf_erase buf_wrap
         dirty_extend dirty_add tabs_set tabs_unset tabs_after tabs_before translate get_row nth_error
         buf_resize dirty_resize buffer_new tabs_contract tabs_expand Z.compare Nat.compare
         full_model zput_opaque wres zabs wabs].

Ltac z2n_w :=
  repeat first [ rewrite Nat2Z.id | rewrite N2Z.id | rewrite z2n_ofN | rewrite z2n_succ
               | rewrite z2n_pred by lia
               | progress change (Z.to_nat 1) with 1%nat | progress change (Z.to_nat 0) with 0%nat ].

(** split on the result of a primitive call, innermost first *)
Ltac brk_w :=
  match goal with
  | |- context [match ?m with Ok _ => _ | Panic _ => _ end] =>
    lazymatch m with
    | Ok _ => fail
    | Panic _ => fail
    | context [match _ with Ok _ => _ | Panic _ => _ end] => fail
    | context [if _ then _ else _] => fail
    | _ => destruct m eqn:?
    end
  | |- context [match ?m with Some _ => _ | None => _ end] =>
    lazymatch m with
    | Some _ => fail
    | None => fail
    | context [match _ with Ok _ => _ | Panic _ => _ end] => fail
    | context [match _ with Some _ => _ | None => _ end] => fail
    | context [if _ then _ else _] => fail
    | _ => destruct m eqn:?
    end
  end.

(** one split on an [if], innermost condition first *)
Ltac brk1 :=
  match goal with
  | |- context [if ?b then _ else _] =>
    lazymatch b with
    | context [if _ then _ else _] => fail
    | _ => destruct b eqn:?
    end
  end.

(** make the two sides' calls of the same primitive syntactically equal when [lia] can equate the arguments *)
Ltac same_calls :=
  repeat match goal with
         | |- context [match ?m1 with Ok _ => _ | Panic _ => _ end] =>
           match goal with
           | |- context [match ?m2 with Ok _ => _ | Panic _ => _ end] =>
             tryif constr_eq m1 m2 then fail else
               (let E := fresh in
                assert (E : m2 = m1) by (f_equal; try reflexivity; try lia; f_equal; try reflexivity; lia);
                rewrite E; clear E)
           end
         end.

(** split on a three-way comparison *)
Ltac brk_cmp :=
  match goal with
  | |- context [match (?a ?= ?b)%Z with Eq => _ | Lt => _ | Gt => _ end] => destruct (Z.compare_spec a b)
  | |- context [match (?a ?= ?b)%nat with Eq => _ | Lt => _ | Gt => _ end] => destruct (Nat.compare_spec a b)
  end.

Ltac split_pairs :=
  repeat match goal with
         | p : (buffer * (nat * nat))%type |- _ => destruct p as [? [? ?]]
         end.

(** equality of records (possibly nested) whose fields differ by arithmetic *)
Ltac flds := first [ reflexivity | lia | progress f_equal; flds ].

Ltac w_fin :=
  first [ reflexivity
        | exfalso; lia
        | f_equal; repeat (apply pair_equal_spec; split); flds ].

Ltac w_loop :=
  unfold wres, zabs, wabs; nrm_w; z2n_w;
  repeat (first [ brk1 | brk_cmp | same_calls; brk_w ]; split_pairs; try (exfalso; lia); nrm_w; z2n_w);
  w_fin.

Ltac w_tie2 H :=
  let a := fresh "Hcols" in let b := fresh "Hrows" in let c := fresh "Hacs" in
  destruct H as (a & b & c);
  cbn [Types.cols Types.rows Types.acs] in a, b, c;
  w_loop.

Ltac w_tie t H := destruct t; w_tie2 H.

(** * loops *)

(** a W-mode loop whose body is tied to a model step is tied to the model's fold *)
Lemma zfor_tie {B C : Type} (g : C -> B) (l : list C)
      (body : B -> zt * term * bool -> option (zt * term * bool)) (step : term -> C -> res term)
      (P : term -> Prop) :
  (forall t x, P t -> body (g x) (zabs t, wabs t, true) = wres (step t x)) ->
  (forall t x t', P t -> step t x = Ok t' -> P t') ->
  forall t, P t -> zfor (map g l) body (zabs t, wabs t, true) = wres (foldM step l t).
Proof.
  intros Hb Hp. induction l as [|x l IH]; intros t Ht; cbn [map zfor foldM].
  - reflexivity.
  - rewrite Hb by exact Ht. unfold bind. destruct (step t x) as [t1|c] eqn:E; cbn [wres zb].
    + apply IH. exact (Hp t x t1 Ht E).
    + reflexivity.
Qed.

Lemma foldM_pure {A B} (f : A -> B -> A) l : forall a, foldM (fun a x => Ok (f a x)) l a = Ok (fold_left f l a).
Proof. induction l as [|x l IH]; intros a; cbn [foldM fold_left]; [reflexivity|]. unfold bind. apply IH. Qed.

Lemma zrange_0 k : zrange 0 (Z.of_nat k) = map (fun i => 0 + Z.of_nat i) (seq 0 k).
Proof. unfold zrange. replace (Z.to_nat (Z.of_nat k - 0)) with k by lia. reflexivity. Qed.

Lemma ZW_same t t' : cols t' = cols t -> rows t' = rows t -> acs t' = acs t -> ZW t -> ZW t'.
Proof. unfold ZW. intros -> -> ->. exact (fun H => H). Qed.


Lemma g_as_usize_1 n : g_as_usize (Z.of_N n) 1 = (Z.of_nat (as_usize n 1), true).
Proof. exact (g_as_usize_eq n 1). Qed.

Lemma wabs_buf t : buf (wabs t) = buf t.
Proof. destruct t; reflexivity. Qed.


(** the scalar facts survive these steps *)
Lemma ZW_save t : ZW t -> ZW (save_cursor t).
Proof. destruct t. exact (fun H => H). Qed.
Lemma ZW_restore t : ZW t -> ZW (restore_cursor t).
Proof. destruct t. exact (fun H => H). Qed.
Lemma ZW_switch_alt t t' : ZW t -> switch_to_alternate_buffer t = Ok t' -> ZW t'.
Proof.
  destruct t. unfold switch_to_alternate_buffer, mark_range, bind. destruct active; cbn.
  - destruct (dirty_extend _ _ _); intros H E; [|discriminate]. injection E as <-. exact H.
  - intros H E. injection E as <-. exact H.
Qed.
Lemma ZW_switch_pri t t' : ZW t -> switch_to_primary_buffer t = Ok t' -> ZW t'.
Proof.
  destruct t. unfold switch_to_primary_buffer, mark_range, bind. destruct active; cbn.
  - intros H E. injection E as <-. exact H.
  - destruct (dirty_extend _ _ _); intros H E; [|discriminate]. injection E as <-. exact H.
Qed.


(** * opaque steps *)
Lemma zput_zabs_wabs t : zput (zabs t) (wabs t) = t.
Proof. destruct t. unfold zput, zabs, wabs, zzero. nrm_w. z2n_w. reflexivity. Qed.

Lemma op_full_eq x t :
  op_full Om x (zabs t) (wabs t)
  = match full_model x t with Ok t' => Some (zabs t', wabs t') | Panic _ => None end.
Proof. cbn [op_full Om]. unfold zput_opaque. rewrite zput_zabs_wabs. reflexivity. Qed.

Ltac full_steps :=
  unfold bind;
  repeat (rewrite op_full_eq; cbn [full_model];
          try match goal with
              | |- ?L = _ =>
                match L with
                | context [zb (match ?m with Ok _ => _ | Panic _ => _ end) _] =>
                  lazymatch m with Ok _ => fail | _ => destruct m end
                end
              end;
          cbn [zb]);
  cbn [wres]; reflexivity.


Lemma step_TInv (one : term -> dec_mode -> res term) (mk : list dec_mode -> func) :
  (forall t ms, execute t (mk ms) = foldM one ms t) ->
  forall t m t', TInv t -> one t m = Ok t' -> TInv t'.
Proof.
  intros Hx t m t' H E. destruct (execute_ok t (mk [m]) H) as (t2 & E2 & H2).
  rewrite Hx in E2. cbn [foldM] in E2. unfold bind in E2. rewrite E in E2. congruence.
Qed.

(** one composed step: rewrite with a tie equation, split on the model's result *)
Ltac cstep L :=
  rewrite L by eauto using ZW_save, ZW_restore, ZW_switch_alt, ZW_switch_pri; unfold bind; cbn [wres zb];
  try match goal with
      | |- ?L = _ =>
        match L with
        | context [match ?m with Ok _ => _ | Panic _ => _ end] =>
          lazymatch m with Ok _ => fail | _ => destruct m eqn:? end
        | context [wres ?m] =>
          lazymatch m with Ok _ => fail | _ => destruct m eqn:? end
        end
      end;
  cbn [wres zb]; try reflexivity.


Definition wres_flag (r : res term) (b : bool) : option (zt * term * bool * bool) :=
  match r with Ok t' => Some (zabs t', wabs t', true, b) | Panic _ => None end.

(** as [nrm_w], but the reflow step stays folded on both sides *)
Ltac nrm_c :=
  lazy -[Z.add Z.sub Z.opp Z.mul Z.leb Z.ltb Z.eqb Z.min Z.max Z.of_nat Z.of_N Z.to_nat Z.to_N Z.le Z.lt
         N.eqb N.to_nat Nat.sub Nat.add Nat.min Nat.max Nat.leb Nat.ltb Nat.eqb Nat.lt andb orb negb
         buf_scroll_up buf_scroll_down buf_print buf_insert buf_delete buf_erase buf_wrap
         dirty_extend dirty_add tabs_set tabs_unset tabs_after tabs_before translate get_row nth_error
         buf_resize dirty_resize buffer_new tabs_contract tabs_expand Z.compare Nat.compare
         full_model zput_opaque wres zabs wabs w_reflow reflow wres_flag].


Lemma as_usize_pos n d : (1 <= d)%nat -> (1 <= as_usize n d)%nat.
Proof. unfold as_usize, as_usize_gen. destruct (N.eqb_spec n 0); lia. Qed.

