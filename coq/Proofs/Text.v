(** C09: the text of a fresh terminal fed printable characters and CR LF line breaks is the
    list of input lines (trailing whitespace trimmed, trailing empty lines aside), whatever
    the width and height, however many rows each line wraps over and however much scrolled
    into the scrollback.

    Structure:
    1. list / [trim_end] / [text_go] / [strip_empty_tail] lemmas;
    2. the parser layer: from [Ground], printable characters print, 13 is CR, 10 is LF;
    3. a tiny abstract machine over [(lines, col, row, pend)] for PRINT and CR LF under the
       default modes, and its agreement with [execute] (via C04_print, C05, C06_scroll);
    4. the invariant relating the lines to the text fed so far;
    5. the theorems. *)

From Coq Require Import Lia ZArith ZifyBool ZifyNat ZifyN.
From Avt Require Import Spec.Williams Proofs.ParserTable Oracles.Rel Proofs.Inv Proofs.VisEq
     Proofs.ListLemmas Proofs.BufRow Proofs.BufScroll Proofs.TermEasy Proofs.SpecScroll Proofs.SpecPrint Proofs.StepC05 Proofs.ParserInv
     Proofs.InvTerm Proofs.ParamDT.
Ltac Zify.zify_post_hook ::= Z.div_mod_to_equations.

Fixpoint join_crlf (ls : list (list N)) : list N :=
  match ls with
  | [] => []
  | l :: r => match r with [] => l | _ :: _ => l ++ [13; 10]%N ++ join_crlf r end
  end.

Lemma join_crlf_cons2 l l' r : join_crlf (l :: l' :: r) = l ++ [13; 10]%N ++ join_crlf (l' :: r).
Proof. reflexivity. Qed.

Lemma join_crlf_one l : join_crlf [l] = l.
Proof. reflexivity. Qed.

Lemma Ok_inj {A} (a b : A) : Ok a = Ok b -> a = b.
Proof. intros H. inversion H. reflexivity. Qed.

(** * 1. lists and text *)

Section SkipWhile.
  Context {A : Type} (f : A -> bool).

  Lemma skip_while_app_all a b :
    (forall y, In y a -> f y = true) -> skip_while f (a ++ b) = skip_while f b.
  Proof.
    induction a as [|x a IH]; intros H; [reflexivity|].
    cbn [app skip_while]. rewrite (H x (or_introl eq_refl)). apply IH.
    intros y Hy. apply H. right. exact Hy.
  Qed.

  Lemma skip_while_skip_app b a :
    skip_while f (skip_while f b ++ a) = skip_while f (b ++ a).
  Proof.
    induction b as [|x b IH]; [reflexivity|].
    cbn [skip_while app]. destruct (f x) eqn:E; [exact IH|].
    cbn [app skip_while]. rewrite E. reflexivity.
  Qed.
End SkipWhile.

Lemma trim_end_app_ws x w :
  (forall y, In y w -> is_whitespace y = true) -> trim_end (x ++ w) = trim_end x.
Proof.
  intros H. unfold trim_end. rewrite rev_app_distr, skip_while_app_all; [reflexivity|].
  intros y Hy. apply H. apply in_rev. exact Hy.
Qed.

Lemma trim_end_app_blanks x k : trim_end (x ++ repeat 32%N k) = trim_end x.
Proof.
  apply trim_end_app_ws. intros y Hy. apply repeat_spec in Hy. subst y. reflexivity.
Qed.

Lemma trim_end_blanks k : trim_end (repeat 32%N k) = [].
Proof. apply (trim_end_app_blanks [] k). Qed.

Lemma trim_end_app_trim a b : trim_end (a ++ trim_end b) = trim_end (a ++ b).
Proof.
  unfold trim_end. rewrite !rev_app_distr, rev_involutive, skip_while_skip_app. reflexivity.
Qed.

Lemma text_go_wrapped wr : forall rest acc,
  Forall (fun l => wrapped l = true) wr ->
  text_go (wr ++ rest) acc = text_go rest (acc ++ concat (map line_text wr)).
Proof.
  induction wr as [|l wr IH]; intros rest acc H.
  - cbn. rewrite app_nil_r. reflexivity.
  - inversion H as [|? ? Hl Hr]; subst. cbn [app text_go map concat]. rewrite Hl.
    rewrite IH by exact Hr. rewrite app_assoc. reflexivity.
Qed.

Definition blank_row (c : nat) (l : line) : Prop :=
  wrapped l = false /\ line_text l = repeat 32%N c.

Lemma text_go_blank c bl :
  Forall (blank_row c) bl -> text_go bl [] = repeat [] (length bl).
Proof.
  induction bl as [|l bl IH]; intros H; [reflexivity|].
  inversion H as [|? ? [Hw Ht] Hr]; subst. cbn [text_go length repeat app].
  rewrite Hw, Ht, trim_end_blanks, IH by exact Hr. reflexivity.
Qed.

Lemma strip_empty_tail_empties k : strip_empty_tail (repeat [] k) = [].
Proof. induction k as [|k IH]; [reflexivity|]. cbn [repeat strip_empty_tail]. rewrite IH. reflexivity. Qed.

Lemma strip_empty_tail_app_empties X k :
  strip_empty_tail (X ++ repeat [] k) = strip_empty_tail X.
Proof.
  induction X as [|x X IH].
  - cbn [app]. apply strip_empty_tail_empties.
  - cbn [app strip_empty_tail]. rewrite IH. reflexivity.
Qed.

(** the TextUnwrapper agrees with [Buffer::text] on every list of rows *)
Lemma unwrap_all_text ls : forall st,
  text_go ls st
  = map trim_end (snd (unwrap_all st ls)
                  ++ match fst (unwrap_all st ls) with [] => [] | s => [s] end).
Proof.
  induction ls as [|l ls IH]; intros st.
  - cbn. destruct st; reflexivity.
  - cbn [text_go unwrap_all]. unfold unwrap_push. destruct (wrapped l).
    + specialize (IH (st ++ line_text l)).
      destruct (unwrap_all (st ++ line_text l) ls) as [st'' out]. exact IH.
    + specialize (IH []). destruct (unwrap_all [] ls) as [st'' out].
      cbn [fst snd] in *. cbn [app map]. rewrite trim_end_app_trim, IH. reflexivity.
Qed.

(** * 2. the parser layer *)

Local Open Scope N_scope.

Lemma printable_cases x : printable_c09 x = true -> 32 <= x <= 127 \/ 160 <= x.
Proof. unfold printable_c09. lia. Qed.

Lemma williams_ground_finite :
  forallb (fun x => implb (printable_c09 x) (trans_eqb (williams Ground x) (stay Ground KPrint)))
          (codes_upto 161) = true.
Proof. vm_compute. reflexivity. Qed.

Lemma williams_ground_print x :
  printable_c09 x = true -> williams Ground x = stay Ground KPrint.
Proof.
  intros Hx. pose proof williams_ground_finite as F. rewrite forallb_forall in F.
  destruct (N.lt_ge_cases x 161) as [H|H].
  - specialize (F x (codes_upto_complete 161 x ltac:(cbn; lia))).
    rewrite Hx in F. cbn [implb] in F. apply trans_eqb_eq. exact F.
  - rewrite williams_high by lia.
    specialize (F 160 (codes_upto_complete 161 160 ltac:(cbn; lia))).
    apply trans_eqb_eq. exact F.
Qed.

Local Close Scope N_scope.

Definition GroundP (p : parser) : Prop := PInv p /\ pst p = Ground.

Lemma init_parser_GroundP : GroundP init_parser.
Proof. split; [apply init_parser_PInv|reflexivity]. Qed.

Lemma feed_printable p x :
  GroundP p -> printable_c09 x = true ->
  exists p', feedM p x = Ok (p', Some (Print x)) /\ GroundP p'.
Proof.
  intros [HP Hg] Hx. exists (feed_step p x). split.
  - rewrite (feedM_char p x HP). unfold feed_emit. rewrite Hg, (williams_ground_print x Hx).
    reflexivity.
  - split; [apply feed_step_inv; exact HP|].
    rewrite feed_step_pst, Hg, (williams_ground_print x Hx). reflexivity.
Qed.

Lemma feed_cr p :
  GroundP p -> exists p', feedM p 13%N = Ok (p', Some Cr) /\ GroundP p'.
Proof.
  intros [HP Hg]. exists (feed_step p 13%N). split.
  - rewrite (feedM_char p _ HP). unfold feed_emit. rewrite Hg. reflexivity.
  - split; [apply feed_step_inv; exact HP|]. rewrite feed_step_pst, Hg. reflexivity.
Qed.

Lemma feed_lf p :
  GroundP p -> exists p', feedM p 10%N = Ok (p', Some Lf) /\ GroundP p'.
Proof.
  intros [HP Hg]. exists (feed_step p 10%N). split.
  - rewrite (feedM_char p _ HP). unfold feed_emit. rewrite Hg. reflexivity.
  - split; [apply feed_step_inv; exact HP|]. rewrite feed_step_pst, Hg. reflexivity.
Qed.

(** * 3. the abstract machine and its agreement with [execute] *)

(** what the text depends on *)
Definition core (t : term) : list line * nat * nat * bool :=
  (lines (buf t), cur_col t, cur_row t, Types.pend t).

(** what PRINT / CR / LF read besides, constant on the runs considered *)
Definition modes (t : term) :=
  (cols t, rows t, active t, tpen t, cs0 t, cs1 t, ins t, awm t, nlm t, top t, bot t, sb_limit t).

Definition dmodes (c r : nat) :=
  (c, r, Primary, default_pen, CsAscii, CsAscii, false, true, false, 0, r - 1, @None N).

Lemma core_norm t : core (vis_norm t) = core t.
Proof. reflexivity. Qed.

Lemma modes_norm t : modes (vis_norm t) = modes t.
Proof. reflexivity. Qed.

Lemma brows_norm t : brows (buf (vis_norm t)) = brows (buf t).
Proof. reflexivity. Qed.

Lemma norm_eq_core a b : vis_norm a = vis_norm b -> core a = core b /\ modes a = modes b.
Proof.
  intros H. rewrite <- (core_norm a), <- (core_norm b), <- (modes_norm a), <- (modes_norm b), H.
  split; reflexivity.
Qed.

Record Modes (c r : nat) (t : term) : Prop := mkModes {
  m_cols : cols t = c; m_rows : rows t = r; m_active : active t = Primary;
  m_pen : tpen t = default_pen; m_cs0 : cs0 t = CsAscii; m_cs1 : cs1 t = CsAscii;
  m_ins : ins t = false; m_awm : awm t = true; m_nlm : nlm t = false;
  m_top : top t = 0; m_bot : bot t = r - 1; m_lim : sb_limit t = None }.

Lemma modes_Modes c r t : modes t = dmodes c r -> Modes c r t.
Proof.
  unfold modes, dmodes. intros H.
  injection H; intros. constructor; congruence.
Qed.

Definition astate := (list line * nat * nat * bool)%type.

Definition arow (r : nat) (L : list line) (row : nat) : nat := length L - r + row.

Definition cellc (x : N) : cell := mkCell x default_pen.

Definition a_wrap (c r : nat) (s : astate) : astate :=
  let '(L, col, row, pd) := s in
  if pd then
    if row =? r - 1
    then (upd (arow r L row) mark_wrapped L ++ [blank_line c default_pen], 0, row, false)
    else (upd (arow r L row) mark_wrapped L, 0, row + 1, false)
  else s.

Definition a_write (c r : nat) (s : astate) (x : N) : astate :=
  let '(L, col, row, pd) := s in
  if c <=? col + 1 then (upd (arow r L row) (set_cell (c - 1) (cellc x)) L, c, row, true)
  else (upd (arow r L row) (set_cell col (cellc x)) L, col + 1, row, false).

Definition a_print (c r : nat) (s : astate) (x : N) : astate := a_write c r (a_wrap c r s) x.

(** CR then LF *)
Definition a_crlf (c r : nat) (s : astate) : astate :=
  let '(L, col, row, pd) := s in
  if row =? r - 1 then (L ++ [blank_line c default_pen], 0, row, false)
  else (L, 0, row + 1, false).

(** ** the specification side, at the level of [lines] *)

Lemma firstn_upd_skipn {A} k i (f : A -> A) (L : list A) :
  k <= length L -> firstn k L ++ upd i f (skipn k L) = upd (k + i) f L.
Proof.
  intros H. pose proof (firstn_skipn k L) as E.
  assert (Hk : length (firstn k L) = k) by (rewrite firstn_length; lia).
  remember (firstn k L) as X. remember (skipn k L) as Y.
  rewrite <- E, <- Hk. symmetry. apply upd_app_r.
Qed.

Lemma set_view_upd_lines t i f :
  lines (buf (set_view t (upd_row i f (tview t))))
  = upd (arow (brows (buf t)) (lines (buf t)) i) f (lines (buf t)).
Proof.
  change (lines (buf (set_view t (upd_row i f (tview t)))))
    with (firstn (sb_len (buf t)) (lines (buf t)) ++ upd i f (skipn (sb_len (buf t)) (lines (buf t)))).
  rewrite firstn_upd_skipn by (unfold sb_len; lia). reflexivity.
Qed.

Lemma spec_scroll_up_full v r p c :
  length v = r -> 1 <= r ->
  spec_scroll_up 0 r 1 p c v = (skipn 1 v ++ [blank_line c p], firstn 1 v).
Proof.
  intros Hv Hr. unfold spec_scroll_up.
  replace (r <? length v) with false by lia. cbn [Nat.ltb Nat.leb Nat.eqb].
  replace (Nat.min 1 (r - 0)) with 1 by lia.
  cbn [firstn app repeat Nat.add].
  replace (skipn r v) with (@nil line) by (symmetry; apply skipn_all2; lia).
  rewrite firstn_all2 by (rewrite skipn_length; lia).
  reflexivity.
Qed.

Lemma apply_scroll_up_full_lines s r :
  brows (buf s) = r -> 1 <= r -> r <= length (lines (buf s)) ->
  lines (buf (apply_scroll_up s 0 r 1)) = lines (buf s) ++ [blank_line (cols s) (tpen s)].
Proof.
  intros Hb Hr Hl. rewrite apply_scroll_up_eq.
  rewrite spec_scroll_up_full; [|unfold tview, view, sb_len; rewrite skipn_length; lia|exact Hr].
  cbn [fst snd]. unfold set_screen.
  change (lines (buf (?t <| buf := ?b <| lines := ?x |> |>))) with x.
  rewrite <- !app_assoc, (app_assoc (firstn 1 (tview s))), firstn_skipn.
  unfold tsb, tview, view. rewrite app_assoc, firstn_skipn. reflexivity.
Qed.

Lemma apply_scroll_up_scal s a z n :
  cur_col (apply_scroll_up s a z n) = cur_col s
  /\ cur_row (apply_scroll_up s a z n) = cur_row s
  /\ Types.pend (apply_scroll_up s a z n) = Types.pend s
  /\ modes (apply_scroll_up s a z n) = modes s
  /\ brows (buf (apply_scroll_up s a z n)) = brows (buf s).
Proof. rewrite apply_scroll_up_eq. repeat split; reflexivity. Qed.

Lemma core_set_cursor t a b p : core (set_cursor t a b p) = (lines (buf t), a, b, p).
Proof. reflexivity. Qed.
Lemma modes_set_cursor t a b p : modes (set_cursor t a b p) = modes t.
Proof. reflexivity. Qed.
Lemma brows_set_cursor t a b p : brows (buf (set_cursor t a b p)) = brows (buf t).
Proof. reflexivity. Qed.
Lemma modes_set_view t v : modes (set_view t v) = modes t.
Proof. reflexivity. Qed.
Lemma brows_set_view t v : brows (buf (set_view t v)) = brows (buf t).
Proof. reflexivity. Qed.

Lemma spec_write_core c r t1 x :
  modes t1 = dmodes c r -> brows (buf t1) = r ->
  core (spec_write t1 (cellc x)) = a_write c r (core t1) x
  /\ modes (spec_write t1 (cellc x)) = modes t1.
Proof.
  intros Hm Hb. pose proof (modes_Modes c r t1 Hm) as HM.
  unfold spec_write, a_write, core at 2.
  rewrite (m_cols c r t1 HM), (m_awm c r t1 HM), (m_ins c r t1 HM).
  destruct (c <=? cur_col t1 + 1).
  - rewrite core_set_cursor, modes_set_cursor, modes_set_view, set_view_upd_lines, Hb.
    split; reflexivity.
  - rewrite core_set_cursor, modes_set_cursor, modes_set_view, set_view_upd_lines, Hb.
    split; reflexivity.
Qed.

Lemma spec_wrap_core c r t :
  modes t = dmodes c r -> brows (buf t) = r -> 1 <= r -> r <= length (lines (buf t)) ->
  cur_row t < r ->
  core (spec_wrap t) = a_wrap c r (core t)
  /\ modes (spec_wrap t) = modes t /\ brows (buf (spec_wrap t)) = r.
Proof.
  intros Hm Hb Hr Hl Hrow. pose proof (modes_Modes c r t Hm) as HM.
  unfold spec_wrap, a_wrap, core at 2.
  rewrite (m_awm c r t HM), (m_top c r t HM), (m_bot c r t HM), (m_rows c r t HM).
  cbn [andb]. destruct (Types.pend t); [|repeat split; exact Hb].
  destruct (Nat.eqb_spec (cur_row t) (r - 1)) as [Eb|Eb].
  - replace (r - 1 + 1) with r by lia.
    rewrite core_set_cursor, modes_set_cursor, brows_set_cursor.
    pose proof (apply_scroll_up_scal (set_view t (upd_row (cur_row t) mark_wrapped (tview t))) 0 r 1) as Es.
    destruct Es as (_ & _ & _ & Em & Ebr). rewrite Em, Ebr, modes_set_view, brows_set_view.
    rewrite apply_scroll_up_full_lines;
      [|rewrite brows_set_view; exact Hb|exact Hr
       |rewrite set_view_upd_lines, upd_length; exact Hl].
    rewrite set_view_upd_lines, Hb.
    change (cols (set_view t ?v)) with (cols t). change (tpen (set_view t ?v)) with (tpen t).
    rewrite (m_cols c r t HM), (m_pen c r t HM). repeat split; assumption.
  - replace (cur_row t <? r - 1) with true by lia.
    rewrite core_set_cursor, modes_set_cursor, brows_set_cursor, modes_set_view, brows_set_view,
      set_view_upd_lines, Hb.
    repeat split; assumption.
Qed.

Lemma exec_TInv t f : TInv t -> exists t', execute t f = Ok t' /\ TInv t'.
Proof.
  apply execute_TInv. intros t0 c H0.
  destruct (C04_print t0 c H0) as (t' & E & _ & I). exists t'. split; assumption.
Qed.

Lemma TInv_geom c r t :
  TInv t -> modes t = dmodes c r ->
  brows (buf t) = r /\ 1 <= r /\ 1 <= c /\ r <= length (lines (buf t)) /\ cur_row t < r.
Proof.
  intros HT Hm. pose proof (modes_Modes c r t Hm) as HM.
  pose proof (ti_brows t HT) as H1. pose proof (ti_rows t HT) as H2.
  pose proof (ti_cols t HT) as H3. pose proof (ti_row t HT) as H4.
  destruct (ti_buf t HT) as [(_ & _ & H5 & _) _].
  rewrite (m_rows c r t HM) in *. rewrite (m_cols c r t HM) in *.
  repeat split; try assumption. rewrite <- H1. exact H5.
Qed.

Theorem sim_print c r t x :
  TInv t -> modes t = dmodes c r ->
  exists t', execute t (Print x) = Ok t' /\ TInv t' /\ modes t' = dmodes c r
             /\ core t' = a_print c r (core t) x.
Proof.
  intros HT Hm. pose proof (modes_Modes c r t Hm) as HM.
  destruct (TInv_geom c r t HT Hm) as (Hb & Hr & Hc & Hl & Hrow).
  destruct (C04_print t x HT) as (t' & E & Nrm & HT').
  exists t'. split; [exact E|]. split; [exact HT'|].
  destruct (norm_eq_core _ _ Nrm) as [Ec Em]. rewrite <- Ec, <- Em.
  rewrite spec_print_eq.
  assert (Ecs : spec_active_cs t = CsAscii).
  { unfold spec_active_cs. rewrite (m_cs0 c r t HM), (m_cs1 c r t HM). destruct (acs t =? 0); reflexivity. }
  rewrite Ecs, (m_pen c r t HM). cbn [spec_translate]. fold (cellc x).
  destruct (spec_wrap_core c r t Hm Hb Hr Hl Hrow) as (Wc & Wm & Wb).
  destruct (spec_write_core c r (spec_wrap t) x (eq_trans Wm Hm) Wb) as (Rc & Rm).
  rewrite Rm, Wm, Rc, Wc. split; [exact Hm|reflexivity].
Qed.

Theorem sim_crlf c r t :
  TInv t -> modes t = dmodes c r ->
  exists t1 t2, execute t Cr = Ok t1 /\ execute t1 Lf = Ok t2 /\ TInv t2
                /\ modes t2 = dmodes c r /\ core t2 = a_crlf c r (core t).
Proof.
  intros HT Hm.
  destruct (exec_TInv t Cr HT) as (t1 & E1 & HT1). exists t1.
  pose proof E1 as E1'. rewrite (exec_cr t (TInv_TScal t HT)) in E1'. apply Ok_inj in E1'.
  assert (Hm1 : modes t1 = dmodes c r) by (rewrite <- E1'; exact Hm).
  assert (Hc1 : core t1 = (lines (buf t), 0, cur_row t, false)) by (rewrite <- E1'; reflexivity).
  pose proof (modes_Modes c r t1 Hm1) as HM.
  destruct (TInv_geom c r t1 HT1 Hm1) as (Hb & Hr & Hc & Hl & Hrow).
  unfold core in Hc1. injection Hc1 as HL Hcol Hrw Hpd.
  unfold a_crlf, core. rewrite <- Hrw, <- HL.
  destruct (exec_TInv t1 Lf HT1) as (t2 & E2 & HT2). exists t2.
  split; [exact E1|]. split; [exact E2|]. split; [exact HT2|].
  destruct (Nat.eqb_spec (cur_row t1) (r - 1)) as [Eb|Eb].
  - assert (Es : spec_scroll t1 Lf = Some (apply_scroll_up t1 0 r 1)).
    { cbn [spec_scroll]. rewrite (m_nlm c r t1 HM), (m_top c r t1 HM), (m_bot c r t1 HM).
      replace (cur_row t1 =? r - 1) with true by lia. replace (r - 1 + 1) with r by lia. reflexivity. }
    destruct (C06_scroll t1 Lf _ HT1 Es) as (t2' & E2' & Nrm).
    rewrite E2 in E2'. apply Ok_inj in E2'. subst t2'.
    destruct (norm_eq_core _ _ Nrm) as [Ec Em]. rewrite <- Em.
    pose proof (apply_scroll_up_scal t1 0 r 1) as Esc. destruct Esc as (Ecol & Erow & Epd & Emd & _).
    split; [rewrite Emd; exact Hm1|].
    change (lines (buf t2), cur_col t2, cur_row t2, Types.pend t2) with (core t2).
    rewrite <- Ec. unfold core. rewrite Ecol, Erow, Epd, Hcol, Hpd.
    rewrite (apply_scroll_up_full_lines t1 r Hb Hr Hl), (m_cols c r t1 HM), (m_pen c r t1 HM).
    reflexivity.
  - assert (Es : spec_cursor t1 Lf = Some (set_cursor t1 0 (cur_row t1 + 1) false)).
    { cbn [spec_cursor]. rewrite (m_nlm c r t1 HM), (m_bot c r t1 HM), (m_rows c r t1 HM).
      replace (cur_row t1 =? r - 1) with false by lia.
      replace (cur_row t1 <? r - 1) with true by lia.
      unfold viscol. rewrite Hcol. reflexivity. }
    pose proof (spec_cursor_refines_all t1 Lf _ HT1 Es) as E2'.
    rewrite E2 in E2'. apply Ok_inj in E2'. subst t2.
    split; [rewrite modes_set_cursor; exact Hm1|]. reflexivity.
Qed.

(** * 4. the invariant relating the rows to the text fed so far *)

(** [cl]: the completed input lines; [p]: the current partial line.
    [fin]: the rows of the completed lines; [wr]: the wrapped rows of the partial line;
    [cur]: the cursor row; [bl]: the blank rows below it. *)
Definition AInv (c r : nat) (s : astate) (cl : list (list N)) (p : list N) : Prop :=
  let '(L, col, row, pd) := s in
  exists fin wr cur bl,
    L = fin ++ wr ++ cur :: bl
    /\ row + length bl + 1 = r
    /\ r <= length L
    /\ (forall rest, text_go (fin ++ rest) [] = map trim_end cl ++ text_go rest [])
    /\ Forall (fun l => wrapped l = true) wr
    /\ wrapped cur = false
    /\ length (cells cur) = c
    /\ (pd = true -> col = c) /\ (pd = false -> col < c)
    /\ concat (map line_text wr) ++ firstn col (line_text cur) = p
    /\ skipn col (line_text cur) = repeat 32%N (c - col)
    /\ Forall (blank_row c) bl.

Ltac splits := repeat match goal with |- _ /\ _ => split end.

Lemma blank_line_blank_row c p : blank_row c (blank_line c p).
Proof.
  split; [reflexivity|]. unfold line_text, blank_line. cbn [cells].
  induction c as [|c IH]; [reflexivity|]. cbn [repeat map]. rewrite IH. reflexivity.
Qed.

Lemma blank_row_length c l : blank_row c l -> length (cells l) = c.
Proof.
  intros [_ H]. apply (f_equal (@length N)) in H. unfold line_text in H.
  rewrite map_length, repeat_length in H. exact H.
Qed.

Lemma line_text_length l : length (line_text l) = length (cells l).
Proof. apply map_length. Qed.

Lemma AInv_init c r : 1 <= c -> 1 <= r -> AInv c r (core (term_new_gen c r None)) [] [].
Proof.
  intros Hc Hr. unfold core. cbn [term_new_gen buf cur_col cur_row Types.pend buffer_new lines].
  exists [], [], (blank_line c default_pen), (repeat (blank_line c default_pen) (r - 1)).
  destruct (blank_line_blank_row c default_pen) as [Bw Bt].
  splits;
  [> | rewrite repeat_length; lia | rewrite repeat_length; lia | intros rest; reflexivity
   | constructor | exact Bw | apply (blank_row_length c), blank_line_blank_row
   | discriminate | intros _; lia | reflexivity
   | cbn [skipn]; rewrite Bt; replace (c - 0) with c by lia; reflexivity
   | apply Forall_repeat_of; apply blank_line_blank_row ].
  cbn [app]. destruct r as [|r]; [lia|]. cbn [repeat]. replace (S r - 1) with r by lia. reflexivity.
Qed.

Lemma arow_eq r (fin wr : list line) cur (bl : list line) row :
  row + length bl + 1 = r -> r <= length (fin ++ wr ++ cur :: bl) ->
  arow r (fin ++ wr ++ cur :: bl) row = length (fin ++ wr).
Proof.
  intros H. unfold arow. rewrite !app_length. cbn [length]. lia.
Qed.

Lemma upd_cursor_row r (fin wr : list line) cur bl row f :
  row + length bl + 1 = r -> r <= length (fin ++ wr ++ cur :: bl) ->
  upd (arow r (fin ++ wr ++ cur :: bl) row) f (fin ++ wr ++ cur :: bl)
  = fin ++ wr ++ f cur :: bl.
Proof.
  intros H H'. rewrite (arow_eq r fin wr cur bl row H H').
  rewrite (app_assoc fin wr (cur :: bl)).
  replace (length (fin ++ wr)) with (length (fin ++ wr) + 0) by lia.
  rewrite upd_app_r. unfold upd. cbn [skipn firstn app]. rewrite <- app_assoc. reflexivity.
Qed.

Lemma a_wrap_inv c r s cl p :
  1 <= c -> AInv c r s cl p ->
  AInv c r (a_wrap c r s) cl p /\ snd (a_wrap c r s) = false.
Proof.
  intros Hc. destruct s as [[[L col] row] pd]. unfold a_wrap.
  destruct pd; [|intros H; split; [exact H|reflexivity]].
  intros (fin & wr & cur & bl & EL & Hrow & HrL & Hfin & Hwr & Hcw & Hcl & Hpt & Hpf & Hp & Hsk & Hbl).
  specialize (Hpt eq_refl). subst col.
  assert (Hfull : firstn c (line_text cur) = line_text cur)
    by (apply firstn_all2; rewrite line_text_length; lia).
  assert (Hwr' : Forall (fun l => wrapped l = true) (wr ++ [mark_wrapped cur]))
    by (apply Forall_app; split; [exact Hwr|constructor; [reflexivity|constructor]]).
  assert (Hp' : concat (map line_text (wr ++ [mark_wrapped cur])) = p).
  { rewrite map_app, concat_app. cbn [map concat]. rewrite app_nil_r.
    change (line_text (mark_wrapped cur)) with (line_text cur). rewrite <- Hfull. exact Hp. }
  subst L. rewrite (upd_cursor_row r fin wr cur bl row mark_wrapped Hrow HrL).
  rewrite !app_length in HrL. cbn [length] in HrL.
  destruct (Nat.eqb_spec row (r - 1)) as [Eb|Eb].
  - (* bottom row: scroll *)
    destruct bl as [|b0 bl']; [|cbn [length] in Hrow; lia].
    split; [|reflexivity].
    destruct (blank_line_blank_row c default_pen) as [Bw Bt].
    exists fin, (wr ++ [mark_wrapped cur]), (blank_line c default_pen), [].
    splits;
    [> rewrite <- !app_assoc; reflexivity | exact Hrow
     | rewrite !app_length; cbn [length] in *; lia | exact Hfin | exact Hwr' | exact Bw
     | apply (blank_row_length c), blank_line_blank_row | discriminate | intros _; lia
     | cbn [firstn]; rewrite app_nil_r; exact Hp'
     | cbn [skipn]; rewrite Bt; replace (c - 0) with c by lia; reflexivity | constructor ].
  - destruct bl as [|b0 bl']; [cbn [length] in Hrow; lia|].
    split; [|reflexivity].
    pose proof (Forall_inv_tail Hbl) as Hbl'. destruct (Forall_inv Hbl) as [Bw Bt].
    exists fin, (wr ++ [mark_wrapped cur]), b0, bl'.
    splits;
    [> rewrite <- !app_assoc; reflexivity | cbn [length] in Hrow; lia
     | rewrite !app_length; cbn [length] in *; lia | exact Hfin | exact Hwr' | exact Bw
     | apply (blank_row_length c); split; assumption | discriminate | intros _; lia
     | cbn [firstn]; rewrite app_nil_r; exact Hp'
     | cbn [skipn]; rewrite Bt; replace (c - 0) with c by lia; reflexivity | exact Hbl' ].
Qed.

Lemma line_text_set_cell col x l :
  col < length (cells l) ->
  line_text (set_cell col (cellc x) l)
  = firstn col (line_text l) ++ x :: skipn (S col) (line_text l).
Proof.
  intros H. unfold line_text, set_cell. rewrite cells_set_cells.
  destruct (nth_error (cells l) col) as [y|] eqn:E; [|apply nth_error_None in E; lia].
  rewrite (upd_eq _ _ _ _ E), map_app. cbn [map]. rewrite firstn_map, skipn_map. reflexivity.
Qed.

Lemma a_write_inv c r s cl p x :
  AInv c r s cl p -> snd s = false -> AInv c r (a_write c r s x) cl (p ++ [x]).
Proof.
  destruct s as [[[L col] row] pd]. cbn [snd]. intros H Hpd. subst pd.
  destruct H as (fin & wr & cur & bl & EL & Hrow & HrL & Hfin & Hwr & Hcw & Hcl & _ & Hpf & Hp & Hsk & Hbl).
  specialize (Hpf eq_refl). unfold a_write. subst L.
  assert (Hlt : col < length (cells cur)) by lia.
  assert (Hlen : length (firstn col (line_text cur)) = col)
    by (rewrite firstn_length, line_text_length; lia).
  assert (Hf : firstn (col + 1) (line_text (set_cell col (cellc x) cur))
               = firstn col (line_text cur) ++ [x]).
  { rewrite (line_text_set_cell col x cur Hlt).
    rewrite firstn_app, Hlen. replace (col + 1 - col) with 1 by lia. cbn [firstn].
    rewrite firstn_all2 by lia. reflexivity. }
  assert (Hs : skipn (col + 1) (line_text (set_cell col (cellc x) cur))
               = repeat 32%N (c - (col + 1))).
  { rewrite (line_text_set_cell col x cur Hlt).
    rewrite skipn_app, Hlen. replace (col + 1 - col) with 1 by lia.
    replace (skipn (col + 1) (firstn col (line_text cur))) with (@nil N)
      by (symmetry; apply skipn_all2; lia).
    cbn [app]. change (skipn 1 (x :: skipn (S col) (line_text cur))) with (skipn (S col) (line_text cur)).
    replace (S col) with (col + 1) by lia. rewrite <- skipn_add, Hsk.
    destruct (c - col) as [|k] eqn:Ek; [lia|]. cbn [repeat skipn].
    replace (c - (col + 1)) with k by lia. reflexivity. }
  assert (Hl' : length (cells (set_cell col (cellc x) cur)) = c).
  { unfold set_cell. rewrite cells_set_cells, upd_length. exact Hcl. }
  assert (Hp' : concat (map line_text wr) ++ firstn (col + 1) (line_text (set_cell col (cellc x) cur))
                = p ++ [x]) by (rewrite Hf, app_assoc, Hp; reflexivity).
  assert (HrL' : r <= length (fin ++ wr ++ set_cell col (cellc x) cur :: bl))
    by (rewrite !app_length in *; cbn [length] in *; exact HrL).
  destruct (Nat.leb_spec c (col + 1)) as [Hle|Hle].
  - assert (Ec' : col + 1 = c) by lia. rewrite Ec' in Hp', Hs. replace (c - 1) with col by lia.
    rewrite (upd_cursor_row r fin wr cur bl row _ Hrow HrL).
    exists fin, wr, (set_cell col (cellc x) cur), bl.
    splits;
    [> reflexivity | exact Hrow | exact HrL' | exact Hfin | exact Hwr | exact Hcw | exact Hl'
     | reflexivity | discriminate | exact Hp' | exact Hs | exact Hbl ].
  - rewrite (upd_cursor_row r fin wr cur bl row _ Hrow HrL).
    exists fin, wr, (set_cell col (cellc x) cur), bl.
    splits;
    [> reflexivity | exact Hrow | exact HrL' | exact Hfin | exact Hwr | exact Hcw | exact Hl'
     | discriminate | intros _; lia | exact Hp' | exact Hs | exact Hbl ].
Qed.

Lemma a_print_inv c r s cl p x :
  1 <= c -> AInv c r s cl p -> AInv c r (a_print c r s x) cl (p ++ [x]).
Proof.
  intros Hc H. destruct (a_wrap_inv c r s cl p Hc H) as [H1 H2].
  unfold a_print. apply a_write_inv; assumption.
Qed.

Lemma a_crlf_inv c r s cl p :
  1 <= c -> AInv c r s cl p -> AInv c r (a_crlf c r s) (cl ++ [p]) [].
Proof.
  intros Hc. destruct s as [[[L col] row] pd].
  intros (fin & wr & cur & bl & EL & Hrow & HrL & Hfin & Hwr & Hcw & Hcl & Hpt & Hpf & Hp & Hsk & Hbl).
  assert (Hfin' : forall rest, text_go ((fin ++ wr ++ [cur]) ++ rest) []
                               = map trim_end (cl ++ [p]) ++ text_go rest []).
  { intros rest. rewrite <- !app_assoc, Hfin, (text_go_wrapped wr _ _ Hwr).
    cbn [app text_go]. rewrite Hcw.
    rewrite <- (firstn_skipn col (line_text cur)), Hsk, app_assoc, Hp, trim_end_app_blanks.
    rewrite map_app, <- app_assoc. reflexivity. }
  unfold a_crlf. subst L. rewrite !app_length in HrL. cbn [length] in HrL.
  destruct (Nat.eqb_spec row (r - 1)) as [Eb|Eb].
  - destruct bl as [|b0 bl']; [|cbn [length] in Hrow; lia].
    destruct (blank_line_blank_row c default_pen) as [Bw Bt].
    exists (fin ++ wr ++ [cur]), [], (blank_line c default_pen), [].
    splits;
    [> rewrite <- !app_assoc; reflexivity | exact Hrow
     | rewrite !app_length; cbn [length] in *; lia | exact Hfin' | constructor | exact Bw
     | apply (blank_row_length c), blank_line_blank_row | discriminate | intros _; lia
     | reflexivity
     | cbn [skipn]; rewrite Bt; replace (c - 0) with c by lia; reflexivity | constructor ].
  - destruct bl as [|b0 bl']; [cbn [length] in Hrow; lia|].
    pose proof (Forall_inv_tail Hbl) as Hbl'. destruct (Forall_inv Hbl) as [Bw Bt].
    exists (fin ++ wr ++ [cur]), [], b0, bl'.
    splits;
    [> rewrite <- !app_assoc; reflexivity | cbn [length] in Hrow; lia
     | rewrite !app_length; cbn [length] in *; lia | exact Hfin' | constructor | exact Bw
     | apply (blank_row_length c); split; assumption | discriminate | intros _; lia
     | reflexivity
     | cbn [skipn]; rewrite Bt; replace (c - 0) with c by lia; reflexivity | exact Hbl' ].
Qed.

(** the text of a state satisfying the invariant *)
Lemma AInv_text c r L col row pd cl p :
  AInv c r (L, col, row, pd) cl p ->
  exists k, text_go L [] = map trim_end (cl ++ [p]) ++ repeat [] k.
Proof.
  intros (fin & wr & cur & bl & EL & Hrow & HrL & Hfin & Hwr & Hcw & Hcl & Hpt & Hpf & Hp & Hsk & Hbl).
  exists (length bl). subst L.
  rewrite Hfin, (text_go_wrapped wr _ _ Hwr). cbn [app text_go]. rewrite Hcw.
  rewrite <- (firstn_skipn col (line_text cur)), Hsk, app_assoc, Hp, trim_end_app_blanks.
  rewrite (text_go_blank c bl Hbl), map_app, <- app_assoc. reflexivity.
Qed.

(** * 5. the run *)

Definition VInv (c r : nat) (v : vt) (cl : list (list N)) (p : list N) : Prop :=
  GroundP (vparser v) /\ TInv (vterm v) /\ modes (vterm v) = dmodes c r
  /\ AInv c r (core (vterm v)) cl p.

Lemma VInv_new c r : 1 <= c -> 1 <= r -> VInv c r (vt_new c r None) [] [].
Proof.
  intros Hc Hr. unfold VInv, vt_new. cbn [vparser vterm].
  split; [apply init_parser_GroundP|]. split; [apply term_new_TInv; assumption|].
  split; [reflexivity|]. apply AInv_init; assumption.
Qed.

Lemma feed_print c r v cl p x :
  1 <= c -> VInv c r v cl p -> printable_c09 x = true ->
  exists v', vt_feed v x = Ok v' /\ VInv c r v' cl (p ++ [x]).
Proof.
  intros Hc (HP & HT & Hm & HA) Hx.
  destruct (feed_printable _ x HP Hx) as (p' & Ef & HP').
  destruct (sim_print c r _ x HT Hm) as (t' & Ex & HT' & Hm' & Hc').
  exists (mkVt p' t'). split.
  - unfold vt_feed. rewrite Ef. cbn [bind]. rewrite Ex. reflexivity.
  - unfold VInv. cbn [vparser vterm]. rewrite Hc'.
    repeat (split; [assumption|]). apply a_print_inv; assumption.
Qed.

Lemma feed_chars_app a : forall v b,
  feed_chars v (a ++ b) = (v' <- feed_chars v a ;; feed_chars v' b).
Proof.
  induction a as [|x a IH]; intros v b; [reflexivity|].
  cbn [app feed_chars]. destruct (vt_feed v x) as [v1|s]; cbn [bind]; [apply IH|reflexivity].
Qed.

Lemma feed_line c r l : forall v cl p,
  1 <= c -> VInv c r v cl p -> Forall (fun x => printable_c09 x = true) l ->
  exists v', feed_chars v l = Ok v' /\ VInv c r v' cl (p ++ l).
Proof.
  induction l as [|x l IH]; intros v cl p Hc HV Hl.
  - exists v. rewrite app_nil_r. split; [reflexivity|exact HV].
  - pose proof (Forall_inv Hl) as Hx. pose proof (Forall_inv_tail Hl) as Hl'.
    destruct (feed_print c r v cl p x Hc HV Hx) as (v1 & E1 & HV1).
    destruct (IH v1 cl (p ++ [x]) Hc HV1 Hl') as (v' & E' & HV').
    exists v'. cbn [feed_chars]. rewrite E1. cbn [bind]. split; [exact E'|].
    rewrite <- app_assoc in HV'. exact HV'.
Qed.

Lemma feed_crlf c r v cl p :
  1 <= c -> VInv c r v cl p ->
  exists v', feed_chars v [13; 10]%N = Ok v' /\ VInv c r v' (cl ++ [p]) [].
Proof.
  intros Hc (HP & HT & Hm & HA).
  destruct (feed_cr _ HP) as (p1 & Ef1 & HP1).
  destruct (feed_lf _ HP1) as (p2 & Ef2 & HP2).
  destruct (sim_crlf c r _ HT Hm) as (t1 & t2 & Ex1 & Ex2 & HT2 & Hm2 & Hc2).
  exists (mkVt p2 t2). split.
  - cbn [feed_chars]. unfold vt_feed at 1. rewrite Ef1. cbn [bind]. rewrite Ex1. cbn [bind].
    unfold vt_feed. cbn [vparser vterm]. rewrite Ef2. cbn [bind]. rewrite Ex2. reflexivity.
  - unfold VInv. cbn [vparser vterm]. rewrite Hc2.
    repeat (split; [assumption|]). apply a_crlf_inv; assumption.
Qed.

Lemma feed_join c r ls : forall l v cl,
  1 <= c -> VInv c r v cl [] ->
  Forall (Forall (fun x => printable_c09 x = true)) (l :: ls) ->
  exists v' cl' p', feed_chars v (join_crlf (l :: ls)) = Ok v' /\ VInv c r v' cl' p'
                    /\ cl' ++ [p'] = cl ++ l :: ls.
Proof.
  induction ls as [|l' ls IH]; intros l v cl Hc HV Hls.
  - rewrite join_crlf_one.
    destruct (feed_line c r l v cl [] Hc HV (Forall_inv Hls)) as (v' & E & HV').
    exists v', cl, l. split; [exact E|]. split; [exact HV'|reflexivity].
  - rewrite join_crlf_cons2, feed_chars_app.
    destruct (feed_line c r l v cl [] Hc HV (Forall_inv Hls)) as (v1 & E1 & HV1).
    rewrite E1. cbn [bind]. rewrite feed_chars_app. cbn [app] in HV1.
    destruct (feed_crlf c r v1 cl l Hc HV1) as (v2 & E2 & HV2).
    rewrite E2. cbn [bind].
    destruct (IH l' v2 (cl ++ [l]) Hc HV2 (Forall_inv_tail Hls)) as (v' & cl' & p' & E' & HV' & Ecl).
    exists v', cl', p'. split; [exact E'|]. split; [exact HV'|].
    rewrite Ecl, <- app_assoc. reflexivity.
Qed.

(** [changes(); gc()] leaves the rows alone when the scrollback is unlimited *)
Lemma flush_lines c r v :
  TInv (vterm v) -> modes (vterm v) = dmodes c r ->
  exists v' o, vt_flush v = Ok (v', o)
               /\ vt_lines v' = lines (buf (vterm v)) /\ vt_text v' = text_go (lines (buf (vterm v))) [].
Proof.
  intros HT Hm. pose proof (modes_Modes c r _ Hm) as HM.
  rewrite (vt_flush_eq v HT). eexists _, _. split; [reflexivity|].
  assert (Hg : gc_excess (buf (vterm v)) = 0).
  { unfold gc_excess. pose proof (ti_limit _ HT) as HL.
    rewrite (m_active c r _ HM), (m_lim c r _ HM) in HL. destruct HL as [HL _].
    rewrite HL. cbn [limit_of]. destruct (trim_needed (buf (vterm v))); reflexivity. }
  assert (El : lines (buf (flushed (vterm v))) = lines (buf (vterm v))).
  { unfold flushed. change (lines (buf (?t <| buf := ?b <| lines := ?x |> |>))) with x.
    rewrite Hg. reflexivity. }
  unfold vt_lines, vt_text, term_text, primary_buffer, buf_text.
  change (vterm (v <| vterm := flushed (vterm v) |>)) with (flushed (vterm v)).
  change (active (flushed (vterm v))) with (active (vterm v)).
  rewrite (m_active c r _ HM), El. split; reflexivity.
Qed.

(** the run, before stripping: lines and text of the result *)
Lemma C09_run c r ls :
  1 <= c -> 1 <= r -> Forall (Forall (fun x => printable_c09 x = true)) ls ->
  exists v o k, feed_str (vt_new c r None) (join_crlf ls) = Ok (v, o)
    /\ vt_text v = text_go (vt_lines v) []
    /\ vt_text v = map trim_end ls ++ repeat [] k.
Proof.
  intros Hc Hr Hls. pose proof (VInv_new c r Hc Hr) as HV0. unfold feed_str.
  destruct ls as [|l ls].
  - cbn [join_crlf feed_chars bind map app].
    destruct HV0 as (_ & HT & Hm & HA).
    destruct (flush_lines c r _ HT Hm) as (v' & o & Ef & El & Et).
    destruct (AInv_text c r _ _ _ _ [] [] HA) as (k & Hk).
    exists v', o, (S k). split; [exact Ef|]. rewrite Et, El. split; [reflexivity|].
    rewrite Hk. reflexivity.
  - destruct (feed_join c r ls l _ [] Hc HV0 Hls) as (v1 & cl' & p' & E1 & HV1 & Ecl).
    rewrite E1. cbn [bind].
    destruct HV1 as (_ & HT & Hm & HA).
    destruct (flush_lines c r _ HT Hm) as (v' & o & Ef & El & Et).
    destruct (AInv_text c r _ _ _ _ cl' p' HA) as (k & Hk).
    exists v', o, k. split; [exact Ef|]. rewrite Et, El. split; [reflexivity|].
    rewrite Hk, Ecl. reflexivity.
Qed.

Theorem C09_text : forall c r ls,
  1 <= c -> 1 <= r -> Forall (Forall (fun x => printable_c09 x = true)) ls ->
  exists v o, feed_str (vt_new c r None) (join_crlf ls) = Ok (v, o)
              /\ strip_empty_tail (vt_text v) = strip_empty_tail (map trim_end ls).
Proof.
  intros c r ls Hc Hr Hls.
  destruct (C09_run c r ls Hc Hr Hls) as (v & o & k & E & _ & Ht).
  exists v, o. split; [exact E|]. rewrite Ht. apply strip_empty_tail_app_empties.
Qed.
Print Assumptions C09_text.

(** the same lines on two geometries give the same text *)
Corollary C09_width_independent : forall c1 r1 c2 r2 ls,
  1 <= c1 -> 1 <= r1 -> 1 <= c2 -> 1 <= r2 ->
  Forall (Forall (fun x => printable_c09 x = true)) ls ->
  exists v1 o1 v2 o2,
    feed_str (vt_new c1 r1 None) (join_crlf ls) = Ok (v1, o1)
    /\ feed_str (vt_new c2 r2 None) (join_crlf ls) = Ok (v2, o2)
    /\ strip_empty_tail (vt_text v1) = strip_empty_tail (vt_text v2).
Proof.
  intros c1 r1 c2 r2 ls H1 H2 H3 H4 Hls.
  destruct (C09_text c1 r1 ls H1 H2 Hls) as (v1 & o1 & E1 & T1).
  destruct (C09_text c2 r2 ls H3 H4 Hls) as (v2 & o2 & E2 & T2).
  exists v1, o1, v2, o2. split; [exact E1|]. split; [exact E2|]. rewrite T1, T2. reflexivity.
Qed.
Print Assumptions C09_width_independent.

(** the TextUnwrapper folded over [lines()] yields the same lines *)
Definition unwrapped (v : vt) : list (list N) :=
  let '(st, out) := unwrap_all [] (vt_lines v) in
  out ++ match st with [] => [] | _ => [st] end.

Lemma unwrapped_text v : map trim_end (unwrapped v) = text_go (vt_lines v) [].
Proof.
  unfold unwrapped. rewrite (unwrap_all_text (vt_lines v) []).
  destruct (unwrap_all [] (vt_lines v)) as [st out]. cbn [fst snd]. destruct st; reflexivity.
Qed.

Theorem C09_unwrapper : forall c r ls,
  1 <= c -> 1 <= r -> Forall (Forall (fun x => printable_c09 x = true)) ls ->
  exists v o, feed_str (vt_new c r None) (join_crlf ls) = Ok (v, o)
    /\ let '(st, out) := unwrap_all [] (vt_lines v) in
       strip_empty_tail (map trim_end (out ++ match st with [] => [] | _ => [st] end))
       = strip_empty_tail (map trim_end ls).
Proof.
  intros c r ls Hc Hr Hls.
  destruct (C09_run c r ls Hc Hr Hls) as (v & o & k & E & Hl & Ht).
  exists v, o. split; [exact E|].
  pose proof (unwrapped_text v) as Hu. unfold unwrapped in Hu.
  destruct (unwrap_all [] (vt_lines v)) as [st out].
  rewrite Hu, <- Hl, Ht. apply strip_empty_tail_app_empties.
Qed.
Print Assumptions C09_unwrapper.

(** * 6. the executable statement [holds_C09] *)

Lemma split_crlf_cons_ne x s cur :
  x <> 13%N -> split_crlf (x :: s) cur = split_crlf s (x :: cur).
Proof.
  intros H. destruct x as [|q]; [reflexivity|].
  do 4 (try destruct q as [q|q|]); try reflexivity. contradiction H; reflexivity.
Qed.

Lemma split_crlf_crlf s cur : split_crlf (13 :: 10 :: s)%N cur = rev cur :: split_crlf s [].
Proof. reflexivity. Qed.

Lemma split_crlf_app l : forall cur rest,
  Forall (fun x => x <> 13%N) l -> split_crlf (l ++ rest) cur = split_crlf rest (rev l ++ cur).
Proof.
  induction l as [|x l IH]; intros cur rest H; [reflexivity|].
  cbn [app rev]. rewrite (split_crlf_cons_ne x _ cur (Forall_inv H)), (IH _ _ (Forall_inv_tail H)).
  rewrite <- app_assoc. reflexivity.
Qed.

Lemma printable_not_cr l :
  Forall (fun x => printable_c09 x = true) l -> Forall (fun x => x <> 13%N) l.
Proof. apply Forall_impl. intros x Hx ->. discriminate Hx. Qed.

Lemma split_join ls : forall l,
  Forall (Forall (fun x => printable_c09 x = true)) (l :: ls) ->
  split_crlf (join_crlf (l :: ls)) [] = l :: ls.
Proof.
  induction ls as [|l' ls IH]; intros l H.
  - rewrite join_crlf_one, <- (app_nil_r l) at 1.
    rewrite (split_crlf_app l [] [] (printable_not_cr l (Forall_inv H))).
    cbn [split_crlf]. rewrite app_nil_r, rev_involutive. reflexivity.
  - rewrite join_crlf_cons2, (split_crlf_app l [] _ (printable_not_cr l (Forall_inv H))).
    cbn [app]. rewrite split_crlf_crlf, app_nil_r, rev_involutive, (IH l' (Forall_inv_tail H)).
    reflexivity.
Qed.

Lemma text_eqb_refl a : text_eqb a a = true.
Proof. apply list_eqb_refl. intros x. apply list_eqb_refl. apply N.eqb_refl. Qed.

Lemma Forall_forallb {A} (f : A -> bool) l : Forall (fun x => f x = true) l -> forallb f l = true.
Proof. intros H. apply forallb_forall. apply Forall_forall. exact H. Qed.

(** [unw] = the TextUnwrapper folded over [lines()], as in the test harness *)
Theorem C09_holds : forall c r ls,
  1 <= c -> 1 <= r -> Forall (Forall (fun x => printable_c09 x = true)) ls ->
  exists v o, feed_str (vt_new c r None) (join_crlf ls) = Ok (v, o)
              /\ holds_C09 (join_crlf ls) (vt_text v) (unwrapped v) = true.
Proof.
  intros c r ls Hc Hr Hls.
  destruct (C09_run c r ls Hc Hr Hls) as (v & o & k & E & Hl & Ht).
  exists v, o. split; [exact E|].
  unfold holds_C09. rewrite unwrapped_text, <- Hl, Ht, strip_empty_tail_app_empties.
  destruct ls as [|l ls].
  - reflexivity.
  - rewrite (split_join ls l Hls).
    rewrite (Forall_forallb (forallb printable_c09) (l :: ls)).
    + rewrite text_eqb_refl. reflexivity.
    + apply Forall_forall. intros y Hy. apply Forall_forallb.
      rewrite Forall_forall in Hls. apply Hls. exact Hy.
Qed.
Print Assumptions C09_holds.
