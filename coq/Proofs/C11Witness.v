(** Witness for the second half of KF-C11-3 (stale saved context of the hidden alternate screen at column >= 65535).
    Separate file: the 65536-column list model makes it slow to re-check (coqchk), and nothing depends on it. *)
From Coq Require Import Lia ZArith ZifyBool ZifyNat ZifyN String.
From Avt Require Import Model.Vt Spec.Screen Spec.Eqb Oracles.Step Oracles.Rel Oracles.C11Narrow Proofs.Inv Proofs.ParserInv
  Proofs.BufScroll Proofs.Frames Proofs.InvTerm Proofs.ParamDT Proofs.ParamChop Proofs.PenInv
  Proofs.DumpParserEmits Proofs.DumpParserRT Proofs.InvStep Proofs.PenInvProofs Proofs.DumpMargins
  Proofs.DumpScriptBase Proofs.DumpScriptExec Proofs.DumpScriptSim Proofs.DumpScriptSeg
  Proofs.DumpScriptHead Proofs.DumpScriptMid Proofs.DumpScriptTail Proofs.DumpScript
  Proofs.Future Proofs.FutureInst Proofs.DumpFinal Proofs.InvCtl Proofs.TermEasy Proofs.InvLemmas.
Import ListNotations.
Ltac Zify.zify_post_hook ::= Z.div_mod_to_equations.
Local Open Scope nat_scope.
From Avt Require Import Proofs.C11More Proofs.InvStep Proofs.Audit2Misc.

(** ** it is a GENUINE deviation (not recorded in KF-C11-3).  Witness: a 65536 x 1 terminal; on the alternate
       screen the cursor goes to the last column (CUP 1;65535, CUF 1) and is saved (DECSC); back on the primary
       screen the terminal is resized to 10 x 1.  The state is then 10 x 1 ([dumpable], outside kf1 / kf2), the
       hidden saved column is 65535, the dump writes CSI 1;65536 H, which the parser reads as 0: the restored
       terminal has the alternate screen's saved column 0 instead of (clamped) 9 - visible after CSI ?1047h ESC 8. *)
Definition w_stale_input : list N :=
  E_ ++ str "[?1047h" ++ E_ ++ str "[1;65535H" ++ E_ ++ str "[C" ++ E_ ++ str "7" ++ E_ ++ str "[?1047l".
Definition w_stale : res vt :=
  x <- feed_str (vt_new (N.to_nat 65536) 1 None) w_stale_input ;; runM (fst x) [Resize 10 1].
Definition probe_alt_col (v : vt) : nat :=
  match feed_str v (E_ ++ str "[?1047h" ++ E_ ++ str "8") with
  | Ok (y, _) => cur_col (vterm y)
  | Panic _ => 999
  end.
Example C11_stale_asctx_refuted :
  match w_stale with
  | Ok v =>
    match vt_dump v with
    | Ok d => match feed_str (vt_new 10 1 None) d with
              | Ok (r, _) =>
                dumpable (vterm v) && negb (kf1_C11 (vterm v)) && negb (kf2_C11 (vterm v))
                && kf3b_C11 (vterm v) && (sc_col (asctx (vterm v)) =? N.to_nat 65535)
                && negb (holds_C11 v r)
                && (probe_alt_col v =? 9) && (probe_alt_col r =? 0)
              | Panic _ => false end
    | Panic _ => false end
  | Panic _ => false end = true.
Proof. vm_cast_no_check (eq_refl true). Qed.
Print Assumptions C11_stale_asctx_refuted.

(** KF-C11-3, second half ([kf3b_C11]).  A 65536 x 1 terminal; on the alternate screen the cursor is saved
    in the last column; back on the primary screen the terminal is resized to 10 x 1.  The state is
    dumpable (outside [kf3_C11], [kf1_C11], [kf2_C11]), inside [kf3b_C11]; dump-then-restore FAILS.
    (Proved from the statement of the Example [C11_stale_asctx_refuted]; the 65536-column computation is
    NOT repeated here.) *)
Definition kf3b_witness_ops : list op := (map Feed w_stale_input ++ [Flush]) ++ [Resize 10 1].

Theorem C11_kf3b_witness :
  exists v d r o,
    runM (vt_new (N.to_nat 65536) 1 None) kf3b_witness_ops = Ok v
    /\ kf3b_C11 (vterm v) = true /\ kf3_C11 (vterm v) = false
    /\ kf1_C11 (vterm v) = false /\ kf2_C11 (vterm v) = false
    /\ vt_dump v = Ok d
    /\ feed_str (vt_new 10 1 None) d = Ok (r, o)
    /\ holds_C11 v r = false.
Proof.
  pose proof C11_stale_asctx_refuted as H.
  destruct w_stale as [v|] eqn:Ew; [|discriminate H].
  destruct (vt_dump v) as [d|] eqn:Ed; [|discriminate H].
  destruct (feed_str (vt_new 10 1 None) d) as [[r o]|] eqn:Er; [|discriminate H].
  apply andb_prop in H as [H _]. apply andb_prop in H as [H _].
  apply andb_prop in H as [H H6]. apply andb_prop in H as [H _]. apply andb_prop in H as [H H4].
  apply andb_prop in H as [H H3]. apply andb_prop in H as [H1 H2].
  apply Bool.negb_true_iff in H2, H3, H6.
  (* unfold [w_stale] on the GOAL side: the kernel then unfolds the constant rather than evaluating the run *)
  revert Ew. unfold w_stale. intros Ew.
  apply bind_ok in Ew as ([v0 o0] & E1 & E2). cbn [fst] in E2.
  exists v, d, r, o. split.
  { unfold kf3b_witness_ops. rewrite runM_app, (feed_str_runM _ _ _ _ E1). exact E2. }
  split; [exact H4|]. split; [unfold kf3_C11; rewrite H1; reflexivity|].
  repeat split; assumption.
Qed.
Print Assumptions C11_kf3b_witness.

