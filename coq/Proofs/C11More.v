(** Property C11, closing the audit gaps (clauses 5, 7, 8 of /tmp/pw/AUDIT.md).  In file order:

    Part 1 (clause 8): the restore target may have ANY scrollback limit:
      [C11_dump_reachable_any_limit], [C11_restore_and_future_any_limit].
    Part 3 (clause 5): the exact extent of known finding KF-C11-1: [kf1_restorable], [kf1_C11_narrow],
      [C11_dump_narrow], [C11_dump_reachable_narrow], [C11_restore_and_future_narrow]; Examples on both sides
      of the boundary ([C11_narrow_inside], [C11_narrow_outside]).  NOTE: the wording of KF-C11-1 ("the saved
      context disagrees with the current modes") is too narrow: the restore also fails when a margin lies
      between the saved row and the cursor row although all modes agree (witnesses [w_side], [w_side2], [w_side3]).
    Part 2 (clause 7): the stale saved context of the inactive screen ([dumpable'] vs [dumpable]) is a GENUINE
      additional exception ([C11_stale_asctx_refuted]), executable as [kf3b_C11] ([dumpable'_iff]); it cannot
      arise in histories whose sizes stay within 65535 x 65535 ([C11_dumpable'_small_history]).
      [C11_restore_and_future_exact]: the whole property with boolean exception classes only. *)

From Coq Require Import Lia ZArith ZifyBool ZifyNat ZifyN String.
From Avt Require Import Model.Vt Spec.Screen Spec.Eqb Oracles.Step Oracles.Rel Oracles.C11Narrow Proofs.Inv Proofs.ParserInv
  Proofs.BufScroll Proofs.Frames Proofs.InvTerm Proofs.ParamDT Proofs.ParamChop Proofs.PenInv
  Proofs.DumpParserEmits Proofs.DumpParserRT Proofs.InvStep Proofs.PenInvProofs Proofs.DumpMargins
  Proofs.DumpScriptBase Proofs.DumpScriptExec Proofs.DumpScriptSim Proofs.DumpScriptSeg
  Proofs.DumpScriptHead Proofs.DumpScriptMid Proofs.DumpScriptTail Proofs.DumpScript
  Proofs.Future Proofs.FutureInst Proofs.DumpFinal Proofs.InvCtl Proofs.TermEasy Proofs.InvLemmas.
Import ListNotations.
Ltac Zify.zify_post_hook ::= Z.div_mod_to_equations.
Local Open Scope nat_scope.

(** * Part 1: any scrollback limit of the restore target *)

(** Between two flushes no line is dropped whatever the limit (trimming is lazy, done by gc),
    so two fresh terminals that differ only in the limit stay [Rdtg false]-related (equal up to
    dirty flags, trim flags and limits) while the same text is fed to both. *)
Lemma new_Rvt c r l1 l2 : Rvt false (vt_new c r l1) (vt_new c r l2).
Proof.
  split; [reflexivity|]. unfold vt_new, term_new_gen. cbn [vterm].
  constructor; rsimp; try reflexivity; try apply RB_refl; try (intros X; discriminate X).
  apply buffer_new_RB. intros X; discriminate X.
Qed.

(** [holds_C11 v _] reads only what [Rdtg false] and a flush preserve *)
Lemma holds_C11_flushed_R0 v p a b :
  Rdtg false a b -> holds_C11 v (mkVt p (flushed a)) = holds_C11 v (mkVt p (flushed b)).
Proof.
  intros H. pose proof H as H0. destruct H0.
  pose proof (RB_view _ _ _ rd_buf) as Vb. pose proof (RB_view _ _ _ rd_other) as Vo.
  destruct rd_buf as [_ Bc Br _]. destruct rd_other as [_ Oc Or _].
  unfold holds_C11. cbn [vterm vparser].
  unfold obs_eqb_term, norm_C11, term_scalars_eqb, obs_buffer_eqb.
  change (other (flushed a)) with (other a). change (other (flushed b)) with (other b).
  rsimp.
  change (other (flushed a)) with (other a). change (other (flushed b)) with (other b).
  rewrite !view_flushed.
  change (bcols (buf (flushed a))) with (bcols (buf a)). change (bcols (buf (flushed b))) with (bcols (buf b)).
  change (brows (buf (flushed a))) with (brows (buf a)). change (brows (buf (flushed b))) with (brows (buf b)).
  change (cols (flushed a)) with (cols a). change (cols (flushed b)) with (cols b).
  change (rows (flushed a)) with (rows a). change (rows (flushed b)) with (rows b).
  change (active (flushed a)) with (active a). change (active (flushed b)) with (active b).
  change (cur_col (flushed a)) with (cur_col a). change (cur_col (flushed b)) with (cur_col b).
  change (cur_row (flushed a)) with (cur_row a). change (cur_row (flushed b)) with (cur_row b).
  change (cur_vis (flushed a)) with (cur_vis a). change (cur_vis (flushed b)) with (cur_vis b).
  change (tpen (flushed a)) with (tpen a). change (tpen (flushed b)) with (tpen b).
  change (cs0 (flushed a)) with (cs0 a). change (cs0 (flushed b)) with (cs0 b).
  change (cs1 (flushed a)) with (cs1 a). change (cs1 (flushed b)) with (cs1 b).
  change (acs (flushed a)) with (acs a). change (acs (flushed b)) with (acs b).
  change (tabs (flushed a)) with (tabs a). change (tabs (flushed b)) with (tabs b).
  change (ins (flushed a)) with (ins a). change (ins (flushed b)) with (ins b).
  change (org (flushed a)) with (org a). change (org (flushed b)) with (org b).
  change (awm (flushed a)) with (awm a). change (awm (flushed b)) with (awm b).
  change (nlm (flushed a)) with (nlm a). change (nlm (flushed b)) with (nlm b).
  change (ckm (flushed a)) with (ckm a). change (ckm (flushed b)) with (ckm b).
  change (pend (flushed a)) with (pend a). change (pend (flushed b)) with (pend b).
  change (top (flushed a)) with (top a). change (top (flushed b)) with (top b).
  change (bot (flushed a)) with (bot a). change (bot (flushed b)) with (bot b).
  change (sctx (flushed a)) with (sctx a). change (sctx (flushed b)) with (sctx b).
  change (asctx (flushed a)) with (asctx a). change (asctx (flushed b)) with (asctx b).
  change (xtw (flushed a)) with (xtw a). change (xtw (flushed b)) with (xtw b).
  rewrite Vb, Vo, Bc, Br, Oc, Or, rd_cols, rd_rows, rd_active, rd_cur_col, rd_cur_row, rd_cur_vis, rd_tpen,
    rd_cs0, rd_cs1, rd_acs, rd_tabs, rd_ins, rd_org, rd_awm, rd_nlm, rd_ckm, rd_pend, rd_top, rd_bot,
    rd_sctx, rd_asctx, rd_xtw.
  reflexivity.
Qed.

Lemma feed_chars_Inv_det s v v' : Inv v -> feed_chars v s = Ok v' -> Inv v'.
Proof.
  intros HI E. destruct (InvStep.feed_chars_Inv s v HI) as (v1 & E1 & HI1).
  rewrite E in E1. apply Ok_inj' in E1. subst v1. exact HI1.
Qed.

(** the transfer: a restore into [vt_new c r l1] that succeeds also succeeds into [vt_new c r l2],
    with the same verdict of [holds_C11] *)
Lemma restore_any_limit v c r l1 l2 d r1 o1 :
  1 <= c -> 1 <= r ->
  feed_str (vt_new c r l1) d = Ok (r1, o1) ->
  exists r2 o2, feed_str (vt_new c r l2) d = Ok (r2, o2) /\ holds_C11 v r2 = holds_C11 v r1
                /\ vparser r2 = vparser r1.
Proof.
  intros Hc Hr E. unfold feed_str in E |- *.
  apply bind_ok in E as (u1 & F1 & G1).
  destruct (rres_ok_inv _ _ _ _ (feed_chars_rres false d _ _ (new_Rvt c r l1 l2)) F1) as (u2 & F2 & HP & HR).
  rewrite F2. cbn [bind].
  pose proof (feed_chars_Inv_det _ _ _ (vt_new_Inv c r l1 Hc Hr) F1) as [_ HT1].
  pose proof (feed_chars_Inv_det _ _ _ (vt_new_Inv c r l2 Hc Hr) F2) as [_ HT2].
  rewrite (vt_flush_eq u1 HT1) in G1. apply Ok_inj' in G1. injection G1 as <- _.
  rewrite (vt_flush_eq u2 HT2).
  eexists. eexists. split; [reflexivity|]. cbn [vparser set]. split; [|symmetry; exact HP].
  destruct u1 as [p1 t1], u2 as [p2 t2]. cbn [vparser vterm set] in *. subst p2.
  symmetry. apply holds_C11_flushed_R0. exact HR.
Qed.

(** from a successful restore to the future half: everything [C11_future] needs holds for a
    reachable original and a restore target built from [vt_new] *)
Lemma future_of_restore c r l ops v l' d r0 o0 :
  1 <= c -> 1 <= r -> Forall op_ok ops -> runM (vt_new c r l) ops = Ok v ->
  kf2_C11 (vterm v) = false ->
  feed_str (vt_new (cols (vterm v)) (rows (vterm v)) l') d = Ok (r0, o0) ->
  holds_C11 v r0 = true ->
  forall s v' ov, feed_str v s = Ok (v', ov) ->
    exists r1 o1, feed_str r0 s = Ok (r1, o1) /\ holds_C11 v' r1 = true.
Proof.
  intros Hc Hr HF E Hk2 Er H s v' ov Es.
  destruct (C01_no_panic c r l ops Hc Hr HF) as (v1 & E1 & HI). rewrite E in E1.
  apply Ok_inj' in E1. subst v1.
  pose proof (ti_cols _ (proj2 HI)) as Hc'. pose proof (ti_rows _ (proj2 HI)) as Hr'.
  pose proof (vt_new_Inv (cols (vterm v)) (rows (vterm v)) l' Hc' Hr') as HIn.
  pose proof (feed_str_Inv_det _ _ _ _ HIn Er) as HI0.
  destruct (PWf_new c r l) as [HWn HPn].
  pose proof (runM_PWf ops _ v HPn HWn E) as HW.
  destruct (PWf_new (cols (vterm v)) (rows (vterm v)) l') as [HWn0 HPn0].
  destruct (feed_str_PWf _ _ _ _ HPn0 HWn0 Er) as [HW0 _].
  pose proof (kf2_false_parked_ok _ Hk2) as HPk.
  pose proof (holds_C11_parked _ _ H HPk) as HPk0.
  exact (C11_future_closed v r0 s v' ov HI HI0 HPk HPk0 HW HW0 H Es).
Qed.

(** AUDIT clause 8 / gap 3: the fresh terminal the dump is fed into may have any scrollback limit *)
Theorem C11_dump_reachable_any_limit : forall c r l ops v l', 1 <= c -> 1 <= r -> Forall op_ok ops -> runM (vt_new c r l) ops = Ok v -> dumpable' (vterm v) -> kf1_C11 (vterm v) = false -> kf2_C11 (vterm v) = false -> exists d r' o, vt_dump v = Ok d /\ feed_str (vt_new (cols (vterm v)) (rows (vterm v)) l') d = Ok (r', o) /\ holds_C11 v r' = true.
Proof.
  intros c r l ops v l' Hc Hr HF E HD Hk1 Hk2.
  destruct (C11_dump_run c r l ops v Hc Hr HF E HD Hk1 Hk2) as (d & r0 & o0 & Ed & Er & H).
  destruct (C01_no_panic c r l ops Hc Hr HF) as (v1 & E1 & HI). rewrite E in E1.
  apply Ok_inj' in E1. subst v1.
  pose proof (ti_cols _ (proj2 HI)) as Hc'. pose proof (ti_rows _ (proj2 HI)) as Hr'.
  destruct (restore_any_limit v _ _ None l' d r0 o0 Hc' Hr' Er) as (r2 & o2 & E2 & H2 & _).
  exists d, r2, o2. split; [exact Ed|]. split; [exact E2|]. rewrite H2. exact H.
Qed.
Print Assumptions C11_dump_reachable_any_limit.

Theorem C11_restore_and_future_any_limit : forall c r l ops v l', 1 <= c -> 1 <= r -> Forall op_ok ops -> runM (vt_new c r l) ops = Ok v -> dumpable' (vterm v) -> kf1_C11 (vterm v) = false -> kf2_C11 (vterm v) = false -> exists d r0 o0, vt_dump v = Ok d /\ feed_str (vt_new (cols (vterm v)) (rows (vterm v)) l') d = Ok (r0, o0) /\ holds_C11 v r0 = true /\ forall s v' ov, feed_str v s = Ok (v', ov) -> exists r1 o1, feed_str r0 s = Ok (r1, o1) /\ holds_C11 v' r1 = true.
Proof.
  intros c r l ops v l' Hc Hr HF E HD Hk1 Hk2.
  destruct (C11_dump_reachable_any_limit c r l ops v l' Hc Hr HF E HD Hk1 Hk2) as (d & r0 & o0 & Ed & Er & H).
  exists d, r0, o0. split; [exact Ed|]. split; [exact Er|]. split; [exact H|].
  exact (future_of_restore c r l ops v l' d r0 o0 Hc Hr HF E Hk2 Er H).
Qed.
Print Assumptions C11_restore_and_future_any_limit.

(** non-vacuity: a 10x3 terminal with limit 2 after some scrolling output, margins, a saved cursor;
    the dump is restored into a terminal with limit 1 (the scrollback differs, the verdict holds) *)
Definition ex1_input : list N := str "one" ++ [13;10]%N ++ str "two" ++ [13;10]%N ++ str "three" ++ [13;10]%N
  ++ str "four" ++ [27;55]%N ++ [27]%N ++ str "[2;3r" ++ [27]%N ++ str "[31mX".
Example C11_any_limit_example :
  match feed_str (vt_new 10 3 (Some 2%N)) ex1_input with
  | Ok (v, _) =>
    match vt_dump v with
    | Ok d => match feed_str (vt_new 10 3 (Some 1%N)) d with
              | Ok (r, _) => holds_C11 v r && negb (kf1_C11 (vterm v)) && negb (kf2_C11 (vterm v))
              | Panic _ => false end
    | Panic _ => false end
  | Panic _ => false end = true.
Proof. vm_compute. reflexivity. Qed.

(** * Part 3: the exact extent of KF-C11-1 (origin mode on, cursor outside the scroll region) *)

(** ** what the functions of the [CSI u] branch of step 9 do *)

Lemma as_usize_pos k d : 0 < k -> as_usize (N.of_nat k) d = k.
Proof. intros H. unfold as_usize, as_usize_gen. destruct (N.eqb_spec (N.of_nat k) 0); lia. Qed.

Lemma x_scorc E :
  execute E Scorc
  = Ok (E <| cur_col := sc_col (sctx E) |> <| cur_row := sc_row (sctx E) |> <| tpen := sc_pen (sctx E) |>
          <| org := sc_origin (sctx E) |> <| awm := sc_awm (sctx E) |> <| pend := false |>).
Proof. destruct E. reflexivity. Qed.

Lemma x_cuf E k :
  0 < k ->
  execute E (Cuf (N.of_nat k))
  = Ok (E <| cur_col := Nat.min (cur_col E + k) (cols E - 1) |> <| pend := false |>).
Proof.
  intros Hk. unfold execute. rewrite (as_usize_pos k 1 Hk).
  unfold move_cursor_to_rel_col, do_move_cursor_to_col.
  destruct (Z.ltb_spec (Z.of_nat (cur_col E) + Z.of_nat k) 0); [lia|].
  replace (Z.to_nat (Z.of_nat (cur_col E) + Z.of_nat k)) with (cur_col E + k) by lia.
  destruct (Nat.leb_spec (cols E) (cur_col E + k)).
  - replace (Nat.min (cur_col E + k) (cols E - 1)) with (cols E - 1) by lia. reflexivity.
  - replace (Nat.min (cur_col E + k) (cols E - 1)) with (cur_col E + k) by lia. reflexivity.
Qed.

Lemma x_cub E k :
  0 < k -> k <= cur_col E -> cur_col E < cols E -> pend E = false ->
  execute E (Cub (N.of_nat k)) = Ok (E <| cur_col := cur_col E - k |> <| pend := false |>).
Proof.
  intros Hk Hle Hlt Hp. unfold execute, cub. rewrite (as_usize_pos k 1 Hk), Hp.
  unfold move_cursor_to_rel_col, do_move_cursor_to_col.
  destruct (Z.ltb_spec (Z.of_nat (cur_col E) + - Z.of_nat k) 0); [lia|].
  replace (Z.to_nat (Z.of_nat (cur_col E) + - Z.of_nat k)) with (cur_col E - k) by lia.
  destruct (Nat.leb_spec (cols E) (cur_col E - k)); [lia|]. reflexivity.
Qed.

Lemma x_cuu E k :
  0 < k ->
  execute E (Cuu (N.of_nat k))
  = Ok (E <| cur_col := Nat.min (cur_col E) (cols E - 1) |>
          <| cur_row := if cur_row E <? top E then cur_row E - k else Nat.max (cur_row E - k) (top E) |>
          <| pend := false |>).
Proof. intros Hk. unfold execute. rewrite (as_usize_pos k 1 Hk). reflexivity. Qed.

Lemma x_cud E k :
  0 < k ->
  execute E (Cud (N.of_nat k))
  = Ok (E <| cur_col := Nat.min (cur_col E) (cols E - 1) |>
          <| cur_row := if bot E <? cur_row E then Nat.min (rows E - 1) (cur_row E + k)
                        else Nat.min (bot E) (cur_row E + k) |>
          <| pend := false |>).
Proof. intros Hk. unfold execute. rewrite (as_usize_pos k 1 Hk). reflexivity. Qed.

(** moving the column by CUB / CUF as [Terminal::dump] step 9 does *)
Definition fs_colmove (c0 c : nat) : list func :=
  match Nat.compare c c0 with
  | Lt => [Cub (N.of_nat (c0 - c))]
  | Gt => [Cuf (N.of_nat (c - c0))]
  | Eq => []
  end.
Definition fs_rowmove (r0 r : nat) : list func :=
  match Nat.compare r r0 with
  | Lt => [Cuu (N.of_nat (r0 - r))]
  | Gt => [Cud (N.of_nat (r - r0))]
  | Eq => []
  end.

Lemma pure_colmove E c :
  cur_col E < cols E -> pend E = false ->
  foldM execute (fs_colmove (cur_col E) c) E
  = Ok (E <| cur_col := Nat.min c (cols E - 1) |> <| pend := false |>).
Proof.
  intros Hlt Hp. unfold fs_colmove. destruct (Nat.compare_spec c (cur_col E)) as [He|Hl|Hg].
  - cbn [foldM]. replace (Nat.min c (cols E - 1)) with (cur_col E) by lia.
    destruct E; rsimp_in Hp; subst; reflexivity.
  - rewrite foldM_one, x_cub by (try assumption; lia).
    replace (cur_col E - (cur_col E - c)) with (Nat.min c (cols E - 1)) by lia. reflexivity.
  - rewrite foldM_one, x_cuf by lia.
    replace (cur_col E + (c - cur_col E)) with c by lia. reflexivity.
Qed.

(** moving the row by CUU / CUD: exact iff no margin lies between start and target *)
Lemma pure_rowmove E r :
  cur_col E < cols E -> pend E = false -> r < rows E -> bot E < rows E ->
  (r < top E -> cur_row E < top E) -> (bot E < r -> bot E < cur_row E) ->
  (top E <= r <= bot E -> top E <= cur_row E <= bot E) ->
  foldM execute (fs_rowmove (cur_row E) r) E = Ok (E <| cur_row := r |>).
Proof.
  intros Hlt Hp Hr Hb H1 H2 H3. unfold fs_rowmove. destruct (Nat.compare_spec r (cur_row E)) as [He|Hl|Hg].
  - cbn [foldM]. subst r. destruct E; reflexivity.
  - rewrite foldM_one, x_cuu by lia.
    replace (Nat.min (cur_col E) (cols E - 1)) with (cur_col E) by lia.
    replace (if cur_row E <? top E then cur_row E - (cur_row E - r)
             else Nat.max (cur_row E - (cur_row E - r)) (top E)) with r
      by (destruct (Nat.ltb_spec (cur_row E) (top E)); lia).
    destruct E; rsimp_in Hp; subst; reflexivity.
  - rewrite foldM_one, x_cud by lia.
    replace (Nat.min (cur_col E) (cols E - 1)) with (cur_col E) by lia.
    replace (if bot E <? cur_row E then Nat.min (rows E - 1) (cur_row E + (r - cur_row E))
             else Nat.min (bot E) (cur_row E + (r - cur_row E))) with r
      by (destruct (Nat.ltb_spec (bot E) (cur_row E)); lia).
    destruct E; rsimp_in Hp; subst; reflexivity.
Qed.

(** ** the exact extent of KF-C11-1 *)

(** In the [CSI u] branch of step 9 (origin mode on, cursor outside the region) the restore is
    still exact iff (1) the saved context has origin mode on (CSI u restores it, nothing later sets
    it again), (2) the saved context has auto-wrap on, or the terminal neither has auto-wrap on nor
    a pending wrap (step 12 can only switch auto-wrap OFF; the re-printed last cell of a pending
    wrap needs it ON), (3) no margin lies between the saved row and the cursor row (CUU / CUD stop
    at the margins of the region they start in or move towards). *)
Lemma kf1_narrow_of_kf1 t : kf1_C11 t = false -> kf1_C11_narrow t = false.
Proof. unfold kf1_C11_narrow. intros ->. reflexivity. Qed.

Definition fs_cursor_kf1 (t : term) : list func :=
  [Scorc] ++ fs_colmove (sc_col (sctx t)) (cur_col t) ++ fs_rowmove (sc_row (sctx t)) (cur_row t).

Lemma pure_cursor_kf1 t B O A L x y vis pn g0 g1 ac tb i aw nl ck pd asc d xt :
  TInv t -> MarginsInv t -> org t = true -> (cur_row t <? top t) || (bot t <? cur_row t) = true ->
  kf1_restorable t = true ->
  foldM execute (fs_org t ++ fs_margins t ++ fs_cursor_kf1 t)
    (mkTerm (cols t) (rows t) B O A L x y vis pn g0 g1 ac tb i false aw nl ck pd 0 (rows t - 1) (sctx t) asc d xt)
  = Ok (mkTerm (cols t) (rows t) B O A L (Nat.min (cur_col t) (cols t - 1)) (cur_row t) vis (sc_pen (sctx t))
          g0 g1 ac tb i true (sc_awm (sctx t)) nl ck false (top t) (bot t) (sctx t) asc d xt).
Proof.
  intros HT HM Ho Hout Hk. unfold MarginsInv in HM.
  pose proof (ti_margins _ HT) as [M1 M2]. pose proof (ti_row _ HT) as Hrow. pose proof (ti_col _ HT) as Hcol.
  pose proof (ti_rows _ HT) as Hrows. pose proof (ti_cols _ HT) as Hcols. pose proof (ti_sctx _ HT) as [Hs1 Hs2].
  unfold kf1_restorable in Hk.
  apply andb_prop in Hk as [Hk K4]. apply andb_prop in Hk as [Hk K3]. apply andb_prop in Hk as [K1 K2].
  unfold fs_org, fs_margins, fs_cursor_kf1. rewrite Ho.
  (* s7, s8: origin mode on, margins; the cursor is homed to the top margin *)
  assert (P78 : foldM execute ([Decset [Origin]] ++ (if (0 <? top t) || (bot t <? rows t - 1)
                   then [Decstbm (N.of_nat (top t + 1)) (N.of_nat (bot t + 1))] else []))
            (mkTerm (cols t) (rows t) B O A L x y vis pn g0 g1 ac tb i false aw nl ck pd 0 (rows t - 1) (sctx t) asc d xt)
          = Ok (mkTerm (cols t) (rows t) B O A L 0 (top t) vis pn g0 g1 ac tb i true aw nl ck false (top t) (bot t)
                  (sctx t) asc d xt)).
  { destruct ((0 <? top t) || (bot t <? rows t - 1)) eqn:Em; cbn [app foldM]; rewrite x_home_on; cbn [bind].
    - rewrite x_decstbm by (rsimp; lia). reflexivity.
    - rsimp. replace (top t) with 0 by lia. replace (bot t) with (rows t - 1) by lia. reflexivity. }
  rewrite app_assoc. eapply foldM_app_ok; [exact P78|]. clear P78.
  (* s9: CSI u, then the relative moves *)
  cbn [app foldM]. rewrite x_scorc. cbn [bind]. rsimp. rewrite K1.
  eapply foldM_app_ok.
  - match goal with |- foldM execute _ ?E1 = _ =>
      change (sc_col (sctx t)) with (cur_col E1) at 1; apply pure_colmove; rsimp; [lia|reflexivity] end.
  - rsimp.
    match goal with |- foldM execute _ ?E1 = _ =>
      change (sc_row (sctx t)) with (cur_row E1) at 1; rewrite pure_rowmove; rsimp; try lia; try reflexivity end.
Qed.

Lemma emits_colmove c0 c :
  (N.of_nat c0 < 65536)%N -> (N.of_nat c < 65536)%N ->
  emits (match Nat.compare c c0 with
         | Lt => CSI :: show_nat (c0 - c) ++ [68%N]
         | Gt => CSI :: show_nat (c - c0) ++ [67%N]
         | Eq => []
         end) (fs_colmove c0 c).
Proof.
  intros H0 H1. unfold fs_colmove, show_nat. destruct (Nat.compare c c0).
  - apply emits_nil.
  - apply emits_cub. lia.
  - apply emits_cuf. lia.
Qed.

Lemma emits_rowmove r0 r :
  (N.of_nat r0 < 65536)%N -> (N.of_nat r < 65536)%N ->
  emits (match Nat.compare r r0 with
         | Lt => CSI :: show_nat (r0 - r) ++ [65%N]
         | Gt => CSI :: show_nat (r - r0) ++ [66%N]
         | Eq => []
         end) (fs_rowmove r0 r).
Proof.
  intros H0 H1. unfold fs_rowmove, show_nat. destruct (Nat.compare r r0).
  - apply emits_nil.
  - apply emits_cuu. lia.
  - apply emits_cud. lia.
Qed.

Lemma emits_cursor_kf1 t :
  TInv t -> dumpable t = true -> org t = true -> (cur_row t <? top t) || (bot t <? cur_row t) = true ->
  emits (if org t then
           if (cur_row t <? top t) || (bot t <? cur_row t) then
             CSI :: [117%N]
             ++ (match Nat.compare (cur_col t) (sc_col (sctx t)) with
                 | Lt => CSI :: show_nat (sc_col (sctx t) - cur_col t) ++ [68%N]
                 | Gt => CSI :: show_nat (cur_col t - sc_col (sctx t)) ++ [67%N]
                 | Eq => []
                 end)
             ++ (match Nat.compare (cur_row t) (sc_row (sctx t)) with
                 | Lt => CSI :: show_nat (sc_row (sctx t) - cur_row t) ++ [65%N]
                 | Gt => CSI :: show_nat (cur_row t - sc_row (sctx t)) ++ [66%N]
                 | Eq => []
                 end)
           else CSI :: show_nat (cur_row t - top t + 1) ++ [59%N] ++ show_nat (cur_col t + 1) ++ [72%N]
         else CSI :: show_nat (cur_row t + 1) ++ [59%N] ++ show_nat (cur_col t + 1) ++ [72%N])
        (fs_cursor_kf1 t).
Proof.
  intros HT HD Ho Hout. rewrite Ho, Hout. unfold fs_cursor_kf1.
  pose proof (ti_row _ HT) as Hrow. pose proof (ti_col _ HT) as Hcol. pose proof (ti_sctx _ HT) as [Hs1 Hs2].
  unfold dumpable in HD.
  change (CSI :: [117%N] ++ ?a ++ ?b) with ([155; 117]%N ++ a ++ b).
  apply emits_app; [apply emits_scorc|].
  apply emits_app; [apply emits_colmove; lia|apply emits_rowmove; lia].
Qed.

(** the mode segment when auto-wrap may already be off on the restored side *)
Lemma c_awm' t E : awm E = true \/ awm t = false ->
  foldM execute (if negb (awm t) then [Decrst [AutoWrap]] else []) E = Ok (E <| awm := awm t |>).
Proof.
  intros H. destruct (awm t) eqn:Ea; cbn [negb].
  - destruct H as [H|H]; [|discriminate H]. destruct E; rsimp_in H; subst; reflexivity.
  - reflexivity.
Qed.

Lemma pure_modes' t E :
  pen_wf (tpen t) -> acs t <= 1 ->
  cur_vis E = true -> cs0 E = CsAscii -> cs1 E = CsAscii -> acs E = 0 -> ins E = false ->
  (awm E = true \/ awm t = false) -> nlm E = false -> ckm E = false ->
  foldM execute (fs_modes t) E
  = Ok (E <| tpen := tpen t |> <| cur_vis := cur_vis t |> <| cs0 := cs0 t |> <| cs1 := cs1 t |>
          <| acs := acs t |> <| ins := ins t |> <| awm := awm t |> <| nlm := nlm t |> <| ckm := ckm t |>).
Proof.
  intros Hp Ha H1 H2 H3 H4 H5 H6 H7 H8. unfold fs_modes.
  eapply foldM_app_ok; [rewrite foldM_one; apply pure_pen; exact Hp|].
  eapply foldM_app_ok; [apply c_vis; exact H1|].
  eapply foldM_app_ok; [apply c_cs0; exact H2|].
  eapply foldM_app_ok; [apply c_cs1; exact H3|].
  eapply foldM_app_ok; [apply c_acs; [exact H4|exact Ha]|].
  eapply foldM_app_ok; [apply c_ins; exact H5|].
  eapply foldM_app_ok; [apply c_awm'; exact H6|].
  eapply foldM_app_ok; [apply c_nlm; exact H7|].
  apply c_ckm. exact H8.
Qed.

(** s9b - s14 from any auto-wrap state [AW] of the restored side that is on, or off like the original's
    while no wrap is pending *)
Lemma tail_rest t v7 Bact Boff pn AW sc asc d s9b :
  TInv t -> PensInv t -> CharsInv t -> view Bact = view (buf t) ->
  (AW = true \/ (awm t = false /\ pend t = false)) ->
  Sim v7 (mkTerm (cols t) (rows t) Bact Boff (active t) None (Nat.min (cur_col t) (cols t - 1))
            (cur_row t) true pn CsAscii CsAscii 0 (tabs t) false (org t) AW false false false
            (top t) (bot t) sc asc d false) ->
  (if cols t <=? cur_col t then
     l <- get_row (buf t) (cur_row t) ;;
     match nth_error (cells l) (cols t - 1) with
     | Some c => Ok (pen_dump (cpen c) ++ [ch c])
     | None => Panic 83
     end
   else Ok []) = Ok s9b ->
  exists vf,
    feed_chars v7
      (s9b
       ++ (pen_dump (tpen t) ++ (if negb (cur_vis t) then CSI :: str "?25l" else []))
       ++ ((match cs0 t with CsDrawing => ESC :: str "(0" | CsAscii => [] end)
           ++ (match cs1 t with CsDrawing => ESC :: str ")0" | CsAscii => [] end)
           ++ (if (acs t =? 1)%nat then [14%N] else []))
       ++ (if ins t then CSI :: str "4h" else [])
       ++ (if negb (awm t) then CSI :: str "?7l" else [])
       ++ (if nlm t then CSI :: str "20h" else [])
       ++ (if ckm t then CSI :: str "?1h" else [])) = Ok vf
    /\ Sim vf (mkTerm (cols t) (rows t) Bact Boff (active t) None (cur_col t) (cur_row t) (cur_vis t)
                      (tpen t) (cs0 t) (cs1 t) (acs t) (tabs t) (ins t) (org t) (awm t) (nlm t) (ckm t)
                      (pend t) (top t) (bot t) sc asc d false).
Proof.
  intros HT HPen HCh HV HAW S7 H9b.
  assert (H9 : exists v9 p9, feed_chars v7 s9b = Ok v9
                 /\ Sim v9 (mkTerm (cols t) (rows t) Bact Boff (active t) None (cur_col t)
                              (cur_row t) true p9 CsAscii CsAscii 0 (tabs t) false (org t) AW false false
                              (pend t) (top t) (bot t) sc asc d false)).
  { pose proof (ti_col _ HT) as Hcol. pose proof (ti_pend _ HT) as Hpend. pose proof (ti_cols _ HT) as Hcols.
    destruct (Nat.leb_spec (cols t) (cur_col t)) as [Hge|Hlt].
    - (* wrap pending *)
      assert (Ecol : cur_col t = cols t) by lia.
      assert (Epend : pend t = true) by (apply Hpend; exact Ecol).
      assert (EAW : AW = true).
      { destruct HAW as [HAW|[_ HAW]]; [exact HAW|]. rewrite Epend in HAW. discriminate HAW. }
      subst AW.
      apply bind_ok in H9b as (l & Hg & H9b).
      destruct (nth_error (cells l) (cols t - 1)) as [cl|] eqn:Hcl; [|discriminate].
      apply Ok_inj' in H9b. subst s9b.
      apply get_row_view in Hg.
      assert (Hin : In l (lines (buf t))) by (apply view_In; eapply nth_error_In; exact Hg).
      assert (Hcin : In cl (cells l)) by (eapply nth_error_In; exact Hcl).
      assert (Hpw : pen_wf (cpen cl)).
      { destruct HPen as (_ & Hl & _). unfold lines_wf, cells_wf in Hl. rewrite Forall_forall in Hl.
        specialize (Hl l Hin). rewrite Forall_forall in Hl. exact (Hl cl Hcin). }
      assert (Hch : ch_ok (ch cl)).
      { destruct HCh as [Hl _]. rewrite Forall_forall in Hl.
        specialize (Hl l Hin). rewrite Forall_forall in Hl. exact (Hl cl Hcin). }
      assert (P8 : foldM execute [Sgr (dp_ops (cpen cl))]
                     (mkTerm (cols t) (rows t) Bact Boff (active t) None (Nat.min (cur_col t) (cols t - 1))
                        (cur_row t) true pn CsAscii CsAscii 0 (tabs t) false (org t) true false false false
                        (top t) (bot t) sc asc d false)
                   = Ok (mkTerm (cols t) (rows t) Bact Boff (active t) None (Nat.min (cur_col t) (cols t - 1))
                        (cur_row t) true (cpen cl) CsAscii CsAscii 0 (tabs t) false (org t) true false false false
                        (top t) (bot t) sc asc d false)).
      { rewrite foldM_one, pure_pen by exact Hpw. reflexivity. }
      destruct (sim_emits _ _ v7 _ _ (emits_pen _ Hpw) S7 P8) as (v8 & F8 & S8).
      destruct (sim_print_last v8 _ (ch cl) l S8 Hch) as (v9 & F9 & S9).
      + reflexivity.
      + reflexivity.
      + reflexivity.
      + reflexivity.
      + rsimp. lia.
      + rsimp. rewrite HV. exact Hg.
      + rsimp. rewrite Hcl. destruct cl; reflexivity.
      + exists v9, (cpen cl). split; [exact (sim_app _ _ _ v8 _ F8 F9)|].
        rewrite Ecol, Epend.
        norm_sim S9 (mkTerm (cols t) (rows t) Bact Boff (active t) None (cols t)
                              (cur_row t) true (cpen cl) CsAscii CsAscii 0 (tabs t) false (org t) true false false
                              true (top t) (bot t) sc asc d false).
        exact S9.
    - (* cursor inside *)
      apply Ok_inj' in H9b. subst s9b.
      assert (Epend : pend t = false).
      { destruct (pend t) eqn:Ep; [|reflexivity]. assert (cur_col t = cols t) by (apply Hpend; reflexivity). lia. }
      assert (Hmin : Nat.min (cur_col t) (cols t - 1) = cur_col t) by lia.
      exists v7, pn. split; [reflexivity|].
      rewrite Epend. rewrite Hmin in S7. exact S7. }
  destruct H9 as (v9 & p9 & F9 & S9).
  assert (HAW' : AW = true \/ awm t = false) by (destruct HAW as [HAW|[HAW _]]; [left|right]; exact HAW).
  match type of S9 with Sim _ ?E =>
    pose proof (pure_modes' t E (proj1 HPen) (ti_acs _ HT) eq_refl eq_refl eq_refl eq_refl eq_refl HAW'
                  eq_refl eq_refl) as P10 end.
  norm_res P10 (mkTerm (cols t) (rows t) Bact Boff (active t) None (cur_col t) (cur_row t) (cur_vis t)
                      (tpen t) (cs0 t) (cs1 t) (acs t) (tabs t) (ins t) (org t) (awm t) (nlm t) (ckm t)
                      (pend t) (top t) (bot t) sc asc d false).
  destruct (sim_emits _ _ v9 _ _ (emits_modes t (proj1 HPen)) S9 P10) as (vf & Ff & Sf).
  exists vf. split; [|exact Sf].
  apply (sim_app _ _ _ v9 _ F9). exact Ff.
Qed.

(** [sim_tail] outside the NARROW class only *)
Theorem sim_tail_narrow t v6 Bact Boff x y pn z asc d s9b :
  TInv t -> MarginsInv t -> PensInv t -> CharsInv t -> dumpable t = true -> kf1_C11_narrow t = false ->
  view Bact = view (buf t) ->
  Sim v6 (mkTerm (cols t) (rows t) Bact Boff (active t) None x y true pn CsAscii CsAscii 0 (tabs t)
                 false false true false false z 0 (rows t - 1) (sctx t) asc d false) ->
  (if cols t <=? cur_col t then
     l <- get_row (buf t) (cur_row t) ;;
     match nth_error (cells l) (cols t - 1) with
     | Some c => Ok (pen_dump (cpen c) ++ [ch c])
     | None => Panic 83
     end
   else Ok []) = Ok s9b ->
  exists vf,
    feed_chars v6
      ((if org t then CSI :: str "?6h" else [])
       ++ (if (0 <? top t) || (bot t <? rows t - 1)
           then CSI :: show_nat (top t + 1) ++ [59%N] ++ show_nat (bot t + 1) ++ [114%N] else [])
       ++ (if org t then
             if (cur_row t <? top t) || (bot t <? cur_row t) then
               CSI :: [117%N]
               ++ (match Nat.compare (cur_col t) (sc_col (sctx t)) with
                   | Lt => CSI :: show_nat (sc_col (sctx t) - cur_col t) ++ [68%N]
                   | Gt => CSI :: show_nat (cur_col t - sc_col (sctx t)) ++ [67%N]
                   | Eq => []
                   end)
               ++ (match Nat.compare (cur_row t) (sc_row (sctx t)) with
                   | Lt => CSI :: show_nat (sc_row (sctx t) - cur_row t) ++ [65%N]
                   | Gt => CSI :: show_nat (cur_row t - sc_row (sctx t)) ++ [66%N]
                   | Eq => []
                   end)
             else CSI :: show_nat (cur_row t - top t + 1) ++ [59%N] ++ show_nat (cur_col t + 1) ++ [72%N]
           else CSI :: show_nat (cur_row t + 1) ++ [59%N] ++ show_nat (cur_col t + 1) ++ [72%N])
       ++ s9b
       ++ (pen_dump (tpen t) ++ (if negb (cur_vis t) then CSI :: str "?25l" else []))
       ++ ((match cs0 t with CsDrawing => ESC :: str "(0" | CsAscii => [] end)
           ++ (match cs1 t with CsDrawing => ESC :: str ")0" | CsAscii => [] end)
           ++ (if (acs t =? 1)%nat then [14%N] else []))
       ++ (if ins t then CSI :: str "4h" else [])
       ++ (if negb (awm t) then CSI :: str "?7l" else [])
       ++ (if nlm t then CSI :: str "20h" else [])
       ++ (if ckm t then CSI :: str "?1h" else [])) = Ok vf
    /\ Sim vf (mkTerm (cols t) (rows t) Bact Boff (active t) None (cur_col t) (cur_row t) (cur_vis t)
                      (tpen t) (cs0 t) (cs1 t) (acs t) (tabs t) (ins t) (org t) (awm t) (nlm t) (ckm t)
                      (pend t) (top t) (bot t) (sctx t) asc d false).
Proof.
  intros HT HM HPen HCh HD Hkn HV S6 H9b.
  destruct (kf1_C11 t) eqn:Hk.
  2: exact (sim_tail t v6 Bact Boff x y pn z (sctx t) asc d s9b HT HM HPen HCh HD Hk HV S6 H9b).
  (* the CSI u branch *)
  unfold kf1_C11_narrow in Hkn. rewrite Hk in Hkn. cbn [andb] in Hkn. apply Bool.negb_false_iff in Hkn.
  unfold kf1_C11 in Hk. apply andb_prop in Hk as [Ho Hout].
  pose proof (pure_cursor_kf1 t Bact Boff (active t) None x y true pn CsAscii CsAscii 0 (tabs t) false true
                false false z asc d false HT HM Ho Hout Hkn) as P7.
  assert (Em7 : emits _ (fs_org t ++ fs_margins t ++ fs_cursor_kf1 t))
    by exact (emits_app _ _ _ _ (emits_org t)
                (emits_app _ _ _ _ (emits_margins t HT HD) (emits_cursor_kf1 t HT HD Ho Hout))).
  destruct (sim_emits _ _ v6 _ _ Em7 S6 P7) as (v7 & F7 & S7).
  assert (HAW : sc_awm (sctx t) = true \/ (awm t = false /\ pend t = false)).
  { unfold kf1_restorable in Hkn. destruct (sc_awm (sctx t)); [left; reflexivity|right].
    destruct (awm t), (pend t); try (split; reflexivity);
      rewrite ?Bool.andb_false_r in Hkn; cbn in Hkn; discriminate Hkn. }
  assert (S7' : Sim v7 (mkTerm (cols t) (rows t) Bact Boff (active t) None (Nat.min (cur_col t) (cols t - 1))
            (cur_row t) true (sc_pen (sctx t)) CsAscii CsAscii 0 (tabs t) false (org t) (sc_awm (sctx t))
            false false false (top t) (bot t) (sctx t) asc d false)) by (rewrite Ho; exact S7).
  destruct (tail_rest t v7 Bact Boff _ _ (sctx t) asc d s9b HT HPen HCh HV HAW S7' H9b) as (vf & Ff & Sf).
  exists vf. split; [|exact Sf].
  apply (feed_app3 _ _ _ _ _ v7 _ F7). exact Ff.
Qed.
Print Assumptions sim_tail_narrow.

(** ** the restore theorem outside the narrow class *)

Theorem C11_dump_narrow : forall v, Inv v -> PReach (vparser v) -> PensInv (vterm v) -> CharsInv (vterm v) -> MarginsInv (vterm v) -> dumpable' (vterm v) -> kf1_C11_narrow (vterm v) = false -> kf2_C11 (vterm v) = false -> exists d r o, vt_dump v = Ok d /\ feed_str (vt_new (cols (vterm v)) (rows (vterm v)) None) d = Ok (r, o) /\ holds_C11 v r = true.
Proof.
  intros v HI HR HPen HCh HM (HD & HA1 & HA2) Hk1 Hk2.
  destruct (vt_dump_ok v HI) as (d & Hd). exists d.
  pose proof HI as [HP HT]. set (t := vterm v) in *.
  pose proof (ti_cols _ HT) as Hc. pose proof (ti_rows _ HT) as Hr.
  assert (Hc2 : (N.of_nat (cols t) <= 65534)%N) by (unfold dumpable in HD; lia).
  assert (Hr2 : (N.of_nat (rows t) <= 65535)%N) by (unfold dumpable in HD; lia).
  pose proof (ti_sctx _ HT) as [Hs1 Hs2].
  pose proof HPen as (Pp & Pb & Po & Ps & Pa). pose proof HCh as [Cb Co].
  destruct (buffer_facts _ (ti_buf _ HT) Cb Pb) as (Fb1 & Fb2 & Fb3).
  destruct (buffer_facts _ (ti_other _ HT) Co Po) as (Fo1 & Fo2 & Fo3).
  pose proof Hd as Hd0.
  unfold vt_dump in Hd. apply bind_ok in Hd as (a & Ha & Hd). apply bind_ok in Hd as (b & Hb & Hd).
  apply Ok_inj' in Hd. subst d.
  assert (Eb : b = parser_dump (vparser v)).
  { unfold parser_dumpM in Hb. destruct (cur_param (vparser v) <? length (params (vparser v))); [|discriminate].
    apply Ok_inj' in Hb. symmetry. exact Hb. }
  subst b. fold t in Ha.
  destruct (active t) eqn:HA.
  - (* the original is on the primary screen *)
    unfold term_dump, primary_buffer, alternate_buffer, is_alt in Ha. rewrite HA in Ha.
    cbv beta iota zeta in Ha.
    apply bind_ok in Ha as (s1 & D1 & Ha). cbn [bind] in Ha.
    apply bind_ok in Ha as (s9b & D9 & Ha). apply Ok_inj' in Ha. subst a.
    destruct (sim_head (cols t) (rows t) (buf t) (sctx t) (tabs t) s1 Hc Hr Hc2 Hr2
                (proj1 (ti_buf _ HT)) (ti_bcols _ HT) (ti_brows _ HT) Fb1 Fb2 Fb3 (ti_tabs _ HT) Hs1 Hs2 Ps D1)
      as (v3 & B1 & x3 & y3 & z3 & F3 & S3 & V1 & G1 & G2 & G3).
    destruct (sim_mid_primary (cols t) (rows t) v3 B1 _ x3 y3 z3 (tabs t) (sctx t) (asctx t) _
                Hc Hr Hc2 Hr2 G1 G2 Hs1 Hs2 Pa HA1 HA2 S3)
      as (v6 & Boff & x6 & y6 & p6 & z6 & asc & F6 & S6 & HC).
    rewrite <- HA in S6.
    destruct (sim_tail_narrow t v6 B1 Boff x6 y6 p6 z6 asc _ s9b HT HM HPen HCh HD Hk1 V1 S6 D9)
      as (vf & Ff & Sf).
    rewrite text_split in Hd0 |- *.
    destruct (finish v _ vf B1 Boff asc _ HI HR (feed_split _ _ _ _ _ _ _ F3 F6 Ff) Sf V1 G1 G2 HC)
      as (r & o & Fr & Hh).
    { fold t. rewrite HA. discriminate. }
    exists r, o. split; [exact Hd0|]. split; assumption.
  - (* the original is on the alternate screen *)
    assert (Hgeo : bcols (other t) = cols t /\ brows (other t) = rows t).
    { unfold kf2_C11, is_alt_b in Hk2. fold t in Hk2. rewrite HA in Hk2. cbn [btype_eqb andb] in Hk2. lia. }
    destruct Hgeo as [Hg1 Hg2].
    pose proof (ti_parked _ HT) as Hpk. rewrite HA, Hg1, Hg2 in Hpk. destruct Hpk as [Hp1 Hp2].
    unfold term_dump, primary_buffer, alternate_buffer, is_alt in Ha. rewrite HA in Ha.
    cbv beta iota zeta in Ha.
    apply bind_ok in Ha as (s1 & D1 & Ha).
    apply bind_ok in Ha as (s4b & D4 & Ha).
    apply bind_ok in D4 as (s4 & D4 & E4). apply Ok_inj' in E4. subst s4b.
    apply bind_ok in Ha as (s9b & D9 & Ha). apply Ok_inj' in Ha. subst a.
    destruct (sim_head (cols t) (rows t) (other t) (asctx t) (tabs t) s1 Hc Hr Hc2 Hr2
                (proj1 (ti_other _ HT)) Hg1 Hg2 Fo1 Fo2 Fo3 (ti_tabs _ HT) Hp1 Hp2 Pa D1)
      as (v3 & B1 & x3 & y3 & z3 & F3 & S3 & V1 & G1 & G2 & G3).
    destruct (sim_mid_alternate (cols t) (rows t) v3 B1 _ x3 y3 z3 (tabs t) (asctx t) (sctx t) _ (buf t) s4
                Hc Hr Hc2 Hr2 Hs1 Hs2 Ps (proj1 (ti_buf _ HT)) (ti_bcols _ HT) (ti_brows _ HT)
                Fb1 Fb2 Fb3 D4 S3)
      as (v6 & B2 & x6 & y6 & p6 & z6 & F6 & S6 & V2 & G4 & G5).
    rewrite <- HA in S6.
    destruct (sim_tail_narrow t v6 B2 B1 x6 y6 p6 z6 (asctx t) _ s9b HT HM HPen HCh HD Hk1 V2 S6 D9)
      as (vf & Ff & Sf).
    rewrite text_split in Hd0 |- *.
    destruct (finish v _ vf B2 B1 (asctx t) _ HI HR (feed_split _ _ _ _ _ _ _ F3 F6 Ff) Sf V2 G4 G5 eq_refl)
      as (r & o & Fr & Hh).
    { intros _. split; [exact V1|]. split; [rewrite G1; symmetry; exact Hg1|rewrite G2; symmetry; exact Hg2]. }
    exists r, o. split; [exact Hd0|]. split; assumption.
Qed.
Print Assumptions C11_dump_narrow.


(** ... for every history, with any scrollback limit of the restore target *)
Theorem C11_dump_reachable_narrow : forall c r l ops v l', 1 <= c -> 1 <= r -> Forall op_ok ops -> runM (vt_new c r l) ops = Ok v -> dumpable' (vterm v) -> kf1_C11_narrow (vterm v) = false -> kf2_C11 (vterm v) = false -> exists d r' o, vt_dump v = Ok d /\ feed_str (vt_new (cols (vterm v)) (rows (vterm v)) l') d = Ok (r', o) /\ holds_C11 v r' = true.
Proof.
  intros c r l ops v l' Hc Hr HF E HD Hk1 Hk2.
  destruct (C01_no_panic c r l ops Hc Hr HF) as (v1 & E1 & HI). rewrite E in E1. apply Ok_inj' in E1. subst v1.
  destruct (runM_PReach_Margins ops (vt_new c r l) v (vt_new_Inv c r l Hc Hr) init_parser_PReach
              (term_new_MarginsInv c r l) HF E) as [HR HM].
  destruct (runM_invs ops (vt_new c r l) v init_parser_PInv (term_new_PensInv c r l)
              (term_new_CharsInv c r l) E) as (_ & HPen & HCh).
  destruct (C11_dump_narrow v HI HR HPen HCh HM HD Hk1 Hk2) as (d & r0 & o0 & Ed & Er & H).
  pose proof (ti_cols _ (proj2 HI)) as Hc'. pose proof (ti_rows _ (proj2 HI)) as Hr'.
  destruct (restore_any_limit v _ _ None l' d r0 o0 Hc' Hr' Er) as (r2 & o2 & E2 & H2 & _).
  exists d, r2, o2. split; [exact Ed|]. split; [exact E2|]. rewrite H2. exact H.
Qed.
Print Assumptions C11_dump_reachable_narrow.

(** PROPERTY C11 IN ONE STATEMENT, with the first known-finding class narrowed to its exact extent and
    any scrollback limit of the fresh terminal *)
Theorem C11_restore_and_future_narrow : forall c r l ops v l', 1 <= c -> 1 <= r -> Forall op_ok ops -> runM (vt_new c r l) ops = Ok v -> dumpable' (vterm v) -> kf1_C11_narrow (vterm v) = false -> kf2_C11 (vterm v) = false -> exists d r0 o0, vt_dump v = Ok d /\ feed_str (vt_new (cols (vterm v)) (rows (vterm v)) l') d = Ok (r0, o0) /\ holds_C11 v r0 = true /\ forall s v' ov, feed_str v s = Ok (v', ov) -> exists r1 o1, feed_str r0 s = Ok (r1, o1) /\ holds_C11 v' r1 = true.
Proof.
  intros c r l ops v l' Hc Hr HF E HD Hk1 Hk2.
  destruct (C11_dump_reachable_narrow c r l ops v l' Hc Hr HF E HD Hk1 Hk2) as (d & r0 & o0 & Ed & Er & H).
  exists d, r0, o0. split; [exact Ed|]. split; [exact Er|]. split; [exact H|].
  exact (future_of_restore c r l ops v l' d r0 o0 Hc Hr HF E Hk2 Er H).
Qed.
Print Assumptions C11_restore_and_future_narrow.

(** ** both sides of the boundary, on concrete reachable states (8 x 5, dump -> restore evaluated) *)
Definition E_ : list N := [27%N].
Definition probe_kf1 (inp : list N) : option (bool * bool * bool) :=
  match feed_str (vt_new 8 5 None) inp with
  | Ok (v, _) =>
    match vt_dump v with
    | Ok d => match feed_str (vt_new 8 5 (Some 3%N)) d with
              | Ok (r, _) => Some (kf1_C11 (vterm v), kf1_C11_narrow (vterm v), holds_C11 v r)
              | Panic _ => None end
    | Panic _ => None end
  | Panic _ => None end.
(* saved context agrees: DECOM, DECSC at row 0, region 2..3, DECRC *)
Definition w_agree := E_ ++ str "[?6h" ++ E_ ++ str "7" ++ E_ ++ str "[2;3r" ++ E_ ++ str "8".
(* the corpus witness of KF-C11-1: saved auto-wrap off, current on *)
Definition w_awm := E_ ++ str "[?7l" ++ E_ ++ str "[?6h" ++ E_ ++ str "7" ++ E_ ++ str "[2;3r" ++ E_ ++ str "8" ++ E_ ++ str "[?7h".
(* saved origin off (the primary's context, swapped in by leaving the alternate screen), current on *)
Definition w_org := E_ ++ str "7" ++ E_ ++ str "[?1047h" ++ E_ ++ str "[?6h" ++ E_ ++ str "7" ++ E_ ++ str "[2;3r" ++ E_ ++ str "8" ++ E_ ++ str "[?1047l".
(* auto-wrap off in both *)
Definition w_awm_off_both := E_ ++ str "[?7l" ++ E_ ++ str "[?6h" ++ E_ ++ str "7" ++ E_ ++ str "[2;3r" ++ E_ ++ str "8".
(* saved auto-wrap on, current off: step 12 switches it off again *)
Definition w_awm_on_off := w_agree ++ E_ ++ str "[?7l".
(* auto-wrap off in both but a wrap is pending: the re-printed cell does not set the pending wrap *)
Definition w_pend := w_awm_off_both ++ E_ ++ str "[?7h" ++ str "abcdefgh" ++ E_ ++ str "[?7l".
(* pending wrap, saved auto-wrap on *)
Definition w_pend_ok := w_agree ++ str "abcdefgh" ++ E_ ++ str "[?7l".
(* MODES AGREE but the saved row (4) is beyond the region and the cursor (row 0) above it: CUU stops at the top margin *)
Definition w_side := E_ ++ str "[?6h" ++ E_ ++ str "[5;1H" ++ E_ ++ str "7" ++ E_ ++ str "[?1047h" ++ E_ ++ str "[1;1H" ++ E_ ++ str "7" ++ E_ ++ str "[2;3r" ++ E_ ++ str "8" ++ E_ ++ str "[?1047l".
(* mirrored: saved row 0 above, cursor row 4 below: CUD stops at the bottom margin *)
Definition w_side2 := E_ ++ str "[?6h" ++ E_ ++ str "7" ++ E_ ++ str "[?1047h" ++ E_ ++ str "[5;1H" ++ E_ ++ str "7" ++ E_ ++ str "[2;3r" ++ E_ ++ str "8" ++ E_ ++ str "[?1047l".
(* saved row inside the region, cursor above it *)
Definition w_side3 := E_ ++ str "[?6h" ++ E_ ++ str "[2;1H" ++ E_ ++ str "7" ++ E_ ++ str "[?1047h" ++ E_ ++ str "[1;1H" ++ E_ ++ str "7" ++ E_ ++ str "[2;3r" ++ E_ ++ str "8" ++ E_ ++ str "[?1047l".
(* same side, different row and column (CUU 1, CUF 3 after DECRC) *)
Definition w_same_above := E_ ++ str "[?6h" ++ E_ ++ str "[2;1H" ++ E_ ++ str "7" ++ E_ ++ str "[3;4r" ++ E_ ++ str "8" ++ E_ ++ str "[A" ++ E_ ++ str "[3C".
Definition w_same_below := E_ ++ str "[?6h" ++ E_ ++ str "[4;6H" ++ E_ ++ str "7" ++ E_ ++ str "[1;2r" ++ E_ ++ str "8" ++ E_ ++ str "[B" ++ E_ ++ str "[2D".

(** non-vacuity of [C11_dump_reachable_narrow] beyond the pinned theorems: [kf1_C11] holds (the pinned
    theorems say nothing), [kf1_C11_narrow] does not, and the restore is exact *)
Example C11_narrow_inside :
  map probe_kf1 [w_agree; w_awm_off_both; w_awm_on_off; w_pend_ok; w_same_above; w_same_below]
  = repeat (Some (true, false, true)) 6.
Proof. vm_compute. reflexivity. Qed.

(** every state of the narrow class tried is a genuine deviation - including [w_side], [w_side2],
    [w_side3] whose saved context AGREES with the current modes (not covered by the wording of KF-C11-1) *)
Example C11_narrow_outside :
  map probe_kf1 [w_awm; w_org; w_pend; w_side; w_side2; w_side3]
  = repeat (Some (true, true, false)) 6.
Proof. vm_compute. reflexivity. Qed.

(** * Part 2: the stale saved context of the inactive screen ([dumpable'] vs [dumpable]) *)

(** ** it cannot arise while all sizes stay within 65535 x 65535 *)

Section SmallHistory.
Variable B16 : nat.
Hypothesis B16_pos : 0 < B16.
Definition Small (t : term) : Prop :=
  cols t <= B16 /\ rows t <= B16 /\ sc_col (asctx t) < B16 /\ sc_row (asctx t) < B16.

Lemma Small_ext t t' :
  cols t' = cols t -> rows t' = rows t -> asctx t' = asctx t -> Small t -> Small t'.
Proof. unfold Small. intros -> -> ->. auto. Qed.

Lemma Small_swap t t' :
  TInv t -> cols t' = cols t -> rows t' = rows t -> asctx t' = sctx t -> Small t -> Small t'.
Proof.
  unfold Small. intros HT -> -> -> (H1 & H2 & _). destruct (ti_sctx _ HT) as [S1 S2]. lia.
Qed.

Lemma reflow_Small t t' : reflow t = Ok t' -> Small t -> Small t'.
Proof.
  intros H. apply reflow_inv in H as (b & c & r & d & _ & ->).
  destruct (reflowed_fields t b c r d) as (_ & _ & Ea & Ec & Er & _).
  apply Small_ext; assumption.
Qed.

Lemma switch_alt_Small t t' : TInv t -> switch_to_alternate_buffer t = Ok t' -> Small t -> Small t'.
Proof.
  intros HT H HS. apply switch_alt_inv in H as [[_ ->]|[_ [d ->]]]; [exact HS|].
  destruct (to_alt_fields t d) as (_ & _ & Ea & _ & _ & Ec & Er & _).
  apply (Small_swap t); assumption.
Qed.

Lemma switch_prim_Small t t' : TInv t -> switch_to_primary_buffer t = Ok t' -> Small t -> Small t'.
Proof.
  intros HT H HS. apply switch_prim_inv in H as [[_ ->]|[_ [d ->]]]; [exact HS|].
  destruct (to_prim_fields t d) as (_ & _ & Ea & _ & _ & Ec & Er & _).
  apply (Small_swap t); assumption.
Qed.

Lemma save_cursor_Small t : Small t -> Small (save_cursor t).
Proof. apply Small_ext; destruct t; reflexivity. Qed.

Lemma restore_cursor_Small t : Small t -> Small (restore_cursor t).
Proof. apply Small_ext; destruct t; reflexivity. Qed.

Lemma decset_one_Small t m t' : TInv t -> decset_one t m = Ok t' -> Small t -> Small t'.
Proof.
  intros HT H HS. revert H. destruct m; cbn [decset_one]; intros H.
  1-4, 6: apply Ok_inj' in H; subst t'; revert HS; apply Small_ext; destruct t; reflexivity.
  - apply bind_ok in H as (t1 & H1 & H). exact (reflow_Small _ _ H (switch_alt_Small _ _ HT H1 HS)).
  - apply bind_ok in H as (t1 & H1 & H).
    exact (reflow_Small _ _ H (switch_alt_Small _ _ (proj1 (save_cursor_TInv t HT)) H1 (save_cursor_Small t HS))).
Qed.

Lemma decrst_one_Small t m t' : TInv t -> decrst_one t m = Ok t' -> Small t -> Small t'.
Proof.
  intros HT H HS. revert H. destruct m; cbn [decrst_one]; intros H.
  1-4, 6: apply Ok_inj' in H; subst t'; revert HS; apply Small_ext; destruct t; reflexivity.
  - apply bind_ok in H as (t1 & H1 & H). exact (reflow_Small _ _ H (switch_prim_Small _ _ HT H1 HS)).
  - apply bind_ok in H as (t1 & H1 & H).
    exact (reflow_Small _ _ H (restore_cursor_Small _ (switch_prim_Small _ _ HT H1 HS))).
Qed.

Lemma foldM_Small (f : term -> dec_mode -> res term) :
  (forall t m, TInv t -> exists t', f t m = Ok t' /\ TInv t' /\ LimP t t') ->
  (forall t m t', TInv t -> f t m = Ok t' -> Small t -> Small t') ->
  forall ms t t', TInv t -> foldM f ms t = Ok t' -> Small t -> Small t'.
Proof.
  intros HI HSm. induction ms as [|m ms IH]; intros t t' HT H HS; cbn [foldM] in H.
  - apply Ok_inj' in H. subst t'. exact HS.
  - apply bind_ok in H as (t1 & H1 & H).
    destruct (HI t m HT) as (t1' & E1 & HT1 & _). rewrite H1 in E1. apply Ok_inj' in E1. subst t1'.
    exact (IH t1 t' HT1 H (HSm _ _ _ HT H1 HS)).
Qed.

(** the geometry only changes by [Terminal::resize] *)
Theorem geom_frame t f t' :
  execute t f = Ok t' ->
  match f with Decset _ | Decrst _ | Ris | Xtwinops _ => True | _ => cols t' = cols t /\ rows t' = rows t end.
Proof.
  intros H. destruct (is_cb_fn f) eqn:E.
  - pose proof (exec_cb_tfr _ _ _ E H) as F.
    pose proof (conj (tfr_cols _ _ F) (tfr_rows _ _ F)) as F'.
    destruct f; try discriminate E; exact F'.
  - destruct f; try discriminate E; try exact I; split; non_cb H t.
Qed.

Theorem execute_Small t f t' : TInv t -> execute t f = Ok t' -> Small t -> Small t'.
Proof.
  intros HT H HS. pose proof (saved_frame t f t' H) as F. pose proof (geom_frame t f t' H) as G.
  destruct f;
    try (destruct F as (_ & Ea & _); destruct G as [Gc Gr]; exact (Small_ext _ _ Gc Gr Ea HS)).
  - (* Decrst *) cbn [execute] in H. exact (foldM_Small decrst_one decrst_one_TInv decrst_one_Small ms t t' HT H HS).
  - (* Decsc *) cbn [execute] in H. apply Ok_inj' in H. subst t'. apply save_cursor_Small, HS.
  - (* Decset *) cbn [execute] in H. exact (foldM_Small decset_one decset_one_TInv decset_one_Small ms t t' HT H HS).
  - (* Decstr *) destruct G as [Gc Gr]. cbn [execute] in H. apply Ok_inj' in H. subst t'.
    revert HS. apply Small_ext; [exact Gc|exact Gr|destruct t; reflexivity].
  - (* Ris *) cbn [execute] in H. apply Ok_inj' in H. subst t'.
    rewrite (hard_reset_is_new t (ti_xtw _ HT)). destruct HS as (H1 & H2 & _).
    unfold Small, term_new_gen. rsimp. repeat split; try assumption; cbn [default_ctx sc_col sc_row]; lia.
  - (* Scosc *) cbn [execute] in H. apply Ok_inj' in H. subst t'. apply save_cursor_Small, HS.
  - (* Xtwinops *) rewrite (xtwinops_noop t op t' (ti_xtw _ HT) H). exact HS.
Qed.

Definition op_small (o : op) : Prop :=
  match o with Resize c r => c <= B16 /\ r <= B16 | _ => True end.

Lemma flushed_Small t : Small t -> Small (flushed t).
Proof. apply Small_ext; reflexivity. Qed.

Lemma stepM_Small v o v' ou :
  Inv v -> op_small o -> stepM v o = Ok (v', ou) -> Small (vterm v) -> Small (vterm v').
Proof.
  intros [HP HT] Ho E HS. destruct o as [ch| |c r].
  - apply stepM_feed_inv in E. unfold vt_feed in E. rewrite (feedM_char _ ch HP) in E. cbn [bind] in E.
    destruct (feed_emit (vparser v) ch) as [f|].
    + apply bind_ok in E as (t1 & E1 & E). apply Ok_inj' in E. subst v'. cbn [vterm].
      exact (execute_Small _ _ _ HT E1 HS).
    + apply Ok_inj' in E. subst v'. exact HS.
  - apply stepM_flush_inv, vt_flush_inv in E. destruct E as (_ & -> & _). apply flushed_Small, HS.
  - apply stepM_resize_inv in E as (t1 & E1 & E). apply vt_flush_inv in E. destruct E as (_ & -> & _).
    cbn [vterm set]. apply flushed_Small.
    destruct (term_resize_fields _ _ _ _ E1) as (Ec & Er & _ & _ & Ea & _).
    destruct Ho as [Hc Hr]. destruct HS as (_ & _ & H3 & H4).
    unfold Small. rewrite Ec, Er, Ea. repeat split; assumption.
Qed.

Lemma runM_Small : forall ops v v',
  Inv v -> Forall op_ok ops -> Forall op_small ops -> runM v ops = Ok v' -> Small (vterm v) -> Small (vterm v').
Proof.
  induction ops as [|o ops IH]; intros v v' HI HF HF2 E HS; cbn [runM] in E.
  - apply Ok_inj' in E. subst v'. exact HS.
  - inversion HF as [|? ? Ho HF']; subst. inversion HF2 as [|? ? Ho2 HF2']; subst.
    apply bind_ok in E as ([v1 ou] & E1 & E). cbn [fst] in E.
    destruct (stepM_Inv v o HI Ho) as (v1' & ou' & E1' & HI1). rewrite E1 in E1'.
    apply Ok_inj' in E1'. injection E1' as <- <-.
    exact (IH v1 v' HI1 HF' HF2' E (stepM_Small _ _ _ _ HI Ho2 E1 HS)).
Qed.

Lemma new_Small c r l : c <= B16 -> r <= B16 -> Small (term_new_gen c r l).
Proof. intros Hc Hr. unfold Small, term_new_gen. rsimp. cbn [default_ctx sc_col sc_row]. repeat split; assumption. Qed.

End SmallHistory.

(** AUDIT clause 7: the extra conjuncts of [dumpable'] (a stale saved context of the inactive screen beyond the
    16-bit range) can only arise when the terminal once WAS at least 65536 columns wide or rows tall: for every
    history whose sizes never exceed 65535 x 65535, [dumpable'] is just [dumpable] *)
Theorem C11_dumpable'_small_history : forall c r l ops v, 1 <= c -> 1 <= r -> (N.of_nat c <= 65535)%N -> (N.of_nat r <= 65535)%N -> Forall op_ok ops -> Forall (fun o => match o with Resize c' r' => (N.of_nat c' <= 65535)%N /\ (N.of_nat r' <= 65535)%N | _ => True end) ops -> runM (vt_new c r l) ops = Ok v -> dumpable (vterm v) = true -> dumpable' (vterm v).
Proof.
  intros c r l ops v Hc Hr Hc2 Hr2 HF HF2 E HD.
  assert (HF3 : Forall (op_small (N.to_nat 65535)) ops).
  { eapply Forall_impl; [|exact HF2]. intros [ch| |c' r']; cbn [op_small]; [trivial|trivial|lia]. }
  assert (HB : 0 < N.to_nat 65535) by lia.
  assert (Hc3 : c <= N.to_nat 65535) by lia. assert (Hr3 : r <= N.to_nat 65535) by lia.
  pose proof (runM_Small (N.to_nat 65535) HB ops (vt_new c r l) v (vt_new_Inv c r l Hc Hr) HF HF3 E
                (new_Small (N.to_nat 65535) HB c r l Hc3 Hr3)) as (_ & _ & H3 & H4).
  split; [exact HD|]. split; lia.
Qed.
Print Assumptions C11_dumpable'_small_history.


(** ** the additional class, executable: primary screen showing, the alternate screen's saved context at
       column or row >= 65535 (with the alternate screen showing and [kf2_C11 = false] the parked context lies
       inside the current geometry by [ti_parked], so nothing is added there) *)
Theorem dumpable'_iff : forall t, TInv t -> kf2_C11 t = false -> (dumpable' t <-> dumpable t = true /\ kf3b_C11 t = false).
Proof.
  intros t HT Hk2. unfold dumpable', kf3b_C11. split.
  - intros (HD & H1 & H2). split; [exact HD|]. destruct (negb (is_alt_b t)); [cbn [andb]; lia|reflexivity].
  - intros (HD & H). split; [exact HD|].
    unfold is_alt_b in H. unfold kf2_C11, is_alt_b in Hk2. pose proof (ti_parked _ HT) as Hp.
    destruct (active t); cbn [btype_eqb negb andb] in H, Hk2.
    + lia.
    + destruct Hp as [P1 P2]. unfold dumpable in HD. lia.
Qed.
Print Assumptions dumpable'_iff.

(** PROPERTY C11 with every exception an executable class: [kf3_C11] (current size), [kf3b_C11] (stale saved
    context of the hidden alternate screen), [kf1_C11_narrow], [kf2_C11]; any limits on both sides *)
Theorem C11_restore_and_future_exact : forall c r l ops v l', 1 <= c -> 1 <= r -> Forall op_ok ops -> runM (vt_new c r l) ops = Ok v -> kf3_C11 (vterm v) = false -> kf3b_C11 (vterm v) = false -> kf1_C11_narrow (vterm v) = false -> kf2_C11 (vterm v) = false -> exists d r0 o0, vt_dump v = Ok d /\ feed_str (vt_new (cols (vterm v)) (rows (vterm v)) l') d = Ok (r0, o0) /\ holds_C11 v r0 = true /\ forall s v' ov, feed_str v s = Ok (v', ov) -> exists r1 o1, feed_str r0 s = Ok (r1, o1) /\ holds_C11 v' r1 = true.
Proof.
  intros c r l ops v l' Hc Hr HF E Hk3 Hk3b Hk1 Hk2.
  destruct (C01_no_panic c r l ops Hc Hr HF) as (v1 & E1 & HI). rewrite E in E1. apply Ok_inj' in E1. subst v1.
  apply (C11_restore_and_future_narrow c r l ops v l' Hc Hr HF E); [|exact Hk1|exact Hk2].
  apply (dumpable'_iff _ (proj2 HI) Hk2). split; [|exact Hk3b].
  unfold kf3_C11 in Hk3. apply Bool.negb_false_iff in Hk3. exact Hk3.
Qed.
Print Assumptions C11_restore_and_future_exact.

(** the witness that this class is a GENUINE deviation (a 65536-column terminal) is in Proofs/C11Witness.v: it is
    expensive to re-check and therefore kept out of the dependency cone of Properties/C11.v *)

(** non-vacuity of [C11_restore_and_future_exact] / [C11_dumpable'_small_history]: a stale but small saved
    context of the hidden alternate screen (saved at column 19 of 20, then resized to 10 columns) restores *)
Example C11_stale_small_ok :
  match (x <- feed_str (vt_new 20 2 None) (E_ ++ str "[?1047h" ++ E_ ++ str "[2;20H" ++ E_ ++ str "7" ++ E_ ++ str "[?1047l") ;;
         runM (fst x) [Resize 10 1]) with
  | Ok v =>
    match vt_dump v with
    | Ok d => match feed_str (vt_new 10 1 (Some 0%N)) d with
              | Ok (r, _) => (sc_col (asctx (vterm v)) =? 19) && negb (kf3b_C11 (vterm v)) && holds_C11 v r
              | Panic _ => false end
    | Panic _ => false end
  | Panic _ => false end = true.
Proof. vm_compute. reflexivity. Qed.
