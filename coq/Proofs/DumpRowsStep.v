(** Property C11, rows part: the terminal-level steps of the replay.

    Under the modes of a "ready" terminal ([Md]: auto-wrap on, insert off, ASCII charsets,
    full-screen margins) PRINT, REP, CR LF and SGR act on the abstract replay state
    [(done, cur)] of [Proofs/DumpRowsList.v] as [a_put] / [a_crlf] / nothing. *)

From Coq Require Import Lia ZArith ZifyBool ZifyNat ZifyN.
From Avt Require Import Model.Vt Spec.Screen Proofs.Inv Proofs.VisEq Proofs.ListLemmas Proofs.ListLemmasS
     Proofs.BufRow Proofs.TermEasy Proofs.SpecPrint Proofs.Sgr Proofs.Frames Proofs.StepC05
     Proofs.DumpRowsList.
Ltac Zify.zify_post_hook ::= Z.div_mod_to_equations.

Lemma Ok_inj {A} (a b : A) : Ok a = Ok b -> a = b.
Proof. intros H. exact (f_equal (fun r => match r with Ok x => x | Panic _ => a end) H). Qed.

(** * modes *)

Record Md (t : term) : Prop := mkMd {
  md_awm : awm t = true; md_ins : ins t = false;
  md_cs0 : cs0 t = CsAscii; md_cs1 : cs1 t = CsAscii;
  md_top : top t = 0; md_bot : bot t = rows t - 1 }.

(** everything the replay never touches: all of [keep] except the pen *)
Definition keepP (t : term) :=
  (cols t, rows t, other t, active t, sb_limit t, cur_vis t, cs0 t, cs1 t, acs t,
   tabs t, ins t, org t, awm t, nlm t, ckm t, top t, bot t, sctx t, asctx t, xtw t).

Definition pfr (t t' : term) : Prop := keepP t' = keepP t.

Lemma pfr_refl t : pfr t t.
Proof. reflexivity. Qed.

Lemma pfr_trans t1 t2 t3 : pfr t1 t2 -> pfr t2 t3 -> pfr t1 t3.
Proof. unfold pfr. congruence. Qed.

Lemma tfr_pfr t t' : tfr t t' -> pfr t t'.
Proof. unfold tfr, keep, pfr, keepP. intros H. injection H; intros. congruence. Qed.

Lemma pfr_set_tpen t p : pfr t (t <| tpen := p |>).
Proof. destruct t; reflexivity. Qed.

Lemma pfr_Md t t' : pfr t t' -> Md t -> Md t'.
Proof.
  unfold pfr, keepP. intros H [M1 M2 M3 M4 M5 M6]. injection H; intros.
  constructor; congruence.
Qed.

Lemma tfr_Md t t' : tfr t t' -> Md t -> Md t'.
Proof. intros H. apply pfr_Md, tfr_pfr, H. Qed.

Lemma pfr_cols t t' : pfr t t' -> cols t' = cols t.
Proof. unfold pfr, keepP. intros H. injection H; intros; assumption. Qed.

Lemma pfr_rows t t' : pfr t t' -> rows t' = rows t.
Proof. unfold pfr, keepP. intros H. injection H; intros; assumption. Qed.

(** the record form of the frame *)
Lemma pfr_record t t' :
  pfr t t' ->
  t' = t <| buf := buf t' |> <| cur_col := cur_col t' |> <| cur_row := cur_row t' |>
         <| pend := pend t' |> <| tpen := tpen t' |> <| dirty := dirty t' |>.
Proof.
  unfold pfr, keepP. intros H. destruct t, t'. cbn in *. injection H; intros; subst. reflexivity.
Qed.

(** * what [vis_norm] preserves *)

Definition acore (t : term) := (tview t, tsb t, cur_col t, cur_row t).

Lemma acore_norm t : acore (vis_norm t) = acore t.
Proof. destruct t; reflexivity. Qed.

Lemma norm_acore a b : vis_norm a = vis_norm b -> acore a = acore b.
Proof. intros H. rewrite <- (acore_norm a), <- (acore_norm b), H. reflexivity. Qed.

(** * [set_view] *)

Definition geo (t : term) : Prop := brows (buf t) <= length (lines (buf t)).

Lemma tview_length t : geo t -> length (tview t) = brows (buf t).
Proof. unfold geo, tview, view, sb_len. intros H. rewrite skipn_length. lia. Qed.

Lemma set_view_core t v :
  geo t -> length v = brows (buf t) ->
  tview (set_view t v) = v /\ tsb (set_view t v) = tsb t /\ geo (set_view t v).
Proof.
  unfold geo. intros Hg Hv.
  assert (Hl : length (tsb t) = sb_len (buf t)).
  { unfold tsb. rewrite firstn_length. unfold sb_len. lia. }
  assert (Hs : sb_len (buf (set_view t v)) = sb_len (buf t)).
  { unfold set_view, set_screen, sb_len. cbn. rewrite app_length, Hl, Hv. unfold sb_len. lia. }
  split; [|split].
  - unfold tview, view. rewrite Hs. unfold set_view, set_screen. cbn.
    apply skipn_app_exact. exact Hl.
  - unfold tsb at 1. rewrite Hs. unfold set_view, set_screen. cbn.
    apply firstn_app_exact. exact Hl.
  - unfold set_view, set_screen. cbn. rewrite app_length, Hv. lia.
Qed.

Lemma TInv_geo t : TInv t -> geo t.
Proof. intros HT. destruct (ti_buf t HT) as [(_ & _ & H & _) _]. exact H. Qed.

(** * one PRINT on the specification side *)

Lemma spec_cs_ascii t : Md t -> spec_active_cs t = CsAscii.
Proof.
  intros M. unfold spec_active_cs. rewrite (md_cs0 t M), (md_cs1 t M). destruct (acs t =? 0); reflexivity.
Qed.

Lemma spec_print_nowrap t x :
  Md t -> geo t -> pend t = false -> cur_col t < cols t -> cur_row t < brows (buf t) ->
  acore (spec_print t x)
  = (upd (cur_row t) (set_cell (cur_col t) (mkCell x (tpen t))) (tview t), tsb t, cur_col t + 1, cur_row t).
Proof.
  intros M Hg Hp Hc Hr. rewrite spec_print_eq, (spec_cs_ascii t M). cbn [spec_translate].
  assert (Ew : spec_wrap t = t).
  { unfold spec_wrap. rewrite Hp, andb_false_r. reflexivity. }
  rewrite Ew. unfold spec_write. rewrite (md_awm t M), (md_ins t M).
  set (cl := mkCell x (tpen t)).
  destruct (Nat.leb_spec (cols t) (cur_col t + 1)) as [Hle|Hgt].
  - replace (cols t - 1) with (cur_col t) by lia.
    destruct (set_view_core t (upd_row (cur_row t) (set_cell (cur_col t) cl) (tview t)) Hg) as (A & B & _).
    { unfold upd_row. rewrite upd_length. apply tview_length. exact Hg. }
    unfold acore. change (tview (set_cursor ?a _ _ _)) with (tview a).
    change (tsb (set_cursor ?a _ _ _)) with (tsb a).
    rewrite A, B. cbn. f_equal. f_equal. lia.
  - destruct (set_view_core t (upd_row (cur_row t) (set_cell (cur_col t) cl) (tview t)) Hg) as (A & B & _).
    { unfold upd_row. rewrite upd_length. apply tview_length. exact Hg. }
    unfold acore. change (tview (set_cursor ?a _ _ _)) with (tview a).
    change (tsb (set_cursor ?a _ _ _)) with (tsb a).
    rewrite A, B. reflexivity.
Qed.

Lemma spec_print_wrap t x :
  Md t -> geo t -> 1 <= cols t -> pend t = true -> cur_row t + 1 < rows t ->
  acore (spec_print t x)
  = (upd (cur_row t + 1) (set_cell 0 (mkCell x (tpen t))) (upd (cur_row t) mark_wrapped (tview t)),
     tsb t, 1, cur_row t + 1).
Proof.
  intros M Hg Hc Hp Hr. rewrite spec_print_eq, (spec_cs_ascii t M). cbn [spec_translate].
  set (cl := mkCell x (tpen t)).
  set (t1 := set_view t (upd_row (cur_row t) mark_wrapped (tview t))).
  destruct (set_view_core t (upd_row (cur_row t) mark_wrapped (tview t)) Hg) as (A1 & B1 & G1).
  { unfold upd_row. rewrite upd_length. apply tview_length. exact Hg. }
  fold t1 in A1, B1, G1.
  assert (Ew : spec_wrap t = set_cursor t1 0 (cur_row t + 1) false).
  { unfold spec_wrap. rewrite Hp, (md_awm t M), (md_bot t M). cbn [andb].
    replace (cur_row t =? rows t - 1) with false by lia.
    replace (cur_row t <? rows t - 1) with true by lia. reflexivity. }
  rewrite Ew. set (t2 := set_cursor t1 0 (cur_row t + 1) false).
  assert (G2 : geo t2) by exact G1.
  assert (Hb2 : brows (buf t2) = brows (buf t)) by reflexivity.
  unfold spec_write.
  change (awm t2) with (awm t). change (ins t2) with (ins t). change (cols t2) with (cols t).
  change (cur_col t2) with 0. change (cur_row t2) with (cur_row t + 1).
  change (tview t2) with (tview t1). rewrite (md_awm t M), (md_ins t M), A1.
  destruct (set_view_core t2 (upd_row (cur_row t + 1) (set_cell 0 cl)
                                       (upd_row (cur_row t) mark_wrapped (tview t))) G2) as (A & B & _).
  { unfold upd_row. rewrite !upd_length, Hb2. apply tview_length. exact Hg. }
  change (tsb t2) with (tsb t1) in B. rewrite B1 in B.
  destruct (Nat.leb_spec (cols t) (0 + 1)) as [Hle|Hgt].
  - replace (cols t - 1) with 0 by lia.
    unfold acore. change (tview (set_cursor ?a _ _ _)) with (tview a).
    change (tsb (set_cursor ?a _ _ _)) with (tsb a).
    rewrite A, B. cbn. f_equal. f_equal. lia.
  - unfold acore. change (tview (set_cursor ?a _ _ _)) with (tview a).
    change (tsb (set_cursor ?a _ _ _)) with (tsb a).
    rewrite A, B. reflexivity.
Qed.

(** * the abstract state against the terminal *)

Definition Conc (c r : nat) (s : astate) (t : term) : Prop :=
  cols t = c /\ rows t = r /\ tview t = sview c r s
  /\ cur_col t = length (snd s) /\ cur_row t = length (fst s).

Lemma blanks_S n p : blanks (S n) p = blank_cell p :: blanks n p.
Proof. reflexivity. Qed.

Lemma sview_put_in c r dn cur cl :
  length cur < c ->
  upd (length dn) (set_cell (length cur) cl) (sview c r (dn, cur)) = sview c r (dn, cur ++ [cl]).
Proof.
  intros H. unfold sview. rewrite upd_app_exact by reflexivity. f_equal. f_equal.
  unfold set_cell. cbn.
  replace (c - length cur) with (S (c - length (cur ++ [cl]))) by (rewrite app_length; cbn [length]; lia).
  rewrite blanks_S, upd_app_exact by reflexivity. rewrite <- app_assoc. reflexivity.
Qed.

Lemma sview_put_wrap c r dn cur cl :
  length cur = c -> length dn + 1 < r -> 1 <= c ->
  upd (length dn + 1) (set_cell 0 cl) (upd (length dn) mark_wrapped (sview c r (dn, cur)))
  = sview c r (dn ++ [mkLine cur true], [cl]).
Proof.
  intros Hc Hr H1. unfold sview. rewrite upd_app_exact by reflexivity.
  replace (r - length dn - 1) with (S (r - length (dn ++ [mkLine cur true]) - 1))
    by (rewrite app_length; cbn [length]; lia).
  cbn [repeat].
  replace (c - length cur) with 0 by lia. unfold blanks at 1. cbn [repeat]. rewrite app_nil_r.
  change (mark_wrapped (mkLine cur false)) with (mkLine cur true).
  change (dn ++ mkLine cur true :: ?x :: ?y) with (dn ++ [mkLine cur true] ++ x :: y).
  rewrite app_assoc. rewrite upd_app_exact by (rewrite app_length; cbn [length]; lia).
  f_equal. f_equal. clear Hc. destruct c as [|c']; [lia|].
  cbn [length app]. replace (S c' - 1) with c' by lia. reflexivity.
Qed.

(** * PRINT *)

Theorem T_print c r t s x :
  TInv t -> Md t -> Conc c r s t -> room c r s 1 ->
  exists t', execute t (Print x) = Ok t' /\ TInv t' /\ tfr t t' /\ tsb t' = tsb t
             /\ Conc c r (a_put c s [mkCell x (tpen t)]) t'.
Proof.
  intros HT M (Hc & Hr & Hv & Hcol & Hrow) Hroom.
  destruct (C04_print t x HT) as (t' & E & N & HT').
  assert (F : tfr t t') by (apply (exec_cb_tfr t (Print x) t'); [reflexivity|exact E]).
  exists t'. split; [exact E|]. split; [exact HT'|]. split; [exact F|].
  apply norm_acore in N. destruct s as [dn cur]. cbn [fst snd] in *.
  pose proof (TInv_geo t HT) as Hg.
  assert (Hcc : cols t' = c) by (rewrite (tfr_cols _ _ F); exact Hc).
  assert (Hrr : rows t' = r) by (rewrite (tfr_rows _ _ F); exact Hr).
  unfold room in Hroom.
  destruct (Nat.ltb_spec (length cur) c) as [Hlt|Hge].
  - (* inside the row *)
    assert (Hp : pend t = false).
    { destruct (pend t) eqn:Ep; [|reflexivity].
      pose proof (proj1 (ti_pend t HT) Ep). lia. }
    rewrite (spec_print_nowrap t x M Hg Hp) in N
      by (rewrite ?(ti_brows t HT); pose proof (ti_row t HT); lia).
    unfold acore in N. injection N as N1 N2 N3 N4.
    split; [symmetry; exact N2|].
    unfold a_put. replace (length cur <? c) with true by lia.
    repeat split; try assumption; cbn [fst snd].
    + rewrite <- N1, Hv, Hcol, Hrow. apply sview_put_in. exact Hlt.
    + rewrite <- N3, Hcol, app_length. reflexivity.
    + rewrite <- N4. exact Hrow.
  - (* the deferred wrap *)
    assert (Hcur : length cur = c) by (pose proof (ti_col t HT); lia).
    assert (Hp : pend t = true) by (apply (ti_pend t HT); lia).
    assert (Hr1 : length dn + 1 < r) by lia.
    rewrite (spec_print_wrap t x M Hg (ti_cols t HT) Hp) in N by lia.
    unfold acore in N. injection N as N1 N2 N3 N4.
    split; [symmetry; exact N2|].
    unfold a_put. replace (length cur <? c) with false by lia.
    repeat split; try assumption; cbn [fst snd].
    + rewrite <- N1, Hv, Hrow. apply sview_put_wrap; [exact Hcur|exact Hr1|].
      pose proof (ti_cols t HT). lia.
    + rewrite <- N3. reflexivity.
    + rewrite <- N4, Hrow, app_length. reflexivity.
Qed.

(** * REP *)

Lemma T_print_n c r x : forall k t s,
  TInv t -> Md t -> Conc c r s t -> room c r s k ->
  exists t', print_n k t x = Ok t' /\ TInv t' /\ tfr t t' /\ tsb t' = tsb t
             /\ Conc c r (a_put c s (repeat (mkCell x (tpen t)) k)) t'.
Proof.
  induction k as [|k IH]; intros t s HT M HC Hroom.
  - exists t. split; [reflexivity|]. split; [exact HT|]. split; [apply tfr_refl|].
    split; [reflexivity|exact HC].
  - cbn [print_n].
    change (S k) with (length [mkCell x (tpen t)] + k) in Hroom.
    rewrite <- (repeat_length (mkCell x (tpen t)) k) in Hroom at 1.
    destruct (a_put_app c r s _ _ Hroom) as [Eapp Hroom1].
    rewrite repeat_length in Hroom1.
    destruct (T_print c r t s x HT M HC (room_app c r s 1 _ ltac:(rewrite repeat_length in Hroom; exact Hroom)))
      as (t1 & E1 & HT1 & F1 & B1 & C1).
    cbn [execute] in E1. rewrite E1. cbn [bind].
    destruct (IH t1 _ HT1 (tfr_Md _ _ F1 M) C1 Hroom1) as (t2 & E2 & HT2 & F2 & B2 & C2).
    exists t2. split; [exact E2|]. split; [exact HT2|]. split; [exact (tfr_trans _ _ _ F1 F2)|].
    split; [congruence|].
    rewrite (tfr_tpen _ _ F1), Eapp in C2. exact C2.
Qed.

Theorem T_rep c r t s x k pre c0 :
  TInv t -> Md t -> Conc c r s t -> snd s = pre ++ [c0] -> ch c0 = x ->
  1 <= k -> room c r s k ->
  exists t', execute t (Rep (N.of_nat k)) = Ok t' /\ TInv t' /\ tfr t t' /\ tsb t' = tsb t
             /\ Conc c r (a_put c s (repeat (mkCell x (tpen t)) k)) t'.
Proof.
  intros HT M HC Hs Hx Hk Hroom. pose proof HC as (Hc & Hr & Hv & Hcol & Hrow).
  destruct s as [dn cur]. cbn [fst snd] in *. subst cur.
  cbn [execute]. unfold rep.
  assert (Hpos : 0 < cur_col t) by (rewrite Hcol, app_length; cbn [length]; lia).
  replace (0 <? cur_col t) with true by lia.
  pose proof (ti_buf t HT) as [HG _].
  rewrite (get_row_spec (buf t) (cur_row t) HG) by (rewrite (ti_brows t HT); apply (ti_row t HT)).
  cbn [bind]. change (view (buf t)) with (tview t). rewrite Hv, Hrow.
  assert (Erow : row_at (sview c r (dn, pre ++ [c0])) (length dn)
                 = mkLine ((pre ++ [c0]) ++ blanks (c - length (pre ++ [c0])) default_pen) false).
  { unfold row_at, sview. rewrite app_nth2 by lia. rewrite Nat.sub_diag. reflexivity. }
  rewrite Erow. cbn [cells].
  assert (En : nth_error ((pre ++ [c0]) ++ blanks (c - length (pre ++ [c0])) default_pen) (cur_col t - 1)
               = Some c0).
  { rewrite Hcol, app_length. cbn [length]. replace (length pre + 1 - 1) with (length pre + 0) by lia.
    rewrite <- !app_assoc. rewrite nth_error_app_r. reflexivity. }
  rewrite En, Hx.
  replace (as_usize (N.of_nat k) 1) with k
    by (unfold as_usize; rewrite as_usize_n1; unfold n1; destruct (N.eqb_spec (N.of_nat k) 0); lia).
  apply T_print_n; assumption.
Qed.

(** * CR LF *)

Lemma TInv_set_cursor t col row :
  TInv t -> col < cols t -> row < rows t -> TInv (set_cursor t col row false).
Proof.
  intros HT Hc Hr. destruct HT. constructor; cbn; try assumption; try lia.
Qed.

Theorem T_crlf c r t s :
  TInv t -> Md t -> Conc c r s t -> length (fst s) + 1 < r ->
  exists t1 t2, execute t Cr = Ok t1 /\ execute t1 Lf = Ok t2 /\ TInv t2 /\ tfr t t2
                /\ buf t2 = buf t /\ Conc c r (a_crlf c s) t2.
Proof.
  intros HT M (Hc & Hr & Hv & Hcol & Hrow) Hlt.
  set (t1 := set_cursor t 0 (cur_row t) false).
  set (t2 := set_cursor t 0 (cur_row t + 1) false).
  pose proof (ti_cols t HT) as H1c. pose proof (ti_row t HT) as Hrw.
  assert (HT1 : TInv t1) by (apply TInv_set_cursor; [exact HT|lia|lia]).
  exists t1, t2. split; [exact (exec_cr t (TInv_TScal t HT))|].
  split.
  { apply (spec_cursor_refines_all t1 Lf t2 HT1). cbn [spec_cursor].
    change (cur_row t1) with (cur_row t). change (bot t1) with (bot t). change (rows t1) with (rows t).
    change (nlm t1) with (nlm t). rewrite (md_bot t M).
    replace (cur_row t =? rows t - 1) with false by lia.
    replace (cur_row t <? rows t - 1) with true by lia.
    replace (viscol t1) with 0 by (unfold viscol; cbn; lia).
    destruct (nlm t); reflexivity. }
  split; [apply TInv_set_cursor; [exact HT|lia|lia]|].
  split; [destruct t; reflexivity|]. split; [reflexivity|].
  destruct s as [dn cur]. cbn [fst snd] in *. unfold Conc, a_crlf. cbn [fst snd].
  change (cols t2) with (cols t). change (rows t2) with (rows t). change (tview t2) with (tview t).
  repeat split; try assumption.
  - rewrite Hv. unfold sview. rewrite <- app_assoc. cbn [app]. do 2 f_equal.
    rewrite app_length. cbn [length app].
    replace (r - length dn - 1) with (S (r - (length dn + 1) - 1)) by lia.
    rewrite Nat.sub_0_r. reflexivity.
  - cbn. rewrite Hrow, app_length. reflexivity.
Qed.

(** * SGR *)

Lemma TInv_set_tpen t p : TInv t -> TInv (t <| tpen := p |>).
Proof. intros HT. destruct HT. constructor; cbn; assumption. Qed.

Lemma Md_set_tpen t p : Md t -> Md (t <| tpen := p |>).
Proof. intros M. apply (pfr_Md t); [apply pfr_set_tpen|exact M]. Qed.

Lemma Conc_set_tpen c r s t p : Conc c r s t -> Conc c r s (t <| tpen := p |>).
Proof. intros H. destruct t; exact H. Qed.

Lemma tsb_set_tpen t p : tsb (t <| tpen := p |>) = tsb t.
Proof. destruct t; reflexivity. Qed.

Print Assumptions T_print.
Print Assumptions T_rep.
Print Assumptions T_crlf.
