(** DECSET with the regenerated interface (leaf of Proofs/TermTieClosed.v) *)
From Coq Require Import Lia ZArith ZifyBool ZifyNat ZifyN.
From Avt Require Import Oracles.Step Proofs.Inv Proofs.TermEasy Gen.TermFns Proofs.TermTie_Core Proofs.InvStep
  Proofs.TermTieW_Core Proofs.TermTieW_Switch Proofs.TermTieW_Reflow Proofs.TermTieClosed_Core.
From Avt Require Import Gen.BufFns Proofs.BufTie Gen.SgrFns Proofs.SgrTie.
From Avt Require Gen.RestFns Proofs.RestTie.
Ltac Zify.zify_post_hook ::= Z.div_mod_to_equations.
Local Open Scope Z_scope.

Lemma c_decset t ms : TInv t -> w_decset Og (zabs t) (wabs t) ms = w_decset Om (zabs t) (wabs t) ms.
Proof.
  intros HT. unfold w_decset. apply zb_ext; [|reflexivity]. rewrite <- (map_id ms).
  apply (zfor_closed (fun x => x) ms _ _ decset_one TInv).
  - intros t0 m H0. destruct m; lock_t t0.
  - intros t0 m H0. pose proof (TInv_ZW t0 H0) as H. destruct m; cbn [decset_one].
    1-4: w_tie t0 H.
    + cstep w_switch_to_alternate_buffer_eq. cstep w_reflow_eq.
    + cstep w_save_cursor_eq.
    + cstep w_save_cursor_eq. cstep w_switch_to_alternate_buffer_eq. cstep w_reflow_eq.
  - exact (step_TInv decset_one Decset (fun _ _ => eq_refl)).
  - exact HT.
Qed.

