(** print, REP, DECALN with the regenerated interface (leaf of Proofs/TermTieClosed.v) *)
From Coq Require Import Lia ZArith ZifyBool ZifyNat ZifyN.
From Avt Require Import Oracles.Step Proofs.Inv Proofs.TermEasy Gen.TermFns Proofs.TermTie_Core Proofs.InvStep
  Proofs.TermTieW_Core Proofs.TermTieW_Print Proofs.TermTieClosed_Core.
From Avt Require Import Gen.BufFns Proofs.BufTie Gen.SgrFns Proofs.SgrTie.
From Avt Require Gen.RestFns Proofs.RestTie.
Ltac Zify.zify_post_hook ::= Z.div_mod_to_equations.
Local Open Scope Z_scope.

Lemma c_print t c : w_print Og (zabs t) (wabs t) (Z.of_N c) = w_print Om (zabs t) (wabs t) (Z.of_N c).
Proof. lock_t t. Qed.


Lemma c_decaln s w : w_decaln Og s w = w_decaln Om s w.
Proof.
  unfold w_decaln. apply zb_ext; [|reflexivity].
  apply zfor_ext. intros row [[s1 w1] ok1]. apply zb_ext.
  - apply zfor_ext. intros col [[s2 w2] ok2]. rewrite Og_ev by exact I. reflexivity.
  - intros [[s2 w2] ok2]. rewrite Og_ev by exact I. reflexivity.
Qed.


Lemma c_rep t n : TInv t -> w_rep Og (zabs t) (wabs t) (Z.of_N n) = w_rep Om (zabs t) (wabs t) (Z.of_N n).
Proof.
  intros H. unfold w_rep. rewrite g_as_usize_1.
  change (z_col (zabs t)) with (Z.of_nat (cur_col t)). change (z_row (zabs t)) with (Z.of_nat (cur_row t)).
  cbn [fst snd]. apply zb_ext; [|reflexivity].
  destruct (Z.ltb_spec 0 (Z.of_nat (cur_col t))) as [Hc|Hc]; [|reflexivity].
  rewrite Og_buf_char.
  destruct (q_buf_char Om (wabs t) _ _) as [q|] eqn:Eq; cbn [zb]; [|reflexivity].
  assert (exists c, q = Z.of_N c) as [c ->].
  { unfold q_buf_char in Eq. cbn [Om] in Eq. unfold bind in Eq.
    destruct (get_row _ _); [|discriminate]. destruct (nth_error _ _); [|discriminate].
    cbn [ores] in Eq. injection Eq as <-. eexists. reflexivity. }
  apply zb_ext; [|reflexivity].
  rewrite zrange_0. replace (true && true && (1 <=? Z.of_nat (cur_col t))) with true by lia.
  apply (zfor_closed (fun i => 0 + Z.of_nat i) (seq 0 (as_usize n 1)) _ _ (fun t (_ : nat) => print t c) TInv).
  - intros t0 i H0. rewrite c_print. reflexivity.
  - intros t0 i H0. rewrite (w_print_eq t0 c (TInv_ZW t0 H0)). destruct (print t0 c); reflexivity.
  - intros t0 i t1 H0 E. destruct (print_TInv t0 c H0) as (t2 & E2 & H2). congruence.
  - exact H.
Qed.

