(** The tie between the hand-written slice-level primitives of Model/Prims.v (line.rs, buffer.rs, tabs.rs,
    terminal/dirty_lines.rs) and the Gallina regenerated from the Rust source on every run
    (Gen/BufFns.v, by translate/buf2coq.py).

    For every regenerated function [g_T_f] one theorem [tie_T_f] relates it to the model function:
    - [g .. = Ok (model ..)]        for the functions that cannot panic (the model function is total);
    - [g .. =~ modelM ..]           otherwise, where [x =~ y] is equality up to the panic SITE number
      (both succeed with the same value, or both panic).  The sites of the model are per model function,
      those of the generated code per Rust function, so they cannot agree.
    All ties are unconditional except
    - [tie_buffer_scroll_up] (hypothesis [0 < n \/ z <= brows b]): see the FINDING below;
    - [tie_tabs_unset] (hypothesis [sorted_lt l]): [binary_search] is translated by its contract on sorted
      input, the model removes the first occurrence wherever it is.
    An edit of one of the Rust functions changes Gen/BufFns.v and breaks the corresponding proof here
    (tools/buftie_selftest.sh demonstrates this on mutants). *)

From Coq Require Import Lia ZArith ZifyBool ZifyNat ZifyN.
From Avt Require Import Model.Prims Proofs.Inv Proofs.ListLemmas Gen.BufFns.
Ltac Zify.zify_post_hook ::= Z.div_mod_to_equations.

Definition same {A} (x y : res A) : Prop :=
  match x, y with
  | Ok a, Ok b => a = b
  | Panic _, Panic _ => True
  | _, _ => False
  end.
Infix "=~" := same (at level 70, no associativity).

Lemma same_refl {A} (x : res A) : x =~ x.
Proof. destruct x; cbn; auto. Qed.

Lemma same_eq {A} (x y : res A) : x = y -> x =~ y.
Proof. intros ->. apply same_refl. Qed.

Lemma same_bind {A B} (m m' : res A) (f f' : A -> res B) :
  m =~ m' -> (forall a, f a =~ f' a) -> bind m f =~ bind m' f'.
Proof. destruct m, m'; cbn; intros H Hf; subst; auto; contradiction. Qed.

Lemma same_ok_l {A} (m : res A) (v : A) : m = Ok v -> forall m', m' = Ok v -> m =~ m'.
Proof. intros -> m' ->. reflexivity. Qed.

Local Arguments Nat.sub : simpl never.
Local Arguments Nat.add : simpl never.
Local Arguments Nat.leb : simpl never.
Local Arguments Nat.ltb : simpl never.
Local Arguments Nat.eqb : simpl never.
Local Arguments Nat.min : simpl never.
Local Arguments Nat.max : simpl never.
Local Arguments Nat.div : simpl never.
Local Arguments Nat.modulo : simpl never.

(** split on the comparisons in the goal *)
Ltac cmp_split :=
  repeat match goal with
  | |- context [Nat.leb ?a ?b] => destruct (Nat.leb a b) eqn:?
  | |- context [Nat.ltb ?a ?b] => destruct (Nat.ltb a b) eqn:?
  | |- context [Nat.eqb ?a ?b] => destruct (Nat.eqb a b) eqn:?
  end; cbn [guard bind andb orb negb same].

Ltac done := cbn [bind guard same]; first [ reflexivity | exact I | exfalso; lia | lia ].

(** * line.rs *)

Theorem tie_line_blank c p : g_line_blank c p = Ok (blank_line c p).
Proof. reflexivity. Qed.
Print Assumptions tie_line_blank.

Theorem tie_line_len l : g_line_len l = Ok (llen l).
Proof. reflexivity. Qed.
Print Assumptions tie_line_len.

Theorem tie_line_clear l a b p : g_line_clear l a b p =~ line_clearM a b p l.
Proof.
  unfold g_line_clear, line_clearM, line_clear_ok, line_clear, llen.
  cmp_split; done.
Qed.
Print Assumptions tie_line_clear.

Theorem tie_line_print l col c : g_line_print l col c =~ line_printM col c l.
Proof.
  unfold g_line_print, line_printM, line_print_ok, line_print, llen.
  cmp_split; done.
Qed.
Print Assumptions tie_line_print.

Lemma rot_len_l {A} n (t : list A) : length (rotl n t) = length t. Proof. apply rotl_length. Qed.
Lemma rot_len_r {A} n (t : list A) : length (rotr n t) = length t. Proof. apply rotr_length. Qed.

Theorem tie_line_insert l col n c : g_line_insert l col n c =~ line_insertM col n c l.
Proof.
  unfold g_line_insert, line_insertM, line_insert_ok, line_insert, llen.
  destruct l as [cs w]. cbn [cells wrapped set].
  destruct (col <=? length cs) eqn:G1; [|cbn; done].
  destruct (n <=? length cs - col) eqn:G2; [|cbn; done].
  cbn [guard bind andb].
  rewrite on_range_length by (auto using rot_len_r; lia).
  cmp_split; done.
Qed.
Print Assumptions tie_line_insert.

Theorem tie_line_delete l col n p : g_line_delete l col n p =~ line_deleteM col n p l.
Proof.
  unfold g_line_delete, line_deleteM, line_delete_ok, line_delete, llen.
  destruct l as [cs w]. cbn [cells wrapped set].
  destruct (col <=? length cs) eqn:G1; [|cbn; done].
  destruct (n <=? length cs - col) eqn:G2; [|cbn; done].
  cbn [guard bind andb].
  rewrite on_range_length by (auto using rot_len_l; lia).
  cmp_split; done.
Qed.
Print Assumptions tie_line_delete.

Theorem tie_line_expand l len p : g_line_expand l len p =~ line_expandM len p l.
Proof.
  unfold g_line_expand, line_expandM, line_expand_ok, line_expand, llen, g_line_len.
  cbn [bind]. cmp_split; done.
Qed.
Print Assumptions tie_line_expand.

Theorem tie_line_trailers l : g_line_trailers l = Ok (trailers l).
Proof. reflexivity. Qed.
Print Assumptions tie_line_trailers.

Lemma take_while_length_le {A} (f : A -> bool) l : length (take_while f l) <= length l.
Proof. induction l as [|x l IH]; cbn; [lia|]. destruct (f x); cbn; lia. Qed.

Lemma trailers_le l : trailers l <= llen l.
Proof. unfold trailers, llen. rewrite <- (rev_length (cells l)). apply take_while_length_le. Qed.

Theorem tie_line_trim l : g_line_trim l = Ok (line_trim l).
Proof.
  unfold g_line_trim, line_trim. rewrite tie_line_trailers. cbn [bind].
  pose proof (trailers_le l) as Hle. unfold g_line_len, llen in *. cbn [bind].
  destruct (0 <? trailers l) eqn:E.
  - destruct (trailers l <=? length (cells l)) eqn:G; [reflexivity|exfalso; lia].
  - cbn [bind]. assert (trailers l = 0) as -> by lia.
    rewrite Nat.sub_0_r, firstn_all. destruct l; reflexivity.
Qed.
Print Assumptions tie_line_trim.

Theorem tie_line_is_blank l : g_line_is_blank l = Ok (line_is_blank l).
Proof. reflexivity. Qed.
Print Assumptions tie_line_is_blank.

(** using the tie of a callee: case analysis on both results *)
Ltac use_tie H :=
  let T := type of H in
  match T with
  | ?x =~ ?y => let a := fresh "r" in let b := fresh "r" in
                destruct x as [a|?], y as [b|?]; cbn [same] in H;
                [ subst b | contradiction | contradiction | ]; cbn [bind same]
  end.

Theorem tie_line_contract l len : g_line_contract l len = Ok (line_contract len l).
Proof.
  unfold g_line_contract, line_contract.
  pose proof (trailers_le l) as Hle.
  rewrite !tie_line_trailers. unfold g_line_len. unfold llen in *. cbn [bind].
  destruct l as [cs w]; cbn [cells wrapped] in *.
  destruct w; cbn [negb bind set cells wrapped].
  - destruct (len <? length cs) eqn:E; [|reflexivity].
    assert (len <=? length cs = true) as -> by lia. cbn [guard bind negb set cells wrapped].
    destruct (skipn len cs) eqn:Es; cbn [length]; reflexivity.
  - assert (trailers {| cells := cs; wrapped := false |} <=? length cs = true) as -> by lia.
    cbn [guard bind set cells wrapped].
    set (cs1 := firstn _ cs).
    destruct (len <? length cs1) eqn:E; [|reflexivity].
    assert (len <=? length cs1 = true) as -> by lia. cbn [guard bind negb set cells wrapped].
    rewrite tie_line_trim. cbn [bind].
    destruct (cells (line_trim _)) eqn:Es; cbn [length]; reflexivity.
Qed.
Print Assumptions tie_line_contract.

Theorem tie_line_extend l other len : g_line_extend l other len =~ line_extend l other len.
Proof.
  unfold g_line_extend, line_extend, g_line_len, llen. cbn [bind].
  destruct (length (cells l) <=? len) eqn:G; cbn [guard bind negb same]; [|exact I].
  destruct (len - length (cells l) =? 0) eqn:E0; [reflexivity|].
  destruct (wrapped l) eqn:Ew; cbn [negb].
  2:{ pose proof (tie_line_expand l len default_pen) as H. unfold line_expandM, line_expand_ok, llen in H.
      rewrite G in H. destruct (g_line_expand l len default_pen); cbn in H; [subst|contradiction]. reflexivity. }
  set (other' := if wrapped other then other else line_trim other).
  assert (Ho : (if negb (wrapped other) then v_other <- g_line_trim other;; Ok v_other else Ok other) = Ok other').
  { unfold other'. destruct (wrapped other); cbn [negb]; [reflexivity|]. rewrite tie_line_trim. reflexivity. }
  rewrite Ho. cbn [bind].
  destruct (len - length (cells l) <? length (cells other')) eqn:E1.
  - assert (len - length (cells l) <=? length (cells other') = true) as -> by lia.
    cbn [guard bind Nat.leb]. change (0 <=? len - length (cells l)) with true. cbn [guard bind].
    rewrite rotl_length.
    assert (len - length (cells l) <=? length (cells other') = true) as -> by lia.
    cbn [guard bind same]. rewrite Nat.sub_0_r. reflexivity.
  - cbn [skipn]. destruct (wrapped other') eqn:Ew'; cbn [negb]; [reflexivity|].
    cbn [bind].
    set (l1 := l <| cells := cells l ++ cells other' |> <| wrapped := false |>).
    destruct (length (cells l1) <? len) eqn:E2; [|reflexivity].
    pose proof (tie_line_expand l1 len default_pen) as H. unfold line_expandM, line_expand_ok, llen in H.
    assert (length (cells l1) <=? len = true) as Hle by lia. rewrite Hle in H.
    destruct (g_line_expand l1 len default_pen); cbn in H; [subst|contradiction]. reflexivity.
Qed.
Print Assumptions tie_line_extend.

(** * buffer.rs *)

Theorem tie_buffer_new c r l p :
  g_buffer_new c r (option_map N.to_nat l) p = Ok (buffer_new c r l p).
Proof.
  unfold g_buffer_new, buffer_new, g_line_blank, limit_of, Gen.Consts.hard_of. cbn [bind].
  assert (Hp : unwrap_or p default_pen = match p with Some p => p | None => default_pen end) by (destruct p; reflexivity).
  rewrite Hp.
  destruct l as [n|]; cbn [option_map bind]; [|reflexivity].
  destruct (0 <? N.to_nat n); cbn [bind]; do 4 f_equal; lia.
Qed.
Print Assumptions tie_buffer_new.

Theorem tie_buffer_view b : g_buffer_view b =~ viewM b.
Proof.
  unfold g_buffer_view, viewM, view, view_ok, sb_len. cmp_split; done.
Qed.
Print Assumptions tie_buffer_view.

Theorem tie_buffer_clear b a z p : g_buffer_clear b a z p =~ buf_clear b a z p.
Proof.
  unfold g_buffer_clear, buf_clear, with_view, view, view_ok, sb_len, g_line_blank. cbn [bind].
  cmp_split; done.
Qed.
Print Assumptions tie_buffer_clear.

Theorem tie_buffer_extend b n c p : g_buffer_extend b n c p = Ok (buf_extend b n c p).
Proof. reflexivity. Qed.
Print Assumptions tie_buffer_extend.

(** [self[row]]: the guards of [view_mut] + index against [with_row]'s test *)
Lemma nthM_some {A} (l : list A) i s : i < length l -> exists x, nth_error l i = Some x /\ nthM l i s = Ok x.
Proof.
  intros H. destruct (nth_error l i) eqn:E.
  - eexists; split; [reflexivity|]. unfold nthM. rewrite E. reflexivity.
  - apply nth_error_None in E. lia.
Qed.

Ltac row_split ls i :=
  let x := fresh "ln" in let E := fresh "En" in let E' := fresh "En" in
  let H := fresh in
  assert (H : i < length ls) by lia;
  destruct (nthM_some ls i 0 H) as (x & E & _); unfold nthM; rewrite ?E; cbn [bind]; clear H.

Theorem tie_buffer_print b col row c : g_buffer_print b col row c =~ buf_print b col row c.
Proof.
  unfold g_buffer_print, buf_print, with_row, view_ok, sb_len.
  destruct b as [ls cs rs lim tn]; cbn [lines bcols brows].
  cmp_split; try done.
  row_split ls (length ls - rs + row).
  pose proof (tie_line_print ln col c) as T. use_tie T; done.
Qed.
Print Assumptions tie_buffer_print.

Theorem tie_buffer_wrap b row : g_buffer_wrap b row =~ buf_wrap b row.
Proof.
  unfold g_buffer_wrap, buf_wrap, with_row, view_ok, sb_len, set_wrapped.
  destruct b as [ls cs rs lim tn]; cbn [lines bcols brows].
  cmp_split; try done.
  row_split ls (length ls - rs + row). done.
Qed.
Print Assumptions tie_buffer_wrap.

Theorem tie_buffer_insert b col row n c : g_buffer_insert b col row n c =~ buf_insert b col row n c.
Proof.
  unfold g_buffer_insert, buf_insert, with_row, view_ok, sb_len.
  destruct b as [ls cs rs lim tn]; cbn [lines bcols brows].
  cmp_split; try done.
  row_split ls (length ls - rs + row).
  pose proof (tie_line_insert ln col (Nat.min n (cs - col)) c) as T. use_tie T; done.
Qed.
Print Assumptions tie_buffer_insert.

Theorem tie_buffer_delete b col row n p : g_buffer_delete b col row n p =~ buf_delete b col row n p.
Proof.
  unfold g_buffer_delete, buf_delete, with_row, view_ok, sb_len, set_wrapped.
  destruct b as [ls cs rs lim tn]; cbn [lines bcols brows].
  cmp_split; try done.
  row_split ls (length ls - rs + row).
  pose proof (tie_line_delete ln col (Nat.min n (cs - col)) p) as T. use_tie T; done.
Qed.
Print Assumptions tie_buffer_delete.

(** the guards of [self[row]] (view_mut + index) against the test of [with_row] *)
Ltac row_guards ls rs row :=
  destruct (rs <=? length ls) eqn:?; cbn [guard bind same andb]; [|try exact I];
  [ destruct (length ls - rs <=? length ls) eqn:?; cbn [guard bind same andb]; [|exfalso; lia];
    destruct (row <? rs) eqn:?;
    [ assert (row <? length ls - (length ls - rs) = true) as -> by lia; cbn [guard bind same andb];
      row_split ls (length ls - rs + row)
    | assert (row <? length ls - (length ls - rs) = false) as -> by lia; cbn [guard bind same andb]; try exact I ] ].

(** find a call of a translated callee in the goal and split on its tie *)
Ltac callee :=
  match goal with
  | |- context [g_line_clear ?l ?a ?b ?p] => let T := fresh "T" in pose proof (tie_line_clear l a b p) as T; use_tie T
  | |- context [g_buffer_clear ?b ?a ?z ?p] => let T := fresh "T" in pose proof (tie_buffer_clear b a z p) as T; use_tie T
  end.

Local Arguments g_line_clear : simpl never.
Local Arguments g_buffer_clear : simpl never.
Local Arguments buf_clear : simpl never.
Local Arguments line_clearM : simpl never.

Theorem tie_buffer_erase b col row m p : g_buffer_erase b col row m p =~ buf_erase b col row m p.
Proof.
  unfold g_buffer_erase, buf_erase.
  destruct b as [ls cs rs lim tn].
  destruct m as [n| | | | | |]; unfold with_row, view_ok, sb_len, set_wrapped; cbn [lines bcols brows].
  - destruct (col <=? cs) eqn:G0; cbn [guard bind same]; [|exact I].
    row_guards ls rs row.
    callee; [|exact I].
    destruct (col + Nat.min n (cs - col) =? cs); reflexivity.
  - row_guards ls rs row.
    callee; [|exact I]. cbn. callee; done.
  - row_guards ls rs row.
    callee; [|exact I]. cbn. callee; done.
  - callee; done.
  - row_guards ls rs row. callee; done.
  - row_guards ls rs row. callee; done.
  - row_guards ls rs row. callee; done.
Qed.
Print Assumptions tie_buffer_erase.

Local Arguments g_buffer_extend : simpl never.
Local Arguments g_line_blank : simpl never.

Lemma bind_ok_same {A} (m m' : res A) : m =~ m' -> (x <- m ;; Ok x) =~ m'.
Proof. destruct m, m'; cbn; auto. Qed.

Local Arguments buf_extend : simpl never.
Local Arguments blank_line : simpl never.

Ltac nrm := cbn [guard bind same andb orb negb lines bcols brows blimit trim_needed set].

Ltac scroll_up_stage3 ls1 rs a z :=
  destruct (a =? 0) eqn:?;
  [ destruct (z =? rs) eqn:?;
    [ rewrite tie_buffer_extend; nrm; reflexivity
    | rewrite tie_line_blank; nrm;
      destruct (rs <=? length ls1) eqn:?; nrm; [|exact I];
      cmp_split; done ]
  | assert (1 <=? a = true) as -> by lia; nrm;
    row_guards ls1 rs (a - 1);
    rewrite ?upd_length; nrm;
    cmp_split; rewrite ?upd_length in *; try done;
    callee; done ].

Theorem tie_buffer_scroll_up b a z n p :
  0 < n \/ z <= brows b ->
  g_buffer_scroll_up b a z n p =~ buf_scroll_up b a z n p.
Proof.
  intros Hdom.
  unfold g_buffer_scroll_up, buf_scroll_up.
  destruct b as [ls cs rs lim tn].
  unfold with_row, with_view, view, view_ok, sb_len, set_wrapped; cbn [lines bcols brows] in *.
  destruct (a <=? z) eqn:G1; cbn [guard bind same andb]; [|exact I].
  destruct (1 <=? z) eqn:G2; cbn [guard bind same andb]; [|exact I].
  destruct (1 <=? rs) eqn:G3; cbn [guard bind same andb]; [|exact I].
  destruct (z - 1 <? rs - 1) eqn:C1.
  - nrm. row_guards ls rs (z - 1). nrm.
    remember (upd (length ls - rs + (z - 1)) (fun _ : line => ln <| wrapped := false |>) ls) as ls1 eqn:E1.
    assert (Hlen : length ls1 = length ls) by (subst ls1; rewrite upd_length; reflexivity).
    clear E1.
    scroll_up_stage3 ls1 rs a z.
  - nrm. scroll_up_stage3 ls rs a z.
Qed.
Print Assumptions tie_buffer_scroll_up.

(** FINDING (model vs Rust, outside the domain used by the terminal).  [Buffer::scroll_up] with [range.start = 0],
    [range.end > rows] and [n = 0] does not panic in Rust: the loop [for _ in 0..n { self.lines.insert(index, ..) }]
    runs zero times, so the out-of-range [index] is never used.  The model checks [index <= len] unconditionally
    (site 38) and panics.  [Terminal] only calls [scroll_up] with [range.end <= rows], hence the hypothesis of
    [tie_buffer_scroll_up]; it is the weakest one: the two sides differ exactly when it fails on this path. *)
Definition cex_buffer : buffer := buffer_new 2 2 None None.
Eval vm_compute in (is_ok (g_buffer_scroll_up cex_buffer 0 3 0 default_pen), buf_scroll_up cex_buffer 0 3 0 default_pen).

Example scroll_up_model_differs :
  is_ok (g_buffer_scroll_up cex_buffer 0 3 0 default_pen) = true /\
  buf_scroll_up cex_buffer 0 3 0 default_pen = Panic 38.
Proof. split; vm_compute; reflexivity. Qed.
Print Assumptions scroll_up_model_differs.

Theorem tie_buffer_scroll_down b a z n p :
  g_buffer_scroll_down b a z n p =~ buf_scroll_down b a z n p.
Proof.
  unfold g_buffer_scroll_down, buf_scroll_down.
  destruct b as [ls cs rs lim tn].
  unfold with_view, view, view_ok, sb_len; nrm.
  destruct (a <=? z) eqn:G1; nrm; [|exact I].
  destruct (rs <=? length ls) eqn:G2; nrm; [|exact I].
  destruct (length ls - rs <=? length ls) eqn:G3; nrm; [|exfalso; lia].
  destruct (z <=? rs) eqn:G4.
  2:{ assert (z <=? length ls - (length ls - rs) = false) as -> by lia. exact I. }
  assert (z <=? length ls - (length ls - rs) = true) as -> by lia.
  assert (Nat.min n (z - a) <=? z - a = true) as -> by lia. nrm.
  callee; [|exact I].
  destruct r as [ls1 cs1 rs1 lim1 tn1].
  unfold with_row, view_ok, sb_len, set_wrapped; nrm.
  destruct (0 <? a) eqn:C1.
  - assert (1 <=? a = true) as -> by lia. nrm.
    row_guards ls1 rs1 (a - 1). nrm. rewrite ?upd_length.
    destruct (1 <=? z) eqn:G5; nrm; [|exact I].
    remember (upd (length ls1 - rs1 + (a - 1)) (fun _ : line => ln <| wrapped := false |>) ls1) as ls2 eqn:E2.
    assert (Hlen : length ls2 = length ls1) by (subst ls2; rewrite upd_length; reflexivity).
    clear E2. rewrite <- ?Hlen.
    row_guards ls2 rs1 (z - 1). nrm. reflexivity.
  - nrm. destruct (1 <=? z) eqn:G5; nrm; [|exact I].
    row_guards ls1 rs1 (z - 1). nrm. reflexivity.
Qed.
Print Assumptions tie_buffer_scroll_down.

(** [gc] returns [Option<Drain>]; the model returns the drained lines, [[]] for [None] *)
Definition drained (r : buffer * option (list line)) : buffer * list line :=
  (fst r, match snd r with Some d => d | None => [] end).

Definition res_map {A B} (f : A -> B) (m : res A) : res B := x <- m ;; Ok (f x).

Theorem tie_buffer_gc b : res_map drained (g_buffer_gc b) =~ buf_gc b.
Proof.
  unfold g_buffer_gc, buf_gc, g_buffer_trim_scrollback, res_map, view_ok, sb_len.
  destruct b as [ls cs rs lim tn]; nrm.
  destruct tn; nrm; [|reflexivity].
  destruct lim as [[soft hard]|]; nrm; [|reflexivity].
  destruct (rs <=? length ls) eqn:G1; nrm; [|exact I].
  cbn [fst snd].
  destruct (N.to_nat hard <? length ls - rs) eqn:C1.
  - assert ((hard <? N.of_nat (length ls - rs))%N = true) as -> by lia.
    destruct (N.to_nat soft <=? length ls - rs) eqn:G2.
    + assert ((soft <=? N.of_nat (length ls - rs))%N = true) as -> by lia. nrm.
      assert (N.to_nat (N.of_nat (length ls - rs) - soft) = length ls - rs - N.to_nat soft) as -> by lia.
      destruct (length ls - rs - N.to_nat soft <=? length ls) eqn:G3; nrm; [reflexivity|exfalso; lia].
    + assert ((soft <=? N.of_nat (length ls - rs))%N = false) as -> by lia. exact I.
  - assert ((hard <? N.of_nat (length ls - rs))%N = false) as -> by lia. reflexivity.
Qed.
Print Assumptions tie_buffer_gc.

Theorem tie_buffer_trim_scrollback b :
  trim_needed b = false ->
  res_map drained (g_buffer_trim_scrollback b) =~ buf_gc (b <| trim_needed := true |>).
Proof.
  intros Htn. pose proof (tie_buffer_gc (b <| trim_needed := true |>)) as H.
  unfold g_buffer_gc in H. cbn [trim_needed set] in H.
  destruct b as [ls cs rs lim tn]; cbn [trim_needed] in Htn; subst tn.
  unfold res_map in *. cbn [set lines bcols brows blimit trim_needed] in *.
  destruct (g_buffer_trim_scrollback _) as [[b1 o]|]; cbn [bind] in *; exact H.
Qed.
Print Assumptions tie_buffer_trim_scrollback.

(** * tabs.rs *)

Theorem tie_tabs_new c : g_tabs_new c = Ok (tabs_new c).
Proof. reflexivity. Qed.
Print Assumptions tie_tabs_new.

Lemma bsearch_cons pos t r :
  bsearch pos (t :: r) =
  if t <? pos then match bsearch pos r with inl i => inl (S i) | inr i => inr (S i) end
  else if t =? pos then inl 0 else inr 0.
Proof.
  unfold bsearch, partition_point. cbn [take_while].
  destruct (t <? pos) eqn:E; cbn [length nth_error].
  - destruct (nth_error r _) as [x|]; [destruct (x =? pos)|]; reflexivity.
  - reflexivity.
Qed.

Theorem tie_tabs_set l pos : g_tabs_set l pos = Ok (tabs_set pos l).
Proof.
  unfold g_tabs_set.
  induction l as [|t r IH].
  - reflexivity.
  - rewrite bsearch_cons. cbn [tabs_set].
    destruct (t <? pos) eqn:E1.
    + assert (pos <? t = false) as -> by lia. assert (pos =? t = false) as -> by lia.
      destruct (bsearch pos r) as [i|i]; cbn [bind] in *.
      * injection IH as IH. rewrite <- IH. reflexivity.
      * destruct (i <=? length r) eqn:G; cbn [guard bind] in IH; [|discriminate].
        injection IH as IH. rewrite <- IH.
        assert (S i <=? length (t :: r) = true) as -> by (cbn [length]; lia).
        reflexivity.
    + destruct (t =? pos) eqn:E2.
      * assert (pos <? t = false) as -> by lia. assert (pos =? t = true) as -> by lia. reflexivity.
      * assert (pos <? t = true) as -> by lia. reflexivity.
Qed.
Print Assumptions tie_tabs_set.

Theorem tie_tabs_unset l pos : sorted_lt l -> g_tabs_unset l pos = Ok (tabs_unset pos l).
Proof.
  unfold g_tabs_unset.
  induction l as [|t r IH]; intros Hs.
  - reflexivity.
  - rewrite bsearch_cons. cbn [tabs_unset].
    destruct (t <? pos) eqn:E1.
    + assert (pos =? t = false) as -> by lia.
      assert (Hs' : sorted_lt r) by (destruct r; [exact I|apply Hs]).
      specialize (IH Hs').
      destruct (bsearch pos r) as [i|i]; cbn [bind] in *.
      * destruct (i <? length r) eqn:G; cbn [guard bind] in IH; [|discriminate].
        injection IH as IH. rewrite <- IH.
        assert (S i <? length (t :: r) = true) as -> by (cbn [length]; lia).
        reflexivity.
      * injection IH as IH. rewrite <- IH. reflexivity.
    + destruct (t =? pos) eqn:E2.
      * assert (pos =? t = true) as -> by lia. reflexivity.
      * assert (pos =? t = false) as -> by lia. cbn [bind]. f_equal. f_equal.
        (* pos < t and the rest is larger still: nothing to remove *)
        clear IH. revert t Hs E1 E2. induction r as [|u r IHr]; intros t Hs E1 E2; [reflexivity|].
        cbn [tabs_unset]. destruct Hs as [Htu Hs].
        assert (pos =? u = false) as -> by lia. f_equal. apply (IHr u Hs); lia.
Qed.
Print Assumptions tie_tabs_unset.

(** without sortedness the contract of [binary_search] says nothing; the model removes the first occurrence *)
Example unset_unsorted : g_tabs_unset [5; 3] 3 = Ok [5; 3] /\ tabs_unset 3 [5; 3] = [5].
Proof. split; reflexivity. Qed.
Print Assumptions unset_unsorted.

Theorem tie_tabs_expand l s e : g_tabs_expand l s e = Ok (tabs_expand s e l).
Proof.
  unfold g_tabs_expand, tabs_expand, range_step.
  destruct (negb (s mod 8 =? 0)) eqn:E; cbn [bind].
  - assert (s mod 8 <=? 8 = true) as -> by (pose proof (Nat.mod_upper_bound s 8); lia).
    reflexivity.
  - reflexivity.
Qed.
Print Assumptions tie_tabs_expand.

Lemma firstn_take_while {A} (f : A -> bool) l : firstn (length (take_while f l)) l = take_while f l.
Proof. induction l as [|x l IH]; [reflexivity|]. cbn [take_while]. destruct (f x); cbn [length firstn]; [f_equal; exact IH|reflexivity]. Qed.

Theorem tie_tabs_contract l pos : g_tabs_contract l pos = Ok (tabs_contract pos l).
Proof. unfold g_tabs_contract, tabs_contract, partition_point. cbn zeta. rewrite firstn_take_while. reflexivity. Qed.
Print Assumptions tie_tabs_contract.

Theorem tie_tabs_clear l : g_tabs_clear l = Ok [].
Proof. reflexivity. Qed.
Print Assumptions tie_tabs_clear.

Theorem tie_tabs_before l pos n : g_tabs_before l pos n =~ tabs_before l pos n.
Proof. unfold g_tabs_before, tabs_before. cmp_split; done. Qed.
Print Assumptions tie_tabs_before.

Theorem tie_tabs_after l pos n : g_tabs_after l pos n =~ tabs_after l pos n.
Proof. unfold g_tabs_after, tabs_after. cmp_split; done. Qed.
Print Assumptions tie_tabs_after.

(** * terminal/dirty_lines.rs *)

Theorem tie_dirty_new n : g_dirty_new n = Ok (dirty_new n).
Proof. reflexivity. Qed.
Print Assumptions tie_dirty_new.

Theorem tie_dirty_add d n : g_dirty_add d n =~ dirty_add d n.
Proof. unfold g_dirty_add, dirty_add. cmp_split; done. Qed.
Print Assumptions tie_dirty_add.

Theorem tie_dirty_extend d a z : g_dirty_extend d a z =~ dirty_extend d a z.
Proof. unfold g_dirty_extend, dirty_extend. cmp_split; done. Qed.
Print Assumptions tie_dirty_extend.

Theorem tie_dirty_resize d n : g_dirty_resize d n = Ok (dirty_resize d n).
Proof. reflexivity. Qed.
Print Assumptions tie_dirty_resize.

Theorem tie_dirty_clear d : g_dirty_clear d = Ok (dirty_clear d).
Proof.
  unfold g_dirty_clear, dirty_clear. cbn zeta. rewrite fill_range_from_start, skipn_all, app_nil_r. reflexivity.
Qed.
Print Assumptions tie_dirty_clear.

Lemma to_vec_gen d i :
  filter_map (fun '((v_i, v_affected) : nat * bool) => if v_affected then Some v_i else None)
             (combine (seq i (length d)) d) = dirty_to_vec d i.
Proof.
  revert i. induction d as [|x d IH]; intros i; [reflexivity|].
  cbn [length seq combine filter_map dirty_to_vec]. destruct x; rewrite IH; reflexivity.
Qed.

Theorem tie_dirty_to_vec d : g_dirty_to_vec d = Ok (dirty_to_vec d 0).
Proof. unfold g_dirty_to_vec, enumerate. rewrite to_vec_gen. reflexivity. Qed.
Print Assumptions tie_dirty_to_vec.
