(** Well-formed pens and printable characters everywhere in a reachable terminal state.

    - [observe_inj]: two well-formed pens with the same public observations are equal;
    - [pen_wf] is preserved by every SGR operation the parser can decode;
    - every line / buffer primitive preserves [lines_wf] (instances of [Proofs/CellInv.v]);
    - [execute_PensInv], [term_resize_PensInv], [changes_PensInv], [term_gc_PensInv],
      [term_new_PensInv]: the terminal level (instances of [Proofs/CellInvTerm.v]);
    - [feed_emit_ok]: everything the parser emits is [func_ok] (and [func_chars_ok]);
    - [vt_feed_PensInv], [vt_flush_PensInv], [stepM_PensInv], [feed_str_PensInv], [vt_new_PensInv];
    - the same for [CharsInv]: every stored character is one the parser prints from ground
      state (32..127 or >= 160) or a special-graphics glyph (>= 160).
    No invariant other than [PInv] of the parser (for the Vt level) is needed. *)

From Avt Require Import Model.Vt Spec.Williams Spec.Screen Oracles.Step Oracles.Rel Proofs.Inv
  Proofs.ListLemmas Proofs.ParserTable Proofs.ParserInv Proofs.Frames Proofs.DumpPen
  Proofs.PenInv Proofs.CellInv Proofs.CellInvTerm.
From Avt Require Import Gen.Consts Gen.Dispatch.
From Coq Require Import Lia ZArith ZifyBool ZifyNat ZifyN.
Local Open Scope N_scope.

#[local] Arguments N.add : simpl never.
#[local] Arguments N.sub : simpl never.
#[local] Arguments N.eqb : simpl never.
#[local] Arguments N.ltb : simpl never.
#[local] Arguments N.leb : simpl never.
#[local] Arguments N.land : simpl never.
#[local] Arguments N.lor : simpl never.
#[local] Arguments N.lxor : simpl never.

(** * 1. attribute bytes below 32: finite sweeps *)

Definition small32 : list N := map N.of_nat (seq 0 32).

Lemma small32_complete a : a < 32 -> In a small32.
Proof.
  intros H. unfold small32. apply in_map_iff. exists (N.to_nat a). split; [lia|].
  apply in_seq. lia.
Qed.

Lemma sweep32 (P : N -> bool) : forallb P small32 = true -> forall a, a < 32 -> P a = true.
Proof. intros F a H. rewrite forallb_forall in F. apply F, small32_complete, H. Qed.

(** the attribute byte rebuilt from the five observable bits *)
Definition dec5 (b1 b2 b4 b8 b16 : bool) : N :=
  (if b1 then 0 else 1) + (if b2 then 0 else 2) + (if b4 then 0 else 4)
  + (if b8 then 0 else 8) + (if b16 then 0 else 16).

Definition bits5 (a : N) : N :=
  dec5 (N.land a 1 =? 0) (N.land a 2 =? 0) (N.land a 4 =? 0) (N.land a 8 =? 0) (N.land a 16 =? 0).

Lemma bits5_id : forall a, a < 32 -> bits5 a = a.
Proof.
  intros a H. apply N.eqb_eq. revert a H. apply sweep32. vm_compute. reflexivity.
Qed.

Definition attr_closed (a : N) : bool :=
  (N.lor a 1 <? 32) && (N.lor a 2 <? 32) && (N.lor a 4 <? 32) && (N.lor a 8 <? 32)
  && (N.lor a 16 <? 32)
  && (N.land a (N.lxor 255 1) <? 32) && (N.land a (N.lxor 255 2) <? 32)
  && (N.land a (N.lxor 255 4) <? 32) && (N.land a (N.lxor 255 8) <? 32)
  && (N.land a (N.lxor 255 16) <? 32).

Lemma attr_closed_all : forall a, a < 32 -> attr_closed a = true.
Proof. apply sweep32. vm_compute. reflexivity. Qed.

(** * 2. [observe] is injective on well-formed pens *)

Lemma negb_eq (a b : bool) : negb a = negb b -> a = b.
Proof. destruct a, b; cbn; congruence. Qed.

Theorem observe_inj : forall p q, pen_wf p -> pen_wf q -> observe p = observe q -> p = q.
Proof.
  intros [fg bg i a] [fg' bg' i' a'] [_ Ha] [_ Ha'] E. cbn [attrs] in Ha, Ha'.
  unfold observe, is_italic, is_underline, is_blink, is_inverse, is_strikethrough, pen_has,
    ITALIC_MASK, UNDERLINE_MASK, BLINK_MASK, INVERSE_MASK, STRIKETHROUGH_MASK in E.
  cbn [foreground background intensity attrs] in E.
  injection E as -> -> -> E1 E2 E8 E16 E4.
  apply negb_eq in E1, E2, E4, E8, E16.
  f_equal. rewrite <- (bits5_id a Ha), <- (bits5_id a' Ha'). unfold bits5.
  rewrite E1, E2, E4, E8, E16. reflexivity.
Qed.
Print Assumptions observe_inj.

(** * 3. SGR keeps pens well-formed *)

Lemma pen_wf_default : pen_wf default_pen.
Proof. split; [exact pen_ok_default|]. cbn [attrs default_pen]. lia. Qed.

Lemma attrs_pen_set m p : attrs (pen_set m p) = N.lor (attrs p) m.
Proof. destruct p; reflexivity. Qed.

Lemma attrs_pen_unset m p : attrs (pen_unset m p) = N.land (attrs p) (N.lxor 255 m).
Proof. destruct p; reflexivity. Qed.

Theorem pen_wf_step : forall p op, pen_wf p -> op_color_ok op -> pen_wf (sgr_one p op).
Proof.
  intros p op [Hk Ha] Ho. split; [exact (pen_ok_step _ _ Hk Ho)|].
  pose proof (attr_closed_all _ Ha) as C. unfold attr_closed in C.
  repeat (apply andb_prop in C as [C ?]).
  destruct op; unfold sgr_one, ITALIC_MASK, UNDERLINE_MASK, BLINK_MASK, INVERSE_MASK,
    STRIKETHROUGH_MASK; rewrite ?attrs_pen_set, ?attrs_pen_unset;
    try (cbn [attrs default_pen]; lia);
    try (destruct p; cbn; exact Ha); lia.
Qed.
Print Assumptions pen_wf_step.

Corollary pen_wf_fold : forall ops p,
  pen_wf p -> Forall op_color_ok ops -> pen_wf (fold_left sgr_one ops p).
Proof.
  induction ops as [|op ops IH]; intros p Hp HF; cbn [fold_left]; [exact Hp|].
  apply IH; [apply pen_wf_step; [exact Hp|exact (Forall_inv HF)]|exact (Forall_inv_tail HF)].
Qed.

Corollary pen_wf_sgr : forall ps p, pen_wf p -> pen_wf (fold_left sgr_one (sgr_ops ps) p).
Proof. intros ps p Hp. apply pen_wf_fold; [exact Hp|apply sgr_ops_colors_ok]. Qed.
Print Assumptions pen_wf_sgr.

(** * 4. lines and buffers: instances of [CellInv] *)

Definition Qpen (c : cell) : Prop := pen_wf (cpen c).

Lemma cells_wf_lQ l : cells_wf (cells l) = lQ Qpen l.
Proof. reflexivity. Qed.

Lemma lines_wf_lsQ ls : lines_wf ls = lsQ Qpen ls.
Proof. reflexivity. Qed.

Lemma Qpen_blank p : pen_wf p -> Qpen (blank_cell p).
Proof. intros H; exact H. Qed.

Lemma Qpen_default : Qpen default_cell.
Proof. exact pen_wf_default. Qed.

Lemma blank_line_wf n p : pen_wf p -> cells_wf (cells (blank_line n p)).
Proof. intros H. apply (blank_line_Q Qpen). exact H. Qed.

Lemma line_clear_wf a b p l :
  pen_wf p -> cells_wf (cells l) -> cells_wf (cells (line_clear a b p l)).
Proof. intros Hp. apply (line_clear_Q Qpen). exact Hp. Qed.

Lemma line_print_wf col c l :
  pen_wf (cpen c) -> cells_wf (cells l) -> cells_wf (cells (line_print col c l)).
Proof. apply (line_print_Q Qpen). Qed.

Lemma line_insert_wf col n c l :
  pen_wf (cpen c) -> cells_wf (cells l) -> cells_wf (cells (line_insert col n c l)).
Proof. apply (line_insert_Q Qpen). Qed.

Lemma line_delete_wf col n p l :
  pen_wf p -> cells_wf (cells l) -> cells_wf (cells (line_delete col n p l)).
Proof. intros Hp. apply (line_delete_Q Qpen). exact Hp. Qed.

Lemma line_trim_wf l : cells_wf (cells l) -> cells_wf (cells (line_trim l)).
Proof. apply (line_trim_Q Qpen). Qed.

Lemma line_expand_wf len p l :
  pen_wf p -> cells_wf (cells l) -> cells_wf (cells (line_expand len p l)).
Proof. intros Hp. apply (line_expand_Q Qpen). exact Hp. Qed.

Lemma line_contract_wf len l :
  cells_wf (cells l) ->
  cells_wf (cells (fst (line_contract len l)))
  /\ match snd (line_contract len l) with Some r => cells_wf (cells r) | None => True end.
Proof. apply (line_contract_Q Qpen). Qed.

Lemma line_extend_wf l other len l' b r :
  cells_wf (cells l) -> cells_wf (cells other) ->
  line_extend l other len = Ok (l', (b, r)) ->
  cells_wf (cells l') /\ match r with Some r => cells_wf (cells r) | None => True end.
Proof. apply (line_extend_Q Qpen). exact Qpen_default. Qed.

Theorem reflowM_wf ls ncols out : lines_wf ls -> reflowM ls ncols = Ok out -> lines_wf out.
Proof. apply (reflowM_Q Qpen). exact Qpen_default. Qed.

Theorem buf_resize_wf b ncols nrows cc cr b' pos :
  lines_wf (lines b) -> buf_resize b ncols nrows cc cr = Ok (b', pos) -> lines_wf (lines b').
Proof. apply (buf_resize_Q Qpen). exact Qpen_default. Qed.

Theorem buffer_new_wf c r l p :
  match p with Some p => pen_wf p | None => True end -> lines_wf (lines (buffer_new c r l p)).
Proof.
  intros H. apply (buffer_new_Q Qpen). destruct p as [p|]; [exact H|exact pen_wf_default].
Qed.

Theorem buf_print_wf b col row c b' :
  pen_wf (cpen c) -> lines_wf (lines b) -> buf_print b col row c = Ok b' -> lines_wf (lines b').
Proof. apply (buf_print_Q Qpen). Qed.

Theorem buf_wrap_wf b row b' : lines_wf (lines b) -> buf_wrap b row = Ok b' -> lines_wf (lines b').
Proof. apply (buf_wrap_Q Qpen). Qed.

Theorem buf_insert_wf b col row n c b' :
  pen_wf (cpen c) -> lines_wf (lines b) -> buf_insert b col row n c = Ok b' -> lines_wf (lines b').
Proof. apply (buf_insert_Q Qpen). Qed.

Theorem buf_delete_wf b col row n p b' :
  pen_wf p -> lines_wf (lines b) -> buf_delete b col row n p = Ok b' -> lines_wf (lines b').
Proof. intros Hp. apply (buf_delete_Q Qpen). exact Hp. Qed.

Theorem buf_erase_wf b col row m p b' :
  pen_wf p -> lines_wf (lines b) -> buf_erase b col row m p = Ok b' -> lines_wf (lines b').
Proof. intros Hp. apply (buf_erase_Q Qpen). exact Hp. Qed.

Theorem buf_clear_wf b a z p b' :
  pen_wf p -> lines_wf (lines b) -> buf_clear b a z p = Ok b' -> lines_wf (lines b').
Proof. intros Hp. apply (buf_clear_Q Qpen). exact Hp. Qed.

Theorem buf_extend_wf b n c p :
  pen_wf p -> lines_wf (lines b) -> lines_wf (lines (buf_extend b n c p)).
Proof. intros Hp. apply (buf_extend_Q Qpen). exact Hp. Qed.

Theorem buf_scroll_up_wf b a z n p b' :
  pen_wf p -> lines_wf (lines b) -> buf_scroll_up b a z n p = Ok b' -> lines_wf (lines b').
Proof. intros Hp. apply (buf_scroll_up_Q Qpen). exact Hp. Qed.

Theorem buf_scroll_down_wf b a z n p b' :
  pen_wf p -> lines_wf (lines b) -> buf_scroll_down b a z n p = Ok b' -> lines_wf (lines b').
Proof. intros Hp. apply (buf_scroll_down_Q Qpen). exact Hp. Qed.

Theorem buf_gc_wf b b' dr :
  lines_wf (lines b) -> buf_gc b = Ok (b', dr) -> lines_wf (lines b') /\ lines_wf dr.
Proof. apply (buf_gc_Q Qpen). Qed.

(** * 5. the terminal level *)

Definition func_ok (f : func) : Prop :=
  match f with Sgr ops => Forall op_color_ok ops | _ => True end.

Definition CcT (c : N) : Prop := True.

Lemma PensInv_GInv t : PensInv t = GInv Qpen pen_wf t.
Proof. reflexivity. Qed.

Lemma func_ok_fokG f : func_ok f -> fokG CcT op_color_ok f.
Proof. destruct f; cbn; auto. Qed.

Ltac pens_side :=
  first [ exact pen_wf_default
        | exact pen_wf_step
        | exact I
        | (let X := fresh in intros ? ? _ X; exact X)
        | (intros; exact I) ].

Theorem execute_PensInv : forall t f t',
  PensInv t -> func_ok f -> execute t f = Ok t' -> PensInv t'.
Proof.
  intros t f t' H Hf E. rewrite PensInv_GInv in *.
  refine (G_execute Qpen CcT pen_wf op_color_ok _ _ _ _ _ _ _ t f t' H (func_ok_fokG _ Hf) E);
    pens_side.
Qed.
Print Assumptions execute_PensInv.

Theorem term_resize_PensInv : forall t c r t',
  PensInv t -> term_resize t c r = Ok t' -> PensInv t'.
Proof.
  intros t c r t' H E. rewrite PensInv_GInv in *.
  refine (G_term_resize Qpen CcT pen_wf _ _ _ t c r t' H E); pens_side.
Qed.
Print Assumptions term_resize_PensInv.

Theorem changes_PensInv : forall t, PensInv t -> PensInv (fst (changes t)).
Proof. intros t. rewrite !PensInv_GInv. apply G_changes. Qed.

Theorem term_gc_PensInv : forall t t' dr,
  PensInv t -> term_gc t = Ok (t', dr) -> PensInv t' /\ lines_wf dr.
Proof. intros t t' dr. rewrite !PensInv_GInv. apply G_term_gc. Qed.
Print Assumptions term_gc_PensInv.

Theorem term_new_PensInv : forall c r l, PensInv (term_new_gen c r l).
Proof.
  intros c r l. rewrite PensInv_GInv. refine (G_term_new Qpen CcT pen_wf _ _ _ c r l); pens_side.
Qed.
Print Assumptions term_new_PensInv.

(** * 6. characters *)

Definition ch_ok (c : N) : Prop := (32 <= c <= 127 \/ 160 <= c)%N.

Lemma ch_ok_printable c : ch_ok c <-> printable_c09 c = true.
Proof. unfold ch_ok, printable_c09. lia. Qed.

Definition Qch (c : cell) : Prop := ch_ok (ch c).
Definition PpT (p : pen) : Prop := True.
Definition OpT (o : sgr_op) : Prop := True.

Definition CharsInv (t : term) : Prop :=
  Forall (fun l => Forall (fun c => ch_ok (ch c)) (cells l)) (lines (buf t))
  /\ Forall (fun l => Forall (fun c => ch_ok (ch c)) (cells l)) (lines (other t)).

Definition func_chars_ok (f : func) : Prop :=
  match f with Print c => ch_ok c | _ => True end.

Lemma CharsInv_GInv t : CharsInv t <-> GInv Qch PpT t.
Proof.
  unfold CharsInv, GInv, PpT. split.
  - intros [A B]. repeat split; assumption.
  - intros (_ & A & B & _). split; assumption.
Qed.

Lemma func_chars_ok_fokG f : func_chars_ok f -> fokG ch_ok OpT f.
Proof.
  destruct f; cbn; auto. intros _. apply Forall_forall. intros; exact I.
Qed.

Lemma ch_ok_32 : ch_ok 32.
Proof. unfold ch_ok. lia. Qed.

Lemma ch_ok_69 : ch_ok 69.
Proof. unfold ch_ok. lia. Qed.

Lemma gfx_all_high : Forall (fun g => 160 <= g) SPECIAL_GFX_CHARS.
Proof. unfold SPECIAL_GFX_CHARS. repeat constructor; lia. Qed.

(** [ch_ok] is closed under the charset translation *)
Lemma ch_ok_translate cs c c' : ch_ok c -> translate cs c = Ok c' -> ch_ok c'.
Proof.
  intros H E. destruct cs; cbn [translate] in E.
  - apply Ok_inj in E. subst c'. exact H.
  - destruct ((GFX_LO <=? c) && (c <? GFX_HI_EXCL)).
    + apply bind_ok in E as (u & _ & E).
      destruct (nth_error SPECIAL_GFX_CHARS (N.to_nat (c - GFX_OFF))) as [g|] eqn:En; [|discriminate].
      apply Ok_inj in E. subst c'. right.
      exact (Forall_nth_error _ _ _ _ gfx_all_high En).
    + apply Ok_inj in E. subst c'. exact H.
Qed.

Ltac chars_side :=
  first [ exact ch_ok_32
        | exact ch_ok_69
        | exact ch_ok_translate
        | exact I
        | (let X := fresh in intros ? ? X _; exact X)
        | (let X := fresh in intros ? X; exact X)
        | (intros; exact I) ].

(** no terminal invariant is needed: [rep] re-prints a character found in a cell *)
Theorem execute_CharsInv' : forall t f t',
  CharsInv t -> func_chars_ok f -> execute t f = Ok t' -> CharsInv t'.
Proof.
  intros t f t' H Hf E. rewrite CharsInv_GInv in *.
  refine (G_execute Qch ch_ok PpT OpT _ _ _ _ _ _ _ t f t' H (func_chars_ok_fokG _ Hf) E);
    chars_side.
Qed.
Print Assumptions execute_CharsInv'.

Theorem execute_CharsInv : forall t f t',
  TInv t -> CharsInv t -> func_chars_ok f -> execute t f = Ok t' -> CharsInv t'.
Proof. intros t f t' _. apply execute_CharsInv'. Qed.

Theorem term_resize_CharsInv : forall t c r t',
  CharsInv t -> term_resize t c r = Ok t' -> CharsInv t'.
Proof.
  intros t c r t' H E. rewrite CharsInv_GInv in *.
  refine (G_term_resize Qch ch_ok PpT _ _ _ t c r t' H E); chars_side.
Qed.
Print Assumptions term_resize_CharsInv.

Theorem changes_CharsInv : forall t, CharsInv t -> CharsInv (fst (changes t)).
Proof. intros t. rewrite !CharsInv_GInv. apply G_changes. Qed.

Theorem term_gc_CharsInv : forall t t' dr,
  CharsInv t -> term_gc t = Ok (t', dr) ->
  CharsInv t' /\ Forall (fun l => Forall (fun c => ch_ok (ch c)) (cells l)) dr.
Proof. intros t t' dr. rewrite !CharsInv_GInv. apply G_term_gc. Qed.
Print Assumptions term_gc_CharsInv.

Theorem term_new_CharsInv : forall c r l, CharsInv (term_new_gen c r l).
Proof.
  intros c r l. rewrite CharsInv_GInv. refine (G_term_new Qch ch_ok PpT _ _ _ c r l); chars_side.
Qed.
Print Assumptions term_new_CharsInv.

(** * 7. the parser only emits good functions *)

(** neither [Print] nor an ill-formed [Sgr] *)
Definition fn_plain (f : func) : Prop :=
  match f with Sgr ops => Forall op_color_ok ops | Print _ => False | _ => True end.

Lemma fn_plain_ok f : fn_plain f -> func_ok f /\ func_chars_ok f.
Proof. destruct f; cbn; auto. intros []. Qed.

Ltac break_ifs :=
  repeat match goal with |- context [if ?b then _ else _] => destruct b end.

Lemma execute_gen_plain c f : execute_gen c = Some f -> fn_plain f.
Proof.
  unfold execute_gen. break_ifs; intros H; try discriminate H;
    apply (f_equal (fun o => match o with Some x => x | None => Bs end)) in H; subst f; exact I.
Qed.

Lemma esc_dispatch_gen_plain i c f : snd (esc_dispatch_gen i c) = Some f -> fn_plain f.
Proof.
  unfold esc_dispatch_gen. break_ifs; cbn [snd]; intros H; try discriminate H;
    try (apply execute_gen_plain in H; exact H);
    apply (f_equal (fun o => match o with Some x => x | None => Bs end)) in H; subst f; exact I.
Qed.

Lemma csi_dispatch_gen_plain i c ps cp f : csi_dispatch_gen i c ps cp = Some f -> fn_plain f.
Proof.
  unfold csi_dispatch_gen. cbv zeta. break_ifs; intros H; try discriminate H;
    apply (f_equal (fun o => match o with Some x => x | None => Bs end)) in H; subst f;
    try exact I.
  cbn [fn_plain]. apply sgr_ops_colors_ok.
Qed.

Definition kprint_row_ok (s : pstate) (c : N) : bool :=
  implb (akind_eqb (t_kind (williams s c)) KPrint) ((32 <=? c) && (c <=? 127)).

Lemma kprint_rows : forallb (fun s => forallb (kprint_row_ok s) (codes_upto 160)) all_pstates = true.
Proof. vm_compute. reflexivity. Qed.

Lemma kprint_ch_ok s c : t_kind (williams s c) = KPrint -> ch_ok c.
Proof.
  intros K. unfold ch_ok. destruct (N.lt_ge_cases c 160) as [Hc|Hc]; [|right; exact Hc].
  left. pose proof (sweep_lt kprint_row_ok kprint_rows s c Hc) as R.
  unfold kprint_row_ok in R. rewrite K in R. cbn [akind_eqb implb] in R. lia.
Qed.

Theorem feed_emit_good : forall p c f,
  feed_emit p c = Some f -> func_ok f /\ func_chars_ok f.
Proof.
  intros p c f H. unfold feed_emit in H.
  destruct (t_kind (williams (pst p) c)) eqn:K; try discriminate H.
  - injection H as <-. split; [exact I|]. cbn [func_chars_ok]. exact (kprint_ch_ok _ _ K).
  - exact (fn_plain_ok _ (execute_gen_plain _ _ H)).
  - exact (fn_plain_ok _ (esc_dispatch_gen_plain _ _ _ H)).
  - exact (fn_plain_ok _ (csi_dispatch_gen_plain _ _ _ _ _ H)).
Qed.
Print Assumptions feed_emit_good.

Theorem feed_emit_ok : forall p c f, feed_emit p c = Some f -> func_ok f.
Proof. intros p c f H. exact (proj1 (feed_emit_good _ _ _ H)). Qed.
Print Assumptions feed_emit_ok.

Theorem feed_emit_chars_ok : forall p c f, feed_emit p c = Some f -> func_chars_ok f.
Proof. intros p c f H. exact (proj2 (feed_emit_good _ _ _ H)). Qed.

Theorem feed_emit_print : forall p c x, feed_emit p c = Some (Print x) -> ch_ok x.
Proof. intros p c x H. exact (feed_emit_chars_ok _ _ _ H). Qed.
Print Assumptions feed_emit_print.

(** * 8. the Vt level *)

Lemma vt_feed_inv v c v' :
  PInv (vparser v) -> vt_feed v c = Ok v' ->
  match feed_emit (vparser v) c with
  | Some f => exists t, execute (vterm v) f = Ok t /\ v' = mkVt (feed_step (vparser v) c) t
  | None => v' = mkVt (feed_step (vparser v) c) (vterm v)
  end.
Proof.
  intros HP E. unfold vt_feed in E. rewrite (feedM_char _ c HP) in E. cbn [bind] in E.
  destruct (feed_emit (vparser v) c) as [f|].
  - apply bind_ok in E as (t & Et & E). apply Ok_inj in E. subst v'. exists t. split; [exact Et|reflexivity].
  - apply Ok_inj in E. subst v'. reflexivity.
Qed.

Lemma vt_feed_PInv v c v' : PInv (vparser v) -> vt_feed v c = Ok v' -> PInv (vparser v').
Proof.
  intros HP E. pose proof (vt_feed_inv _ _ _ HP E) as I.
  destruct (feed_emit (vparser v) c) as [f|]; [destruct I as (t & _ & ->)|subst v'];
    cbn [vparser]; apply feed_step_inv; exact HP.
Qed.

Theorem vt_feed_PensInv : forall v c v',
  PInv (vparser v) -> PensInv (vterm v) -> vt_feed v c = Ok v' -> PensInv (vterm v').
Proof.
  intros v c v' HP H E. pose proof (vt_feed_inv _ _ _ HP E) as I.
  destruct (feed_emit (vparser v) c) as [f|] eqn:Ef.
  - destruct I as (t & Et & ->). cbn [vterm].
    exact (execute_PensInv _ _ _ H (feed_emit_ok _ _ _ Ef) Et).
  - subst v'. exact H.
Qed.
Print Assumptions vt_feed_PensInv.

Theorem vt_feed_CharsInv : forall v c v',
  PInv (vparser v) -> CharsInv (vterm v) -> vt_feed v c = Ok v' -> CharsInv (vterm v').
Proof.
  intros v c v' HP H E. pose proof (vt_feed_inv _ _ _ HP E) as I.
  destruct (feed_emit (vparser v) c) as [f|] eqn:Ef.
  - destruct I as (t & Et & ->). cbn [vterm].
    exact (execute_CharsInv' _ _ _ H (feed_emit_chars_ok _ _ _ Ef) Et).
  - subst v'. exact H.
Qed.
Print Assumptions vt_feed_CharsInv.

Lemma vt_flush_vparser v v' o : vt_flush v = Ok (v', o) -> vparser v' = vparser v.
Proof.
  unfold vt_flush. destruct (changes (vterm v)) as [t ls]. intros E.
  apply bind_ok in E as ([t1 dr] & _ & E). apply Ok_inj in E. injection E as <- _.
  destruct v; reflexivity.
Qed.

Theorem vt_flush_PensInv : forall v v' o,
  PensInv (vterm v) -> vt_flush v = Ok (v', o) -> PensInv (vterm v') /\ lines_wf (o_drained o).
Proof. intros v v' o. rewrite !PensInv_GInv. apply G_vt_flush. Qed.
Print Assumptions vt_flush_PensInv.

Theorem vt_flush_CharsInv : forall v v' o,
  CharsInv (vterm v) -> vt_flush v = Ok (v', o) ->
  CharsInv (vterm v') /\ Forall (fun l => Forall (fun c => ch_ok (ch c)) (cells l)) (o_drained o).
Proof. intros v v' o. rewrite !CharsInv_GInv. apply G_vt_flush. Qed.
Print Assumptions vt_flush_CharsInv.

Lemma vterm_set_vterm v t : vterm (v <| vterm := t |>) = t.
Proof. destruct v; reflexivity. Qed.

Lemma vparser_set_vterm v t : vparser (v <| vterm := t |>) = vparser v.
Proof. destruct v; reflexivity. Qed.

Theorem stepM_PInv : forall v o v' out,
  PInv (vparser v) -> stepM v o = Ok (v', out) -> PInv (vparser v').
Proof.
  intros v o v' out HP E. revert E. destruct o as [c| |c r]; cbn [stepM]; intros E.
  - apply bind_ok in E as (v1 & E1 & E). apply Ok_inj in E. injection E as <- _.
    exact (vt_feed_PInv _ _ _ HP E1).
  - rewrite (vt_flush_vparser _ _ _ E). exact HP.
  - apply bind_ok in E as (t & Et & E). rewrite (vt_flush_vparser _ _ _ E), vparser_set_vterm. exact HP.
Qed.

Theorem stepM_PensInv : forall v o v' out,
  PInv (vparser v) -> PensInv (vterm v) -> stepM v o = Ok (v', out) ->
  PensInv (vterm v') /\ lines_wf (o_drained out).
Proof.
  intros v o v' out HP H E. revert E. destruct o as [c| |c r]; cbn [stepM]; intros E.
  - apply bind_ok in E as (v1 & E1 & E). apply Ok_inj in E. injection E as <- <-.
    split; [exact (vt_feed_PensInv _ _ _ HP H E1)|constructor].
  - exact (vt_flush_PensInv _ _ _ H E).
  - apply bind_ok in E as (t & Et & E). refine (vt_flush_PensInv _ _ _ _ E).
    rewrite vterm_set_vterm. exact (term_resize_PensInv _ _ _ _ H Et).
Qed.
Print Assumptions stepM_PensInv.

Theorem stepM_CharsInv : forall v o v' out,
  PInv (vparser v) -> CharsInv (vterm v) -> stepM v o = Ok (v', out) ->
  CharsInv (vterm v') /\ Forall (fun l => Forall (fun c => ch_ok (ch c)) (cells l)) (o_drained out).
Proof.
  intros v o v' out HP H E. revert E. destruct o as [c| |c r]; cbn [stepM]; intros E.
  - apply bind_ok in E as (v1 & E1 & E). apply Ok_inj in E. injection E as <- <-.
    split; [exact (vt_feed_CharsInv _ _ _ HP H E1)|constructor].
  - exact (vt_flush_CharsInv _ _ _ H E).
  - apply bind_ok in E as (t & Et & E). refine (vt_flush_CharsInv _ _ _ _ E).
    rewrite vterm_set_vterm. exact (term_resize_CharsInv _ _ _ _ H Et).
Qed.
Print Assumptions stepM_CharsInv.

Lemma feed_chars_inv (P : term -> Prop) :
  (forall v c v', PInv (vparser v) -> P (vterm v) -> vt_feed v c = Ok v' -> P (vterm v')) ->
  forall s v v', PInv (vparser v) -> P (vterm v) -> feed_chars v s = Ok v' ->
                 PInv (vparser v') /\ P (vterm v').
Proof.
  intros Hstep. induction s as [|c s IH]; intros v v' HP H E; cbn [feed_chars] in E.
  - apply Ok_inj in E. subst v'. split; assumption.
  - apply bind_ok in E as (v1 & E1 & E).
    exact (IH _ _ (vt_feed_PInv _ _ _ HP E1) (Hstep _ _ _ HP H E1) E).
Qed.

Theorem feed_str_PInv : forall v s v' out,
  PInv (vparser v) -> feed_str v s = Ok (v', out) -> PInv (vparser v').
Proof.
  intros v s v' out HP E. unfold feed_str in E. apply bind_ok in E as (v1 & E1 & E).
  rewrite (vt_flush_vparser _ _ _ E).
  exact (proj1 (feed_chars_inv (fun _ => True) (fun _ _ _ _ _ _ => I) _ _ _ HP I E1)).
Qed.

Theorem feed_str_PensInv : forall v s v' out,
  PInv (vparser v) -> PensInv (vterm v) -> feed_str v s = Ok (v', out) ->
  PensInv (vterm v') /\ lines_wf (o_drained out).
Proof.
  intros v s v' out HP H E. unfold feed_str in E. apply bind_ok in E as (v1 & E1 & E).
  refine (vt_flush_PensInv _ _ _ _ E).
  exact (proj2 (feed_chars_inv PensInv vt_feed_PensInv _ _ _ HP H E1)).
Qed.
Print Assumptions feed_str_PensInv.

Theorem feed_str_CharsInv : forall v s v' out,
  PInv (vparser v) -> CharsInv (vterm v) -> feed_str v s = Ok (v', out) ->
  CharsInv (vterm v') /\ Forall (fun l => Forall (fun c => ch_ok (ch c)) (cells l)) (o_drained out).
Proof.
  intros v s v' out HP H E. unfold feed_str in E. apply bind_ok in E as (v1 & E1 & E).
  refine (vt_flush_CharsInv _ _ _ _ E).
  exact (proj2 (feed_chars_inv CharsInv vt_feed_CharsInv _ _ _ HP H E1)).
Qed.
Print Assumptions feed_str_CharsInv.

Theorem vt_new_PInv : forall c r l, PInv (vparser (vt_new c r l)).
Proof. intros. exact init_parser_PInv. Qed.

Theorem vt_new_PensInv : forall c r l, PensInv (vterm (vt_new c r l)).
Proof. intros c r l. exact (term_new_PensInv c r l). Qed.
Print Assumptions vt_new_PensInv.

Theorem vt_new_CharsInv : forall c r l, CharsInv (vterm (vt_new c r l)).
Proof. intros c r l. exact (term_new_CharsInv c r l). Qed.
Print Assumptions vt_new_CharsInv.

(** every state reachable by [runM] from [vt_new] satisfies all three invariants *)
Theorem runM_invs : forall ops v v',
  PInv (vparser v) -> PensInv (vterm v) -> CharsInv (vterm v) -> runM v ops = Ok v' ->
  PInv (vparser v') /\ PensInv (vterm v') /\ CharsInv (vterm v').
Proof.
  induction ops as [|o ops IH]; intros v v' HP H1 H2 E; cbn [runM] in E.
  - apply Ok_inj in E. subst v'. split; [|split]; assumption.
  - apply bind_ok in E as ([v1 out] & E1 & E). cbn [fst] in E.
    exact (IH _ _ (stepM_PInv _ _ _ _ HP E1) (proj1 (stepM_PensInv _ _ _ _ HP H1 E1))
              (proj1 (stepM_CharsInv _ _ _ _ HP H2 E1)) E).
Qed.
Print Assumptions runM_invs.
