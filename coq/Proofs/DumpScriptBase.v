(** Property C11, terminal level: infrastructure for replaying the script written by
    [Terminal::dump].

    - [R0] = [Rdtg false]: equality of terminals up to dirty flags, lazy-trim flags and
      scrollback limits; [execute] respects it (Proofs/ParamDT.v), so the restored terminal
      can be tracked by an explicit record expression [E];
    - [Sim v E]: the machine [v] has its parser in ground state, satisfies [TInv], and its
      terminal is [R0]-related to [E];
    - [feed_chars_emits], [sim_emits]: a text segment that makes the parser emit the functions
      [fs] moves [Sim v E] to [Sim v' E'] whenever [foldM execute fs E = Ok E'];
    - small facts: [ctx_is_default] is sound, tab stops set in increasing order append. *)

From Coq Require Import Lia ZArith ZifyBool ZifyNat ZifyN.
From Avt Require Import Model.Vt Spec.Screen Oracles.Rel Proofs.Inv Proofs.ParserInv
  Proofs.Tabs Proofs.Frames Proofs.ParamDT Proofs.DumpParserEmits Proofs.PenInv
  Proofs.DumpRowsList Proofs.DumpRowsStep Proofs.DumpRows Proofs.InvStep.
Ltac Zify.zify_post_hook ::= Z.div_mod_to_equations.

Ltac rsimp :=
  cbn [set cols rows buf other active sb_limit cur_col cur_row cur_vis tpen cs0 cs1 acs tabs ins org
       awm nlm ckm pend top bot sctx asctx dirty xtw sc_col sc_row sc_pen sc_origin sc_awm
       lines bcols brows blimit trim_needed vterm vparser].
Ltac rsimp_in H :=
  cbn [set cols rows buf other active sb_limit cur_col cur_row cur_vis tpen cs0 cs1 acs tabs ins org
       awm nlm ckm pend top bot sctx asctx dirty xtw sc_col sc_row sc_pen sc_origin sc_awm
       lines bcols brows blimit trim_needed vterm vparser] in H.

(** * [foldM execute] *)

Lemma foldM_app {A B} (f : A -> B -> res A) (l1 l2 : list B) (a : A) :
  foldM f (l1 ++ l2) a = (a' <- foldM f l1 a ;; foldM f l2 a').
Proof.
  revert a. induction l1 as [|x l1 IH]; intros a; cbn [app foldM bind]; [reflexivity|].
  destruct (f a x) as [a1|s]; cbn [bind]; [apply IH|reflexivity].
Qed.

Lemma foldM_app_ok {A B} (f : A -> B -> res A) (l1 l2 : list B) (a a1 a2 : A) :
  foldM f l1 a = Ok a1 -> foldM f l2 a1 = Ok a2 -> foldM f (l1 ++ l2) a = Ok a2.
Proof. intros H1 H2. rewrite foldM_app, H1. exact H2. Qed.

Lemma foldM_nil {A B} (f : A -> B -> res A) (a : A) : foldM f [] a = Ok a.
Proof. reflexivity. Qed.

Lemma foldM_one {A B} (f : A -> B -> res A) (x : B) (a : A) : foldM f [x] a = f a x.
Proof. cbn [foldM]. destruct (f a x); reflexivity. Qed.

Lemma foldM_cons_ok {A B} (f : A -> B -> res A) (x : B) (l : list B) (a a1 a2 : A) :
  f a x = Ok a1 -> foldM f l a1 = Ok a2 -> foldM f (x :: l) a = Ok a2.
Proof. intros H1 H2. cbn [foldM]. rewrite H1. exact H2. Qed.

(** * the relation *)

Definition R0 : term -> term -> Prop := Rdtg false.

Lemma R0_refl t : R0 t t.
Proof. apply Rdtg_refl. Qed.

Lemma R0_sym a b : R0 a b -> R0 b a.
Proof. apply Rdtg_sym. Qed.

Lemma R0_trans a b c : R0 a b -> R0 b c -> R0 a c.
Proof. apply Rdtg_trans. Qed.

Lemma foldM_R0 fs : forall a b a',
  R0 a b -> foldM execute fs a = Ok a' -> exists b', foldM execute fs b = Ok b' /\ R0 a' b'.
Proof.
  induction fs as [|f fs IH]; intros a b a' HR E; cbn [foldM] in *.
  - injection E as <-. exists b. split; [reflexivity|exact HR].
  - apply bind_ok in E as (a1 & E1 & E).
    destruct (execute_Rdtg false a b f a1 HR E1) as (b1 & F1 & HR1).
    rewrite F1. cbn [bind]. exact (IH a1 b1 a' HR1 E).
Qed.

(** replacing the bookkeeping fields *)
Lemma RB_false_intro a b :
  lines a = lines b -> bcols a = bcols b -> brows a = brows b -> RB false a b.
Proof. intros H1 H2 H3. constructor; try assumption. intros X; discriminate X. Qed.

Lemma R0_set_dirty t d : length d = length (dirty t) -> R0 (t <| dirty := d |>) t.
Proof.
  intros H. constructor; rsimp; try reflexivity; try apply RB_refl; try apply leq_refl. exact H.
Qed.

Lemma R0_set_buf t b : RB false b (buf t) -> R0 (t <| buf := b |>) t.
Proof.
  intros H. constructor; rsimp; try reflexivity; try apply RB_refl; try apply leq_refl. exact H.
Qed.

(** * the simulation *)

Definition Sim (v : vt) (E : term) : Prop :=
  GroundP (vparser v) /\ TInv (vterm v) /\ R0 (vterm v) E.

Lemma Sim_R0 v E E' : Sim v E -> R0 E E' -> Sim v E'.
Proof. intros (HP & HT & HR) H. split; [exact HP|split; [exact HT|exact (R0_trans _ _ _ HR H)]]. Qed.

Lemma Sim_dirty v E : Sim v E -> length (dirty E) = rows E.
Proof.
  intros (_ & HT & HR). rewrite <- (rd_dirty _ _ _ HR), <- (rd_rows _ _ _ HR). apply (ti_dirty _ HT).
Qed.

Lemma feed_chars_emits s fs v :
  emits s fs -> GroundP (vparser v) ->
  exists p', GroundP p'
    /\ feed_chars v s = (t' <- foldM execute fs (vterm v) ;; Ok (mkVt p' t')).
Proof.
  intros He [HP HG]. destruct (He _ HP HG) as (p' & R & G' & I').
  rewrite runP_char in R by exact HP. apply Ok_inj in R.
  exists p'. split; [split; assumption|].
  rewrite (feed_chars_run s v HP).
  replace (run_emit (vparser v) s) with fs by (injection R; intros; congruence).
  replace (run_step (vparser v) s) with p' by (injection R; intros; congruence).
  reflexivity.
Qed.

Theorem sim_emits s fs v E E' :
  emits s fs -> Sim v E -> foldM execute fs E = Ok E' ->
  exists v', feed_chars v s = Ok v' /\ Sim v' E'.
Proof.
  intros He (HP & HT & HR) HE.
  destruct (feed_chars_emits s fs v He HP) as (p' & HP' & F).
  destruct (foldM_R0 fs E (vterm v) E' (R0_sym _ _ HR) HE) as (u' & Fu & HR').
  rewrite Fu in F. cbn [bind] in F.
  exists (mkVt p' u'). split; [exact F|].
  split; [exact HP'|]. split; [|exact (R0_sym _ _ HR')].
  destruct (feed_chars_Inv s v (conj (proj1 HP) HT)) as (v1 & F1 & _ & HT1).
  rewrite F in F1. injection F1 as <-. exact HT1.
Qed.

Lemma sim_app s1 s2 v v1 v2 :
  feed_chars v s1 = Ok v1 -> feed_chars v1 s2 = Ok v2 -> feed_chars v (s1 ++ s2) = Ok v2.
Proof. intros H1 H2. rewrite feed_chars_app, H1. exact H2. Qed.

(** * saved contexts *)

Lemma pen_is_default_eq p : pen_is_default p = true -> p = default_pen.
Proof. unfold pen_is_default. apply dr_pen_eqb_eq. Qed.

Lemma ctx_is_default_eq c : ctx_is_default c = true -> c = default_ctx.
Proof.
  destruct c as [cc cr p o a]. unfold ctx_is_default. cbn [sc_col sc_row sc_pen sc_origin sc_awm].
  intros H. repeat (apply andb_prop in H as [H ?]).
  apply pen_is_default_eq in H2. apply Nat.eqb_eq in H, H3.
  destruct o, a; try discriminate. subst. reflexivity.
Qed.

Lemma clamp_default c r : clamp_ctx default_ctx c r = default_ctx.
Proof. reflexivity. Qed.

Lemma clamp_clamp s c r : clamp_ctx (clamp_ctx s c r) c r = clamp_ctx s c r.
Proof.
  destruct s as [sc sr sp so sa]. unfold clamp_ctx, set. cbn -[Nat.min Nat.sub]. f_equal; lia.
Qed.

(** * tab stops set in increasing order *)

Lemma tabs_set_snoc p : forall l, Forall (fun x => x < p) l -> tabs_set p l = l ++ [p].
Proof.
  induction l as [|a l IH]; intros H; [reflexivity|].
  inversion H as [|? ? Ha Hl]; subst. cbn [tabs_set app].
  destruct (Nat.ltb_spec p a); [lia|]. destruct (Nat.eqb_spec p a); [lia|].
  rewrite IH by exact Hl. reflexivity.
Qed.

Lemma sorted_lt_snoc_lt : forall l a, sorted_lt (l ++ [a]) -> Forall (fun x => x < a) l.
Proof.
  induction l as [|b l IH]; intros a H; [constructor|].
  cbn [app] in H. apply sorted_lt_cons_iff in H as [HF HS].
  constructor; [|apply IH; exact HS].
  rewrite Forall_forall in HF. apply HF. apply in_or_app. right. left. reflexivity.
Qed.

Lemma sorted_lt_app_l : forall l1 l2, sorted_lt (l1 ++ l2) -> sorted_lt l1.
Proof.
  induction l1 as [|a l1 IH]; intros l2 H; [exact I|].
  cbn [app] in H. apply sorted_lt_cons_iff in H as [HF HS]. apply sorted_lt_cons_iff.
  split; [|exact (IH _ HS)]. apply Forall_app in HF. apply HF.
Qed.

Print Assumptions sim_emits.
Print Assumptions ctx_is_default_eq.
