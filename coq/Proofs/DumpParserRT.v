(** Property C11, parser level: [Parser::dump] written to a fresh parser restores the
    observable parser state ([C11_parser]), for every reachable parser.  "Reachable" is the
    invariant [PReach] (what [inter] can be in each state, and no ':' sub-parameters inside
    DCS parameters), proved here to hold initially and to be preserved by every step. *)

From Avt Require Import Model.Parser Spec.Williams Oracles.Rel Proofs.Inv Proofs.ParserTable
  Proofs.ParserInv Proofs.ParserSim Proofs.DumpParser.
Require Import Lia ZArith ZifyBool ZifyNat ZifyN.
Local Open Scope N_scope.
Ltac Zify.zify_post_hook ::= Z.div_mod_to_equations.

#[local] Arguments N.add : simpl never.
#[local] Arguments N.sub : simpl never.
#[local] Arguments N.mul : simpl never.
#[local] Arguments N.eqb : simpl never.
#[local] Arguments N.ltb : simpl never.
#[local] Arguments N.leb : simpl never.
#[local] Arguments N.modulo : simpl never.
#[local] Arguments N.div : simpl never.

(** * the reachability invariant *)

(** class of the stored intermediate: none / intermediate 0x20..0x2F / private marker 0x3C..0x3F / other *)
Definition icls (i : option N) : nat :=
  match i with
  | None => 0
  | Some c => if (32 <=? c) && (c <=? 47) then 1 else if (60 <=? c) && (c <=? 63) then 2 else 3
  end.

Definition inter_okc (s : pstate) (k : nat) : bool :=
  match s with
  | EscapeIntermediate | CsiIntermediate | DcsIntermediate => (k =? 1)%nat
  | CsiEntry | DcsEntry => (k =? 0)%nat
  | CsiParam | DcsParam => (k =? 0)%nat || (k =? 2)%nat
  | DcsPassthrough => negb (k =? 3)%nat
  | _ => true
  end.

(** DCS parameters never have sub-parameters (':' aborts the DCS) *)
Definition dcs_flat (s : pstate) : bool :=
  match s with DcsEntry | DcsParam => true | _ => false end.

Definition PReach (p : parser) : Prop :=
  inter_okc (pst p) (icls (inter p)) = true
  /\ (dcs_flat (pst p) = true -> Forall (fun q => cur_part q = 0%nat) (params p)).

Lemma init_parser_PReach : PReach init_parser.
Proof. split; [reflexivity|]. discriminate. Qed.

(** what the table has to satisfy *)
Definition reach_row (s : pstate) (c : N) : bool :=
  let t := williams s c in
  (if t_clear t then inter_okc (t_next t) 0
   else match t_kind t with
        | KCollect => (c <? 160) && inter_okc (t_next t) (icls (Some c))
        | _ => forallb (fun k => implb (inter_okc s k) (inter_okc (t_next t) k)) [0; 1; 2; 3]%nat
        end)
  && implb (dcs_flat (t_next t))
       (t_clear t
        || (dcs_flat s && match t_kind t with KParam => negb (c =? 58) | _ => true end)).

Lemma reach_sweep :
  forallb (fun s => forallb (reach_row s) (codes_upto 161)) all_pstates = true.
Proof. vm_compute. reflexivity. Qed.

Lemma reach_row_all s c : reach_row s c = true.
Proof.
  pose proof reach_sweep as F. rewrite forallb_forall in F.
  specialize (F s (all_pstates_complete s)). rewrite forallb_forall in F.
  destruct (N.lt_ge_cases c 160) as [H|H].
  - apply F. apply codes_upto_complete. cbn. lia.
  - assert (E : reach_row s c = reach_row s 160).
    { unfold reach_row. rewrite (williams_high s c H).
      replace (c <? 160) with false by lia. replace (c =? 58) with false by lia.
      change (160 <? 160) with false. change (160 =? 58) with false. reflexivity. }
    rewrite E. apply F. apply codes_upto_complete. cbn. lia.
Qed.

Lemma icls_range i : In (icls i) [0; 1; 2; 3]%nat.
Proof.
  destruct i as [c|]; cbn [icls In]; [|auto].
  destruct ((32 <=? c) && (c <=? 47)); [auto|]. destruct ((60 <=? c) && (c <=? 63)); auto.
Qed.

Lemma params_set_pst p s : params (p <| pst := s |>) = params p.
Proof. reflexivity. Qed.

Lemma param_step_flat p c :
  c <> 58 -> Forall (fun q => cur_part q = 0%nat) (params p) ->
  Forall (fun q => cur_part q = 0%nat) (params (param_step p c)).
Proof.
  intros Hc HF. unfold param_step, PARAM_SEP, PART_SEP.
  destruct (c =? 59); [exact HF|]. replace (c =? 58) with false by lia.
  change (params (p <| params := ?x |>)) with x.
  apply Forall_upd; [exact HF|]. intros q Hq. exact Hq.
Qed.

Theorem feed_step_PReach : forall p c, PInv p -> PReach p -> PReach (feed_step p c).
Proof.
  intros p c HP [HI HD]. pose proof (reach_row_all (pst p) c) as R. unfold reach_row in R.
  cbv zeta in R. apply andb_prop in R as [R1 R2].
  unfold PReach. rewrite feed_step_pst, feed_step_inter. cbv zeta.
  unfold feed_step. rewrite params_set_pst.
  destruct (t_clear (williams (pst p) c)) eqn:C.
  - split; [exact R1|]. intros _. rewrite clear_params by exact HP.
    apply Forall_forall. intros q Hq. apply repeat_spec in Hq. now subst q.
  - cbn [orb] in R2.
    assert (FL : dcs_flat (t_next (williams (pst p) c)) = true ->
                 dcs_flat (pst p) = true
                 /\ match t_kind (williams (pst p) c) with KParam => negb (c =? 58) | _ => true end = true).
    { intros D. rewrite D in R2. cbn [implb] in R2. now apply andb_prop in R2. }
    destruct (t_kind (williams (pst p) c)) eqn:K.
    all: try (split; [ rewrite forallb_forall in R1; specialize (R1 _ (icls_range (inter p)));
                        rewrite HI in R1; exact R1
                      | intros D; apply HD; now apply FL ]).
    + (* collect *) apply andb_prop in R1 as [_ R1]. split; [exact R1|].
      intros D. apply HD. now apply FL.
    + (* param *) split.
      * rewrite forallb_forall in R1. specialize (R1 _ (icls_range (inter p))).
        rewrite HI in R1. exact R1.
      * intros D. destruct (FL D) as [D1 D2]. apply param_step_flat; [lia|now apply HD].
Qed.
Print Assumptions feed_step_PReach.

Theorem run_step_PReach : forall s p, PInv p -> PReach p -> PReach (run_step p s).
Proof.
  induction s as [|c r IH]; intros p HP HR; cbn [run_step]; [exact HR|].
  apply IH; [now apply feed_step_inv|now apply feed_step_PReach].
Qed.

(** every parser reached from the initial one satisfies both invariants *)
Theorem reachable_PReach : forall s p fs,
  runP init_parser s = Ok (p, fs) -> PInv p /\ PReach p.
Proof.
  intros s p fs R. rewrite runP_char in R by apply init_parser_PInv.
  injection R as <- _. split.
  - apply run_step_inv, init_parser_PInv.
  - apply run_step_PReach; [apply init_parser_PInv|apply init_parser_PReach].
Qed.
Print Assumptions reachable_PReach.

(** * the round trip *)

Lemma opt_eqb_N_refl (i : option N) : opt_eqb N.eqb i i = true.
Proof. destruct i as [c|]; [apply N.eqb_refl|reflexivity]. Qed.

Lemma list_eqb_N_refl (l : list N) : list_eqb N.eqb l l = true.
Proof. induction l as [|x l IH]; [reflexivity|]. cbn [list_eqb]. now rewrite N.eqb_refl, IH. Qed.

Lemma list_list_eqb_N_refl (l : list (list N)) : list_eqb (list_eqb N.eqb) l l = true.
Proof. induction l as [|x l IH]; [reflexivity|]. cbn [list_eqb]. now rewrite list_eqb_N_refl, IH. Qed.

Lemma icls_0 i : icls i = 0%nat -> i = None.
Proof.
  destruct i as [c|]; [|reflexivity]. cbn [icls].
  destruct ((32 <=? c) && (c <=? 47)); [discriminate|].
  destruct ((60 <=? c) && (c <=? 63)); discriminate.
Qed.

Lemma icls_1 i : icls i = 1%nat -> exists c, i = Some c /\ 32 <= c <= 47.
Proof.
  destruct i as [c|]; [|discriminate]. cbn [icls].
  destruct ((32 <=? c) && (c <=? 47)) eqn:E; [intros _; exists c; split; [reflexivity|lia]|].
  destruct ((60 <=? c) && (c <=? 63)); discriminate.
Qed.

Lemma icls_2 i : icls i = 2%nat -> exists c, i = Some c /\ 60 <= c <= 63.
Proof.
  destruct i as [c|]; [|discriminate]. cbn [icls].
  destruct ((32 <=? c) && (c <=? 47)) eqn:E; [discriminate|].
  destruct ((60 <=? c) && (c <=? 63)) eqn:E2; [intros _; exists c; split; [reflexivity|lia]|discriminate].
Qed.

(** sequences [pre ++ c :: post] with [c] from a small range, checked by computation *)
Definition rt_ok (s : pstate) (pre : list N) (c : N) (post : list N) : bool :=
  let q := run_step init_parser (pre ++ c :: post) in
  pstate_eqb (pst q) s && opt_eqb N.eqb (inter q) (Some c)
  && match run_emit init_parser (pre ++ c :: post) with [] => true | _ => false end.

Definition rt_range (s : pstate) (pre post : list N) (lo hi : N) : bool :=
  (hi <? 64)
  && forallb (fun c => implb ((lo <=? c) && (c <=? hi)) (rt_ok s pre c post)) (codes_upto 64).

Lemma pstate_eqb_eq a b : pstate_eqb a b = true -> a = b.
Proof. destruct a, b; cbn; congruence. Qed.

Lemma rt_range_spec s pre post lo hi :
  rt_range s pre post lo hi = true -> forall c, lo <= c <= hi ->
  exists p', runP init_parser (pre ++ c :: post) = Ok (p', [])
    /\ pst p' = s /\ inter p' = Some c.
Proof.
  unfold rt_range. intros H c Hc. apply andb_prop in H as [Hh H].
  rewrite forallb_forall in H. specialize (H c).
  assert (Hin : In c (codes_upto 64)) by (apply codes_upto_complete; cbn; lia).
  specialize (H Hin). replace ((lo <=? c) && (c <=? hi)) with true in H by lia.
  cbn [implb] in H. unfold rt_ok in H. cbv zeta in H.
  apply andb_prop in H as [H H3]. apply andb_prop in H as [H1 H2].
  exists (run_step init_parser (pre ++ c :: post)).
  rewrite runP_char by apply init_parser_PInv.
  destruct (run_emit init_parser (pre ++ c :: post)); [|discriminate H3].
  split; [reflexivity|]. split; [now apply pstate_eqb_eq|].
  destruct (inter (run_step init_parser (pre ++ c :: post))) as [c'|]; [|discriminate H2].
  cbn [opt_eqb] in H2. apply N.eqb_eq in H2. now subst c'.
Qed.

(** ** parameters *)

Lemma pparts_mk_param c : c <> [] -> pparts (mk_param c) = c.
Proof.
  intros NE. unfold pparts, mk_param. cbn [cur_part parts].
  assert (0 < length c)%nat by (destruct c; [congruence|cbn [length]; lia]).
  replace (S (length c - 1)) with (length c + 0)%nat by lia.
  rewrite firstn_app_2. cbn [firstn]. apply app_nil_r.
Qed.

Lemma obs_params_fin s pss i :
  pss <> [] -> Forall (fun c => c <> []) pss -> obs_params (pst_fin s pss i) = pss.
Proof.
  intros NE HF. unfold obs_params, pst_fin, csi_params. cbn [cur_param params].
  assert (0 < length pss)%nat by (destruct pss; [congruence|cbn [length]; lia]).
  replace (S (length pss - 1)) with (length (map mk_param pss) + 0)%nat by (rewrite map_length; lia).
  rewrite firstn_app_2. cbn [firstn]. rewrite app_nil_r, map_map.
  rewrite <- (map_id pss) at 2. apply map_ext_in. intros c Hc. apply pparts_mk_param.
  rewrite Forall_forall in HF. now apply HF.
Qed.

Lemma params_str_body p : params_str p = params_body (obs_params p).
Proof. unfold params_str, params_body, obs_params. rewrite map_map. reflexivity. Qed.

Lemma inter_str_opt p : inter_str p = opt_to_list (inter p).
Proof. unfold inter_str. destruct (inter p); reflexivity. Qed.

Lemma pparts_ok k q :
  ParamInv q -> (k = PDcs -> cur_part q = 0%nat) -> parts_ok k (pparts q).
Proof.
  intros (L & C & F & _) HK. unfold parts_ok, pparts, MAX_PARAM_LEN in *.
  rewrite firstn_length, L. split; [lia|]. split.
  - apply Forall_forall. intros x Hx. rewrite Forall_forall in F. apply F.
    eapply firstn_In; exact Hx.
  - destruct k; [exact I|]. rewrite (HK eq_refl). reflexivity.
Qed.

Lemma obs_params_ok k p :
  PInv p -> (k = PDcs -> Forall (fun q => cur_part q = 0%nat) (params p)) ->
  obs_params p <> [] /\ (length (obs_params p) <= 32)%nat
  /\ Forall (parts_ok k) (obs_params p).
Proof.
  intros (L & C & F & _) HK. unfold obs_params, PARAMS_LEN in *.
  rewrite map_length, firstn_length, L. split; [|split; [lia|]].
  - destruct (params p) as [|q l]; [discriminate L|]. cbn [firstn map]. discriminate.
  - apply Forall_map. apply Forall_forall. intros q Hq. apply firstn_In in Hq.
    apply pparts_ok.
    + rewrite Forall_forall in F. now apply F.
    + intros E. specialize (HK E). rewrite Forall_forall in HK. now apply HK.
Qed.

Lemma parts_ok_nonempty k pss : Forall (parts_ok k) pss -> Forall (fun c => c <> []) pss.
Proof.
  intros H. apply Forall_impl with (2 := H). intros c (L & _) ->. cbn in L. lia.
Qed.

(** the parameter states: introducer, marker, parameters *)
Lemma param_state_rt k p :
  PInv p -> PReach p -> pst p = k_param k ->
  exists p', runP init_parser (k_intro k :: inter_str p ++ params_str p) = Ok (p', [])
    /\ pst p' = k_param k /\ inter p' = inter p /\ obs_params p' = obs_params p.
Proof.
  intros HP [HI HD] HS. rewrite HS in HI, HD.
  assert (HM : marker_ok (inter p)).
  { destruct k; cbn [k_param inter_okc] in HI; apply orb_prop in HI as [HI|HI].
    all: apply Nat.eqb_eq in HI.
    all: try (rewrite (icls_0 _ HI); exact I).
    all: destruct (icls_2 _ HI) as (c & -> & Hc); exact Hc. }
  destruct (obs_params_ok k p HP) as (NE & HL & HF).
  { intros ->. apply HD. reflexivity. }
  pose proof (entry_quiet k (inter p) (obs_params p) HM NE HF HL) as Q2.
  destruct (intro_step k init_parser init_parser_PInv) as [E1 S1].
  pose proof (quiet_one _ _ _ E1 S1) as Q1.
  destruct (quiet_app _ _ _ _ _ Q1 Q2) as [QS QE].
  rewrite inter_str_opt, params_str_body.
  exists (pst_fin (k_param k) (obs_params p) (inter p)).
  rewrite runP_char by apply init_parser_PInv.
  cbn [app] in QS, QE. rewrite QS, QE.
  split; [reflexivity|]. split; [reflexivity|]. split; [reflexivity|].
  apply obs_params_fin; [exact NE|]. now apply (parts_ok_nonempty k).
Qed.

Ltac closed_rt HS :=
  eexists; split;
  [ rewrite runP_char by apply init_parser_PInv; vm_compute; reflexivity
  | unfold obs_eqb_parser; rewrite HS; reflexivity ].

Theorem C11_parser : forall p,
  PInv p -> PReach p ->
  exists p', runP init_parser (parser_dump p) = Ok (p', []) /\ obs_eqb_parser p p' = true.
Proof.
  intros p HP HR. pose proof HR as [HI _].
  unfold parser_dump. destruct (pst p) eqn:HS.
  - (* Ground *) closed_rt HS.
  - (* Escape *) closed_rt HS.
  - (* EscapeIntermediate *)
    cbn [inter_okc] in HI. apply Nat.eqb_eq in HI. destruct (icls_1 _ HI) as (c & Ei & Hc).
    rewrite inter_str_opt, Ei. cbn [opt_to_list].
    destruct (rt_range_spec EscapeIntermediate [27] [] 32 47 ltac:(vm_compute; reflexivity) c Hc)
      as (p' & R & S' & I').
    exists p'. split; [exact R|]. unfold obs_eqb_parser. rewrite HS, S', Ei, I'.
    cbn [pstate_eqb opt_eqb andb]. apply N.eqb_refl.
  - (* CsiEntry *) closed_rt HS.
  - (* CsiParam *)
    destruct (param_state_rt PCsi p HP HR HS) as (p' & R & S' & I' & O').
    exists p'. split; [exact R|]. unfold obs_eqb_parser. rewrite HS, S', I', O'.
    cbn [k_param pstate_eqb andb]. now rewrite opt_eqb_N_refl, list_list_eqb_N_refl.
  - (* CsiIntermediate *)
    cbn [inter_okc] in HI. apply Nat.eqb_eq in HI. destruct (icls_1 _ HI) as (c & Ei & Hc).
    rewrite inter_str_opt, Ei. cbn [opt_to_list].
    destruct (rt_range_spec CsiIntermediate [155] [] 32 47 ltac:(vm_compute; reflexivity) c Hc)
      as (p' & R & S' & I').
    exists p'. split; [exact R|]. unfold obs_eqb_parser. rewrite HS, S', Ei, I'.
    cbn [pstate_eqb opt_eqb andb]. apply N.eqb_refl.
  - (* CsiIgnore *) closed_rt HS.
  - (* DcsEntry *) closed_rt HS.
  - (* DcsParam *)
    destruct (param_state_rt PDcs p HP HR HS) as (p' & R & S' & I' & O').
    exists p'. split; [exact R|]. unfold obs_eqb_parser. rewrite HS, S', I', O'.
    cbn [k_param pstate_eqb andb]. now rewrite opt_eqb_N_refl, list_list_eqb_N_refl.
  - (* DcsIntermediate *)
    cbn [inter_okc] in HI. apply Nat.eqb_eq in HI. destruct (icls_1 _ HI) as (c & Ei & Hc).
    rewrite inter_str_opt, Ei. cbn [opt_to_list].
    destruct (rt_range_spec DcsIntermediate [144] [] 32 47 ltac:(vm_compute; reflexivity) c Hc)
      as (p' & R & S' & I').
    exists p'. split; [exact R|]. unfold obs_eqb_parser. rewrite HS, S', Ei, I'.
    cbn [pstate_eqb opt_eqb andb]. apply N.eqb_refl.
  - (* DcsPassthrough *)
    cbn [inter_okc] in HI. rewrite inter_str_opt.
    pose proof (icls_range (inter p)) as IR. cbn [In] in IR.
    destruct IR as [IR|[IR|[IR|[IR|[]]]]]; symmetry in IR.
    + rewrite (icls_0 _ IR). cbn [opt_to_list app]. closed_rt HS.
    + destruct (icls_1 _ IR) as (c & Ei & Hc). rewrite Ei. cbn [opt_to_list app].
      destruct (rt_range_spec DcsPassthrough [144] [64] 32 47 ltac:(vm_compute; reflexivity) c Hc)
        as (p' & R & S' & _).
      exists p'. split; [exact R|]. unfold obs_eqb_parser. rewrite HS, S'. reflexivity.
    + destruct (icls_2 _ IR) as (c & Ei & Hc). rewrite Ei. cbn [opt_to_list app].
      destruct (rt_range_spec DcsPassthrough [144] [64] 60 63 ltac:(vm_compute; reflexivity) c Hc)
        as (p' & R & S' & _).
      exists p'. split; [exact R|]. unfold obs_eqb_parser. rewrite HS, S'. reflexivity.
    + rewrite IR in HI. discriminate HI.
  - (* DcsIgnore *) closed_rt HS.
  - (* OscString *) closed_rt HS.
  - (* SosPmApcString *) closed_rt HS.
Qed.
Print Assumptions C11_parser.

(** the same for every parser reached from the initial one by feeding characters *)
Corollary C11_parser_reachable : forall s p fs,
  runP init_parser s = Ok (p, fs) ->
  exists p', runP init_parser (parser_dump p) = Ok (p', []) /\ obs_eqb_parser p p' = true.
Proof. intros s p fs R. destruct (reachable_PReach s p fs R). now apply C11_parser. Qed.
Print Assumptions C11_parser_reachable.

(** * [PInv] alone is not enough: parsers that no input reaches are not restored *)

Definition rt_fails (p : parser) : bool :=
  match runP init_parser (parser_dump p) with
  | Ok (p', _) => negb (obs_eqb_parser p p')
  | Panic _ => true
  end.

(** EscapeIntermediate without a stored intermediate: the dump is just ESC *)
Example unreachable_esc_inter :
  let p := mkParser EscapeIntermediate (repeat default_param PARAMS_LEN) 0 None in
  PInv p /\ ~ PReach p /\ rt_fails p = true.
Proof.
  cbv zeta. split; [apply PInv_repeat; unfold PARAMS_LEN; lia|].
  split; [intros [H _]; discriminate H|vm_compute; reflexivity].
Qed.

(** CsiParam with a non-marker intermediate: "CSI SP 0" ends in CsiIgnore *)
Example unreachable_csi_param :
  let p := mkParser CsiParam (repeat default_param PARAMS_LEN) 0 (Some 32) in
  PInv p /\ ~ PReach p /\ rt_fails p = true.
Proof.
  cbv zeta. split; [apply PInv_repeat; unfold PARAMS_LEN; lia|].
  split; [intros [H _]; discriminate H|vm_compute; reflexivity].
Qed.

(** DcsPassthrough with intermediate ':' : "DCS : @" ends in DcsIgnore *)
Example unreachable_dcs_pass :
  let p := mkParser DcsPassthrough (repeat default_param PARAMS_LEN) 0 (Some 58) in
  PInv p /\ ~ PReach p /\ rt_fails p = true.
Proof.
  cbv zeta. split; [apply PInv_repeat; unfold PARAMS_LEN; lia|].
  split; [intros [H _]; discriminate H|vm_compute; reflexivity].
Qed.
