(** C16: the text of the primary screen on return from the alternate screen, after any resize, for every scrollback
    limit and every DECRST mode list ([holds_C16_return_text] of Oracles/C16Text.v), and the excursion-level
    corollaries.  Closes the audit's global gaps 1 and 9 and the C16 clauses 5, 6, 7.

    Where the limit goes: [execute] never trims ([buf_gc] is only called by [term_gc], i.e. at the end of
    [feed_str] / [resize]), and the re-wrap of the parked primary happens inside [execute]; so nothing below
    mentions [sb_limit].

    Which cursor: [switch_to_primary_buffer] swaps the buffers and the saved contexts but NOT the cursor, so
    [Decrst [AltScreenBuffer]] hands the alternate screen's cursor [(cur_col t, cur_row t)] (inside the CURRENT
    size, possibly outside the parked one) to [buf_resize (other t)].  Inside [buf_resize] the row is clamped by
    [logical_position] / [relative_position]; in the vocabulary of Spec/Logical.v the clamp is what [curs]
    does with a row beyond the end: logical line [length L], "after the last line" ([curs_below]).
    [Decrst [SaveCursorAltScreenBuffer]] restores the saved cursor first, which lies inside the parked view
    ([ti_parked]). *)

From Coq Require Import Lia ZArith ZifyBool ZifyNat ZifyN.
From Avt Require Import Oracles.Step Oracles.Rel Oracles.C16Text Spec.Logical Spec.Eqb Proofs.Inv Proofs.TermEasy
  Proofs.Frames Proofs.ReflowCore Proofs.Resize Proofs.ReflowText Proofs.ResizeText Proofs.StepC17 Proofs.StepC16
  Proofs.StepC16R Proofs.InvTerm Proofs.InvStep.
Import ListNotations.
Ltac Zify.zify_post_hook ::= Z.div_mod_to_equations.

(** * 1. The boolean vocabulary *)

Lemma all_empty_tail_ok new : forall old, all_empty new = true -> tail_ok new old = true.
Proof.
  induction new as [|x new IH]; intros old H; [reflexivity|].
  unfold all_empty in H. cbn [forallb] in H. apply andb_prop in H as [Hx Hn].
  destruct x as [|c x]; [|discriminate].
  destruct old as [|y old]; cbn [tail_ok].
  - unfold all_empty. cbn [forallb andb]. exact Hn.
  - destruct (cells_eqb [] y); [apply IH; exact Hn|]. cbn [is_prefix andb]. exact Hn.
Qed.

(** the cursor-free statement in the shape of [resize_preserves]: there is a [k] ... *)
Lemma tail_ok_text_at : forall L' L,
  tail_ok L' L = true -> exists k, k <= length L /\ text_at L L' k = true.
Proof.
  induction L' as [|x new IH]; intros L H.
  - exists 0. split; [lia|]. destruct L; reflexivity.
  - destruct L as [|y old].
    + cbn [tail_ok] in H. exists 0. split; [cbn [length]; lia|].
      unfold all_empty in H. cbn [forallb] in H. apply andb_prop in H as [Hx Hn].
      destruct x as [|c x]; [|discriminate].
      unfold text_at. cbn [firstn nth skipn list_eqb is_prefix andb]. rewrite tail_ok_nil_r. exact Hn.
    + cbn [tail_ok] in H. destruct (cells_eqb x y) eqn:Exy.
      * destruct (IH old H) as (k & Hk & T). exists (S k). split; [cbn [length]; lia|].
        unfold text_at in *. cbn [firstn nth skipn list_eqb]. rewrite Exy. exact T.
      * apply andb_prop in H as [Hp He]. exists 0. split; [lia|].
        unfold text_at. cbn [firstn nth skipn list_eqb andb]. rewrite Hp. cbn [andb].
        apply all_empty_tail_ok. exact He.
Qed.

Lemma return_text_ok_intro L L' : tail_ok L' L = true -> return_text_ok L L' = true.
Proof.
  intros H. unfold return_text_ok. rewrite H. cbn [andb]. apply existsb_exists.
  destruct (tail_ok_text_at L' L H) as (k & Hk & T). exists k. split; [apply in_seq; lia|exact T].
Qed.

Lemma text_ok_upto L L' k o : text_ok L L' k o -> text_upto L L' k o = true.
Proof.
  unfold text_ok, text_upto, text_at. cbv zeta. intros (T1 & T2 & T3 & T4).
  rewrite T1, T2, T3, T4. reflexivity.
Qed.

Lemma nth_repeat_nil {A} n k : nth k (repeat (@nil A) n) [] = [].
Proof. revert k. induction n as [|n IH]; intros [|k]; cbn [repeat nth]; auto. Qed.

Lemma all_empty_skipn n l : all_empty l = true -> all_empty (skipn n l) = true.
Proof. unfold all_empty. apply forallb_skipn'. Qed.

(** only empty logical lines appended: every clause holds at [k = length L] *)
Lemma text_upto_ext L n o : text_upto L (L ++ repeat [] n) (length L) o = true.
Proof.
  unfold text_upto, text_at. cbv zeta.
  rewrite firstn_app, Nat.sub_diag, !firstn_all. cbn [firstn]. rewrite app_nil_r, ll_eqb_refl.
  rewrite (nth_overflow L) by lia. rewrite app_nth2, Nat.sub_diag, nth_repeat_nil by lia.
  cbn [is_prefix length andb]. rewrite Nat.min_0_r. cbn [firstn].
  rewrite (skipn_all2 L) by lia. rewrite tail_ok_nil_r.
  rewrite skipn_app, (skipn_all2 L) by lia. cbn [app].
  rewrite all_empty_skipn by apply all_empty_repeat. reflexivity.
Qed.

(** * 2. Cursor-free: whatever cursor [buf_resize] is called with, when it returns the new logical lines are the old
    ones, cut at one place at most (rows are only ever removed from the bottom, by phase 3) *)

Lemma phase2_logical b nc cc cr lc lr ls1 cc1 cr1 r1 :
  BInv b -> 1 <= nc -> resize_phase2 b nc cc cr lc lr = Ok (ls1, cc1, cr1, r1) ->
  exists n1, logical_t ls1 = logical_t (lines b) ++ repeat [] n1.
Proof.
  intros HI Hnc. pose proof HI as (_ & Hlnw). unfold resize_phase2.
  destruct (nc =? bcols b); cbn [negb].
  - intros [= <- _ _ _]. exists 0. cbn [repeat]. rewrite app_nil_r. reflexivity.
  - destruct (reflowM (lines b) nc) as [out|p] eqn:Eo; cbn [bind]; [|discriminate].
    destruct (reflow_total (lines b) nc Hnc) as (out' & Eo' & _ & _ & Lo).
    rewrite Eo in Eo'. injection Eo' as <-. specialize (Lo Hlnw).
    pose proof (reflow_logical _ _ _ Hnc Hlnw Eo) as Tx.
    set (ls := if length out <? brows b then _ else out).
    assert (P : exists n1, ls = out ++ repeat (blank_line nc default_pen) n1).
    { unfold ls. destruct (length out <? brows b).
      - eexists. reflexivity.
      - exists 0. cbn [repeat]. rewrite app_nil_r. reflexivity. }
    clearbody ls. destruct P as (n1 & ->).
    destruct (relative_position _ lc lr nc (brows b)) as [[rc rr]|p]; cbn [bind]; [|discriminate].
    destruct (0 <=? rr)%Z; intros [= <- _ _ _]; exists n1;
      rewrite logical_t_pad by exact Lo; rewrite Tx; reflexivity.
Qed.

(** the height does not shrink below the (translated) old height: rows are only appended *)
Lemma phase3_grow nc nr ls1 cr1 r1 ls2 cr2 :
  r1 <= nr -> resize_phase3 nc nr ls1 cr1 r1 = Ok (ls2, cr2) ->
  exists n, ls2 = ls1 ++ repeat (blank_line nc default_pen) n.
Proof.
  intros Hle. unfold resize_phase3. destruct (Nat.compare_spec nr r1) as [Heq|Hlt|Hgt]; [|lia|].
  - intros [= <- _]. exists 0. cbn [repeat]. rewrite app_nil_r. reflexivity.
  - intros [= <- _].
    match goal with |- context [if ?c then _ else _] => destruct c end.
    + eexists. reflexivity.
    + exists 0. cbn [repeat]. rewrite app_nil_r. reflexivity.
Qed.

Lemma phase3_shape nc nr ls1 cr1 r1 ls2 cr2 :
  1 <= nr -> r1 <= length ls1 ->
  resize_phase3 nc nr ls1 cr1 r1 = Ok (ls2, cr2) ->
  (exists n, ls2 = ls1 ++ repeat (blank_line nc default_pen) n) \/
  (exists A x B, ls1 = A ++ x :: B /\ ls2 = A ++ [x <| wrapped := false |>]).
Proof.
  intros Hnr Hlen E. destruct (Nat.lt_ge_cases cr1 r1) as [Hlt|Hge].
  - destruct (phase3_text nc nr ls1 cr1 r1 ls2 cr2 Hnr Hlen Hlt E)
      as (_ & _ & [S|(A & x & B & E1 & E2 & _)]); [left; exact S|right; eauto].
  - destruct (Nat.lt_ge_cases nr r1) as [Hs|Hg].
    + exfalso. revert E. unfold resize_phase3.
      destruct (Nat.compare_spec nr r1) as [Heq|_|Hgt]; [lia| |lia].
      replace (cr1 + 1 <=? r1) with false by (symmetry; lia). cbn [guard bind]. discriminate.
    + left. exact (phase3_grow nc nr ls1 cr1 r1 ls2 cr2 Hg E).
Qed.

(** rows removed below row [x], which loses its wrap mark: a prefix cut of the logical lines *)
Lemma cut_tail_ok nc A x B L n1 :
  Forall (LineInv nc) (A ++ x :: B) -> last_not_wrapped (A ++ x :: B) ->
  logical_t (A ++ x :: B) = L ++ repeat [] n1 ->
  tail_ok (logical_t (A ++ [x <| wrapped := false |>])) L = true.
Proof.
  intros F Ll Tl. apply Forall_app in F as (FA & _).
  destruct (curs_go (A ++ x :: B) (length A) 0 0 nc) as [j offx] eqn:Cx.
  destruct (row_in_logical_split A x B nc j offx FA Ll Cx) as (D & pre & more & tl & EL & EL' & _).
  apply (tail_ok_drop_empty _ _ n1). rewrite <- Tl. unfold logical_t. rewrite EL, EL', !map_app.
  cbn [map]. rewrite (app_assoc pre (cells x) more). apply tail_ok_common. apply trimd_prefix_app.
Qed.

Lemma lines_resized (b : buffer) ls nc nr :
  lines (b <| lines := ls |> <| bcols := nc |> <| brows := nr |> <| trim_needed := true |>) = ls.
Proof. destruct b; reflexivity. Qed.

Theorem resize_cut_free : forall b nc nr cc cr b' cc' cr',
  BInv b -> 1 <= nc -> 1 <= nr ->
  buf_resize b nc nr cc cr = Ok (b', (cc', cr')) ->
  tail_ok (logical_t (lines b')) (logical_t (lines b)) = true.
Proof.
  intros b nc nr cc cr b' cc' cr' HI Hnc Hnr. rewrite buf_resize_eq.
  destruct (logical_position b cc cr (bcols b) (brows b)) as [[lc lr]|s]; cbn [bind]; [|discriminate].
  destruct (resize_phase2 b nc cc cr lc lr) as [[[[ls1 cc1] cr1] r1]|s] eqn:E2; cbn [bind]; [|discriminate].
  destruct (resize_phase2_ok b nc cc cr lc lr HI Hnc)
    as (ls1' & cc1' & cr1' & r1' & E2' & A1 & A2 & A3 & _).
  rewrite E2 in E2'. apply Ok_inj in E2'. injection E2' as <- <- <- <-.
  destruct (phase2_logical b nc cc cr lc lr ls1 cc1 cr1 r1 HI Hnc E2) as (n1 & Tl).
  destruct (resize_phase3 nc nr ls1 cr1 r1) as [[ls2 cr2]|s] eqn:E3; cbn [bind]; [|discriminate].
  intros [= <- _ _]. rewrite lines_resized.
  destruct (phase3_shape nc nr ls1 cr1 r1 ls2 cr2 Hnr A1 E3) as [(n & ->)|(A & x & B & -> & ->)].
  - rewrite logical_t_pad by exact A3. rewrite Tl, <- app_assoc, <- repeat_app. apply tail_ok_app_empty.
  - exact (cut_tail_ok nc A x B _ n1 A2 A3 Tl).
Qed.

Print Assumptions resize_cut_free.

(** * 3. The translation cursor: a row below the parked view *)

Lemma curs_go_beyond ls c : forall R k off,
  length ls <= R -> curs_go ls R k off c = curs_go ls (length ls) k off c.
Proof.
  induction ls as [|l r IH]; intros R k off H.
  - destruct R; reflexivity.
  - destruct R as [|R]; [cbn [length] in H; lia|]. cbn [length curs_go].
    destruct (wrapped l); apply IH; cbn [length] in H; lia.
Qed.

Lemma curs_go_end ls c k : Forall (LineInv c) ls -> last_not_wrapped ls ->
  curs_go ls (length ls) k 0 c = (k + length (logical ls), 0).
Proof.
  intros F L. pose proof (curs_go_app ls [] c F k []) as H. rewrite app_nil_r in H.
  cbn [length] in H. rewrite H, lg_pre_lnw by auto. rewrite <- logical_lnw by exact L. reflexivity.
Qed.

(** [curs] clamps a row below the view to "after the last logical line" *)
Lemma curs_below b cc cr :
  BInv b -> brows b <= cr -> curs b cc cr = (length (logical_t (lines b)), cc).
Proof.
  intros ((_ & _ & Hlen & Hall) & Hlnw) H. unfold curs.
  rewrite curs_go_beyond by (unfold sb_len; lia).
  rewrite (curs_go_end _ _ 0 Hall Hlnw). unfold logical_t. rewrite map_length. reflexivity.
Qed.

Lemma logical_position_below b cc cr lc lr :
  BInv b -> brows b <= cr ->
  logical_position b cc cr (bcols b) (brows b) = Ok (lc, lr) -> length (logical (lines b)) <= lr.
Proof.
  intros ((_ & _ & Hlen & Hall) & Hlnw) H. unfold logical_position.
  replace (brows b <=? length (lines b)) with true by (symmetry; lia). cbn [guard bind].
  rewrite firstn_all2 by lia. rewrite logpos_curs, (curs_go_end _ _ _ Hall Hlnw).
  intros [= _ <-]. lia.
Qed.

Lemma relpos2_ge ls c : forall fuel col row a s,
  relpos2 fuel ls c col row = Ok (a, s) -> row <= s.
Proof.
  induction fuel as [|f IH]; intros col row a s; [discriminate|].
  cbn [relpos2]. destruct (c <=? col).
  - destruct (nth_error ls row) as [l|]; [|discriminate]. destruct (wrapped l).
    + intros H. apply IH in H. lia.
    + intros [= _ <-]. lia.
  - intros [= _ <-]. lia.
Qed.

(** a target logical row at or beyond the end: the translated row is the last one *)
Lemma relative_position_beyond ls o k c r rc rr :
  Forall (LineInv c) ls -> last_not_wrapped ls -> length (logical ls) <= k -> 1 <= r ->
  relative_position ls o k c r = Ok (rc, rr) -> (0 <= rr)%Z.
Proof.
  intros F L Hk Hr. unfold relative_position.
  destruct ((1 <=? length ls) && (r <=? length ls) && (1 <=? c)) eqn:G; cbn [guard bind]; [|discriminate].
  destruct (relpos1 (S (length ls)) ls k (length ls - 1) 0 0) as [s1|p] eqn:E1; cbn [bind]; [|discriminate].
  destruct (relpos1_spec ls c k (length ls - 1) _ 0 0 s1 0 E1 (curs_go_0 ls 0 0 c))
    as (r' & off1 & C1 & Hr' & _ & Hclamp & Hs1); [reflexivity|lia|lia|].
  assert (Hlt : r' < length (logical ls)).
  { destruct (nth_error ls (length ls - 1)) as [y|] eqn:N.
    2: { apply nth_error_None in N. lia. }
    pose proof (lnw_nth_last ls y L N) as Wy.
    destruct (curs_go ls (length ls - 1) 0 0 c) as [k1 o1] eqn:Ck1.
    destruct (curs_go_mono ls c s1 (length ls - 1 - s1) r' off1 k1 o1) as (M1 & _); [lia|exact C1| |].
    { replace (s1 + (length ls - 1 - s1)) with (length ls - 1) by lia. exact Ck1. }
    destruct (curs_go ls (length ls) 0 0 c) as [k2 o2] eqn:Ck2.
    destruct (curs_go_mono ls c (length ls - 1) 1 k1 o1 k2 o2) as (_ & M2); [lia|exact Ck1| |].
    { replace (length ls - 1 + 1) with (length ls) by lia. exact Ck2. }
    specialize (M2 ltac:(lia) y N Wy).
    pose proof (curs_go_total ls c F L) as T. rewrite Ck2 in T. cbn [fst] in T. lia. }
  specialize (Hclamp ltac:(lia)).
  destruct (relpos2 (S (S (o + length ls))) ls c o s1) as [[a s]|p] eqn:E2; cbn [bind]; [|discriminate].
  apply relpos2_ge in E2. intros [= _ <-]. lia.
Qed.

Lemma phase2_below b nc cc cr lc lr ls1 cc1 cr1 r1 :
  BInv b -> 1 <= nc -> length (logical (lines b)) <= lr ->
  resize_phase2 b nc cc cr lc lr = Ok (ls1, cc1, cr1, r1) -> r1 = brows b.
Proof.
  intros HI Hnc Hlr. pose proof HI as ((_ & Hbr & _ & _) & Hlnw). unfold resize_phase2.
  destruct (nc =? bcols b); cbn [negb].
  - intros [= _ _ _ <-]. reflexivity.
  - destruct (reflowM (lines b) nc) as [out|p] eqn:Eo; cbn [bind]; [|discriminate].
    destruct (reflow_total (lines b) nc Hnc) as (out' & Eo' & Fo & _ & Lo).
    rewrite Eo in Eo'. injection Eo' as <-. specialize (Lo Hlnw).
    pose proof (reflow_logical _ _ _ Hnc Hlnw Eo) as Tx.
    destruct (length out <? brows b) eqn:Lt.
    + (* padded to exactly the old height: the offset of the view is 0 *)
      set (ls := out ++ _).
      assert (Hl : length ls = brows b) by (unfold ls; rewrite app_length, repeat_length; lia).
      clearbody ls. unfold relative_position.
      destruct ((1 <=? length ls) && (brows b <=? length ls) && (1 <=? nc)); cbn [guard bind]; [|discriminate].
      destruct (relpos1 _ _ _ _ _ _) as [s1|p]; cbn [bind]; [|discriminate].
      destruct (relpos2 _ _ _ _ _) as [[a s]|p]; cbn [bind]; [|discriminate].
      replace (0 <=? Z.of_nat s - Z.of_nat (length ls - brows b))%Z with true by (symmetry; lia).
      intros [= _ _ _ <-]. reflexivity.
    + destruct (relative_position out lc lr nc (brows b)) as [[rc rr]|p] eqn:Er; cbn [bind]; [|discriminate].
      assert (Hrr : (0 <= rr)%Z).
      { apply (relative_position_beyond out lc lr nc (brows b) rc rr Fo Lo); [|exact Hbr|exact Er].
        apply (f_equal (@length _)) in Tx. unfold logical_t in Tx. rewrite !map_length in Tx. lia. }
      replace (0 <=? rr)%Z with true by (symmetry; lia).
      intros [= _ _ _ <-]. reflexivity.
Qed.

(** the translation cursor's row lies below the parked view (so the height grows): only empty lines are appended *)
Lemma resize_below_ext b nc nr cc cr b' cc' cr' :
  BInv b -> 1 <= nc -> brows b <= cr -> cr < nr ->
  buf_resize b nc nr cc cr = Ok (b', (cc', cr')) ->
  exists n, logical_t (lines b') = logical_t (lines b) ++ repeat [] n.
Proof.
  intros HI Hnc Hge Hlt. rewrite buf_resize_eq.
  destruct (logical_position b cc cr (bcols b) (brows b)) as [[lc lr]|s] eqn:El; cbn [bind]; [|discriminate].
  pose proof (logical_position_below b cc cr lc lr HI Hge El) as Hlr.
  destruct (resize_phase2 b nc cc cr lc lr) as [[[[ls1 cc1] cr1] r1]|s] eqn:E2; cbn [bind]; [|discriminate].
  destruct (resize_phase2_ok b nc cc cr lc lr HI Hnc)
    as (ls1' & cc1' & cr1' & r1' & E2' & A1 & A2 & A3 & _).
  rewrite E2 in E2'. apply Ok_inj in E2'. injection E2' as <- <- <- <-.
  destruct (phase2_logical b nc cc cr lc lr ls1 cc1 cr1 r1 HI Hnc E2) as (n1 & Tl).
  pose proof (phase2_below b nc cc cr lc lr ls1 cc1 cr1 r1 HI Hnc Hlr E2) as ->.
  destruct (resize_phase3 nc nr ls1 cr1 (brows b)) as [[ls2 cr2]|s] eqn:E3; cbn [bind]; [|discriminate].
  intros [= <- _ _]. rewrite lines_resized.
  destruct (phase3_grow nc nr ls1 cr1 (brows b) ls2 cr2 ltac:(lia) E3) as (n & ->).
  exists (n1 + n). rewrite logical_t_pad by exact A3. rewrite Tl, <- app_assoc, <- repeat_app. reflexivity.
Qed.

(** ** [buf_resize] with a cursor that lies inside the NEW geometry (the situation of a return to a stale parked
    buffer): the text conjuncts of [resize_preserves] hold at the logical position [curs b cc cr] of that cursor in
    the OLD buffer, and all of [resize_preserves] when its row lies inside the old view *)
Theorem resize_return_text : forall b nc nr cc cr b' cc' cr',
  BInv b -> 1 <= nc -> 1 <= nr -> cr < nr -> cc <= nc ->
  buf_resize b nc nr cc cr = Ok (b', (cc', cr')) ->
  (let '(k, o) := curs b cc cr in
   text_upto (logical_t (lines b)) (logical_t (lines b')) k o) = true
  /\ (cr < brows b -> resize_preserves b cc cr b' cc' cr' = true).
Proof.
  intros b nc nr cc cr b' cc' cr' HI Hnc Hnr Hcr Hcc E.
  destruct (Nat.lt_ge_cases cr (brows b)) as [Hin|Hout].
  - split.
    + unfold curs. destruct (curs_go (lines b) (sb_len b + cr) 0 0 (bcols b)) as [k off] eqn:C.
      destruct (resize_struct _ _ _ _ _ _ _ _ k off HI Hnc Hnr Hin C E) as (_ & _ & _ & _ & T).
      apply text_ok_upto, T. intros e _. lia.
    + intros _. apply (resize_text' b nc nr cc cr b' cc' cr' HI Hnc Hnr Hin); [|exact E]. intros e _. lia.
  - split; [|lia].
    rewrite (curs_below b cc cr HI Hout).
    destruct (resize_below_ext b nc nr cc cr b' cc' cr' HI Hnc Hout Hcr E) as (n & ->).
    apply text_upto_ext.
Qed.

Print Assumptions resize_return_text.

(** * 4. One [Decrst ms] step from the alternate screen *)

(** invariant of the DECRST fold started on the alternate screen of [t]: still there with the parked primary
    untouched, or back on the primary with its logical lines cut at one place at most *)
Definition RT (t u : term) : Prop :=
  TInv u /\ cols u = cols t /\ rows u = rows t /\
  match active u with
  | Alternate => other u = other t
  | Primary => tail_ok (logical_t (lines (buf u))) (logical_t (lines (other t))) = true
  end.

Lemma lines_set_trim (b : buffer) : lines (b <| trim_needed := true |>) = lines b.
Proof. destruct b; reflexivity. Qed.

Lemma RT_step t u m u' : decrst_one u m = Ok u' -> RT t u -> RT t u'.
Proof.
  intros H (HT & Ec & Er & HA).
  destruct (decrst_one_TInv u m HT) as (u'' & E'' & HT'' & _).
  rewrite H in E''. apply Ok_inj in E''. subst u''.
  destruct (is_switch m) eqn:Em.
  - destruct (decrst_one_switch u m u' Em H) as (u2 & u3 & H1 & K & H2).
    apply keepB_inv in K as (K1 & K2 & K3 & K4 & K5).
    pose proof (reflow_keepR _ _ H2) as R. apply keepR_inv in R as (R1 & R2 & R3 & R4 & _).
    apply reflow_inv in H2 as (b & c & r & d & Hb & E').
    assert (Eb : buf u' = b) by (rewrite E'; apply reflowed_buf).
    apply switch_prim_inv in H1 as [[Ea ->]|[Ea [dd ->]]].
    + (* already on the primary screen: a reflow at the same geometry *)
      rewrite Ea in HA.
      split; [exact HT''|]. split; [congruence|]. split; [congruence|].
      rewrite R4, K5, Ea.
      rewrite K1, K2, K3, <- (ti_bcols u HT), <- (ti_brows u HT) in Hb.
      rewrite buf_resize_same' in Hb by (destruct (ti_buf u HT) as ((_ & _ & Hl & _) & _); exact Hl).
      apply Ok_inj in Hb. injection Hb as <- _ _. rewrite Eb, lines_set_trim. exact HA.
    + (* the switch: the parked primary is re-wrapped to the current size *)
      rewrite Ea in HA. destruct (to_prim_fields u dd) as (T1 & _ & _ & _ & T5 & T6 & T7 & _).
      split; [exact HT''|]. split; [congruence|]. split; [congruence|].
      rewrite R4, K5, T1. rewrite K1, K2, K3, T5, T6, T7, HA in Hb. rewrite Eb.
      apply (resize_cut_free _ _ _ _ _ _ _ _ (eq_ind _ BInv (ti_other u HT) _ HA)
               (ti_cols u HT) (ti_rows u HT) Hb).
  - apply (decrst_one_pure u m u' Em), keepB_inv in H as (K1 & K2 & K3 & K4 & K5).
    split; [exact HT''|]. split; [congruence|]. split; [congruence|].
    rewrite K5, K3, K4. exact HA.
Qed.

Lemma decrst_RT ms t t' :
  TInv t -> active t = Alternate -> execute t (Decrst ms) = Ok t' -> RT t t'.
Proof.
  intros HT Ea H. cbn [execute] in H.
  apply (foldM_inv decrst_one (RT t)) with (l := ms) (a := t); [|exact H|].
  - intros a x a' Hx Ha. exact (RT_step t a x a' Hx Ha).
  - unfold RT. rewrite Ea. auto.
Qed.

(** the plain return is [buf_resize] of the parked buffer to the current size with the ALTERNATE screen's cursor *)
Lemma decrst_asb_resize t t' :
  active t = Alternate -> execute t (Decrst [AltScreenBuffer]) = Ok t' ->
  buf_resize (other t) (cols t) (rows t) (cur_col t) (cur_row t) = Ok (buf t', (cur_col t', cur_row t')).
Proof.
  intros Ea H. rewrite exec_decrst_one, decrst_asb_eq in H.
  apply bind_ok in H as (t1 & H1 & H).
  apply switch_prim_inv in H1 as [[Ea' _]|[_ [d ->]]]; [rewrite Ea in Ea'; discriminate|].
  apply reflow_inv in H as (b & c & r & d' & Hb & ->).
  destruct (to_prim_fields t d) as (_ & _ & _ & _ & P5 & P6 & P7 & P8 & P9 & _).
  rewrite P5, P6, P7, P8, P9 in Hb. rewrite reflowed_buf.
  destruct (reflowed_cur (to_prim t d) b c r d') as [-> ->]. exact Hb.
Qed.

(** ** the executable statement, for every state satisfying the invariant, every function, every scrollback limit *)
Theorem C16_return_text_holds : forall p p' t f t',
  TInv t -> execute t f = Ok t' -> holds_C16_return_text (mkVt p t) f (mkVt p' t') = true.
Proof.
  intros p p' t f t' HT H. unfold holds_C16_return_text. cbn [vterm]. cbv zeta.
  destruct (is_alt_b t) eqn:Ea; [|reflexivity].
  destruct (is_alt_b t') eqn:Ea'; [reflexivity|]. cbn [negb andb].
  assert (Eact : active t = Alternate).
  { unfold is_alt_b in Ea. destruct (active t); [discriminate|reflexivity]. }
  assert (Eact' : active t' = Primary).
  { unfold is_alt_b in Ea'. destruct (active t'); [reflexivity|discriminate]. }
  destruct f; try reflexivity.
  destruct (decrst_RT ms t t' HT Eact H) as (HT' & Ec & Er & HA). rewrite Eact' in HA.
  rewrite (return_text_ok_intro _ _ HA), (C02_state_after p' t _ t' HT H). cbn [andb].
  assert (G : (if (bcols (other t) =? cols t) && (brows (other t) =? rows t)
               then lines_eqb (lines (buf t')) (lines (other t)) else true) = true).
  { destruct ((bcols (other t) =? cols t) && (brows (other t) =? rows t)) eqn:Eg; [|reflexivity].
    apply andb_prop in Eg as [G1 G2]. apply Nat.eqb_eq in G1, G2.
    rewrite (alt_prim t ms t' HT H Eact Eact' G1 G2). apply lines_eqb_refl. }
  rewrite G. cbn [andb].
  destruct ms as [|m [|m' ms']]; try reflexivity; [|destruct m; reflexivity].
  destruct m; try reflexivity.
  - (* ?47l / ?1047l *)
    pose proof (decrst_asb_resize t t' Eact H) as Hb.
    destruct (resize_return_text _ _ _ _ _ _ _ _ (ti_other t HT) (ti_cols t HT) (ti_rows t HT)
                (ti_row t HT) (ti_col t HT) Hb) as (T1 & T2).
    rewrite T1. cbn [andb].
    destruct (cur_row t <? brows (other t)) eqn:Lt; [|reflexivity]. apply T2. lia.
  - (* ?1049l *)
    unfold saved_of. rewrite Eact. cbn [btype_eqb].
    exact (decrst_scasb_resized t t' HT Eact H).
Qed.

Print Assumptions C16_return_text_holds.

(** ** audit item 9 for the ?1049l clause of [holds_C16_resized]: no hypothesis on the scrollback limit *)
Theorem C16_resized_1049_any_limit : forall p' t t',
  TInv t -> active t = Alternate -> execute t (Decrst [SaveCursorAltScreenBuffer]) = Ok t' ->
  resize_preserves (other t) (sc_col (saved_of t Primary)) (sc_row (saved_of t Primary))
    (buf t') (cur_col t') (cur_row t') = true
  /\ holds_C02_state (mkVt p' t') = true.
Proof.
  intros p' t t' HT Ea H. split; [|exact (C02_state_after p' t _ t' HT H)].
  unfold saved_of. rewrite Ea. cbn [btype_eqb]. exact (decrst_scasb_resized t t' HT Ea H).
Qed.

Print Assumptions C16_resized_1049_any_limit.

(** the cursor-free clause as a proposition, for every mode list *)
Theorem C16_return_cut_free : forall t ms t',
  TInv t -> active t = Alternate -> execute t (Decrst ms) = Ok t' -> active t' = Primary ->
  tail_ok (logical_t (lines (buf t'))) (logical_t (lines (other t))) = true
  /\ cols t' = cols t /\ rows t' = rows t /\ TInv t'.
Proof.
  intros t ms t' HT Ea H Ea'. destruct (decrst_RT ms t t' HT Ea H) as (HT' & Ec & Er & HA).
  rewrite Ea' in HA. auto.
Qed.

Print Assumptions C16_return_cut_free.

(** * 5. Whole excursions *)

(** a run of public calls (feed one character, flush, resize) after each of which the alternate screen is showing *)
Inductive alt_run : vt -> list op -> vt -> Prop :=
| alt_run_nil v : alt_run v [] v
| alt_run_cons v o v1 out ops v' :
    op_ok o -> stepM v o = Ok (v1, out) -> active (vterm v1) = Alternate ->
    alt_run v1 ops v' -> alt_run v (o :: ops) v'.

Lemma vterm_set_vterm (v : vt) t : vterm (v <| vterm := t |>) = t.
Proof. destruct v; reflexivity. Qed.

Lemma term_gc_frame t t2 dr :
  term_gc t = Ok (t2, dr) -> active t2 = active t /\ other t2 = other t.
Proof.
  unfold term_gc. destruct (buf_gc (buf t)) as [[b d]|s]; cbn [bind]; [|discriminate].
  intros E. assert (t2 = t <| buf := b |>) as ->.
  { destruct (active (t <| buf := b |>)); injection E as <- _; reflexivity. }
  destruct t; split; reflexivity.
Qed.

Lemma vt_flush_frame v v1 out :
  vt_flush v = Ok (v1, out) ->
  other (vterm v1) = other (vterm v) /\ active (vterm v1) = active (vterm v).
Proof.
  unfold vt_flush. destruct (changes (vterm v)) as [t1 ls] eqn:Ec.
  destruct (term_gc t1) as [[t2 dr]|s] eqn:Eg; cbn [bind]; [|discriminate].
  intros [= <- _]. rewrite vterm_set_vterm.
  assert (A1 : active t1 = active (vterm v) /\ other t1 = other (vterm v)).
  { unfold changes in Ec. injection Ec as <- _. destruct (vterm v); split; reflexivity. }
  destruct A1 as (A1 & A2). destruct (term_gc_frame _ _ _ Eg) as (G1 & G2). split; congruence.
Qed.

(** one call that stays on the alternate screen leaves the parked primary untouched - as a RECORD (Leibniz
    equality: rows, wrap marks, scrollback, geometry, limit and lazy-trim flag), not only up to [buffer_vis_eqb] *)
Lemma step_alt_other v o v1 out :
  Inv v -> active (vterm v) = Alternate -> op_ok o ->
  stepM v o = Ok (v1, out) -> active (vterm v1) = Alternate ->
  Inv v1 /\ other (vterm v1) = other (vterm v).
Proof.
  intros HI Ea Ho E Ea1. split.
  { destruct (stepM_Inv v o HI Ho) as (v' & out' & E' & HI'). rewrite E in E'.
    apply Ok_inj in E'. injection E' as <- _. exact HI'. }
  destruct HI as [_ HT]. revert E. destruct o as [c| |c r]; cbn [stepM].
  - destruct (vt_feed v c) as [v'|s] eqn:F; cbn [bind]; [|discriminate]. intros [= <- _].
    destruct (vt_feed_inv v c v' F) as [->|(f & Ef)]; [reflexivity|].
    exact (alt_alt (vterm v) f (vterm v') HT Ef Ea Ea1).
  - intros E. apply (vt_flush_frame v v1 out E).
  - destruct (term_resize (vterm v) c r) as [t|s] eqn:Er; cbn [bind]; [|discriminate]. intros E.
    destruct (vt_flush_frame _ _ _ E) as (F1 & _). rewrite vterm_set_vterm in F1.
    destruct (term_resize_fields _ _ _ _ Er) as (_ & _ & _ & _ & _ & R6 & _). congruence.
Qed.

Lemma alt_run_other v ops v' :
  alt_run v ops v' -> Inv v -> active (vterm v) = Alternate ->
  Inv v' /\ active (vterm v') = Alternate /\ other (vterm v') = other (vterm v).
Proof.
  induction 1 as [v|v o v1 out ops v' Ho E Ea1 R IH]; intros HI Ea; [auto|].
  destruct (step_alt_other v o v1 out HI Ea Ho E Ea1) as (HI1 & O1).
  destruct (IH HI1 Ea1) as (HI' & Ea' & O'). split; [exact HI'|]. split; [exact Ea'|congruence].
Qed.

(** entering: only a [Decset] does it, and it parks the primary buffer as it is *)
Lemma enter_other v0 c v1 :
  Inv v0 -> active (vterm v0) = Primary -> vt_feed v0 c = Ok v1 -> active (vterm v1) = Alternate ->
  Inv v1 /\ other (vterm v1) = buf (vterm v0).
Proof.
  intros HI Ea F Ea1. split.
  { destruct (vt_feed_Inv v0 c HI) as (v' & F' & HI'). rewrite F in F'. apply Ok_inj in F'. subst v'. exact HI'. }
  destruct HI as [_ HT].
  destruct (vt_feed_inv v0 c v1 F) as [E|(f & Ef)]; [rewrite E, Ea in Ea1; discriminate|].
  destruct (prim_alt _ f _ HT Ef Ea Ea1) as [ms ->].
  destruct (decset_PB ms _ _ Ea Ef) as (_ & _ & _ & HP). rewrite Ea1 in HP. apply HP.
Qed.

Lemma text_of_primary t u :
  primary_buffer u = primary_buffer t -> term_text u = term_text t.
Proof. unfold term_text. intros ->. reflexivity. Qed.

(** ** "before and throughout": at every point of an excursion - after any run of characters, flushes and resizes
    that keeps the alternate screen showing - the parked primary IS the primary buffer as it was when the excursion
    began, and [text()] returns what it returned then *)
Theorem C16_throughout : forall v0 c0 v1 ops v,
  Inv v0 -> active (vterm v0) = Primary ->
  vt_feed v0 c0 = Ok v1 -> active (vterm v1) = Alternate ->
  alt_run v1 ops v ->
  Inv v /\ active (vterm v) = Alternate
  /\ other (vterm v) = buf (vterm v0)
  /\ vt_text v = vt_text v0.
Proof.
  intros v0 c0 v1 ops v HI Ea F Ea1 R.
  destruct (enter_other v0 c0 v1 HI Ea F Ea1) as (HI1 & O1).
  destruct (alt_run_other v1 ops v R HI1 Ea1) as (HI' & Ea' & O').
  split; [exact HI'|]. split; [exact Ea'|]. split; [congruence|].
  unfold vt_text. apply text_of_primary. unfold primary_buffer. rewrite Ea', Ea. congruence.
Qed.

Print Assumptions C16_throughout.

(** ** "and after": leaving by any [Decrst ms] that brings the primary screen back.
    If the size at that moment is the size the excursion began with (whatever happened in between, resizes
    included), the primary's lines - scrollback and wrap marks included - and [text()] are exactly those from before
    entering.  In every case (any sizes, any scrollback limit) the logical lines are those from before, cut at one
    place at most ([excursion_text_ok]). *)
Theorem C16_excursion : forall v0 c0 v1 ops v2 ms t3,
  Inv v0 -> active (vterm v0) = Primary ->
  vt_feed v0 c0 = Ok v1 -> active (vterm v1) = Alternate ->
  alt_run v1 ops v2 ->
  execute (vterm v2) (Decrst ms) = Ok t3 -> active t3 = Primary ->
  (cols (vterm v2) = cols (vterm v0) -> rows (vterm v2) = rows (vterm v0) ->
   lines (buf t3) = lines (buf (vterm v0)) /\ term_text t3 = vt_text v0)
  /\ excursion_text_ok (buf (vterm v0)) (buf t3) = true.
Proof.
  intros v0 c0 v1 ops v2 ms t3 HI Ea F Ea1 R H Ea3.
  destruct (C16_throughout v0 c0 v1 ops v2 HI Ea F Ea1 R) as ((_ & HT2) & Ea2 & O2 & _).
  destruct HI as [_ HT0].
  destruct (C16_return_cut_free _ ms t3 HT2 Ea2 H Ea3) as (Tk & Ec & Er & HT3).
  rewrite O2 in Tk.
  assert (Same : cols (vterm v2) = cols (vterm v0) -> rows (vterm v2) = rows (vterm v0) ->
                 lines (buf t3) = lines (buf (vterm v0))).
  { intros Gc Gr. rewrite <- O2. apply (alt_prim _ ms t3 HT2 H Ea2 Ea3).
    - rewrite O2, (ti_bcols _ HT0). symmetry. exact Gc.
    - rewrite O2, (ti_brows _ HT0). symmetry. exact Gr. }
  split.
  - intros Gc Gr. split; [exact (Same Gc Gr)|].
    unfold vt_text, term_text, primary_buffer, buf_text. rewrite Ea3, Ea, (Same Gc Gr). reflexivity.
  - unfold excursion_text_ok. rewrite (return_text_ok_intro _ _ Tk). cbn [andb].
    destruct ((bcols (buf (vterm v0)) =? bcols (buf t3)) && (brows (buf (vterm v0)) =? brows (buf t3))) eqn:Eg;
      [|reflexivity].
    apply andb_prop in Eg as [G1 G2]. apply Nat.eqb_eq in G1, G2.
    rewrite (ti_bcols _ HT0), (ti_bcols _ HT3) in G1. rewrite (ti_brows _ HT0), (ti_brows _ HT3) in G2.
    rewrite Same by congruence. apply lines_eqb_refl.
Qed.

Print Assumptions C16_excursion.

(** only [Decrst] and a hard reset leave the alternate screen *)
Lemma alt_prim_fn t f t' :
  TInv t -> execute t f = Ok t' -> active t = Alternate -> active t' = Primary ->
  (exists ms, f = Decrst ms) \/ f = Ris.
Proof.
  intros HT H Ea Ea'. pose proof (active_frame t f t' H) as F.
  destruct f; try (exfalso; congruence); eauto.
  - (* Decset *) exfalso. cbn [execute] in H.
    assert (E : active t' = Alternate /\ other t' = other t); [|destruct E; congruence].
    apply (foldM_inv decset_one (fun u => active u = Alternate /\ other u = other t))
      with (l := ms) (a := t); [|exact H|auto].
    intros a x a' Hx Ha. exact (decset_alt_step t a x a' Hx Ha).
  - (* Xtwinops *) exfalso. rewrite (xtwinops_noop t op t' (ti_xtw t HT) H) in Ea'. congruence.
Qed.

(** the same at the level of the public machine: the leaving call is one more character; it either hard-resets the
    terminal (RIS) or brings the primary back as above *)
Theorem C16_excursion_vt : forall v0 c0 v1 ops v2 c3 v3,
  Inv v0 -> active (vterm v0) = Primary ->
  vt_feed v0 c0 = Ok v1 -> active (vterm v1) = Alternate ->
  alt_run v1 ops v2 ->
  vt_feed v2 c3 = Ok v3 -> active (vterm v3) = Primary ->
  execute (vterm v2) Ris = Ok (vterm v3)
  \/ ((cols (vterm v2) = cols (vterm v0) -> rows (vterm v2) = rows (vterm v0) ->
       lines (buf (vterm v3)) = lines (buf (vterm v0)) /\ vt_text v3 = vt_text v0)
      /\ excursion_text_ok (buf (vterm v0)) (buf (vterm v3)) = true).
Proof.
  intros v0 c0 v1 ops v2 c3 v3 HI Ea F Ea1 R F3 Ea3.
  destruct (C16_throughout v0 c0 v1 ops v2 HI Ea F Ea1 R) as ((_ & HT2) & Ea2 & _ & _).
  destruct (vt_feed_inv v2 c3 v3 F3) as [E|(f & Ef)]; [rewrite E, Ea2 in Ea3; discriminate|].
  destruct (alt_prim_fn _ f _ HT2 Ef Ea2 Ea3) as [[ms ->]| ->]; [right|left; exact Ef].
  exact (C16_excursion v0 c0 v1 ops v2 ms (vterm v3) HI Ea F Ea1 R Ef Ea3).
Qed.

Print Assumptions C16_excursion_vt.

(** * 6. Non-vacuity: concrete reachable states (all by computation) *)

Module Examples.
Local Open Scope N_scope.
Definition enter47 : list N := [27;91;63;52;55;104].            (* ESC [ ? 4 7 h *)
Definition leave47_pre : list N := [27;91;63;52;55].            (* ESC [ ? 4 7, the final l is the step under study *)
Definition enter1049 : list N := [27;91;63;49;48;52;57;104].
Definition leave1049_pre : list N := [27;91;63;49;48;52;57].
Definition home : list N := [27;91;72].                         (* CUP 1;1 *)
Definition row5 : list N := [27;91;53;59;49;72].                (* CUP 5;1 *)
Definition txt : list N := [97;98;99;100;101;102;13;10;103;13;10;104;105].   (* abcdef CR LF g CR LF hi *)
Definition txt2 : list N := [97;98;99;100;101;102;103;104].                  (* abcdefgh *)
Local Close Scope N_scope.

(** [text] on a [c] x [r] primary screen with limit [lim]; enter with [ent]; [mid] on the alternate screen; resize to
    [nc] x [nr]; [aft]; then all of the leaving sequence [lv] but its final character *)
Definition scenario (c r : nat) (lim : option N) (text ent mid : list N) (nc nr : nat) (aft lv : list N) : res vt :=
  x <- feed_str (vt_new c r lim) (text ++ ent ++ mid) ;;
  y <- stepM (fst x) (Resize nc nr) ;;
  feed_chars (fst y) (aft ++ lv).

Definition chars (L : list (list cell)) : list (list N) := map (map ch) L.

(** the last step [f] from the state [v]: the statement holds, the step really goes Alternate -> Primary, and the
    logical lines before / after are as listed *)
Definition check (v : res vt) (f : func) (before after : list (list N)) : Prop :=
  match v with
  | Ok v =>
    match execute (vterm v) f with
    | Ok t' =>
      holds_C16_return_text v f (mkVt (vparser v) t') = true
      /\ active (vterm v) = Alternate /\ active t' = Primary
      /\ chars (logical_t (lines (other (vterm v)))) = before
      /\ chars (logical_t (lines (buf t'))) = after
    | Panic _ => False
    end
  | Panic _ => False
  end.

(** ?47l after the height shrank from 3 to 1 with the alternate cursor at home, scrollback limit 1: the two logical
    lines below the cursor's are cut, the cursor's line and everything above survive *)
Example return_47_cut_below :
  check (scenario 4 3 (Some 1%N) txt enter47 home 4 1 [] leave47_pre) (Decrst [AltScreenBuffer])
    [[97;98;99;100;101;102]; [103]; [104;105]]%N [[97;98;99;100;101;102]]%N.
Proof. vm_compute. repeat split. Qed.

(** the cut falls inside the cursor's own logical line: "abcdefgh" on two rows, cursor on the first, height 1 *)
Example return_47_cut_inside :
  check (scenario 4 3 (Some 0%N) txt2 enter47 home 4 1 [] leave47_pre) (Decrst [AltScreenBuffer])
    [[97;98;99;100;101;102;103;104]; []]%N [[97;98;99;100]]%N.
Proof. vm_compute. repeat split. Qed.

(** narrower and shorter, unlimited scrollback *)
Example return_47_narrower :
  check (scenario 4 3 None txt enter47 home 2 2 [] leave47_pre) (Decrst [AltScreenBuffer])
    [[97;98;99;100;101;102]; [103]; [104;105]]%N [[97;98;99;100;101;102]; [103]]%N.
Proof. vm_compute. repeat split. Qed.

(** the alternate cursor is on row 4 of a 5-row screen, the parked primary has 3 rows: [curs] clamps it to "after the
    last line", nothing is cut, empty lines are appended *)
Example return_47_cursor_below_parked_view :
  check (scenario 4 3 (Some 1%N) txt enter47 [] 6 5 row5 leave47_pre) (Decrst [AltScreenBuffer])
    [[97;98;99;100;101;102]; [103]; [104;105]]%N [[97;98;99;100;101;102]; [103]; [104;105]; []; []]%N
  /\ match scenario 4 3 (Some 1%N) txt enter47 [] 6 5 row5 leave47_pre with
     | Ok v => (cur_row (vterm v), brows (other (vterm v)),
                curs (other (vterm v)) (cur_col (vterm v)) (cur_row (vterm v))) = (4, 3, (3, 0))
     | Panic _ => False
     end.
Proof. vm_compute. repeat split. Qed.

(** ?1049l with a finite scrollback limit (outside [holds_C16_resized], which is [true] there) *)
Example return_1049_finite_limit :
  check (scenario 4 3 (Some 1%N) txt enter1049 home 3 2 [] leave1049_pre) (Decrst [SaveCursorAltScreenBuffer])
    [[97;98;99;100;101;102]; [103]; [104;105]]%N [[97;98;99;100;101;102]; [103]; [104;105]]%N.
Proof. vm_compute. repeat split. Qed.

(** a longer mode list: ?25;47l *)
Example return_list :
  check (scenario 4 3 (Some 1%N) txt enter47 home 4 1 [] [27;91;63;50;53;59;52;55]%N)
    (Decrst [TextCursorEnable; AltScreenBuffer])
    [[97;98;99;100;101;102]; [103]; [104;105]]%N [[97;98;99;100;101;102]]%N.
Proof. vm_compute. repeat split. Qed.

(** the clauses have teeth: an altered character, a reordering, an invented line, a second cut are all rejected *)
Example return_text_rejects :
  let a := mkCell 97 default_pen in let b := mkCell 98 default_pen in
  return_text_ok [[a;b]; [b]] [[a;b]; [b]] = true
  /\ return_text_ok [[a;b]; [b]] [[a]] = true
  /\ return_text_ok [[a;b]; [b]] [[a;a]; [b]] = false
  /\ return_text_ok [[a;b]; [b]] [[b]; [a;b]] = false
  /\ return_text_ok [[a;b]; [b]] [[a;b]; [b]; [a]] = false
  /\ return_text_ok [[a;b]; [b]] [[a]; [b]] = false.
Proof. vm_compute. repeat split. Qed.

(** an executable reading of [alt_run] *)
Definition op_okb (o : op) : bool :=
  match o with Resize c r => (1 <=? c) && (1 <=? r) | _ => true end.

Fixpoint alt_run_exec (v : vt) (ops : list op) : option vt :=
  match ops with
  | [] => Some v
  | o :: r =>
    match stepM v o with
    | Ok (v1, _) => if op_okb o && is_alt_b (vterm v1) then alt_run_exec v1 r else None
    | Panic _ => None
    end
  end.

Lemma alt_run_exec_sound : forall ops v v', alt_run_exec v ops = Some v' -> alt_run v ops v'.
Proof.
  induction ops as [|o r IH]; intros v v'; cbn [alt_run_exec].
  - intros [= <-]. constructor.
  - destruct (stepM v o) as [[v1 out]|s] eqn:E; [|discriminate].
    destruct (op_okb o && is_alt_b (vterm v1)) eqn:C; [|discriminate].
    apply andb_prop in C as [C1 C2]. intros H.
    apply (alt_run_cons v o v1 out r v'); [| exact E | | exact (IH _ _ H)].
    + destruct o as [c| |c r0]; cbn [op_ok op_okb] in *; [exact I|exact I|lia].
    + unfold is_alt_b in C2. destruct (active (vterm v1)); [discriminate|reflexivity].
Qed.

(** an excursion with output on the alternate screen that scrolls it, flushes, and two resizes that end at the
    starting size: the hypotheses of [C16_excursion] hold together, and the conclusion is informative (the primary
    with its scrollback row comes back although the screen in between showed other text at another size) *)
Definition ex_ops : list op :=
  [Flush] ++ map Feed [120;13;10;121;13;10;122;13;10;119]%N ++ [Resize 7 2; Feed 113%N; Flush; Resize 4 3; Flush]
  ++ map Feed leave47_pre.

Example excursion_instance :
  match feed_chars (vt_new 4 3 (Some 1%N)) (txt ++ [27;91;63;52;55]%N) with
  | Ok v0 =>
    match vt_feed v0 104%N with
    | Ok v1 =>
      match alt_run_exec v1 ex_ops with
      | Some v2 =>
        match execute (vterm v2) (Decrst [AltScreenBuffer]) with
        | Ok t3 =>
          active (vterm v0) = Primary /\ active (vterm v1) = Alternate /\ active t3 = Primary
          /\ (cols (vterm v2), rows (vterm v2)) = (cols (vterm v0), rows (vterm v0))
          /\ length (lines (buf (vterm v0))) = 4
          /\ lines_eqb (lines (buf t3)) (lines (buf (vterm v0))) = true
          /\ lines_eqb (view (buf (vterm v2))) (view (buf (vterm v0))) = false
          /\ excursion_text_ok (buf (vterm v0)) (buf t3) = true
        | Panic _ => False
        end
      | None => False
      end
    | Panic _ => False
    end
  | Panic _ => False
  end.
Proof. vm_compute. repeat split. Qed.
End Examples.
