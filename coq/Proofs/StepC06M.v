(** C06 (margins), the two remaining executable statements of Oracles/Step.v:
    - [holds_C06_modes]  : DECSET / DECRST / SM / RM never change the scroll region;
    - [holds_C06_resize] : a resize resets the region to the full screen exactly when the
                           height changes. *)

From Coq Require Import Lia ZArith ZifyBool ZifyNat ZifyN.
From Avt Require Import Oracles.Step Proofs.Inv Proofs.Frames.
Ltac Zify.zify_post_hook ::= Z.div_mod_to_equations.
Local Open Scope nat_scope.

Lemma keepD_margins t t' : keepD t' = keepD t -> top t' = top t /\ bot t' = bot t.
Proof. unfold keepD. intros H. injection H; intros. split; assumption. Qed.

Lemma keepR_margins t t' : keepR t' = keepR t -> top t' = top t /\ bot t' = bot t /\ rows t' = rows t.
Proof. unfold keepR. intros H. injection H; intros. repeat split; assumption. Qed.

(** each single mode switch preserves the margins *)
Lemma decset_one_margins t m t' : decset_one t m = Ok t' -> top t' = top t /\ bot t' = bot t.
Proof. intros H. apply keepD_margins. exact (decset_one_keepD t m t' H). Qed.

Lemma decrst_one_margins t m t' : decrst_one t m = Ok t' -> top t' = top t /\ bot t' = bot t.
Proof. intros H. apply keepD_margins. exact (decrst_one_keepD t m t' H). Qed.

Lemma exec_modes_margins t f t' :
  execute t f = Ok t' ->
  match f with
  | Decset _ | Decrst _ | Sm _ | Rm _ => top t' = top t /\ bot t' = bot t
  | _ => True
  end.
Proof.
  intros H. destruct f; try exact I.
  - (* Decrst *) cbn [execute] in H. apply keepD_margins. exact (decrst_keepD _ _ _ H).
  - (* Decset *) cbn [execute] in H. apply keepD_margins. exact (decset_keepD _ _ _ H).
  - exact (margins_frame _ _ _ H).
  - exact (margins_frame _ _ _ H).
Qed.

Theorem C06_modes_holds : forall p p' t f t',
  execute t f = Ok t' -> holds_C06_modes (mkVt p t) f (mkVt p' t') = true.
Proof.
  intros p p' t f t' H. pose proof (exec_modes_margins t f t' H) as M.
  unfold holds_C06_modes. cbn [vterm].
  destruct f; try reflexivity; destruct M as [-> ->]; rewrite !Nat.eqb_refl; reflexivity.
Qed.
Print Assumptions C06_modes_holds.

(** what [Terminal::resize] does to the margins *)
Lemma term_resize_margins t c r t' :
  term_resize t c r = Ok t' ->
  rows t' = r
  /\ (r = rows t -> top t' = top t /\ bot t' = bot t)
  /\ (r <> rows t -> top t' = 0 /\ bot t' = r - 1).
Proof.
  rewrite term_resize_eq. intros H. apply reflow_keepR in H. apply keepR_margins in H.
  destruct H as (Ht & Hb & Hr). rewrite Ht, Hb, Hr. clear Ht Hb Hr.
  destruct (Nat.compare_spec r (rows t)) as [E|E|E]; destruct t; cbn in *;
    (split; [reflexivity|split; intros E'; try (exfalso; lia); split; reflexivity]).
Qed.

Theorem C06_resize_holds : forall p p' t c r t',
  term_resize t c r = Ok t' -> holds_C06_resize (mkVt p t) (mkVt p' t') = true.
Proof.
  intros p p' t c r t' H. destruct (term_resize_margins t c r t' H) as (Hr & Heq & Hne).
  unfold holds_C06_resize. cbn [vterm]. rewrite Hr.
  destruct (Nat.eqb_spec (rows t) r) as [E|E].
  - destruct (Heq (eq_sym E)) as [-> ->]. rewrite !Nat.eqb_refl. reflexivity.
  - assert (E' : r <> rows t) by (intros X; apply E; symmetry; exact X).
    destruct (Hne E') as [-> ->]. rewrite !Nat.eqb_refl. reflexivity.
Qed.
Print Assumptions C06_resize_holds.

(** the statement as requested (the invariant and the size conditions are not needed) *)
Corollary C06_resize_holds' : forall p p' t c r t',
  TInv t -> 1 <= c -> 1 <= r -> term_resize t c r = Ok t' ->
  holds_C06_resize (mkVt p t) (mkVt p' t') = true.
Proof. intros p p' t c r t' _ _ _ H. exact (C06_resize_holds p p' t c r t' H). Qed.
