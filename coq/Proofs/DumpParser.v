(** Property C11, parser level: decimal printing ([show_N]) is read back by the parser's
    parameter accumulation, and whole CSI / ESC sequences of the shapes written by
    [Terminal::dump] are dispatched to the expected functions from any parser in ground state.
    (The round trip of [Parser::dump] itself is in Proofs/DumpParserRT.v.) *)

From Avt Require Import Model.Parser Spec.Williams Proofs.Inv Proofs.ParserTable
  Proofs.ParserInv Proofs.ParserSim.
From Coq Require String.
Require Import Lia ZArith ZifyBool ZifyNat ZifyN.
Local Open Scope N_scope.
Ltac Zify.zify_post_hook ::= Z.div_mod_to_equations.

#[local] Arguments N.add : simpl never.
#[local] Arguments N.sub : simpl never.
#[local] Arguments N.mul : simpl never.
#[local] Arguments N.eqb : simpl never.
#[local] Arguments N.ltb : simpl never.
#[local] Arguments N.leb : simpl never.
#[local] Arguments N.modulo : simpl never.
#[local] Arguments N.div : simpl never.
#[local] Arguments N.pow : simpl never.

(** * 1. decimal printing *)

Definition is_digit (d : N) : Prop := 48 <= d <= 57.

Lemma digit_value_snoc ds d : digit_value (ds ++ [d]) = 10 * digit_value ds + (d - 48).
Proof. unfold digit_value, digit_raw. rewrite fold_left_app. reflexivity. Qed.

Lemma pow10_succ f : 10 ^ N.of_nat (S f) = 10 * 10 ^ N.of_nat f.
Proof. rewrite Nat2N.inj_succ. apply N.pow_succ_r'. Qed.

Lemma pow10_pos k : 0 < 10 ^ N.of_nat k.
Proof. apply N.neq_0_lt_0. apply N.pow_nonzero. discriminate. Qed.

Lemma digits_fuel_spec : forall fuel n acc,
  (0 < fuel)%nat -> n < 10 ^ N.of_nat fuel ->
  exists ds, digits_fuel fuel n acc = ds ++ acc
    /\ ds <> [] /\ Forall is_digit ds /\ digit_value ds = n
    /\ (n <> 0 -> hd 0 ds <> 48)
    /\ (forall k, (1 <= k)%nat -> n < 10 ^ N.of_nat k -> (length ds <= k)%nat).
Proof.
  induction fuel as [|f IH]; intros n acc Hf Hn; [lia|].
  cbn [digits_fuel]. rewrite pow10_succ in Hn.
  destruct (N.eqb_spec (n / 10) 0) as [E|E].
  - exists [48 + n mod 10]. assert (n < 10) by lia.
    split; [reflexivity|]. split; [discriminate|]. split.
    { constructor; [unfold is_digit; lia|constructor]. }
    split. { unfold digit_value, digit_raw. cbn [fold_left]. lia. }
    split. { cbn [hd]. lia. }
    intros k Hk _. cbn [length]. lia.
  - assert (Hf' : (0 < f)%nat).
    { destruct f; [|lia]. change (10 ^ N.of_nat 0) with 1 in Hn. lia. }
    assert (Hn' : n / 10 < 10 ^ N.of_nat f) by lia.
    destruct (IH (n / 10) ((48 + n mod 10) :: acc) Hf' Hn') as (ds & E1 & NE & FD & V & H0 & HL).
    exists (ds ++ [48 + n mod 10]). rewrite E1, <- app_assoc. split; [reflexivity|].
    split. { destruct ds; discriminate. }
    split. { apply Forall_app; split; [exact FD|]. constructor; [unfold is_digit; lia|constructor]. }
    split. { rewrite digit_value_snoc, V. lia. }
    split. { intros _. destruct ds as [|d ds]; [congruence|]. cbn [app hd] in *. now apply H0. }
    intros k Hk Hnk. rewrite app_length. cbn [length].
    destruct k as [|k]; [lia|]. destruct k as [|k].
    { change (10 ^ N.of_nat 1) with 10 in Hnk. lia. }
    rewrite pow10_succ in Hnk. specialize (HL (S k)). 
    assert (n / 10 < 10 ^ N.of_nat (S k)) by lia. lia.
Qed.

Definition pow10_20 : N := 100000000000000000000.

Lemma pow10_20_eq : 10 ^ N.of_nat 20 = pow10_20.
Proof. vm_compute. reflexivity. Qed.

Theorem show_N_spec : forall n, n < pow10_20 ->
  show_N n <> [] /\ Forall is_digit (show_N n) /\ digit_value (show_N n) = n
  /\ (n <> 0 -> hd 0 (show_N n) <> 48)
  /\ (forall k, (1 <= k)%nat -> n < 10 ^ N.of_nat k -> (length (show_N n) <= k)%nat).
Proof.
  intros n Hn. rewrite <- pow10_20_eq in Hn.
  destruct (digits_fuel_spec 20 n [] ltac:(lia) Hn) as (ds & E & H).
  unfold show_N. rewrite E, app_nil_r. exact H.
Qed.
Print Assumptions show_N_spec.

Theorem show_N_nonempty : forall n, n < pow10_20 -> show_N n <> [].
Proof. intros n H. apply (show_N_spec n H). Qed.

Theorem show_N_digits : forall n, n < pow10_20 -> Forall (fun d => 48 <= d <= 57) (show_N n).
Proof. intros n H. apply (show_N_spec n H). Qed.

Theorem show_N_value : forall n, n < pow10_20 -> digit_value (show_N n) = n.
Proof. intros n H. apply (show_N_spec n H). Qed.

Theorem show_N_no_leading_zero : forall n, n < pow10_20 -> n <> 0 -> hd 0 (show_N n) <> 48.
Proof. intros n H. apply (show_N_spec n H). Qed.

Theorem show_N_length : forall n k, n < pow10_20 -> (1 <= k)%nat -> n < 10 ^ N.of_nat k ->
  (length (show_N n) <= k)%nat.
Proof. intros n k H. apply (show_N_spec n H). Qed.

Lemma u16_lt_pow : forall n, n < 65536 -> n < pow10_20.
Proof. unfold pow10_20. lia. Qed.

Lemma u64_lt_pow : forall n, n < 2 ^ 64 -> n < pow10_20.
Proof. intros n H. change (2 ^ 64) with 18446744073709551616 in H. unfold pow10_20. lia. Qed.

Theorem show_N_u64 : forall n, n < 2 ^ 64 ->
  show_N n <> [] /\ Forall (fun d => 48 <= d <= 57) (show_N n) /\ digit_value (show_N n) = n
  /\ (n <> 0 -> hd 0 (show_N n) <> 48).
Proof.
  intros n H. apply u64_lt_pow in H. destruct (show_N_spec n H) as (A & B & C & D & _). auto.
Qed.
Print Assumptions show_N_u64.

Theorem show_N_length_u16 : forall n, n < 65536 -> (length (show_N n) <= 5)%nat.
Proof.
  intros n H. apply show_N_length; [now apply u16_lt_pow|lia|].
  change (10 ^ N.of_nat 5) with 100000. lia.
Qed.
Print Assumptions show_N_length_u16.

(** the first character of the decimal text *)
Lemma show_N_cons : forall n, n < pow10_20 ->
  exists d ds, show_N n = d :: ds /\ 48 <= d <= 57 /\ Forall (fun d => 48 <= d <= 57) ds.
Proof.
  intros n H. pose proof (show_N_nonempty n H) as NE. pose proof (show_N_digits n H) as FD.
  destruct (show_N n) as [|d ds]; [congruence|]. exists d, ds.
  split; [reflexivity|]. split; [exact (Forall_inv FD)|exact (Forall_inv_tail FD)].
Qed.

(** * running without output *)

Definition opt_to_list {A} (o : option A) : list A :=
  match o with Some x => [x] | None => [] end.

Definition quiet (p : parser) (s : list N) (p' : parser) : Prop :=
  run_step p s = p' /\ run_emit p s = [].

Lemma quiet_nil p : quiet p [] p.
Proof. split; reflexivity. Qed.

Lemma quiet_app p a p1 b p2 : quiet p a p1 -> quiet p1 b p2 -> quiet p (a ++ b) p2.
Proof.
  intros [S1 E1] [S2 E2]. split.
  - now rewrite run_step_app, S1.
  - now rewrite run_emit_app, E1, S1, E2.
Qed.

Lemma quiet_cons p c r p' :
  feed_emit p c = None -> quiet (feed_step p c) r p' -> quiet p (c :: r) p'.
Proof. intros E [S1 E1]. split; cbn [run_step run_emit]; [exact S1|]. now rewrite E, E1. Qed.

Lemma quiet_one p c p' : feed_emit p c = None -> feed_step p c = p' -> quiet p [c] p'.
Proof. intros E S. apply quiet_cons; [exact E|]. rewrite S. apply quiet_nil. Qed.

(** running a quiet prefix, then the rest *)
Lemma run_after_quiet p a p1 b :
  quiet p a p1 -> run_step p (a ++ b) = run_step p1 b /\ run_emit p (a ++ b) = run_emit p1 b.
Proof. intros [S E]. rewrite run_step_app, run_emit_app, S, E. auto. Qed.

(** * 2. one numeric parameter *)

(** the two families of states that collect parameters *)
Inductive pkind := PCsi | PDcs.
Definition k_entry (k : pkind) : pstate := match k with PCsi => CsiEntry | PDcs => DcsEntry end.
Definition k_param (k : pkind) : pstate := match k with PCsi => CsiParam | PDcs => DcsParam end.
Definition k_intro (k : pkind) : N := match k with PCsi => 155 | PDcs => 144 end.

Lemma w_param_digit k : forall c, 48 <= c <= 57 ->
  williams (k_param k) c = mkTrans (k_param k) KParam false.
Proof. destruct k; apply row_is_spec; vm_compute; reflexivity. Qed.

Lemma w_entry_digit k : forall c, 48 <= c <= 57 ->
  williams (k_entry k) c = mkTrans (k_param k) KParam false.
Proof. destruct k; apply row_is_spec; vm_compute; reflexivity. Qed.

Lemma w_param_semi k : williams (k_param k) 59 = mkTrans (k_param k) KParam false.
Proof. destruct k; reflexivity. Qed.

Lemma w_entry_semi k : williams (k_entry k) 59 = mkTrans (k_param k) KParam false.
Proof. destruct k; reflexivity. Qed.

Lemma w_csi_colon : williams CsiParam 58 = mkTrans CsiParam KParam false.
Proof. reflexivity. Qed.

Lemma w_entry_marker k : forall c, 60 <= c <= 63 ->
  williams (k_entry k) c = mkTrans (k_param k) KCollect false.
Proof. destruct k; apply row_is_spec; vm_compute; reflexivity. Qed.

Lemma w_csi_param_final : forall c, 64 <= c <= 126 ->
  williams CsiParam c = mkTrans Ground KCsiDispatch false.
Proof. apply row_is_spec; vm_compute; reflexivity. Qed.

Lemma w_csi_entry_final : forall c, 64 <= c <= 126 ->
  williams CsiEntry c = mkTrans Ground KCsiDispatch false.
Proof. apply row_is_spec; vm_compute; reflexivity. Qed.

Lemma w_intro k s : williams s (k_intro k) = mkTrans (k_entry k) KIgnore true.
Proof. destruct k, s; reflexivity. Qed.

Lemma w_esc s : williams s 27 = mkTrans Escape KIgnore true.
Proof. destruct s; reflexivity. Qed.

Lemma w_esc_bracket : williams Escape 91 = mkTrans CsiEntry KIgnore true.
Proof. reflexivity. Qed.

(** the cell the next digit goes to *)
Definition cur_cell (p : parser) : N :=
  let q := nth (cur_param p) (params p) default_param in nth (cur_part q) (parts q) 0.

Lemma set_cell_ext_cell f g p : f (cur_cell p) = g (cur_cell p) -> set_cell f p = set_cell g p.
Proof.
  intros H. unfold set_cell.
  rewrite (upd_ext_in (cur_param p) _
             (fun q => q <| parts := upd (cur_part q) g (parts q) |>) (params p) default_param);
    [reflexivity|].
  set (q := nth (cur_param p) (params p) default_param).
  rewrite (upd_ext_in (cur_part q) f g (parts q) 0); [reflexivity|]. exact H.
Qed.

Lemma digit_step_k k p d :
  pst p = k_param k -> 48 <= d <= 57 ->
  feed_emit p d = None /\ feed_step p d = set_cell (fun v => digit_acc v d) p.
Proof.
  intros HS Hd.
  assert (W : williams (pst p) d = mkTrans (k_param k) KParam false)
    by (rewrite HS; now apply w_param_digit).
  unfold feed_emit, feed_step. rewrite W. cbn [t_kind t_clear t_next]. split; [reflexivity|].
  unfold param_step, PARAM_SEP, PART_SEP, DIGIT_BASE.
  replace (d =? 59) with false by lia. replace (d =? 58) with false by lia.
  unfold set_cell, param_add_digit, add_digit_gen, digit_acc.
  rewrite (N.mod_small d 256) by lia. destruct p as [s ps cp i]. cbn in HS. subst s. reflexivity.
Qed.

Lemma digits_run_k k : forall ds p,
  pst p = k_param k -> Forall (fun d => 48 <= d <= 57) ds ->
  quiet p ds (set_cell (digit_fold ds) p).
Proof.
  induction ds as [|d ds IH]; intros p HS HF.
  - rewrite set_cell_id by reflexivity. apply quiet_nil.
  - pose proof (Forall_inv HF) as Hd. apply Forall_inv_tail in HF.
    destruct (digit_step_k k p d HS Hd) as [E1 S1].
    apply quiet_cons; [exact E1|]. rewrite S1.
    replace (set_cell (digit_fold (d :: ds)) p)
      with (set_cell (digit_fold ds) (set_cell (fun v => digit_acc v d) p))
      by (now rewrite set_cell_set_cell).
    apply IH; [exact HS|exact HF].
Qed.

Lemma digit_fold_zero ds : digit_fold ds 0 = digit_value ds mod 65536.
Proof. rewrite digit_fold_value by lia. f_equal; lia. Qed.

(** the first digit leaves the entry state *)
Lemma entry_digit k p d :
  pst p = k_entry k -> 48 <= d <= 57 ->
  feed_emit p d = None /\ feed_step p d = feed_step (p <| pst := k_param k |>) d.
Proof.
  intros HS Hd. unfold feed_emit, feed_step.
  change (pst (p <| pst := k_param k |>)) with (k_param k).
  rewrite HS, w_entry_digit, w_param_digit by exact Hd. cbn [t_kind t_clear t_next].
  split; [reflexivity|].
  unfold param_step. destruct (d =? PARAM_SEP); [|destruct (d =? PART_SEP)]; destruct p; reflexivity.
Qed.

Lemma set_pst_same p : p <| pst := pst p |> = p.
Proof. destruct p; reflexivity. Qed.

Lemma number_quiet_param : forall k p n,
  pst p = k_param k -> cur_cell p = 0 -> n < 65536 ->
  quiet p (show_N n) (set_cell (fun _ => n) p).
Proof.
  intros k p n HS HC Hn. apply u16_lt_pow in Hn as Hn'.
  pose proof (show_N_digits n Hn') as FD. pose proof (show_N_value n Hn') as V.
  rewrite (set_cell_ext_cell (fun _ => n) (digit_fold (show_N n))).
  - now apply (digits_run_k k).
  - rewrite HC, digit_fold_zero, V. symmetry. apply N.mod_small. exact Hn.
Qed.

Theorem number_quiet : forall k p n,
  pst p = k_entry k \/ pst p = k_param k -> cur_cell p = 0 -> n < 65536 ->
  quiet p (show_N n) (set_cell (fun _ => n) (p <| pst := k_param k |>)).
Proof.
  intros k p n [HS|HS] HC Hn.
  - assert (HS' : pst (p <| pst := k_param k |>) = k_param k) by reflexivity.
    pose proof (number_quiet_param k _ n HS' HC Hn) as [QS QE].
    apply u16_lt_pow in Hn as Hn'.
    destruct (show_N_cons n Hn') as (d & ds & E & Hd & Hds). rewrite E in *.
    destruct (entry_digit k p d HS Hd) as [E1 S1].
    destruct (digit_step_k k _ d HS' Hd) as [E2 _].
    cbn [run_step run_emit] in *. rewrite E2 in QE.
    split; cbn [run_step run_emit]; rewrite ?E1, S1; assumption.
  - assert (EP : p <| pst := k_param k |> = p) by (rewrite <- HS; apply set_pst_same).
    rewrite EP. now apply (number_quiet_param k).
Qed.

(** the statement on [runP] *)
Theorem run_number : forall p n,
  PInv p -> pst p = CsiEntry \/ pst p = CsiParam -> cur_cell p = 0 -> n < 65536 ->
  exists p', runP p (show_N n) = Ok (p', [])
    /\ p' = set_cell (fun _ => n) (p <| pst := CsiParam |>) /\ pst p' = CsiParam.
Proof.
  intros p n HP HS HC Hn. destruct (number_quiet PCsi p n HS HC Hn) as [S E].
  eexists. rewrite runP_char by exact HP. rewrite S, E. auto.
Qed.
Print Assumptions run_number.

(** * 3. whole control sequences with parameters *)

(** a parameter holding the parts [c] (the last one is the current part) *)
Definition mk_param (c : list N) : param :=
  mkParam (length c - 1) (c ++ repeat 0 (MAX_PARAM_LEN - length c)).

(** the parameter array holding [pss], everything else default *)
Definition csi_params (pss : list (list N)) : list param :=
  map mk_param pss ++ repeat default_param (PARAMS_LEN - length pss).

(** parser in a parameter state: parameters [done] are complete, [cur] is being collected *)
Definition pst_mid (s : pstate) (done : list (list N)) (cur : list N) (i : option N) : parser :=
  mkParser s (map mk_param done ++ mk_param cur :: repeat default_param (31 - length done))
           (length done) i.

Definition pst_fin (s : pstate) (pss : list (list N)) (i : option N) : parser :=
  mkParser s (csi_params pss) (length pss - 1) i.

Lemma mk_param_zero : mk_param [0] = default_param.
Proof. reflexivity. Qed.

Lemma upd_at {A} n (f : A -> A) l1 x l2 :
  n = length l1 -> upd n f (l1 ++ x :: l2) = l1 ++ f x :: l2.
Proof.
  intros ->. induction l1 as [|y l1 IH]; cbn [length app]; [apply upd_0_cons|].
  rewrite upd_S_cons. now rewrite IH.
Qed.

Lemma pst_mid_fin s done cur i :
  (length done <= 31)%nat -> pst_mid s done cur i = pst_fin s (done ++ [cur]) i.
Proof.
  intros H. unfold pst_mid, pst_fin, csi_params, PARAMS_LEN.
  rewrite map_app, app_length, <- app_assoc. cbn [map app length].
  replace (length done + 1 - 1)%nat with (length done) by lia.
  replace (32 - (length done + 1))%nat with (31 - length done)%nat by lia. reflexivity.
Qed.

Lemma cur_cell_mid s done cur v i : cur_cell (pst_mid s done (cur ++ [v]) i) = v.
Proof.
  unfold cur_cell, pst_mid. cbn [cur_param params].
  rewrite app_nth2 by (rewrite map_length; lia). rewrite map_length, Nat.sub_diag. cbn [nth].
  unfold mk_param. cbn [cur_part parts]. rewrite app_length. cbn [length].
  replace (length cur + 1 - 1)%nat with (length cur) by lia.
  rewrite <- app_assoc. cbn [app]. rewrite app_nth2 by lia. rewrite Nat.sub_diag. reflexivity.
Qed.

Lemma set_cell_mid f s done cur v i :
  set_cell f (pst_mid s done (cur ++ [v]) i) = pst_mid s done (cur ++ [f v]) i.
Proof.
  unfold set_cell, pst_mid. cbn [cur_param params].
  rewrite upd_at by (now rewrite map_length).
  unfold mk_param. cbn [cur_part parts]. rewrite !app_length. cbn [length].
  replace (length cur + 1 - 1)%nat with (length cur) by lia.
  rewrite <- !app_assoc. cbn [app]. rewrite upd_at by reflexivity. reflexivity.
Qed.

(** a number completes the current part *)
Lemma mid_number k done cur n i :
  n < 65536 ->
  quiet (pst_mid (k_param k) done (cur ++ [0]) i) (show_N n)
        (pst_mid (k_param k) done (cur ++ [n]) i).
Proof.
  intros Hn. rewrite <- (set_cell_mid (fun _ => n) _ _ _ 0).
  apply (number_quiet_param k); [reflexivity|apply cur_cell_mid|exact Hn].
Qed.

(** ':' opens the next part *)
Lemma mid_colon done cur i :
  cur <> [] -> (length cur < 6)%nat ->
  quiet (pst_mid CsiParam done cur i) [58] (pst_mid CsiParam done (cur ++ [0]) i).
Proof.
  intros NE HL. apply quiet_one.
  - unfold feed_emit. cbn [pst pst_mid]. rewrite w_csi_colon. reflexivity.
  - unfold feed_step. cbn [pst pst_mid]. rewrite w_csi_colon. cbn [t_clear t_kind t_next].
    unfold param_step, PARAM_SEP, PART_SEP. cbn [N.eqb Pos.eqb].
    unfold pst_mid. cbn [params cur_param].
    rewrite upd_at by (now rewrite map_length).
    unfold param_add_part, mk_param, ADD_PART_CAP, MAX_PARAM_LEN. cbn [cur_part parts].
    rewrite app_length. cbn [length].
    assert (0 < length cur)%nat by (destruct cur; [congruence|cbn [length]; lia]).
    replace (Nat.min (length cur - 1 + 1) 5) with (length cur + 1 - 1)%nat by lia.
    replace (6 - length cur)%nat with (S (6 - (length cur + 1))) by lia.
    cbn [repeat]. rewrite <- app_assoc. reflexivity.
Qed.

(** ';' opens the next parameter *)
Lemma mid_semi k done cur i :
  (length done < 31)%nat ->
  quiet (pst_mid (k_param k) done cur i) [59] (pst_mid (k_param k) (done ++ [cur]) [0] i).
Proof.
  intros HL. apply quiet_one.
  - unfold feed_emit. cbn [pst pst_mid]. rewrite w_param_semi. reflexivity.
  - unfold feed_step. cbn [pst pst_mid]. rewrite w_param_semi. cbn [t_clear t_kind t_next].
    unfold param_step, PARAM_SEP, PARAMS_LEN. cbn [N.eqb Pos.eqb].
    unfold pst_mid. cbn [params cur_param].
    replace (length done + 1 =? 32)%nat with false by lia.
    rewrite map_app, app_length, <- app_assoc. cbn [map app length].
    replace (31 - length done)%nat with (S (31 - (length done + 1))) by lia.
    cbn [repeat]. rewrite mk_param_zero. destruct k; reflexivity.
Qed.

Lemma join_with_cons2 sep (x y : list N) r :
  join_with sep (x :: y :: r) = x ++ sep ++ join_with sep (y :: r).
Proof. reflexivity. Qed.

(** text of one parameter: its parts joined by ':' *)
Definition parts_str (c : list N) : list N := join_with [58] (map show_N c).

(** text of a parameter list *)
Definition params_body (pss : list (list N)) : list N := join_with [59] (map parts_str pss).

(** ':' is only legal inside CSI parameters *)
Definition parts_ok (k : pkind) (c : list N) : Prop :=
  (1 <= length c <= 6)%nat /\ Forall (fun n => n < 65536) c
  /\ match k with PCsi => True | PDcs => length c = 1%nat end.

Lemma mid_parts k done i : forall c cur,
  c <> [] -> (length cur + length c <= 6)%nat -> Forall (fun n => n < 65536) c ->
  (k = PDcs -> length c = 1%nat) ->
  quiet (pst_mid (k_param k) done (cur ++ [0]) i) (parts_str c)
        (pst_mid (k_param k) done (cur ++ c) i).
Proof.
  induction c as [|a c IH]; intros cur NE HL HF HK; [congruence|].
  pose proof (Forall_inv HF) as Ha. apply Forall_inv_tail in HF. cbn [length] in HL.
  destruct c as [|b c].
  - unfold parts_str. cbn [map join_with]. now apply mid_number.
  - unfold parts_str. cbn [map]. rewrite join_with_cons2.
    destruct k; [|specialize (HK eq_refl); discriminate HK].
    eapply quiet_app; [now apply (mid_number PCsi)|].
    eapply quiet_app.
    + apply mid_colon; [destruct cur; discriminate|rewrite app_length; cbn [length] in *; lia].
    + replace (cur ++ a :: b :: c) with ((cur ++ [a]) ++ b :: c) by (now rewrite <- app_assoc).
      apply (IH (cur ++ [a])); [discriminate| rewrite app_length; cbn [length] in *; lia | exact HF | discriminate].
Qed.

Lemma mid_params k i : forall rest c done,
  Forall (parts_ok k) (c :: rest) -> (length done + length (c :: rest) <= 32)%nat ->
  quiet (pst_mid (k_param k) done [0] i) (params_body (c :: rest))
        (pst_fin (k_param k) (done ++ c :: rest) i).
Proof.
  induction rest as [|c' rest IH]; intros c done HF HL.
  - pose proof (Forall_inv HF) as (L & F & K). cbn [length] in HL.
    unfold params_body. cbn [map join_with].
    rewrite <- pst_mid_fin by lia.
    apply (mid_parts k done i c []); [destruct c; [cbn in L; lia|discriminate]|cbn [length]; lia|exact F|].
    intros ->. exact K.
  - pose proof (Forall_inv HF) as (L & F & K). apply Forall_inv_tail in HF. cbn [length] in HL.
    unfold params_body. cbn [map]. rewrite join_with_cons2.
    eapply quiet_app.
    { apply (mid_parts k done i c []); [destruct c; [cbn in L; lia|discriminate]|cbn [length]; lia|exact F|].
      intros ->. exact K. }
    eapply quiet_app; [apply mid_semi; lia|].
    cbn [app]. replace (done ++ c :: c' :: rest) with ((done ++ [c]) ++ c' :: rest)
      by (now rewrite <- app_assoc).
    apply IH; [exact HF|rewrite app_length; cbn [length]; lia].
Qed.

(** the parser right after an introducer *)
Definition entry_p (k : pkind) : parser :=
  mkParser (k_entry k) (repeat default_param PARAMS_LEN) 0 None.

Definition marker_ok (m : option N) : Prop :=
  match m with None => True | Some c => 60 <= c <= 63 end.

Lemma intro_step k p : PInv p ->
  feed_emit p (k_intro k) = None /\ feed_step p (k_intro k) = entry_p k.
Proof.
  intros HP. unfold feed_emit, feed_step. rewrite w_intro. cbn [t_kind t_clear t_next].
  split; [reflexivity|]. rewrite clear_eq by exact HP. reflexivity.
Qed.

Lemma intro7_quiet p : PInv p -> quiet p [27; 91] (entry_p PCsi).
Proof.
  intros HP. apply quiet_cons.
  { unfold feed_emit. rewrite w_esc. reflexivity. }
  assert (E : feed_step p 27 = mkParser Escape (repeat default_param PARAMS_LEN) 0 None).
  { unfold feed_step. rewrite w_esc. cbn [t_kind t_clear t_next]. now rewrite clear_eq by exact HP. }
  rewrite E. apply quiet_one; reflexivity.
Qed.

Lemma quiet_swap_head p q d ds p' :
  feed_step p d = feed_step q d -> feed_emit p d = feed_emit q d ->
  quiet q (d :: ds) p' -> quiet p (d :: ds) p'.
Proof. intros S E [QS QE]. split; cbn [run_step run_emit] in *; now rewrite ?S, ?E. Qed.

Lemma parts_str_cons k c : parts_ok k c ->
  exists d ds, parts_str c = d :: ds /\ 48 <= d <= 57.
Proof.
  intros (L & F & _). destruct c as [|a c]; [cbn in L; lia|].
  pose proof (Forall_inv F) as Ha. cbv beta in Ha. apply u16_lt_pow in Ha.
  destruct (show_N_cons a Ha) as (d & ds & E & Hd & _).
  unfold parts_str. cbn [map]. destruct c as [|b c].
  - cbn [map join_with]. rewrite E. eauto.
  - cbn [map]. rewrite join_with_cons2, E. cbn [app]. eauto.
Qed.

Lemma params_body_cons k pss : pss <> [] -> Forall (parts_ok k) pss ->
  exists d ds, params_body pss = d :: ds /\ 48 <= d <= 57.
Proof.
  intros NE HF. destruct pss as [|c rest]; [congruence|].
  destruct (parts_str_cons k c (Forall_inv HF)) as (d & ds & E & Hd).
  unfold params_body. cbn [map]. destruct rest as [|c' rest].
  - cbn [map join_with]. rewrite E. eauto.
  - cbn [map]. rewrite join_with_cons2, E. cbn [app]. eauto.
Qed.

Lemma entry_quiet k marker pss :
  marker_ok marker -> pss <> [] -> Forall (parts_ok k) pss -> (length pss <= 32)%nat ->
  quiet (entry_p k) (opt_to_list marker ++ params_body pss) (pst_fin (k_param k) pss marker).
Proof.
  intros HM NE HF HL.
  assert (Q : forall i, quiet (pst_mid (k_param k) [] [0] i) (params_body pss) (pst_fin (k_param k) pss i)).
  { intros i. destruct pss as [|c rest]; [congruence|].
    apply (mid_params k i rest c []); [exact HF|cbn [length] in *; lia]. }
  destruct marker as [m|]; cbn [opt_to_list app].
  - cbn [marker_ok] in HM. apply quiet_cons.
    + unfold feed_emit. cbn [pst entry_p]. rewrite w_entry_marker by exact HM. reflexivity.
    + replace (feed_step (entry_p k) m) with (pst_mid (k_param k) [] [0] (Some m)); [apply Q|].
      unfold feed_step. cbn [pst entry_p]. rewrite w_entry_marker by exact HM. reflexivity.
  - destruct (params_body_cons k pss NE HF) as (d & ds & E & Hd).
    specialize (Q None). rewrite E in *.
    destruct (entry_digit k (entry_p k) d eq_refl Hd) as [E1 S1].
    assert (HS' : pst (pst_mid (k_param k) [] [0] None) = k_param k) by reflexivity.
    destruct (digit_step_k k _ d HS' Hd) as [E2 _].
    eapply quiet_swap_head; [| |exact Q].
    + rewrite S1. reflexivity.
    + rewrite E1, E2. reflexivity.
Qed.

Lemma csi_final_step pss i fin : 64 <= fin <= 126 ->
  feed_step (pst_fin CsiParam pss i) fin = pst_fin Ground pss i
  /\ feed_emit (pst_fin CsiParam pss i) fin
     = csi_dispatch_gen i fin (csi_params pss) (length pss - 1).
Proof.
  intros H. unfold feed_step, feed_emit. cbn [pst pst_fin].
  rewrite w_csi_param_final by exact H. split; reflexivity.
Qed.

Definition intro_ok (intro : list N) : Prop := intro = [155] \/ intro = [27; 91].

Lemma intro_quiet p intro : PInv p -> intro_ok intro -> quiet p intro (entry_p PCsi).
Proof.
  intros HP [->| ->]; [|now apply intro7_quiet].
  destruct (intro_step PCsi p HP) as [E S]. now apply quiet_one.
Qed.

(** a CSI sequence: introducer, optional private marker, parameters, final byte *)
Definition csi_seq (intro : list N) (marker : option N) (pss : list (list N)) (fin : N) : list N :=
  intro ++ opt_to_list marker ++ params_body pss ++ [fin].

Theorem run_csi_gen : forall p intro marker pss fin,
  PInv p -> intro_ok intro -> marker_ok marker ->
  pss <> [] -> (length pss <= 32)%nat -> Forall (parts_ok PCsi) pss -> 64 <= fin <= 126 ->
  exists p',
    runP p (csi_seq intro marker pss fin)
    = Ok (p', opt_to_list (csi_dispatch_gen marker fin (csi_params pss) (length pss - 1)))
    /\ p' = pst_fin Ground pss marker /\ pst p' = Ground /\ PInv p'.
Proof.
  intros p intro marker pss fin HP HI HM NE HL HF Hfin.
  pose proof (intro_quiet p intro HP HI) as Q1.
  pose proof (entry_quiet PCsi marker pss HM NE HF HL) as Q2.
  change (k_param PCsi) with CsiParam in Q2.
  pose proof (quiet_app _ _ _ _ _ Q1 Q2) as Q.
  destruct (csi_final_step pss marker fin Hfin) as [S E].
  exists (run_step p (csi_seq intro marker pss fin)).
  rewrite runP_char by exact HP.
  assert (ES : run_step p (csi_seq intro marker pss fin) = pst_fin Ground pss marker
               /\ run_emit p (csi_seq intro marker pss fin)
                  = opt_to_list (csi_dispatch_gen marker fin (csi_params pss) (length pss - 1))).
  { unfold csi_seq. rewrite !app_assoc. rewrite <- (app_assoc intro).
    destruct (run_after_quiet _ _ _ [fin] Q) as [RS RE]. rewrite RS, RE.
    cbn [run_step run_emit]. rewrite S, E. split; [reflexivity|].
    destruct (csi_dispatch_gen _ _ _ _); reflexivity. }
  destruct ES as [ES EE]. rewrite EE. split; [reflexivity|].
  split; [exact ES|]. split; [now rewrite ES|]. now apply run_step_inv.
Qed.
Print Assumptions run_csi_gen.

(** ** numeric parameters without sub-parameters *)

Definition num_params (ns : list N) : list param :=
  map (fun n => mkParam 0 (n :: repeat 0 5)) ns ++ repeat default_param (PARAMS_LEN - length ns).

Lemma csi_params_single ns : csi_params (map (fun n => [n]) ns) = num_params ns.
Proof. unfold csi_params, num_params. rewrite map_map, map_length. reflexivity. Qed.

Lemma params_body_single ns :
  params_body (map (fun n => [n]) ns) = join_with [59] (map show_N ns).
Proof. unfold params_body. rewrite map_map. reflexivity. Qed.

Lemma parts_ok_single k ns :
  Forall (fun n => n < 65536) ns -> Forall (parts_ok k) (map (fun n => [n]) ns).
Proof.
  intros H. apply Forall_map. apply Forall_impl with (2 := H). intros n Hn.
  unfold parts_ok. cbn [length]. repeat split; try lia; [now constructor|destruct k; auto].
Qed.

Definition csi_bytes (ns : list N) (fin : N) : list N :=
  155 :: join_with [59] (map show_N ns) ++ [fin].

Definition csi_bytes7 (ns : list N) (fin : N) : list N :=
  27 :: 91 :: join_with [59] (map show_N ns) ++ [fin].

(** general form: either introducer, optional private marker *)
Theorem run_csi_nums : forall p intro marker ns fin,
  PInv p -> intro_ok intro -> marker_ok marker ->
  (length ns <= 32)%nat -> ns <> [] -> Forall (fun n => n < 65536) ns -> 64 <= fin <= 126 ->
  exists p',
    runP p (intro ++ opt_to_list marker ++ join_with [59] (map show_N ns) ++ [fin])
    = Ok (p', opt_to_list (csi_dispatch_gen marker fin (num_params ns) (length ns - 1)))
    /\ pst p' = Ground /\ PInv p'.
Proof.
  intros p intro marker ns fin HP HI HM HL NE HF Hfin.
  destruct (run_csi_gen p intro marker (map (fun n => [n]) ns) fin HP HI HM)
    as (p' & R & _ & G & I); try assumption.
  - destruct ns; [congruence|discriminate].
  - now rewrite map_length.
  - now apply parts_ok_single.
  - exists p'. unfold csi_seq in R.
    rewrite params_body_single, csi_params_single, map_length in R. auto.
Qed.
Print Assumptions run_csi_nums.

Theorem run_csi : forall p ns fin,
  PInv p -> pst p = Ground ->
  (length ns <= 32)%nat -> ns <> [] -> Forall (fun n => n < 65536) ns -> 64 <= fin <= 126 ->
  exists p',
    runP p (csi_bytes ns fin)
    = Ok (p', opt_to_list (csi_dispatch_gen None fin (num_params ns) (length ns - 1)))
    /\ pst p' = Ground /\ PInv p'.
Proof.
  intros p ns fin HP _. apply (run_csi_nums p [155] None ns fin HP); [now left|exact I].
Qed.
Print Assumptions run_csi.

Theorem run_csi7 : forall p ns fin,
  PInv p -> pst p = Ground ->
  (length ns <= 32)%nat -> ns <> [] -> Forall (fun n => n < 65536) ns -> 64 <= fin <= 126 ->
  exists p',
    runP p (csi_bytes7 ns fin)
    = Ok (p', opt_to_list (csi_dispatch_gen None fin (num_params ns) (length ns - 1)))
    /\ pst p' = Ground /\ PInv p'.
Proof.
  intros p ns fin HP _. apply (run_csi_nums p [27; 91] None ns fin HP); [now right|exact I].
Qed.
Print Assumptions run_csi7.

(** with the private marker '?' *)
Theorem run_csi_private : forall p ns fin,
  PInv p -> pst p = Ground ->
  (length ns <= 32)%nat -> ns <> [] -> Forall (fun n => n < 65536) ns -> 64 <= fin <= 126 ->
  exists p',
    runP p (155 :: 63 :: join_with [59] (map show_N ns) ++ [fin])
    = Ok (p', opt_to_list (csi_dispatch_gen (Some 63) fin (num_params ns) (length ns - 1)))
    /\ pst p' = Ground /\ PInv p'.
Proof.
  intros p ns fin HP _.
  apply (run_csi_nums p [155] (Some 63) ns fin HP); [now left|cbn; lia].
Qed.
Print Assumptions run_csi_private.

(** ** no parameters at all *)

Lemma runP_finish p s fs :
  PInv p -> run_emit p s = fs -> pst (run_step p s) = Ground ->
  exists p', runP p s = Ok (p', fs) /\ pst p' = Ground /\ PInv p'.
Proof.
  intros HP E G. exists (run_step p s). rewrite runP_char by exact HP. rewrite E.
  split; [reflexivity|]. split; [exact G|now apply run_step_inv].
Qed.

Theorem run_csi_empty : forall p intro fin,
  PInv p -> intro_ok intro -> 64 <= fin <= 126 ->
  exists p',
    runP p (intro ++ [fin])
    = Ok (p', opt_to_list (csi_dispatch_gen None fin (repeat default_param PARAMS_LEN) 0))
    /\ pst p' = Ground /\ PInv p'.
Proof.
  intros p intro fin HP HI Hfin. pose proof (intro_quiet p intro HP HI) as Q.
  destruct (run_after_quiet _ _ _ [fin] Q) as [RS RE].
  apply runP_finish; [exact HP| |].
  - rewrite RE. cbn [run_emit]. unfold feed_emit. cbn [pst entry_p k_entry].
    rewrite w_csi_entry_final by exact Hfin. cbn [t_kind params inter cur_param entry_p].
    destruct (csi_dispatch_gen _ _ _ _); reflexivity.
  - rewrite RS. cbn [run_step]. unfold feed_step. cbn [pst entry_p k_entry].
    rewrite w_csi_entry_final by exact Hfin. reflexivity.
Qed.
Print Assumptions run_csi_empty.

(** * the concrete shapes written by [Terminal::dump] *)

(** one and two numeric parameters, in the association used by Model/Dump.v *)
Lemma run_csi1 : forall p intro n fin,
  PInv p -> intro_ok intro -> n < 65536 -> 64 <= fin <= 126 ->
  exists p',
    runP p (intro ++ show_N n ++ [fin])
    = Ok (p', opt_to_list (csi_dispatch_gen None fin (num_params [n]) 0))
    /\ pst p' = Ground /\ PInv p'.
Proof.
  intros p intro n fin HP HI Hn Hfin.
  apply (run_csi_nums p intro None [n] fin HP HI I); auto; [cbn; lia|discriminate].
Qed.

Lemma run_csi2 : forall p intro a b fin,
  PInv p -> intro_ok intro -> a < 65536 -> b < 65536 -> 64 <= fin <= 126 ->
  exists p',
    runP p (intro ++ show_N a ++ [59] ++ show_N b ++ [fin])
    = Ok (p', opt_to_list (csi_dispatch_gen None fin (num_params [a; b]) 1))
    /\ pst p' = Ground /\ PInv p'.
Proof.
  intros p intro a b fin HP HI Ha Hb Hfin.
  destruct (run_csi_nums p intro None [a; b] fin HP HI I) as (p' & R & H); auto;
    [cbn; lia|discriminate|].
  exists p'. split; [|exact H].
  replace (intro ++ show_N a ++ [59] ++ show_N b ++ [fin])
    with (intro ++ opt_to_list None ++ join_with [59] (map show_N [a; b]) ++ [fin]); [exact R|].
  cbn [opt_to_list map join_with app]. now rewrite <- !app_assoc.
Qed.

Ltac csi1 p intro n fin HP Hn :=
  let p' := fresh "p'" in let R := fresh "R" in let H := fresh "H" in
  destruct (run_csi1 p intro n fin HP ltac:(first [now left|now right]) Hn ltac:(lia))
    as (p' & R & H);
  exists p'; split; [exact R|exact H].

Corollary run_rep : forall p n, PInv p -> pst p = Ground -> n < 65536 ->
  exists p', runP p (155 :: show_N n ++ [98]) = Ok (p', [Rep n]) /\ pst p' = Ground /\ PInv p'.
Proof. intros p n HP _ Hn. csi1 p [155] n 98 HP Hn. Qed.

(** [Buffer::dump] writes REP with the 7-bit introducer *)
Corollary run_rep7 : forall p n, PInv p -> pst p = Ground -> n < 65536 ->
  exists p', runP p (27 :: 91 :: show_N n ++ [98]) = Ok (p', [Rep n]) /\ pst p' = Ground /\ PInv p'.
Proof. intros p n HP _ Hn. csi1 p [27; 91] n 98 HP Hn. Qed.

Corollary run_cha : forall p n, PInv p -> pst p = Ground -> n < 65536 ->
  exists p', runP p (155 :: show_N n ++ [96]) = Ok (p', [Cha n]) /\ pst p' = Ground /\ PInv p'.
Proof. intros p n HP _ Hn. csi1 p [155] n 96 HP Hn. Qed.

Corollary run_cuu : forall p n, PInv p -> pst p = Ground -> n < 65536 ->
  exists p', runP p (155 :: show_N n ++ [65]) = Ok (p', [Cuu n]) /\ pst p' = Ground /\ PInv p'.
Proof. intros p n HP _ Hn. csi1 p [155] n 65 HP Hn. Qed.

Corollary run_cud : forall p n, PInv p -> pst p = Ground -> n < 65536 ->
  exists p', runP p (155 :: show_N n ++ [66]) = Ok (p', [Cud n]) /\ pst p' = Ground /\ PInv p'.
Proof. intros p n HP _ Hn. csi1 p [155] n 66 HP Hn. Qed.

Corollary run_cuf : forall p n, PInv p -> pst p = Ground -> n < 65536 ->
  exists p', runP p (155 :: show_N n ++ [67]) = Ok (p', [Cuf n]) /\ pst p' = Ground /\ PInv p'.
Proof. intros p n HP _ Hn. csi1 p [155] n 67 HP Hn. Qed.

Corollary run_cub : forall p n, PInv p -> pst p = Ground -> n < 65536 ->
  exists p', runP p (155 :: show_N n ++ [68]) = Ok (p', [Cub n]) /\ pst p' = Ground /\ PInv p'.
Proof. intros p n HP _ Hn. csi1 p [155] n 68 HP Hn. Qed.

Corollary run_cup : forall p r c, PInv p -> pst p = Ground -> r < 65536 -> c < 65536 ->
  exists p', runP p (155 :: show_N r ++ [59] ++ show_N c ++ [72]) = Ok (p', [Cup r c])
    /\ pst p' = Ground /\ PInv p'.
Proof.
  intros p r c HP _ Hr Hc.
  destruct (run_csi2 p [155] r c 72 HP ltac:(now left) Hr Hc ltac:(lia)) as (p' & R & H).
  exists p'. split; [exact R|exact H].
Qed.

Corollary run_decstbm : forall p t b, PInv p -> pst p = Ground -> t < 65536 -> b < 65536 ->
  exists p', runP p (155 :: show_N t ++ [59] ++ show_N b ++ [114]) = Ok (p', [Decstbm t b])
    /\ pst p' = Ground /\ PInv p'.
Proof.
  intros p t b HP _ Ht Hb.
  destruct (run_csi2 p [155] t b 114 HP ltac:(now left) Ht Hb ltac:(lia)) as (p' & R & H).
  exists p'. split; [exact R|exact H].
Qed.
Print Assumptions run_cup.

(** ** closed sequences: after the introducer the parser is a concrete value *)

Definition esc_p : parser := mkParser Escape (repeat default_param PARAMS_LEN) 0 None.

Lemma run_intro8 p r : PInv p ->
  run_step p (155 :: r) = run_step (entry_p PCsi) r
  /\ run_emit p (155 :: r) = run_emit (entry_p PCsi) r.
Proof.
  intros HP. destruct (intro_step PCsi p HP) as [E S]. cbn [k_intro] in *.
  cbn [run_step run_emit]. now rewrite E, S.
Qed.

Lemma run_esc p r : PInv p ->
  run_step p (27 :: r) = run_step esc_p r /\ run_emit p (27 :: r) = run_emit esc_p r.
Proof.
  intros HP. cbn [run_step run_emit].
  assert (E : feed_emit p 27 = None) by (unfold feed_emit; now rewrite w_esc).
  assert (S : feed_step p 27 = esc_p).
  { unfold feed_step. rewrite w_esc. cbn [t_kind t_clear t_next]. now rewrite clear_eq by exact HP. }
  now rewrite E, S.
Qed.

Ltac closed8 HP :=
  apply runP_finish;
  [ exact HP
  | rewrite (proj2 (run_intro8 _ _ HP)); vm_compute; reflexivity
  | rewrite (proj1 (run_intro8 _ _ HP)); vm_compute; reflexivity ].

Ltac closed_esc HP :=
  apply runP_finish;
  [ exact HP
  | rewrite (proj2 (run_esc _ _ HP)); vm_compute; reflexivity
  | rewrite (proj1 (run_esc _ _ HP)); vm_compute; reflexivity ].

(** CSI 5 W *)
Corollary run_ctc_clear_all : forall p, PInv p -> pst p = Ground ->
  exists p', runP p [155; 53; 87] = Ok (p', [Ctc CtcClearAll]) /\ pst p' = Ground /\ PInv p'.
Proof. intros p HP _. closed8 HP. Qed.

(** ESC [ W *)
Corollary run_ctc_set : forall p, PInv p -> pst p = Ground ->
  exists p', runP p [27; 91; 87] = Ok (p', [Ctc CtcSet]) /\ pst p' = Ground /\ PInv p'.
Proof. intros p HP _. closed_esc HP. Qed.

(** ESC [ m *)
Corollary run_sgr_reset : forall p, PInv p -> pst p = Ground ->
  exists p', runP p [27; 91; 109] = Ok (p', [Sgr [Reset]]) /\ pst p' = Ground /\ PInv p'.
Proof. intros p HP _. closed_esc HP. Qed.

(** CSI u *)
Corollary run_scorc : forall p, PInv p -> pst p = Ground ->
  exists p', runP p [155; 117] = Ok (p', [Scorc]) /\ pst p' = Ground /\ PInv p'.
Proof. intros p HP _. closed8 HP. Qed.

(** CSI ? 6 h / l, CSI ? 7 h / l, CSI ? 25 l, CSI ? 1 h, CSI ? 1047 h / l *)
Corollary run_decset_origin : forall p, PInv p -> pst p = Ground ->
  exists p', runP p [155; 63; 54; 104] = Ok (p', [Decset [Origin]]) /\ pst p' = Ground /\ PInv p'.
Proof. intros p HP _. closed8 HP. Qed.

Corollary run_decrst_origin : forall p, PInv p -> pst p = Ground ->
  exists p', runP p [155; 63; 54; 108] = Ok (p', [Decrst [Origin]]) /\ pst p' = Ground /\ PInv p'.
Proof. intros p HP _. closed8 HP. Qed.

Corollary run_decset_awm : forall p, PInv p -> pst p = Ground ->
  exists p', runP p [155; 63; 55; 104] = Ok (p', [Decset [AutoWrap]]) /\ pst p' = Ground /\ PInv p'.
Proof. intros p HP _. closed8 HP. Qed.

Corollary run_decrst_awm : forall p, PInv p -> pst p = Ground ->
  exists p', runP p [155; 63; 55; 108] = Ok (p', [Decrst [AutoWrap]]) /\ pst p' = Ground /\ PInv p'.
Proof. intros p HP _. closed8 HP. Qed.

Corollary run_decrst_cursor : forall p, PInv p -> pst p = Ground ->
  exists p', runP p [155; 63; 50; 53; 108] = Ok (p', [Decrst [TextCursorEnable]])
    /\ pst p' = Ground /\ PInv p'.
Proof. intros p HP _. closed8 HP. Qed.

Corollary run_decset_ckm : forall p, PInv p -> pst p = Ground ->
  exists p', runP p [155; 63; 49; 104] = Ok (p', [Decset [CursorKeys]]) /\ pst p' = Ground /\ PInv p'.
Proof. intros p HP _. closed8 HP. Qed.

Corollary run_decset_alt : forall p, PInv p -> pst p = Ground ->
  exists p', runP p [155; 63; 49; 48; 52; 55; 104] = Ok (p', [Decset [AltScreenBuffer]])
    /\ pst p' = Ground /\ PInv p'.
Proof. intros p HP _. closed8 HP. Qed.

Corollary run_decrst_alt : forall p, PInv p -> pst p = Ground ->
  exists p', runP p [155; 63; 49; 48; 52; 55; 108] = Ok (p', [Decrst [AltScreenBuffer]])
    /\ pst p' = Ground /\ PInv p'.
Proof. intros p HP _. closed8 HP. Qed.

(** CSI 4 h, CSI 20 h *)
Corollary run_sm_insert : forall p, PInv p -> pst p = Ground ->
  exists p', runP p [155; 52; 104] = Ok (p', [Sm [Insert]]) /\ pst p' = Ground /\ PInv p'.
Proof. intros p HP _. closed8 HP. Qed.

Corollary run_sm_newline : forall p, PInv p -> pst p = Ground ->
  exists p', runP p [155; 50; 48; 104] = Ok (p', [Sm [NewLine]]) /\ pst p' = Ground /\ PInv p'.
Proof. intros p HP _. closed8 HP. Qed.

(** CSI 1 ; 1 H *)
Corollary run_cup_home : forall p, PInv p -> pst p = Ground ->
  exists p', runP p [155; 49; 59; 49; 72] = Ok (p', [Cup 1 1]) /\ pst p' = Ground /\ PInv p'.
Proof. intros p HP _. closed8 HP. Qed.

(** ESC 7, ESC ( 0, ESC ) 0 *)
Corollary run_decsc : forall p, PInv p -> pst p = Ground ->
  exists p', runP p [27; 55] = Ok (p', [Decsc]) /\ pst p' = Ground /\ PInv p'.
Proof. intros p HP _. closed_esc HP. Qed.

Corollary run_g0_drawing : forall p, PInv p -> pst p = Ground ->
  exists p', runP p [27; 40; 48] = Ok (p', [Gzd4 CsDrawing]) /\ pst p' = Ground /\ PInv p'.
Proof. intros p HP _. closed_esc HP. Qed.

Corollary run_g1_drawing : forall p, PInv p -> pst p = Ground ->
  exists p', runP p [27; 41; 48] = Ok (p', [G1d4 CsDrawing]) /\ pst p' = Ground /\ PInv p'.
Proof. intros p HP _. closed_esc HP. Qed.

(** ** single characters in ground state *)

Lemma ground_step p c t :
  pst p = Ground -> williams Ground c = t -> t_clear t = false ->
  t_kind t = KExecute \/ t_kind t = KPrint ->
  feed_step p c = p <| pst := t_next t |>.
Proof.
  intros G W C K. unfold feed_step. rewrite G, W, C. destruct K as [-> | ->]; reflexivity.
Qed.

Lemma run_exec_ground p c f :
  PInv p -> pst p = Ground -> williams Ground c = mkTrans Ground KExecute false ->
  execute_gen c = Some f ->
  exists p', runP p [c] = Ok (p', [f]) /\ pst p' = Ground /\ PInv p'.
Proof.
  intros HP G W X. apply runP_finish; [exact HP| |].
  - cbn [run_emit]. unfold feed_emit. rewrite G, W. cbn [t_kind]. now rewrite X.
  - cbn [run_step]. rewrite (ground_step p c _ G W); [reflexivity|reflexivity|now left].
Qed.

Corollary run_so : forall p, PInv p -> pst p = Ground ->
  exists p', runP p [14] = Ok (p', [So]) /\ pst p' = Ground /\ PInv p'.
Proof. intros p HP G. now apply (run_exec_ground p 14 So). Qed.

Corollary run_cr : forall p, PInv p -> pst p = Ground ->
  exists p', runP p [13] = Ok (p', [Cr]) /\ pst p' = Ground /\ PInv p'.
Proof. intros p HP G. now apply (run_exec_ground p 13 Cr). Qed.

Corollary run_lf : forall p, PInv p -> pst p = Ground ->
  exists p', runP p [10] = Ok (p', [Lf]) /\ pst p' = Ground /\ PInv p'.
Proof. intros p HP G. now apply (run_exec_ground p 10 Lf). Qed.

Lemma w_ground_print : forall c, 32 <= c <= 127 -> williams Ground c = mkTrans Ground KPrint false.
Proof. apply row_is_spec. vm_compute. reflexivity. Qed.

Lemma w_ground_print_high : forall c, 160 <= c -> williams Ground c = mkTrans Ground KPrint false.
Proof. intros c H. rewrite (williams_high Ground c H). reflexivity. Qed.

Corollary run_print : forall p c, PInv p -> pst p = Ground -> 32 <= c <= 127 \/ 160 <= c ->
  exists p', runP p [c] = Ok (p', [Print c]) /\ p' = p /\ pst p' = Ground /\ PInv p'.
Proof.
  intros p c HP G Hc.
  assert (W : williams Ground c = mkTrans Ground KPrint false)
    by (destruct Hc; [now apply w_ground_print|now apply w_ground_print_high]).
  exists p. rewrite runP_char by exact HP. cbn [run_step run_emit]. unfold feed_emit.
  rewrite (ground_step p c _ G W); [|reflexivity|now right].
  rewrite G, W. cbn [t_kind t_next opt_cons]. rewrite <- G, set_pst_same. auto.
Qed.
Print Assumptions run_print.

(** ** the literal strings of Model/Dump.v are these code lists *)
Module DumpStrings.
  Import Avt.Model.Dump Coq.Strings.String.
  Lemma str_5W : CSI :: str "5W"%string = [155; 53; 87]. Proof. reflexivity. Qed.
  Lemma str_q7l : CSI :: str "?7l"%string = [155; 63; 55; 108]. Proof. reflexivity. Qed.
  Lemma str_q7h : CSI :: str "?7h"%string = [155; 63; 55; 104]. Proof. reflexivity. Qed.
  Lemma str_q6l : CSI :: str "?6l"%string = [155; 63; 54; 108]. Proof. reflexivity. Qed.
  Lemma str_q6h : CSI :: str "?6h"%string = [155; 63; 54; 104]. Proof. reflexivity. Qed.
  Lemma str_q25l : CSI :: str "?25l"%string = [155; 63; 50; 53; 108]. Proof. reflexivity. Qed.
  Lemma str_q1h : CSI :: str "?1h"%string = [155; 63; 49; 104]. Proof. reflexivity. Qed.
  Lemma str_q1047h : CSI :: str "?1047h"%string = [155; 63; 49; 48; 52; 55; 104]. Proof. reflexivity. Qed.
  Lemma str_q1047l : CSI :: str "?1047l"%string = [155; 63; 49; 48; 52; 55; 108]. Proof. reflexivity. Qed.
  Lemma str_4h : CSI :: str "4h"%string = [155; 52; 104]. Proof. reflexivity. Qed.
  Lemma str_20h : CSI :: str "20h"%string = [155; 50; 48; 104]. Proof. reflexivity. Qed.
  Lemma str_11H : CSI :: str "1;1H"%string = [155; 49; 59; 49; 72]. Proof. reflexivity. Qed.
  Lemma str_g0 : ESC :: str "(0"%string = [27; 40; 48]. Proof. reflexivity. Qed.
  Lemma str_g1 : ESC :: str ")0"%string = [27; 41; 48]. Proof. reflexivity. Qed.
  Lemma show_nat_N n : show_nat n = show_N (N.of_nat n). Proof. reflexivity. Qed.
End DumpStrings.
