(** The specification parser of [Oracles/Step.v] (Williams' table + hand-written function table) IS the model's parser. *)
From Avt Require Import Oracles.Step Spec.Williams Spec.Functions Proofs.Inv Proofs.ParserInv Proofs.DispatchTable.

Lemma spec_emit_feed_emit p c : spec_emit p c = feed_emit p c.
Proof.
  unfold spec_emit, feed_emit. destruct (t_kind (williams (pst p) c));
    first [ reflexivity
          | symmetry; apply execute_table
          | symmetry; apply (proj1 (esc_table (inter p) c))
          | symmetry; apply csi_table ].
Qed.

Theorem spec_feed_is_feedM : forall p c, PInv p -> feedM p c = Ok (spec_feed p c).
Proof.
  intros p c H. rewrite (feedM_char p c H). unfold spec_feed. rewrite spec_emit_feed_emit. reflexivity.
Qed.

Print Assumptions spec_feed_is_feedM.
