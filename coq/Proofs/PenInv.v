(** Well-formed pens everywhere in the state (definitions only): colour components fit a
    byte and the attribute set uses only the five defined bits.  Under this invariant two
    pens with the same public observations are equal. *)

From Avt Require Export Model.Vt Spec.Screen Proofs.DumpPen.

Definition pen_wf (p : pen) : Prop := pen_ok p /\ (attrs p < 32)%N.

Definition cells_wf (l : list cell) : Prop := Forall (fun c => pen_wf (cpen c)) l.
Definition lines_wf (ls : list line) : Prop := Forall (fun l => cells_wf (cells l)) ls.

Definition PensInv (t : term) : Prop :=
  pen_wf (tpen t) /\ lines_wf (lines (buf t)) /\ lines_wf (lines (other t))
  /\ pen_wf (sc_pen (sctx t)) /\ pen_wf (sc_pen (asctx t)).
