(** The parser invariant [PInv] is preserved by [feedM], the parser never panics, and
    [feedM] is completely characterised by Williams' table ([feedM_char]):
    next state, emitted function and the effect on the collected data. *)

From Avt Require Import Model.Parser Spec.Williams Proofs.Inv Proofs.ParserTable.
Require Import Lia ZArith ZifyBool ZifyNat ZifyN.
Local Open Scope N_scope.

Ltac Zify.zify_post_hook ::= Z.div_mod_to_equations.

#[local] Arguments N.add : simpl never.
#[local] Arguments N.sub : simpl never.
#[local] Arguments N.mul : simpl never.
#[local] Arguments N.eqb : simpl never.
#[local] Arguments N.ltb : simpl never.
#[local] Arguments N.leb : simpl never.
#[local] Arguments N.modulo : simpl never.
#[local] Arguments N.div : simpl never.

(** * generic list facts *)

Section ListFacts.
  Context {A : Type}.

  Lemma upd_nil i (f : A -> A) : upd i f [] = [].
  Proof. unfold upd. now rewrite skipn_nil. Qed.

  Lemma upd_0_cons (f : A -> A) x l : upd 0 f (x :: l) = f x :: l.
  Proof. reflexivity. Qed.

  Lemma upd_S_cons i (f : A -> A) x l : upd (S i) f (x :: l) = x :: upd i f l.
  Proof. unfold upd. cbn [skipn firstn]. destruct (skipn i l); reflexivity. Qed.

  Lemma upd_length i (f : A -> A) l : length (upd i f l) = length l.
  Proof.
    revert i; induction l as [|x l IH]; intros i.
    - now rewrite upd_nil.
    - destruct i; [reflexivity|]. rewrite upd_S_cons. cbn [length]. now rewrite IH.
  Qed.

  Lemma nth_upd_same i (f : A -> A) l d :
    (i < length l)%nat -> nth i (upd i f l) d = f (nth i l d).
  Proof.
    revert i; induction l as [|x l IH]; intros i H; cbn [length] in H; [lia|].
    destruct i; [reflexivity|]. rewrite upd_S_cons. cbn [nth]. apply IH. lia.
  Qed.

  Lemma nth_upd_other i j (f : A -> A) l d :
    j <> i -> nth j (upd i f l) d = nth j l d.
  Proof.
    revert i j; induction l as [|x l IH]; intros i j H.
    - now rewrite upd_nil.
    - destruct i.
      + destruct j; [congruence|reflexivity].
      + rewrite upd_S_cons. destruct j; [reflexivity|]. cbn [nth]. apply IH. congruence.
  Qed.

  Lemma nth_error_upd_same i (f : A -> A) l x :
    nth_error l i = Some x -> nth_error (upd i f l) i = Some (f x).
  Proof.
    revert i; induction l as [|y l IH]; intros i H.
    - destruct i; discriminate.
    - destruct i.
      + cbn in H. injection H as ->. reflexivity.
      + rewrite upd_S_cons. cbn [nth_error] in *. now apply IH.
  Qed.

  Lemma Forall_upd (P : A -> Prop) i (f : A -> A) l :
    Forall P l -> (forall x, P x -> P (f x)) -> Forall P (upd i f l).
  Proof.
    intros H Hf. revert i; induction H as [|x l Hx Hl IH]; intros i.
    - rewrite upd_nil. constructor.
    - destruct i.
      + rewrite upd_0_cons. constructor; auto.
      + rewrite upd_S_cons. constructor; auto.
  Qed.

  (** [upd] only changes index [i], and there to [f] of the old value *)
  Lemma upd_ext_in i (f g : A -> A) l d :
    f (nth i l d) = g (nth i l d) -> upd i f l = upd i g l.
  Proof.
    revert i; induction l as [|x l IH]; intros i H.
    - now rewrite !upd_nil.
    - destruct i.
      + cbn [nth] in H. rewrite !upd_0_cons. now rewrite H.
      + rewrite !upd_S_cons. f_equal. apply IH. exact H.
  Qed.

  Lemma firstn_In n (l : list A) x : In x (firstn n l) -> In x l.
  Proof.
    revert l; induction n as [|n IH]; intros l H; [destruct H|].
    destruct l as [|y l]; [destruct H|]. cbn [firstn] in H. destruct H as [->|H]; [now left|].
    right. now apply IH.
  Qed.

  Lemma Forall_skipn_const (d : A) n l :
    (forall i, (n <= i)%nat -> (i < length l)%nat -> nth i l d = d) ->
    Forall (eq d) (skipn n l).
  Proof.
    revert l; induction n as [|n IH]; intros l H.
    - cbn [skipn]. apply Forall_nth. intros i d' Hi.
      rewrite (nth_indep l d' d Hi). symmetry. apply H; lia.
    - destruct l as [|x l]; [constructor|]. cbn [skipn]. apply IH.
      intros i H1 H2. apply (H (S i)); cbn [length]; lia.
  Qed.

  Lemma Forall_eq_repeat (d : A) l : Forall (eq d) l -> l = repeat d (length l).
  Proof.
    induction 1 as [|x l Hx Hl IH]; [reflexivity|]. cbn [length repeat]. subst x. now f_equal.
  Qed.
End ListFacts.

(** * record projections through updates *)

Lemma PInv_ext p q :
  params p = params q -> cur_param p = cur_param q -> PInv p -> PInv q.
Proof. unfold PInv. intros -> ->. tauto. Qed.

Lemma PInv_set_pst p s : PInv p -> PInv (p <| pst := s |>).
Proof. apply PInv_ext; reflexivity. Qed.

(** * Param *)

Lemma ParamInv_default : ParamInv default_param.
Proof.
  unfold ParamInv, default_param, MAX_PARAM_LEN. cbn [parts cur_part repeat length].
  repeat split; try lia.
  - repeat constructor.
  - intros i _. do 7 (destruct i as [|i]; [reflexivity|]). reflexivity.
Qed.

Lemma param_clear_default q : ParamInv q -> param_clear q = default_param.
Proof.
  destruct q as [cp ps]. unfold ParamInv, param_clear, default_param, MAX_PARAM_LEN, fill_range.
  cbn [parts cur_part]. intros (L & C & _ & Z).
  do 7 (destruct ps as [|? ps]; try discriminate L).
  pose proof (Z 1%nat) as Z1. pose proof (Z 2%nat) as Z2. pose proof (Z 3%nat) as Z3.
  pose proof (Z 4%nat) as Z4. pose proof (Z 5%nat) as Z5. cbn [nth] in *.
  do 6 (destruct cp as [|cp];
        [ cbn [firstn skipn repeat Nat.sub app];
          rewrite ?Z1, ?Z2, ?Z3, ?Z4, ?Z5 by lia; reflexivity |]).
  lia.
Qed.

Lemma param_clear_ok_inv q : ParamInv q -> param_clear_ok q = true.
Proof. unfold ParamInv, param_clear_ok. intros (L & C & _). rewrite L. apply Nat.ltb_lt. exact C. Qed.

Lemma param_add_part_inv q : ParamInv q -> ParamInv (param_add_part q).
Proof.
  unfold ParamInv, param_add_part, MAX_PARAM_LEN, ADD_PART_CAP.
  destruct q as [cp ps]. cbn. intros (L & C & F & Z). repeat split; auto; try lia.
  intros i Hi. apply Z. lia.
Qed.

Lemma add_digit_gen_lt n d : add_digit_gen n d < 65536.
Proof. unfold add_digit_gen. apply N.mod_lt. discriminate. Qed.

Lemma param_add_digit_inv d q : ParamInv q -> ParamInv (param_add_digit d q).
Proof.
  unfold ParamInv, param_add_digit. destruct q as [cp ps]. cbn.
  intros (L & C & F & Z). rewrite upd_length. repeat split; auto.
  - apply Forall_nth. intros i d0 Hi. rewrite upd_length in Hi.
    destruct (Nat.eq_dec i cp) as [->|Hne].
    + rewrite nth_upd_same by exact Hi. apply add_digit_gen_lt.
    + rewrite nth_upd_other by exact Hne. now apply Forall_nth.
  - intros i Hi. rewrite nth_upd_other by lia. now apply Z.
Qed.

(** * [clear] *)

Lemma clear_ok_inv p : PInv p -> clear_ok p = true.
Proof.
  unfold PInv, clear_ok. intros (L & C & F & _). rewrite L.
  apply andb_true_intro; split; [apply Nat.ltb_lt; exact C|].
  apply forallb_forall. intros q Hq. apply param_clear_ok_inv.
  rewrite Forall_forall in F. apply F. eapply firstn_In; exact Hq.
Qed.

Lemma clearM_inv p : PInv p -> clearM p = Ok (clear p).
Proof. intros H. unfold clearM. now rewrite clear_ok_inv. Qed.

Lemma clear_params p : PInv p -> params (clear p) = repeat default_param PARAMS_LEN.
Proof.
  intros (L & C & F & Z).
  change (params (clear p))
    with (map param_clear (firstn (S (cur_param p)) (params p)) ++ skipn (S (cur_param p)) (params p)).
  set (n := S (cur_param p)). set (l := params p) in *.
  assert (E : Forall (eq default_param) (map param_clear (firstn n l) ++ skipn n l)).
  { apply Forall_app; split.
    - apply Forall_map. rewrite Forall_forall in *. intros q Hq. symmetry.
      apply param_clear_default, F. eapply firstn_In; exact Hq.
    - apply Forall_skipn_const. intros i H1 H2. apply Z; subst n; lia. }
  apply Forall_eq_repeat in E. rewrite E. f_equal.
  rewrite app_length, map_length. rewrite <- (app_length (firstn n l)), firstn_skipn. exact L.
Qed.

Lemma PInv_repeat s cp i : (cp < PARAMS_LEN)%nat -> PInv (mkParser s (repeat default_param PARAMS_LEN) cp i).
Proof.
  intros H. unfold PInv. cbn [params cur_param]. rewrite repeat_length. repeat split; auto.
  - apply Forall_forall. intros q Hq. apply repeat_spec in Hq. subst q. apply ParamInv_default.
  - intros j _ _. apply nth_repeat.
Qed.

Lemma init_parser_PInv : PInv init_parser.
Proof. apply PInv_repeat. unfold PARAMS_LEN. lia. Qed.
Print Assumptions init_parser_PInv.

Lemma clear_eq p : PInv p -> clear p = mkParser (pst p) (repeat default_param PARAMS_LEN) 0 None.
Proof.
  intros H. pose proof (clear_params p H) as E. destruct p as [s ps cp i].
  unfold clear in *. cbn in *. now rewrite E.
Qed.

Lemma clear_inv p : PInv p -> PInv (clear p).
Proof. intros H. rewrite clear_eq by exact H. apply PInv_repeat. unfold PARAMS_LEN. lia. Qed.

(** * [collect] *)

Lemma collect_inv p c : PInv p -> PInv (collect p c).
Proof. apply PInv_ext; reflexivity. Qed.

(** * [param] *)

Lemma param_step_inv p c : PInv p -> PInv (param_step p c).
Proof.
  intros (L & C & F & Z). unfold param_step, PARAM_SEP, PART_SEP.
  destruct (c =? 59); [|destruct (c =? 58)].
  - unfold PInv. cbn [params cur_param]. unfold PARAMS_LEN in *.
    change (params (p <| cur_param := _ |>)) with (params p).
    repeat split; auto.
    + cbn. destruct (Nat.eqb_spec (cur_param p + 1) 32); lia.
    + intros i Hi Hi2. apply Z; [|exact Hi2]. cbn in Hi.
      destruct (Nat.eqb_spec (cur_param p + 1) 32); lia.
  - unfold PInv.
    change (params (p <| params := ?x |>)) with x.
    change (cur_param (p <| params := ?x |>)) with (cur_param p).
    rewrite upd_length. repeat split; auto.
    + apply Forall_upd; [exact F|]. apply param_add_part_inv.
    + intros i Hi Hi2. rewrite nth_upd_other by lia. now apply Z.
  - unfold PInv.
    change (params (p <| params := ?x |>)) with x.
    change (cur_param (p <| params := ?x |>)) with (cur_param p).
    rewrite upd_length. repeat split; auto.
    + apply Forall_upd; [exact F|]. apply param_add_digit_inv.
    + intros i Hi Hi2. rewrite nth_upd_other by lia. now apply Z.
Qed.

Lemma param_ok_inv p c : PInv p -> 48 <= c <= 59 -> param_ok p c = true.
Proof.
  intros (L & C & F & _) Hc. unfold param_ok, PARAM_SEP, PART_SEP, DIGIT_BASE.
  destruct (c =? 59); [reflexivity|]. rewrite L.
  assert (Hlt : (cur_param p <? PARAMS_LEN)%nat = true) by (apply Nat.ltb_lt; exact C).
  rewrite Hlt. destruct (c =? 58); [reflexivity|].
  destruct (nth_error (params p) (cur_param p)) as [q|] eqn:E.
  - assert (Hq : ParamInv q).
    { rewrite Forall_forall in F. apply F. eapply nth_error_In; exact E. }
    destruct Hq as (Lq & Cq & _). unfold param_add_digit_ok. rewrite Lq.
    assert (Hlt2 : (cur_part q <? MAX_PARAM_LEN)%nat = true) by (apply Nat.ltb_lt; exact Cq).
    rewrite Hlt2. cbn [andb]. apply N.leb_le. rewrite N.mod_small; lia.
  - apply nth_error_None in E. lia.
Qed.

Lemma paramM_inv p c : PInv p -> 48 <= c <= 59 -> paramM p c = Ok (param_step p c).
Proof. intros H Hc. unfold paramM. now rewrite param_ok_inv. Qed.

(** * [esc_dispatch] *)

Lemma esc_dispatch_gen_state i c :
  fst (esc_dispatch_gen i c) = None \/ esc_dispatch_gen i c = (Some Ground, Some Ris).
Proof.
  unfold esc_dispatch_gen.
  repeat match goal with |- context [if ?b then _ else _] => destruct b end; cbn [fst]; auto.
Qed.

Lemma esc_dispatch_ground p c :
  esc_dispatch (p <| pst := Ground |>) c
  = (p <| pst := Ground |>, snd (esc_dispatch_gen (inter p) c)).
Proof.
  unfold esc_dispatch. change (inter (p <| pst := Ground |>)) with (inter p).
  destruct (esc_dispatch_gen_state (inter p) c) as [H|H].
  - destruct (esc_dispatch_gen (inter p) c) as [st f]. cbn [fst snd] in *. now subst st.
  - rewrite H. cbn [snd]. destruct p; reflexivity.
Qed.

(** * facts read off the arm table (the finite sweep of [Proofs/ParserTable.v]) *)

Definition has_param (acts : list act) : bool :=
  existsb (fun a => match a with AParam => true | _ => false end) acts.

Definition esc_to_ground (acts : list act) : bool :=
  match acts with
  | [ASetState s; ARetEsc] => pstate_eqb s Ground
  | _ => true
  end.

Definition arm_row_ok (s : pstate) (k : N) : bool :=
  let acts := find_arm s k feed_arms in
  implb (has_param acts) (inr 48 59 k) && esc_to_ground acts.

Lemma arm_facts_finite :
  forallb (fun s => forallb (arm_row_ok s) (codes_upto 160)) all_pstates = true.
Proof. vm_compute. reflexivity. Qed.

Lemma input2_cases c : (c < 160 /\ input2 c = c) \/ (160 <= c /\ input2 c = 65).
Proof.
  unfold input2, hi_threshold, hi_subst. destruct (N.leb_spec 160 c); [right|left]; split; auto.
Qed.

Lemma arm_row_ok_all s c : arm_row_ok s (input2 c) = true.
Proof.
  pose proof arm_facts_finite as F. rewrite forallb_forall in F.
  specialize (F s (all_pstates_complete s)). rewrite forallb_forall in F.
  apply F. apply codes_upto_complete. destruct (input2_cases c) as [[H ->]|[H ->]]; cbn; lia.
Qed.

(** [AParam] is only reached on the characters 48..59 (and then [input2 c = c]) *)
Lemma arm_param_range s c :
  has_param (find_arm s (input2 c) feed_arms) = true -> 48 <= c <= 59.
Proof.
  intros H. pose proof (arm_row_ok_all s c) as R. unfold arm_row_ok in R.
  apply andb_prop in R as [R _]. rewrite H in R. cbn [implb] in R. unfold inr in R.
  destruct (input2_cases c) as [[Hc E]|[Hc E]]; rewrite E in R; lia.
Qed.

Lemma arm_esc_ground s c s' :
  find_arm s (input2 c) feed_arms = [ASetState s'; ARetEsc] -> s' = Ground.
Proof.
  intros H. pose proof (arm_row_ok_all s c) as R. unfold arm_row_ok in R.
  apply andb_prop in R as [_ R]. rewrite H in R. cbn [esc_to_ground] in R.
  destruct s'; try discriminate R. reflexivity.
Qed.

(** * the characterisation of [feedM] by Williams' table *)

Definition feed_step (p : parser) (c : N) : parser :=
  let t := williams (pst p) c in
  (if t_clear t then clear p
   else match t_kind t with
        | KCollect => collect p c
        | KParam => param_step p c
        | _ => p
        end) <| pst := t_next t |>.

Definition feed_emit (p : parser) (c : N) : option func :=
  match t_kind (williams (pst p) c) with
  | KPrint => Some (Print c)
  | KExecute => execute_gen c
  | KCsiDispatch => csi_dispatch_gen (inter p) c (params p) (cur_param p)
  | KEscDispatch => snd (esc_dispatch_gen (inter p) c)
  | _ => None
  end.

Theorem feedM_char : forall p c, PInv p -> feedM p c = Ok (feed_step p c, feed_emit p c).
Proof.
  intros p c HP. unfold feedM, feed_step, feed_emit.
  rewrite <- (parser_table_is_williams (pst p) c). unfold trans_model.
  pose proof (parser_arms_wf (pst p) c) as WF.
  pose proof (arm_param_range (pst p) c) as PR.
  pose proof (arm_esc_ground (pst p) c) as EG.
  destruct (find_arm (pst p) (input2 c) feed_arms) as [|a1 [|a2 [|a3 r]]];
    [ | destruct a1 | destruct a1, a2 | destruct a1, a2 ]; try discriminate WF;
    cbn [run_acts acts_next acts_kind acts_clear existsb orb t_next t_kind t_clear bind has_param] in *.
  all: try (rewrite clearM_inv by (apply PInv_set_pst; exact HP); cbn [bind]).
  all: try (rewrite paramM_inv by (try apply PInv_set_pst; auto); cbn [bind]).
  all: try (rewrite (EG _ eq_refl), esc_dispatch_ground).
  all: try (unfold csi_dispatchM;
            change (params (p <| pst := ?s |>)) with (params p);
            change (cur_param (p <| pst := ?s |>)) with (cur_param p);
            change (inter (p <| pst := ?s |>)) with (inter p);
            destruct HP as (L & C & _); rewrite L;
            replace (cur_param p <? PARAMS_LEN)%nat with true by (symmetry; apply Nat.ltb_lt; exact C);
            cbn [bind]).
  all: try (destruct p; reflexivity).
  all: unfold param_step; destruct (c =? PARAM_SEP); [|destruct (c =? PART_SEP)];
    destruct p; reflexivity.
Qed.
Print Assumptions feedM_char.

(** projections of [feed_step] *)

Lemma feed_step_pst p c : pst (feed_step p c) = t_next (williams (pst p) c).
Proof. reflexivity. Qed.

Lemma feed_step_inv p c : PInv p -> PInv (feed_step p c).
Proof.
  intros H. unfold feed_step. apply PInv_set_pst.
  destruct (t_clear (williams (pst p) c)); [now apply clear_inv|].
  destruct (t_kind (williams (pst p) c)); auto using collect_inv, param_step_inv.
Qed.

(** * the delivered statements *)

Theorem feedM_total : forall p c, PInv p -> exists p' f, feedM p c = Ok (p', f).
Proof. intros p c H. eexists _, _. now apply feedM_char. Qed.
Print Assumptions feedM_total.

Theorem feedM_PInv : forall p c p' f, PInv p -> feedM p c = Ok (p', f) -> PInv p'.
Proof.
  intros p c p' f H E. rewrite feedM_char in E by exact H. injection E as <- _.
  now apply feed_step_inv.
Qed.
Print Assumptions feedM_PInv.

(** no exception for [Ris] is needed: the only state override of [esc_dispatch_gen] is to
    [Ground], which is where every ESC-dispatching arm goes anyway ([arm_esc_ground]). *)
Theorem feedM_next_state : forall p c p' f,
  PInv p -> feedM p c = Ok (p', f) -> pst p' = t_next (williams (pst p) c).
Proof.
  intros p c p' f H E. rewrite feedM_char in E by exact H. injection E as <- _. reflexivity.
Qed.
Print Assumptions feedM_next_state.

Theorem feedM_ignore_class : forall p c p' f,
  PInv p -> feedM p c = Ok (p', f) ->
  class_of (t_kind (williams (pst p) c)) = ClsIgnore -> f = None.
Proof.
  intros p c p' f H E K. rewrite feedM_char in E by exact H. injection E as _ <-.
  unfold feed_emit. destruct (t_kind (williams (pst p) c)); try discriminate K; reflexivity.
Qed.
Print Assumptions feedM_ignore_class.

Theorem feedM_emits : forall p c p' f,
  PInv p -> feedM p c = Ok (p', f) -> f <> None ->
  class_of (t_kind (williams (pst p) c)) = ClsPrint
  \/ class_of (t_kind (williams (pst p) c)) = ClsExecute
  \/ class_of (t_kind (williams (pst p) c)) = ClsDispatch.
Proof.
  intros p c p' f H E NF.
  destruct (class_of (t_kind (williams (pst p) c))) eqn:K; auto.
  exfalso. apply NF. eapply feedM_ignore_class; eauto.
Qed.
Print Assumptions feedM_emits.

(** * running the parser over a list of characters *)

Definition opt_cons {A} (o : option A) (l : list A) : list A :=
  match o with Some x => x :: l | None => l end.

Fixpoint runP (p : parser) (s : list N) : res (parser * list func) :=
  match s with
  | [] => Ok (p, [])
  | c :: r =>
    '(p1, f) <- feedM p c ;;
    '(p2, fs) <- runP p1 r ;;
    Ok (p2, opt_cons f fs)
  end.

(** the same, as total functions on the table level *)
Fixpoint run_step (p : parser) (s : list N) : parser :=
  match s with
  | [] => p
  | c :: r => run_step (feed_step p c) r
  end.

Fixpoint run_emit (p : parser) (s : list N) : list func :=
  match s with
  | [] => []
  | c :: r => opt_cons (feed_emit p c) (run_emit (feed_step p c) r)
  end.

Lemma run_step_inv s : forall p, PInv p -> PInv (run_step p s).
Proof. induction s as [|c r IH]; intros p H; cbn [run_step]; auto using feed_step_inv. Qed.

Theorem runP_char : forall s p, PInv p -> runP p s = Ok (run_step p s, run_emit p s).
Proof.
  induction s as [|c r IH]; intros p H; cbn [runP run_step run_emit]; [reflexivity|].
  rewrite feedM_char by exact H. cbn [bind].
  rewrite IH by (now apply feed_step_inv). reflexivity.
Qed.
Print Assumptions runP_char.

Lemma run_step_app a : forall b p, run_step p (a ++ b) = run_step (run_step p a) b.
Proof. induction a as [|c a IH]; intros b p; cbn [app run_step]; auto. Qed.

Lemma opt_cons_app {A} (o : option A) l1 l2 : opt_cons o l1 ++ l2 = opt_cons o (l1 ++ l2).
Proof. destruct o; reflexivity. Qed.

Lemma run_emit_app a : forall b p,
  run_emit p (a ++ b) = run_emit p a ++ run_emit (run_step p a) b.
Proof.
  induction a as [|c a IH]; intros b p; cbn [app run_step run_emit]; [reflexivity|].
  now rewrite IH, opt_cons_app.
Qed.

Theorem runP_total : forall s p, PInv p -> exists p' fs, runP p s = Ok (p', fs) /\ PInv p'.
Proof.
  intros s p H. eexists _, _. split; [now apply runP_char|]. now apply run_step_inv.
Qed.

(** * what one step does to the collected data *)

Lemma param_step_inter p c : inter (param_step p c) = inter p.
Proof.
  unfold param_step. destruct (c =? PARAM_SEP); [|destruct (c =? PART_SEP)]; reflexivity.
Qed.

Lemma param_step_pst p c : pst (param_step p c) = pst p.
Proof.
  unfold param_step. destruct (c =? PARAM_SEP); [|destruct (c =? PART_SEP)]; reflexivity.
Qed.

Lemma feed_step_inter p c :
  inter (feed_step p c)
  = let t := williams (pst p) c in
    if t_clear t then None
    else match t_kind t with KCollect => Some c | _ => inter p end.
Proof.
  unfold feed_step. cbv zeta.
  change (inter (?x <| pst := ?s |>)) with (inter x).
  destruct (t_clear (williams (pst p) c)); [reflexivity|].
  destruct (t_kind (williams (pst p) c)); try reflexivity. apply param_step_inter.
Qed.

(** * sweeping a boolean statement over the table *)

Lemma williams_high s c : 160 <= c -> williams s c = williams s 160.
Proof. intros H. unfold williams. now rewrite (fold_high_high c H). Qed.

Lemma sweep_lt (P : pstate -> N -> bool) :
  forallb (fun s => forallb (P s) (codes_upto 160)) all_pstates = true ->
  forall s c, c < 160 -> P s c = true.
Proof.
  intros F s c H. rewrite forallb_forall in F.
  specialize (F s (all_pstates_complete s)). rewrite forallb_forall in F.
  apply F. apply codes_upto_complete. cbn. lia.
Qed.

Lemma trans_eqb_refl t : trans_eqb t t = true.
Proof. destruct t as [n k c]. unfold trans_eqb. cbn. destruct n, k, c; reflexivity. Qed.

(** [williams s c = t] for all [c] in a range below 160, checked by computation *)
Definition row_is (s : pstate) (lo hi : N) (t : trans) : bool :=
  (hi <? 160)
  && forallb (fun c => implb ((lo <=? c) && (c <=? hi)) (trans_eqb (williams s c) t))
             (codes_upto 160).

Lemma row_is_spec s lo hi t :
  row_is s lo hi t = true -> forall c, lo <= c <= hi -> williams s c = t.
Proof.
  unfold row_is. intros H c Hc. apply andb_prop in H as [Hh H].
  rewrite forallb_forall in H. specialize (H c).
  assert (Hin : In c (codes_upto 160)) by (apply codes_upto_complete; cbn; lia).
  specialize (H Hin). replace ((lo <=? c) && (c <=? hi)) with true in H by lia.
  cbn [implb] in H. now apply trans_eqb_eq.
Qed.

(** [williams s c = t] for all [c < 160] satisfying a boolean condition *)
Definition row_if (s : pstate) (cond : N -> bool) (t : trans) : bool :=
  forallb (fun c => implb (cond c) (trans_eqb (williams s c) t)) (codes_upto 160).

Lemma row_if_spec s cond t :
  row_if s cond t = true -> forall c, c < 160 -> cond c = true -> williams s c = t.
Proof.
  unfold row_if. intros H c Hc Hcond. rewrite forallb_forall in H. specialize (H c).
  assert (Hin : In c (codes_upto 160)) by (apply codes_upto_complete; cbn; lia).
  specialize (H Hin). rewrite Hcond in H. cbn [implb] in H. now apply trans_eqb_eq.
Qed.

(** one step, given the table row *)
Lemma feed_emit_quiet p c :
  class_of (t_kind (williams (pst p) c)) = ClsIgnore -> feed_emit p c = None.
Proof. unfold feed_emit. destruct (t_kind (williams (pst p) c)); intros K; try discriminate K; reflexivity. Qed.
