(** Buffer-level and glue lemmas for the inductiveness proof of [TInv]
    (Proofs/InvTerm.v): every buffer primitive used by the control functions
    keeps [BInv], the geometry, the limit and the scrollback-limit invariant [LimInv]. *)

From Avt Require Import Model.Prims Model.Terminal Spec.Screen Proofs.Inv Proofs.ListLemmasS
  Proofs.BufRow Proofs.BufScroll.
From Avt Require Import Gen.Consts.
Require Import Lia ZArith ZifyBool ZifyNat ZifyN.
Ltac Zify.zify_post_hook ::= Z.div_mod_to_equations.

(** * the scrollback-limit invariant (C13) *)

Definition LimInv (b : buffer) : Prop :=
  trim_needed b = true \/
  match blimit b with Some (_, hard) => (N.of_nat (sb_len b) <= hard)%N | None => True end.

Definition Lim2 (t : term) : Prop := LimInv (buf t) /\ LimInv (other t).

(** "[t'] satisfies the limit invariant if [t] does" *)
Definition LimP (t t' : term) : Prop := Lim2 t -> Lim2 t'.

Lemma LimP_refl t : LimP t t.
Proof. intros H; exact H. Qed.

Lemma LimP_trans t1 t2 t3 : LimP t1 t2 -> LimP t2 t3 -> LimP t1 t3.
Proof. intros A B H. apply B, A, H. Qed.

Lemma LimP_same t t' : buf t' = buf t -> other t' = other t -> LimP t t'.
Proof. intros E1 E2 [A B]. split; [rewrite E1|rewrite E2]; assumption. Qed.

Lemma LimInv_frame b b' :
  trim_needed b' = trim_needed b -> blimit b' = blimit b -> sb_len b' = sb_len b ->
  LimInv b -> LimInv b'.
Proof. unfold LimInv. intros -> -> ->. auto. Qed.

Lemma LimInv_trim b : trim_needed b = true -> LimInv b.
Proof. intros H; left; exact H. Qed.

Lemma LimInv_new c r l p : LimInv (buffer_new c r l p).
Proof.
  right. unfold buffer_new, sb_len. cbn [blimit lines brows]. rewrite repeat_length.
  replace (r - r) with 0 by lia. destruct (limit_of l) as [[s h]|]; [|exact I]. lia.
Qed.

(** * [last_not_wrapped] under row updates *)

Lemma lnw_view b : BGeom b -> (last_not_wrapped (lines b) <-> last_not_wrapped (view b)).
Proof.
  intros G. pose proof (view_length b G) as L. pose proof G as (_ & Hr & _ & _).
  rewrite (lines_split b G) at 1.
  apply lnw_app_ne. intros E. rewrite E in L. cbn in L. lia.
Qed.

Lemma lnw_view' b : BGeom b -> last_not_wrapped (lines b) -> last_not_wrapped (view b).
Proof. intros G. apply lnw_view, G. Qed.

Lemma lnw_upd (g : line -> line) i l :
  (forall x, wrapped x = false -> wrapped (g x) = false) ->
  last_not_wrapped l -> last_not_wrapped (upd_row i g l).
Proof.
  intros Hg H. unfold upd_row. destruct (le_lt_dec (length l) i) as [Hi|Hi].
  - rewrite upd_ge by exact Hi. exact H.
  - destruct (upd_split l i g Hi) as (X & y & D & E & _ & _ & E').
    rewrite E'. rewrite E in H. unfold last_not_wrapped in *.
    rewrite last_opt_app_ne in * by discriminate.
    destruct D as [|d D].
    + cbn in *. apply Hg, H.
    + rewrite last_opt_cons_ne in * by discriminate. exact H.
Qed.

Lemma lnw_repeat_blank X c p k :
  (k = 0 -> last_not_wrapped X) -> last_not_wrapped (X ++ repeat (blank_line c p) k).
Proof.
  intros H. destruct k as [|k].
  - cbn [repeat]. rewrite app_nil_r. apply H. reflexivity.
  - unfold last_not_wrapped. rewrite last_opt_app_ne by discriminate.
    rewrite last_opt_repeat by lia. reflexivity.
Qed.

Lemma lnw_skipn n (l : list line) :
  n < length l -> last_not_wrapped l -> last_not_wrapped (skipn n l).
Proof.
  intros Hn H. rewrite <- (firstn_skipn n l) in H.
  apply lnw_app_ne in H; [exact H|].
  intros E. apply (f_equal (@length _)) in E. rewrite skipn_length in E. cbn in E. lia.
Qed.

(** * frames: what every buffer primitive preserves *)

Definition BFrame (b b' : buffer) : Prop :=
  BInv b' /\ bcols b' = bcols b /\ brows b' = brows b /\ blimit b' = blimit b
  /\ (LimInv b -> LimInv b').

Lemma BFrame_refl b : BInv b -> BFrame b b.
Proof. intros H. repeat split; auto; apply H. Qed.

Lemma BFrame_trans a b c : BFrame a b -> BFrame b c -> BFrame a c.
Proof.
  intros (I1 & C1 & R1 & L1 & P1) (I2 & C2 & R2 & L2 & P2).
  split; [exact I2|]. repeat split; try congruence. auto.
Qed.

Lemma bset_BFrame b v :
  BInv b -> length v = brows b -> BGeom (bset b v) -> last_not_wrapped v -> BFrame b (bset b v).
Proof.
  intros [G W] L G' Wv. split; [|split; [|split; [|split]]].
  - split; [exact G'|]. rewrite bset_lines. apply lnw_app_ne; [|exact Wv].
    intros E. rewrite E in L. destruct G as (_ & Hr & _). cbn in L. lia.
  - apply bset_bcols.
  - apply bset_brows.
  - apply bset_blimit.
  - apply LimInv_frame; [apply bset_trim_needed|apply bset_blimit|apply bset_sb_len; assumption].
Qed.

Lemma bset_upd_BFrame b r g :
  BInv b -> BGeom (bset b (upd_row r g (view b))) ->
  (forall x, wrapped x = false -> wrapped (g x) = false) ->
  BFrame b (bset b (upd_row r g (view b))).
Proof.
  intros [G W] G' Hg. apply bset_BFrame; [split; assumption| |exact G'|].
  - rewrite upd_row_length. apply view_length, G.
  - apply lnw_upd; [exact Hg|]. apply lnw_view'; assumption.
Qed.

Theorem buf_print_BF b col row x :
  BInv b -> row < brows b -> col < bcols b ->
  exists b', buf_print b col row x = Ok b' /\ BFrame b b'.
Proof.
  intros I Hr Hc. destruct (buf_print_spec b col row x (proj1 I) Hr Hc) as [E G].
  eexists; split; [exact E|]. apply bset_upd_BFrame; [exact I|exact G|].
  intros l Hl. unfold set_cell. rewrite wrapped_set_cells. exact Hl.
Qed.

Theorem buf_insert_BF b col row n x :
  BInv b -> row < brows b -> col <= bcols b ->
  exists b', buf_insert b col row n x = Ok b' /\ BFrame b b'.
Proof.
  intros I Hr Hc. destruct (buf_insert_spec b col row n x (proj1 I) Hr Hc) as [E G].
  cbv zeta in E, G. eexists; split; [exact E|]. apply bset_upd_BFrame; [exact I|exact G|].
  intros l Hl. rewrite wrapped_set_cells. exact Hl.
Qed.

Theorem buf_delete_BF b col row n p :
  BInv b -> row < brows b -> col <= bcols b ->
  exists b', buf_delete b col row n p = Ok b' /\ BFrame b b'.
Proof.
  intros I Hr Hc. destruct (buf_delete_spec b col row n p (proj1 I) Hr Hc) as [E G].
  cbv zeta in E, G. eexists; split; [exact E|]. apply bset_upd_BFrame; [exact I|exact G|].
  intros l Hl. apply wrapped_unwrap.
Qed.

Lemma wrapped_clear_cells a z p l : wrapped (clear_cells a z p l) = wrapped l.
Proof. unfold clear_cells. apply wrapped_set_cells. Qed.

Theorem buf_erase_BF b col row m p :
  BInv b -> row < brows b -> col <= bcols b ->
  exists b', buf_erase b col row m p = Ok b' /\ BFrame b b'.
Proof.
  intros I Hr Hc. pose proof I as [G W].
  destruct (buf_erase_spec b col row m p G Hr Hc) as [E G'].
  eexists; split; [exact E|].
  pose proof (view_length b G) as Lv. pose proof (lnw_view' b G W) as Wv.
  assert (Hup : forall g, (forall x, wrapped x = false -> wrapped (g x) = false) ->
                 last_not_wrapped (upd_row row g (view b))).
  { intros g Hg. apply lnw_upd; assumption. }
  apply bset_BFrame; [exact I| |exact G'|]; destruct m; cbn [erase_view];
    rewrite ?upd_row_length; try exact Lv.
  - rewrite app_length, firstn_length, repeat_length, upd_row_length. lia.
  - rewrite app_length, skipn_length, repeat_length, upd_row_length. lia.
  - apply repeat_length.
  - apply Hup. intros l Hl. cbv zeta. destruct (_ =? _); [apply wrapped_unwrap|].
    rewrite wrapped_clear_cells. exact Hl.
  - apply lnw_repeat_blank. intros Hk. rewrite firstn_all2 by (rewrite upd_row_length; lia).
    apply Hup. intros; apply wrapped_unwrap.
  - apply lnw_app_ne.
    + intros E0. apply (f_equal (@length _)) in E0.
      rewrite skipn_length, upd_row_length in E0. cbn in E0. lia.
    + apply lnw_skipn; [rewrite upd_row_length; lia|]. apply Hup.
      intros l Hl. rewrite wrapped_clear_cells. exact Hl.
  - apply (lnw_repeat_blank []). intros Hk. destruct G as (_ & ? & _). lia.
  - apply Hup. intros; apply wrapped_unwrap.
  - apply Hup. intros l Hl. rewrite wrapped_clear_cells. exact Hl.
  - apply Hup. intros; apply wrapped_unwrap.
Qed.

Theorem buf_scroll_up_BF b a z n p :
  BInv b -> a < z -> z <= brows b ->
  exists b', buf_scroll_up b a z n p = Ok b' /\ BFrame b b' /\ trim_needed b' = true.
Proof.
  intros I Ha Hz.
  destruct (buf_scroll_up_spec b a z n p (proj1 I) Ha Hz) as (b' & E & _ & C & R & L & T & _).
  exists b'. split; [exact E|]. split; [|exact T]. split; [|repeat split; auto].
  - eapply buf_scroll_up_BInv; eassumption.
  - intros _. apply LimInv_trim, T.
Qed.

Theorem buf_scroll_down_BF b a z n p :
  BInv b -> a < z -> z <= brows b ->
  exists b', buf_scroll_down b a z n p = Ok b' /\ BFrame b b'.
Proof.
  intros I Ha Hz.
  destruct (buf_scroll_down_spec b a z n p (proj1 I) Ha Hz) as (b' & E & _ & _).
  exists b'. split; [exact E|].
  destruct (buf_scroll_down_fields b a z n p b' (proj1 I) Ha Hz E) as (_ & _ & S & C & R & L & T).
  split; [|repeat split; auto].
  - eapply buf_scroll_down_BInv; eassumption.
  - apply LimInv_frame; assumption.
Qed.

Theorem decaln_cols_BF : forall n b row col,
  BInv b -> row < brows b -> col + n <= bcols b ->
  exists b', decaln_cols b row n col = Ok b' /\ BFrame b b'.
Proof.
  induction n as [|n IH]; intros b row col I Hr Hc; cbn [decaln_cols].
  - exists b. split; [reflexivity|]. apply BFrame_refl, I.
  - destruct (buf_print_BF b col row (mkCell 69 default_pen) I Hr) as (b1 & E1 & F1); [lia|].
    rewrite E1. cbn [bind]. pose proof F1 as (I1 & C1 & R1 & _).
    destruct (IH b1 row (S col) I1) as (b2 & E2 & F2); [lia|lia|].
    exists b2. split; [exact E2|]. eapply BFrame_trans; eassumption.
Qed.

Definition sb_bound (b : buffer) : Prop :=
  match blimit b with Some (_, hard) => (N.of_nat (sb_len b) <= hard)%N | None => True end.

Theorem buf_gc_BF b :
  BInv b -> limit_wf b ->
  exists b' d, buf_gc b = Ok (b', d) /\ BInv b' /\ bcols b' = bcols b /\ brows b' = brows b
    /\ blimit b' = blimit b /\ trim_needed b' = false
    /\ (LimInv b -> sb_bound b').
Proof.
  intros [G W] Hw.
  destruct (buf_gc_spec b G Hw) as (b' & d & E & _ & T & C & R & L & G' & W' & _ & _ & S & _).
  exists b', d. split; [exact E|]. split; [split; auto|]. repeat split; try assumption.
  intros H. unfold sb_bound. destruct (trim_needed b) eqn:Tb.
  - rewrite L. unfold limit_wf in Hw. destruct (blimit b) as [[s h]|] eqn:Lb; [|exact I].
    eapply (buf_gc_bound b b' d s h); eassumption.
  - destruct H as [H|H]; [congruence|].
    rewrite L. destruct (blimit b) as [[s h]|]; [|exact I].
    unfold gc_excess in S. rewrite Tb in S. lia.
Qed.
