(** Semantics of the mode-setting functions (audit items 8, 11, 12; C04 gap 2, C05 gap 1,
    C06 gaps 1 and 2, C02 gap 1).

    1. list form of DECSET / DECRST / SM / RM ([_nil], [_cons], [_app], run form, generic lifting);
    2. what every single mode DOES ([sem_<mode>_set] / [sem_<mode>_reset]);
    3. DECSTR as an explicit record ([spec_decstr], [sem_decstr]);
    4. [size()] is stable under [Feed] / [Flush]; after a run it is the last [Resize];
    5. mode changes that do not switch screens touch no cell, wrap mark or scrollback line.

    Most statements hold for EVERY [t] (no invariant needed); [TInv] / [Inv] appear only where
    the model really needs them (XTWINOPS is neutralised by the invariant field [ti_xtw]). *)

From Coq Require Import Lia ZArith ZifyBool ZifyNat ZifyN List.
From Avt Require Import Oracles.Step Proofs.Inv Proofs.TermEasy Proofs.StepC05 Proofs.InvTerm
  Proofs.InvStep Proofs.Frames.
Import ListNotations.

Local Lemma bindk {A B} (m : res A) (k : A -> res B) b :
  (x <- m ;; k x) = Ok b -> exists a, m = Ok a /\ k a = Ok b.
Proof. destruct m as [a|s]; cbn [bind]; [eauto|discriminate]. Qed.

Local Lemma bind_assoc {A B C} (m : res A) (f : A -> res B) (g : B -> res C) :
  (y <- (x <- m ;; f x) ;; g y) = (x <- m ;; y <- f x ;; g y).
Proof. destruct m; reflexivity. Qed.

Local Lemma Ok_inj {A} (a b : A) : Ok a = Ok b -> a = b.
Proof. intros H. injection H as H. exact H. Qed.

(** a small reachable state for the non-vacuity examples: 10 x 4, some text, margins 2..3,
    cursor parked in the pending-wrap position of row 1 *)
Definition ex_vt (s : list N) : vt :=
  match feed_str (vt_new 10 4 None) s with Ok (v, _) => v | Panic _ => vt_new 10 4 None end.
Definition ex_t (s : list N) : term := vterm (ex_vt s).
(* "ab" CR LF "0123456789" : cursor at col 10 = cols (pending wrap), row 1 *)
Definition ex_pending : list N := [97; 98; 13; 10; 48; 49; 50; 51; 52; 53; 54; 55; 56; 57]%N.
(* ESC [ 2 ; 3 r  (margins rows 1..2), then text *)
Definition ex_margins : list N := [27; 91; 50; 59; 51; 114; 120; 121]%N.

(* ------------------------------------------------------------------------------------ *)
(** * 1. The list form *)

(** ** DECSET *)
Theorem execute_decset_nil : forall t, execute t (Decset []) = Ok t.
Proof. reflexivity. Qed.

Theorem execute_decset_cons : forall t m ms,
  execute t (Decset (m :: ms)) = (t1 <- execute t (Decset [m]) ;; execute t1 (Decset ms)).
Proof. intros t m ms. rewrite exec_decset_cons, exec_decset_one. reflexivity. Qed.

Theorem execute_decset_app : forall ms1 ms2 t,
  execute t (Decset (ms1 ++ ms2)) = (t1 <- execute t (Decset ms1) ;; execute t1 (Decset ms2)).
Proof.
  induction ms1 as [|m ms1 IH]; intros ms2 t.
  - reflexivity.
  - rewrite <- app_comm_cons, (execute_decset_cons t m (ms1 ++ ms2)), (execute_decset_cons t m ms1), bind_assoc.
    destruct (execute t (Decset [m])) as [t1|s]; cbn [bind]; [apply IH|reflexivity].
Qed.

(** the run form: a DECSET with a list of modes IS the left-to-right run of the singletons *)
Theorem execute_decset_run : forall ms t,
  execute t (Decset ms) = foldM (fun t1 m => execute t1 (Decset [m])) ms t.
Proof.
  induction ms as [|m ms IH]; intros t; [reflexivity|].
  rewrite execute_decset_cons. cbn [foldM].
  destruct (execute t (Decset [m])) as [t1|s]; cbn [bind]; [apply IH|reflexivity].
Qed.

(** ** DECRST *)
Theorem execute_decrst_nil : forall t, execute t (Decrst []) = Ok t.
Proof. reflexivity. Qed.

Theorem execute_decrst_cons : forall t m ms,
  execute t (Decrst (m :: ms)) = (t1 <- execute t (Decrst [m]) ;; execute t1 (Decrst ms)).
Proof. intros t m ms. rewrite exec_decrst_cons, exec_decrst_one. reflexivity. Qed.

Theorem execute_decrst_app : forall ms1 ms2 t,
  execute t (Decrst (ms1 ++ ms2)) = (t1 <- execute t (Decrst ms1) ;; execute t1 (Decrst ms2)).
Proof.
  induction ms1 as [|m ms1 IH]; intros ms2 t.
  - reflexivity.
  - rewrite <- app_comm_cons, (execute_decrst_cons t m (ms1 ++ ms2)), (execute_decrst_cons t m ms1), bind_assoc.
    destruct (execute t (Decrst [m])) as [t1|s]; cbn [bind]; [apply IH|reflexivity].
Qed.

Theorem execute_decrst_run : forall ms t,
  execute t (Decrst ms) = foldM (fun t1 m => execute t1 (Decrst [m])) ms t.
Proof.
  induction ms as [|m ms IH]; intros t; [reflexivity|].
  rewrite execute_decrst_cons. cbn [foldM].
  destruct (execute t (Decrst [m])) as [t1|s]; cbn [bind]; [apply IH|reflexivity].
Qed.

(** ** SM / RM (the model folds a total function; the bind form is the same statement) *)
Theorem execute_sm_nil : forall t, execute t (Sm []) = Ok t.
Proof. reflexivity. Qed.

Theorem execute_sm_cons : forall t m ms,
  execute t (Sm (m :: ms)) = (t1 <- execute t (Sm [m]) ;; execute t1 (Sm ms)).
Proof. reflexivity. Qed.

Theorem execute_sm_app : forall ms1 ms2 t,
  execute t (Sm (ms1 ++ ms2)) = (t1 <- execute t (Sm ms1) ;; execute t1 (Sm ms2)).
Proof. intros ms1 ms2 t. cbn [execute bind]. rewrite fold_left_app. reflexivity. Qed.

Theorem execute_sm_run : forall ms t,
  execute t (Sm ms) = foldM (fun t1 m => execute t1 (Sm [m])) ms t.
Proof.
  induction ms as [|m ms IH]; intros t; [reflexivity|].
  rewrite execute_sm_cons. cbn [foldM]. cbn [execute fold_left bind]. apply (IH (sm_one t m)).
Qed.

Theorem execute_rm_nil : forall t, execute t (Rm []) = Ok t.
Proof. reflexivity. Qed.

Theorem execute_rm_cons : forall t m ms,
  execute t (Rm (m :: ms)) = (t1 <- execute t (Rm [m]) ;; execute t1 (Rm ms)).
Proof. reflexivity. Qed.

Theorem execute_rm_app : forall ms1 ms2 t,
  execute t (Rm (ms1 ++ ms2)) = (t1 <- execute t (Rm ms1) ;; execute t1 (Rm ms2)).
Proof. intros ms1 ms2 t. cbn [execute bind]. rewrite fold_left_app. reflexivity. Qed.

Theorem execute_rm_run : forall ms t,
  execute t (Rm ms) = foldM (fun t1 m => execute t1 (Rm [m])) ms t.
Proof.
  induction ms as [|m ms IH]; intros t; [reflexivity|].
  rewrite execute_rm_cons. cbn [foldM]. cbn [execute fold_left bind]. apply (IH (rm_one t m)).
Qed.

Print Assumptions execute_decset_cons.
Print Assumptions execute_decset_app.
Print Assumptions execute_decset_run.
Print Assumptions execute_decrst_cons.
Print Assumptions execute_decrst_app.
Print Assumptions execute_decrst_run.
Print Assumptions execute_sm_cons.
Print Assumptions execute_sm_run.
Print Assumptions execute_rm_cons.
Print Assumptions execute_rm_run.

(** non-vacuity: [CSI ? 6 ; 7 h] on a state with margins is origin-then-autowrap *)
Example execute_decset_cons_ex :
  execute (ex_t ex_margins) (Decset [Origin; AutoWrap])
  = Ok (spec_home (ex_t ex_margins <| org := true |>) <| awm := true |>)
  /\ cur_row (spec_home (ex_t ex_margins <| org := true |>)) = 1.
Proof. vm_compute. split; reflexivity. Qed.

(** ** generic lifting: whatever every singleton step guarantees (as a reflexive, transitive
    relation between the states before and after, under the invariant) holds for every list.
    This lifts every per-mode frame clause of [holds_C05] / [holds_C16] / [holds_C17] proved for
    [Decset [m]] to [Decset ms]. *)
Lemma exec_TInv t f t' : TInv t -> execute t f = Ok t' -> TInv t'.
Proof.
  intros HI E. destruct (execute_ok t f HI) as (t1 & E1 & HI1).
  rewrite E in E1. apply Ok_inj in E1. subst t1. exact HI1.
Qed.

Theorem decset_lift : forall (R : term -> term -> Prop),
  (forall t, R t t) -> (forall a b c, R a b -> R b c -> R a c) ->
  (forall t m t', TInv t -> execute t (Decset [m]) = Ok t' -> R t t') ->
  forall ms t t', TInv t -> execute t (Decset ms) = Ok t' -> R t t'.
Proof.
  intros R Hrefl Htrans Hone. induction ms as [|m ms IH]; intros t t' HI E.
  - rewrite execute_decset_nil in E. apply Ok_inj in E. subst t'. apply Hrefl.
  - rewrite execute_decset_cons in E. apply bindk in E as (t1 & E1 & E).
    exact (Htrans _ _ _ (Hone _ _ _ HI E1) (IH _ _ (exec_TInv _ _ _ HI E1) E)).
Qed.

Theorem decrst_lift : forall (R : term -> term -> Prop),
  (forall t, R t t) -> (forall a b c, R a b -> R b c -> R a c) ->
  (forall t m t', TInv t -> execute t (Decrst [m]) = Ok t' -> R t t') ->
  forall ms t t', TInv t -> execute t (Decrst ms) = Ok t' -> R t t'.
Proof.
  intros R Hrefl Htrans Hone. induction ms as [|m ms IH]; intros t t' HI E.
  - rewrite execute_decrst_nil in E. apply Ok_inj in E. subst t'. apply Hrefl.
  - rewrite execute_decrst_cons in E. apply bindk in E as (t1 & E1 & E).
    exact (Htrans _ _ _ (Hone _ _ _ HI E1) (IH _ _ (exec_TInv _ _ _ HI E1) E)).
Qed.
Print Assumptions decset_lift.
Print Assumptions decrst_lift.

(** ** the flag-only modes 1, 7, 25 in lists: exact effect *)
Definition quiet_mode (m : dec_mode) : Prop := m = CursorKeys \/ m = AutoWrap \/ m = TextCursorEnable.

Definition dec_mode_eqb (a b : dec_mode) : bool :=
  match a, b with
  | CursorKeys, CursorKeys | Origin, Origin | AutoWrap, AutoWrap
  | TextCursorEnable, TextCursorEnable | AltScreenBuffer, AltScreenBuffer
  | SaveCursor, SaveCursor | SaveCursorAltScreenBuffer, SaveCursorAltScreenBuffer => true
  | _, _ => false
  end.

Definition has_mode (m : dec_mode) (ms : list dec_mode) : bool := existsb (dec_mode_eqb m) ms.

Lemma has_mode_In m ms : has_mode m ms = true <-> In m ms.
Proof.
  unfold has_mode. rewrite existsb_exists. split.
  - intros (x & Hx & He). destruct m, x; try discriminate He; exact Hx.
  - intros H. exists m. split; [exact H|destruct m; reflexivity].
Qed.

(** every flag named in the list gets the value [b], the others keep theirs *)
Definition set_quiet (ms : list dec_mode) (b : bool) (t : term) : term :=
  t <| ckm := if has_mode CursorKeys ms then b else ckm t |>
    <| awm := if has_mode AutoWrap ms then b else awm t |>
    <| cur_vis := if has_mode TextCursorEnable ms then b else cur_vis t |>.

Theorem decset_quiet : forall ms t,
  Forall quiet_mode ms -> execute t (Decset ms) = Ok (set_quiet ms true t).
Proof.
  induction ms as [|m ms IH]; intros t HF.
  - destruct t; reflexivity.
  - inversion HF as [|? ? Hm HF']; subst. rewrite exec_decset_cons.
    destruct Hm as [->|[->| ->]]; cbn [decset_one bind]; rewrite (IH _ HF');
      unfold set_quiet, has_mode; cbn [existsb dec_mode_eqb orb];
      destruct (existsb (dec_mode_eqb CursorKeys) ms), (existsb (dec_mode_eqb AutoWrap) ms),
        (existsb (dec_mode_eqb TextCursorEnable) ms); destruct t; reflexivity.
Qed.

Theorem decrst_quiet : forall ms t,
  Forall quiet_mode ms -> execute t (Decrst ms) = Ok (set_quiet ms false t).
Proof.
  induction ms as [|m ms IH]; intros t HF.
  - destruct t; reflexivity.
  - inversion HF as [|? ? Hm HF']; subst. rewrite exec_decrst_cons.
    destruct Hm as [->|[->| ->]]; cbn [decrst_one bind]; rewrite (IH _ HF');
      unfold set_quiet, has_mode; cbn [existsb dec_mode_eqb orb];
      destruct (existsb (dec_mode_eqb CursorKeys) ms), (existsb (dec_mode_eqb AutoWrap) ms),
        (existsb (dec_mode_eqb TextCursorEnable) ms); destruct t; reflexivity.
Qed.
Print Assumptions decset_quiet.
Print Assumptions decrst_quiet.

(** a singleton clause for ANY mode [m] (origin, 1048, 1049, 47/1047: the clauses of
    [holds_C05] / [holds_C16] / [holds_C17]) survives flag-only modes written before and after
    it in the same sequence, e.g. [CSI ? 25 ; 1049 ; 7 h]: the result is the singleton's result
    on [set_quiet ms1 true t], with the flags of [ms2] set afterwards *)
Theorem decset_quiet_around : forall ms1 m ms2 t,
  Forall quiet_mode ms1 -> Forall quiet_mode ms2 ->
  execute t (Decset (ms1 ++ m :: ms2))
  = (t1 <- execute (set_quiet ms1 true t) (Decset [m]) ;; Ok (set_quiet ms2 true t1)).
Proof.
  intros ms1 m ms2 t H1 H2.
  rewrite execute_decset_app, (decset_quiet _ _ H1). cbn [bind].
  rewrite execute_decset_cons.
  destruct (execute (set_quiet ms1 true t) (Decset [m])) as [t1|s]; cbn [bind]; [|reflexivity].
  apply decset_quiet, H2.
Qed.

Theorem decrst_quiet_around : forall ms1 m ms2 t,
  Forall quiet_mode ms1 -> Forall quiet_mode ms2 ->
  execute t (Decrst (ms1 ++ m :: ms2))
  = (t1 <- execute (set_quiet ms1 false t) (Decrst [m]) ;; Ok (set_quiet ms2 false t1)).
Proof.
  intros ms1 m ms2 t H1 H2.
  rewrite execute_decrst_app, (decrst_quiet _ _ H1). cbn [bind].
  rewrite execute_decrst_cons.
  destruct (execute (set_quiet ms1 false t) (Decrst [m])) as [t1|s]; cbn [bind]; [|reflexivity].
  apply decrst_quiet, H2.
Qed.
Print Assumptions decset_quiet_around.
Print Assumptions decrst_quiet_around.

Example decset_quiet_around_ex :
  execute (ex_t ex_margins) (Decset ([TextCursorEnable] ++ SaveCursorAltScreenBuffer :: [AutoWrap]))
  = (t1 <- execute (ex_t ex_margins) (Decset [SaveCursorAltScreenBuffer]) ;; Ok t1)
  /\ exists t', execute (ex_t ex_margins) (Decset [TextCursorEnable; SaveCursorAltScreenBuffer; AutoWrap]) = Ok t'
       /\ active t' = Alternate /\ asctx t' = spec_saved_now (ex_t ex_margins).
Proof. vm_compute. split; [reflexivity|]. eexists. split; [reflexivity|]. split; reflexivity. Qed.

(** ** C05 clause 6 for lists: the cursor is homed as the LAST origin step of the list says,
    whatever precedes it, provided no later mode of the same sequence moves the cursor
    (DECSET: nothing but the two screen switches can; DECRST: 1048 restores the cursor, so it
    is excluded as well) *)
Definition no_switch (ms : list dec_mode) : Prop :=
  forall m, In m ms -> m <> AltScreenBuffer /\ m <> SaveCursorAltScreenBuffer.

Lemma no_switch_cons m ms : no_switch (m :: ms) ->
  (m <> AltScreenBuffer /\ m <> SaveCursorAltScreenBuffer) /\ no_switch ms.
Proof. intros H. split; [apply H; left; reflexivity|intros x Hx; apply H; right; exact Hx]. Qed.

Definition homed (tp : nat) (o : bool) (t : term) : Prop :=
  org t = o /\ cur_col t = 0 /\ cur_row t = (if o then tp else 0) /\ pend t = false /\ top t = tp.

Lemma decset_one_homed tp t m t' :
  m <> AltScreenBuffer /\ m <> SaveCursorAltScreenBuffer ->
  decset_one t m = Ok t' -> homed tp true t -> homed tp true t'.
Proof.
  intros [Ha Hb] E (Ho & Hc & Hr & Hp & Ht). unfold homed.
  destruct m; try congruence; cbn [decset_one] in E; apply Ok_inj in E; subst t';
    destruct t; cbn in *; subst; repeat split; reflexivity.
Qed.

Lemma decset_homed_list tp : forall ms a t',
  no_switch ms -> execute a (Decset ms) = Ok t' -> homed tp true a -> homed tp true t'.
Proof.
  induction ms as [|m ms IH]; intros a t' Hn E Ha.
  - rewrite execute_decset_nil in E. apply Ok_inj in E. subst t'. exact Ha.
  - apply no_switch_cons in Hn as [Hm Hn]. rewrite exec_decset_cons in E.
    apply bindk in E as (a1 & Ea & E). exact (IH _ _ Hn E (decset_one_homed _ _ _ _ Hm Ea Ha)).
Qed.

Theorem decset_origin_last : forall ms1 ms2 t t',
  no_switch ms2 ->
  execute t (Decset (ms1 ++ Origin :: ms2)) = Ok t' ->
  org t' = true /\ cur_col t' = 0 /\ cur_row t' = top t /\ pend t' = false /\ top t' = top t.
Proof.
  intros ms1 ms2 t t' Hn E.
  rewrite execute_decset_app in E. apply bindk in E as (t1 & E1 & E).
  rewrite exec_decset_cons in E. apply bindk in E as (t2 & E2 & E).
  assert (Htop : top t1 = top t).
  { cbn [execute] in E1. apply decset_keepD in E1. unfold keepD in E1. injection E1; intros; assumption. }
  apply (decset_homed_list (top t) ms2 t2 t' Hn E).
  change (Ok (move_cursor_home (t1 <| org := true |>)) = Ok t2) in E2. apply Ok_inj in E2. subst t2.
  unfold homed. rewrite <- Htop. destruct t1; cbn. repeat split; reflexivity.
Qed.

Definition flag_modes (ms : list dec_mode) : Prop :=
  forall m, In m ms -> m = CursorKeys \/ m = Origin \/ m = AutoWrap \/ m = TextCursorEnable.

Lemma decrst_one_homed tp t m t' :
  m = CursorKeys \/ m = Origin \/ m = AutoWrap \/ m = TextCursorEnable ->
  decrst_one t m = Ok t' -> homed tp false t -> homed tp false t'.
Proof.
  intros Hm E (Ho & Hc & Hr & Hp & Ht). unfold homed.
  destruct Hm as [->|[->|[->| ->]]]; cbn [decrst_one] in E; apply Ok_inj in E; subst t';
    destruct t; cbn in *; subst; repeat split; reflexivity.
Qed.

Lemma decrst_homed_list tp : forall ms a t',
  flag_modes ms -> execute a (Decrst ms) = Ok t' -> homed tp false a -> homed tp false t'.
Proof.
  induction ms as [|m ms IH]; intros a t' Hn E Ha.
  - rewrite execute_decrst_nil in E. apply Ok_inj in E. subst t'. exact Ha.
  - rewrite exec_decrst_cons in E. apply bindk in E as (a1 & Ea & E).
    refine (IH _ _ _ E (decrst_one_homed _ _ _ _ (Hn m (or_introl eq_refl)) Ea Ha)).
    intros x Hx. apply Hn. right. exact Hx.
Qed.

Theorem decrst_origin_last : forall ms1 ms2 t t',
  flag_modes ms2 ->
  execute t (Decrst (ms1 ++ Origin :: ms2)) = Ok t' ->
  org t' = false /\ cur_col t' = 0 /\ cur_row t' = 0 /\ pend t' = false /\ top t' = top t.
Proof.
  intros ms1 ms2 t t' Hn E.
  rewrite execute_decrst_app in E. apply bindk in E as (t1 & E1 & E).
  rewrite exec_decrst_cons in E. apply bindk in E as (t2 & E2 & E).
  assert (Htop : top t1 = top t).
  { cbn [execute] in E1. apply decrst_keepD in E1. unfold keepD in E1. injection E1; intros; assumption. }
  apply (decrst_homed_list (top t) ms2 t2 t' Hn E).
  change (Ok (move_cursor_home (t1 <| org := false |>)) = Ok t2) in E2. apply Ok_inj in E2. subst t2.
  unfold homed. rewrite <- Htop. destruct t1; cbn. repeat split; reflexivity.
Qed.
Print Assumptions decset_origin_last.
Print Assumptions decrst_origin_last.

(** [CSI ? 25 ; 6 ; 7 h] with margins rows 1..2: homed to row 1 *)
Example decset_origin_last_ex :
  exists t', execute (ex_t ex_margins) (Decset ([TextCursorEnable] ++ Origin :: [AutoWrap])) = Ok t'
    /\ cur_col (ex_t ex_margins) = 2 /\ top (ex_t ex_margins) = 1
    /\ cur_col t' = 0 /\ cur_row t' = 1 /\ org t' = true.
Proof. vm_compute. eexists. split; [reflexivity|]. repeat split; reflexivity. Qed.

(* ------------------------------------------------------------------------------------ *)
(** * 2. What each mode does (exact record equalities, every [t]) *)

(** ** IRM (ANSI mode 4) *)
Theorem sem_insert_set : forall t, execute t (Sm [Insert]) = Ok (t <| ins := true |>).
Proof. reflexivity. Qed.
Theorem sem_insert_reset : forall t, execute t (Rm [Insert]) = Ok (t <| ins := false |>).
Proof. reflexivity. Qed.

(** ** LNM (ANSI mode 20) *)
Theorem sem_newline_set : forall t, execute t (Sm [NewLine]) = Ok (t <| nlm := true |>).
Proof. reflexivity. Qed.
Theorem sem_newline_reset : forall t, execute t (Rm [NewLine]) = Ok (t <| nlm := false |>).
Proof. reflexivity. Qed.

(** ** DECCKM (DEC mode 1) *)
Theorem sem_cursorkeys_set : forall t, execute t (Decset [CursorKeys]) = Ok (t <| ckm := true |>).
Proof. reflexivity. Qed.
Theorem sem_cursorkeys_reset : forall t, execute t (Decrst [CursorKeys]) = Ok (t <| ckm := false |>).
Proof. reflexivity. Qed.

(** ** DECAWM (DEC mode 7): ONLY the flag changes.  In particular a pending wrap is neither
    cancelled nor performed: [pend] and the cursor column ([= cols] while pending) stay. *)
Theorem sem_autowrap_set : forall t, execute t (Decset [AutoWrap]) = Ok (t <| awm := true |>).
Proof. reflexivity. Qed.
Theorem sem_autowrap_reset : forall t, execute t (Decrst [AutoWrap]) = Ok (t <| awm := false |>).
Proof. reflexivity. Qed.

Corollary sem_autowrap_pending : forall t (b : bool) t',
  execute t (if b then Decset [AutoWrap] else Decrst [AutoWrap]) = Ok t' ->
  awm t' = b /\ pend t' = pend t /\ cur_col t' = cur_col t /\ cur_row t' = cur_row t /\ buf t' = buf t.
Proof.
  intros t b t' E. destruct b; [rewrite sem_autowrap_set in E|rewrite sem_autowrap_reset in E];
    apply Ok_inj in E; subst t'; destruct t; cbn; repeat split; reflexivity.
Qed.

(** so [pend t = true] with [awm t = false] IS reachable ([CSI ? 7 l] in the pending position;
    audit C02 gap 2): the invariant rightly claims only [pend <-> col = cols].  The next glyph
    then overwrites the last column and the cursor stays parked. *)
Example sem_autowrap_reset_pending_ex :
  exists t' t'', execute (ex_t ex_pending) (Decrst [AutoWrap]) = Ok t'
    /\ pend (ex_t ex_pending) = true /\ awm (ex_t ex_pending) = true
    /\ pend t' = true /\ awm t' = false /\ cur_col t' = 10 /\ cur_row t' = 1
    /\ execute t' (Print 65) = Ok t''
    /\ pend t'' = true /\ cur_col t'' = 10 /\ cur_row t'' = 1.
Proof. vm_compute. do 2 eexists. repeat split; reflexivity. Qed.

(** ** DECTCEM (DEC mode 25) *)
Theorem sem_textcursorenable_set : forall t,
  execute t (Decset [TextCursorEnable]) = Ok (t <| cur_vis := true |>).
Proof. reflexivity. Qed.
Theorem sem_textcursorenable_reset : forall t,
  execute t (Decrst [TextCursorEnable]) = Ok (t <| cur_vis := false |>).
Proof. reflexivity. Qed.

(** ** DECOM (DEC mode 6): the flag, then home (row [top] under origin mode, else row 0);
    the C05 clause of [spec_cursor], here without any hypothesis *)
Theorem sem_origin_set : forall t,
  execute t (Decset [Origin]) = Ok (spec_home (t <| org := true |>)).
Proof. intros t. destruct t; reflexivity. Qed.
Theorem sem_origin_reset : forall t,
  execute t (Decrst [Origin]) = Ok (spec_home (t <| org := false |>)).
Proof. intros t. destruct t; reflexivity. Qed.

Corollary sem_origin_set_fields : forall t t', execute t (Decset [Origin]) = Ok t' ->
  org t' = true /\ cur_col t' = 0 /\ cur_row t' = top t /\ pend t' = false
  /\ buf t' = buf t /\ other t' = other t /\ top t' = top t /\ bot t' = bot t.
Proof.
  intros t t' E. rewrite sem_origin_set in E. apply Ok_inj in E. subst t'.
  destruct t; cbn; repeat split; reflexivity.
Qed.
Corollary sem_origin_reset_fields : forall t t', execute t (Decrst [Origin]) = Ok t' ->
  org t' = false /\ cur_col t' = 0 /\ cur_row t' = 0 /\ pend t' = false
  /\ buf t' = buf t /\ other t' = other t /\ top t' = top t /\ bot t' = bot t.
Proof.
  intros t t' E. rewrite sem_origin_reset in E. apply Ok_inj in E. subst t'.
  destruct t; cbn; repeat split; reflexivity.
Qed.

(** ** mode 1048 = DECSC / DECRC (whose content is specified in C17) *)
Theorem sem_savecursor_set : forall t, execute t (Decset [SaveCursor]) = execute t Decsc.
Proof. reflexivity. Qed.
Theorem sem_savecursor_reset : forall t, execute t (Decrst [SaveCursor]) = execute t Decrc.
Proof. reflexivity. Qed.

(** ** modes 47 / 1047 / 1049: switch (1049: save / restore around it), then re-fit the
    buffer shown to the current size; their content is C16 / C17 *)
Theorem sem_altscreen_set : forall t,
  execute t (Decset [AltScreenBuffer]) = (t1 <- switch_to_alternate_buffer t ;; reflow t1).
Proof. intros t. rewrite exec_decset_one. apply decset_asb_eq. Qed.
Theorem sem_altscreen_reset : forall t,
  execute t (Decrst [AltScreenBuffer]) = (t1 <- switch_to_primary_buffer t ;; reflow t1).
Proof. intros t. rewrite exec_decrst_one. apply decrst_asb_eq. Qed.
Theorem sem_savecursoraltscreen_set : forall t,
  execute t (Decset [SaveCursorAltScreenBuffer])
  = (t0 <- execute t Decsc ;; t1 <- switch_to_alternate_buffer t0 ;; reflow t1).
Proof. intros t. rewrite exec_decset_one, decset_scasb_eq. cbn [execute bind]. reflexivity. Qed.
Theorem sem_savecursoraltscreen_reset : forall t,
  execute t (Decrst [SaveCursorAltScreenBuffer])
  = (t1 <- switch_to_primary_buffer t ;; t2 <- execute t1 Decrc ;; reflow t2).
Proof. intros t. rewrite exec_decrst_one, decrst_scasb_eq. cbn [execute bind]. reflexivity. Qed.

(** ** unknown / unimplemented mode numbers.  The types [dec_mode] / [ansi_mode] have NO
    constructor for them: the dispatcher (Gen/Dispatch.v, [csi_dispatch_gen]) builds the mode
    list with [filter_map dec_mode_gen] / [filter_map ansi_mode_gen] over the parameters, so
    they are dropped at dispatch, before [execute] sees the function. *)
Definition known_dec_modes : list N := [1; 6; 7; 25; 47; 1047; 1048; 1049]%N.
Definition known_ansi_modes : list N := [4; 20]%N.

Theorem sem_unknown_dec_mode : forall v, dec_mode_gen v = None <-> ~ In v known_dec_modes.
Proof.
  intros v. unfold dec_mode_gen, known_dec_modes. cbv zeta. cbn [In].
  destruct (N.eqb_spec v 1); [subst; split; [discriminate|intros H; exfalso; apply H; tauto]|].
  destruct (N.eqb_spec v 6); [subst; split; [discriminate|intros H; exfalso; apply H; tauto]|].
  destruct (N.eqb_spec v 7); [subst; split; [discriminate|intros H; exfalso; apply H; tauto]|].
  destruct (N.eqb_spec v 25); [subst; split; [discriminate|intros H; exfalso; apply H; tauto]|].
  destruct (N.eqb_spec v 47); [subst; split; [discriminate|intros H; exfalso; apply H; tauto]|].
  destruct (N.eqb_spec v 1047); [subst; split; [discriminate|intros H; exfalso; apply H; tauto]|].
  destruct (N.eqb_spec v 1048); [subst; split; [discriminate|intros H; exfalso; apply H; tauto]|].
  destruct (N.eqb_spec v 1049); [subst; split; [discriminate|intros H; exfalso; apply H; tauto]|].
  split; [|reflexivity]. intros _ H. repeat (destruct H as [H|H]; [congruence|]). exact H.
Qed.

Theorem sem_unknown_ansi_mode : forall v, ansi_mode_gen v = None <-> ~ In v known_ansi_modes.
Proof.
  intros v. unfold ansi_mode_gen, known_ansi_modes. cbv zeta. cbn [In].
  destruct (N.eqb_spec v 4); [subst; split; [discriminate|intros H; exfalso; apply H; tauto]|].
  destruct (N.eqb_spec v 20); [subst; split; [discriminate|intros H; exfalso; apply H; tauto]|].
  split; [|reflexivity]. intros _ H. repeat (destruct H as [H|H]; [congruence|]). exact H.
Qed.

(** an unknown number anywhere in the parameter list contributes nothing *)
Lemma filter_map_app {A B} (f : A -> option B) (a b : list A) :
  filter_map f (a ++ b) = filter_map f a ++ filter_map f b.
Proof.
  induction a as [|x a IH]; [reflexivity|]. cbn [app filter_map]. rewrite IH.
  destruct (f x); reflexivity.
Qed.

Theorem sem_unknown_dec_mode_dropped : forall qs1 v qs2,
  ~ In v known_dec_modes ->
  filter_map dec_mode_gen (qs1 ++ v :: qs2) = filter_map dec_mode_gen (qs1 ++ qs2).
Proof.
  intros qs1 v qs2 Hv. apply sem_unknown_dec_mode in Hv. rewrite !filter_map_app.
  cbn [filter_map]. rewrite Hv. reflexivity.
Qed.

Theorem sem_unknown_ansi_mode_dropped : forall qs1 v qs2,
  ~ In v known_ansi_modes ->
  filter_map ansi_mode_gen (qs1 ++ v :: qs2) = filter_map ansi_mode_gen (qs1 ++ qs2).
Proof.
  intros qs1 v qs2 Hv. apply sem_unknown_ansi_mode in Hv. rewrite !filter_map_app.
  cbn [filter_map]. rewrite Hv. reflexivity.
Qed.

(** hence a sequence naming only unknown modes is a no-op on the terminal *)
Theorem sem_unknown_dec_modes_noop : forall qs t,
  Forall (fun v => ~ In v known_dec_modes) qs ->
  execute t (Decset (filter_map dec_mode_gen qs)) = Ok t
  /\ execute t (Decrst (filter_map dec_mode_gen qs)) = Ok t.
Proof.
  intros qs t HF. assert (E : filter_map dec_mode_gen qs = []).
  { induction HF as [|v qs Hv HF IH]; [reflexivity|]. cbn [filter_map].
    apply sem_unknown_dec_mode in Hv. rewrite Hv. exact IH. }
  rewrite E. split; reflexivity.
Qed.

Theorem sem_unknown_ansi_modes_noop : forall qs t,
  Forall (fun v => ~ In v known_ansi_modes) qs ->
  execute t (Sm (filter_map ansi_mode_gen qs)) = Ok t
  /\ execute t (Rm (filter_map ansi_mode_gen qs)) = Ok t.
Proof.
  intros qs t HF. assert (E : filter_map ansi_mode_gen qs = []).
  { induction HF as [|v qs Hv HF IH]; [reflexivity|]. cbn [filter_map].
    apply sem_unknown_ansi_mode in Hv. rewrite Hv. exact IH. }
  rewrite E. split; reflexivity.
Qed.

Print Assumptions sem_insert_set.
Print Assumptions sem_insert_reset.
Print Assumptions sem_newline_set.
Print Assumptions sem_newline_reset.
Print Assumptions sem_cursorkeys_set.
Print Assumptions sem_cursorkeys_reset.
Print Assumptions sem_autowrap_set.
Print Assumptions sem_autowrap_reset.
Print Assumptions sem_autowrap_pending.
Print Assumptions sem_textcursorenable_set.
Print Assumptions sem_textcursorenable_reset.
Print Assumptions sem_origin_set.
Print Assumptions sem_origin_reset.
Print Assumptions sem_savecursor_set.
Print Assumptions sem_savecursor_reset.
Print Assumptions sem_altscreen_set.
Print Assumptions sem_altscreen_reset.
Print Assumptions sem_savecursoraltscreen_set.
Print Assumptions sem_savecursoraltscreen_reset.
Print Assumptions sem_unknown_dec_mode.
Print Assumptions sem_unknown_ansi_mode.
Print Assumptions sem_unknown_dec_mode_dropped.
Print Assumptions sem_unknown_dec_modes_noop.
Print Assumptions sem_unknown_ansi_modes_noop.

(** non-vacuity: from the characters.  [CSI 4 h] sets [ins], [CSI ? 1 h] sets [ckm],
    [CSI ? 25 l] hides the cursor, [CSI ? 12 ; 2004 h] (unknown numbers) changes nothing *)
Example sem_modes_from_text_ex :
  ins (ex_t [27; 91; 52; 104]%N) = true /\ ins (ex_t []) = false
  /\ nlm (ex_t [27; 91; 50; 48; 104]%N) = true /\ nlm (ex_t []) = false
  /\ ckm (ex_t [27; 91; 63; 49; 104]%N) = true /\ ckm (ex_t []) = false
  /\ cur_vis (ex_t [27; 91; 63; 50; 53; 108]%N) = false /\ cur_vis (ex_t []) = true
  /\ awm (ex_t [27; 91; 63; 55; 108]%N) = false /\ awm (ex_t []) = true
  /\ ex_t [27; 91; 63; 49; 50; 59; 50; 48; 48; 52; 104]%N = ex_t []
  /\ ex_t [27; 91; 49; 50; 59; 51; 52; 104]%N = ex_t [].
Proof. vm_compute. repeat split; reflexivity. Qed.

(* ------------------------------------------------------------------------------------ *)
(** * 3. DECSTR (soft reset, [CSI ! p]) *)

(** Exactly ten fields are assigned; everything else is copied.  NOT touched: the cursor
    position and a pending wrap, both buffers (cells, wrap marks, scrollback), the tab stops,
    auto-wrap, new-line mode, cursor-keys mode, the saved context of the screen NOT showing
    ([asctx]), the active screen, the dirty flags, the size. *)
Definition spec_decstr (t : term) : term := {|
  cols := cols t;
  rows := rows t;
  buf := buf t;
  other := other t;
  active := active t;
  sb_limit := sb_limit t;
  cur_col := cur_col t;
  cur_row := cur_row t;
  cur_vis := true;                 (* cursor visible *)
  tpen := default_pen;             (* pen default *)
  cs0 := CsAscii;                  (* G0 = ASCII *)
  cs1 := CsAscii;                  (* G1 = ASCII *)
  acs := 0;                        (* G0 invoked *)
  tabs := tabs t;
  ins := false;                    (* insert mode off *)
  org := false;                    (* origin mode off *)
  awm := awm t;
  nlm := nlm t;
  ckm := ckm t;
  pend := pend t;
  top := 0;                        (* margins = full screen *)
  bot := rows t - 1;
  sctx := default_ctx;             (* saved context of the screen showing := power-on defaults *)
  asctx := asctx t;
  dirty := dirty t;
  xtw := xtw t
|}.

Theorem sem_decstr : forall t, execute t Decstr = Ok (spec_decstr t).
Proof. intros t. destruct t; reflexivity. Qed.
Print Assumptions sem_decstr.

(** the same, read per screen: the saved context of the ACTIVE screen becomes the default one
    (column 0, row 0, default pen, origin off, auto-wrap on), the other screen's is kept *)
Corollary sem_decstr_saved : forall t t', execute t Decstr = Ok t' ->
  saved_of t' (active t) = default_ctx
  /\ saved_of t' (other_screen (active t)) = saved_of t (other_screen (active t))
  /\ active t' = active t.
Proof.
  intros t t' E. rewrite sem_decstr in E. apply Ok_inj in E. subst t'.
  unfold saved_of, spec_decstr. cbn [active sctx asctx]. destruct (active t); cbn; repeat split; reflexivity.
Qed.

(** C06 gap 2: the margins after DECSTR; the cursor does NOT move (no homing, unlike DECSTBM)
    and origin mode is off, so addressing is absolute again *)
Corollary sem_decstr_margins : forall t t', execute t Decstr = Ok t' ->
  top t' = 0 /\ bot t' = rows t - 1 /\ org t' = false
  /\ cur_col t' = cur_col t /\ cur_row t' = cur_row t /\ pend t' = pend t
  /\ buf t' = buf t /\ other t' = other t /\ tabs t' = tabs t
  /\ awm t' = awm t /\ nlm t' = nlm t /\ ckm t' = ckm t.
Proof.
  intros t t' E. rewrite sem_decstr in E. apply Ok_inj in E. subst t'.
  cbn. repeat split; reflexivity.
Qed.
Print Assumptions sem_decstr_saved.
Print Assumptions sem_decstr_margins.

(** non-vacuity, from the characters: margins 2..3, origin mode, insert mode, bold, cursor
    hidden, DECCKM, auto-wrap off, a saved cursor; then [CSI ! p] *)
Definition ex_decstr_pre : list N :=
  ex_margins ++ [27; 91; 63; 54; 104]%N (* ?6h *) ++ [27; 91; 52; 104]%N (* 4h *) ++ [27; 91; 49; 109]%N (* 1m *)
  ++ [27; 91; 63; 50; 53; 108]%N (* ?25l *) ++ [27; 91; 63; 49; 104]%N (* ?1h *) ++ [27; 91; 63; 55; 108]%N (* ?7l *)
  ++ [120; 121; 27; 55]%N (* "xy" DECSC *).

Example sem_decstr_ex :
  let t := ex_t ex_decstr_pre in
  let t' := ex_t (ex_decstr_pre ++ [27; 91; 33; 112]%N) in
  t' = spec_decstr t
  /\ (top t, bot t, org t, ins t, cur_vis t, ckm t, awm t) = (1, 2, true, true, false, true, false)
  /\ intensity (tpen t) = Bold /\ sctx t <> default_ctx
  /\ (top t', bot t', org t', ins t', cur_vis t', ckm t', awm t') = (0, 3, false, false, true, true, false)
  /\ tpen t' = default_pen /\ sctx t' = default_ctx
  /\ (cur_col t', cur_row t') = (cur_col t, cur_row t) /\ cur_row t = 1 /\ cur_col t = 2.
Proof. vm_compute. repeat split; try reflexivity. discriminate. Qed.

(* ------------------------------------------------------------------------------------ *)
(** * 4. C02: size() is stable *)

(** no control function changes the size, as long as XTWINOPS is switched off - which the
    invariant guarantees ([ti_xtw]: the field [xtw] is [false] at construction and no function
    assigns it; with [xtw t = true] the statement is false, [CSI 8 ; r ; c t] would resize) *)
Theorem execute_size : forall t f t',
  xtw t = false -> execute t f = Ok t' -> cols t' = cols t /\ rows t' = rows t /\ xtw t' = false.
Proof.
  intros t f t' Hx H. destruct (is_cb_fn f) eqn:E.
  - pose proof (exec_cb_tfr _ _ _ E H) as F.
    rewrite (tfr_cols _ _ F), (tfr_rows _ _ F), (tfr_xtw _ _ F). auto.
  - destruct f; try discriminate E.
    all: try (cbn [execute] in H;
              first [ apply decset_keepD in H | apply decrst_keepD in H ];
              unfold keepD in H; injection H; intros; repeat split; congruence).
    all: try (apply (xtwinops_noop _ _ _ Hx) in H; subst t'; auto).
    all: repeat split; try (rewrite <- Hx); non_cb H t.
Qed.
Print Assumptions execute_size.

Theorem C02_size_feed : forall v c v' o,
  Inv v -> stepM v (Feed c) = Ok (v', o) -> vt_size v' = vt_size v.
Proof.
  intros v c v' o [_ HI] E. apply stepM_feed_inv in E. unfold vt_size.
  destruct (vt_feed_inv _ _ _ E) as [->|[f Ef]]; [reflexivity|].
  destruct (execute_size _ _ _ (ti_xtw _ HI) Ef) as (-> & -> & _). reflexivity.
Qed.

Theorem C02_size_flush : forall v v' o,
  stepM v Flush = Ok (v', o) -> vt_size v' = vt_size v.
Proof.
  intros v v' o E. apply stepM_flush_inv in E.
  destruct (vt_flush_frame _ _ _ E) as (_ & Hc & Hr & _). unfold vt_size. rewrite Hc, Hr. reflexivity.
Qed.

Theorem C02_size_resize : forall v c r v' o,
  stepM v (Resize c r) = Ok (v', o) -> vt_size v' = (c, r).
Proof.
  intros v c r v' o E. apply stepM_resize_inv in E as (t1 & E1 & E).
  destruct (vt_flush_frame _ _ _ E) as (_ & Hc & Hr & _). unfold vt_size. rewrite Hc, Hr.
  destruct v as [p t]. cbn [vterm set] in *. unfold set; cbn [vterm].
  destruct (term_resize_fields _ _ _ _ E1) as (-> & -> & _). reflexivity.
Qed.

(** the size a run ends with: that of the last [Resize], else the starting one *)
Definition size_after (s : nat * nat) (ops : list op) : nat * nat :=
  fold_left (fun s o => match o with Resize c r => (c, r) | _ => s end) ops s.

Theorem C02_size_runM : forall ops v v',
  Inv v -> Forall op_ok ops -> runM v ops = Ok v' -> vt_size v' = size_after (vt_size v) ops.
Proof.
  induction ops as [|o ops IH]; intros v v' HI HF E; cbn [runM] in E.
  - apply Ok_inj in E. subst v'. reflexivity.
  - inversion HF as [|? ? Ho HF']; subst.
    destruct (stepM_Inv v o HI Ho) as (v1 & ou & E1 & HI1). rewrite E1 in E. cbn [bind fst] in E.
    rewrite (IH _ _ HI1 HF' E). unfold size_after. cbn [fold_left]. f_equal.
    destruct o as [c| |c r].
    + exact (C02_size_feed _ _ _ _ HI E1).
    + exact (C02_size_flush _ _ _ E1).
    + exact (C02_size_resize _ _ _ _ _ E1).
Qed.

Theorem C02_size_run : forall c r l ops v,
  1 <= c -> 1 <= r -> Forall op_ok ops -> runM (vt_new c r l) ops = Ok v ->
  vt_size v = size_after (c, r) ops.
Proof.
  intros c r l ops v Hc Hr HF E.
  exact (C02_size_runM ops _ _ (vt_new_Inv c r l Hc Hr) HF E).
Qed.
Print Assumptions C02_size_feed.
Print Assumptions C02_size_flush.
Print Assumptions C02_size_resize.
Print Assumptions C02_size_runM.
Print Assumptions C02_size_run.

(** non-vacuity: [CSI 8 ; 2 ; 3 t] (XTWINOPS "resize to 2 rows, 3 columns") is dispatched as a
    function and leaves the size alone; a run with two resizes reports the last one *)
Example C02_size_feed_ex :
  let v := ex_vt [] in
  match runM v (map Feed [27; 91; 56; 59; 50; 59; 51]%N) with
  | Ok v1 =>
    (exists p, feedM (vparser v1) 116 = Ok (p, Some (Xtwinops (XtwinopsResize 3 2))))
    /\ match stepM v1 (Feed 116) with Ok (v2, _) => vt_size v2 = (10, 4) | Panic _ => False end
  | Panic _ => False
  end.
Proof. vm_compute. split; [eexists; reflexivity|reflexivity]. Qed.

Example C02_size_run_ex :
  size_after (10, 4) [Feed 97; Resize 7 3; Feed 98; Flush; Resize 5 2; Feed 99; Flush] = (5, 2)
  /\ match runM (vt_new 10 4 None) [Feed 97; Resize 7 3; Feed 98; Flush; Resize 5 2; Feed 99; Flush] with
     | Ok v => vt_size v = (5, 2) | Panic _ => False end.
Proof. vm_compute. split; reflexivity. Qed.

(* ------------------------------------------------------------------------------------ *)
(** * 5. C06 frame for the modes *)

(** mode changes that do not switch screens leave BOTH buffers untouched as records: no cell,
    no wrap mark, no scrollback line, no lazy-trim flag changes, on either screen.  (Stronger
    than asked: [buf t' = buf t]; [C06_frame_decset] below is the requested form.)  No
    invariant is needed. *)
Definition bufs_kept (t t' : term) : Prop :=
  buf t' = buf t /\ other t' = other t /\ active t' = active t.

Lemma decset_one_bufs t m t' :
  m <> AltScreenBuffer /\ m <> SaveCursorAltScreenBuffer ->
  decset_one t m = Ok t' -> bufs_kept t t'.
Proof.
  intros [Ha Hb] E. destruct m; try congruence; cbn [decset_one] in E; apply Ok_inj in E; subst t';
    destruct t; repeat split; reflexivity.
Qed.

Lemma decrst_one_bufs t m t' :
  m <> AltScreenBuffer /\ m <> SaveCursorAltScreenBuffer ->
  decrst_one t m = Ok t' -> bufs_kept t t'.
Proof.
  intros [Ha Hb] E. destruct m; try congruence; cbn [decrst_one] in E; apply Ok_inj in E; subst t';
    destruct t; repeat split; reflexivity.
Qed.

Theorem decset_bufs_kept : forall ms t t',
  no_switch ms -> execute t (Decset ms) = Ok t' -> bufs_kept t t'.
Proof.
  induction ms as [|m ms IH]; intros t t' Hn E.
  - rewrite execute_decset_nil in E. apply Ok_inj in E. subst t'. repeat split; reflexivity.
  - apply no_switch_cons in Hn as [Hm Hn]. rewrite exec_decset_cons in E.
    apply bindk in E as (t1 & E1 & E).
    destruct (decset_one_bufs _ _ _ Hm E1) as (A1 & A2 & A3).
    destruct (IH _ _ Hn E) as (B1 & B2 & B3). repeat split; congruence.
Qed.

Theorem decrst_bufs_kept : forall ms t t',
  no_switch ms -> execute t (Decrst ms) = Ok t' -> bufs_kept t t'.
Proof.
  induction ms as [|m ms IH]; intros t t' Hn E.
  - rewrite execute_decrst_nil in E. apply Ok_inj in E. subst t'. repeat split; reflexivity.
  - apply no_switch_cons in Hn as [Hm Hn]. rewrite exec_decrst_cons in E.
    apply bindk in E as (t1 & E1 & E).
    destruct (decrst_one_bufs _ _ _ Hm E1) as (A1 & A2 & A3).
    destruct (IH _ _ Hn E) as (B1 & B2 & B3). repeat split; congruence.
Qed.

(** the requested statements ([TInv t] is not needed and therefore not assumed) *)
Theorem C06_frame_decset : forall t ms t',
  execute t (Decset ms) = Ok t' ->
  (forall m, In m ms -> m <> AltScreenBuffer /\ m <> SaveCursorAltScreenBuffer) ->
  lines (buf t') = lines (buf t) /\ other t' = other t.
Proof.
  intros t ms t' E Hn. destruct (decset_bufs_kept ms t t' Hn E) as (-> & -> & _). auto.
Qed.

Theorem C06_frame_decrst : forall t ms t',
  execute t (Decrst ms) = Ok t' ->
  (forall m, In m ms -> m <> AltScreenBuffer /\ m <> SaveCursorAltScreenBuffer) ->
  lines (buf t') = lines (buf t) /\ other t' = other t.
Proof.
  intros t ms t' E Hn. destruct (decrst_bufs_kept ms t t' Hn E) as (-> & -> & _). auto.
Qed.

Theorem C06_frame_sm : forall t ms t',
  execute t (Sm ms) = Ok t' -> buf t' = buf t /\ lines (buf t') = lines (buf t) /\ other t' = other t.
Proof.
  intros t ms t' E. cbn [execute] in E. apply Ok_inj in E. subst t'.
  destruct (sm_fold ms t) as (a & b & ->). destruct t; repeat split; reflexivity.
Qed.

Theorem C06_frame_rm : forall t ms t',
  execute t (Rm ms) = Ok t' -> buf t' = buf t /\ lines (buf t') = lines (buf t) /\ other t' = other t.
Proof.
  intros t ms t' E. cbn [execute] in E. apply Ok_inj in E. subst t'.
  destruct (rm_fold ms t) as (a & b & ->). destruct t; repeat split; reflexivity.
Qed.

(** in the vocabulary of [holds_C06]: scrollback and parked buffer are kept *)
Corollary C06_frame_modes_tsb : forall t ms t',
  (execute t (Decset ms) = Ok t' \/ execute t (Decrst ms) = Ok t') -> no_switch ms ->
  tsb t' = tsb t /\ tview t' = tview t /\ other t' = other t.
Proof.
  intros t ms t' [E|E] Hn;
    [destruct (decset_bufs_kept ms t t' Hn E) as (Hb & Ho & _)
    |destruct (decrst_bufs_kept ms t t' Hn E) as (Hb & Ho & _)];
    unfold tsb, tview; rewrite Hb, Ho; auto.
Qed.

Print Assumptions decset_bufs_kept.
Print Assumptions decrst_bufs_kept.
Print Assumptions C06_frame_decset.
Print Assumptions C06_frame_decrst.
Print Assumptions C06_frame_sm.
Print Assumptions C06_frame_rm.
Print Assumptions C06_frame_modes_tsb.

(** non-vacuity: a state with scrollback (6 line feeds on 4 rows) and text; a five-mode list *)
Example C06_frame_decset_ex :
  let t := ex_t [97; 10; 98; 10; 99; 10; 100; 10; 101; 10; 102]%N in
  length (lines (buf t)) = 6
  /\ exists t', execute t (Decset [CursorKeys; Origin; AutoWrap; TextCursorEnable; SaveCursor]) = Ok t'
       /\ lines (buf t') = lines (buf t) /\ other t' = other t /\ t' <> t.
Proof.
  vm_compute. split; [reflexivity|]. eexists. split; [reflexivity|].
  split; [reflexivity|]. split; [reflexivity|]. discriminate.
Qed.
