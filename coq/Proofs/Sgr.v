(** Property C08: SGR.  (1) the parameter decoder [sgr_ops] (parser.rs, [SgrOps::next]) equals
    the grammar [spec_sgr_params] of the property text; (2) applying an op to the pen commutes
    with the observation of the pen (8 independent observations); (3) [execute (Sgr ops)]
    changes nothing but the pen. *)

From Avt Require Import Proofs.Inv Spec.Screen.
From Avt Require Import Gen.Consts.
From Coq Require Import Lia ZArith ZifyBool ZifyNat ZifyN.

(** * 1. decoding *)

(** three constructor levels of a positive: enough to decide the literals [2] and [5] *)
Ltac split_N x := destruct x as [|x]; [|do 3 (try destruct x as [x|x|])].

(** the single-code table.  Seven constructor levels decide every literal of both tables
    (all are < 128); above, both sides compute to [None]. *)
Lemma sgr_single_code : forall v, sgr_single v = spec_sgr_code v.
Proof.
  intros [|p]; [reflexivity|].
  do 7 (try destruct p as [p|p|]); reflexivity.
Qed.

Lemma hd_pparts (q : param) : hd 0%N (pparts q) = as_u16 q.
Proof. unfold pparts, as_u16. destruct (parts q); reflexivity. Qed.

Lemma pparts_nonempty (q : param) : parts q <> [] -> pparts q <> [].
Proof. unfold pparts. destruct (parts q); [congruence | discriminate]. Qed.

(** the spec's treatment of [38]/[48] followed by further parameters, as a step function:
    the op (if any) and the number of parameters consumed (including the [38]/[48] itself) *)
Definition ext_spec (mk : color -> sgr_op) (rest : list (list N)) : option sgr_op * nat :=
  match rest with
  | [5%N] :: i :: _ => (Some (mk (Indexed (byte (first_part i)))), 3)
  | [2%N] :: r :: g :: b :: _ =>
    (Some (mk (RGB (byte (first_part r)) (byte (first_part g)) (byte (first_part b)))), 5)
  | [5%N] :: _ | [2%N] :: _ => (None, 2)
  | _ => (None, 1)
  end.

Lemma sgr_ext_eq (mk : color -> sgr_op) (rest : list param) :
  sgr_ext mk rest = ext_spec mk (map pparts rest).
Proof.
  unfold sgr_ext, ext_spec, pu16, rgb, byte, first_part.
  destruct rest as [|p1 rest]; [reflexivity|].
  cbn [map].
  destruct rest as [|p2 [|p3 [|p4 rest]]]; cbn [map nth_error];
    rewrite ?hd_pparts;
    (destruct (pparts p1) as [|x [|y l]]; [reflexivity | | reflexivity]);
    split_N x; reflexivity.
Qed.

(** [sgr_step] on lists of parts *)
Definition spec_step (l : list N) (rest : list (list N)) : option sgr_op * nat :=
  match l with
  | [v] =>
    if (v =? 38)%N then ext_spec SetForegroundColor rest else
    if (v =? 48)%N then ext_spec SetBackgroundColor rest else
    (spec_sgr_code v, 1)
  | [a; b; c] =>
    if (a =? 38)%N && (b =? 5)%N then (Some (SetForegroundColor (Indexed (byte c))), 1) else
    if (a =? 48)%N && (b =? 5)%N then (Some (SetBackgroundColor (Indexed (byte c))), 1) else
    (None, 1)
  | [a; b; r; g; bl] =>
    if (a =? 38)%N && (b =? 2)%N then (Some (SetForegroundColor (RGB (byte r) (byte g) (byte bl))), 1) else
    if (a =? 48)%N && (b =? 2)%N then (Some (SetBackgroundColor (RGB (byte r) (byte g) (byte bl))), 1) else
    (None, 1)
  | [a; b; _; r; g; bl] =>
    if (a =? 38)%N && (b =? 2)%N then (Some (SetForegroundColor (RGB (byte r) (byte g) (byte bl))), 1) else
    if (a =? 48)%N && (b =? 2)%N then (Some (SetBackgroundColor (RGB (byte r) (byte g) (byte bl))), 1) else
    (None, 1)
  | _ => (None, 1)
  end.

Lemma sgr_step_eq (p : param) (rest : list param) :
  sgr_step p rest = spec_step (pparts p) (map pparts rest).
Proof.
  unfold sgr_step, spec_step.
  destruct (pparts p) as [|a [|b [|c [|d [|e [|f [|g l]]]]]]]; try reflexivity.
  rewrite !sgr_ext_eq, sgr_single_code. reflexivity.
Qed.

Definition cons_opt {A} (o : option A) (r : list A) : list A :=
  match o with Some x => x :: r | None => r end.

(** one unfolding of the grammar = one step, then continue after the consumed parameters *)
Lemma spec_sgr_unfold (fuel : nat) (l : list N) (rest : list (list N)) :
  spec_sgr (S fuel) (l :: rest)
  = cons_opt (fst (spec_step l rest)) (spec_sgr fuel (skipn (snd (spec_step l rest) - 1) rest)).
Proof.
  destruct l as [|a [|b [|c [|d [|e [|f [|g l]]]]]]].
  - reflexivity.
  - (* [a] *)
    unfold spec_step. cbn [spec_sgr].
    destruct (a =? 38)%N eqn:E38; [|destruct (a =? 48)%N eqn:E48]; cbn [orb].
    + destruct rest as [|l1 rest]; [reflexivity|].
      destruct l1 as [|x l1]; [reflexivity|].
      split_N x; (destruct l1 as [|y l1]; [|reflexivity]); try reflexivity.
      * (* 5 *) destruct rest as [|i rest]; reflexivity.
      * (* 2 *) destruct rest as [|r [|g [|b rest]]]; reflexivity.
    + destruct rest as [|l1 rest]; [reflexivity|].
      destruct l1 as [|x l1]; [reflexivity|].
      split_N x; (destruct l1 as [|y l1]; [|reflexivity]); try reflexivity.
      * destruct rest as [|i rest]; reflexivity.
      * destruct rest as [|r [|g [|b rest]]]; reflexivity.
    + destruct (spec_sgr_code a); reflexivity.
  - split_N b; reflexivity.
  - (* [a; b; c] *)
    unfold spec_step. cbn [spec_sgr].
    split_N b; destruct (a =? 38)%N, (a =? 48)%N; reflexivity.
  - split_N b; reflexivity.
  - (* [a; b; c; d; e] *)
    unfold spec_step. cbn [spec_sgr].
    split_N b; destruct (a =? 38)%N, (a =? 48)%N; reflexivity.
  - (* [a; b; c; d; e; f] *)
    unfold spec_step. cbn [spec_sgr].
    split_N b; destruct (a =? 38)%N, (a =? 48)%N; reflexivity.
  - split_N b; reflexivity.
Qed.

(** the model's skip counter = dropping parameters *)
Lemma sgr_go_skip (k : nat) (ps : list param) : sgr_go k ps = sgr_go 0 (skipn k ps).
Proof.
  revert ps. induction k as [|k IH]; intros ps; [reflexivity|].
  destruct ps as [|p rest]; [reflexivity|].
  cbn [sgr_go skipn]. apply IH.
Qed.

Lemma sgr_go_unfold (p : param) (rest : list param) :
  sgr_go 0 (p :: rest)
  = cons_opt (fst (sgr_step p rest)) (sgr_go 0 (skipn (snd (sgr_step p rest) - 1) rest)).
Proof.
  cbn [sgr_go]. destruct (sgr_step p rest) as [op c]. cbn [fst snd].
  rewrite (sgr_go_skip (c - 1) rest). destruct op; reflexivity.
Qed.

Lemma sgr_go_fuel : forall fuel ps,
  length ps < fuel -> sgr_go 0 ps = spec_sgr fuel (map pparts ps).
Proof.
  induction fuel as [|fuel IH]; intros ps Hlen; [inversion Hlen|].
  destruct ps as [|p rest]; [reflexivity|].
  cbn [map]. rewrite sgr_go_unfold, spec_sgr_unfold, sgr_step_eq, skipn_map.
  f_equal. apply IH.
  cbn [length] in Hlen. rewrite skipn_length. lia.
Qed.

(** C08 (decoding), unconditionally *)
Theorem sgr_decode_spec_gen : forall ps, sgr_ops ps = spec_sgr_params ps.
Proof.
  intros ps. unfold sgr_ops, spec_sgr_params. apply sgr_go_fuel. lia.
Qed.

(** ... in particular under the parser invariant (the hypothesis is not used) *)
Theorem sgr_decode_spec : forall ps,
  Forall (fun q => parts q <> []) ps -> sgr_ops ps = spec_sgr_params ps.
Proof. intros ps _. apply sgr_decode_spec_gen. Qed.

Print Assumptions sgr_decode_spec_gen.
Print Assumptions sgr_decode_spec.

(** * 2. applying one op commutes with observation *)

Local Open Scope N_scope.

Lemma land_pow2 (a k : N) : (N.land a (2 ^ k) =? 0) = negb (N.testbit a k).
Proof.
  destruct (N.testbit a k) eqn:E; cbn [negb].
  - apply N.eqb_neq. intros H.
    assert (Hb : N.testbit (N.land a (2 ^ k)) k = true)
      by (rewrite N.land_spec, E, N.pow2_bits_true; reflexivity).
    rewrite H, N.bits_0 in Hb. discriminate Hb.
  - apply N.eqb_eq. apply N.bits_inj. intros n.
    rewrite N.land_spec, N.bits_0, N.pow2_bits_eqb.
    destruct (N.eqb_spec k n) as [Hkn|Hkn]; [subst n; rewrite E; reflexivity | apply andb_false_r].
Qed.

Lemma pen_has_bit (k : N) (p : pen) : pen_has (2 ^ k) p = N.testbit (attrs p) k.
Proof. unfold pen_has. rewrite land_pow2. apply negb_involutive. Qed.

Lemma set_bit (a j k : N) : N.testbit (N.lor a (2 ^ j)) k = N.testbit a k || (j =? k).
Proof. rewrite N.lor_spec, N.pow2_bits_eqb. reflexivity. Qed.

Lemma unset_bit (a j k : N) :
  k < 8 -> N.testbit (N.land a (N.lxor 255 (2 ^ j))) k = N.testbit a k && negb (j =? k).
Proof.
  intros Hk. rewrite N.land_spec, N.lxor_spec, N.pow2_bits_eqb.
  change 255 with (N.ones 8). rewrite (N.ones_spec_low 8 k Hk). reflexivity.
Qed.

(** the observation reads five bits of [attrs] (and nothing else of it) *)
Lemma observe_bits (p : pen) :
  observe p = mkObs (foreground p) (background p) (intensity p)
                    (N.testbit (attrs p) 0) (N.testbit (attrs p) 1) (N.testbit (attrs p) 3)
                    (N.testbit (attrs p) 4) (N.testbit (attrs p) 2).
Proof.
  unfold observe, is_italic, is_underline, is_blink, is_inverse, is_strikethrough.
  change ITALIC_MASK with (2 ^ 0). change UNDERLINE_MASK with (2 ^ 1).
  change STRIKETHROUGH_MASK with (2 ^ 2). change BLINK_MASK with (2 ^ 3).
  change INVERSE_MASK with (2 ^ 4).
  rewrite !pen_has_bit. reflexivity.
Qed.

Lemma observe_pen_set (j : N) (fg bg : option color) (i : inten) (a : N) :
  observe (pen_set (2 ^ j) (mkPen fg bg i a))
  = mkObs fg bg i (N.testbit a 0 || (j =? 0)) (N.testbit a 1 || (j =? 1)) (N.testbit a 3 || (j =? 3))
          (N.testbit a 4 || (j =? 4)) (N.testbit a 2 || (j =? 2)).
Proof.
  rewrite observe_bits.
  change (attrs (pen_set (2 ^ j) (mkPen fg bg i a))) with (N.lor a (2 ^ j)).
  rewrite !set_bit. reflexivity.
Qed.

Lemma observe_pen_unset (j : N) (fg bg : option color) (i : inten) (a : N) :
  observe (pen_unset (2 ^ j) (mkPen fg bg i a))
  = mkObs fg bg i (N.testbit a 0 && negb (j =? 0)) (N.testbit a 1 && negb (j =? 1))
          (N.testbit a 3 && negb (j =? 3)) (N.testbit a 4 && negb (j =? 4))
          (N.testbit a 2 && negb (j =? 2)).
Proof.
  rewrite observe_bits.
  change (attrs (pen_unset (2 ^ j) (mkPen fg bg i a))) with (N.land a (N.lxor 255 (2 ^ j))).
  rewrite !unset_bit by reflexivity. reflexivity.
Qed.

Ltac bits_sweep a :=
  generalize (N.testbit a 0) (N.testbit a 1) (N.testbit a 2) (N.testbit a 3) (N.testbit a 4);
  let b0 := fresh "b" in let b1 := fresh "b" in let b2 := fresh "b" in
  let b3 := fresh "b" in let b4 := fresh "b" in
  intros b0 b1 b2 b3 b4; destruct b0, b1, b2, b3, b4; reflexivity.

(** C08 (one op).  [attrs] is an arbitrary [N]: no [< 256] hypothesis is needed. *)
Theorem sgr_one_observe : forall p op, observe (sgr_one p op) = spec_sgr_one (observe p) op.
Proof.
  intros [fg bg i a] op.
  destruct op; cbn [sgr_one].
  - (* Reset *) reflexivity.
  - reflexivity.
  - reflexivity.
  - (* SetItalic *)
    change ITALIC_MASK with (2 ^ 0). rewrite observe_pen_set, observe_bits. cbn [attrs foreground background intensity].
    bits_sweep a.
  - change UNDERLINE_MASK with (2 ^ 1). rewrite observe_pen_set, observe_bits. cbn [attrs foreground background intensity].
    bits_sweep a.
  - change BLINK_MASK with (2 ^ 3). rewrite observe_pen_set, observe_bits. cbn [attrs foreground background intensity].
    bits_sweep a.
  - change INVERSE_MASK with (2 ^ 4). rewrite observe_pen_set, observe_bits. cbn [attrs foreground background intensity].
    bits_sweep a.
  - change STRIKETHROUGH_MASK with (2 ^ 2). rewrite observe_pen_set, observe_bits. cbn [attrs foreground background intensity].
    bits_sweep a.
  - (* ResetIntensity *) reflexivity.
  - change ITALIC_MASK with (2 ^ 0). rewrite observe_pen_unset, observe_bits. cbn [attrs foreground background intensity].
    bits_sweep a.
  - change UNDERLINE_MASK with (2 ^ 1). rewrite observe_pen_unset, observe_bits. cbn [attrs foreground background intensity].
    bits_sweep a.
  - change BLINK_MASK with (2 ^ 3). rewrite observe_pen_unset, observe_bits. cbn [attrs foreground background intensity].
    bits_sweep a.
  - change INVERSE_MASK with (2 ^ 4). rewrite observe_pen_unset, observe_bits. cbn [attrs foreground background intensity].
    bits_sweep a.
  - change STRIKETHROUGH_MASK with (2 ^ 2). rewrite observe_pen_unset, observe_bits. cbn [attrs foreground background intensity].
    bits_sweep a.
  - reflexivity.
  - reflexivity.
  - reflexivity.
  - reflexivity.
Qed.

Print Assumptions sgr_one_observe.

(** * 3. a whole op list *)

Corollary sgr_fold_observe : forall ops p,
  observe (fold_left sgr_one ops p) = fold_left spec_sgr_one ops (observe p).
Proof.
  induction ops as [|op ops IH]; intros p; [reflexivity|].
  cbn [fold_left]. rewrite IH, sgr_one_observe. reflexivity.
Qed.

Print Assumptions sgr_fold_observe.

(** * 4. independence of the eight observations *)

Theorem C08_independent : forall o1 o2 op,
  (o_fg o1 = o_fg o2 -> o_fg (spec_sgr_one o1 op) = o_fg (spec_sgr_one o2 op)) /\
  (o_bg o1 = o_bg o2 -> o_bg (spec_sgr_one o1 op) = o_bg (spec_sgr_one o2 op)) /\
  (o_int o1 = o_int o2 -> o_int (spec_sgr_one o1 op) = o_int (spec_sgr_one o2 op)) /\
  (o_italic o1 = o_italic o2 -> o_italic (spec_sgr_one o1 op) = o_italic (spec_sgr_one o2 op)) /\
  (o_underline o1 = o_underline o2 -> o_underline (spec_sgr_one o1 op) = o_underline (spec_sgr_one o2 op)) /\
  (o_blink o1 = o_blink o2 -> o_blink (spec_sgr_one o1 op) = o_blink (spec_sgr_one o2 op)) /\
  (o_inverse o1 = o_inverse o2 -> o_inverse (spec_sgr_one o1 op) = o_inverse (spec_sgr_one o2 op)) /\
  (o_strike o1 = o_strike o2 -> o_strike (spec_sgr_one o1 op) = o_strike (spec_sgr_one o2 op)).
Proof.
  intros [fg1 bg1 i1 it1 un1 bl1 inv1 st1] [fg2 bg2 i2 it2 un2 bl2 inv2 st2] op.
  destruct op; cbn; repeat split; intros H; try reflexivity; exact H.
Qed.

Print Assumptions C08_independent.

(** the same on the model: each observation of the new pen is a function of the op and the
    same observation of the old pen *)
Corollary C08_independent_model : forall p1 p2 op,
  (foreground p1 = foreground p2 -> foreground (sgr_one p1 op) = foreground (sgr_one p2 op)) /\
  (background p1 = background p2 -> background (sgr_one p1 op) = background (sgr_one p2 op)) /\
  (intensity p1 = intensity p2 -> intensity (sgr_one p1 op) = intensity (sgr_one p2 op)) /\
  (is_italic p1 = is_italic p2 -> is_italic (sgr_one p1 op) = is_italic (sgr_one p2 op)) /\
  (is_underline p1 = is_underline p2 -> is_underline (sgr_one p1 op) = is_underline (sgr_one p2 op)) /\
  (is_blink p1 = is_blink p2 -> is_blink (sgr_one p1 op) = is_blink (sgr_one p2 op)) /\
  (is_inverse p1 = is_inverse p2 -> is_inverse (sgr_one p1 op) = is_inverse (sgr_one p2 op)) /\
  (is_strikethrough p1 = is_strikethrough p2 ->
   is_strikethrough (sgr_one p1 op) = is_strikethrough (sgr_one p2 op)).
Proof.
  intros p1 p2 op.
  pose proof (C08_independent (observe p1) (observe p2) op) as H.
  rewrite <- !sgr_one_observe in H. exact H.
Qed.

Print Assumptions C08_independent_model.

(** * 5. [execute (Sgr ops)] changes nothing but the pen, and never panics *)

Theorem C08_execute_sgr : forall t ops,
  execute t (Sgr ops) = Ok (t <| tpen := fold_left sgr_one ops (tpen t) |>).
Proof. reflexivity. Qed.

Print Assumptions C08_execute_sgr.

(** every other field is untouched *)
Corollary C08_execute_sgr_frame : forall t ops,
  exists t', execute t (Sgr ops) = Ok t' /\
    observe (tpen t') = fold_left spec_sgr_one ops (observe (tpen t)) /\
    t' <| tpen := tpen t |> = t.
Proof.
  intros t ops. eexists. split; [apply C08_execute_sgr|]. split.
  - destruct t; cbn. apply sgr_fold_observe.
  - destruct t; reflexivity.
Qed.

Print Assumptions C08_execute_sgr_frame.
