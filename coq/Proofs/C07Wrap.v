(** C07, last sentence: "A row stops being soft-wrapped when its tail is erased or characters are deleted from it."

    [C07_rows]                   every row of the view after ED / EL / ECH / ICH / DCH / DECALN, as a function
                                 [edit_row] of the row before (cells AND mark; read off [spec_edit] via [C07_edit]);
    [C07_wrapmark]               the sentence ([holds_C07_wrapmark], Oracles/C07Wrap.v), for every state with
                                 [TInv], every editing command, every row - outside the class [kf1_C07];
    [C07_wrapmark_kf_exact]      KF-C07-1: on the WHOLE class [kf1_C07] (EL 1 / ED 1 with the cursor in the last
                                 column or in the wrap-pending position, on a soft-wrapped row) the cursor row is
                                 blanked completely - its tail is erased - and is STILL soft-wrapped;
    [C07_wrapmark_kf_fails]      ... hence [holds_C07_wrapmark] is false on the whole class (the class is exact);
    [kf1_C07_class]              the class in words;
    [C07_wrapmark_known_finding] a reachable witness (4 columns: "abcdefgh", CSI 1;4H, CSI 1K; CSI 2K unwraps);
    [C07_pending_unwraps]        the reading documented in Oracles/C07Wrap.v: ED 0 / EL 0 / ECH in the wrap-pending
                                 position erase nothing and clear the mark (not forbidden by the sentence, not claimed
                                 by [holds_C07_wrapmark]);
    [C14_collector_trailing_empty_witness]  KF-C14-1: [TextCollector] outputs differ by a trailing empty line
                                 between scrollback limits 0 and none. *)

From Coq Require Import Lia ZArith ZifyBool ZifyNat ZifyN List.
From Avt Require Import Oracles.Step Oracles.C07Wrap Proofs.Inv Proofs.VisEq Proofs.ListLemmas Proofs.BufRow
     Proofs.TermEasy Proofs.SpecEdit Proofs.InvStep Proofs.C04Wrap.
Import ListNotations.
Ltac Zify.zify_post_hook ::= Z.div_mod_to_equations.

Local Ltac len :=
  repeat (rewrite ?app_length, ?firstn_length, ?skipn_length, ?repeat_length, ?map_length,
                  ?upd_length, ?upd_row_length); try lia.

Local Ltac cases :=
  repeat match goal with
         | |- context [?a <? ?b] => destruct (Nat.ltb_spec a b)
         | |- context [?a <=? ?b] => destruct (Nat.leb_spec a b)
         | |- context [?a =? ?b] => destruct (Nat.eqb_spec a b)
         end.

(** * 1. list facts *)

Lemma nth_repeat_lt {A} (x : A) n : forall i, i < n -> nth_error (repeat x n) i = Some x.
Proof.
  induction n as [|n IH]; intros i Hi; [lia|].
  destruct i as [|i]; cbn [repeat nth_error]; [reflexivity|]. apply IH. lia.
Qed.

Lemma nth_upd_row r g (v : list line) i l :
  nth_error v i = Some l -> nth_error (upd_row r g v) i = Some (if i =? r then g l else l).
Proof.
  intros H. unfold upd_row. destruct (Nat.eqb_spec i r) as [E|Hne].
  - subst i. rewrite nth_error_upd_same, H. reflexivity.
  - rewrite nth_error_upd_other by (intros E; apply Hne; symmetry; exact E). exact H.
Qed.

Lemma nth_below {A} (v1 : list A) x n row r :
  length v1 = n -> row < n -> r < n ->
  nth_error (firstn (row + 1) v1 ++ repeat x (n - row - 1)) r
  = if r <=? row then nth_error v1 r else Some x.
Proof.
  intros H1 H2 H3. destruct (Nat.leb_spec r row) as [Hle|Hgt].
  - rewrite nth_error_app1 by (rewrite firstn_length; lia). apply nth_error_firstn_lt. lia.
  - rewrite nth_error_app2 by (rewrite firstn_length; lia).
    rewrite firstn_length. apply nth_repeat_lt. lia.
Qed.

Lemma nth_above {A} (v1 : list A) x row r :
  nth_error (repeat x row ++ skipn row v1) r = if r <? row then Some x else nth_error v1 r.
Proof.
  destruct (Nat.ltb_spec r row) as [Hlt|Hge].
  - rewrite nth_error_app1 by (rewrite repeat_length; lia). apply nth_repeat_lt; lia.
  - rewrite nth_error_app2 by (rewrite repeat_length; lia).
    rewrite repeat_length, nth_error_skipn_add. f_equal. lia.
Qed.

(** * 2. the view after an editing command *)

Lemma tview_len t : TInv t -> length (tview t) = rows t.
Proof.
  intros HT. unfold tview. rewrite (view_length _ (proj1 (ti_buf t HT))). apply (ti_brows t HT).
Qed.

Lemma tview_set_view_len s v : length v = brows (buf s) -> tview (set_view s v) = v.
Proof. intros H. exact (proj1 (Scr_view _ _ _ (Scr_set_screen s (tsb s) v H))). Qed.

Lemma edit_view t f t' e :
  TInv t -> execute t f = Ok t' -> spec_edit t f = Some e -> tview t' = tview e.
Proof.
  intros HT Hx He. destruct (C07_edit t f e HT He) as (t'' & Hx' & Hn).
  rewrite Hx in Hx'. apply Ok_inj in Hx'. subst t''.
  symmetry. exact (proj1 (vis_norm_screen _ _ Hn)).
Qed.

Lemma edit_view_is t f t' s v :
  TInv t -> execute t f = Ok t' -> spec_edit t f = Some (set_view s v) ->
  brows (buf s) = rows t -> length v = rows t -> tview t' = v.
Proof.
  intros HT Hx He Hb Hv. rewrite (edit_view t f t' _ HT Hx He).
  apply tview_set_view_len. lia.
Qed.

(** what an editing command makes of row [r] of the view (cells and soft-wrap mark), as a function of the
    row before: the row-wise reading of [spec_edit] *)
Definition edit_row (t : term) (f : func) (r : nat) (l : line) : line :=
  let col := cur_col t in
  let row := cur_row t in
  let p := tpen t in
  let nc := cols t in
  match f with
  | Ed EdBelow =>
    if r <? row then l else if r =? row then unwrap (clear_cells col nc p l) else blank_line nc p
  | Ed EdAbove =>
    if r <? row then blank_line nc p
    else if r =? row then clear_cells 0 (Nat.min (col + 1) nc) p l else l
  | Ed EdAll => blank_line nc p
  | Ed EdSavedLines => l
  | El ElToRight => if r =? row then unwrap (clear_cells col nc p l) else l
  | El ElToLeft => if r =? row then clear_cells 0 (Nat.min (col + 1) nc) p l else l
  | El ElAll => if r =? row then unwrap (clear_cells 0 nc p l) else l
  | Ech n =>
    if r =? row then
      let k := Nat.min (n1 n) (nc - col) in
      let l' := clear_cells col (col + k) p l in
      if col + k =? nc then unwrap l' else l'
    else l
  | Ich n =>
    if r =? row then
      let k := Nat.min (n1 n) (nc - col) in
      l <| cells := firstn col (cells l) ++ blanks k p ++ firstn (nc - col - k) (skipn col (cells l)) |>
    else l
  | Dch n =>
    if r =? row then
      let col' := Nat.min col (nc - 1) in
      let k := Nat.min (n1 n) (nc - col') in
      unwrap (l <| cells := firstn col' (cells l) ++ skipn (col' + k) (cells l) ++ blanks k p |>)
    else l
  | Decaln => l <| cells := repeat (mkCell 69 default_pen) nc |>
  | _ => l
  end.

Section Rows.
  Variables (t t' : term) (r : nat) (l : line).
  Hypothesis HT : TInv t.
  Hypothesis Hl : nth_error (tview t) r = Some l.

  Let Hlen : length (tview t) = rows t := tview_len t HT.
  Let Hbr : brows (buf t) = rows t := ti_brows t HT.
  Let Hrow : cur_row t < rows t := ti_row t HT.

  Lemma row_in : r < rows t.
  Proof. rewrite <- Hlen. apply nth_error_Some. rewrite Hl. discriminate. Qed.

  Lemma rows_el s : execute t (El s) = Ok t' -> nth_error (tview t') r = Some (edit_row t (El s) r l).
  Proof.
    intros Hx. destruct s.
    - rewrite (edit_view_is t _ t' _ _ HT Hx eq_refl Hbr) by (rewrite upd_row_length; exact Hlen).
      rewrite (nth_upd_row _ _ _ _ _ Hl). reflexivity.
    - rewrite (edit_view_is t _ t' _ _ HT Hx eq_refl Hbr) by (rewrite upd_row_length; exact Hlen).
      rewrite (nth_upd_row _ _ _ _ _ Hl). reflexivity.
    - rewrite (edit_view_is t _ t' _ _ HT Hx eq_refl Hbr) by (rewrite upd_row_length; exact Hlen).
      rewrite (nth_upd_row _ _ _ _ _ Hl). reflexivity.
  Qed.

  Lemma rows_ech n : execute t (Ech n) = Ok t' -> nth_error (tview t') r = Some (edit_row t (Ech n) r l).
  Proof.
    intros Hx.
    rewrite (edit_view_is t _ t' _ _ HT Hx eq_refl Hbr) by (rewrite upd_row_length; exact Hlen).
    rewrite (nth_upd_row _ _ _ _ _ Hl). reflexivity.
  Qed.

  Lemma rows_ich n : execute t (Ich n) = Ok t' -> nth_error (tview t') r = Some (edit_row t (Ich n) r l).
  Proof.
    intros Hx.
    rewrite (edit_view_is t _ t' _ _ HT Hx eq_refl Hbr) by (rewrite upd_row_length; exact Hlen).
    rewrite (nth_upd_row _ _ _ _ _ Hl). reflexivity.
  Qed.

  Lemma rows_dch n : execute t (Dch n) = Ok t' -> nth_error (tview t') r = Some (edit_row t (Dch n) r l).
  Proof.
    intros Hx.
    rewrite (edit_view_is t _ t' _ _ HT Hx eq_refl);
      [| destruct (cols t <=? cur_col t); exact Hbr | rewrite upd_row_length; exact Hlen].
    rewrite (nth_upd_row _ _ _ _ _ Hl). reflexivity.
  Qed.

  Lemma rows_decaln : execute t Decaln = Ok t' -> nth_error (tview t') r = Some (edit_row t Decaln r l).
  Proof.
    intros Hx.
    rewrite (edit_view_is t _ t' _ _ HT Hx eq_refl Hbr) by (rewrite map_length; exact Hlen).
    exact (map_nth_error _ _ _ Hl).
  Qed.

  Lemma rows_ed s : execute t (Ed s) = Ok t' -> nth_error (tview t') r = Some (edit_row t (Ed s) r l).
  Proof.
    intros Hx. pose proof row_in as Hr. destruct s.
    - (* ED 0 *)
      rewrite (edit_view_is t _ t' _ _ HT Hx eq_refl Hbr) by (len).
      rewrite (nth_below _ _ (rows t)) by (try rewrite upd_row_length; lia).
      rewrite (nth_upd_row _ _ _ _ _ Hl). unfold edit_row. cbv zeta. cases; try lia; reflexivity.
    - (* ED 1 *)
      rewrite (edit_view_is t _ t' _ _ HT Hx eq_refl Hbr) by (len).
      rewrite nth_above. rewrite (nth_upd_row _ _ _ _ _ Hl). unfold edit_row. cbv zeta.
      cases; try lia; reflexivity.
    - (* ED 2 *)
      rewrite (edit_view_is t _ t' _ _ HT Hx eq_refl Hbr) by (len).
      rewrite nth_repeat_lt by exact Hr. reflexivity.
    - (* ED 3 *)
      rewrite (edit_view t _ t' t HT Hx eq_refl). exact Hl.
  Qed.
End Rows.

(** Every row of the view after an editing command: cells and soft-wrap mark. *)
Theorem C07_rows : forall t f t' r l,
  TInv t -> execute t f = Ok t' -> is_edit f = true ->
  nth_error (tview t) r = Some l ->
  nth_error (tview t') r = Some (edit_row t f r l).
Proof.
  intros t f t' r l HT Hx Hf Hl.
  destruct f; try discriminate Hf;
    eauto using rows_dch, rows_decaln, rows_ech, rows_ed, rows_el, rows_ich.
Qed.
Print Assumptions C07_rows.

(** * 3. the soft-wrap mark of [edit_row] *)

Lemma wrapped_unwrap l : wrapped (unwrap l) = false.
Proof. reflexivity. Qed.

Lemma wrapped_clear a z p l : wrapped (clear_cells a z p l) = wrapped l.
Proof. destruct l; reflexivity. Qed.

Lemma wrapped_blank n p : wrapped (blank_line n p) = false.
Proof. reflexivity. Qed.

Lemma wrapped_cells (l : line) c : wrapped (l <| cells := c |>) = wrapped l.
Proof. destruct l; reflexivity. Qed.

Lemma cells_clear a z p l :
  cells (clear_cells a z p l) = firstn a (cells l) ++ blanks (z - a) p ++ skipn z (cells l).
Proof. destruct l; reflexivity. Qed.

Lemma cells_unwrap l : cells (unwrap l) = cells l.
Proof. destruct l; reflexivity. Qed.

(** the only rows where the sentence fails: the class of KF-C07-1, seen from the row *)
Definition kf_row (t : term) (f : func) (l : line) : bool :=
  match f with
  | El ElToLeft | Ed EdAbove => (cols t <=? cur_col t + 1) && wrapped l
  | _ => false
  end.

Local Ltac finish_row :=
  cbn [row_ok];
  rewrite ?wrapped_unwrap, ?wrapped_clear, ?wrapped_blank, ?wrapped_cells, ?wrapped_unwrap;
  try apply Bool.eqb_reflx; try reflexivity; try lia.

Lemma row_ok_edit t f r l :
  TInv t -> is_edit f = true ->
  (r = cur_row t -> kf_row t f l = false) ->
  row_ok (claim_at t f r) l (edit_row t f r l) = true.
Proof.
  intros HT Hf Hkf. pose proof (ti_col t HT) as Hcol. pose proof (ti_cols t HT) as Hcols.
  destruct f; try discriminate Hf;
    repeat match goal with
           | x : ed_scope |- _ => destruct x
           | x : el_scope |- _ => destruct x
           end;
    unfold claim_at, edit_row, extent_claim, kf_row in *; cbv zeta; cases; finish_row.
  all: specialize (Hkf ltac:(assumption)); destruct (wrapped l); [exfalso; lia|reflexivity].
Qed.

(** * 4. the theorems *)

(** the class of KF-C07-1 in words *)
Lemma kf1_C07_class : forall p t f,
  kf1_C07 (mkVt p t) f = true
  <-> (f = El ElToLeft \/ f = Ed EdAbove) /\ cols t <= cur_col t + 1
      /\ wrapped (row_at (tview t) (cur_row t)) = true.
Proof.
  intros p t f. unfold kf1_C07. cbn [vterm]. split.
  - intros H. destruct f; try discriminate H;
      match goal with
      | x : ed_scope |- _ => destruct x
      | x : el_scope |- _ => destruct x
      end; try discriminate H;
      apply Bool.andb_true_iff in H; destruct H as [H1 H2];
      (split; [auto|split; [lia|exact H2]]).
  - intros ([Hf|Hf] & Hc & Hw); subst f; rewrite Hw; cbn [andb]; rewrite Bool.andb_true_r; lia.
Qed.
Print Assumptions kf1_C07_class.

(** On every reachable state [cur_col t <= cols t] ([TInv]), so the middle conjunct reads: the cursor is in the last
    column ([cur_col t = cols t - 1]) or in the wrap-pending position ([cur_col t = cols t]). *)
Lemma kf1_C07_class_reachable : forall p t f,
  TInv t ->
  (kf1_C07 (mkVt p t) f = true
   <-> (f = El ElToLeft \/ f = Ed EdAbove)
       /\ (cur_col t = cols t - 1 \/ cur_col t = cols t)
       /\ wrapped (row_at (tview t) (cur_row t)) = true).
Proof.
  intros p t f HT. rewrite kf1_C07_class.
  pose proof (ti_col t HT) as Hcol. pose proof (ti_cols t HT) as Hcols.
  split; intros (H1 & H2 & H3); (split; [exact H1|split; [lia|exact H3]]).
Qed.
Print Assumptions kf1_C07_class_reachable.

Lemma row_at_nth (v : list line) r l : nth_error v r = Some l -> row_at v r = l.
Proof. intros H. unfold row_at. apply nth_error_nth. exact H. Qed.

(** The sentence at full strength outside the known-finding class: [TInv] is the only hypothesis on the state
    (every reachable state satisfies it), [kf1_C07 = false] excludes exactly KF-C07-1.
    [holds_C07_wrapmark] does not mention the class: the hypothesis is essential ([C07_wrapmark_kf_fails]). *)
Theorem C07_wrapmark : forall p p' t f t',
  TInv t -> execute t f = Ok t' ->
  kf1_C07 (mkVt p t) f = false ->
  holds_C07_wrapmark (mkVt p t) f (mkVt p' t') = true.
Proof.
  intros p p' t f t' HT Hx Hkf. unfold holds_C07_wrapmark. cbn [vterm].
  destruct (is_edit f) eqn:Hf; [|reflexivity].
  apply forallb_forall. intros r Hr. apply in_seq in Hr.
  pose proof (tview_len t HT) as Hlen.
  destruct (nth_error (tview t) r) as [l|] eqn:El; [|apply nth_error_None in El; lia].
  rewrite (C07_rows t f t' r l HT Hx Hf El).
  apply row_ok_edit; [exact HT|exact Hf|].
  intros Er. subst r. unfold kf1_C07 in Hkf. cbn [vterm] in Hkf.
  rewrite (row_at_nth _ _ _ El) in Hkf. exact Hkf.
Qed.
Print Assumptions C07_wrapmark.

(** In the WHOLE class [kf1_C07] the cursor row is blank from the first to the last cell afterwards and still
    soft-wrapped: the class is exact. *)
Theorem C07_wrapmark_kf_exact : forall p p' t f t',
  TInv t -> execute t f = Ok t' ->
  kf1_C07 (mkVt p t) f = true ->
  wrapmark_kept (mkVt p t) f (mkVt p' t') = true.
Proof.
  intros p p' t f t' HT Hx Hkf. unfold wrapmark_kept. rewrite Hkf. cbn [vterm andb].
  destruct (cur_row_in_view t HT) as (l & Hl).
  apply kf1_C07_class in Hkf as (Hfn & Hc & Hw).
  rewrite (row_at_nth _ _ _ Hl) in Hw.
  assert (Hf : is_edit f = true) by (destruct Hfn as [Hfn|Hfn]; subst f; reflexivity).
  rewrite (C07_rows t f t' _ l HT Hx Hf Hl).
  assert (HL : length (cells l) = cols t).
  { rewrite <- (ti_bcols t HT).
    exact (Forall_nth_error _ _ _ _ (view_Forall _ (proj1 (ti_buf t HT))) Hl). }
  assert (E : edit_row t f (cur_row t) l = clear_cells 0 (Nat.min (cur_col t + 1) (cols t)) (tpen t) l).
  { destruct Hfn as [Hfn|Hfn]; subst f; unfold edit_row; cbv zeta;
      rewrite ?Nat.ltb_irrefl, Nat.eqb_refl; reflexivity. }
  rewrite E, wrapped_clear, Hw, Bool.andb_true_r, cells_clear.
  replace (Nat.min (cur_col t + 1) (cols t)) with (cols t) by lia.
  rewrite skipn_all2 by lia. cbn [firstn app]. rewrite Nat.sub_0_r, app_nil_r.
  apply list_eqb_refl. exact cell_eqb_refl.
Qed.
Print Assumptions C07_wrapmark_kf_exact.

(** ... so the sentence is FALSE on the whole class: [holds_C07_wrapmark] hides nothing *)
Theorem C07_wrapmark_kf_fails : forall p p' t f t',
  TInv t -> execute t f = Ok t' ->
  kf1_C07 (mkVt p t) f = true ->
  holds_C07_wrapmark (mkVt p t) f (mkVt p' t') = false.
Proof.
  intros p p' t f t' HT Hx Hkf.
  pose proof (C07_wrapmark_kf_exact p p' t f t' HT Hx Hkf) as Hk.
  unfold wrapmark_kept in Hk. rewrite Hkf in Hk. cbn [vterm andb] in Hk.
  destruct (cur_row_in_view t HT) as (l & Hl).
  destruct (nth_error (tview t') (cur_row t)) as [l'|] eqn:El'; [|discriminate Hk].
  apply Bool.andb_true_iff in Hk. destruct Hk as [_ Hw'].
  apply kf1_C07_class in Hkf as (Hfn & Hc & Hw).
  pose proof (ti_col t HT) as Hcol. pose proof (ti_cols t HT) as Hcols. pose proof (ti_row t HT) as Hrow.
  destruct (holds_C07_wrapmark (mkVt p t) f (mkVt p' t')) eqn:Hh; [exfalso|reflexivity].
  unfold holds_C07_wrapmark in Hh. cbn [vterm] in Hh.
  assert (Hf : is_edit f = true) by (destruct Hfn as [Hfn|Hfn]; subst f; reflexivity).
  rewrite Hf in Hh. rewrite forallb_forall in Hh.
  specialize (Hh (cur_row t) ltac:(apply in_seq; lia)).
  rewrite Hl, El' in Hh.
  assert (Ec : claim_at t f (cur_row t) = Unwrapped).
  { destruct Hfn as [Hfn|Hfn]; subst f; unfold claim_at, extent_claim; cbv zeta;
      rewrite ?Nat.ltb_irrefl, Nat.eqb_refl; cases; try lia; reflexivity. }
  rewrite Ec in Hh. cbn [row_ok] in Hh. rewrite Hw' in Hh. discriminate Hh.
Qed.
Print Assumptions C07_wrapmark_kf_fails.

(** The reading documented in Oracles/C07Wrap.v: ED 0 / EL 0 / ECH issued in the wrap-pending position erase
    nothing (every cell of the row is what it was) and clear the row's mark.  The sentence says "stops being
    soft-wrapped WHEN", not "ONLY when": not forbidden, hence not a finding; [holds_C07_wrapmark] claims
    nothing about this row ([NoClaim]). *)
Lemma clear_cells_empty a p l : clear_cells a a p l = l.
Proof.
  destruct l as [c w]. unfold clear_cells. cbn. rewrite Nat.sub_diag. cbn [blanks repeat app].
  rewrite firstn_skipn. reflexivity.
Qed.

Theorem C07_pending_unwraps : forall t f t' l,
  TInv t -> execute t f = Ok t' ->
  (f = Ed EdBelow \/ f = El ElToRight \/ exists n, f = Ech n) ->
  cur_col t = cols t ->
  nth_error (tview t) (cur_row t) = Some l ->
  nth_error (tview t') (cur_row t) = Some (unwrap l)
  /\ claim_at t f (cur_row t) = NoClaim.
Proof.
  intros t f t' l HT Hx Hfn Hp Hl.
  assert (Hf : is_edit f = true) by (destruct Hfn as [Hfn|[Hfn|(n & Hfn)]]; subst f; reflexivity).
  rewrite (C07_rows t f t' _ l HT Hx Hf Hl).
  destruct Hfn as [Hfn|[Hfn|(n & Hfn)]]; subst f; unfold edit_row, claim_at, extent_claim; cbv zeta;
    rewrite ?Nat.ltb_irrefl, Nat.eqb_refl, Hp.
  - rewrite clear_cells_empty, Nat.ltb_irrefl. split; reflexivity.
  - rewrite clear_cells_empty, Nat.ltb_irrefl. split; reflexivity.
  - replace (cols t + Nat.min (n1 n) (cols t - cols t)) with (cols t) by lia.
    rewrite clear_cells_empty, Nat.eqb_refl, Nat.ltb_irrefl. split; reflexivity.
Qed.
Print Assumptions C07_pending_unwraps.

(** * 5. witnesses *)

(** KF-C07-1, a reachable witness: a fresh 4x2 terminal, "abcdefgh" (row 0 = "abcd", soft-wrapped; row 1 = "efgh"),
    [CSI 1;4 H] (cursor to the last column of row 0), [CSI 1 K].  The extent of EL 1 - columns 0..3 - is the whole
    row including its tail; the row is blank afterwards and still soft-wrapped: [text()] is the single logical line
    "    efgh".  [CSI 2 K] (same extent here) in the same state unwraps: two lines, "" and "efgh". *)
Definition kf7_pre : res vt :=
  x <- feed_str (vt_new 4 2 None)
         [97; 98; 99; 100; 101; 102; 103; 104; 27; 91; 49; 59; 52; 72; 27; 91; 49]%N ;; Ok (fst x).
Definition kf7_pre2 : res vt :=
  x <- feed_str (vt_new 4 2 None)
         [97; 98; 99; 100; 101; 102; 103; 104; 27; 91; 49; 59; 52; 72; 27; 91; 50]%N ;; Ok (fst x).

Example C07_wrapmark_known_finding :
  exists pre post pre2 post2,
    kf7_pre = Ok pre /\ vt_feed pre 75%N = Ok post
    /\ execute (vterm pre) (El ElToLeft) = Ok (vterm post)
    /\ cur_row (vterm pre) = 0 /\ cur_col (vterm pre) = 3 /\ cols (vterm pre) = 4
    /\ map wrapped (lines (buf (vterm pre))) = [true; false]
    /\ kf1_C07 pre (El ElToLeft) = true
    /\ wrapmark_kept pre (El ElToLeft) post = true
    /\ holds_C07_wrapmark pre (El ElToLeft) post = false
    /\ map line_text (lines (buf (vterm post))) = [[32; 32; 32; 32]; [101; 102; 103; 104]]%N
    /\ map wrapped (lines (buf (vterm post))) = [true; false]
    /\ vt_text post = [[32; 32; 32; 32; 101; 102; 103; 104]]%N   (* ONE logical line: four blanks + "efgh" *)
    (* the same place, CSI 2 K *)
    /\ kf7_pre2 = Ok pre2 /\ vt_feed pre2 75%N = Ok post2
    /\ execute (vterm pre2) (El ElAll) = Ok (vterm post2)
    /\ vterm pre2 = vterm pre
    /\ kf1_C07 pre2 (El ElAll) = false
    /\ holds_C07_wrapmark pre2 (El ElAll) post2 = true
    /\ map line_text (lines (buf (vterm post2))) = [[32; 32; 32; 32]; [101; 102; 103; 104]]%N
    /\ map wrapped (lines (buf (vterm post2))) = [false; false]
    /\ vt_text post2 = [[]; [101; 102; 103; 104]]%N.
Proof.
  destruct kf7_pre as [pre|] eqn:E1; [|vm_compute in E1; discriminate E1].
  destruct (vt_feed pre 75%N) as [post|] eqn:E2;
    [|vm_compute in E1; apply Ok_inj in E1; subst pre; vm_compute in E2; discriminate E2].
  destruct kf7_pre2 as [pre2|] eqn:E3; [|vm_compute in E3; discriminate E3].
  destruct (vt_feed pre2 75%N) as [post2|] eqn:E4;
    [|vm_compute in E3; apply Ok_inj in E3; subst pre2; vm_compute in E4; discriminate E4].
  exists pre, post, pre2, post2.
  vm_compute in E1. apply Ok_inj in E1. subst pre.
  vm_compute in E2. apply Ok_inj in E2. subst post.
  vm_compute in E3. apply Ok_inj in E3. subst pre2.
  vm_compute in E4. apply Ok_inj in E4. subst post2.
  vm_compute. repeat split; reflexivity.
Qed.
Print Assumptions C07_wrapmark_known_finding.

(** the same with ED 1 ([CSI 1 J]) and from the wrap-pending position: "abcde", [CSI 1;4 H], "x" leaves the cursor
    pending on the soft-wrapped row 0 *)
Example C07_wrapmark_known_finding_ed_pending :
  match feed_str (vt_new 4 2 None) [97; 98; 99; 100; 101; 27; 91; 49; 59; 52; 72; 120; 27; 91; 49]%N with
  | Ok (pre, _) =>
    match vt_feed pre 74%N with
    | Ok post =>
      execute (vterm pre) (Ed EdAbove) = Ok (vterm post)
      /\ cur_col (vterm pre) = 4 /\ pend (vterm pre) = true
      /\ kf1_C07 pre (Ed EdAbove) = true /\ wrapmark_kept pre (Ed EdAbove) post = true
      /\ holds_C07_wrapmark pre (Ed EdAbove) post = false
      /\ vt_text post = [[32; 32; 32; 32; 101]]%N
    | _ => False
    end
  | _ => False
  end.
Proof. vm_compute. repeat split; reflexivity. Qed.

(** non-vacuity of [C07_wrapmark]: 4x3, "abcdefghij" (rows 0 and 1 soft-wrapped), cursor to row 1.
    - EL 1 in column 1 (extent 0..1, ends before the last cell): the mark of row 1 is KEPT;
    - ED 0 in column 1: row 1 unwrapped, row 2 (wholly erased) unwrapped, row 0 keeps its mark;
    - DCH: row 1 unwrapped;  ICH, DECALN: all marks kept. *)
Definition nv_pre (final : list N) : res vt :=
  x <- feed_str (vt_new 4 3 None)
         ([97; 98; 99; 100; 101; 102; 103; 104; 105; 106; 27; 91; 50; 59; 50; 72; 27; 91] ++ final)%N ;;
  Ok (fst x).

Definition nv_check (final : list N) (last : N) (f : func) : option (bool * bool * bool * list bool) :=
  match nv_pre final with
  | Ok pre =>
    match vt_feed pre last, execute (vterm pre) f with
    | Ok post, Ok t' =>
      Some (term_eqb t' (vterm post), kf1_C07 pre f, holds_C07_wrapmark pre f post,
            map wrapped (lines (buf (vterm post))))
    | _, _ => None
    end
  | _ => None
  end.

Example C07_wrapmark_examples :
  nv_check [49]%N 75%N (El ElToLeft) = Some (true, false, true, [true; true; false])
  /\ nv_check [] 74%N (Ed EdBelow) = Some (true, false, true, [true; false; false])
  /\ nv_check [] 80%N (Dch 0%N) = Some (true, false, true, [true; false; false])
  /\ nv_check [] 64%N (Ich 0%N) = Some (true, false, true, [true; true; false])
  /\ nv_check [51]%N 88%N (Ech 3%N) = Some (true, false, true, [true; false; false])
  /\ nv_check [50]%N 88%N (Ech 2%N) = Some (true, false, true, [true; true; false]).
Proof. vm_compute. repeat split; reflexivity. Qed.

(** [holds_C07_wrapmark] rejects a wrong mark: the state after EL 1 above, with the mark of row 1 cleared *)
Example C07_wrapmark_rejects :
  match nv_pre [49]%N with
  | Ok pre =>
    match vt_feed pre 75%N with
    | Ok post =>
      let t' := vterm post in
      let bad := set_view t' (upd_row 1 unwrap (tview t')) in
      holds_C07_wrapmark pre (El ElToLeft) (mkVt (vparser post) bad) = false
    | _ => False
    end
  | _ => False
  end.
Proof. vm_compute. reflexivity. Qed.

(** the documented reading: EL 0 in the wrap-pending position erases nothing and unwraps; not claimed, not a finding *)
Example C07_pending_unwraps_example :
  match feed_str (vt_new 4 2 None) [97; 98; 99; 100; 101; 27; 91; 49; 59; 52; 72; 120; 27; 91]%N with
  | Ok (pre, _) =>
    match vt_feed pre 75%N with
    | Ok post =>
      execute (vterm pre) (El ElToRight) = Ok (vterm post)
      /\ pend (vterm pre) = true
      /\ map line_text (lines (buf (vterm pre))) = map line_text (lines (buf (vterm post)))
      /\ map wrapped (lines (buf (vterm pre))) = [true; false]
      /\ map wrapped (lines (buf (vterm post))) = [false; false]
      /\ kf1_C07 pre (El ElToRight) = false
      /\ holds_C07_wrapmark pre (El ElToRight) post = true
    | _ => False
    end
  | _ => False
  end.
Proof. vm_compute. repeat split; reflexivity. Qed.

(** * KF-C14-1: [TextCollector] across scrollback limits *)

From Avt Require Import Gen.RestFns Gen.AccFns Proofs.Collector Proofs.ParamChop.

(** everything a collector session hands out: the lines returned by the calls, then those returned by [flush] *)
Definition collected (v : vt) (ks : list ccall) : res (list (list N)) :=
  '(os, fin) <- collector_session v ks ;; Ok (concat os ++ fin).

(** A 2-column 1-row terminal fed "a", CR LF, CR LF through [TextCollector::feed_str]
    ([g_collector_feed_str feed_str]) and [TextCollector::flush] ([g_collector_flush]).  With scrollback limit 0 the
    lines "a" and "" scroll off and are handed out by [feed_str] before [flush] could strip the trailing empty
    line; without a limit everything comes from [flush], which strips it.  The two collected texts differ exactly
    by one trailing empty line - in three calls or in one, and also in the model's own [collector_total]. *)
Example C14_collector_trailing_empty_witness :
  let calls := [CFeedStr [97]; CFeedStr [13; 10]; CFeedStr [13; 10]]%N in
  let one := [CFeedStr [97; 13; 10; 13; 10]]%N in
  collector_session (vt_new 2 1 (Some 0%N)) calls = Ok ([[]; [[97]]; [[]]]%N, [])
  /\ collector_session (vt_new 2 1 None) calls = Ok ([[]; []; []], [[97]]%N)
  /\ collected (vt_new 2 1 (Some 0%N)) calls = Ok [[97]; []]%N
  /\ collected (vt_new 2 1 None) calls = Ok [[97]]%N
  /\ collected (vt_new 2 1 (Some 0%N)) one = Ok [[97]; []]%N
  /\ collected (vt_new 2 1 None) one = Ok [[97]]%N
  /\ (match run_session (vt_new 2 1 (Some 0%N)) [[97]; [13; 10]; [13; 10]]%N,
            run_session (vt_new 2 1 None) [[97]; [13; 10]; [13; 10]]%N with
      | Ok (v0, outs0), Ok (vI, outsI) =>
        collector_total outs0 (lines (buf (vterm v0))) = [[97]; []]%N
        /\ collector_total outsI (lines (buf (vterm vI))) = [[97]]%N
      | _, _ => False
      end).
Proof. vm_compute. repeat split; reflexivity. Qed.
Print Assumptions C14_collector_trailing_empty_witness.
