(** C16, part 4: leaving the alternate screen after a resize re-wraps the parked primary
    buffer ([holds_C16_resized] of Oracles/Rel.v), for every model step from every state
    satisfying [TInv].

    For [Decrst [SaveCursorAltScreenBuffer]] (mode 1049) from the alternate screen, [execute]
    is [switch_to_primary_buffer; restore_cursor; reflow], i.e. [buf_resize] of the parked
    buffer [other t] to the current size with the cursor [(sc_col c, sc_row c)],
    [c = asctx t = saved_of t Primary].  [resize_text'] applies because of [ti_other]
    ([BInv (other t)]) and [ti_parked] (the saved context lies inside the PARKED geometry).
    The geometry of the post-state is [execute_ok] + [TInv_geom_ok]. *)

From Coq Require Import Lia ZArith ZifyBool ZifyNat ZifyN.
From Avt Require Import Oracles.Step Oracles.Rel Spec.Logical Proofs.Inv Proofs.TermEasy
  Proofs.Frames Proofs.Resize Proofs.ResizeText Proofs.StepC17 Proofs.InvTerm Proofs.InvStep.
Ltac Zify.zify_post_hook ::= Z.div_mod_to_equations.

(** the post-state of any step satisfies the geometry oracle *)
Lemma C02_state_after p' t f t' :
  TInv t -> execute t f = Ok t' -> holds_C02_state (mkVt p' t') = true.
Proof.
  intros HT H. destruct (execute_ok t f HT) as (t'' & E & HT'').
  rewrite H in E. apply Ok_inj in E. subst t''.
  destruct (TInv_geom_ok t' HT'') as [G1 G2].
  unfold holds_C02_state. cbn [vterm]. rewrite G1, G2. reflexivity.
Qed.

(** mode 1049 reset, from the alternate screen: the text of the parked primary and the saved
    cursor's place in it survive the re-wrap to the current size *)
Lemma decrst_scasb_resized t t' :
  TInv t -> active t = Alternate ->
  execute t (Decrst [SaveCursorAltScreenBuffer]) = Ok t' ->
  resize_preserves (other t) (sc_col (asctx t)) (sc_row (asctx t))
    (buf t') (cur_col t') (cur_row t') = true.
Proof.
  intros HT Ea H. rewrite exec_decrst_one, decrst_scasb_eq in H.
  apply bind_ok in H as (t1 & H1 & H).
  apply switch_prim_inv in H1 as [[Ea' _]|[_ [d ->]]]; [rewrite Ea in Ea'; discriminate|].
  apply reflow_inv in H as (b & c & r & d' & Hb & ->).
  destruct (restore_cursor_fields_eq (to_prim t d)) as (R1 & _ & R3 & R4 & R5 & R6 & _).
  destruct (to_prim_fields t d) as (_ & P2 & _ & _ & P5 & P6 & P7 & _).
  rewrite R1, R3, R4, R5, R6, P2, P5, P6, P7 in Hb.
  rewrite reflowed_buf.
  destruct (reflowed_cur (restore_cursor (to_prim t d)) b c r d') as [-> ->].
  pose proof (ti_parked t HT) as HP. rewrite Ea in HP. destruct HP as [Hsc Hsr].
  apply (resize_text' (other t) (cols t) (rows t) (sc_col (asctx t)) (sc_row (asctx t)) b c r).
  - exact (ti_other t HT).
  - exact (ti_cols t HT).
  - exact (ti_rows t HT).
  - exact Hsr.
  - intros _ _. lia.
  - exact Hb.
Qed.

Theorem C16_resized_holds : forall p p' t f t',
  TInv t -> execute t f = Ok t' -> holds_C16_resized (mkVt p t) f (mkVt p' t') = true.
Proof.
  intros p p' t f t' HT H. unfold holds_C16_resized. cbn [vterm].
  destruct (is_alt_b t) eqn:Ea; [|reflexivity].
  destruct (is_alt_b t'); [reflexivity|]. cbn [negb andb].
  assert (Eact : active t = Alternate).
  { unfold is_alt_b in Ea. destruct (active t); [discriminate|reflexivity]. }
  destruct f; try reflexivity.
  destruct ms as [|m [|m' ms']]; try reflexivity; [|destruct m; reflexivity].
  destruct m; try reflexivity; destruct (sb_limit t) as [l|]; try reflexivity.
  - (* 47 / 1047 *) exact (C02_state_after p' t _ t' HT H).
  - (* 1049 *)
    rewrite (C02_state_after p' t _ t' HT H), Bool.andb_true_r.
    unfold saved_of. rewrite Eact. cbn [btype_eqb].
    exact (decrst_scasb_resized t t' HT Eact H).
Qed.

Print Assumptions C16_resized_holds.
