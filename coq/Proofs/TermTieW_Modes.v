(** SM RM DECSET DECRST (leaf of Proofs/TermTieW.v; see Proofs/TermTieW_Core.v for the method) *)
From Coq Require Import Lia ZArith ZifyBool ZifyNat ZifyN.
From Avt Require Import Oracles.Step Proofs.Inv Proofs.TermEasy Gen.TermFns Proofs.TermTie_Core Proofs.InvStep
  Proofs.TermTieW_Core Proofs.TermTieW_Switch Proofs.TermTieW_Reflow.
Ltac Zify.zify_post_hook ::= Z.div_mod_to_equations.
Local Open Scope Z_scope.

(** ** SM / RM *)
Lemma w_sm_eq t ms : ZW t -> w_sm Om (zabs t) (wabs t) ms = wres (Ok (fold_left sm_one ms t)).
Proof.
  intros H. unfold w_sm. rewrite <- foldM_pure.
  rewrite <- (map_id ms) at 1.
  rewrite (zfor_tie (fun x => x) ms _ (fun t m => Ok (sm_one t m)) (fun _ => True)).
  - destruct (foldM _ ms t); reflexivity.
  - intros t0 m _. destruct t0, m; reflexivity.
  - trivial.
  - trivial.
Qed.

Lemma w_rm_eq t ms : ZW t -> w_rm Om (zabs t) (wabs t) ms = wres (Ok (fold_left rm_one ms t)).
Proof.
  intros H. unfold w_rm. rewrite <- foldM_pure.
  rewrite <- (map_id ms) at 1.
  rewrite (zfor_tie (fun x => x) ms _ (fun t m => Ok (rm_one t m)) (fun _ => True)).
  - destruct (foldM _ ms t); reflexivity.
  - intros t0 m _. destruct t0, m; reflexivity.
  - trivial.
  - trivial.
Qed.


Lemma w_decset_eq t ms : TInv t -> w_decset Om (zabs t) (wabs t) ms = wres (foldM decset_one ms t).
Proof.
  intros HT. unfold w_decset. rewrite <- (map_id ms) at 1.
  rewrite (zfor_tie (fun x => x) ms _ decset_one TInv).
  - destruct (foldM decset_one ms t); reflexivity.
  - intros t0 m H0. pose proof (TInv_ZW t0 H0) as H.
    destruct m; cbn [decset_one].
    1-4: w_tie t0 H.
    + cstep w_switch_to_alternate_buffer_eq. cstep w_reflow_eq.
    + cstep w_save_cursor_eq.
    + cstep w_save_cursor_eq. cstep w_switch_to_alternate_buffer_eq. cstep w_reflow_eq.
  - exact (step_TInv decset_one Decset (fun _ _ => eq_refl)).
  - exact HT.
Qed.

Lemma w_decrst_eq t ms : TInv t -> w_decrst Om (zabs t) (wabs t) ms = wres (foldM decrst_one ms t).
Proof.
  intros HT. unfold w_decrst. rewrite <- (map_id ms) at 1.
  rewrite (zfor_tie (fun x => x) ms _ decrst_one TInv).
  - destruct (foldM decrst_one ms t); reflexivity.
  - intros t0 m H0. pose proof (TInv_ZW t0 H0) as H.
    destruct m; cbn [decrst_one].
    1-4: w_tie t0 H.
    + cstep w_switch_to_primary_buffer_eq. cstep w_reflow_eq.
    + cstep w_restore_cursor_eq.
    + cstep w_switch_to_primary_buffer_eq. cstep w_restore_cursor_eq. cstep w_reflow_eq.
  - exact (step_TInv decrst_one Decrst (fun _ _ => eq_refl)).
  - exact HT.
Qed.

