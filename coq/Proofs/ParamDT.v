(** Irrelevance of the dirty flags and of the lazy-trim flags (and, for the generalised
    relation, of the scrollback limits) for every control function.

    [Rdtg lim a b]: [a] and [b] agree on every field except
      - [dirty] (same LENGTH required: [mark] checks its index against [length dirty]),
      - the two buffers' [trim_needed],
      - and, when [lim = false], also [sb_limit] and the buffers' [blimit].
    [Rdt := Rdtg true] is the relation asked for ([Rdt_iff_vis_norm] gives the
    [vis_norm]-characterisation).

    Main results: [execute_Rdtg], [execute_Rdt], [vt_feed_Rdt], [feed_chars_Rdt],
    [flush_unlimited], [flush_unlimited_alt]. *)

From Avt Require Import Proofs.Inv Proofs.VisEq Proofs.ListLemmas Proofs.BufRow Proofs.BufScroll.
Require Import Lia ZArith ZifyBool ZifyNat.
Import ListNotations.

(** * relational lifting to the panic monad *)

Inductive rres {A B} (R : A -> B -> Prop) : res A -> res B -> Prop :=
| rres_ok x y : R x y -> rres R (Ok x) (Ok y)
| rres_panic s : rres R (Panic s) (Panic s).

Lemma rres_bind {A B A' B'} (R : A -> B -> Prop) (S : A' -> B' -> Prop) m1 m2 k1 k2 :
  rres R m1 m2 -> (forall x y, R x y -> rres S (k1 x) (k2 y)) ->
  rres S (bind m1 k1) (bind m2 k2).
Proof.
  intros Hm Hk. destruct Hm as [x y Hxy|s]; cbn [bind]; [apply Hk; exact Hxy|constructor].
Qed.

Lemma rres_eq_refl {A} (m : res A) : rres eq m m.
Proof. destruct m; constructor; reflexivity. Qed.

Lemma rres_ok_inv {A B} (R : A -> B -> Prop) m1 m2 x :
  rres R m1 m2 -> m1 = Ok x -> exists y, m2 = Ok y /\ R x y.
Proof.
  intros H E. destruct H as [x' y Hxy|s]; [|discriminate].
  injection E as <-. exists y. split; [reflexivity|exact Hxy].
Qed.

Lemma rres_ok_inv_r {A B} (R : A -> B -> Prop) m1 m2 y :
  rres R m1 m2 -> m2 = Ok y -> exists x, m1 = Ok x /\ R x y.
Proof.
  intros H E. destruct H as [x y' Hxy|s]; [|discriminate].
  injection E as <-. exists x. split; [reflexivity|exact Hxy].
Qed.

Lemma rres_impl {A B} (R S : A -> B -> Prop) m1 m2 :
  (forall x y, R x y -> S x y) -> rres R m1 m2 -> rres S m1 m2.
Proof. intros HRS H. destruct H; constructor. apply HRS; assumption. Qed.

(** * the relations *)

Definition leq (lim : bool) {A} (x y : A) : Prop := lim = true -> x = y.

Lemma leq_refl lim {A} (x : A) : leq lim x x.
Proof. intros _. reflexivity. Qed.

Record RB (lim : bool) (a b : buffer) : Prop := mkRB {
  rb_lines : lines a = lines b;
  rb_bcols : bcols a = bcols b;
  rb_brows : brows a = brows b;
  rb_blimit : leq lim (blimit a) (blimit b)
}.

Record Rdtg (lim : bool) (a b : term) : Prop := mkRdtg {
  rd_cols : cols a = cols b;
  rd_rows : rows a = rows b;
  rd_buf : RB lim (buf a) (buf b);
  rd_other : RB lim (other a) (other b);
  rd_active : active a = active b;
  rd_sb_limit : leq lim (sb_limit a) (sb_limit b);
  rd_cur_col : cur_col a = cur_col b;
  rd_cur_row : cur_row a = cur_row b;
  rd_cur_vis : cur_vis a = cur_vis b;
  rd_tpen : tpen a = tpen b;
  rd_cs0 : cs0 a = cs0 b;
  rd_cs1 : cs1 a = cs1 b;
  rd_acs : acs a = acs b;
  rd_tabs : tabs a = tabs b;
  rd_ins : ins a = ins b;
  rd_org : org a = org b;
  rd_awm : awm a = awm b;
  rd_nlm : nlm a = nlm b;
  rd_ckm : ckm a = ckm b;
  rd_pend : pend a = pend b;
  rd_top : top a = top b;
  rd_bot : bot a = bot b;
  rd_sctx : sctx a = sctx b;
  rd_asctx : asctx a = asctx b;
  rd_dirty : length (dirty a) = length (dirty b);
  rd_xtw : xtw a = xtw b
}.

Definition Rdt : term -> term -> Prop := Rdtg true.

Lemma RB_refl lim b : RB lim b b.
Proof. constructor; try reflexivity. apply leq_refl. Qed.

Lemma RB_sym lim a b : RB lim a b -> RB lim b a.
Proof. intros [H1 H2 H3 H4]. constructor; try (symmetry; assumption). intros E. symmetry. auto. Qed.

Lemma RB_trans lim a b c : RB lim a b -> RB lim b c -> RB lim a c.
Proof.
  intros [H1 H2 H3 H4] [G1 G2 G3 G4]. constructor; try congruence.
  intros E. rewrite (H4 E). auto.
Qed.

Lemma RB_weaken lim a b : RB true a b -> RB lim a b.
Proof. intros [H1 H2 H3 H4]. constructor; try assumption. intros _. apply H4. reflexivity. Qed.

Lemma Rdtg_refl lim t : Rdtg lim t t.
Proof. constructor; try reflexivity; try apply RB_refl; apply leq_refl. Qed.

Lemma Rdtg_sym lim a b : Rdtg lim a b -> Rdtg lim b a.
Proof.
  intros H. destruct H. constructor; try (symmetry; assumption); try (apply RB_sym; assumption).
  intros E. symmetry. auto.
Qed.

Lemma Rdtg_trans lim a b c : Rdtg lim a b -> Rdtg lim b c -> Rdtg lim a c.
Proof.
  intros H G. destruct H, G. constructor; try congruence; try (eapply RB_trans; eassumption).
  intros E. rewrite (rd_sb_limit0 E). auto.
Qed.

Lemma Rdtg_weaken lim a b : Rdtg true a b -> Rdtg lim a b.
Proof.
  intros H. destruct H. constructor; try assumption; try (apply RB_weaken; assumption).
  intros _. apply rd_sb_limit0. reflexivity.
Qed.

(** the [vis_norm] characterisation *)
Lemma RB_true_iff a b :
  RB true a b <-> a <| trim_needed := false |> = b <| trim_needed := false |>.
Proof.
  split.
  - intros [H1 H2 H3 H4]. specialize (H4 eq_refl). destruct a, b. cbn in *. subst. reflexivity.
  - intros H. destruct a, b. cbn in H. injection H as -> -> -> ->.
    constructor; try reflexivity. apply leq_refl.
Qed.

Theorem Rdt_iff_vis_norm a b :
  Rdt a b <-> (vis_norm a = vis_norm b /\ length (dirty a) = length (dirty b)).
Proof.
  unfold Rdt. split.
  - intros H. destruct H as [? ? Hb Ho ? Hl ? ? ? ? ? ? ? ? ? ? ? ? ? ? ? ? ? ? ? ?].
    apply RB_true_iff in Hb, Ho. specialize (Hl eq_refl).
    split; [|assumption]. unfold vis_norm. destruct a, b. cbn in *. subst.
    rewrite Hb, Ho. reflexivity.
  - intros [H Hd].
    assert (Hb : buf (vis_norm a) = buf (vis_norm b)) by (rewrite H; reflexivity).
    assert (Ho : other (vis_norm a) = other (vis_norm b)) by (rewrite H; reflexivity).
    change (buf (vis_norm a)) with ((buf a) <| trim_needed := false |>) in Hb.
    change (buf (vis_norm b)) with ((buf b) <| trim_needed := false |>) in Hb.
    change (other (vis_norm a)) with ((other a) <| trim_needed := false |>) in Ho.
    change (other (vis_norm b)) with ((other b) <| trim_needed := false |>) in Ho.
    apply RB_true_iff in Hb, Ho.
    constructor; try assumption; try (intros _);
      match goal with
      | |- ?p a = ?p b => change (p (vis_norm a) = p (vis_norm b)); rewrite H; reflexivity
      end.
Qed.

(** * tactics *)

Ltac psimpl :=
  cbn [cols rows buf other active sb_limit cur_col cur_row cur_vis tpen cs0 cs1 acs tabs ins
       org awm nlm ckm pend top bot sctx asctx dirty xtw set
       lines bcols brows blimit trim_needed
       sc_col sc_row sc_pen sc_origin sc_awm].

Ltac psimpl_in H :=
  cbn [cols rows buf other active sb_limit cur_col cur_row cur_vis tpen cs0 cs1 acs tabs ins
       org awm nlm ckm pend top bot sctx asctx dirty xtw set
       lines bcols brows blimit trim_needed
       sc_col sc_row sc_pen sc_origin sc_awm] in H.

(** rewrite every scalar of the right-hand term into the left-hand one *)
Ltac rdt_rw H :=
  rewrite <- ?(rd_cols _ _ _ H), <- ?(rd_rows _ _ _ H), <- ?(rd_active _ _ _ H),
    <- ?(rd_cur_col _ _ _ H), <- ?(rd_cur_row _ _ _ H), <- ?(rd_cur_vis _ _ _ H),
    <- ?(rd_tpen _ _ _ H), <- ?(rd_cs0 _ _ _ H), <- ?(rd_cs1 _ _ _ H), <- ?(rd_acs _ _ _ H),
    <- ?(rd_tabs _ _ _ H), <- ?(rd_ins _ _ _ H), <- ?(rd_org _ _ _ H), <- ?(rd_awm _ _ _ H),
    <- ?(rd_nlm _ _ _ H), <- ?(rd_ckm _ _ _ H), <- ?(rd_pend _ _ _ H), <- ?(rd_top _ _ _ H),
    <- ?(rd_bot _ _ _ H), <- ?(rd_sctx _ _ _ H), <- ?(rd_asctx _ _ _ H), <- ?(rd_xtw _ _ _ H),
    <- ?(rb_bcols _ _ _ (rd_buf _ _ _ H)), <- ?(rb_brows _ _ _ (rd_buf _ _ _ H)),
    <- ?(rb_bcols _ _ _ (rd_other _ _ _ H)), <- ?(rb_brows _ _ _ (rd_other _ _ _ H)).

(** close a goal [Rdtg lim (upd a) (upd b)] where [upd] is a chain of scalar updates *)
Ltac rdt_close H :=
  constructor; psimpl; rdt_rw H;
  first [ reflexivity | apply H | apply leq_refl | apply RB_refl | idtac ].

(** * buffer primitives *)

Section Buffers.
Variable lim : bool.

Lemma RB_set_lines a b (f g : list line -> list line) :
  RB lim a b -> f (lines a) = g (lines b) ->
  RB lim (set lines f a) (set lines g b).
Proof. intros [H1 H2 H3 H4] E. constructor; psimpl; assumption. Qed.

Lemma RB_set_trim a b x y :
  RB lim a b -> RB lim (a <| trim_needed := x |>) (b <| trim_needed := y |>).
Proof. intros [H1 H2 H3 H4]. constructor; psimpl; assumption. Qed.

Lemma RB_sb_len a b : RB lim a b -> sb_len a = sb_len b.
Proof. intros [H1 H2 H3 H4]. unfold sb_len. rewrite H1, H3. reflexivity. Qed.

Lemma RB_view_ok a b : RB lim a b -> view_ok a = view_ok b.
Proof. intros [H1 H2 H3 H4]. unfold view_ok. rewrite H1, H3. reflexivity. Qed.

Lemma RB_view a b : RB lim a b -> view a = view b.
Proof. intros H. unfold view. rewrite (RB_sb_len _ _ H), (rb_lines _ _ _ H). reflexivity. Qed.

Lemma with_row_RB a b r f :
  RB lim a b -> rres (RB lim) (with_row a r f) (with_row b r f).
Proof.
  intros H. unfold with_row.
  rewrite <- (RB_view_ok _ _ H), <- (RB_sb_len _ _ H), <- (rb_brows _ _ _ H), <- (rb_lines _ _ _ H).
  destruct (view_ok a && (r <? brows a)); [|constructor].
  destruct (nth_error (lines a) (sb_len a + r)) as [l|]; [|constructor].
  destruct (f l) as [l'|s]; cbn [bind]; constructor.
  apply RB_set_lines; [exact H|]. rewrite (rb_lines _ _ _ H). reflexivity.
Qed.

Lemma get_row_RB a b r : RB lim a b -> get_row a r = get_row b r.
Proof.
  intros H. unfold get_row.
  rewrite <- (RB_view_ok _ _ H), <- (RB_sb_len _ _ H), <- (rb_brows _ _ _ H), <- (rb_lines _ _ _ H).
  reflexivity.
Qed.

Lemma with_view_RB a b ok f :
  RB lim a b -> rres (RB lim) (with_view a ok f) (with_view b ok f).
Proof.
  intros H. unfold with_view.
  rewrite <- (RB_view_ok _ _ H), <- (RB_sb_len _ _ H), <- (RB_view _ _ H).
  destruct (view_ok a && ok); constructor.
  apply RB_set_lines; [exact H|]. rewrite (rb_lines _ _ _ H). reflexivity.
Qed.

Lemma buf_clear_RB a b x z p :
  RB lim a b -> rres (RB lim) (buf_clear a x z p) (buf_clear b x z p).
Proof.
  intros H. unfold buf_clear. rewrite <- (rb_brows _ _ _ H), <- (rb_bcols _ _ _ H).
  apply with_view_RB; exact H.
Qed.

Lemma buf_extend_RB a b n c p : RB lim a b -> RB lim (buf_extend a n c p) (buf_extend b n c p).
Proof.
  intros H. unfold buf_extend. apply RB_set_lines; [exact H|]. rewrite (rb_lines _ _ _ H). reflexivity.
Qed.

Lemma buf_print_RB a b col row c :
  RB lim a b -> rres (RB lim) (buf_print a col row c) (buf_print b col row c).
Proof. intros H. apply with_row_RB; exact H. Qed.

Lemma buf_wrap_RB a b row : RB lim a b -> rres (RB lim) (buf_wrap a row) (buf_wrap b row).
Proof. intros H. apply with_row_RB; exact H. Qed.

Lemma buf_insert_RB a b col row n c :
  RB lim a b -> rres (RB lim) (buf_insert a col row n c) (buf_insert b col row n c).
Proof.
  intros H. unfold buf_insert. rewrite <- (rb_bcols _ _ _ H).
  apply (rres_bind eq); [apply rres_eq_refl|]. intros _ _ _. apply with_row_RB; exact H.
Qed.

Lemma buf_delete_RB a b col row n p :
  RB lim a b -> rres (RB lim) (buf_delete a col row n p) (buf_delete b col row n p).
Proof.
  intros H. unfold buf_delete. rewrite <- (rb_bcols _ _ _ H).
  apply (rres_bind eq); [apply rres_eq_refl|]. intros _ _ _. apply with_row_RB; exact H.
Qed.

Lemma buf_erase_RB a b col row m p :
  RB lim a b -> rres (RB lim) (buf_erase a col row m p) (buf_erase b col row m p).
Proof.
  intros H. unfold buf_erase. rewrite <- ?(rb_bcols _ _ _ H), <- ?(rb_brows _ _ _ H).
  destruct m.
  - apply (rres_bind eq); [apply rres_eq_refl|]. intros _ _ _. apply with_row_RB; exact H.
  - apply (rres_bind (RB lim)); [apply with_row_RB; exact H|].
    intros x y Hxy. rewrite <- (rb_brows _ _ _ Hxy). apply buf_clear_RB; exact Hxy.
  - apply (rres_bind (RB lim)); [apply with_row_RB; exact H|].
    intros x y Hxy. apply buf_clear_RB; exact Hxy.
  - apply buf_clear_RB; exact H.
  - apply with_row_RB; exact H.
  - apply with_row_RB; exact H.
  - apply with_row_RB; exact H.
Qed.

Lemma buf_scroll_up_RB a b x z n p :
  RB lim a b -> rres (RB lim) (buf_scroll_up a x z n p) (buf_scroll_up b x z n p).
Proof.
  intros H. unfold buf_scroll_up. rewrite <- ?(rb_brows _ _ _ H).
  apply (rres_bind eq); [apply rres_eq_refl|]. intros _ _ _.
  apply (rres_bind (RB lim)).
  { destruct (z - 1 <? brows a - 1); [apply with_row_RB; exact H|constructor; exact H]. }
  intros b1 b1' H1.
  apply (rres_bind (RB lim)).
  2:{ intros b2 b2' H2. constructor. apply RB_set_trim; exact H2. }
  rewrite <- ?(rb_brows _ _ _ H1), <- ?(rb_bcols _ _ _ H1).
  destruct (x =? 0).
  - destruct (z =? brows b1).
    + constructor. apply buf_extend_RB; exact H1.
    + rewrite <- (RB_view_ok _ _ H1), <- (RB_sb_len _ _ H1), <- (rb_lines _ _ _ H1).
      apply (rres_bind eq); [apply rres_eq_refl|]. intros _ _ _.
      apply (rres_bind eq); [apply rres_eq_refl|]. intros _ _ _.
      constructor. apply RB_set_lines; [exact H1|]. rewrite (rb_lines _ _ _ H1). reflexivity.
  - apply (rres_bind (RB lim)); [apply with_row_RB; exact H1|].
    intros b' b'' H'. rewrite <- (rb_brows _ _ _ H').
    apply (rres_bind (RB lim)); [apply with_view_RB; exact H'|].
    intros c c' Hc. apply buf_clear_RB; exact Hc.
Qed.

Lemma buf_scroll_down_RB a b x z n p :
  RB lim a b -> rres (RB lim) (buf_scroll_down a x z n p) (buf_scroll_down b x z n p).
Proof.
  intros H. unfold buf_scroll_down. rewrite <- ?(rb_brows _ _ _ H).
  apply (rres_bind eq); [apply rres_eq_refl|]. intros _ _ _.
  apply (rres_bind (RB lim)); [apply with_view_RB; exact H|]. intros b1 b1' H1.
  apply (rres_bind (RB lim)); [apply buf_clear_RB; exact H1|]. intros b2 b2' H2.
  apply (rres_bind (RB lim)).
  { destruct (0 <? x); [apply with_row_RB; exact H2|constructor; exact H2]. }
  intros b3 b3' H3.
  apply (rres_bind eq); [apply rres_eq_refl|]. intros _ _ _.
  apply with_row_RB; exact H3.
Qed.

Lemma decaln_cols_RB n : forall a b row col,
  RB lim a b -> rres (RB lim) (decaln_cols a row n col) (decaln_cols b row n col).
Proof.
  induction n as [|n IH]; intros a b row col H; cbn [decaln_cols]; [constructor; exact H|].
  apply (rres_bind (RB lim)); [apply buf_print_RB; exact H|]. intros x y Hxy. apply IH; exact Hxy.
Qed.

Lemma logical_position_RB a b pc pr c r :
  RB lim a b -> logical_position a pc pr c r = logical_position b pc pr c r.
Proof. intros H. unfold logical_position. rewrite (rb_lines _ _ _ H). reflexivity. Qed.

Lemma buf_resize_RB a b nc nr cc cr :
  RB lim a b ->
  rres (fun x y => RB lim (fst x) (fst y) /\ snd x = snd y)
       (buf_resize a nc nr cc cr) (buf_resize b nc nr cc cr).
Proof.
  intros H. unfold buf_resize.
  rewrite <- (logical_position_RB _ _ _ _ _ _ H), <- (rb_lines _ _ _ H), <- (rb_bcols _ _ _ H),
    <- (rb_brows _ _ _ H).
  apply (rres_bind eq); [apply rres_eq_refl|]. intros [lc lr] _ <-.
  apply (rres_bind eq); [apply rres_eq_refl|]. intros [[[ls1 cc1] cr1] or1] _ <-.
  apply (rres_bind eq); [apply rres_eq_refl|]. intros [ls2 cr2] _ <-.
  constructor. cbn [fst snd]. split; [|reflexivity].
  destruct H as [H1 H2 H3 H4]. constructor; psimpl; try reflexivity. exact H4.
Qed.

Lemma buffer_new_RB c r l1 l2 p :
  leq lim l1 l2 -> RB lim (buffer_new c r l1 p) (buffer_new c r l2 p).
Proof.
  intros H. unfold buffer_new. constructor; psimpl; try reflexivity.
  intros E. rewrite (H E). reflexivity.
Qed.

End Buffers.

(** * control functions *)

Section Terms.
Variable lim : bool.
Notation R := (Rdtg lim).

Ltac split_ifs :=
  repeat match goal with
  | |- context [if ?c then _ else _] => destruct c
  end.

Ltac pure_tac H := psimpl; rdt_rw H; split_ifs; rdt_close H.

Lemma do_col_R a b c : R a b -> R (do_move_cursor_to_col a c) (do_move_cursor_to_col b c).
Proof. intros H. unfold do_move_cursor_to_col. pure_tac H. Qed.

Lemma do_row_R a b c : R a b -> R (do_move_cursor_to_row a c) (do_move_cursor_to_row b c).
Proof. intros H. unfold do_move_cursor_to_row. pure_tac H. Qed.

Lemma to_col_R a b c : R a b -> R (move_cursor_to_col a c) (move_cursor_to_col b c).
Proof. intros H. unfold move_cursor_to_col, do_move_cursor_to_col. pure_tac H. Qed.

Lemma to_row_R a b c : R a b -> R (move_cursor_to_row a c) (move_cursor_to_row b c).
Proof.
  intros H. unfold move_cursor_to_row, actual_top_margin, actual_bottom_margin, do_move_cursor_to_row.
  pure_tac H.
Qed.

Lemma rel_col_R a b z : R a b -> R (move_cursor_to_rel_col a z) (move_cursor_to_rel_col b z).
Proof. intros H. unfold move_cursor_to_rel_col, do_move_cursor_to_col. pure_tac H. Qed.

Lemma home_R a b : R a b -> R (move_cursor_home a) (move_cursor_home b).
Proof.
  intros H. unfold move_cursor_home, actual_top_margin, do_move_cursor_to_row, do_move_cursor_to_col.
  pure_tac H.
Qed.

Lemma cursor_down_R a b n : R a b -> R (cursor_down a n) (cursor_down b n).
Proof. intros H. unfold cursor_down, do_move_cursor_to_row. pure_tac H. Qed.

Lemma cursor_up_R a b n : R a b -> R (cursor_up a n) (cursor_up b n).
Proof. intros H. unfold cursor_up, do_move_cursor_to_row. pure_tac H. Qed.

Lemma bs_R a b : R a b -> R (bs a) (bs b).
Proof. intros H. unfold bs. rdt_rw H. destruct (pend a); apply rel_col_R; exact H. Qed.

Lemma cub_R a b n : R a b -> R (cub a n) (cub b n).
Proof. intros H. unfold cub. rdt_rw H. apply rel_col_R; exact H. Qed.

Lemma cup_R a b r c : R a b -> R (cup a r c) (cup b r c).
Proof. intros H. unfold cup. apply to_row_R, to_col_R; exact H. Qed.

Lemma set_tab_R a b : R a b -> R (set_tab a) (set_tab b).
Proof. intros H. unfold set_tab. pure_tac H. Qed.

Lemma clear_tab_R a b : R a b -> R (clear_tab a) (clear_tab b).
Proof. intros H. unfold clear_tab. pure_tac H. Qed.

Lemma clear_all_tabs_R a b : R a b -> R (clear_all_tabs a) (clear_all_tabs b).
Proof. intros H. unfold clear_all_tabs. pure_tac H. Qed.

Lemma ctc_R a b op : R a b -> R (ctc a op) (ctc b op).
Proof.
  intros H. destruct op; cbn [ctc]; auto using set_tab_R, clear_tab_R, clear_all_tabs_R.
Qed.

Lemma tbc_R a b s : R a b -> R (tbc a s) (tbc b s).
Proof. intros H. destruct s; cbn [tbc]; auto using clear_tab_R, clear_all_tabs_R. Qed.

Lemma save_R a b : R a b -> R (save_cursor a) (save_cursor b).
Proof. intros H. unfold save_cursor, save_cursor_gen. pure_tac H. Qed.

Lemma restore_R a b : R a b -> R (restore_cursor a) (restore_cursor b).
Proof. intros H. unfold restore_cursor, restore_cursor_gen. pure_tac H. Qed.

Lemma soft_R a b : R a b -> R (soft_reset_gen a) (soft_reset_gen b).
Proof. intros H. unfold soft_reset_gen. pure_tac H. Qed.

Lemma hard_R a b : R a b -> R (hard_reset_gen a) (hard_reset_gen b).
Proof.
  intros H. unfold hard_reset_gen. pure_tac H.
  apply buffer_new_RB. apply H.
Qed.

Lemma decstbm_R a b tp bt : R a b -> R (decstbm a tp bt) (decstbm b tp bt).
Proof.
  intros H. unfold decstbm. rdt_rw H. apply home_R.
  destruct ((as_usize tp 1 - 1 <? as_usize bt (rows a) - 1) && (as_usize bt (rows a) - 1 <? rows a));
    [|exact H]. pure_tac H.
Qed.

Lemma sm_R ms : forall a b, R a b -> R (fold_left sm_one ms a) (fold_left sm_one ms b).
Proof.
  induction ms as [|m ms IH]; intros a b H; cbn [fold_left]; [exact H|].
  apply IH. destruct m; cbn [sm_one]; pure_tac H.
Qed.

Lemma rm_R ms : forall a b, R a b -> R (fold_left rm_one ms a) (fold_left rm_one ms b).
Proof.
  induction ms as [|m ms IH]; intros a b H; cbn [fold_left]; [exact H|].
  apply IH. destruct m; cbn [rm_one]; pure_tac H.
Qed.

Lemma sgr_R a b ops : R a b -> R (sgr a ops) (sgr b ops).
Proof. intros H. unfold sgr. pure_tac H. Qed.

(** ** monadic helpers *)

Lemma on_buf_R a b g1 g2 :
  R a b -> (forall x y, RB lim x y -> rres (RB lim) (g1 x) (g2 y)) ->
  rres R (on_buf a g1) (on_buf b g2).
Proof.
  intros H Hg. unfold on_buf. apply (rres_bind (RB lim)); [apply Hg, H|].
  intros x y Hxy. constructor. pure_tac H. exact Hxy.
Qed.

Lemma set_dirty_R a b d1 d2 :
  R a b -> length d1 = length d2 -> R (a <| dirty := d1 |>) (b <| dirty := d2 |>).
Proof. intros H Hd. pure_tac H. exact Hd. Qed.

Lemma mark_R a b n : R a b -> rres R (mark a n) (mark b n).
Proof.
  intros H. unfold mark, dirty_add. rewrite <- (rd_dirty _ _ _ H).
  destruct (n <? length (dirty a)); cbn [bind]; constructor.
  apply set_dirty_R; [exact H|]. rewrite !upd_length. apply H.
Qed.

Lemma fill_range_length {A} x z (v : A) l :
  x <= z -> z <= length l -> length (fill_range x z v l) = length l.
Proof.
  intros. unfold fill_range. rewrite !app_length, firstn_length, repeat_length, skipn_length. lia.
Qed.

Lemma mark_range_R a b x z : R a b -> rres R (mark_range a x z) (mark_range b x z).
Proof.
  intros H. unfold mark_range, dirty_extend. rewrite <- (rd_dirty _ _ _ H).
  destruct ((x <=? z) && (z <=? length (dirty a))) eqn:E; cbn [bind]; constructor.
  apply set_dirty_R; [exact H|].
  rewrite !fill_range_length; try lia. apply H. rewrite <- (rd_dirty _ _ _ H). lia.
Qed.

Lemma to_next_tab_R a b n :
  R a b -> rres R (move_cursor_to_next_tab a n) (move_cursor_to_next_tab b n).
Proof.
  intros H. unfold move_cursor_to_next_tab. rdt_rw H.
  apply (rres_bind eq); [apply rres_eq_refl|]. intros o _ <-. constructor. apply to_col_R; exact H.
Qed.

Lemma to_prev_tab_R a b n :
  R a b -> rres R (move_cursor_to_prev_tab a n) (move_cursor_to_prev_tab b n).
Proof.
  intros H. unfold move_cursor_to_prev_tab. rdt_rw H.
  apply (rres_bind eq); [apply rres_eq_refl|]. intros o _ <-. constructor. apply to_col_R; exact H.
Qed.

Lemma scroll_up_R a b n :
  R a b -> rres R (scroll_up_in_region a n) (scroll_up_in_region b n).
Proof.
  intros H. unfold scroll_up_in_region. rdt_rw H.
  apply (rres_bind R).
  - apply on_buf_R; [exact H|]. intros x y Hxy. apply buf_scroll_up_RB; exact Hxy.
  - intros x y Hxy. apply mark_range_R; exact Hxy.
Qed.

Lemma scroll_down_R a b n :
  R a b -> rres R (scroll_down_in_region a n) (scroll_down_in_region b n).
Proof.
  intros H. unfold scroll_down_in_region. rdt_rw H.
  apply (rres_bind R).
  - apply on_buf_R; [exact H|]. intros x y Hxy. apply buf_scroll_down_RB; exact Hxy.
  - intros x y Hxy. apply mark_range_R; exact Hxy.
Qed.

Lemma down_with_scroll_R a b :
  R a b -> rres R (move_cursor_down_with_scroll a) (move_cursor_down_with_scroll b).
Proof.
  intros H. unfold move_cursor_down_with_scroll. rdt_rw H.
  destruct (cur_row a =? bot a); [apply scroll_up_R; exact H|].
  destruct (cur_row a <? rows a - 1); constructor; [apply do_row_R|]; exact H.
Qed.

Lemma lf_R a b : R a b -> rres R (lf a) (lf b).
Proof.
  intros H. unfold lf. apply (rres_bind R); [apply down_with_scroll_R; exact H|].
  intros x y Hxy. constructor. rdt_rw Hxy. destruct (nlm x); [apply do_col_R|]; exact Hxy.
Qed.

Lemma nel_R a b : R a b -> rres R (nel a) (nel b).
Proof.
  intros H. unfold nel. apply (rres_bind R); [apply down_with_scroll_R; exact H|].
  intros x y Hxy. constructor. apply do_col_R; exact Hxy.
Qed.

Lemma ri_R a b : R a b -> rres R (ri a) (ri b).
Proof.
  intros H. unfold ri. rdt_rw H.
  destruct (cur_row a =? top a); [apply scroll_down_R; exact H|].
  destruct (0 <? cur_row a); constructor; [apply do_row_R|]; exact H.
Qed.

Lemma print_R a b c : R a b -> rres R (print a c) (print b c).
Proof.
  intros H. unfold print, active_cs. rdt_rw H.
  apply (rres_bind eq); [apply rres_eq_refl|]. intros cs _ <-.
  apply (rres_bind eq); [apply rres_eq_refl|]. intros c' _ <-.
  apply (rres_bind R).
  { destruct (awm a && pend a); [|constructor; exact H].
    pose proof (do_col_R _ _ 0 H) as H0.
    set (a0 := do_move_cursor_to_col a 0) in *. set (b0 := do_move_cursor_to_col b 0) in *.
    clearbody a0 b0. rdt_rw H0.
    destruct (cur_row a0 =? bot a0).
    - apply (rres_bind R).
      + apply on_buf_R; [exact H0|]. intros x y Hxy. apply buf_wrap_RB; exact Hxy.
      + intros x y Hxy. apply scroll_up_R; exact Hxy.
    - destruct (cur_row a0 <? rows a0 - 1); [|constructor; exact H0].
      apply (rres_bind R).
      + apply on_buf_R; [exact H0|]. intros x y Hxy. apply buf_wrap_RB; exact Hxy.
      + intros x y Hxy. constructor. rdt_rw Hxy. apply do_row_R; exact Hxy. }
  intros a1 b1 H1. rdt_rw H1.
  apply (rres_bind R).
  2:{ intros x y Hxy. rdt_rw Hxy. apply mark_R; exact Hxy. }
  destruct (cols a1 <=? cur_col a1 + 1).
  - apply (rres_bind R).
    + apply on_buf_R; [exact H1|]. intros x y Hxy. apply buf_print_RB; exact Hxy.
    + intros x y Hxy. rdt_rw Hxy. destruct (awm x); constructor; [|exact Hxy].
      pose proof (do_col_R _ _ (cols x) Hxy) as H2. pure_tac H2.
  - apply (rres_bind R).
    + destruct (ins a1); (apply on_buf_R; [exact H1|]); intros x y Hxy;
        [apply buf_insert_RB|apply buf_print_RB]; exact Hxy.
    + intros x y Hxy. constructor. apply do_col_R; exact Hxy.
Qed.

Lemma print_n_R n c : forall a b, R a b -> rres R (print_n n a c) (print_n n b c).
Proof.
  induction n as [|n IH]; intros a b H; cbn [print_n]; [constructor; exact H|].
  apply (rres_bind R); [apply print_R; exact H|]. intros x y Hxy. apply IH; exact Hxy.
Qed.

Lemma rep_R a b n : R a b -> rres R (rep a n) (rep b n).
Proof.
  intros H. unfold rep. rdt_rw H. rewrite <- (get_row_RB lim _ _ _ (rd_buf _ _ _ H)).
  destruct (0 <? cur_col a); [|constructor; exact H].
  apply (rres_bind eq); [apply rres_eq_refl|]. intros l _ <-.
  destruct (nth_error (cells l) (cur_col a - 1)); [|constructor].
  apply print_n_R; exact H.
Qed.

Lemma decaln_rows_R n : forall a b row, R a b -> rres R (decaln_rows a n row) (decaln_rows b n row).
Proof.
  induction n as [|n IH]; intros a b row H; cbn [decaln_rows]; [constructor; exact H|].
  rdt_rw H.
  apply (rres_bind R).
  { apply on_buf_R; [exact H|]. intros x y Hxy. apply decaln_cols_RB; exact Hxy. }
  intros x y Hxy. apply (rres_bind R); [apply mark_R; exact Hxy|].
  intros x' y' Hxy'. apply IH; exact Hxy'.
Qed.

Lemma decaln_R a b : R a b -> rres R (decaln a) (decaln b).
Proof. intros H. unfold decaln. rdt_rw H. apply decaln_rows_R; exact H. Qed.

Lemma ich_R a b n : R a b -> rres R (ich a n) (ich b n).
Proof.
  intros H. unfold ich. rdt_rw H. apply (rres_bind R).
  - apply on_buf_R; [exact H|]. intros x y Hxy. apply buf_insert_RB; exact Hxy.
  - intros x y Hxy. rdt_rw Hxy. apply mark_R; exact Hxy.
Qed.

Lemma ech_R a b n : R a b -> rres R (ech a n) (ech b n).
Proof.
  intros H. unfold ech. rdt_rw H. apply (rres_bind R).
  - apply on_buf_R; [exact H|]. intros x y Hxy. apply buf_erase_RB; exact Hxy.
  - intros x y Hxy. rdt_rw Hxy. apply mark_R; exact Hxy.
Qed.

Lemma dch_R a b n : R a b -> rres R (dch a n) (dch b n).
Proof.
  intros H. unfold dch. rdt_rw H.
  assert (H0 : R (if cols a <=? cur_col a then move_cursor_to_col a (cols a - 1) else a)
                 (if cols a <=? cur_col a then move_cursor_to_col b (cols a - 1) else b)).
  { destruct (cols a <=? cur_col a); [apply to_col_R|]; exact H. }
  set (a0 := if cols a <=? cur_col a then move_cursor_to_col a (cols a - 1) else a) in *.
  set (b0 := if cols a <=? cur_col a then move_cursor_to_col b (cols a - 1) else b) in *.
  clearbody a0 b0. rdt_rw H0. apply (rres_bind R).
  - apply on_buf_R; [exact H0|]. intros x y Hxy. apply buf_delete_RB; exact Hxy.
  - intros x y Hxy. rdt_rw Hxy. apply mark_R; exact Hxy.
Qed.

Lemma el_R a b s : R a b -> rres R (el a s) (el b s).
Proof.
  intros H. unfold el. rdt_rw H. apply (rres_bind R).
  - apply on_buf_R; [exact H|]. intros x y Hxy. apply buf_erase_RB; exact Hxy.
  - intros x y Hxy. rdt_rw Hxy. apply mark_R; exact Hxy.
Qed.

Lemma ed_R a b s : R a b -> rres R (ed a s) (ed b s).
Proof.
  intros H. unfold ed. rdt_rw H.
  destruct s; [| | |constructor; exact H];
    (apply (rres_bind R);
     [apply on_buf_R; [exact H|]; intros x y Hxy; apply buf_erase_RB; exact Hxy
     |intros x y Hxy; rdt_rw Hxy; apply mark_range_R; exact Hxy]).
Qed.

Lemma il_R a b n : R a b -> rres R (il a n) (il b n).
Proof.
  intros H. unfold il, il_dl_range. rdt_rw H.
  destruct (cur_row a <=? bot a);
    (apply (rres_bind R);
     [apply on_buf_R; [exact H|]; intros x y Hxy; apply buf_scroll_down_RB; exact Hxy
     |intros x y Hxy; apply mark_range_R; exact Hxy]).
Qed.

Lemma dl_R a b n : R a b -> rres R (dl a n) (dl b n).
Proof.
  intros H. unfold dl, il_dl_range. rdt_rw H.
  destruct (cur_row a <=? bot a);
    (apply (rres_bind R);
     [apply on_buf_R; [exact H|]; intros x y Hxy; apply buf_scroll_up_RB; exact Hxy
     |intros x y Hxy; apply mark_range_R; exact Hxy]).
Qed.

(** ** buffer switching, reflow, resize *)

Lemma switch_alt_R a b :
  R a b -> rres R (switch_to_alternate_buffer a) (switch_to_alternate_buffer b).
Proof.
  intros H. unfold switch_to_alternate_buffer. rdt_rw H.
  destruct (active a); [|constructor; exact H].
  psimpl. rdt_rw H. apply mark_range_R. pure_tac H.
Qed.

Lemma switch_prim_R a b :
  R a b -> rres R (switch_to_primary_buffer a) (switch_to_primary_buffer b).
Proof.
  intros H. unfold switch_to_primary_buffer. rdt_rw H.
  destruct (active a); [constructor; exact H|].
  psimpl. rdt_rw H. apply mark_range_R. pure_tac H.
Qed.

Lemma dirty_resize_length d n : length (dirty_resize d n) = Nat.min n (length d) + (n - length d).
Proof. unfold dirty_resize. rewrite app_length, firstn_length, repeat_length. reflexivity. Qed.

Lemma reflow_R a b : R a b -> rres R (reflow a) (reflow b).
Proof.
  intros H. unfold reflow. rdt_rw H.
  assert (H0 : R (if negb (cols a =? bcols (buf a)) then a <| pend := false |> else a)
                 (if negb (cols a =? bcols (buf a)) then b <| pend := false |> else b)).
  { destruct (negb (cols a =? bcols (buf a))); [pure_tac H|exact H]. }
  set (a0 := if negb (cols a =? bcols (buf a)) then a <| pend := false |> else a) in *.
  set (b0 := if negb (cols a =? bcols (buf a)) then b <| pend := false |> else b) in *.
  clearbody a0 b0. rdt_rw H0.
  apply (rres_bind (fun x y => RB lim (fst x) (fst y) /\ snd x = snd y)).
  { apply buf_resize_RB. apply H0. }
  intros [x [c r]] [y [c' r']] [Hxy E]. cbn [fst snd] in Hxy, E. injection E as <- <-.
  psimpl. rdt_rw H0.
  apply (rres_bind R).
  { apply mark_range_R. pure_tac H0; [exact Hxy|]. rewrite !dirty_resize_length, (rd_dirty _ _ _ H0). reflexivity. }
  intros a1 b1 H1. constructor. rdt_rw H1.
  assert (H2 : R (if cols a1 <=? sc_col (sctx a1) then a1 <| sctx := (sctx a1) <| sc_col := cols a1 - 1 |> |> else a1)
                 (if cols a1 <=? sc_col (sctx a1) then b1 <| sctx := (sctx a1) <| sc_col := cols a1 - 1 |> |> else b1)).
  { destruct (cols a1 <=? sc_col (sctx a1)); [pure_tac H1|exact H1]. }
  set (a2 := if cols a1 <=? sc_col (sctx a1) then _ else a1) in *.
  set (b2 := if cols a1 <=? sc_col (sctx a1) then _ else b1) in *.
  clearbody a2 b2. rdt_rw H2.
  destruct (rows a2 <=? sc_row (sctx a2)); [pure_tac H2|exact H2].
Qed.

Lemma term_resize_R a b c r : R a b -> rres R (term_resize a c r) (term_resize b c r).
Proof.
  intros H. unfold term_resize. rdt_rw H. apply reflow_R.
  assert (H0 : R match c ?= cols a with
                 | Eq => a | Lt => a <| tabs := tabs_contract c (tabs a) |>
                 | Gt => a <| tabs := tabs_expand (cols a) c (tabs a) |> end
                 match c ?= cols a with
                 | Eq => b | Lt => b <| tabs := tabs_contract c (tabs a) |>
                 | Gt => b <| tabs := tabs_expand (cols a) c (tabs a) |> end).
  { destruct (c ?= cols a); [exact H|pure_tac H|pure_tac H]. }
  set (a0 := match c ?= cols a with Eq => a | _ => _ end) in *.
  set (b0 := match c ?= cols a with Eq => b | _ => _ end) in *.
  clearbody a0 b0. rdt_rw H0.
  destruct (r ?= rows a0); pure_tac H0.
Qed.

Lemma xtwinops_R a b op : R a b -> rres R (xtwinops a op) (xtwinops b op).
Proof.
  intros H. unfold xtwinops. rdt_rw H. destruct (xtw a); [|constructor; exact H].
  destruct op as [c r]. apply term_resize_R; exact H.
Qed.

Lemma decset_one_R a b m : R a b -> rres R (decset_one a m) (decset_one b m).
Proof.
  intros H. destruct m; cbn [decset_one].
  - constructor; pure_tac H.
  - constructor. apply home_R. pure_tac H.
  - constructor; pure_tac H.
  - constructor; pure_tac H.
  - apply (rres_bind R); [apply switch_alt_R; exact H|]. intros x y Hxy. apply reflow_R; exact Hxy.
  - constructor. apply save_R; exact H.
  - apply (rres_bind R); [apply switch_alt_R, save_R; exact H|]. intros x y Hxy. apply reflow_R; exact Hxy.
Qed.

Lemma decrst_one_R a b m : R a b -> rres R (decrst_one a m) (decrst_one b m).
Proof.
  intros H. destruct m; cbn [decrst_one].
  - constructor; pure_tac H.
  - constructor. apply home_R. pure_tac H.
  - constructor; pure_tac H.
  - constructor; pure_tac H.
  - apply (rres_bind R); [apply switch_prim_R; exact H|]. intros x y Hxy. apply reflow_R; exact Hxy.
  - constructor. apply restore_R; exact H.
  - apply (rres_bind R); [apply switch_prim_R; exact H|]. intros x y Hxy.
    apply reflow_R, restore_R; exact Hxy.
Qed.

Lemma foldM_R {X} (f : term -> X -> res term) ms :
  (forall a b m, R a b -> rres R (f a m) (f b m)) ->
  forall a b, R a b -> rres R (foldM f ms a) (foldM f ms b).
Proof.
  intros Hf. induction ms as [|m ms IH]; intros a b H; cbn [foldM]; [constructor; exact H|].
  apply (rres_bind R); [apply Hf; exact H|]. intros x y Hxy. apply IH; exact Hxy.
Qed.


Theorem execute_rres a b f : R a b -> rres R (execute a f) (execute b f).
Proof.
  intros H. destruct f; cbn [execute].
  - constructor; apply bs_R; exact H.
  - apply to_prev_tab_R; exact H.
  - constructor; apply to_col_R; exact H.
  - apply to_next_tab_R; exact H.
  - constructor; apply do_col_R, cursor_down_R; exact H.
  - constructor; apply do_col_R, cursor_up_R; exact H.
  - constructor; apply do_col_R; exact H.
  - constructor; apply ctc_R; exact H.
  - constructor; apply cub_R; exact H.
  - constructor; apply cursor_down_R; exact H.
  - constructor; apply rel_col_R; exact H.
  - constructor; apply cup_R; exact H.
  - constructor; apply cursor_up_R; exact H.
  - apply dch_R; exact H.
  - apply decaln_R; exact H.
  - constructor; apply restore_R; exact H.
  - apply foldM_R; [apply decrst_one_R|exact H].
  - constructor; apply save_R; exact H.
  - apply foldM_R; [apply decset_one_R|exact H].
  - constructor; apply decstbm_R; exact H.
  - constructor; apply soft_R; exact H.
  - apply dl_R; exact H.
  - apply ech_R; exact H.
  - apply ed_R; exact H.
  - apply el_R; exact H.
  - constructor; pure_tac H.
  - constructor; pure_tac H.
  - apply to_next_tab_R; exact H.
  - constructor; apply set_tab_R; exact H.
  - apply ich_R; exact H.
  - apply il_R; exact H.
  - apply lf_R; exact H.
  - apply nel_R; exact H.
  - apply print_R; exact H.
  - apply rep_R; exact H.
  - apply ri_R; exact H.
  - constructor; apply hard_R; exact H.
  - constructor; apply rm_R; exact H.
  - constructor; apply restore_R; exact H.
  - constructor; apply save_R; exact H.
  - apply scroll_down_R; exact H.
  - constructor; apply sgr_R; exact H.
  - constructor; pure_tac H.
  - constructor; apply sm_R; exact H.
  - constructor; pure_tac H.
  - apply scroll_up_R; exact H.
  - constructor; apply tbc_R; exact H.
  - constructor; apply to_row_R; exact H.
  - constructor; apply cursor_down_R; exact H.
  - apply xtwinops_R; exact H.
Qed.

End Terms.

(** * the requested statements *)

Theorem execute_Rdtg : forall lim a b f a',
  Rdtg lim a b -> execute a f = Ok a' -> exists b', execute b f = Ok b' /\ Rdtg lim a' b'.
Proof.
  intros lim a b f a' H E. exact (rres_ok_inv _ _ _ _ (execute_rres lim a b f H) E).
Qed.

Theorem execute_Rdt : forall a b f a',
  Rdt a b -> execute a f = Ok a' -> exists b', execute b f = Ok b' /\ Rdt a' b'.
Proof. exact (execute_Rdtg true). Qed.

Print Assumptions execute_Rdt.

(** same panic site on both sides *)
Theorem execute_Rdt_panic : forall a b f s,
  Rdt a b -> execute a f = Panic s -> execute b f = Panic s.
Proof.
  intros a b f s H E. pose proof (execute_rres true a b f H) as HR.
  rewrite E in HR. inversion HR. reflexivity.
Qed.

(** * lifting to [vt_feed] / [feed_chars]: the parser is untouched *)

Definition Rvt (lim : bool) (v w : vt) : Prop :=
  vparser v = vparser w /\ Rdtg lim (vterm v) (vterm w).

Lemma Rvt_refl lim v : Rvt lim v v.
Proof. split; [reflexivity|apply Rdtg_refl]. Qed.

Lemma Rvt_sym lim v w : Rvt lim v w -> Rvt lim w v.
Proof. intros [H1 H2]. split; [symmetry; exact H1|apply Rdtg_sym; exact H2]. Qed.

Lemma Rvt_trans lim u v w : Rvt lim u v -> Rvt lim v w -> Rvt lim u w.
Proof. intros [H1 H2] [G1 G2]. split; [congruence|eapply Rdtg_trans; eassumption]. Qed.

Lemma vt_feed_rres lim v w c : Rvt lim v w -> rres (Rvt lim) (vt_feed v c) (vt_feed w c).
Proof.
  intros [Hp Ht]. unfold vt_feed. rewrite <- Hp.
  apply (rres_bind eq); [apply rres_eq_refl|]. intros [p [f|]] _ <-.
  - apply (rres_bind (Rdtg lim)); [apply execute_rres; exact Ht|].
    intros x y Hxy. constructor. split; [reflexivity|exact Hxy].
  - constructor. split; [reflexivity|exact Ht].
Qed.

Lemma feed_chars_rres lim s : forall v w,
  Rvt lim v w -> rres (Rvt lim) (feed_chars v s) (feed_chars w s).
Proof.
  induction s as [|c s IH]; intros v w H; cbn [feed_chars]; [constructor; exact H|].
  apply (rres_bind (Rvt lim)); [apply vt_feed_rres; exact H|]. exact IH.
Qed.

Theorem vt_feed_Rdt : forall v w c v',
  vparser v = vparser w -> Rdt (vterm v) (vterm w) -> vt_feed v c = Ok v' ->
  exists w', vt_feed w c = Ok w' /\ vparser v' = vparser w' /\ Rdt (vterm v') (vterm w').
Proof.
  intros v w c v' Hp Ht E.
  exact (rres_ok_inv _ _ _ _ (vt_feed_rres true v w c (conj Hp Ht)) E).
Qed.

Theorem feed_chars_Rdt : forall s v w v',
  vparser v = vparser w -> Rdt (vterm v) (vterm w) -> feed_chars v s = Ok v' ->
  exists w', feed_chars w s = Ok w' /\ vparser v' = vparser w' /\ Rdt (vterm v') (vterm w').
Proof.
  intros s v w v' Hp Ht E.
  exact (rres_ok_inv _ _ _ _ (feed_chars_rres true s v w (conj Hp Ht)) E).
Qed.

Print Assumptions feed_chars_Rdt.

Lemma feed_chars_app s1 : forall s2 v,
  feed_chars v (s1 ++ s2) = (v' <- feed_chars v s1 ;; feed_chars v' s2).
Proof.
  induction s1 as [|c s1 IH]; intros s2 v; cbn [feed_chars app bind]; [reflexivity|].
  destruct (vt_feed v c) as [v'|s]; cbn [bind]; [apply IH|reflexivity].
Qed.

(** * flush *)

(** the state after [changes(); gc()], explicitly *)
Definition flushed (t : term) : term :=
  t <| dirty := dirty_clear (dirty t) |>
    <| buf := (buf t) <| trim_needed := false |>
                      <| lines := skipn (gc_excess (buf t)) (lines (buf t)) |> |>.

Lemma TInv_limit_wf t : TInv t -> limit_wf (buf t) /\ limit_wf (other t).
Proof.
  intros HT. pose proof (ti_limit t HT) as HL.
  destruct (active t); destruct HL as [H1 H2]; split; eapply limit_ok_wf; unfold limit_ok; eassumption.
Qed.

Theorem vt_flush_eq : forall v,
  TInv (vterm v) ->
  vt_flush v = Ok (v <| vterm := flushed (vterm v) |>,
                   mkOut (dirty_to_vec (dirty (vterm v)) 0)
                         (match active (vterm v) with
                          | Primary => firstn (gc_excess (buf (vterm v))) (lines (buf (vterm v)))
                          | Alternate => []
                          end)).
Proof.
  intros v HT. unfold vt_flush, changes, term_gc. psimpl.
  rewrite (buf_gc_eq (buf (vterm v))); [|apply HT|apply TInv_limit_wf; exact HT].
  cbn [bind]. psimpl. unfold flushed.
  destruct (active (vterm v)); cbn [bind]; destruct v as [p t]; destruct t; reflexivity.
Qed.

Lemma gc_excess_unlimited b : blimit b = None -> gc_excess b = 0.
Proof. intros H. unfold gc_excess. rewrite H. destruct (trim_needed b); reflexivity. Qed.

Lemma dirty_clear_length d : length (dirty_clear d) = length d.
Proof. unfold dirty_clear. apply repeat_length. Qed.

Lemma flushed_Rdt t :
  Rdt (t <| buf := (buf t) <| lines := skipn (gc_excess (buf t)) (lines (buf t)) |> |>) (flushed t).
Proof.
  unfold flushed.
  constructor; psimpl; try reflexivity; try apply leq_refl; try apply RB_refl.
  - constructor; psimpl; try reflexivity. apply leq_refl.
  - symmetry. apply dirty_clear_length.
Qed.

Lemma set_lines_id (b : buffer) : b <| lines := skipn 0 (lines b) |> = b.
Proof. destruct b; reflexivity. Qed.

Lemma set_buf_id (t : term) : t <| buf := buf t |> = t.
Proof. destruct t; reflexivity. Qed.

(** with an unlimited primary scrollback, a flush while the primary screen is active changes
    only the dirty flags and the trim flag and drains nothing *)
Theorem flush_unlimited : forall v v' o,
  sb_limit (vterm v) = None -> TInv (vterm v) -> active (vterm v) = Primary ->
  vt_flush v = Ok (v', o) ->
  Rdt (vterm v) (vterm v') /\ vparser v' = vparser v /\ o_drained o = [].
Proof.
  intros v v' o HL HT HA E. rewrite (vt_flush_eq v HT) in E. injection E as <- <-.
  pose proof (ti_limit _ HT) as Hlim. rewrite HA, HL in Hlim. destruct Hlim as [Hb _].
  cbn [limit_of] in Hb. rewrite HA, (gc_excess_unlimited _ Hb). cbn [vterm vparser set o_drained].
  split; [|split; reflexivity].
  pose proof (flushed_Rdt (vterm v)) as HR. rewrite (gc_excess_unlimited _ Hb) in HR.
  rewrite set_lines_id, set_buf_id in HR. exact HR.
Qed.

Print Assumptions flush_unlimited.

(** ... whereas the alternate buffer always has limit (0,0): a flush while the alternate
    screen is active drops the rows above its view (so [Rdt (vterm v) (vterm v')] fails in
    general).  What holds: the parked primary, the view and all scalars are unchanged, and
    nothing is reported as drained. *)
Theorem flush_alt : forall v v' o,
  TInv (vterm v) -> active (vterm v) = Alternate ->
  vt_flush v = Ok (v', o) ->
  exists k, k <= sb_len (buf (vterm v))
    /\ Rdt ((vterm v) <| buf := (buf (vterm v)) <| lines := skipn k (lines (buf (vterm v))) |> |>)
           (vterm v')
    /\ vparser v' = vparser v /\ o_drained o = []
    /\ other (vterm v') = other (vterm v)
    /\ view (buf (vterm v')) = view (buf (vterm v)).
Proof.
  intros v v' o HT HA E. rewrite (vt_flush_eq v HT) in E. injection E as <- <-.
  rewrite HA. exists (gc_excess (buf (vterm v))). cbn [vterm vparser set o_drained].
  pose proof (gc_excess_le (buf (vterm v))) as Hle.
  split; [exact Hle|]. split; [apply flushed_Rdt|].
  split; [reflexivity|split; [reflexivity|split; [reflexivity|]]].
  unfold flushed. psimpl. unfold view, sb_len in *. psimpl.
  rewrite skipn_length, skipn_add. f_equal. lia.
Qed.

Print Assumptions flush_alt.

(** * C12 (item 5)

    [C12_chunks], [C12_chunks_holds] (and the observation relation [Robs]) are proved in
    [Proofs/ParamChop.v]: while the alternate screen is active, a mid-string flush trims rows
    above the alternate view that the unsplit run still carries, so the relation maintained
    between the two runs needs the "extra prefix above the view" machinery of that file.
    No [TInv]-preservation hypotheses ([vt_feed_TInv], [vt_flush_TInv]) were needed: the
    relation itself carries the geometry / limit facts that the proof uses. *)
