(** Property C11, "future" half: a restored terminal that is observationally equal to the
    original ([holds_C11]) stays so under all further input.

    [R11 a b] is the Prop version of [holds_C11 a b] plus the well-formedness facts that make
    it a bisimulation:
      - [Inv] and [parked_ok] on both sides (hypotheses of the theorems),
      - [PWf] on both parsers: the parser data is cleared in the entry states
        Escape/CsiEntry/DcsEntry, and in CsiIntermediate the collected intermediate is one of
        0x20..0x2F.  [PWf] holds in every reachable parser state ([PWf_init], [PWf_step]) but is
        NOT part of [Inv]; without it [holds_C11] is not preserved (finding F-C11-1 below).

    Main results: [R11_feed], [R11_feed_chars], [R11_flush], [R11_feed_str], [C11_future]. *)

From Avt Require Import Model.Parser Spec.Williams Proofs.Inv Proofs.ParserTable Proofs.ParserInv
  Proofs.ParserSim.
From Avt Require Import Proofs.VisEq Proofs.ListLemmas Proofs.BufRow Proofs.BufScroll Proofs.Resize
  Proofs.ParamDT Spec.Eqb Oracles.Rel Proofs.ParamChop.
Require Import Lia ZArith ZifyBool ZifyNat ZifyN.
Import ListNotations.

Lemma nth_firstn_lt {A} n : forall i (l : list A) d, i < n -> nth i (firstn n l) d = nth i l d.
Proof.
  induction n as [|n IH]; intros i l d H; [lia|].
  destruct l as [|x l]; [destruct i; reflexivity|]. destruct i as [|i]; [reflexivity|].
  cbn [firstn nth]. apply IH. lia.
Qed.

(** * 1. the parser *)

Section ParserPart.
Local Open Scope N_scope.

Definition cleared (p : parser) : Prop :=
  inter p = None /\ cur_param p = 0%nat /\ params p = repeat default_param PARAMS_LEN.

(** facts about reachable parser states that [PInv] does not record *)
Definition PWf (p : parser) : Prop :=
  (entry_clears (pst p) = true -> cleared p)
  /\ (pst p = CsiIntermediate -> exists i, inter p = Some i /\ 32 <= i <= 47).

Lemma PWf_init : PWf init_parser.
Proof. split; [discriminate|discriminate]. Qed.

Definition quiet (k : akind) : bool :=
  match k with KCollect | KParam => false | _ => true end.

(** table facts, by computation *)
Definition rowA (s : pstate) (c : N) : bool :=
  let t := williams s c in
  implb (t_clear t) (entry_clears (t_next t))
  && implb (negb (t_clear t) && entry_clears (t_next t)) (pstate_eqb s (t_next t) && quiet (t_kind t))
  && implb (negb (t_clear t) && pstate_eqb (t_next t) CsiIntermediate)
           ((akind_eqb (t_kind t) KCollect && inr 32 47 c)
            || (pstate_eqb s CsiIntermediate && quiet (t_kind t))).

Lemma rowA_sweep :
  forallb (fun s => forallb (rowA s) (codes_upto 161)) all_pstates = true.
Proof. vm_compute. reflexivity. Qed.

Lemma rowA_all s c : rowA s c = true.
Proof.
  pose proof rowA_sweep as F. rewrite forallb_forall in F.
  specialize (F s (all_pstates_complete s)). rewrite forallb_forall in F.
  destruct (N.lt_ge_cases c 160) as [H|H].
  - apply F. apply codes_upto_complete. cbn. lia.
  - unfold rowA. rewrite (williams_high s c H).
    replace (inr 32 47 c) with (inr 32 47 160) by (unfold inr; lia).
    apply (F 160). apply codes_upto_complete. cbn. lia.
Qed.

Lemma pstate_eqb_eq a b : pstate_eqb a b = true -> a = b.
Proof. destruct a, b; cbn; intros H; try discriminate H; reflexivity. Qed.

Lemma pstate_eqb_refl' a : pstate_eqb a a = true.
Proof. destruct a; reflexivity. Qed.

Lemma feed_step_quiet p c :
  t_clear (williams (pst p) c) = false -> quiet (t_kind (williams (pst p) c)) = true ->
  feed_step p c = p <| pst := t_next (williams (pst p) c) |>.
Proof.
  intros Hc Hq. unfold feed_step. rewrite Hc.
  destruct (t_kind (williams (pst p) c)); try discriminate Hq; reflexivity.
Qed.

Lemma feed_step_clear p c :
  PInv p -> t_clear (williams (pst p) c) = true ->
  feed_step p c = mkParser (t_next (williams (pst p) c)) (repeat default_param PARAMS_LEN) 0 None.
Proof.
  intros HP Hc. unfold feed_step. rewrite Hc, (clear_eq p HP). reflexivity.
Qed.

Lemma PWf_step p c : PInv p -> PWf p -> PWf (feed_step p c).
Proof.
  intros HP [W1 W2]. pose proof (rowA_all (pst p) c) as R. unfold rowA in R.
  apply andb_prop in R as [R R3]. apply andb_prop in R as [R1 R2].
  destruct (t_clear (williams (pst p) c)) eqn:Ec.
  - rewrite (feed_step_clear p c HP Ec). cbn [implb] in R1. split.
    + intros _. repeat split.
    + cbn [pst]. intros E. rewrite E in R1. discriminate R1.
  - cbn [negb andb implb] in R2, R3. split.
    + rewrite feed_step_pst. intros En. rewrite En in R2. cbn [implb] in R2.
      apply andb_prop in R2 as [Es Eq]. apply pstate_eqb_eq in Es.
      rewrite (feed_step_quiet p c Ec Eq). rewrite <- Es in En.
      destruct (W1 En) as (A & B & C). repeat split; assumption.
    + rewrite feed_step_pst. intros En. rewrite En in R3. cbn [pstate_eqb implb] in R3.
      apply orb_prop in R3 as [R3|R3]; apply andb_prop in R3 as [Ra Rb].
      * unfold feed_step. rewrite Ec.
        destruct (t_kind (williams (pst p) c)); try discriminate Ra.
        exists c. split; [reflexivity|]. unfold inr in Rb. lia.
      * apply pstate_eqb_eq in Ra. rewrite (feed_step_quiet p c Ec Rb). cbn [inter set].
        destruct (W2 Ra) as (i & Hi & Hr). exists i. split; [exact Hi|exact Hr].
Qed.

Lemma PWf_feedM p c p' f : PInv p -> PWf p -> feedM p c = Ok (p', f) -> PWf p'.
Proof.
  intros HP HW E. rewrite feedM_char in E by exact HP. injection E as <- _. now apply PWf_step.
Qed.

(** ** [obs_eqb_parser] as a Prop *)

Lemma list_eqb_N_eq a b : list_eqb N.eqb a b = true -> a = b.
Proof. apply list_eqb_eq. intros x y H. now apply N.eqb_eq. Qed.

Lemma opt_eqb_N_eq (a b : option N) : opt_eqb N.eqb a b = true -> a = b.
Proof.
  destruct a, b; cbn; intros H; try discriminate H; [apply N.eqb_eq in H; now subst|reflexivity].
Qed.

Lemma obs_eqb_parser_refl p : obs_eqb_parser p p = true.
Proof.
  unfold obs_eqb_parser. rewrite pstate_eqb_refl'.
  destruct (pst p); cbn [andb]; try reflexivity;
    rewrite ?(opt_eqb_refl _ N.eqb_refl); cbn [andb]; try reflexivity;
    apply list_eqb_refl; intros x; apply list_eqb_refl; apply N.eqb_refl.
Qed.

(** equal observable parameters, under the invariant, means equal parameters *)
Lemma param_eq_of_pparts x y :
  ParamInv x -> ParamInv y -> pparts x = pparts y -> x = y.
Proof.
  intros (Lx & Cx & _ & Zx) (Ly & Cy & _ & Zy) E. unfold pparts in E.
  assert (Ec : cur_part x = cur_part y).
  { apply (f_equal (@length N)) in E. rewrite !firstn_length, Lx, Ly in E.
    unfold MAX_PARAM_LEN in *. lia. }
  assert (Ep : parts x = parts y).
  { apply (nth_ext _ _ 0 0); [congruence|]. intros i Hi.
    destruct (Nat.le_gt_cases i (cur_part x)) as [H|H].
    - transitivity (nth i (firstn (S (cur_part x)) (parts x)) 0).
      + symmetry. apply nth_firstn_lt. lia.
      + rewrite E. rewrite Ec in H. apply nth_firstn_lt. lia.
    - rewrite Zx by exact H. rewrite Zy by lia. reflexivity. }
  destruct x, y. cbn in *. congruence.
Qed.

Lemma obs_params_eq p q :
  PInv p -> PInv q -> obs_params p = obs_params q -> cur_param p = cur_param q /\ params p = params q.
Proof.
  intros (Lp & Cp & Fp & Zp) (Lq & Cq & Fq & Zq) E. unfold obs_params in E.
  assert (Ec : cur_param p = cur_param q).
  { apply (f_equal (@length (list N))) in E. rewrite !map_length, !firstn_length, Lp, Lq in E.
    unfold PARAMS_LEN in *. lia. }
  split; [exact Ec|].
  apply (nth_ext _ _ default_param default_param); [congruence|]. intros i Hi.
  destruct (Nat.le_gt_cases i (cur_param p)) as [H|H].
  - apply param_eq_of_pparts.
    + rewrite Forall_nth in Fp. apply Fp. exact Hi.
    + rewrite Forall_nth in Fq. apply Fq. rewrite Lq, <- Lp. exact Hi.
    + assert (G : forall r, (i <= cur_param r)%nat -> length (params r) = PARAMS_LEN ->
                (cur_param r < PARAMS_LEN)%nat ->
                nth i (map pparts (firstn (S (cur_param r)) (params r))) [] = pparts (nth i (params r) default_param)).
      { intros r Hr Lr Cr.
        rewrite (nth_indep _ [] (pparts default_param)) by (rewrite map_length, firstn_length; lia).
        rewrite map_nth. f_equal. apply nth_firstn_lt. lia. }
      rewrite <- (G p H Lp Cp), <- (G q) by (try assumption; lia). rewrite E. reflexivity.
  - rewrite Zp, Zq; auto; lia.
Qed.


Lemma parser_eq (p q : parser) :
  pst p = pst q -> params p = params q -> cur_param p = cur_param q -> inter p = inter q -> p = q.
Proof. destruct p, q. cbn. congruence. Qed.

Lemma psim_obs p q : PInv p -> PInv q -> psim p q -> obs_eqb_parser p q = true.
Proof.
  intros HP HQ HS. destruct (data_state (pst p)) eqn:HD.
  - rewrite (psim_data_eq p q HP HQ HS HD). apply obs_eqb_parser_refl.
  - destruct HS as [S _]. unfold obs_eqb_parser. rewrite <- S, pstate_eqb_refl'.
    destruct (pst p); try discriminate HD; reflexivity.
Qed.

(** with an intermediate in 0x20..0x2F the CSI dispatch does not look at the parameters *)
Lemma csi_inter_indep i c ps cp ps' cp' :
  32 <= i <= 47 -> csi_dispatch_gen (Some i) c ps cp = csi_dispatch_gen (Some i) c ps' cp'.
Proof.
  intros Hi. unfold csi_dispatch_gen. cbn [opt_is_none opt_is andb].
  replace (i =? 63) with false by lia. cbn [andb]. reflexivity.
Qed.

Definition is_inter_state (s : pstate) : bool :=
  match s with EscapeIntermediate | CsiIntermediate | DcsIntermediate => true | _ => false end.

Definition rowB (s : pstate) (c : N) : bool :=
  let t := williams s c in
  implb (is_inter_state s)
        ((t_clear t
          || (negb (akind_eqb (t_kind t) KParam)
              && (negb (data_state (t_next t)) || pstate_eqb (t_next t) s)))
         && implb (akind_eqb (t_kind t) KCsiDispatch) (pstate_eqb s CsiIntermediate)).

Lemma rowB_sweep :
  forallb (fun s => forallb (rowB s) (codes_upto 161)) all_pstates = true.
Proof. vm_compute. reflexivity. Qed.

Lemma rowB_all s c : rowB s c = true.
Proof.
  pose proof rowB_sweep as F. rewrite forallb_forall in F.
  specialize (F s (all_pstates_complete s)). rewrite forallb_forall in F.
  destruct (N.lt_ge_cases c 160) as [H|H].
  - apply F. apply codes_upto_complete. cbn. lia.
  - unfold rowB. rewrite (williams_high s c H). apply (F 160). apply codes_upto_complete. cbn. lia.
Qed.

Opaque csi_dispatch_gen.

(** the step lemma for the observational parser relation *)
Lemma osim_step p q c :
  PInv p -> PInv q -> PWf p -> PWf q -> obs_eqb_parser p q = true ->
  feed_emit p c = feed_emit q c /\ obs_eqb_parser (feed_step p c) (feed_step q c) = true.
Proof.
  intros HP HQ WP WQ H. unfold obs_eqb_parser in H. apply andb_prop in H as [S D].
  apply pstate_eqb_eq in S.
  assert (Hnd : data_state (pst p) = false ->
                feed_emit p c = feed_emit q c /\ obs_eqb_parser (feed_step p c) (feed_step q c) = true).
  { intros HD. destruct (psim_step_pure p q c HP HQ (psim_nodata p q S HD)) as [E PS].
    split; [exact E|]. apply psim_obs; auto using feed_step_inv. }
  assert (Heq : p = q ->
                feed_emit p c = feed_emit q c /\ obs_eqb_parser (feed_step p c) (feed_step q c) = true).
  { intros <-. split; [reflexivity|apply obs_eqb_parser_refl]. }
  assert (Hentry : entry_clears (pst p) = true -> p = q).
  { intros HE. destruct (proj1 WP HE) as (A1 & B1 & C1).
    rewrite S in HE. destruct (proj1 WQ HE) as (A2 & B2 & C2). apply parser_eq; congruence. }
  assert (Hparam : opt_eqb N.eqb (inter p) (inter q)
                   && list_eqb (list_eqb N.eqb) (obs_params p) (obs_params q) = true -> p = q).
  { intros HD. apply andb_prop in HD as [HI HO]. apply opt_eqb_N_eq in HI.
    apply (list_eqb_eq _ list_eqb_N_eq) in HO.
    destruct (obs_params_eq p q HP HQ HO) as [E1 E2]. apply parser_eq; assumption. }
  assert (Hint : is_inter_state (pst p) = true -> inter p = inter q ->
                 feed_emit p c = feed_emit q c /\ obs_eqb_parser (feed_step p c) (feed_step q c) = true).
  { intros HI EI. pose proof (rowB_all (pst p) c) as R. unfold rowB in R. rewrite HI in R.
    cbn [implb] in R. apply andb_prop in R as [R1 R2]. split.
    - unfold feed_emit. rewrite <- S, <- EI.
      destruct (t_kind (williams (pst p) c));
        [reflexivity|reflexivity|reflexivity|reflexivity|reflexivity|reflexivity| |reflexivity|reflexivity].
      cbn [akind_eqb implb] in R2. apply pstate_eqb_eq in R2.
      destruct (proj2 WP R2) as (i & Ei & Hi). rewrite Ei. apply csi_inter_indep. exact Hi.
    - destruct (t_clear (williams (pst p) c)) eqn:Ec.
      + rewrite (feed_step_clear p c HP Ec). pose proof Ec as Ec'. rewrite S in Ec'.
        rewrite (feed_step_clear q c HQ Ec'), <- S. apply obs_eqb_parser_refl.
      + cbn [orb] in R1. apply andb_prop in R1 as [Rk Rn].
        unfold feed_step. rewrite <- S, Ec. unfold obs_eqb_parser. cbn [pst set].
        rewrite pstate_eqb_refl'. cbn [andb].
        assert (EI' : inter (match t_kind (williams (pst p) c) with
                             | KCollect => collect p c | KParam => param_step p c | _ => p end)
                    = inter (match t_kind (williams (pst p) c) with
                             | KCollect => collect q c | KParam => param_step q c | _ => q end)).
        { destruct (t_kind (williams (pst p) c)); try exact EI; try reflexivity. discriminate Rk. }
        destruct (t_next (williams (pst p) c)) eqn:En; try reflexivity;
          cbn [inter set]; try (rewrite EI'; apply (opt_eqb_refl _ N.eqb_refl)).
        * apply orb_prop in Rn as [Rn|Rn]; [discriminate Rn|]. apply pstate_eqb_eq in Rn.
          rewrite <- Rn in HI. discriminate HI.
        * apply orb_prop in Rn as [Rn|Rn]; [discriminate Rn|]. apply pstate_eqb_eq in Rn.
          rewrite <- Rn in HI. discriminate HI. }
  destruct (pst p) eqn:Es;
    first [ apply Hnd; reflexivity
          | apply Heq, Hentry; reflexivity
          | apply Heq, Hparam; exact D
          | apply Hint; [reflexivity|apply opt_eqb_N_eq; exact D] ].
Qed.

Theorem osim_feedM : forall p q c p' f,
  PInv p -> PInv q -> PWf p -> PWf q -> obs_eqb_parser p q = true ->
  feedM p c = Ok (p', f) ->
  exists q', feedM q c = Ok (q', f) /\ obs_eqb_parser p' q' = true
             /\ PInv p' /\ PInv q' /\ PWf p' /\ PWf q'.
Proof.
  intros p q c p' f HP HQ WP WQ H E.
  rewrite feedM_char in E by exact HP. injection E as <- <-.
  destruct (osim_step p q c HP HQ WP WQ H) as [E1 E2].
  exists (feed_step q c). rewrite feedM_char by exact HQ. rewrite E1.
  split; [reflexivity|]. split; [exact E2|].
  split; [apply feed_step_inv; exact HP|]. split; [apply feed_step_inv; exact HQ|].
  split; apply PWf_step; assumption.
Qed.

End ParserPart.

Print Assumptions osim_feedM.

(** * 2. terminals: equal up to everything [holds_C11] ignores *)

(** [a] and [b] are both related (rows above the views, flags, limits and the clamped
    inactive saved context ignored) to a common third terminal *)
Definition T11 (a b : term) : Prop :=
  exists m La Lb Lm Dpa Daa Dpb Dab,
    Rx false true La Lm Dpa Daa a m /\ Rx false true Lb Lm Dpb Dab b m.

Lemma Rx_parked_ok tr cl L1 L2 Dp Da a m : Rx tr cl L1 L2 Dp Da a m -> parked_ok a.
Proof.
  intros H EA. pose proof (x_other _ _ _ _ _ _ _ _ H) as Ho. rewrite EA in Ho.
  split; [exact (g_c1 _ _ _ _ _ _ _ _ Ho)|exact (g_r1 _ _ _ _ _ _ _ _ Ho)].
Qed.

Lemma T11_parked_ok a b : T11 a b -> parked_ok a /\ parked_ok b.
Proof.
  intros (m & La & Lb & Lm & Dpa & Daa & Dpb & Dab & Ha & Hb).
  split; eapply Rx_parked_ok; eassumption.
Qed.

Theorem T11_execute : forall a b f a',
  T11 a b -> execute a f = Ok a' -> exists b', execute b f = Ok b' /\ T11 a' b'.
Proof.
  intros a b f a' (m & La & Lb & Lm & Dpa & Daa & Dpb & Dab & Ha & Hb) E.
  destruct (rres_ok_inv _ _ _ _ (execute_Rx _ _ _ _ _ _ _ _ f Ha) E) as (m' & Em & (Daa' & _ & Ha')).
  destruct (rres_ok_inv_r _ _ _ _ (execute_Rx _ _ _ _ _ _ _ _ f Hb) Em) as (b' & Eb & (Dab' & _ & Hb')).
  exists b'. split; [exact Eb|]. exists m'. do 7 eexists. split; eassumption.
Qed.

(** ** flush: the two sides trim different amounts; chop the middle terminal completely *)

Lemma RBg_flush_l c r l1 l2 D b1 b2 e :
  RBg false c r l1 l2 D b1 b2 -> e <= sb_len b1 ->
  RBg false c r l1 l2 (skipn e (D ++ firstn (sb_len b2) (lines b2)))
      (b1 <| trim_needed := false |> <| lines := skipn e (lines b1) |>)
      (chop (sb_len b2) b2).
Proof.
  intros H He. pose proof (G_sb_len _ _ _ _ _ _ _ _ H) as Hs.
  pose proof (g_len _ _ _ _ _ _ _ _ H) as HL. destruct H as [H1 H2 H3 H4 H5 H6 H7 H8 H9].
  assert (Hx : length (D ++ firstn (sb_len b2) (lines b2)) = sb_len b1).
  { rewrite app_length, firstn_length. unfold sb_len in *. lia. }
  unfold chop. constructor; psimpl; try assumption.
  - rewrite H1. rewrite <- (firstn_skipn (sb_len b2) (lines b2)) at 1.
    rewrite app_assoc, skipn_app. replace (e - length (D ++ firstn (sb_len b2) (lines b2))) with 0 by lia.
    reflexivity.
  - rewrite skipn_length, Hx. unfold sb_len in *. psimpl. rewrite skipn_length.
    rewrite H1, app_length in *. lia.
  - intros E; discriminate.
Qed.

Definition chopA (m : term) : term := m <| buf := chop (sb_len (buf m)) (buf m) |>.

Lemma flush_left_full cl L1 L2 Dp Da a m :
  Rx false cl L1 L2 Dp Da a m -> exists Dp' Da', Rx false cl L1 L2 Dp' Da' (flushed a) (chopA m).
Proof.
  intros H. pose proof (x_buf _ _ _ _ _ _ _ _ H) as Hb.
  pose proof (RBg_flush_l _ _ _ _ _ _ _ _ Hb (gc_excess_le (buf a))) as Hb'.
  set (X := skipn (gc_excess (buf a)) (Dsel Dp Da (active a) ++ firstn (sb_len (buf m)) (lines (buf m)))) in *.
  exists (match active a with Primary => X | Alternate => Dp end),
         (match active a with Primary => Da | Alternate => X end).
  unfold flushed, chopA.
  constructor; psimpl; try apply H; try (intros E; discriminate).
  - destruct (active a); cbn [Dsel] in *; exact Hb'.
  - pose proof (x_other _ _ _ _ _ _ _ _ H) as Ho. destruct (active a); [intros E; discriminate|exact Ho].
  - rewrite dirty_clear_len. apply H.
Qed.

Theorem T11_flush : forall a b, T11 a b -> T11 (flushed a) (flushed b).
Proof.
  intros a b (m & La & Lb & Lm & Dpa & Daa & Dpb & Dab & Ha & Hb).
  destruct (flush_left_full _ _ _ _ _ _ _ Ha) as (Dpa' & Daa' & Ha').
  destruct (flush_left_full _ _ _ _ _ _ _ Hb) as (Dpb' & Dab' & Hb').
  exists (chopA m). do 7 eexists. split; eassumption.
Qed.

(** * 3. the relation on [vt] and its preservation *)

Definition R11 (a b : vt) : Prop :=
  obs_eqb_parser (vparser a) (vparser b) = true
  /\ PWf (vparser a) /\ PWf (vparser b)
  /\ T11 (vterm a) (vterm b).

Lemma R11_parked_ok a b : R11 a b -> parked_ok (vterm a) /\ parked_ok (vterm b).
Proof. intros (_ & _ & _ & HT). apply T11_parked_ok; exact HT. Qed.

Lemma R11_feed_P : forall a b c a',
  PInv (vparser a) -> PInv (vparser b) -> R11 a b -> vt_feed a c = Ok a' ->
  exists b', vt_feed b c = Ok b' /\ R11 a' b' /\ PInv (vparser a') /\ PInv (vparser b').
Proof.
  intros a b c a' HPa HPb (Ho & Wa & Wb & HT) E. unfold vt_feed in *.
  destruct (feedM (vparser a) c) as [[p f]|e] eqn:Ef; cbn [bind] in E; [|discriminate].
  destruct (osim_feedM _ _ _ _ _ HPa HPb Wa Wb Ho Ef) as (q & Eq & Ho' & HPa' & HPb' & Wa' & Wb').
  rewrite Eq. cbn [bind]. destruct f as [f|].
  - destruct (execute (vterm a) f) as [ta|e] eqn:Ee; cbn [bind] in E; [|discriminate].
    injection E as <-. destruct (T11_execute _ _ _ _ HT Ee) as (tb & Eb & HT').
    rewrite Eb. cbn [bind]. eexists. split; [reflexivity|]. unfold R11. cbn [vparser vterm].
    split; [exact (conj Ho' (conj Wa' (conj Wb' HT')))|split; assumption].
  - injection E as <-. eexists. split; [reflexivity|]. unfold R11. cbn [vparser vterm].
    split; [exact (conj Ho' (conj Wa' (conj Wb' HT)))|split; assumption].
Qed.

Theorem R11_feed : forall a b c a',
  Inv a -> Inv b -> parked_ok (vterm a) -> parked_ok (vterm b) -> R11 a b ->
  vt_feed a c = Ok a' ->
  exists b', vt_feed b c = Ok b' /\ R11 a' b' /\ parked_ok (vterm a') /\ parked_ok (vterm b').
Proof.
  intros a b c a' [HPa _] [HPb _] _ _ HR E.
  destruct (R11_feed_P _ _ _ _ HPa HPb HR E) as (b' & Eb & HR' & _ & _).
  exists b'. split; [exact Eb|]. split; [exact HR'|]. apply R11_parked_ok; exact HR'.
Qed.

Print Assumptions R11_feed.

Theorem R11_feed_chars : forall s a b a',
  PInv (vparser a) -> PInv (vparser b) -> R11 a b -> feed_chars a s = Ok a' ->
  exists b', feed_chars b s = Ok b' /\ R11 a' b' /\ PInv (vparser a') /\ PInv (vparser b').
Proof.
  induction s as [|c s IH]; intros a b a' HPa HPb HR E; cbn [feed_chars] in *.
  - injection E as <-. exists b. auto.
  - destruct (vt_feed a c) as [a1|e] eqn:E1; cbn [bind] in E; [|discriminate].
    destruct (R11_feed_P _ _ _ _ HPa HPb HR E1) as (b1 & Eb1 & HR1 & HPa1 & HPb1).
    rewrite Eb1. cbn [bind]. exact (IH _ _ _ HPa1 HPb1 HR1 E).
Qed.

(** a flush trims different amounts on the two sides - irrelevant to [R11] *)
Theorem R11_flush : forall a b a' oa,
  TInv (vterm b) -> R11 a b -> vt_flush a = Ok (a', oa) ->
  exists b' ob, vt_flush b = Ok (b', ob) /\ R11 a' b'
                /\ vparser a' = vparser a /\ vparser b' = vparser b.
Proof.
  intros a b a' oa HTb (Ho & Wa & Wb & HT) E.
  apply vt_flush_inv in E. destruct E as (Pa & Ta & _).
  eexists _, _. split; [apply (vt_flush_eq b HTb)|].
  cbn [vparser vterm set]. split; [|split; [exact Pa|reflexivity]].
  unfold R11. cbn [vparser vterm set]. rewrite Pa, Ta.
  exact (conj Ho (conj Wa (conj Wb (T11_flush _ _ HT)))).
Qed.

Section Future.
(** [Inv] is preserved by [vt_feed] (proved in the main development) *)
Hypothesis vt_feed_Inv : forall v c v', Inv v -> vt_feed v c = Ok v' -> Inv v'.

Lemma feed_chars_Inv s : forall v v', Inv v -> feed_chars v s = Ok v' -> Inv v'.
Proof.
  induction s as [|c s IH]; intros v v' HI E; cbn [feed_chars] in E.
  - injection E as <-. exact HI.
  - destruct (vt_feed v c) as [v1|e] eqn:E1; cbn [bind] in E; [|discriminate].
    exact (IH _ _ (vt_feed_Inv _ _ _ HI E1) E).
Qed.

Theorem R11_feed_str : forall s a b a' oa,
  Inv a -> Inv b -> R11 a b -> feed_str a s = Ok (a', oa) ->
  exists b' ob, feed_str b s = Ok (b', ob) /\ R11 a' b'.
Proof.
  intros s a b a' oa HIa HIb HR E. apply feed_str_inv in E. destruct E as (ua & Fa & Ga).
  destruct (R11_feed_chars _ _ _ _ (proj1 HIa) (proj1 HIb) HR Fa) as (ub & Fb & HR1 & _ & _).
  pose proof (feed_chars_Inv _ _ _ HIb Fb) as HIub.
  destruct (R11_flush _ _ _ _ (proj2 HIub) HR1 Ga) as (b' & ob & Gb & HR2 & _ & _).
  exists b', ob. unfold feed_str. rewrite Fb. cbn [bind]. split; [exact Gb|exact HR2].
Qed.

End Future.

(** * 4. [holds_C11] and [R11] *)

(** ** soundness of the boolean equalities *)

Lemma color_eqb_eq a b : color_eqb a b = true -> a = b.
Proof.
  destruct a, b; cbn; intros H; try discriminate H.
  - apply N.eqb_eq in H. now subst.
  - apply andb_prop in H as [H H3]. apply andb_prop in H as [H1 H2].
    apply N.eqb_eq in H1, H2, H3. now subst.
Qed.

Lemma opt_color_eqb_eq a b : opt_eqb color_eqb a b = true -> a = b.
Proof. destruct a, b; cbn; intros H; try discriminate H; [f_equal; now apply color_eqb_eq|reflexivity]. Qed.

Lemma inten_eqb_eq a b : inten_eqb a b = true -> a = b.
Proof. destruct a, b; cbn; intros H; try discriminate H; reflexivity. Qed.

Lemma pen_eqb_eq a b : pen_eqb a b = true -> a = b.
Proof.
  unfold pen_eqb. intros H. apply andb_prop in H as [H H4]. apply andb_prop in H as [H H3].
  apply andb_prop in H as [H1 H2]. apply opt_color_eqb_eq in H1, H2. apply inten_eqb_eq in H3.
  apply N.eqb_eq in H4. destruct a, b. cbn in *. congruence.
Qed.

Lemma cell_eqb_eq a b : cell_eqb a b = true -> a = b.
Proof.
  unfold cell_eqb. intros H. apply andb_prop in H as [H1 H2]. apply N.eqb_eq in H1.
  apply pen_eqb_eq in H2. destruct a, b. cbn in *. congruence.
Qed.

Lemma line_eqb_eq a b : line_eqb a b = true -> a = b.
Proof.
  unfold line_eqb. intros H. apply andb_prop in H as [H1 H2].
  apply (list_eqb_eq _ cell_eqb_eq) in H1. apply Bool.eqb_prop in H2.
  destruct a, b. cbn in *. congruence.
Qed.

Lemma lines_eqb_eq a b : lines_eqb a b = true -> a = b.
Proof. apply list_eqb_eq. exact line_eqb_eq. Qed.

Lemma charset_eqb_eq a b : charset_eqb a b = true -> a = b.
Proof. destruct a, b; cbn; intros H; try discriminate H; reflexivity. Qed.

Lemma btype_eqb_eq a b : btype_eqb a b = true -> a = b.
Proof. destruct a, b; cbn; intros H; try discriminate H; reflexivity. Qed.

Lemma ctx_eqb_eq a b : ctx_eqb a b = true -> a = b.
Proof.
  unfold ctx_eqb. intros H. apply andb_prop in H as [H H5]. apply andb_prop in H as [H H4].
  apply andb_prop in H as [H H3]. apply andb_prop in H as [H1 H2].
  apply Nat.eqb_eq in H1, H2. apply pen_eqb_eq in H3. apply Bool.eqb_prop in H4, H5.
  destruct a, b. cbn in *. congruence.
Qed.

Lemma list_nat_eqb_eq a b : list_eqb Nat.eqb a b = true -> a = b.
Proof. apply list_eqb_eq. intros x y H. now apply Nat.eqb_eq. Qed.

(** ** the terminal part of [holds_C11] as a Prop *)

(** every scalar except [sb_limit] and [asctx] *)
Definition scal11 (t : term) :=
  (cols t, rows t, active t, cur_col t, cur_row t, cur_vis t, tpen t, cs0 t, cs1 t,
   acs t, tabs t, ins t, org t, awm t, nlm t, ckm t, pend t, top t, bot t, sctx t, xtw t).

Definition obs_buf (x y : buffer) : Prop :=
  view x = view y /\ bcols x = bcols y /\ brows x = brows y.

Record O11 (a b : term) : Prop := mkO11 {
  q_scal : scal11 a = scal11 b;
  q_asctx : clamp_ctx (asctx a) (cols a) (rows a) = clamp_ctx (asctx b) (cols b) (rows b);
  q_buf : obs_buf (buf a) (buf b);
  q_other : active a = Alternate -> obs_buf (other a) (other b)
}.

Lemma obs_buffer_eqb_prop x y : obs_buffer_eqb x y = true -> obs_buf x y.
Proof.
  unfold obs_buffer_eqb. intros H. apply andb_prop in H as [H H3]. apply andb_prop in H as [H1 H2].
  apply lines_eqb_eq in H1. apply Nat.eqb_eq in H2, H3. repeat split; assumption.
Qed.

Lemma obs_buf_eqb x y : obs_buf x y -> obs_buffer_eqb x y = true.
Proof.
  intros (H1 & H2 & H3). unfold obs_buffer_eqb. rewrite H1, H2, H3.
  now rewrite lines_eqb_refl, !Nat.eqb_refl.
Qed.

Ltac split_andb H :=
  repeat match type of H with
  | _ && _ = true => let H' := fresh "B" in apply andb_prop in H as [H H']
  end.

Lemma holds_C11_prop a b :
  holds_C11 a b = true ->
  O11 (vterm a) (vterm b) /\ obs_eqb_parser (vparser a) (vparser b) = true.
Proof.
  unfold holds_C11. intros H. apply andb_prop in H as [H Ho]. apply andb_prop in H as [Ht Hp].
  split; [|exact Hp]. unfold obs_eqb_term, norm_C11 in Ht. psimpl_in Ht.
  apply andb_prop in Ht as [Ht _]. apply andb_prop in Ht as [Hs Hb].
  unfold term_scalars_eqb in Hs. psimpl_in Hs. split_andb Hs.
  repeat match goal with
  | H : Nat.eqb _ _ = true |- _ => apply Nat.eqb_eq in H
  | H : Bool.eqb _ _ = true |- _ => apply Bool.eqb_prop in H
  | H : btype_eqb _ _ = true |- _ => apply btype_eqb_eq in H
  | H : pen_eqb _ _ = true |- _ => apply pen_eqb_eq in H
  | H : charset_eqb _ _ = true |- _ => apply charset_eqb_eq in H
  | H : list_eqb Nat.eqb _ _ = true |- _ => apply list_nat_eqb_eq in H
  | H : ctx_eqb _ _ = true |- _ => apply ctx_eqb_eq in H
  end.
  constructor.
  - unfold scal11. congruence.
  - assumption.
  - apply obs_buffer_eqb_prop; exact Hb.
  - intros EA. rewrite EA in Ho. apply obs_buffer_eqb_prop; exact Ho.
Qed.

Lemma O11_holds a b :
  O11 (vterm a) (vterm b) -> obs_eqb_parser (vparser a) (vparser b) = true -> holds_C11 a b = true.
Proof.
  intros [Hs Ha Hb Ho] Hp. unfold holds_C11. rewrite Hp.
  unfold scal11 in Hs.
  injection Hs as E1 E2 E3 E4 E5 E6 E7 E8 E9 E10 E11 E12 E13 E14 E15 E16 E17 E18 E19 E20 E21.
  assert (Hoth : match active (vterm a) with
                 | Alternate => obs_buffer_eqb (other (vterm a)) (other (vterm b))
                 | Primary => true end = true).
  { destruct (active (vterm a)) eqn:EA; [reflexivity|]. apply obs_buf_eqb, Ho. reflexivity. }
  rewrite Hoth. unfold obs_eqb_term, norm_C11. psimpl. rewrite Hoth, (obs_buf_eqb _ _ Hb).
  unfold term_scalars_eqb. psimpl.
  rewrite <- Ha, <- E1, <- E2, <- E3, <- E4, <- E5, <- E6, <- E7, <- E8, <- E9, <- E10, <- E11,
    <- E12, <- E13, <- E14, <- E15, <- E16, <- E17, <- E18, <- E19, <- E20, <- E21.
  rewrite !Nat.eqb_refl, !Bool.eqb_reflx, btype_eqb_refl, pen_eqb_refl, !charset_eqb_refl,
    !ctx_eqb_refl, (list_eqb_refl _ Nat.eqb_refl). reflexivity.
Qed.

(** ** [T11] implies the observation *)

Lemma Rx_scal11 L1 L2 Dp Da a m : Rx false true L1 L2 Dp Da a m -> scal11 a = scal11 m.
Proof.
  intros H. unfold scal11.
  rewrite <- (x_cols _ _ _ _ _ _ _ _ H), <- (x_rows _ _ _ _ _ _ _ _ H), <- (x_active _ _ _ _ _ _ _ _ H),
    <- (x_cur_col _ _ _ _ _ _ _ _ H), <- (x_cur_row _ _ _ _ _ _ _ _ H), <- (x_cur_vis _ _ _ _ _ _ _ _ H),
    <- (x_tpen _ _ _ _ _ _ _ _ H), <- (x_cs0 _ _ _ _ _ _ _ _ H), <- (x_cs1 _ _ _ _ _ _ _ _ H),
    <- (x_acs _ _ _ _ _ _ _ _ H), <- (x_tabs _ _ _ _ _ _ _ _ H), <- (x_ins _ _ _ _ _ _ _ _ H),
    <- (x_org _ _ _ _ _ _ _ _ H), <- (x_awm _ _ _ _ _ _ _ _ H), <- (x_nlm _ _ _ _ _ _ _ _ H),
    <- (x_ckm _ _ _ _ _ _ _ _ H), <- (x_pend _ _ _ _ _ _ _ _ H), <- (x_top _ _ _ _ _ _ _ _ H),
    <- (x_bot _ _ _ _ _ _ _ _ H), <- (x_sctx _ _ _ _ _ _ _ _ H), <- (x_xtw _ _ _ _ _ _ _ _ H).
  reflexivity.
Qed.

Lemma RBg_obs_buf tr c r l1 l2 D b1 b2 : RBg tr c r l1 l2 D b1 b2 -> obs_buf b1 b2.
Proof.
  intros H. split; [eapply G_view; exact H|].
  rewrite (g_c1 _ _ _ _ _ _ _ _ H), (g_c2 _ _ _ _ _ _ _ _ H), (g_r1 _ _ _ _ _ _ _ _ H),
    (g_r2 _ _ _ _ _ _ _ _ H). split; reflexivity.
Qed.

Lemma Rx_clamp L1 L2 Dp Da a m :
  Rx false true L1 L2 Dp Da a m ->
  clamp_ctx (asctx a) (cols a) (rows a) = clamp_ctx (asctx m) (cols a) (rows a).
Proof.
  intros H. pose proof (x_asctx _ _ _ _ _ _ _ _ H) as Hs. cbn iota in Hs.
  destruct (active a); [exact Hs|rewrite Hs; reflexivity].
Qed.

Lemma obs_buf_trans x y z : obs_buf x y -> obs_buf z y -> obs_buf x z.
Proof. intros (A1 & A2 & A3) (B1 & B2 & B3). repeat split; congruence. Qed.

Theorem T11_O11 a b : T11 a b -> O11 a b.
Proof.
  intros (m & La & Lb & Lm & Dpa & Daa & Dpb & Dab & Ha & Hb).
  pose proof (x_cols _ _ _ _ _ _ _ _ Ha) as Ca. pose proof (x_cols _ _ _ _ _ _ _ _ Hb) as Cb.
  pose proof (x_rows _ _ _ _ _ _ _ _ Ha) as Ra. pose proof (x_rows _ _ _ _ _ _ _ _ Hb) as Rb.
  constructor.
  - rewrite (Rx_scal11 _ _ _ _ _ _ Ha), (Rx_scal11 _ _ _ _ _ _ Hb). reflexivity.
  - rewrite (Rx_clamp _ _ _ _ _ _ Ha), (Rx_clamp _ _ _ _ _ _ Hb). congruence.
  - eapply obs_buf_trans; eapply RBg_obs_buf; [exact (x_buf _ _ _ _ _ _ _ _ Ha)|exact (x_buf _ _ _ _ _ _ _ _ Hb)].
  - intros EA.
    pose proof (x_other _ _ _ _ _ _ _ _ Ha) as Oa. pose proof (x_other _ _ _ _ _ _ _ _ Hb) as Ob.
    assert (EB : active b = Alternate).
    { rewrite (x_active _ _ _ _ _ _ _ _ Hb), <- (x_active _ _ _ _ _ _ _ _ Ha). exact EA. }
    rewrite EA in Oa. rewrite EB in Ob.
    eapply obs_buf_trans; eapply RBg_obs_buf; eassumption.
Qed.

(** ** the observation, with the invariants, implies [T11] *)

Lemma clamp_id x c r : sc_col x < c -> sc_row x < r -> clamp_ctx x c r = x.
Proof.
  intros Hc Hr. unfold clamp_ctx. destruct x as [sc sr sp so sa]. cbn in *.
  unfold set; cbn. f_equal; lia.
Qed.

Lemma RBg_of_view c r l1 l2 b1 b2 :
  obs_buf b1 b2 -> bcols b1 = c -> brows b1 = r -> blimit b1 = l1 -> blimit b2 = l2 ->
  RBg false c r l1 l2 (firstn (sb_len b1) (lines b1)) b1 (chop (sb_len b2) b2).
Proof.
  intros (Hv & Hc & Hr) C1 R1 E1 E2. unfold chop. constructor; psimpl; try congruence.
  - fold (view b2). rewrite <- Hv. unfold view. symmetry. apply firstn_skipn.
  - rewrite firstn_length. lia.
Qed.

Theorem O11_T11 a b :
  TInv a -> TInv b -> parked_ok a -> parked_ok b -> O11 a b -> T11 a b.
Proof.
  intros HTa HTb HPa HPb [Hs Hasc Hb Ho].
  pose proof Hs as Hs'. unfold scal11 in Hs'.
  injection Hs' as E1 E2 E3 E4 E5 E6 E7 E8 E9 E10 E11 E12 E13 E14 E15 E16 E17 E18 E19 E20 E21.
  set (ko := match active a with Primary => 0 | Alternate => sb_len (other a) end).
  assert (Hko : ko <= sb_len (other a)) by (unfold ko; destruct (active a); [apply Nat.le_0_l|apply le_n]).
  exists (chop2 (sb_len (buf a)) ko a), (sb_limit a), (sb_limit b), (sb_limit a).
  pose proof (Rx_chop2 false true a (sb_len (buf a)) ko HTa HPa (le_n _) Hko) as Ha.
  eexists _, _.
  exists (match active b with Primary => firstn (sb_len (buf b)) (lines (buf b))
                             | Alternate => firstn (sb_len (other b)) (lines (other b)) end),
         (match active b with Primary => [] | Alternate => firstn (sb_len (buf b)) (lines (buf b)) end).
  split; [exact Ha|].
  pose proof (ti_limit _ HTa) as La. pose proof (ti_limit _ HTb) as Lb.
  unfold chop2. constructor; psimpl; try (symmetry; assumption); try (intros E; discriminate);
    try apply leq_refl; try reflexivity.
  - (* active buffer *)
    replace (Dsel _ _ (active b)) with (firstn (sb_len (buf b)) (lines (buf b)))
      by (destruct (active b); reflexivity).
    apply RBg_of_view.
    + destruct Hb as (A1 & A2 & A3). repeat split; congruence.
    + apply HTb.
    + apply HTb.
    + destruct (active b); apply Lb.
    + rewrite <- E3. destruct (active a); apply La.
  - (* parked buffer *)
    destruct (active b) eqn:EB; [intros E; discriminate|].
    assert (EA : active a = Alternate) by congruence.
    unfold ko. rewrite EA. destruct (HPb EB) as [Pc Pr].
    apply RBg_of_view.
    + destruct (Ho EA) as (A1 & A2 & A3). repeat split; congruence.
    + exact Pc.
    + exact Pr.
    + apply Lb.
    + rewrite EA in La. apply La.
  - (* inactive saved context *)
    destruct (active b) eqn:EB.
    + rewrite <- Hasc, E1, E2. reflexivity.
    + assert (EA : active a = Alternate) by congruence.
      pose proof (ti_parked _ HTa) as Ka. pose proof (ti_parked _ HTb) as Kb.
      rewrite EA in Ka. rewrite EB in Kb. destruct (HPa EA) as [Ac Ar]. destruct (HPb EB) as [Bc Br].
      rewrite Ac, Ar in Ka. rewrite Bc, Br in Kb. destruct Ka as [Ka1 Ka2]. destruct Kb as [Kb1 Kb2].
      rewrite (clamp_id _ _ _ Ka1 Ka2), (clamp_id _ _ _ Kb1 Kb2) in Hasc. symmetry. exact Hasc.
  - rewrite (ti_dirty _ HTa), (ti_dirty _ HTb). symmetry. exact E2.
  - apply HTb.
Qed.

(** * 5. C11, future half *)

Section Future2.
Hypothesis vt_feed_Inv : forall v c v', Inv v -> vt_feed v c = Ok v' -> Inv v'.

Theorem R11_of_holds a b :
  Inv a -> Inv b -> parked_ok (vterm a) -> parked_ok (vterm b) ->
  PWf (vparser a) -> PWf (vparser b) -> holds_C11 a b = true -> R11 a b.
Proof.
  intros [_ HTa] [_ HTb] HPa HPb Wa Wb H. destruct (holds_C11_prop a b H) as [HO Hp].
  exact (conj Hp (conj Wa (conj Wb (O11_T11 _ _ HTa HTb HPa HPb HO)))).
Qed.

Theorem R11_holds a b : R11 a b -> holds_C11 a b = true.
Proof. intros (Hp & _ & _ & HT). apply O11_holds; [apply T11_O11; exact HT|exact Hp]. Qed.

(** [R11] relates every well-formed state to itself *)
Theorem R11_refl v : Inv v -> parked_ok (vterm v) -> PWf (vparser v) -> R11 v v.
Proof.
  intros [HP HT] HPk HW.
  refine (conj (obs_eqb_parser_refl _) (conj HW (conj HW _))).
  pose proof (Rx_refl false true _ HT HPk) as H.
  exists (vterm v). do 7 eexists. split; exact H.
Qed.

Theorem C11_future : forall a b s a' oa,
  Inv a -> Inv b -> parked_ok (vterm a) -> parked_ok (vterm b) ->
  PWf (vparser a) -> PWf (vparser b) ->
  holds_C11 a b = true -> feed_str a s = Ok (a', oa) ->
  exists b' ob, feed_str b s = Ok (b', ob) /\ holds_C11 a' b' = true.
Proof.
  intros a b s a' oa HIa HIb HPa HPb Wa Wb H E.
  pose proof (R11_of_holds a b HIa HIb HPa HPb Wa Wb H) as HR.
  destruct (R11_feed_str vt_feed_Inv s a b a' oa HIa HIb HR E) as (b' & ob & Eb & HR').
  exists b', ob. split; [exact Eb|apply R11_holds; exact HR'].
Qed.

End Future2.

Print Assumptions R11_feed_str.
Print Assumptions C11_future.
Print Assumptions R11_refl.

(** * 6. finding F-C11-1: [holds_C11] alone (with [Inv]) is not a bisimulation *)

Module FindingC11.
  Local Open Scope N_scope.
  (** two parsers in CsiIntermediate with the SAME collected byte '?' (63) but different
      parameters: [obs_eqb_parser] compares only [inter] in this state.  Both satisfy [PInv];
      neither is reachable (a '?' is never collected in CsiIntermediate: [PWf] fails). *)
  Definition par (x : N) : parser :=
    mkParser CsiIntermediate (mkParam 0 [x; 0; 0; 0; 0; 0] :: repeat default_param 31) 0 (Some 63).
  Definition va : vt := mkVt (par 25) (term_new_gen 4 2 None).   (* CSI ? 25 ... *)
  Definition vb : vt := mkVt (par 6) (term_new_gen 4 2 None).    (* CSI ? 6 ... *)
  Local Close Scope N_scope.

  Definition after_l (v : vt) : option vt :=
    match vt_feed v 108%N with Ok v' => Some v' | Panic _ => None end.   (* 'l' *)

  Lemma related_before : holds_C11 va vb = true.
  Proof. vm_compute. reflexivity. Qed.

  (** 'l' dispatches DECRST 25 (hide cursor) on one side and DECRST 6 on the other *)
  Lemma not_related_after :
    match after_l va, after_l vb with
    | Some a', Some b' => holds_C11 a' b' = false /\ cur_vis (vterm a') = false /\ cur_vis (vterm b') = true
    | _, _ => False
    end.
  Proof. vm_compute. repeat split; reflexivity. Qed.

  Lemma par_PInv x : (x < 65536)%N -> PInv (par x).
  Proof.
    intros Hx. unfold PInv, par. cbn [params cur_param length repeat].
    split; [reflexivity|]. split; [unfold PARAMS_LEN; lia|]. split.
    - constructor.
      + unfold ParamInv. cbn [parts cur_part length]. split; [reflexivity|].
        split; [unfold MAX_PARAM_LEN; lia|]. split.
        * repeat constructor; assumption.
        * intros i Hi. do 6 (destruct i as [|i]; [try lia; reflexivity|]). destruct i; reflexivity.
      + repeat constructor; apply ParamInv_default.
    - intros i Hi Hl. unfold PARAMS_LEN in Hl.
      do 32 (destruct i as [|i]; [first [lia|reflexivity]|]). lia.
  Qed.

  Lemma par_not_PWf x : ~ PWf (par x).
  Proof. intros [_ H]. destruct (H eq_refl) as (i & Hi & Hr). cbn in Hi. injection Hi as <-. lia. Qed.
End FindingC11.

(** * 7. [PWf] holds in every state reachable through the public API *)

Lemma vt_feed_PWf v c v' :
  PInv (vparser v) -> PWf (vparser v) -> vt_feed v c = Ok v' -> PWf (vparser v') /\ PInv (vparser v').
Proof.
  intros HP HW E. unfold vt_feed in E.
  destruct (feedM (vparser v) c) as [[p f]|e] eqn:Ef; cbn [bind] in E; [|discriminate].
  pose proof (PWf_feedM _ _ _ _ HP HW Ef) as HW'. pose proof (feedM_PInv _ _ _ _ HP Ef) as HP'.
  destruct f as [f|].
  - destruct (execute (vterm v) f) as [t|e]; cbn [bind] in E; [|discriminate].
    injection E as <-. split; assumption.
  - injection E as <-. split; assumption.
Qed.

Lemma feed_chars_PWf s : forall v v',
  PInv (vparser v) -> PWf (vparser v) -> feed_chars v s = Ok v' -> PWf (vparser v') /\ PInv (vparser v').
Proof.
  induction s as [|c s IH]; intros v v' HP HW E; cbn [feed_chars] in E.
  - injection E as <-. split; assumption.
  - destruct (vt_feed v c) as [v1|e] eqn:E1; cbn [bind] in E; [|discriminate].
    destruct (vt_feed_PWf _ _ _ HP HW E1) as [HW1 HP1]. exact (IH _ _ HP1 HW1 E).
Qed.

Theorem PWf_new c r l : PWf (vparser (vt_new c r l)) /\ PInv (vparser (vt_new c r l)).
Proof. split; [exact PWf_init|exact init_parser_PInv]. Qed.

Theorem feed_str_PWf v s v' o :
  PInv (vparser v) -> PWf (vparser v) -> feed_str v s = Ok (v', o) -> PWf (vparser v') /\ PInv (vparser v').
Proof.
  intros HP HW E. apply feed_str_inv in E. destruct E as (u & F & G).
  destruct (feed_chars_PWf _ _ _ HP HW F) as [HW1 HP1].
  apply vt_flush_inv in G. destruct G as (Pu & _ & _). rewrite Pu. split; assumption.
Qed.

Print Assumptions feed_str_PWf.
