(** Property C11, parser level: the SGR sequence written by [Pen::dump] decodes to the operations
    [pen_ops], and applying them rebuilds the pen. *)

From Avt Require Import Model.Parser Model.Dump Spec.Williams Proofs.Inv Proofs.ParserTable
  Proofs.ParserInv Proofs.ParserSim Proofs.DumpParser Proofs.DumpParserSgr.
Require Import Lia ZArith ZifyBool ZifyNat ZifyN.
Local Open Scope N_scope.
Ltac Zify.zify_post_hook ::= Z.div_mod_to_equations.

#[local] Arguments N.add : simpl never.
#[local] Arguments N.sub : simpl never.
#[local] Arguments N.mul : simpl never.
#[local] Arguments N.eqb : simpl never.
#[local] Arguments N.ltb : simpl never.
#[local] Arguments N.leb : simpl never.
#[local] Arguments N.modulo : simpl never.
#[local] Arguments N.div : simpl never.

Lemma pparts_mk_param' c : c <> [] -> pparts (mk_param c) = c.
Proof.
  intros NE. unfold pparts, mk_param. cbn [cur_part parts].
  assert (0 < length c)%nat by (destruct c; [congruence|cbn [length]; lia]).
  replace (S (length c - 1)) with (length c + 0)%nat by lia.
  rewrite firstn_app_2. cbn [firstn]. apply app_nil_r.
Qed.

(** the operation decoded from one parameter that does not start an extended colour *)
Definition part_op (c : list N) : option sgr_op := fst (sgr_step (mk_param c) []).

Definition plain_parts (c : list N) : Prop := c <> [] /\ c <> [38] /\ c <> [48].

Lemma sgr_step_plain c rest : plain_parts c -> sgr_step (mk_param c) rest = (part_op c, 1%nat).
Proof.
  intros (NE & N38 & N48). unfold part_op, sgr_step. rewrite pparts_mk_param' by exact NE.
  destruct c as [|a [|b [|c3 [|c4 [|c5 [|c6 [|c7 c]]]]]]]; try reflexivity; try congruence.
  - destruct (N.eqb_spec a 38) as [->|_]; [congruence|].
    destruct (N.eqb_spec a 48) as [->|_]; [congruence|]. reflexivity.
  - destruct ((a =? 38) && (b =? 5)); [reflexivity|]. destruct ((a =? 48) && (b =? 5)); reflexivity.
  - destruct ((a =? 38) && (b =? 2)); [reflexivity|]. destruct ((a =? 48) && (b =? 2)); reflexivity.
  - destruct ((a =? 38) && (b =? 2)); [reflexivity|]. destruct ((a =? 48) && (b =? 2)); reflexivity.
Qed.

Lemma sgr_go_plain : forall pss, Forall plain_parts pss ->
  sgr_go 0 (map mk_param pss) = flat_map (fun c => opt_to_list (part_op c)) pss.
Proof.
  induction pss as [|c pss IH]; intros HF; [reflexivity|].
  pose proof (Forall_inv HF) as Hc. apply Forall_inv_tail in HF.
  cbn [map sgr_go flat_map]. rewrite (sgr_step_plain c _ Hc). cbn [Nat.sub].
  rewrite (IH HF). destruct (part_op c); reflexivity.
Qed.

Ltac split_ifs :=
  repeat match goal with
         | |- context [if ?b then _ else _] => let E := fresh "E" in destruct b eqn:E; try lia
         end.

Lemma part_op_single v : v <> 38 -> v <> 48 -> part_op [v] = sgr_single v.
Proof.
  intros H1 H2. unfold part_op, sgr_step. rewrite pparts_mk_param' by discriminate.
  replace (v =? 38) with false by lia. replace (v =? 48) with false by lia. reflexivity.
Qed.

Lemma part_op_fg c : color_ok c -> part_op (color_parts c 30) = Some (SetForegroundColor c).
Proof.
  intros HC. destruct c as [i|r g b]; cbn [color_ok] in HC;
    unfold color_parts, SGRP_T1, SGRP_T2, SGRP_O2, SGRP_O3, SGRP_O4.
  - destruct (i <? 8) eqn:E1; [|destruct (i <? 16) eqn:E2].
    + rewrite part_op_single by lia. unfold sgr_single. split_ifs. do 3 f_equal. lia.
    + rewrite part_op_single by lia. unfold sgr_single. split_ifs. do 3 f_equal. lia.
    + unfold part_op, sgr_step. rewrite pparts_mk_param' by discriminate.
      change (30 + 8) with 38. change ((38 =? 38) && (5 =? 5)) with true. cbn [fst].
      do 3 f_equal. lia.
  - unfold part_op, sgr_step. rewrite pparts_mk_param' by discriminate.
    change (30 + 8) with 38. change ((38 =? 38) && (2 =? 2)) with true. cbn [fst]. unfold rgb.
    destruct HC as (Hr & Hg & Hb). rewrite !N.mod_small by assumption. reflexivity.
Qed.

Lemma part_op_bg c : color_ok c -> part_op (color_parts c 40) = Some (SetBackgroundColor c).
Proof.
  intros HC. destruct c as [i|r g b]; cbn [color_ok] in HC;
    unfold color_parts, SGRP_T1, SGRP_T2, SGRP_O2, SGRP_O3, SGRP_O4.
  - destruct (i <? 8) eqn:E1; [|destruct (i <? 16) eqn:E2].
    + rewrite part_op_single by lia. unfold sgr_single. split_ifs. do 3 f_equal. lia.
    + rewrite part_op_single by lia. unfold sgr_single. split_ifs. do 3 f_equal. lia.
    + unfold part_op, sgr_step. rewrite pparts_mk_param' by discriminate.
      change (40 + 8) with 48. change ((48 =? 38) && (5 =? 5)) with false.
      change ((48 =? 48) && (5 =? 5)) with true. cbn [fst]. do 3 f_equal. lia.
  - unfold part_op, sgr_step. rewrite pparts_mk_param' by discriminate.
    change (40 + 8) with 48. change ((48 =? 38) && (2 =? 2)) with false.
    change ((48 =? 48) && (2 =? 2)) with true. cbn [fst]. unfold rgb.
    destruct HC as (Hr & Hg & Hb). rewrite !N.mod_small by assumption. reflexivity.
Qed.

(** the SGR operations that [Pen::dump] encodes *)
Definition pen_ops (p : pen) : list sgr_op :=
  Reset
  :: (match foreground p with Some c => [SetForegroundColor c] | None => [] end)
  ++ (match background p with Some c => [SetBackgroundColor c] | None => [] end)
  ++ (match intensity p with Normal => [] | Bold => [SetBoldIntensity] | Faint => [SetFaintIntensity] end)
  ++ (if pen_has ITALIC_MASK p then [SetItalic] else [])
  ++ (if pen_has UNDERLINE_MASK p then [SetUnderline] else [])
  ++ (if pen_has BLINK_MASK p then [SetBlink] else [])
  ++ (if pen_has INVERSE_MASK p then [SetInverse] else [])
  ++ (if pen_has STRIKETHROUGH_MASK p then [SetStrikethrough] else []).

Lemma color_parts_plain c base : base = 30 \/ base = 40 -> color_ok c -> plain_parts (color_parts c base).
Proof.
  intros HB HC. unfold plain_parts, color_parts, SGRP_T1, SGRP_T2, SGRP_O2, SGRP_O3, SGRP_O4.
  destruct c as [i|r g b]; cbn [color_ok] in HC.
  - destruct (i <? 8) eqn:E1; [|destruct (i <? 16) eqn:E2].
    all: repeat split; try discriminate; intros H; injection H as H; lia.
  - repeat split; discriminate.
Qed.

Lemma single_plain v : v <> 38 -> v <> 48 -> plain_parts [v].
Proof. intros H1 H2. repeat split; [discriminate|congruence|congruence]. Qed.

Lemma opt_parts_plain b v : v <> 38 -> v <> 48 -> Forall plain_parts (opt_parts b [v]).
Proof. intros H1 H2. destruct b; cbn [opt_parts]; repeat constructor; congruence. Qed.

Lemma pen_pss_plain p : pen_colors_ok p -> Forall plain_parts (pen_pss p).
Proof.
  intros [HF HB]. unfold pen_pss. constructor; [apply single_plain; discriminate|].
  repeat (apply Forall_app; split); try (apply opt_parts_plain; discriminate).
  - destruct (foreground p) as [c|]; constructor; [|constructor]. apply color_parts_plain; auto.
  - destruct (background p) as [c|]; constructor; [|constructor]. apply color_parts_plain; auto.
  - destruct (intensity p); repeat constructor; congruence.
Qed.

Theorem pen_pss_ops : forall p, pen_colors_ok p ->
  sgr_ops (map mk_param (pen_pss p)) = pen_ops p.
Proof.
  intros p HC. unfold sgr_ops. rewrite sgr_go_plain by (now apply pen_pss_plain).
  destruct HC as [HF HB]. unfold pen_pss, pen_ops. cbn [flat_map]. rewrite !flat_map_app.
  change (opt_to_list (part_op [0])) with [Reset]. cbn [app]. f_equal.
  f_equal; [destruct (foreground p) as [c|]; [cbn [flat_map]; now rewrite part_op_fg|reflexivity]|].
  f_equal; [destruct (background p) as [c|]; [cbn [flat_map]; now rewrite part_op_bg|reflexivity]|].
  f_equal; [destruct (intensity p); reflexivity|].
  f_equal; [destruct (pen_has ITALIC_MASK p); reflexivity|].
  f_equal; [destruct (pen_has UNDERLINE_MASK p); reflexivity|].
  f_equal; [destruct (pen_has BLINK_MASK p); reflexivity|].
  f_equal; [destruct (pen_has INVERSE_MASK p); reflexivity|].
  destruct (pen_has STRIKETHROUGH_MASK p); reflexivity.
Qed.
Print Assumptions pen_pss_ops.

(** [Pen::dump] is parsed into exactly these operations *)
Theorem run_pen_dump_ops : forall p pn,
  PInv p -> pst p = Ground -> pen_colors_ok pn ->
  exists p', runP p (pen_dump pn) = Ok (p', [Sgr (pen_ops pn)]) /\ pst p' = Ground /\ PInv p'.
Proof.
  intros p pn HP HG HC. destruct (run_pen_dump p pn HP HG HC) as (p' & R & H).
  exists p'. rewrite <- (pen_pss_ops pn HC). auto.
Qed.
Print Assumptions run_pen_dump_ops.

(** * applying the decoded operations rebuilds the pen *)

Definition attr_ops (a : N) : list sgr_op :=
  (if negb (N.land a ITALIC_MASK =? 0) then [SetItalic] else [])
  ++ (if negb (N.land a UNDERLINE_MASK =? 0) then [SetUnderline] else [])
  ++ (if negb (N.land a BLINK_MASK =? 0) then [SetBlink] else [])
  ++ (if negb (N.land a INVERSE_MASK =? 0) then [SetInverse] else [])
  ++ (if negb (N.land a STRIKETHROUGH_MASK =? 0) then [SetStrikethrough] else []).

Lemma attr_fold a q : a < 32 ->
  fold_left sgr_one (attr_ops a) q = q <| attrs := N.lor (attrs q) a |>.
Proof.
  intros H. assert (Hin : In a (codes_upto 32)) by (apply codes_upto_complete; cbn; lia).
  destruct q as [fg bg it x]. vm_compute in Hin.
  repeat (destruct Hin as [<-|Hin];
          [ match goal with
            | |- context [attr_ops ?a] =>
              let l := eval vm_compute in (attr_ops a) in change (attr_ops a) with l
            end;
            cbn [fold_left sgr_one]; unfold pen_set;
            cbv [set attrs foreground background intensity Types.eta_pen];
            rewrite <- ?N.lor_assoc, ?N.lor_0_r; reflexivity |]).
  destruct Hin.
Qed.

(** the attribute bits used by avt: italic, underline, strikethrough, blink, inverse *)
Definition pen_attrs_ok (p : pen) : Prop := attrs p < 32.

Theorem pen_ops_rebuild : forall pn q, pen_attrs_ok pn -> fold_left sgr_one (pen_ops pn) q = pn.
Proof.
  intros pn q HA. unfold pen_ops. cbn [fold_left sgr_one].
  change ((if pen_has ITALIC_MASK pn then [SetItalic] else [])
          ++ (if pen_has UNDERLINE_MASK pn then [SetUnderline] else [])
          ++ (if pen_has BLINK_MASK pn then [SetBlink] else [])
          ++ (if pen_has INVERSE_MASK pn then [SetInverse] else [])
          ++ (if pen_has STRIKETHROUGH_MASK pn then [SetStrikethrough] else []))
    with (attr_ops (attrs pn)).
  rewrite !fold_left_app, attr_fold by exact HA.
  destruct pn as [fg bg it a]. cbn [foreground background intensity Types.attrs].
  destruct fg, bg, it; reflexivity.
Qed.
Print Assumptions pen_ops_rebuild.
