(** Property C11, terminal level: the first three segments of the dump script (primary view,
    tab stops, primary saved context + pen reset) replayed on a fresh terminal. *)

From Coq Require Import Lia ZArith ZifyBool ZifyNat ZifyN String.
From Avt Require Import Model.Vt Spec.Screen Oracles.Rel Proofs.Inv Proofs.ParserInv Proofs.Tabs
  Proofs.Frames Proofs.InvTerm Proofs.StepC17 Proofs.PenInv Proofs.DumpParserEmits
  Proofs.DumpRowsList Proofs.DumpRows Proofs.InvStep Proofs.PenInvProofs
  Proofs.DumpScriptBase Proofs.DumpScriptExec Proofs.DumpScriptSim Proofs.DumpScriptSeg.
Ltac Zify.zify_post_hook ::= Z.div_mod_to_equations.
Local Open Scope nat_scope.

Lemma Sim_new c r : 1 <= c -> 1 <= r -> Sim (vt_new c r None) (term_new_gen c r None).
Proof.
  intros Hc Hr. split; [split; [apply init_parser_PInv|reflexivity]|].
  split; [apply term_new_TInv; assumption|apply R0_refl].
Qed.

Lemma view_buffer_new c r l p :
  view (buffer_new c r l p)
  = repeat (blank_line c (match p with Some p => p | None => default_pen end)) r.
Proof.
  unfold view, sb_len, buffer_new. cbn [lines brows]. rewrite repeat_length, Nat.sub_diag. reflexivity.
Qed.

(** s2 *)
Definition fs_s2 (c : nat) (tb : list nat) : list func :=
  if negb (list_nat_eqb tb (tabs_new c)) then fs_tabs tb else [].

Lemma emits_s2 c tb :
  (N.of_nat c <= 65534)%N -> TabsInv c tb ->
  emits (if negb (list_nat_eqb tb (tabs_new c)) then
           CSI :: str "5W" ++ flat_map (fun tb => CSI :: show_nat (tb + 1) ++ [96; ESC; 91; 87]%N) tb
         else [])
        (fs_s2 c tb).
Proof.
  intros Hc [_ Hb]. unfold fs_s2. apply emits_if. apply emits_tabs.
  rewrite Forall_forall in *. intros x Hx. specialize (Hb x Hx). cbn beta in Hb. lia.
Qed.

Lemma pure_s2 E tb :
  TabsInv (cols E) tb -> tabs E = tabs_new (cols E) ->
  exists x z, foldM execute (fs_s2 (cols E) tb) E
              = Ok (E <| tabs := tb |> <| cur_col := x |> <| pend := z |>).
Proof.
  intros HI Ht. unfold fs_s2. destruct (list_nat_eqb tb (tabs_new (cols E))) eqn:D; cbn [negb].
  - apply (list_eqb_eq Nat.eqb) in D; [|intros a b H; apply Nat.eqb_eq, H].
    exists (cur_col E), (pend E). cbn [foldM]. rewrite D, <- Ht. destruct E; reflexivity.
  - apply pure_tabs, HI.
Qed.

Theorem sim_head c r PB pc tb s1 :
  1 <= c -> 1 <= r -> (N.of_nat c <= 65534)%N -> (N.of_nat r <= 65535)%N ->
  BGeom PB -> bcols PB = c -> brows PB = r ->
  printable_view (view PB) -> lines_wf (view PB) -> last_not_wrapped (view PB) ->
  TabsInv c tb -> sc_col pc < c -> sc_row pc < r -> pen_wf (sc_pen pc) ->
  buf_dump PB = Ok s1 ->
  exists v3 B1 x y z,
    feed_chars (vt_new c r None)
      (s1
       ++ (if negb (list_nat_eqb tb (tabs_new c)) then
             CSI :: str "5W" ++ flat_map (fun tb => CSI :: show_nat (tb + 1) ++ [96; ESC; 91; 87]%N) tb
           else [])
       ++ dump_ctx pc ++ [ESC; 91; 109]%N) = Ok v3
    /\ Sim v3 (mkTerm c r B1 (buffer_new c r (Some 0%N) None) Primary None x y true default_pen
                      CsAscii CsAscii 0 tb false false true false false z 0 (r - 1)
                      pc default_ctx (dirty_new r) false)
    /\ view B1 = view PB /\ bcols B1 = c /\ brows B1 = r /\ BGeom B1.
Proof.
  intros Hc Hr Hc2 Hr2 HG Hbc Hbr Hpv Hwf Hlnw Htb Hpc1 Hpc2 Hpen D.
  (* s1 *)
  destruct (sim_bufdump PB s1 (vt_new c r None) (term_new_gen c r None) (Sim_new c r Hc Hr) HG
              ltac:(rewrite Hbc; lia) Hpv Hwf Hlnw)
    as (v1 & B1 & x1 & y1 & z1 & p1 & F1 & S1 & V1 & G1 & G2 & G3);
    try reflexivity; try (symmetry; assumption); try exact D.
  { unfold term_new_gen. rsimp. apply view_buffer_new. }
  (* s2 *)
  set (E1 := term_new_gen c r None <| buf := B1 |> <| cur_col := x1 |> <| cur_row := y1 |>
               <| pend := z1 |> <| tpen := p1 |>) in *.
  destruct (pure_s2 E1 tb Htb ltac:(reflexivity)) as (x2 & z2 & P2).
  destruct (sim_emits _ _ v1 E1 _ (emits_s2 c tb Hc2 Htb) S1 P2) as (v2 & F2 & S2).
  (* s3 *)
  set (E2 := E1 <| tabs := tb |> <| cur_col := x2 |> <| pend := z2 |>) in *.
  destruct (pure_ctx E2 pc) as (x3 & y3 & z3 & p3 & P3); try reflexivity; try exact Hpen.
  assert (Em : emits (dump_ctx pc ++ [ESC; 91; 109]%N) (fs_ctx pc ++ [Sgr [Reset]])).
  { apply emits_app; [|apply emits_sgr_reset]. apply emits_ctx; [exact Hpen|lia|lia]. }
  set (E3 := E2 <| sctx := clamp_ctx pc (cols E2) (rows E2) |> <| cur_col := x3 |> <| cur_row := y3 |>
               <| pend := z3 |> <| tpen := p3 |>) in *.
  assert (P3' : foldM execute (fs_ctx pc ++ [Sgr [Reset]]) E2 = Ok (E3 <| tpen := default_pen |>)).
  { eapply foldM_app_ok; [exact P3|]. rewrite foldM_one, x_sgr. reflexivity. }
  destruct (sim_emits _ _ v2 E2 _ Em S2 P3') as (v3 & F3 & S3).
  exists v3, B1, x3, y3, z3. split.
  - apply (sim_app _ _ _ v1 _ F1). apply (sim_app _ _ _ v2 _ F2). exact F3.
  - split; [|split; [exact V1|split; [rewrite G1; exact Hbc|split; [rewrite G2; exact Hbr|exact G3]]]].
    assert (Ecl : clamp_ctx pc (cols E2) (rows E2) = pc).
    { apply clamp_id; change (cols E2) with c; change (rows E2) with r; lia. }
    assert (Eq : E3 <| tpen := default_pen |>
                 = mkTerm c r B1 (buffer_new c r (Some 0%N) None) Primary None x3 y3 true default_pen
                      CsAscii CsAscii 0 tb false false true false false z3 0 (r - 1)
                      pc default_ctx (dirty_new r) false).
    { subst E3. rewrite Ecl. reflexivity. }
    rewrite <- Eq. exact S3.
Qed.
Print Assumptions sim_head.
