(** C01 ("never panics"), C02 ("geometry invariants after every call") and C13
    ("scrollback bound"): the assembly.  [Inv] (Proofs/Inv.v) holds for [vt_new], is kept by
    every public call ([Feed], [Flush], [Resize]), no call panics under it, and the executable
    statements [holds_C02_state], [holds_C02_call], [holds_C13] follow from it. *)

From Avt Require Import Model.Prims Model.Terminal Model.Vt Spec.Screen Oracles.Step Proofs.Inv
  Proofs.ListLemmasS Proofs.BufRow Proofs.BufScroll Proofs.TermEasy
  Proofs.InvLemmas Proofs.InvCtl Proofs.InvTerm Proofs.ParserInv Proofs.SpecPrint.
From Avt Require Import Gen.Consts.
Require Import Lia ZArith ZifyBool ZifyNat ZifyN.
Ltac Zify.zify_post_hook ::= Z.div_mod_to_equations.

(** * 1-2. [print] and [execute] never panic and keep [TInv] *)

Theorem print_TInv : forall t c, TInv t -> exists t', print t c = Ok t' /\ TInv t'.
Proof.
  intros t c H. destruct (C04_print t c H) as (t' & E & _ & I). cbn [execute] in E. eauto.
Qed.
Print Assumptions print_TInv.

Theorem execute_ok : forall t f, TInv t -> exists t', execute t f = Ok t' /\ TInv t'.
Proof. exact (execute_TInv print_TInv). Qed.
Print Assumptions execute_ok.

(** * 3. construction *)

Theorem vt_new_Inv : forall c r l, 1 <= c -> 1 <= r -> Inv (vt_new c r l).
Proof.
  intros c r l Hc Hr. split; cbn [vt_new vparser vterm].
  - apply init_parser_PInv.
  - apply term_new_TInv; assumption.
Qed.
Print Assumptions vt_new_Inv.

(** * 4. [Vt::feed] *)

Theorem vt_feed_Inv : forall v c, Inv v -> exists v', vt_feed v c = Ok v' /\ Inv v'.
Proof.
  intros v c [HP HT]. unfold vt_feed.
  destruct (feedM_total (vparser v) c HP) as (p' & f & E).
  pose proof (feedM_PInv _ _ _ _ HP E) as HP'. rewrite E. cbn [bind].
  destruct f as [f|].
  - destruct (execute_ok (vterm v) f HT) as (t' & E' & HT'). rewrite E'. cbn [bind].
    eexists; split; [reflexivity|]. split; assumption.
  - eexists; split; [reflexivity|]. split; assumption.
Qed.
Print Assumptions vt_feed_Inv.

(** [vt_feed] touches the terminal only through [execute] *)
Lemma vt_feed_inv v c v' :
  vt_feed v c = Ok v' ->
  vterm v' = vterm v \/ exists f, execute (vterm v) f = Ok (vterm v').
Proof.
  unfold vt_feed. destruct (feedM (vparser v) c) as [[p f]|s]; cbn [bind]; [|discriminate].
  destruct f as [f|].
  - destruct (execute (vterm v) f) as [t'|s] eqn:E; cbn [bind]; [|discriminate].
    intros X. injection X as <-. right. exists f. exact E.
  - intros X. injection X as <-. left. reflexivity.
Qed.

(** * 5. one public call *)

(** what [vt_flush] leaves alone *)
Lemma vt_flush_frame v v' o :
  vt_flush v = Ok (v', o) ->
  vparser v' = vparser v /\ cols (vterm v') = cols (vterm v) /\ rows (vterm v') = rows (vterm v)
  /\ active (vterm v') = active (vterm v) /\ sb_limit (vterm v') = sb_limit (vterm v).
Proof.
  unfold vt_flush, changes, term_gc. rsimp.
  destruct (buf_gc (buf (vterm v))) as [[b d]|s]; cbn [bind]; [|discriminate]. rsimp.
  destruct v as [p t]. cbn [vterm vparser set].
  destruct (active t) eqn:Ea; intros X; injection X as <- <-; cbn [vterm vparser]; rsimp; auto.
Qed.

Theorem vt_flush_Inv : forall v,
  Inv v ->
  exists v' o, vt_flush v = Ok (v', o) /\ Inv v'
    /\ cols (vterm v') = cols (vterm v) /\ rows (vterm v') = rows (vterm v)
    /\ strictly_increasing_below (rows (vterm v')) None (o_lines o) = true.
Proof.
  intros v [HP HT]. destruct (vt_flush_TInv v HT) as (v' & o & E & HT' & EP & _ & S).
  destruct (vt_flush_frame v v' o E) as (_ & C & R & _).
  exists v', o. split; [exact E|]. split; [split; [rewrite EP; exact HP|exact HT']|].
  split; [exact C|]. split; [exact R|]. rewrite R. exact S.
Qed.

Definition step_post (o : op) (v' : vt) (ou : out) : Prop :=
  match o with
  | Feed _ => True
  | Flush => strictly_increasing_below (rows (vterm v')) None (o_lines ou) = true
  | Resize c r => cols (vterm v') = c /\ rows (vterm v') = r
                  /\ strictly_increasing_below (rows (vterm v')) None (o_lines ou) = true
  end.

Theorem stepM_Inv_post : forall v o,
  Inv v -> op_ok o -> exists v' out, stepM v o = Ok (v', out) /\ Inv v' /\ step_post o v' out.
Proof.
  intros v o HI Ho. destruct o as [c| |c r]; cbn [stepM step_post].
  - destruct (vt_feed_Inv v c HI) as (v' & E & HI'). rewrite E. cbn [bind].
    exists v', no_out. auto.
  - destruct (vt_flush_Inv v HI) as (v' & ou & E & HI' & _ & _ & S).
    exists v', ou. auto.
  - destruct HI as [HP HT]. destruct Ho as [Hc Hr].
    destruct (term_resize_TInv (vterm v) c r HT Hc Hr) as (t' & E & HT' & C & R).
    rewrite E. cbn [bind].
    assert (HI1 : Inv (v <| vterm := t' |>)).
    { destruct v as [p t]. split; cbn [set vparser vterm]; assumption. }
    destruct (vt_flush_Inv _ HI1) as (v' & ou & E' & HI' & C' & R' & S).
    exists v', ou. split; [exact E'|]. split; [exact HI'|].
    assert (Et : vterm (v <| vterm := t' |>) = t') by (destruct v; reflexivity).
    rewrite Et in C', R'. split; [congruence|]. split; [congruence|exact S].
Qed.
Print Assumptions stepM_Inv_post.

(** the form asked for: invariant only *)
Theorem stepM_Inv : forall v o,
  Inv v -> op_ok o -> exists v' out, stepM v o = Ok (v', out) /\ Inv v'.
Proof.
  intros v o HI Ho. destruct (stepM_Inv_post v o HI Ho) as (v' & ou & E & HI' & _). eauto.
Qed.
Print Assumptions stepM_Inv.

(** ** C02, as executable statements *)

Theorem C02_state_holds : forall v, Inv v -> holds_C02_state v = true.
Proof.
  intros v [_ HT]. unfold holds_C02_state. destruct (TInv_geom_ok _ HT) as [-> ->]. reflexivity.
Qed.
Print Assumptions C02_state_holds.

Theorem C02_call_holds : forall v o v' out,
  Inv v -> op_ok o -> stepM v o = Ok (v', out) ->
  match o with Feed _ => True | _ => holds_C02_call o v' (o_lines out) = true end.
Proof.
  intros v o v' ou HI Ho E.
  destruct (stepM_Inv_post v o HI Ho) as (v1 & ou1 & E1 & HI1 & P). rewrite E in E1.
  injection E1 as <- <-. destruct o as [c| |c r]; [exact I| |]; cbn [step_post] in P;
    unfold holds_C02_call; rewrite (C02_state_holds v' HI1).
  - rewrite P. reflexivity.
  - destruct P as (C & R & S). rewrite S, C, R, !Nat.eqb_refl. reflexivity.
Qed.
Print Assumptions C02_call_holds.

(** * 6. whole runs *)

Theorem runM_Inv : forall ops v,
  Inv v -> Forall op_ok ops -> exists v', runM v ops = Ok v' /\ Inv v'.
Proof.
  induction ops as [|o ops IH]; intros v HI HF; cbn [runM].
  - exists v. auto.
  - inversion HF as [|? ? Ho HF']; subst.
    destruct (stepM_Inv v o HI Ho) as (v1 & ou & E & HI1). rewrite E. cbn [bind fst].
    apply IH; assumption.
Qed.
Print Assumptions runM_Inv.

Theorem C01_no_panic : forall c r l ops,
  1 <= c -> 1 <= r -> Forall op_ok ops -> exists v, runM (vt_new c r l) ops = Ok v /\ Inv v.
Proof. intros c r l ops Hc Hr HF. apply runM_Inv; [apply vt_new_Inv; assumption|exact HF]. Qed.
Print Assumptions C01_no_panic.

(** C02 for whole runs: every state reached through the public API passes the geometry check *)
Theorem C02_run : forall c r l ops v,
  1 <= c -> 1 <= r -> Forall op_ok ops -> runM (vt_new c r l) ops = Ok v -> holds_C02_state v = true.
Proof.
  intros c r l ops v Hc Hr HF E. destruct (C01_no_panic c r l ops Hc Hr HF) as (v1 & E1 & HI).
  rewrite E in E1. injection E1 as <-. apply C02_state_holds, HI.
Qed.
Print Assumptions C02_run.

Theorem feed_chars_Inv : forall s v, Inv v -> exists v', feed_chars v s = Ok v' /\ Inv v'.
Proof.
  induction s as [|c s IH]; intros v HI; cbn [feed_chars].
  - exists v. auto.
  - destruct (vt_feed_Inv v c HI) as (v1 & E & HI1). rewrite E. cbn [bind]. apply IH, HI1.
Qed.

Theorem feed_str_Inv : forall v s, Inv v -> exists v' o, feed_str v s = Ok (v', o) /\ Inv v'.
Proof.
  intros v s HI. unfold feed_str. destruct (feed_chars_Inv s v HI) as (v1 & E & HI1).
  rewrite E. cbn [bind]. destruct (vt_flush_Inv v1 HI1) as (v' & o & E' & HI' & _). eauto.
Qed.
Print Assumptions feed_str_Inv.

(** * 8. C13: the scrollback-limit invariant through [print] *)

Lemma bind_ok {A B} (m : res A) (k : A -> res B) r :
  bind m k = Ok r -> exists x, m = Ok x /\ k x = Ok r.
Proof. destruct m; cbn [bind]; [eauto|discriminate]. Qed.

(** what every buffer step of [print] does to the data [LimInv] reads: the limit is kept, and
    either the lazy-trim flag is set or flag and scrollback length are kept.  (Unlike [BFrame]
    this does not mention [last_not_wrapped], which [buf_wrap] on the last row breaks until
    the following [scroll_up].)  All facts here are unconditional: they hold whenever the
    operation returns [Ok]. *)
Definition BR (b b' : buffer) : Prop :=
  blimit b' = blimit b
  /\ (trim_needed b' = true \/ (trim_needed b' = trim_needed b /\ sb_len b' = sb_len b)).

Lemma BR_refl b : BR b b.
Proof. split; [reflexivity|right; split; reflexivity]. Qed.

Lemma BR_trans a b c : BR a b -> BR b c -> BR a c.
Proof.
  intros [L1 H1] [L2 H2]. split; [congruence|].
  destruct H2 as [H2|[T2 S2]]; [left; exact H2|].
  destruct H1 as [H1|[T1 S1]]; [left; congruence|right; split; congruence].
Qed.

Lemma BR_LimInv b b' : BR b b' -> LimInv b -> LimInv b'.
Proof.
  intros [L [H|[T S]]] Hl; [left; exact H|]. eapply LimInv_frame; eassumption.
Qed.

Lemma with_row_BR b r f b' : with_row b r f = Ok b' -> BR b b'.
Proof.
  unfold with_row. destruct (view_ok b && (r <? brows b)); [|discriminate].
  destruct (nth_error (lines b) (sb_len b + r)) as [l|]; [|discriminate].
  intros E. apply bind_ok in E as (l' & _ & E). injection E as <-.
  split; [reflexivity|]. right. split; [reflexivity|].
  unfold sb_len. rsimp. rewrite upd_length. reflexivity.
Qed.

Lemma with_view_blimit b ok f b' : with_view b ok f = Ok b' -> blimit b' = blimit b.
Proof.
  unfold with_view. destruct (view_ok b && ok); [|discriminate].
  intros E. injection E as <-. reflexivity.
Qed.

Lemma buf_clear_blimit b a z p b' : buf_clear b a z p = Ok b' -> blimit b' = blimit b.
Proof. apply with_view_blimit. Qed.

Lemma buf_scroll_up_BR b a z n p b' : buf_scroll_up b a z n p = Ok b' -> BR b b'.
Proof.
  unfold buf_scroll_up. intros E.
  apply bind_ok in E as (u & _ & E). apply bind_ok in E as (b1 & E1 & E).
  apply bind_ok in E as (b2 & E2 & E). injection E as <-.
  split; [|left; reflexivity]. change (blimit b2 = blimit b).
  assert (L1 : blimit b1 = blimit b).
  { destruct (z - 1 <? brows b - 1); [apply with_row_BR in E1; apply E1|].
    injection E1 as <-. reflexivity. }
  rewrite <- L1. clear E1 L1.
  destruct (a =? 0).
  - destruct (z =? brows b1); [injection E2 as <-; reflexivity|].
    apply bind_ok in E2 as (u1 & _ & E2). apply bind_ok in E2 as (u2 & _ & E2).
    injection E2 as <-. reflexivity.
  - apply bind_ok in E2 as (c1 & F1 & E2). apply bind_ok in E2 as (c2 & F2 & E2).
    apply with_row_BR in F1. apply with_view_blimit in F2. apply buf_clear_blimit in E2.
    destruct F1 as [F1 _]. congruence.
Qed.

Lemma buf_wrap_BR b r b' : buf_wrap b r = Ok b' -> BR b b'.
Proof. apply with_row_BR. Qed.

Lemma buf_print_BR b c r x b' : buf_print b c r x = Ok b' -> BR b b'.
Proof. apply with_row_BR. Qed.

Lemma buf_insert_BR b c r n x b' : buf_insert b c r n x = Ok b' -> BR b b'.
Proof.
  unfold buf_insert. intros E. apply bind_ok in E as (u & _ & E). eapply with_row_BR, E.
Qed.

(** the same one level up: [other] untouched, [buf] related by [BR] *)
Definition Fr (t t' : term) : Prop := other t' = other t /\ BR (buf t) (buf t').

Lemma Fr_refl t : Fr t t.
Proof. split; [reflexivity|apply BR_refl]. Qed.

Lemma Fr_trans a b c : Fr a b -> Fr b c -> Fr a c.
Proof. intros [O1 B1] [O2 B2]. split; [congruence|eapply BR_trans; eassumption]. Qed.

Lemma Fr_same t t' : buf t' = buf t -> other t' = other t -> Fr t t'.
Proof. intros Eb Eo. split; [exact Eo|rewrite Eb; apply BR_refl]. Qed.

Lemma Fr_Lim2 t t' : Fr t t' -> Lim2 t -> Lim2 t'.
Proof.
  intros [O B] [L1 L2]. split; [eapply BR_LimInv; eassumption|rewrite O; exact L2].
Qed.

Lemma on_buf_Fr t f t' :
  (forall b', f (buf t) = Ok b' -> BR (buf t) b') -> on_buf t f = Ok t' -> Fr t t'.
Proof.
  intros Hf E. unfold on_buf in E. apply bind_ok in E as (b' & Eb & E). injection E as <-.
  split; [reflexivity|]. rsimp. apply Hf, Eb.
Qed.

Lemma mark_Fr t n t' : mark t n = Ok t' -> Fr t t'.
Proof.
  unfold mark. intros E. apply bind_ok in E as (d & _ & E). injection E as <-.
  apply Fr_same; reflexivity.
Qed.

Lemma mark_range_Fr t a z t' : mark_range t a z = Ok t' -> Fr t t'.
Proof.
  unfold mark_range. intros E. apply bind_ok in E as (d & _ & E). injection E as <-.
  apply Fr_same; reflexivity.
Qed.

Lemma scroll_up_in_region_Fr t n t' : scroll_up_in_region t n = Ok t' -> Fr t t'.
Proof.
  unfold scroll_up_in_region. intros E. apply bind_ok in E as (t1 & E1 & E2).
  apply on_buf_Fr in E1; [|intros b'; apply buf_scroll_up_BR].
  apply mark_range_Fr in E2. eapply Fr_trans; eassumption.
Qed.

Lemma wrap_m_Fr t t' : wrap_m t = Ok t' -> Fr t t'.
Proof.
  unfold wrap_m. destruct (awm t && pend t); [|intros X; injection X as <-; apply Fr_refl].
  cbv zeta. set (t0 := do_move_cursor_to_col t 0).
  assert (F0 : Fr t t0) by (apply Fr_same; reflexivity).
  destruct (cur_row t0 =? bot t0).
  - intros E. apply bind_ok in E as (t1 & E1 & E2).
    apply on_buf_Fr in E1; [|intros b'; apply buf_wrap_BR].
    apply scroll_up_in_region_Fr in E2.
    eapply Fr_trans; [exact F0|]. eapply Fr_trans; eassumption.
  - destruct (cur_row t0 <? rows t0 - 1).
    + intros E. apply bind_ok in E as (t1 & E1 & E2). injection E2 as <-.
      apply on_buf_Fr in E1; [|intros b'; apply buf_wrap_BR].
      eapply Fr_trans; [exact F0|]. eapply Fr_trans; [exact E1|]. apply Fr_same; reflexivity.
    + intros X. injection X as <-. exact F0.
Qed.

Lemma write_m_Fr t cl t' : write_m t cl = Ok t' -> Fr t t'.
Proof.
  unfold write_m. cbv zeta. destruct (cols t <=? cur_col t + 1).
  - intros E. apply bind_ok in E as (t1 & E1 & E2).
    apply on_buf_Fr in E1; [|intros b'; apply buf_print_BR].
    eapply Fr_trans; [exact E1|].
    destruct (awm t1); injection E2 as <-; [apply Fr_same; reflexivity|apply Fr_refl].
  - intros E. apply bind_ok in E as (t1 & E1 & E2). injection E2 as <-.
    eapply Fr_trans; [|apply Fr_same; reflexivity].
    destruct (ins t); (apply on_buf_Fr in E1; [exact E1|]); intros b'.
    + apply buf_insert_BR.
    + apply buf_print_BR.
Qed.

Theorem print_Fr t c t' : print t c = Ok t' -> Fr t t'.
Proof.
  rewrite print_eq. intros E.
  apply bind_ok in E as (cs & _ & E). apply bind_ok in E as (c' & _ & E).
  apply bind_ok in E as (t1 & E1 & E). apply bind_ok in E as (t2 & E2 & E).
  apply wrap_m_Fr in E1. apply write_m_Fr in E2. apply mark_Fr in E.
  eapply Fr_trans; [exact E1|]. eapply Fr_trans; eassumption.
Qed.

Theorem print_TInvL : forall t c, TInvL t -> exists t', print t c = Ok t' /\ TInvL t'.
Proof.
  intros t c [H L]. destruct (print_TInv t c H) as (t' & E & I).
  exists t'. split; [exact E|]. split; [exact I|].
  apply (Fr_Lim2 t t'); [apply (print_Fr t c), E|exact L].
Qed.
Print Assumptions print_TInvL.

Theorem execute_okL : forall t f, TInvL t -> exists t', execute t f = Ok t' /\ TInvL t'.
Proof. exact (execute_TInvL print_TInvL). Qed.
Print Assumptions execute_okL.

(** ** one call *)

Lemma vt_feed_TInvL v c v' : TInvL (vterm v) -> vt_feed v c = Ok v' -> TInvL (vterm v').
Proof.
  intros L E. destruct (vt_feed_inv v c v' E) as [->|(f & Ef)]; [exact L|].
  destruct (execute_okL (vterm v) f L) as (t' & Et & L'). congruence.
Qed.

Lemma vt_flush_TInvL v v' o :
  TInvL (vterm v) -> vt_flush v = Ok (v', o) ->
  TInvL (vterm v') /\ sb_bound (buf (vterm v')).
Proof.
  intros L E. pose proof (changes_TInvL _ L) as L1.
  destruct (term_gc_TInvL _ L1) as (t' & d & Eg & L' & _ & B).
  unfold vt_flush in E. unfold changes in *. cbn [fst] in *. rewrite Eg in E. cbn [bind] in E.
  injection E as <- _. destruct v as [p t]. cbn [set vterm]. auto.
Qed.

(** after [gc] the bound of [holds_C13] holds *)
Lemma holds_C13_bound v : TInv (vterm v) -> sb_bound (buf (vterm v)) -> holds_C13 v = true.
Proof.
  intros H B. unfold holds_C13. set (t := vterm v) in *.
  pose proof (ti_limit _ H) as Hl. pose proof (ti_brows _ H) as Hbr.
  pose proof (ti_buf _ H) as [(_ & _ & Hlen & _) _].
  unfold sb_bound, sb_len in B.
  destruct (active t); destruct Hl as [Hl _]; rewrite Hl in B.
  - destruct (sb_limit t) as [l|]; [|reflexivity]. cbn [limit_of] in B. unfold hard_of in B.
    apply andb_true_intro. split; [lia|]. destruct (N.eqb_spec l 0); [|reflexivity]. lia.
  - cbn [limit_of] in B. unfold hard_of in B. lia.
Qed.

(** inversion of [stepM] (stated on the goal side: a [cbn in]/[unfold in] step on a hypothesis
    makes the kernel re-check the step by conversion, which here evaluates [term_resize]: 40 s) *)
Lemma stepM_feed_inv v c v' ou : stepM v (Feed c) = Ok (v', ou) -> vt_feed v c = Ok v'.
Proof.
  unfold stepM. intros E. apply bind_ok in E as (v1 & E1 & E). injection E as <- _. exact E1.
Qed.

Lemma stepM_flush_inv v v' ou : stepM v Flush = Ok (v', ou) -> vt_flush v = Ok (v', ou).
Proof. unfold stepM. intros E. exact E. Qed.

Lemma stepM_resize_inv v c r v' ou :
  stepM v (Resize c r) = Ok (v', ou) ->
  exists t1, term_resize (vterm v) c r = Ok t1 /\ vt_flush (v <| vterm := t1 |>) = Ok (v', ou).
Proof. unfold stepM. intros E. apply bind_ok in E as (t1 & E1 & E). eauto. Qed.

Theorem C13_bound : forall v o v' out,
  Inv v -> TInvL (vterm v) -> op_ok o -> stepM v o = Ok (v', out) ->
  match o with
  | Feed _ => TInvL (vterm v')
  | _ => TInvL (vterm v') /\ holds_C13 v' = true
  end.
Proof.
  intros v o v' ou HI L Ho E. destruct o as [c| |c r].
  - apply stepM_feed_inv in E. eapply vt_feed_TInvL; eassumption.
  - apply stepM_flush_inv in E.
    destruct (vt_flush_TInvL v v' ou L E) as [L' B]. split; [exact L'|].
    apply holds_C13_bound; [apply L'|exact B].
  - destruct Ho as [Hc Hr]. apply stepM_resize_inv in E as (t1 & E1 & E).
    destruct (term_resize_TInvL (vterm v) c r L Hc Hr) as (t1' & E1' & L1 & _).
    rewrite E1 in E1'. injection E1' as <-.
    assert (L1' : TInvL (vterm (v <| vterm := t1 |>))) by (destruct v; exact L1).
    destruct (vt_flush_TInvL _ v' ou L1' E) as [L' B]. split; [exact L'|].
    apply holds_C13_bound; [apply L'|exact B].
Qed.
Print Assumptions C13_bound.

(** ** whole runs *)

Lemma vt_new_TInvL c r l : 1 <= c -> 1 <= r -> TInvL (vterm (vt_new c r l)).
Proof. intros Hc Hr. cbn [vt_new vterm]. apply term_new_TInvL; assumption. Qed.

Lemma stepM_InvL v o v' ou :
  Inv v -> TInvL (vterm v) -> op_ok o -> stepM v o = Ok (v', ou) -> Inv v' /\ TInvL (vterm v').
Proof.
  intros HI L Ho E. split.
  - destruct (stepM_Inv v o HI Ho) as (v1 & ou1 & E1 & HI1). congruence.
  - pose proof (C13_bound v o v' ou HI L Ho E) as P. destruct o; [exact P|apply P|apply P].
Qed.

Theorem runM_InvL : forall ops v v',
  Inv v -> TInvL (vterm v) -> Forall op_ok ops -> runM v ops = Ok v' ->
  Inv v' /\ TInvL (vterm v').
Proof.
  induction ops as [|o ops IH]; intros v v' HI L HF E; cbn [runM] in E.
  - injection E as <-. auto.
  - inversion HF as [|? ? Ho HF']; subst.
    apply bind_ok in E as ([v1 ou] & E1 & E). cbn [fst] in E.
    destruct (stepM_InvL v o v1 ou HI L Ho E1) as [HI1 L1]. eapply IH; eassumption.
Qed.

Lemma runM_app a : forall b v, runM v (a ++ b) = (v1 <- runM v a ;; runM v1 b).
Proof.
  induction a as [|o a IH]; intros b v; cbn [app runM bind]; [reflexivity|].
  destruct (stepM v o) as [x|s]; cbn [bind]; [apply IH|reflexivity].
Qed.

Theorem C13_run : forall c r l ops v,
  1 <= c -> 1 <= r -> Forall op_ok ops -> runM (vt_new c r l) ops = Ok v -> TInvL (vterm v).
Proof.
  intros c r l ops v Hc Hr HF E.
  apply (runM_InvL ops (vt_new c r l) v); try assumption.
  - apply vt_new_Inv; assumption.
  - apply vt_new_TInvL; assumption.
Qed.
Print Assumptions C13_run.

(** a run that ends with a reporting call ([Flush] = [feed_str], or [Resize]) ends within the bound *)
Theorem C13_run_last : forall c r l ops o v,
  1 <= c -> 1 <= r -> Forall op_ok (ops ++ [o]) ->
  match o with Feed _ => False | _ => True end ->
  runM (vt_new c r l) (ops ++ [o]) = Ok v -> holds_C13 v = true.
Proof.
  intros c r l ops o v Hc Hr HF Hlast E.
  apply Forall_app in HF as [HF Ho]. inversion Ho as [|? ? Ho' _]; subst.
  rewrite runM_app in E. apply bind_ok in E as (v1 & E1 & E). cbn [runM] in E.
  apply bind_ok in E as ([v2 ou] & E2 & E). cbn [fst] in E. injection E as <-.
  destruct (runM_InvL ops (vt_new c r l) v1) as [HI1 L1]; try assumption.
  { apply vt_new_Inv; assumption. }
  { apply vt_new_TInvL; assumption. }
  pose proof (C13_bound v1 o v2 ou HI1 L1 Ho' E2) as P.
  destruct o; [contradiction|apply P|apply P].
Qed.
Print Assumptions C13_run_last.

(** * 7. the queries never panic under [Inv] *)

Theorem vt_view_ok : forall v, Inv v -> vt_view v = Ok (view (buf (vterm v))).
Proof.
  intros v [_ HT]. unfold vt_view, viewM. rewrite (view_ok_true _ (proj1 (ti_buf _ HT))). reflexivity.
Qed.
Print Assumptions vt_view_ok.

Theorem vt_line_ok : forall v n,
  Inv v -> n < rows (vterm v) ->
  vt_line v n = Ok (row_at (view (buf (vterm v))) n)
  /\ length (cells (row_at (view (buf (vterm v))) n)) = cols (vterm v).
Proof.
  intros v n [_ HT] Hn. pose proof (proj1 (ti_buf _ HT)) as G.
  rewrite <- (ti_brows _ HT) in Hn. split.
  - apply get_row_spec; assumption.
  - rewrite <- (ti_bcols _ HT). apply (view_row_LineInv _ _ G Hn).
Qed.
Print Assumptions vt_line_ok.

(** ** [Vt::dump] *)

Lemma bind_ex {A B} (m : res A) (k : A -> res B) :
  (exists x, m = Ok x /\ exists r, k x = Ok r) -> exists r, bind m k = Ok r.
Proof. intros (x & -> & r & E). exists r. exact E. Qed.

(** [Line::chunks] never yields an empty chunk *)
Lemma chunks_go_ne : forall l cur, Forall (fun ck => ck <> []) (chunks_go cur l).
Proof.
  assert (R : forall (c : cell) cur, rev (c :: cur) <> []).
  { intros c cur E. apply (f_equal (@length _)) in E. rewrite rev_length in E. discriminate E. }
  induction l as [|c r IH]; intros cur; cbn [chunks_go].
  - destruct cur as [|x cur]; constructor; [apply R|constructor].
  - destruct cur as [|x cur]; [apply IH|].
    destruct (negb (pen_eqb (cpen x) (cpen c))); [|apply IH].
    constructor; [apply R|apply IH].
Qed.

Lemma chunks_ne l : Forall (fun ck => ck <> []) (chunks l).
Proof. apply chunks_go_ne. Qed.

Lemma dump_chunks_ok : forall cks p,
  Forall (fun ck => ck <> []) cks -> exists r, dump_chunks cks p = Ok r.
Proof.
  induction cks as [|ck cks IH]; intros p HF; cbn [dump_chunks]; [eauto|].
  inversion HF as [|? ? Hne HF']; subst. destruct ck as [|c0 ck]; [congruence|].
  destruct (if negb (pen_eqb (cpen c0) p) then (pen_dump (cpen c0), cpen c0) else ([], p))
    as [pre p'].
  cbn [rep_encode bind]. destruct (IH p' HF') as ([rest p''] & E). rewrite E. cbn [bind]. eauto.
Qed.

Lemma dump_rows_ok : forall v i last p, exists s, dump_rows v i last p = Ok s.
Proof.
  induction v as [|l v IH]; intros i last p; cbn [dump_rows]; [eauto|].
  destruct (dump_chunks_ok (chunks l) p (chunks_ne l)) as ([s p'] & E). rewrite E. cbn [bind].
  destruct (IH (S i) last p') as (rest & E'). rewrite E'. cbn [bind]. eauto.
Qed.

Lemma buf_dump_ok b : BGeom b -> exists s, buf_dump b = Ok s.
Proof.
  intros G. unfold buf_dump, viewM. rewrite (view_ok_true b G). cbn [bind].
  destruct G as (_ & Hr & _). destruct (Nat.leb_spec 1 (brows b)) as [_|]; [|lia].
  cbn [guard bind]. apply dump_rows_ok.
Qed.

Lemma TInv_buffers t : TInv t -> BGeom (primary_buffer t) /\ BGeom (alternate_buffer t).
Proof.
  intros H. pose proof (proj1 (ti_buf _ H)). pose proof (proj1 (ti_other _ H)).
  unfold primary_buffer, alternate_buffer. destruct (active t); auto.
Qed.

Theorem term_dump_ok t : TInv t -> exists s, term_dump t = Ok s.
Proof.
  intros H. destruct (TInv_buffers t H) as [G1 G2]. tfacts H. pose proof (proj1 (ti_buf _ H)) as G.
  unfold term_dump.
  assert (K : forall (x : saved_ctx * saved_ctx) (k : saved_ctx * saved_ctx -> res (list N)),
             (forall a b, exists s, k (a, b) = Ok s) -> exists s, (let '(a, b) := x in k (a, b)) = Ok s).
  { intros [a b] k Hk. apply Hk. }
  match goal with |- exists s, (let '(a, b) := ?x in @?k a b) = Ok s =>
    apply (K x (fun ab => k (fst ab) (snd ab))) end.
  intros pc ac. cbn [fst snd].
  apply bind_ex. destruct (buf_dump_ok _ G1) as (s1 & E1). exists s1. split; [exact E1|].
  cbv zeta. apply bind_ex.
  match goal with |- exists x, ?m = Ok x /\ _ => assert (E4 : exists x, m = Ok x) end.
  { destruct (is_alt t); [|eauto]. destruct (buf_dump_ok _ G2) as (d & Ed). rewrite Ed.
    cbn [bind]. eauto. }
  destruct E4 as (s4 & E4). exists s4. split; [exact E4|].
  apply bind_ex.
  match goal with |- exists x, ?m = Ok x /\ _ => assert (E9 : exists x, m = Ok x) end.
  { destruct (cols t <=? cur_col t); [|eauto].
    rewrite (get_row_spec (buf t) (cur_row t) G) by lia. cbn [bind].
    pose proof (view_row_LineInv (buf t) (cur_row t) G ltac:(lia)) as Hl. unfold LineInv in Hl.
    destruct (nth_error (cells (row_at (view (buf t)) (cur_row t))) (cols t - 1)) as [c|] eqn:En;
      [eauto|]. apply nth_error_None in En. lia. }
  destruct E9 as (s9 & E9). exists s9. split; [exact E9|]. eauto.
Qed.
Print Assumptions term_dump_ok.

Theorem vt_dump_ok : forall v, Inv v -> exists s, vt_dump v = Ok s.
Proof.
  intros v [HP HT]. unfold vt_dump. destruct (term_dump_ok _ HT) as (a & Ea). rewrite Ea.
  cbn [bind]. unfold parser_dumpM. destruct HP as (L & C & _). rewrite L.
  destruct (Nat.ltb_spec (cur_param (vparser v)) PARAMS_LEN) as [_|]; [|lia]. cbn [bind]. eauto.
Qed.
Print Assumptions vt_dump_ok.
