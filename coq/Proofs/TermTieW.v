(** The tie for the methods of [impl Terminal] that mix scalar logic with calls into buffer / tabs /
    dirty lines and need answers back from them (W-mode functions of Gen/TermFns.v).

    A W-mode function [w_f O s w args] threads the scalar record [s : zt] and an abstract non-scalar world
    [w : W] behind the interface [O : zops W]: [op_ev] performs a call, the [q_*] fields answer queries.
    Here the interface is instantiated with the model: [W := term] (its scalar fields zeroed by [wabs]),
    [op_ev := run_ev] (the model's own primitives), queries := the model's [tabs_after], [tabs_before],
    [get_row]/[nth_error], [bcols], [translate].  One equation per function:

      [w_f Om (zabs t) (wabs t) args = wres (f t args)]

    i.e. the regenerated Rust code, run on the abstraction of [t] with the model's primitives, performs the
    same primitive calls with the same arguments in the same order, panics exactly when the model panics,
    never underflows / casts a negative number ([ok = true]) and ends in the abstraction of the model's
    result.  The equations compose (loops by induction). *)

From Coq Require Import Lia ZArith ZifyBool ZifyNat ZifyN.
From Avt Require Import Oracles.Step Proofs.Inv Proofs.TermEasy Gen.TermFns Proofs.TermTie Proofs.InvStep.
Ltac Zify.zify_post_hook ::= Z.div_mod_to_equations.
Local Open Scope Z_scope.

Definition ores {A} (r : res A) : option A := match r with Ok a => Some a | Panic _ => None end.

Definition zzero : zt := {|
  z_cols := 0; z_rows := 0; z_col := 0; z_row := 0; z_pend := false; z_top := 0; z_bot := 0;
  z_org := false; z_nlm := false; z_acs := 0; z_cs0 := CsAscii; z_cs1 := CsAscii; z_ins := false;
  z_awm := false; z_vis := false; z_ckm := false; z_ev := []
|}.

(** the non-scalar part of a terminal: the scalar fields are zeroed *)
Definition wabs (t : term) : term := zput zzero t.

(** the methods taken as one opaque step: the model's own functions on the recombined terminal *)
Definition full_model (x : zfull) (t : term) : res term :=
  match x with
  | XSaveCursor => Ok (save_cursor t)
  | XRestoreCursor => Ok (restore_cursor t)
  | XSoftReset => Ok (soft_reset_gen t)
  | XHardReset => Ok (hard_reset_gen t)
  | XSwitchAlt => switch_to_alternate_buffer t
  | XSwitchPrimary => switch_to_primary_buffer t
  | XReflow => reflow t
  | XSgr ops => Ok (sgr t ops)
  | XXtwinops op => xtwinops t op
  end.

(** [zput] under a name that the normalisation tactic leaves folded *)
Definition zput_opaque := zput.

Definition Om : zops term := {|
  op_ev := fun w e => ores (run_ev w e);
  op_full := fun x s w =>
    match full_model x (zput_opaque s w) with Ok t' => Some (zabs t', wabs t') | Panic _ => None end;
  q_tabs_after := fun w c n =>
    ores (o <- tabs_after (tabs w) (Z.to_nat c) (Z.to_nat n) ;; Ok (option_map Z.of_nat o));
  q_tabs_before := fun w c n =>
    ores (o <- tabs_before (tabs w) (Z.to_nat c) (Z.to_nat n) ;; Ok (option_map Z.of_nat o));
  q_buf_char := fun w c r =>
    ores (l <- get_row (buf w) (Z.to_nat r) ;;
          match nth_error (cells l) (Z.to_nat c) with
          | Some x => Ok (Z.of_N (ch x))
          | None => Panic 72
          end);
  q_buf_cols := fun w => Z.of_nat (bcols (buf w));
  q_translate := fun cs c => ores (c' <- translate cs (Z.to_N c) ;; Ok (Z.of_N c'));
  op_buf_resize := fun w c r cc cr =>
    ores ('(b, (x, y)) <- buf_resize (buf w) (Z.to_nat c) (Z.to_nat r) (Z.to_nat cc) (Z.to_nat cr) ;;
          Ok (w <| buf := b |>, (Z.of_nat x, Z.of_nat y)));
  q_sctx_col := fun w => Z.of_nat (sc_col (sctx w));
  q_sctx_row := fun w => Z.of_nat (sc_row (sctx w));
  q_sctx_org := fun w => sc_origin (sctx w);
  q_sctx_awm := fun w => sc_awm (sctx w);
  q_xtw := fun w => xtw w;
  q_active := fun w => active w
|}.

Definition wres (r : res term) : option (zt * term * bool) :=
  match r with Ok t' => Some (zabs t', wabs t', true) | Panic _ => None end.

(** the scalar facts the side conditions need; preserved by every control function *)
Definition ZW (t : term) : Prop := (1 <= cols t /\ 1 <= rows t /\ acs t <= 1)%nat.

Lemma TInv_ZW t : TInv t -> ZW t.
Proof. intros H. destruct H. repeat split; assumption. Qed.

Lemma z2n_ofN n : Z.to_nat (Z.of_N n) = N.to_nat n.
Proof. lia. Qed.

(** normalise everything except arithmetic and the model's primitives (call-by-need) *)
Ltac nrm_w :=
  lazy -[Z.add Z.sub Z.opp Z.mul Z.leb Z.ltb Z.eqb Z.min Z.max Z.of_nat Z.of_N Z.to_nat Z.to_N Z.le Z.lt
         N.eqb N.to_nat Nat.sub Nat.add Nat.min Nat.max Nat.leb Nat.ltb Nat.eqb Nat.lt andb orb negb
         buf_scroll_up buf_scroll_down buf_print buf_insert buf_delete buf_erase buf_wrap
         dirty_extend dirty_add tabs_set tabs_unset tabs_after tabs_before translate get_row nth_error
         buf_resize dirty_resize buffer_new tabs_contract tabs_expand Z.compare Nat.compare
         full_model zput_opaque wres zabs wabs].

Ltac z2n_w :=
  repeat first [ rewrite Nat2Z.id | rewrite N2Z.id | rewrite z2n_ofN | rewrite z2n_succ
               | rewrite z2n_pred by lia
               | progress change (Z.to_nat 1) with 1%nat | progress change (Z.to_nat 0) with 0%nat ].

(** split on the result of a primitive call, innermost first *)
Ltac brk_w :=
  match goal with
  | |- context [match ?m with Ok _ => _ | Panic _ => _ end] =>
    lazymatch m with
    | Ok _ => fail
    | Panic _ => fail
    | context [match _ with Ok _ => _ | Panic _ => _ end] => fail
    | context [if _ then _ else _] => fail
    | _ => destruct m eqn:?
    end
  | |- context [match ?m with Some _ => _ | None => _ end] =>
    lazymatch m with
    | Some _ => fail
    | None => fail
    | context [match _ with Ok _ => _ | Panic _ => _ end] => fail
    | context [match _ with Some _ => _ | None => _ end] => fail
    | context [if _ then _ else _] => fail
    | _ => destruct m eqn:?
    end
  end.

(** one split on an [if], innermost condition first *)
Ltac brk1 :=
  match goal with
  | |- context [if ?b then _ else _] =>
    lazymatch b with
    | context [if _ then _ else _] => fail
    | _ => destruct b eqn:?
    end
  end.

(** make the two sides' calls of the same primitive syntactically equal when [lia] can equate the arguments *)
Ltac same_calls :=
  repeat match goal with
         | |- context [match ?m1 with Ok _ => _ | Panic _ => _ end] =>
           match goal with
           | |- context [match ?m2 with Ok _ => _ | Panic _ => _ end] =>
             tryif constr_eq m1 m2 then fail else
               (let E := fresh in
                assert (E : m2 = m1) by (f_equal; try reflexivity; try lia; f_equal; try reflexivity; lia);
                rewrite E; clear E)
           end
         end.

(** split on a three-way comparison *)
Ltac brk_cmp :=
  match goal with
  | |- context [match (?a ?= ?b)%Z with Eq => _ | Lt => _ | Gt => _ end] => destruct (Z.compare_spec a b)
  | |- context [match (?a ?= ?b)%nat with Eq => _ | Lt => _ | Gt => _ end] => destruct (Nat.compare_spec a b)
  end.

Ltac split_pairs :=
  repeat match goal with
         | p : (buffer * (nat * nat))%type |- _ => destruct p as [? [? ?]]
         end.

(** equality of records (possibly nested) whose fields differ by arithmetic *)
Ltac flds := first [ reflexivity | lia | progress f_equal; flds ].

Ltac w_fin :=
  first [ reflexivity
        | exfalso; lia
        | f_equal; repeat (apply pair_equal_spec; split); flds ].

Ltac w_loop :=
  unfold wres, zabs, wabs; nrm_w; z2n_w;
  repeat (first [ brk1 | brk_cmp | same_calls; brk_w ]; split_pairs; try (exfalso; lia); nrm_w; z2n_w);
  w_fin.

Ltac w_tie2 H :=
  let a := fresh "Hcols" in let b := fresh "Hrows" in let c := fresh "Hacs" in
  destruct H as (a & b & c);
  cbn [Types.cols Types.rows Types.acs] in a, b, c;
  w_loop.

Ltac w_tie t H := destruct t; w_tie2 H.

Lemma w_ich_eq t n : ZW t -> w_ich Om (zabs t) (wabs t) (Z.of_N n) = wres (ich t n).
Proof. intros H. w_tie t H. Qed.

Lemma w_dch_eq t n : ZW t -> w_dch Om (zabs t) (wabs t) (Z.of_N n) = wres (dch t n).
Proof. intros H. w_tie t H. Qed.

Lemma w_ech_eq t n : ZW t -> w_ech Om (zabs t) (wabs t) (Z.of_N n) = wres (ech t n).
Proof. intros H. w_tie t H. Qed.

Lemma w_ed_eq t sc : ZW t -> w_ed Om (zabs t) (wabs t) sc = wres (ed t sc).
Proof. intros H. destruct sc; w_tie t H. Qed.

Lemma w_el_eq t sc : ZW t -> w_el Om (zabs t) (wabs t) sc = wres (el t sc).
Proof. intros H. destruct sc; w_tie t H. Qed.

Lemma w_ctc_eq t op : ZW t -> w_ctc Om (zabs t) (wabs t) op = wres (Ok (ctc t op)).
Proof. intros H. destruct op; w_tie t H. Qed.

Lemma w_tbc_eq t sc : ZW t -> w_tbc Om (zabs t) (wabs t) sc = wres (Ok (tbc t sc)).
Proof. intros H. destruct sc; w_tie t H. Qed.

Lemma w_move_cursor_to_next_tab_eq t n : ZW t ->
  w_move_cursor_to_next_tab Om (zabs t) (wabs t) (Z.of_nat n) = wres (move_cursor_to_next_tab t n).
Proof. intros H. w_tie t H. Qed.

Lemma w_move_cursor_to_prev_tab_eq t n : ZW t ->
  w_move_cursor_to_prev_tab Om (zabs t) (wabs t) (Z.of_nat n) = wres (move_cursor_to_prev_tab t n).
Proof. intros H. w_tie t H. Qed.

Lemma w_ht_eq t : ZW t -> w_ht Om (zabs t) (wabs t) = wres (move_cursor_to_next_tab t 1).
Proof. intros H. w_tie t H. Qed.

Lemma w_cht_eq t n : ZW t ->
  w_cht Om (zabs t) (wabs t) (Z.of_N n) = wres (move_cursor_to_next_tab t (as_usize n 1)).
Proof. intros H. w_tie t H. Qed.

Lemma w_cbt_eq t n : ZW t ->
  w_cbt Om (zabs t) (wabs t) (Z.of_N n) = wres (move_cursor_to_prev_tab t (as_usize n 1)).
Proof. intros H. w_tie t H. Qed.

Lemma w_print_eq t c : ZW t -> w_print Om (zabs t) (wabs t) (Z.of_N c) = wres (print t c).
Proof.
  intros H. assert (Ha : (acs t <= 1)%nat) by apply H.
  destruct t. cbn [Types.acs] in Ha. destruct acs as [|[|acs]]; [| |lia].
  - w_tie2 H.
  - w_tie2 H.
Qed.

(** * loops *)

(** a W-mode loop whose body is tied to a model step is tied to the model's fold *)
Lemma zfor_tie {B C : Type} (g : C -> B) (l : list C)
      (body : B -> zt * term * bool -> option (zt * term * bool)) (step : term -> C -> res term)
      (P : term -> Prop) :
  (forall t x, P t -> body (g x) (zabs t, wabs t, true) = wres (step t x)) ->
  (forall t x t', P t -> step t x = Ok t' -> P t') ->
  forall t, P t -> zfor (map g l) body (zabs t, wabs t, true) = wres (foldM step l t).
Proof.
  intros Hb Hp. induction l as [|x l IH]; intros t Ht; cbn [map zfor foldM].
  - reflexivity.
  - rewrite Hb by exact Ht. unfold bind. destruct (step t x) as [t1|c] eqn:E; cbn [wres zb].
    + apply IH. exact (Hp t x t1 Ht E).
    + reflexivity.
Qed.

Lemma foldM_pure {A B} (f : A -> B -> A) l : forall a, foldM (fun a x => Ok (f a x)) l a = Ok (fold_left f l a).
Proof. induction l as [|x l IH]; intros a; cbn [foldM fold_left]; [reflexivity|]. unfold bind. apply IH. Qed.

Lemma zrange_0 k : zrange 0 (Z.of_nat k) = map (fun i => 0 + Z.of_nat i) (seq 0 k).
Proof. unfold zrange. replace (Z.to_nat (Z.of_nat k - 0)) with k by lia. reflexivity. Qed.

Lemma ZW_same t t' : cols t' = cols t -> rows t' = rows t -> acs t' = acs t -> ZW t -> ZW t'.
Proof. unfold ZW. intros -> -> ->. exact (fun H => H). Qed.

(** ** SM / RM *)
Lemma w_sm_eq t ms : ZW t -> w_sm Om (zabs t) (wabs t) ms = wres (Ok (fold_left sm_one ms t)).
Proof.
  intros H. unfold w_sm. rewrite <- foldM_pure.
  rewrite <- (map_id ms) at 1.
  rewrite (zfor_tie (fun x => x) ms _ (fun t m => Ok (sm_one t m)) (fun _ => True)).
  - destruct (foldM _ ms t); reflexivity.
  - intros t0 m _. destruct t0, m; reflexivity.
  - trivial.
  - trivial.
Qed.

Lemma w_rm_eq t ms : ZW t -> w_rm Om (zabs t) (wabs t) ms = wres (Ok (fold_left rm_one ms t)).
Proof.
  intros H. unfold w_rm. rewrite <- foldM_pure.
  rewrite <- (map_id ms) at 1.
  rewrite (zfor_tie (fun x => x) ms _ (fun t m => Ok (rm_one t m)) (fun _ => True)).
  - destruct (foldM _ ms t); reflexivity.
  - intros t0 m _. destruct t0, m; reflexivity.
  - trivial.
  - trivial.
Qed.

(** ** REP *)
Lemma print_n_foldM n : forall t c k, print_n n t c = foldM (fun t (_ : nat) => print t c) (seq k n) t.
Proof.
  induction n as [|n IH]; intros t c k; cbn [print_n seq foldM]; [reflexivity|].
  unfold bind. destruct (print t c); [apply IH | reflexivity].
Qed.

Lemma g_as_usize_1 n : g_as_usize (Z.of_N n) 1 = (Z.of_nat (as_usize n 1), true).
Proof. exact (g_as_usize_eq n 1). Qed.

Lemma wabs_buf t : buf (wabs t) = buf t.
Proof. destruct t; reflexivity. Qed.

Lemma w_rep_eq t n : TInv t -> w_rep Om (zabs t) (wabs t) (Z.of_N n) = wres (rep t n).
Proof.
  intros H. unfold w_rep, rep. rewrite g_as_usize_1.
  change (z_col (zabs t)) with (Z.of_nat (cur_col t)). change (z_row (zabs t)) with (Z.of_nat (cur_row t)).
  cbn [fst snd].
  destruct (Nat.ltb_spec 0 (cur_col t)) as [Hc|Hc];
    destruct (Z.ltb_spec 0 (Z.of_nat (cur_col t))) as [Hc'|Hc']; try lia.
  2: { destruct t; reflexivity. }
  unfold q_buf_char at 1. cbn [Om]. rewrite wabs_buf.
  replace (Z.to_nat (Z.of_nat (cur_row t))) with (cur_row t) by lia.
  replace (Z.to_nat (Z.of_nat (cur_col t) - 1)) with (cur_col t - 1)%nat by lia.
  unfold bind. destruct (get_row (buf t) (cur_row t)) as [l|e]; cbn [ores zb]; [|reflexivity].
  destruct (nth_error (cells l) (cur_col t - 1)) as [x|]; cbn [ores zb]; [|reflexivity].
  rewrite zrange_0.
  replace (true && true && (1 <=? Z.of_nat (cur_col t))) with true by lia.
  rewrite (zfor_tie (fun i => 0 + Z.of_nat i) (seq 0 (as_usize n 1)) _ (fun t (_ : nat) => print t (ch x)) TInv).
  - rewrite <- print_n_foldM. destruct (print_n (as_usize n 1) t (ch x)); reflexivity.
  - intros t0 i H0. rewrite (w_print_eq t0 (ch x) (TInv_ZW t0 H0)).
    destruct (print t0 (ch x)); reflexivity.
  - intros t0 i t1 H0 E. destruct (print_TInv t0 (ch x) H0) as (t2 & E2 & H2). congruence.
  - exact H.
Qed.

(** ** DECALN *)
Lemma on_buf_decaln_cols r n : forall t k,
  foldM (fun t c => on_buf t (fun b => buf_print b c r (mkCell 69 default_pen))) (seq k n) t
  = on_buf t (fun b => decaln_cols b r n k).
Proof.
  induction n as [|n IH]; intros t k; cbn [seq foldM decaln_cols].
  - destruct t; reflexivity.
  - unfold on_buf at 1 3. unfold bind.
    destruct (buf_print (buf t) k r {| ch := 69; cpen := default_pen |}) as [b|e]; [|reflexivity].
    rewrite IH. destruct t; reflexivity.
Qed.

Lemma decaln_rows_foldM n : forall t k,
  decaln_rows t n k
  = foldM (fun t r => t <- on_buf t (fun b => decaln_cols b r (cols t) 0) ;; mark t r) (seq k n) t.
Proof.
  induction n as [|n IH]; intros t k; cbn [decaln_rows seq foldM]; [reflexivity|].
  unfold bind. destruct (on_buf t _) as [t1|e]; [|reflexivity].
  destruct (mark t1 k) as [t2|e]; [apply IH | reflexivity].
Qed.

Lemma w_decaln_cell t c r :
  zb (op_ev Om (wabs t) (EvBufPrint (0 + Z.of_nat c) (0 + Z.of_nat r) (ZCellChar 69)))
     (fun w => Some (zabs t, w, true))
  = wres (on_buf t (fun b => buf_print b c r (mkCell 69 default_pen))).
Proof. destruct t. w_loop. Qed.

Lemma w_decaln_mark t r :
  zb (op_ev Om (wabs t) (EvDirtyAdd (0 + Z.of_nat r))) (fun w => Some (zabs t, w, true)) = wres (mark t r).
Proof. destruct t. w_loop. Qed.

Lemma w_decaln_eq t : ZW t -> w_decaln Om (zabs t) (wabs t) = wres (decaln t).
Proof.
  intros _. unfold w_decaln, decaln. cbn [fst snd].
  change (z_rows (zabs t)) with (Z.of_nat (rows t)). rewrite zrange_0, decaln_rows_foldM.
  rewrite (zfor_tie (fun i => 0 + Z.of_nat i) (seq 0 (rows t)) _
             (fun t r => t <- on_buf t (fun b => decaln_cols b r (cols t) 0) ;; mark t r) (fun _ => True)).
  - destruct (foldM _ (seq 0 (rows t)) t); reflexivity.
  - intros t0 r _. change (z_cols (zabs t0)) with (Z.of_nat (cols t0)). rewrite zrange_0.
    rewrite (zfor_tie (fun i => 0 + Z.of_nat i) (seq 0 (cols t0)) _
               (fun t c => on_buf t (fun b => buf_print b c r (mkCell 69 default_pen))) (fun _ => True)).
    + rewrite on_buf_decaln_cols. unfold bind.
      destruct (on_buf t0 _) as [t1|e]; cbn [wres zb]; [|reflexivity]. apply w_decaln_mark.
    + intros t1 c _. apply w_decaln_cell.
    + trivial.
    + trivial.
  - trivial.
  - trivial.
Qed.

(** * save / restore cursor, buffer switching, reflow *)
Lemma w_save_cursor_eq t : ZW t -> w_save_cursor Om (zabs t) (wabs t) = wres (Ok (save_cursor t)).
Proof. intros H. w_tie t H. Qed.

Lemma w_restore_cursor_eq t : ZW t -> w_restore_cursor Om (zabs t) (wabs t) = wres (Ok (restore_cursor t)).
Proof. intros H. w_tie t H. Qed.

Lemma w_switch_to_alternate_buffer_eq t : ZW t ->
  w_switch_to_alternate_buffer Om (zabs t) (wabs t) = wres (switch_to_alternate_buffer t).
Proof. intros H. w_tie t H. Qed.

Lemma w_switch_to_primary_buffer_eq t : ZW t ->
  w_switch_to_primary_buffer Om (zabs t) (wabs t) = wres (switch_to_primary_buffer t).
Proof. intros H. w_tie t H. Qed.

Lemma w_reflow_eq t : ZW t -> w_reflow Om (zabs t) (wabs t) = wres (reflow t).
Proof. intros H. w_tie t H. Qed.

(** the scalar facts survive these steps *)
Lemma ZW_save t : ZW t -> ZW (save_cursor t).
Proof. destruct t. exact (fun H => H). Qed.
Lemma ZW_restore t : ZW t -> ZW (restore_cursor t).
Proof. destruct t. exact (fun H => H). Qed.
Lemma ZW_switch_alt t t' : ZW t -> switch_to_alternate_buffer t = Ok t' -> ZW t'.
Proof.
  destruct t. unfold switch_to_alternate_buffer, mark_range, bind. destruct active; cbn.
  - destruct (dirty_extend _ _ _); intros H E; [|discriminate]. injection E as <-. exact H.
  - intros H E. injection E as <-. exact H.
Qed.
Lemma ZW_switch_pri t t' : ZW t -> switch_to_primary_buffer t = Ok t' -> ZW t'.
Proof.
  destruct t. unfold switch_to_primary_buffer, mark_range, bind. destruct active; cbn.
  - intros H E. injection E as <-. exact H.
  - destruct (dirty_extend _ _ _); intros H E; [|discriminate]. injection E as <-. exact H.
Qed.

(** * opaque steps, DECSET / DECRST *)
Lemma zput_zabs_wabs t : zput (zabs t) (wabs t) = t.
Proof. destruct t. unfold zput, zabs, wabs, zzero. nrm_w. z2n_w. reflexivity. Qed.

Lemma op_full_eq x t :
  op_full Om x (zabs t) (wabs t)
  = match full_model x t with Ok t' => Some (zabs t', wabs t') | Panic _ => None end.
Proof. cbn [op_full Om]. unfold zput_opaque. rewrite zput_zabs_wabs. reflexivity. Qed.

Ltac full_steps :=
  unfold bind;
  repeat (rewrite op_full_eq; cbn [full_model];
          try match goal with
              | |- ?L = _ =>
                match L with
                | context [zb (match ?m with Ok _ => _ | Panic _ => _ end) _] =>
                  lazymatch m with Ok _ => fail | _ => destruct m end
                end
              end;
          cbn [zb]);
  cbn [wres]; reflexivity.

Lemma w_sc_eq t : ZW t -> w_sc Om (zabs t) (wabs t) = wres (Ok (save_cursor t)).
Proof. intros H. unfold w_sc. rewrite w_save_cursor_eq by exact H. reflexivity. Qed.
Lemma w_rc_eq t : ZW t -> w_rc Om (zabs t) (wabs t) = wres (Ok (restore_cursor t)).
Proof. intros H. unfold w_rc. rewrite w_restore_cursor_eq by exact H. reflexivity. Qed.
Lemma w_ris_eq t : w_ris Om (zabs t) (wabs t) = wres (Ok (hard_reset_gen t)).
Proof. unfold w_ris. full_steps. Qed.
Lemma w_decstr_eq t : w_decstr Om (zabs t) (wabs t) = wres (Ok (soft_reset_gen t)).
Proof. unfold w_decstr. full_steps. Qed.

Lemma step_TInv (one : term -> dec_mode -> res term) (mk : list dec_mode -> func) :
  (forall t ms, execute t (mk ms) = foldM one ms t) ->
  forall t m t', TInv t -> one t m = Ok t' -> TInv t'.
Proof.
  intros Hx t m t' H E. destruct (execute_ok t (mk [m]) H) as (t2 & E2 & H2).
  rewrite Hx in E2. cbn [foldM] in E2. unfold bind in E2. rewrite E in E2. congruence.
Qed.

(** one composed step: rewrite with a tie equation, split on the model's result *)
Ltac cstep L :=
  rewrite L by eauto using ZW_save, ZW_restore, ZW_switch_alt, ZW_switch_pri; unfold bind; cbn [wres zb];
  try match goal with
      | |- ?L = _ =>
        match L with
        | context [match ?m with Ok _ => _ | Panic _ => _ end] =>
          lazymatch m with Ok _ => fail | _ => destruct m eqn:? end
        | context [wres ?m] =>
          lazymatch m with Ok _ => fail | _ => destruct m eqn:? end
        end
      end;
  cbn [wres zb]; try reflexivity.

Lemma w_decset_eq t ms : TInv t -> w_decset Om (zabs t) (wabs t) ms = wres (foldM decset_one ms t).
Proof.
  intros HT. unfold w_decset. rewrite <- (map_id ms) at 1.
  rewrite (zfor_tie (fun x => x) ms _ decset_one TInv).
  - destruct (foldM decset_one ms t); reflexivity.
  - intros t0 m H0. pose proof (TInv_ZW t0 H0) as H.
    destruct m; cbn [decset_one].
    1-4: w_tie t0 H.
    + cstep w_switch_to_alternate_buffer_eq. cstep w_reflow_eq.
    + cstep w_save_cursor_eq.
    + cstep w_save_cursor_eq. cstep w_switch_to_alternate_buffer_eq. cstep w_reflow_eq.
  - exact (step_TInv decset_one Decset (fun _ _ => eq_refl)).
  - exact HT.
Qed.

Lemma w_decrst_eq t ms : TInv t -> w_decrst Om (zabs t) (wabs t) ms = wres (foldM decrst_one ms t).
Proof.
  intros HT. unfold w_decrst. rewrite <- (map_id ms) at 1.
  rewrite (zfor_tie (fun x => x) ms _ decrst_one TInv).
  - destruct (foldM decrst_one ms t); reflexivity.
  - intros t0 m H0. pose proof (TInv_ZW t0 H0) as H.
    destruct m; cbn [decrst_one].
    1-4: w_tie t0 H.
    + cstep w_switch_to_primary_buffer_eq. cstep w_reflow_eq.
    + cstep w_restore_cursor_eq.
    + cstep w_switch_to_primary_buffer_eq. cstep w_restore_cursor_eq. cstep w_reflow_eq.
  - exact (step_TInv decrst_one Decrst (fun _ _ => eq_refl)).
  - exact HT.
Qed.

(** * RESIZE (public) and XTWINOPS *)
Definition wres_flag (r : res term) (b : bool) : option (zt * term * bool * bool) :=
  match r with Ok t' => Some (zabs t', wabs t', true, b) | Panic _ => None end.

(** as [nrm_w], but the reflow step stays folded on both sides *)
Ltac nrm_c :=
  lazy -[Z.add Z.sub Z.opp Z.mul Z.leb Z.ltb Z.eqb Z.min Z.max Z.of_nat Z.of_N Z.to_nat Z.to_N Z.le Z.lt
         N.eqb N.to_nat Nat.sub Nat.add Nat.min Nat.max Nat.leb Nat.ltb Nat.eqb Nat.lt andb orb negb
         buf_scroll_up buf_scroll_down buf_print buf_insert buf_delete buf_erase buf_wrap
         dirty_extend dirty_add tabs_set tabs_unset tabs_after tabs_before translate get_row nth_error
         buf_resize dirty_resize buffer_new tabs_contract tabs_expand Z.compare Nat.compare
         full_model zput_opaque wres zabs wabs w_reflow reflow wres_flag].

Lemma w_resize_eq t c r : ZW t -> (1 <= c)%nat -> (1 <= r)%nat ->
  w_resize Om (zabs t) (wabs t) (Z.of_nat c) (Z.of_nat r)
  = wres_flag (term_resize t c r) (negb ((c =? cols t)%nat && (r =? rows t)%nat)).
Proof.
  intros H Hc Hr. destruct t. destruct H as (Hcols & Hrows & Hacs).
  cbn [Types.cols Types.rows Types.acs] in Hcols, Hrows, Hacs.
  unfold w_resize, term_resize, zabs, wabs. nrm_c.
  repeat (first [ brk1 | brk_cmp ]; try (exfalso; lia); nrm_c).
  all: match goal with
       | |- context [w_reflow ?O ?S ?W] =>
         match goal with
         | |- context [reflow ?T] =>
           change (w_reflow O S W) with (w_reflow Om S W);
           replace S with (zabs T) by (unfold zabs; nrm_w; z2n_w; flds);
           replace W with (wabs T) by (unfold wabs; nrm_w; z2n_w; flds);
           rewrite (w_reflow_eq T) by (unfold ZW; cbn [Types.cols Types.rows Types.acs]; lia)
         end
       end; unfold wres_flag; destruct (reflow _); cbn [wres]; nrm_c; flds.
Qed.

Lemma as_usize_pos n d : (1 <= d)%nat -> (1 <= as_usize n d)%nat.
Proof. unfold as_usize, as_usize_gen. destruct (N.eqb_spec n 0); lia. Qed.

Lemma w_xtwinops_eq t op : ZW t -> w_xtwinops Om (zabs t) (wabs t) op = wres (xtwinops t op).
Proof.
  intros H. unfold w_xtwinops, xtwinops.
  replace (q_xtw Om (wabs t)) with (xtw t) by (destruct t; reflexivity).
  destruct (xtw t); [|destruct t; reflexivity].
  destruct op as [c r]. cbv beta iota zeta.
  change (z_cols (zabs t)) with (Z.of_nat (cols t)). change (z_rows (zabs t)) with (Z.of_nat (rows t)).
  rewrite !g_as_usize_eq. cbn [fst snd].
  rewrite w_resize_eq by (first [ exact H | apply as_usize_pos, H ]).
  unfold wres_flag. destruct (term_resize t _ _); reflexivity.
Qed.

(** the public resize operation of the Vt layer ([Vt::resize(c, r)]) *)
Theorem tie_resize_op : forall v c r, ZW (vterm v) -> (1 <= c)%nat -> (1 <= r)%nat ->
  match w_resize Om (zabs (vterm v)) (wabs (vterm v)) (Z.of_nat c) (Z.of_nat r) with
  | Some (s, w, ok, _) => ok = true /\ stepM v (Resize c r) = vt_flush (v <| vterm := zput s w |>)
  | None => exists e, stepM v (Resize c r) = Panic e
  end.
Proof.
  intros v c r H Hc Hr. rewrite w_resize_eq by assumption. unfold wres_flag. cbn [stepM]. unfold bind.
  destruct (term_resize (vterm v) c r) as [t'|e].
  - split; [reflexivity|]. rewrite zput_zabs_wabs. reflexivity.
  - exists e. reflexivity.
Qed.
Print Assumptions tie_resize_op.
