(** The tie for the methods of [impl Terminal] that mix scalar logic with calls into buffer / tabs /
    dirty lines and need answers back from them (W-mode functions of Gen/TermFns.v).

    A W-mode function [w_f O s w args] threads the scalar record [s : zt] and an abstract non-scalar world
    [w : W] behind the interface [O : zops W]: [op_ev] performs a call, the [q_*] fields answer queries.
    Here the interface is instantiated with the model: [W := term] (its scalar fields zeroed by [wabs]),
    [op_ev := run_ev] (the model's own primitives), queries := the model's [tabs_after], [tabs_before],
    [get_row]/[nth_error], [bcols], [translate].  One equation per function:

      [w_f Om (zabs t) (wabs t) args = wres (f t args)]

    i.e. the regenerated Rust code, run on the abstraction of [t] with the model's primitives, performs the
    same primitive calls with the same arguments in the same order, panics exactly when the model panics,
    never underflows / casts a negative number ([ok = true]) and ends in the abstraction of the model's
    result.  The equations compose (loops by induction). *)

(* The proofs live in Proofs/TermTieW_Core.v (definitions, tactics, generic lemmas) and in independent leaf files
   that compile in parallel; this file only re-exports them. *)
From Avt Require Export Proofs.TermTieW_Core Proofs.TermTieW_Edit Proofs.TermTieW_Tabs Proofs.TermTieW_Print
  Proofs.TermTieW_Switch Proofs.TermTieW_Reflow Proofs.TermTieW_Modes Proofs.TermTieW_ResizeGen Proofs.TermTieW_Resize.
