(** The frame parts of C06 (scrollback / other buffer / margins) and C08 for every command
    other than SGR, for every model step from every state satisfying [TInv]. *)

From Coq Require Import Lia ZArith ZifyBool ZifyNat ZifyN.
From Avt Require Import Oracles.Step Proofs.Inv Proofs.TermEasy Proofs.VisEq Proofs.Frames.

Theorem C06_frame_holds : forall t f t',
  TInv t -> execute t f = Ok t' ->
  (may_touch_scrollback f = false ->
   lines_eqb (tsb t) (tsb t') = true /\ buffer_vis_eqb (other t) (other t') = true)
  /\ (match f with
      | Decstbm _ _ | Decstr | Ris | Decset _ | Decrst _ | Xtwinops _ => True
      | _ => top t = top t' /\ bot t = bot t'
      end).
Proof.
  intros t f t' _ H. split.
  - intros Hm. split.
    + unfold tsb. rewrite (bfr_sb _ _ (scrollback_frame t f t' Hm H)). apply lines_eqb_refl.
    + pose proof (other_frame t f t' H) as F.
      assert (E : other t' = other t) by (destruct f; try discriminate Hm; exact F).
      rewrite E. apply buffer_vis_eqb_refl.
  - pose proof (margins_frame t f t' H) as F.
    destruct f; try exact I; destruct F as [-> ->]; split; reflexivity.
Qed.

Print Assumptions C06_frame_holds.

(** the same, as the second and third boolean conjunct of [holds_C06] *)
Corollary C06_frame_bool : forall t f t',
  TInv t -> execute t f = Ok t' ->
  (if may_touch_scrollback f then true
   else lines_eqb (tsb t) (tsb t') && buffer_vis_eqb (other t) (other t'))
  && (match f with
      | Decstbm _ _ => true
      | Decstr | Ris | Decset _ | Decrst _ | Xtwinops _ => true
      | _ => (top t =? top t') && (bot t =? bot t')
      end) = true.
Proof.
  intros t f t' HT H. destruct (C06_frame_holds t f t' HT H) as [A B].
  apply andb_true_iff. split.
  - destruct (may_touch_scrollback f); [reflexivity|]. destruct (A eq_refl) as [-> ->]. reflexivity.
  - destruct f; try reflexivity; destruct B as [-> ->]; rewrite !Nat.eqb_refl; reflexivity.
Qed.

Print Assumptions C06_frame_bool.

Theorem C08_nonsgr_holds : forall p p' t f t',
  TInv t -> execute t f = Ok t' ->
  match f with Sgr _ => False | _ => True end ->
  holds_C08 (mkVt p t) f (mkVt p' t') = true.
Proof.
  intros p p' t f t' HT H Hf. pose proof (pen_frame t f t' (ti_xtw t HT) H) as F.
  unfold holds_C08. cbn [vterm].
  destruct f; try contradiction; try (rewrite F, pen_eqb_refl; reflexivity); apply orb_true_r.
Qed.

Print Assumptions C08_nonsgr_holds.
