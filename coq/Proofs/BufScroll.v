(** [Buffer::scroll_up], [Buffer::scroll_down] and [Buffer::gc] against the list-level
    specifications [spec_scroll_up] / [spec_scroll_down] of [Spec/Screen.v]. *)

From Avt Require Import Model.Prims Spec.Screen Proofs.Inv Proofs.ListLemmasS.
From Avt Require Import Gen.Consts.
Require Import Lia ZArith ZifyBool ZifyNat ZifyN.
Ltac Zify.zify_post_hook ::= Z.div_mod_to_equations.

Local Ltac len :=
  repeat (rewrite ?app_length, ?firstn_length, ?skipn_length, ?repeat_length, ?map_length,
                  ?upd_length); try lia.

(** * the buffer as scrollback ++ view *)

Lemma buf_decomp b :
  BGeom b ->
  lines b = firstn (sb_len b) (lines b) ++ view b
  /\ length (view b) = brows b
  /\ length (firstn (sb_len b) (lines b)) = sb_len b.
Proof.
  intros (_ & _ & Hr & _). unfold view, sb_len.
  rewrite firstn_skipn, firstn_length, skipn_length. repeat split; lia.
Qed.

Section Decomp.
  Variables (b : buffer) (sb v : list line).
  Hypothesis Hl : lines b = sb ++ v.
  Hypothesis Hv : length v = brows b.

  Lemma dec_sb_len : sb_len b = length sb.
  Proof. unfold sb_len. rewrite Hl, app_length. lia. Qed.

  Lemma dec_view_ok : view_ok b = true.
  Proof. unfold view_ok. rewrite Hl, app_length. lia. Qed.

  Lemma dec_view : view b = v.
  Proof. unfold view. rewrite dec_sb_len, Hl. apply skipn_app_exact. reflexivity. Qed.

  Lemma dec_sb : firstn (sb_len b) (lines b) = sb.
  Proof. rewrite dec_sb_len, Hl. apply firstn_app_exact. reflexivity. Qed.

  Lemma set_lines_id : b <| lines := sb ++ v |> = b.
  Proof. rewrite <- Hl. destruct b; reflexivity. Qed.

  Lemma with_row_unwrap r :
    r < brows b ->
    with_row b r (set_wrapped false) = Ok (b <| lines := sb ++ upd_row r unwrap v |>).
  Proof.
    intros Hr. unfold with_row. rewrite dec_view_ok.
    replace (r <? brows b) with true by lia. cbn [andb].
    rewrite dec_sb_len, Hl, nth_error_app_r.
    destruct (nth_error v r) as [x|] eqn:E.
    - unfold set_wrapped, bind. rewrite upd_app_r.
      rewrite (upd_const v r x (fun l => l <| wrapped := false |>) E). reflexivity.
    - apply nth_error_None in E. lia.
  Qed.

  Lemma with_view_app ok f :
    ok = true -> with_view b ok f = Ok (b <| lines := sb ++ f v |>).
  Proof.
    intros ->. unfold with_view. rewrite dec_view_ok, dec_sb, dec_view. reflexivity.
  Qed.

  Lemma buf_clear_app a z p :
    a <= z -> z <= brows b ->
    buf_clear b a z p = Ok (b <| lines := sb ++ fill_range a z (blank_line (bcols b) p) v |>).
  Proof.
    intros Haz Hz. unfold buf_clear. apply with_view_app. lia.
  Qed.
End Decomp.

(** * the specifications on pieces *)

Lemma spec_up_view_pieces (X B C D : list line) a z k bl :
  length X = a -> length B = k -> length C = z - a - k -> a + k <= z ->
  firstn a (X ++ B ++ C ++ D) ++ firstn (z - a - k) (skipn (a + k) (X ++ B ++ C ++ D))
    ++ repeat bl k ++ skipn z (X ++ B ++ C ++ D)
  = X ++ C ++ repeat bl k ++ D.
Proof.
  intros HX HB HC Hk.
  rewrite (firstn_app_exact _ _ _ HX).
  replace (skipn (a + k) (X ++ B ++ C ++ D)) with (C ++ D).
  2:{ rewrite (app_assoc X B). symmetry. apply skipn_app_exact. rewrite app_length. lia. }
  rewrite (firstn_app_exact _ _ _ HC).
  replace (skipn z (X ++ B ++ C ++ D)) with D; [reflexivity|].
  rewrite (app_assoc B C), (app_assoc X). symmetry. apply skipn_app_exact.
  rewrite !app_length. lia.
Qed.

(** the rows of the view after the two unwraps of [spec_scroll_up] *)
Definition up_v2 (a z : nat) (v : list line) : list line :=
  let v1 := if z <? length v then upd_row (z - 1) unwrap v else v in
  if 0 <? a then upd_row (a - 1) unwrap v1 else v1.

Lemma up_v2_length a z v : length (up_v2 a z v) = length v.
Proof.
  unfold up_v2, upd_row. destruct (0 <? a), (z <? length v); len.
Qed.

Lemma spec_scroll_up_eq a z n p nc v :
  spec_scroll_up a z n p nc v =
  (let k := Nat.min n (z - a) in
   let v2 := up_v2 a z v in
   (firstn a v2 ++ firstn (z - a - k) (skipn (a + k) v2) ++ repeat (blank_line nc p) k ++ skipn z v2,
    if a =? 0 then firstn k v2 else [])).
Proof. reflexivity. Qed.

(** * scroll_up *)

Lemma buf_scroll_up_eq b sb v a z n p :
  lines b = sb ++ v -> length v = brows b -> a < z -> z <= brows b ->
  buf_scroll_up b a z n p =
  Ok (b <| lines := sb ++ snd (spec_scroll_up a z n p (bcols b) v)
                       ++ fst (spec_scroll_up a z n p (bcols b) v) |>
        <| trim_needed := true |>).
Proof.
  intros Hl Hv Haz Hz.
  rewrite spec_scroll_up_eq. cbv zeta. cbn [fst snd].
  unfold buf_scroll_up.
  replace ((a <=? z) && (1 <=? z) && (1 <=? brows b)) with true by lia.
  cbn [guard bind].
  set (k := Nat.min n (z - a)).
  set (bl := blank_line (bcols b) p).
  (* step 1: unwrap row z-1 unless it is the last row *)
  set (v1 := if z <? length v then upd_row (z - 1) unwrap v else v).
  assert (Hv1 : length v1 = brows b).
  { unfold v1, upd_row. destruct (z <? length v); len. }
  assert (E1 : (if z - 1 <? brows b - 1 then with_row b (z - 1) (set_wrapped false) else Ok b)
               = Ok (b <| lines := sb ++ v1 |>)).
  { unfold v1. rewrite Hv.
    replace (z - 1 <? brows b - 1) with (z <? brows b) by lia.
    destruct (z <? brows b) eqn:E.
    - apply (with_row_unwrap b sb v Hl Hv). lia.
    - rewrite (set_lines_id b sb v Hl Hv). reflexivity. }
  rewrite E1. clear E1. cbn [bind].
  set (b1 := b <| lines := sb ++ v1 |>).
  assert (Hl1 : lines b1 = sb ++ v1) by reflexivity.
  assert (Hr1 : length v1 = brows b1) by exact Hv1.
  change (bcols b1) with (bcols b). change (brows b1) with (brows b).
  fold bl.
  destruct (a =? 0) eqn:Ea.
  - (* top-anchored *)
    assert (a = 0) by lia. subst a.
    assert (Ev2 : up_v2 0 z v = v1) by reflexivity.
    rewrite Ev2. clear Ev2.
    destruct (split4 v1 0 k z ltac:(lia) ltac:(lia)) as (X & B & C & D & E & HX & HB & HC & HD).
    apply length_zero_nil in HX. subst X. cbn [app] in E.
    rewrite Nat.sub_0_r in HC.
    pose proof (spec_up_view_pieces [] B C D 0 z k bl eq_refl HB ltac:(lia) ltac:(lia)) as HS.
    cbn [app firstn] in HS. rewrite Nat.sub_0_r in HS. cbn [Nat.add] in HS.
    cbn [firstn app Nat.add]. rewrite Nat.sub_0_r.
    rewrite E, HS. rewrite (firstn_app_exact _ _ _ HB).
    destruct (z =? brows b) eqn:Ez.
    + (* whole view: extend *)
      assert (D = []) by (apply length_zero_nil; lia). subst D.
      cbn [bind]. unfold buf_extend. fold bl. rewrite Hl1, E.
      rewrite !app_nil_r. rewrite <- !app_assoc. reflexivity.
    + (* insert below the range *)
      rewrite (dec_view_ok b1 sb v1 Hl1 Hr1). cbn [guard bind].
      rewrite (dec_sb_len b1 sb v1 Hl1 Hr1).
      replace (length sb + z <=? length (lines b1)) with true
        by (rewrite Hl1, app_length; lia).
      cbn [bind]. rewrite Hl1, E.
      replace (sb ++ B ++ C ++ D) with ((sb ++ B ++ C) ++ D) by (rewrite <- !app_assoc; reflexivity).
      rewrite insert_n_pieces by (rewrite !app_length; lia).
      rewrite <- !app_assoc. reflexivity.
  - (* inner range: unwrap row a-1, rotate, clear *)
    assert (Ha : 0 < a) by lia.
    set (v2 := upd_row (a - 1) unwrap v1).
    assert (Ev2 : up_v2 a z v = v2).
    { unfold up_v2. replace (0 <? a) with true by lia. reflexivity. }
    rewrite Ev2. clear Ev2.
    assert (Hv2 : length v2 = brows b) by (unfold v2, upd_row; len).
    rewrite (with_row_unwrap b1 sb v1 Hl1 Hr1 (a - 1)) by (change (brows b1) with (brows b); lia).
    cbn [bind]. fold v2.
    set (b2 := b1 <| lines := sb ++ v2 |>).
    assert (Hl2 : lines b2 = sb ++ v2) by reflexivity.
    assert (Hr2 : length v2 = brows b2) by exact Hv2.
    rewrite (with_view_app b2 sb v2 Hl2 Hr2) by (change (brows b2) with (brows b); lia).
    cbn [bind].
    set (v3 := on_range a z (rotl k) v2).
    destruct (split4 v2 a k z ltac:(lia) ltac:(lia)) as (X & B & C & D & E & HX & HB & HC & HD).
    assert (E3 : v3 = X ++ C ++ B ++ D).
    { unfold v3. rewrite E. rewrite (app_assoc B C D).
      rewrite on_range_pieces by (rewrite ?app_length; lia).
      rewrite (rotl_pieces _ _ _ HB). rewrite <- !app_assoc. reflexivity. }
    set (b3 := b2 <| lines := sb ++ v3 |>).
    assert (Hl3 : lines b3 = sb ++ v3) by reflexivity.
    assert (Hr3 : length v3 = brows b3).
    { change (brows b3) with (brows b). rewrite E3. rewrite <- Hv2, E. len. }
    rewrite (buf_clear_app b3 sb v3 Hl3 Hr3) by (change (brows b3) with (brows b); lia).
    cbn [bind]. change (bcols b3) with (bcols b). fold bl.
    rewrite E3. rewrite (app_assoc X C).
    rewrite fill_range_pieces by (rewrite ?app_length; lia).
    rewrite E, spec_up_view_pieces by lia.
    replace (z - (z - k)) with k by lia.
    rewrite <- !app_assoc. reflexivity.
Qed.

(** ** geometry of the specification's results *)

Lemma LineInv_unwrap c l : LineInv c l -> LineInv c (unwrap l).
Proof. exact (fun H => H). Qed.

Lemma LineInv_blank c p : LineInv c (blank_line c p).
Proof. unfold LineInv, blank_line. cbn [cells]. apply repeat_length. Qed.

Lemma up_v2_Forall (P : line -> Prop) a z v :
  (forall l, P l -> P (unwrap l)) -> Forall P v -> Forall P (up_v2 a z v).
Proof.
  intros HP Hv. unfold up_v2, upd_row.
  destruct (0 <? a), (z <? length v); repeat apply upd_Forall; assumption.
Qed.

Lemma spec_up_fst_length a z n p nc v :
  a <= z -> z <= length v -> length (fst (spec_scroll_up a z n p nc v)) = length v.
Proof.
  intros Haz Hz. rewrite spec_scroll_up_eq. cbv zeta. cbn [fst].
  len. rewrite !up_v2_length. lia.
Qed.

Lemma spec_up_Forall (P : line -> Prop) a z n p nc v :
  (forall l, P l -> P (unwrap l)) -> P (blank_line nc p) -> Forall P v ->
  Forall P (fst (spec_scroll_up a z n p nc v)) /\ Forall P (snd (spec_scroll_up a z n p nc v)).
Proof.
  intros HP Hb Hv. rewrite spec_scroll_up_eq. cbv zeta. cbn [fst snd].
  pose proof (up_v2_Forall P a z v HP Hv) as H2.
  split.
  - repeat (apply Forall_app; split);
      auto using Forall_firstn_S, Forall_skipn_S, Forall_repeat_S.
  - destruct (a =? 0); [apply Forall_firstn_S; assumption|constructor].
Qed.

Lemma BGeom_set_lines b ls tn :
  1 <= bcols b -> 1 <= brows b -> brows b <= length ls -> Forall (LineInv (bcols b)) ls ->
  BGeom (b <| lines := ls |> <| trim_needed := tn |>).
Proof.
  intros H1 H2 H3 H4. unfold BGeom. repeat split; assumption.
Qed.

Lemma BGeom_set_lines' b ls :
  1 <= bcols b -> 1 <= brows b -> brows b <= length ls -> Forall (LineInv (bcols b)) ls ->
  BGeom (b <| lines := ls |>).
Proof.
  intros H1 H2 H3 H4. unfold BGeom. repeat split; assumption.
Qed.

(** ** main theorem for scroll_up *)

Theorem buf_scroll_up_spec : forall b a z n p,
  BGeom b -> a < z -> z <= brows b ->
  exists b', buf_scroll_up b a z n p = Ok b'
    /\ lines b' = firstn (sb_len b) (lines b)
                  ++ snd (spec_scroll_up a z n p (bcols b) (view b))
                  ++ fst (spec_scroll_up a z n p (bcols b) (view b))
    /\ bcols b' = bcols b /\ brows b' = brows b /\ blimit b' = blimit b
    /\ trim_needed b' = true /\ BGeom b'.
Proof.
  intros b a z n p G Haz Hz.
  destruct (buf_decomp b G) as (Hl & Hv & Hsb).
  destruct G as (Gc & Gr & Glen & GF).
  eexists. split; [apply (buf_scroll_up_eq b _ _ a z n p Hl Hv Haz Hz)|].
  repeat (split; [reflexivity|]).
  assert (GFv : Forall (LineInv (bcols b)) (view b)) by (apply Forall_skipn_S; exact GF).
  destruct (spec_up_Forall (LineInv (bcols b)) a z n p (bcols b) (view b)
              (LineInv_unwrap _) (LineInv_blank _ _) GFv) as [F1 F2].
  apply BGeom_set_lines; try assumption.
  - rewrite !app_length, spec_up_fst_length by lia. lia.
  - apply Forall_app; split; [apply Forall_firstn_S, GF|]. apply Forall_app; split; assumption.
Qed.

Print Assumptions buf_scroll_up_spec.

Corollary buf_scroll_up_view : forall b a z n p b',
  BGeom b -> a < z -> z <= brows b -> buf_scroll_up b a z n p = Ok b' ->
  view b' = fst (spec_scroll_up a z n p (bcols b) (view b)).
Proof.
  intros b a z n p b' G Haz Hz E.
  destruct (buf_scroll_up_spec b a z n p G Haz Hz) as (b'' & E' & Hl' & _ & Hr' & _).
  rewrite E in E'. injection E' as <-.
  destruct (buf_decomp b G) as (_ & Hv & _).
  rewrite app_assoc in Hl'.
  apply (dec_view b' _ _ Hl').
  rewrite spec_up_fst_length by lia. congruence.
Qed.

Corollary buf_scroll_up_scrollback : forall b a z n p b',
  BGeom b -> a < z -> z <= brows b -> buf_scroll_up b a z n p = Ok b' ->
  firstn (sb_len b') (lines b')
  = firstn (sb_len b) (lines b) ++ snd (spec_scroll_up a z n p (bcols b) (view b)).
Proof.
  intros b a z n p b' G Haz Hz E.
  destruct (buf_scroll_up_spec b a z n p G Haz Hz) as (b'' & E' & Hl' & _ & Hr' & _).
  rewrite E in E'. injection E' as <-.
  destruct (buf_decomp b G) as (_ & Hv & _).
  rewrite app_assoc in Hl'.
  apply (dec_sb b' _ _ Hl').
  rewrite spec_up_fst_length by lia. congruence.
Qed.

Print Assumptions buf_scroll_up_view.
Print Assumptions buf_scroll_up_scrollback.

(** * [last_not_wrapped] *)

Lemma lnw_app_ne (X D : list line) :
  D <> [] -> (last_not_wrapped (X ++ D) <-> last_not_wrapped D).
Proof.
  intros HD. unfold last_not_wrapped. rewrite last_opt_app_ne by exact HD. tauto.
Qed.

Lemma lnw_upd_unwrap l i : last_not_wrapped l -> last_not_wrapped (upd_row i unwrap l).
Proof.
  intros H. unfold upd_row.
  destruct (Nat.lt_ge_cases i (length l)) as [Hi|Hi].
  - destruct (upd_split l i unwrap Hi) as (X & y & D & -> & _ & _ & ->).
    apply lnw_app_ne; [discriminate|]. apply lnw_app_ne in H; [|discriminate].
    destruct D as [|d D]; [reflexivity|exact H].
  - rewrite upd_ge by exact Hi. exact H.
Qed.

Lemma lnw_upd_last l i : length l = S i -> last_not_wrapped (upd_row i unwrap l).
Proof.
  intros Hi. unfold upd_row.
  destruct (upd_split l i unwrap ltac:(lia)) as (X & y & D & -> & HX & HD & ->).
  apply lnw_app_ne; [discriminate|].
  assert (D = []) by (apply length_zero_nil; lia). subst D. reflexivity.
Qed.

Lemma last_opt_repeat {A} (x : A) n : 0 < n -> last_opt (repeat x n) = Some x.
Proof.
  induction n as [|n IH]; [lia|]. intros _. destruct n as [|n]; [reflexivity|].
  change (repeat x (S (S n))) with (x :: repeat x (S n)).
  rewrite last_opt_cons_ne by (cbn; discriminate). apply IH. lia.
Qed.

Lemma up_v2_lnw a z v : last_not_wrapped v -> last_not_wrapped (up_v2 a z v).
Proof.
  intros H. unfold up_v2.
  destruct (0 <? a), (z <? length v); repeat apply lnw_upd_unwrap; exact H.
Qed.

Lemma spec_up_lnw a z n p nc v :
  a <= z -> z <= length v -> last_not_wrapped v ->
  last_not_wrapped (fst (spec_scroll_up a z n p nc v)).
Proof.
  intros Haz Hz H. rewrite spec_scroll_up_eq. cbv zeta. cbn [fst].
  apply (up_v2_lnw a z) in H.
  pose proof (up_v2_length a z v) as Hlen.
  set (v2 := up_v2 a z v) in *. set (k := Nat.min n (z - a)).
  destruct (split4 v2 a k z ltac:(lia) ltac:(lia)) as (X & B & C & D & E & HX & HB & HC & HD).
  rewrite E, spec_up_view_pieces by lia. rewrite E in H.
  destruct D as [|d D].
  - destruct k as [|k'] eqn:Ek.
    + apply length_zero_nil in HB. subst B. exact H.
    + rewrite app_nil_r, app_assoc. apply lnw_app_ne; [cbn; discriminate|].
      unfold last_not_wrapped. rewrite last_opt_repeat by lia. reflexivity.
  - rewrite !app_assoc in *.
    apply lnw_app_ne; [discriminate|]. apply lnw_app_ne in H; [exact H|discriminate].
Qed.

Theorem buf_scroll_up_lnw : forall b a z n p b',
  BInv b -> a < z -> z <= brows b -> buf_scroll_up b a z n p = Ok b' ->
  last_not_wrapped (lines b').
Proof.
  intros b a z n p b' [G L] Haz Hz E.
  destruct (buf_scroll_up_spec b a z n p G Haz Hz) as (b'' & E' & Hl' & _).
  rewrite E in E'. injection E' as <-.
  destruct (buf_decomp b G) as (Hl & Hv & _).
  destruct G as (_ & Gr & _).
  rewrite Hl', app_assoc.
  apply lnw_app_ne.
  - apply length_pos_ne. rewrite spec_up_fst_length by lia. lia.
  - apply spec_up_lnw; try lia.
    rewrite Hl in L. apply lnw_app_ne in L; [exact L|]. apply length_pos_ne. lia.
Qed.

Corollary buf_scroll_up_BInv : forall b a z n p b',
  BInv b -> a < z -> z <= brows b -> buf_scroll_up b a z n p = Ok b' -> BInv b'.
Proof.
  intros b a z n p b' I Haz Hz E. split.
  - destruct (buf_scroll_up_spec b a z n p (proj1 I) Haz Hz) as (b'' & E' & H).
    rewrite E in E'. injection E' as <-. apply H.
  - eapply buf_scroll_up_lnw; eassumption.
Qed.

Print Assumptions buf_scroll_up_lnw.
Print Assumptions buf_scroll_up_BInv.

(** * scroll_down *)

(** the view after rotate + clear, before the two unwraps of [spec_scroll_down] *)
Definition down_v1 (a z k : nat) (bl : line) (v : list line) : list line :=
  firstn a v ++ repeat bl k ++ firstn (z - a - k) (skipn a v) ++ skipn z v.

Lemma spec_scroll_down_eq a z n p nc v :
  spec_scroll_down a z n p nc v =
  (let v1 := down_v1 a z (Nat.min n (z - a)) (blank_line nc p) v in
   let v2 := if 0 <? a then upd_row (a - 1) unwrap v1 else v1 in
   upd_row (z - 1) unwrap v2).
Proof. reflexivity. Qed.

Lemma down_v1_pieces (X C B D : list line) a z k bl :
  length X = a -> length C = z - a - k -> length B = k -> a + k <= z ->
  down_v1 a z k bl (X ++ C ++ B ++ D) = X ++ repeat bl k ++ C ++ D.
Proof.
  intros HX HC HB Hk. unfold down_v1.
  rewrite (firstn_app_exact _ _ _ HX), (skipn_app_exact _ _ _ HX).
  rewrite (firstn_app_exact _ _ _ HC).
  replace (skipn z (X ++ C ++ B ++ D)) with D; [reflexivity|].
  rewrite (app_assoc C B), (app_assoc X). symmetry. apply skipn_app_exact.
  rewrite !app_length. lia.
Qed.

Lemma down_v1_length a z k bl v :
  a + k <= z -> z <= length v -> length (down_v1 a z k bl v) = length v.
Proof. intros Hk Hz. unfold down_v1. len. Qed.

Lemma down_v1_model a z k bl v :
  a + k <= z -> z <= length v ->
  fill_range a (a + k) bl (on_range a z (rotr k) v) = down_v1 a z k bl v.
Proof.
  intros Hk Hz.
  destruct (split4 v a (z - a - k) z ltac:(lia) ltac:(lia))
    as (X & C & B & D & E & HX & HC & HB & HD).
  assert (HB' : length B = k) by lia.
  rewrite E, down_v1_pieces by lia.
  rewrite (app_assoc C B D).
  rewrite on_range_pieces by (rewrite ?app_length; lia).
  rewrite (rotr_pieces _ _ _ HB'). rewrite <- app_assoc.
  rewrite fill_range_pieces by lia.
  replace (a + k - a) with k by lia. reflexivity.
Qed.

Lemma spec_down_length a z n p nc v :
  a <= z -> z <= length v -> length (spec_scroll_down a z n p nc v) = length v.
Proof.
  intros Haz Hz. rewrite spec_scroll_down_eq. cbv zeta. unfold upd_row.
  destruct (0 <? a); rewrite ?upd_length; apply down_v1_length; lia.
Qed.

Lemma down_v1_Forall (P : line -> Prop) a z k bl v :
  P bl -> Forall P v -> Forall P (down_v1 a z k bl v).
Proof.
  intros Hb Hv. unfold down_v1.
  repeat (apply Forall_app; split);
    auto using Forall_firstn_S, Forall_skipn_S, Forall_repeat_S.
Qed.

Lemma spec_down_Forall (P : line -> Prop) a z n p nc v :
  (forall l, P l -> P (unwrap l)) -> P (blank_line nc p) -> Forall P v ->
  Forall P (spec_scroll_down a z n p nc v).
Proof.
  intros HP Hb Hv. rewrite spec_scroll_down_eq. cbv zeta. unfold upd_row.
  pose proof (down_v1_Forall P a z (Nat.min n (z - a)) _ v Hb Hv) as H1.
  destruct (0 <? a); repeat apply upd_Forall; assumption.
Qed.

Lemma buf_scroll_down_eq b sb v a z n p :
  lines b = sb ++ v -> length v = brows b -> a < z -> z <= brows b ->
  buf_scroll_down b a z n p =
  Ok (b <| lines := sb ++ spec_scroll_down a z n p (bcols b) v |>).
Proof.
  intros Hl Hv Haz Hz.
  rewrite spec_scroll_down_eq. cbv zeta.
  unfold buf_scroll_down.
  replace (a <=? z) with true by lia. cbn [guard bind].
  set (k := Nat.min n (z - a)).
  set (bl := blank_line (bcols b) p).
  (* rotate *)
  rewrite (with_view_app b sb v Hl Hv) by lia. cbn [bind].
  set (w := on_range a z (rotr k) v).
  assert (Hw : length w = brows b).
  { unfold w.
    destruct (split3 v a z ltac:(lia) ltac:(lia)) as (X & M & D & E & HX & HM & HD).
    rewrite E, on_range_pieces by lia. rewrite <- Hv, E. len.
    unfold rotr. len. }
  set (b1 := b <| lines := sb ++ w |>).
  assert (Hl1 : lines b1 = sb ++ w) by reflexivity.
  assert (Hr1 : length w = brows b1) by exact Hw.
  (* clear *)
  rewrite (buf_clear_app b1 sb w Hl1 Hr1) by (change (brows b1) with (brows b); lia).
  cbn [bind]. change (bcols b1) with (bcols b). fold bl.
  unfold w. rewrite down_v1_model by lia.
  set (v1 := down_v1 a z k bl v).
  assert (Hv1 : length v1 = brows b) by (unfold v1; rewrite down_v1_length; lia).
  set (b2 := b1 <| lines := sb ++ v1 |>).
  assert (Hl2 : lines b2 = sb ++ v1) by reflexivity.
  assert (Hr2 : length v1 = brows b2) by exact Hv1.
  (* unwrap row a-1 *)
  set (v2 := if 0 <? a then upd_row (a - 1) unwrap v1 else v1).
  assert (Hv2 : length v2 = brows b).
  { unfold v2, upd_row. destruct (0 <? a); len. }
  assert (E3 : (if 0 <? a then with_row b2 (a - 1) (set_wrapped false) else Ok b2)
               = Ok (b <| lines := sb ++ v2 |>)).
  { unfold v2. destruct (0 <? a) eqn:Ea.
    - rewrite (with_row_unwrap b2 sb v1 Hl2 Hr2) by (change (brows b2) with (brows b); lia).
      reflexivity.
    - reflexivity. }
  rewrite E3. clear E3. cbn [bind].
  set (b3 := b <| lines := sb ++ v2 |>).
  assert (Hl3 : lines b3 = sb ++ v2) by reflexivity.
  assert (Hr3 : length v2 = brows b3) by exact Hv2.
  replace (1 <=? z) with true by lia. cbn [guard bind].
  rewrite (with_row_unwrap b3 sb v2 Hl3 Hr3) by (change (brows b3) with (brows b); lia).
  reflexivity.
Qed.

Theorem buf_scroll_down_spec : forall b a z n p,
  BGeom b -> a < z -> z <= brows b ->
  exists b', buf_scroll_down b a z n p = Ok b'
    /\ b' = b <| lines := firstn (sb_len b) (lines b)
                          ++ spec_scroll_down a z n p (bcols b) (view b) |>
    /\ BGeom b'.
Proof.
  intros b a z n p G Haz Hz.
  destruct (buf_decomp b G) as (Hl & Hv & Hsb).
  destruct G as (Gc & Gr & Glen & GF).
  eexists. split; [apply (buf_scroll_down_eq b _ _ a z n p Hl Hv Haz Hz)|].
  split; [reflexivity|].
  assert (GFv : Forall (LineInv (bcols b)) (view b)) by (apply Forall_skipn_S; exact GF).
  apply BGeom_set_lines'; try assumption.
  - rewrite app_length, spec_down_length by lia. lia.
  - apply Forall_app; split; [apply Forall_firstn_S, GF|].
    apply spec_down_Forall; auto using LineInv_unwrap, LineInv_blank.
Qed.

Print Assumptions buf_scroll_down_spec.

Corollary buf_scroll_down_fields : forall b a z n p b',
  BGeom b -> a < z -> z <= brows b -> buf_scroll_down b a z n p = Ok b' ->
  view b' = spec_scroll_down a z n p (bcols b) (view b)
  /\ firstn (sb_len b') (lines b') = firstn (sb_len b) (lines b)
  /\ sb_len b' = sb_len b
  /\ bcols b' = bcols b /\ brows b' = brows b /\ blimit b' = blimit b
  /\ trim_needed b' = trim_needed b.
Proof.
  intros b a z n p b' G Haz Hz E.
  destruct (buf_scroll_down_spec b a z n p G Haz Hz) as (b'' & E' & Hb' & _).
  rewrite E in E'. injection E' as <-.
  destruct (buf_decomp b G) as (_ & Hv & Hsb).
  assert (Hl' : lines b' = firstn (sb_len b) (lines b)
                           ++ spec_scroll_down a z n p (bcols b) (view b))
    by (rewrite Hb'; reflexivity).
  assert (Hr' : length (spec_scroll_down a z n p (bcols b) (view b)) = brows b').
  { rewrite spec_down_length by lia. rewrite Hb'. exact Hv. }
  split; [apply (dec_view b' _ _ Hl' Hr')|].
  split; [apply (dec_sb b' _ _ Hl' Hr')|].
  split; [rewrite (dec_sb_len b' _ _ Hl' Hr'); exact Hsb|].
  rewrite Hb'. repeat split; reflexivity.
Qed.

Print Assumptions buf_scroll_down_fields.

Lemma spec_down_lnw a z n p nc v :
  a < z -> z <= length v -> last_not_wrapped v ->
  last_not_wrapped (spec_scroll_down a z n p nc v).
Proof.
  intros Haz Hz H. rewrite spec_scroll_down_eq. cbv zeta.
  set (k := Nat.min n (z - a)). set (bl := blank_line nc p).
  pose proof (down_v1_length a z k bl v ltac:(lia) Hz) as Hlen.
  destruct (Nat.eq_dec z (length v)) as [Ez|Ez].
  - (* the last row is row z-1: it is unwrapped *)
    apply lnw_upd_last. unfold upd_row. destruct (0 <? a); rewrite ?upd_length; lia.
  - (* the last row is below the range: untouched *)
    apply lnw_upd_unwrap.
    assert (H1 : last_not_wrapped (down_v1 a z k bl v)).
    { destruct (split4 v a (z - a - k) z ltac:(lia) ltac:(lia))
        as (X & C & B & D & E & HX & HC & HB & HD).
      rewrite E, down_v1_pieces by lia. rewrite E in H.
      assert (HD' : D <> []) by (apply length_pos_ne; lia).
      rewrite !app_assoc in *.
      apply lnw_app_ne; [exact HD'|]. apply lnw_app_ne in H; assumption. }
    destruct (0 <? a); [apply lnw_upd_unwrap|]; exact H1.
Qed.

Theorem buf_scroll_down_lnw : forall b a z n p b',
  BInv b -> a < z -> z <= brows b -> buf_scroll_down b a z n p = Ok b' ->
  last_not_wrapped (lines b').
Proof.
  intros b a z n p b' [G L] Haz Hz E.
  destruct (buf_scroll_down_spec b a z n p G Haz Hz) as (b'' & E' & Hb' & _).
  rewrite E in E'. injection E' as <-.
  destruct (buf_decomp b G) as (Hl & Hv & _).
  destruct G as (_ & Gr & _).
  rewrite Hb'. cbn [lines set]. 
  change (last_not_wrapped (firstn (sb_len b) (lines b)
                            ++ spec_scroll_down a z n p (bcols b) (view b))).
  apply lnw_app_ne.
  - apply length_pos_ne. rewrite spec_down_length by lia. lia.
  - apply spec_down_lnw; try lia.
    rewrite Hl in L. apply lnw_app_ne in L; [exact L|]. apply length_pos_ne. lia.
Qed.

Corollary buf_scroll_down_BInv : forall b a z n p b',
  BInv b -> a < z -> z <= brows b -> buf_scroll_down b a z n p = Ok b' -> BInv b'.
Proof.
  intros b a z n p b' I Haz Hz E. split.
  - destruct (buf_scroll_down_spec b a z n p (proj1 I) Haz Hz) as (b'' & E' & _ & H).
    rewrite E in E'. injection E' as <-. exact H.
  - eapply buf_scroll_down_lnw; eassumption.
Qed.

Print Assumptions buf_scroll_down_lnw.
Print Assumptions buf_scroll_down_BInv.

(** * gc / trim_scrollback *)

Lemma hard_of_ge n : (n <= hard_of n)%N.
Proof. unfold hard_of. lia. Qed.

Lemma limit_of_le : forall l s h, limit_of l = Some (s, h) -> (s <= h)%N.
Proof.
  intros [n|] s h E; [|discriminate]. cbn [limit_of] in E. injection E as <- <-.
  apply hard_of_ge.
Qed.

(** well-formed limit: needed so that [guard (soft <=? size)] (site 49) cannot fail.
    Counterexample without it: see [gc_needs_limit_wf] below. *)
Definition limit_wf (b : buffer) : Prop :=
  match blimit b with Some (s, h) => (s <= h)%N | None => True end.

Lemma limit_ok_wf l b : limit_ok l b -> limit_wf b.
Proof.
  unfold limit_ok, limit_wf. intros E. destruct (blimit b) as [[s h]|]; [|exact I].
  eapply limit_of_le. symmetry. exact E.
Qed.

(** number of scrollback lines dropped by [buf_gc] *)
Definition gc_excess (b : buffer) : nat :=
  if trim_needed b then
    match blimit b with
    | Some (soft, hard) =>
      if (hard <? N.of_nat (sb_len b))%N then sb_len b - N.to_nat soft else 0
    | None => 0
    end
  else 0.

Lemma gc_excess_le b : gc_excess b <= sb_len b.
Proof.
  unfold gc_excess. destruct (trim_needed b); [|lia].
  destruct (blimit b) as [[s h]|]; [|lia].
  destruct (h <? N.of_nat (sb_len b))%N; lia.
Qed.

Lemma buf_gc_eq b :
  BGeom b -> limit_wf b ->
  buf_gc b = Ok (b <| trim_needed := false |> <| lines := skipn (gc_excess b) (lines b) |>,
                 firstn (gc_excess b) (lines b)).
Proof.
  intros (_ & _ & Glen & _) W. unfold buf_gc, gc_excess, limit_wf in *.
  destruct (trim_needed b) eqn:Et.
  - change (blimit (b <| trim_needed := false |>)) with (blimit b).
    destruct (blimit b) as [[s h]|] eqn:Eb.
    + replace (view_ok (b <| trim_needed := false |>)) with true
        by (unfold view_ok; cbn [lines brows set]; symmetry; apply Nat.leb_le; exact Glen).
      cbn [guard bind].
      change (sb_len (b <| trim_needed := false |>)) with (sb_len b).
      destruct (h <? N.of_nat (sb_len b))%N eqn:Eh.
      * replace (s <=? N.of_nat (sb_len b))%N with true by lia.
        cbn [guard bind].
        replace (N.to_nat (N.of_nat (sb_len b) - s)) with (sb_len b - N.to_nat s) by lia.
        reflexivity.
      * cbn [skipn firstn]. destruct b; reflexivity.
    + cbn [skipn firstn]. destruct b; reflexivity.
  - cbn [skipn firstn]. destruct b; cbn in Et; subst; reflexivity.
Qed.

Theorem buf_gc_spec : forall b,
  BGeom b -> limit_wf b ->
  exists b' d, buf_gc b = Ok (b', d)
    /\ lines b = d ++ lines b'
    /\ trim_needed b' = false
    /\ bcols b' = bcols b /\ brows b' = brows b /\ blimit b' = blimit b
    /\ BGeom b'
    /\ (last_not_wrapped (lines b) -> last_not_wrapped (lines b'))
    /\ view b' = view b
    /\ firstn (sb_len b) (lines b) = d ++ firstn (sb_len b') (lines b')
    /\ sb_len b' = sb_len b - gc_excess b
    /\ length d = gc_excess b.
Proof.
  intros b G W.
  pose proof (buf_gc_eq b G W) as E.
  pose proof (gc_excess_le b) as He.
  destruct (buf_decomp b G) as (Hl & Hv & Hsb).
  destruct G as (Gc & Gr & Glen & GF).
  set (e := gc_excess b) in *.
  destruct (split2 (firstn (sb_len b) (lines b)) e ltac:(lia)) as (d & sb' & Esb & Hd & Hsb').
  assert (Hl2 : lines b = d ++ sb' ++ view b) by (rewrite Hl at 1; rewrite Esb, <- app_assoc; reflexivity).
  assert (Ef : firstn e (lines b) = d) by (rewrite Hl2; apply firstn_app_exact, Hd).
  assert (Es : skipn e (lines b) = sb' ++ view b) by (rewrite Hl2; apply skipn_app_exact, Hd).
  rewrite Ef, Es in E.
  eexists _, d. split; [exact E|].
  set (b' := b <| trim_needed := false |> <| lines := sb' ++ view b |>).
  assert (Hl' : lines b' = sb' ++ view b) by reflexivity.
  assert (Hr' : length (view b) = brows b') by exact Hv.
  split; [exact Hl2|].
  repeat (split; [reflexivity|]).
  split.
  { unfold BGeom. change (bcols b') with (bcols b). change (brows b') with (brows b).
    rewrite Hl'. repeat split; try assumption.
    - rewrite app_length. lia.
    - rewrite Hl2 in GF. apply Forall_app in GF. tauto. }
  split.
  { intros L. rewrite Hl'. rewrite Hl2, app_assoc in L.
    assert (Hne : view b <> []) by (apply length_pos_ne; lia).
    apply lnw_app_ne; [exact Hne|]. apply lnw_app_ne in L; assumption. }
  split; [apply (dec_view b' _ _ Hl' Hr')|].
  split; [rewrite (dec_sb b' _ _ Hl' Hr'); exact Esb|].
  split; [rewrite (dec_sb_len b' _ _ Hl' Hr'); lia|].
  exact Hd.
Qed.

Print Assumptions buf_gc_spec.

(** the version for buffers carrying a configured limit (as in [TInv]) *)
Corollary buf_gc_spec_limit_of : forall b l,
  BGeom b -> limit_ok l b ->
  exists b' d, buf_gc b = Ok (b', d)
    /\ lines b = d ++ lines b'
    /\ trim_needed b' = false
    /\ bcols b' = bcols b /\ brows b' = brows b /\ blimit b' = blimit b
    /\ BGeom b'
    /\ (last_not_wrapped (lines b) -> last_not_wrapped (lines b'))
    /\ view b' = view b.
Proof.
  intros b l G Hlim.
  destruct (buf_gc_spec b G (limit_ok_wf l b Hlim))
    as (b' & d & H1 & H2 & H3 & H4 & H5 & H6 & H7 & H8 & H9 & _).
  exists b', d. do 8 (split; [assumption|]). assumption.
Qed.

Corollary buf_gc_BInv : forall b b' d,
  BInv b -> limit_wf b -> buf_gc b = Ok (b', d) -> BInv b'.
Proof.
  intros b b' d [G L] W E.
  destruct (buf_gc_spec b G W) as (b'' & d' & E' & _ & _ & _ & _ & _ & G' & L' & _).
  rewrite E in E'. injection E' as <- <-. split; auto.
Qed.

(** the bound on the scrollback size after gc *)
Theorem buf_gc_bound : forall b b' d soft hard,
  BGeom b -> buf_gc b = Ok (b', d) ->
  blimit b = Some (soft, hard) -> (soft <= hard)%N -> trim_needed b = true ->
  (N.of_nat (sb_len b') <= hard)%N
  /\ ((hard < N.of_nat (sb_len b))%N ->
        N.of_nat (sb_len b') = soft /\ length d = sb_len b - N.to_nat soft)
  /\ (~ (hard < N.of_nat (sb_len b))%N -> lines b' = lines b /\ d = []).
Proof.
  intros b b' d soft hard G E Eb Hsh Et.
  assert (W : limit_wf b) by (unfold limit_wf; rewrite Eb; exact Hsh).
  destruct (buf_gc_spec b G W)
    as (b'' & d' & E' & Hl & _ & _ & _ & _ & _ & _ & _ & _ & Hs & Hd).
  rewrite E in E'. injection E' as <- <-.
  unfold gc_excess in *. rewrite Et, Eb in *.
  destruct (hard <? N.of_nat (sb_len b))%N eqn:Eh.
  - repeat split; try lia.
  - assert (d = []) by (apply length_zero_nil; exact Hd). subst d.
    repeat split; try lia. symmetry. exact Hl.
Qed.

Print Assumptions buf_gc_bound.

(** nothing happens without the trim flag or without a limit (no hypotheses needed) *)
Theorem buf_gc_noop : forall b b' d,
  trim_needed b = false \/ blimit b = None ->
  buf_gc b = Ok (b', d) ->
  d = [] /\ lines b' = lines b /\ b' = b <| trim_needed := false |>.
Proof.
  intros b b' d H E. unfold buf_gc in E.
  destruct (trim_needed b) eqn:Et.
  - destruct H as [H|H]; [discriminate|].
    change (blimit (b <| trim_needed := false |>)) with (blimit b) in E.
    rewrite H in E. injection E as <- <-. repeat split; reflexivity.
  - injection E as <- <-. repeat split; try reflexivity.
    destruct b; cbn in Et; subst; reflexivity.
Qed.

Print Assumptions buf_gc_noop.

(** [buf_gc_spec] really needs [limit_wf]: with soft > size > hard the Rust code
    would underflow ([size - soft]); the model panics at site 49. *)
Example gc_needs_limit_wf :
  let b := mkBuffer (repeat (blank_line 1 default_pen) 3) 1 1 (Some (5, 0)%N) true in
  BGeom b /\ buf_gc b = Panic 49.
Proof.
  cbv zeta. split; [|reflexivity].
  unfold BGeom. cbn. repeat split; try lia. repeat constructor.
Qed.

Print Assumptions limit_of_le.
Print Assumptions buf_gc_spec_limit_of.
Print Assumptions buf_gc_BInv.
