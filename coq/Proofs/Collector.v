(** C14, consequence: [util::TextCollector] yields the same text for every scrollback limit.

    [TextCollector] feeds the scrollback lines drained by each [feed_str] call through a
    [TextUnwrapper] ([unwrap_push]; its state is the pending wrapped prefix) and hands out the
    completed logical lines; [flush] pushes the final [lines()] and the pending prefix and strips
    the trailing empty lines OF ITS OWN PART (the lines handed out earlier cannot be taken
    back).  Hence the statement is modulo trailing empty lines ([strip_empty_tail] on both
    sides); see [collector_needs_strip] for a computed session where the raw outputs differ. *)

From Coq Require Import List Lia ZArith.
From Avt Require Import Model.Dump Model.Vt Proofs.ParamChop.
Import ListNotations.

(** * the model of [TextCollector] *)

Fixpoint collect (st : list N) (outs : list out) : list N * list (list N) :=
  match outs with
  | [] => (st, [])
  | o :: r =>
    let '(st1, e1) := unwrap_all st (o_drained o) in
    let '(st2, e2) := collect st1 r in
    (st2, e1 ++ e2)
  end.

Definition collector_total (outs : list out) (final_lines : list line) : list (list N) :=
  let '(st, emitted) := collect [] outs in
  emitted ++ collector_flush st final_lines.

(** * [unwrap_all] is a fold *)

Lemma unwrap_all_cons st l r :
  unwrap_all st (l :: r)
  = let '(st', o) := unwrap_push st l in
    let '(st'', out) := unwrap_all st' r in
    (st'', match o with Some s => s :: out | None => out end).
Proof. reflexivity. Qed.

Lemma unwrap_all_app : forall a st b,
  unwrap_all st (a ++ b)
  = let '(st1, o1) := unwrap_all st a in
    let '(st2, o2) := unwrap_all st1 b in
    (st2, o1 ++ o2).
Proof.
  induction a as [|l a IH]; intros st b.
  - cbn [app unwrap_all]. destruct (unwrap_all st b) as [st2 o2]. reflexivity.
  - rewrite <- app_comm_cons, !unwrap_all_cons.
    destruct (unwrap_push st l) as [st' o]. rewrite IH.
    destruct (unwrap_all st' a) as [st1 o1].
    destruct (unwrap_all st1 b) as [st2 o2].
    destruct o; reflexivity.
Qed.

(** the collector's incremental unwrapping is one unwrapping of the whole drained stream *)
Lemma collect_concat : forall outs st,
  collect st outs = unwrap_all st (concat (map o_drained outs)).
Proof.
  induction outs as [|o outs IH]; intros st; [reflexivity|].
  cbn [collect map concat]. rewrite unwrap_all_app.
  destruct (unwrap_all st (o_drained o)) as [st1 e1]. rewrite IH. reflexivity.
Qed.

(** * [strip_empty_tail] *)

Lemma strip_cons x r :
  strip_empty_tail (x :: r)
  = match strip_empty_tail r, x with
    | [], [] => []
    | r', _ => x :: r'
    end.
Proof. reflexivity. Qed.

Lemma strip_idem : forall b, strip_empty_tail (strip_empty_tail b) = strip_empty_tail b.
Proof.
  induction b as [|x r IH]; [reflexivity|].
  rewrite strip_cons.
  destruct (strip_empty_tail r) as [|y r'] eqn:E.
  - destruct x as [|n x]; [reflexivity|]. reflexivity.
  - assert (E' : strip_empty_tail (x :: y :: r') = x :: y :: r').
    { rewrite strip_cons, IH. destruct x; reflexivity. }
    destruct x; exact E'.
Qed.

Lemma strip_app_strip : forall a b,
  strip_empty_tail (a ++ strip_empty_tail b) = strip_empty_tail (a ++ b).
Proof.
  induction a as [|x a IH]; intros b.
  - apply strip_idem.
  - rewrite <- !app_comm_cons, !strip_cons, IH. reflexivity.
Qed.

(** * the collector's total output, in closed form *)

Definition pending (st : list N) : list (list N) := match st with [] => [] | _ => [st] end.

Lemma collector_flush_eq st ls :
  collector_flush st ls
  = strip_empty_tail (snd (unwrap_all st ls) ++ pending (fst (unwrap_all st ls))).
Proof. unfold collector_flush. destruct (unwrap_all st ls) as [st' out]. reflexivity. Qed.

(** whatever the chunking of the drained stream: up to trailing empty lines the collector's
    output is the unwrapping of (drained ++ final lines) followed by the pending prefix *)
Lemma collector_total_strip outs fin :
  strip_empty_tail (collector_total outs fin)
  = let '(st, out) := unwrap_all [] (concat (map o_drained outs) ++ fin) in
    strip_empty_tail (out ++ pending st).
Proof.
  unfold collector_total. rewrite collect_concat, unwrap_all_app.
  destruct (unwrap_all [] (concat (map o_drained outs))) as [st em].
  rewrite collector_flush_eq.
  destruct (unwrap_all st fin) as [st' out]. cbn [fst snd].
  rewrite strip_app_strip, app_assoc. reflexivity.
Qed.

(** * C14 for the collector *)

Theorem C14_collector : forall c r L ss vI outsI vL outsL,
  session_ris_free (vt_new c r None) ss ->
  run_session (vt_new c r None) ss = Ok (vI, outsI) ->
  run_session (vt_new c r (Some L)) ss = Ok (vL, outsL) ->
  active (vterm vL) = Primary ->
  strip_empty_tail (collector_total outsL (lines (buf (vterm vL))))
  = strip_empty_tail (collector_total outsI (lines (buf (vterm vI)))).
Proof.
  intros c r L ss vI outsI vL outsL HF EI EL HA.
  rewrite !collector_total_strip.
  rewrite (C14_stream c r L ss vI outsI vL outsL HF EI EL HA).
  rewrite (unlimited_never_drains c r ss vI outsI HF EI). reflexivity.
Qed.

Print Assumptions C14_collector.

(** the unlimited run: nothing is handed out early, everything comes from [flush] *)
Corollary collector_unlimited : forall c r ss vI outsI,
  session_ris_free (vt_new c r None) ss ->
  run_session (vt_new c r None) ss = Ok (vI, outsI) ->
  collector_total outsI (lines (buf (vterm vI))) = collector_flush [] (lines (buf (vterm vI))).
Proof.
  intros c r ss vI outsI HF EI. unfold collector_total. rewrite collect_concat.
  rewrite (unlimited_never_drains c r ss vI outsI HF EI). reflexivity.
Qed.

(** * computed checks *)

(** a 3x1 screen fed "a" LF LF LF "b" LF LF LF LF in three [feed_str] calls *)
Definition chk_session : list (list N) := [[97; 10; 10]; [10; 98; 10; 10]; [10; 10]]%N.

Definition chk_total (l : option N) (ss : list (list N)) : option (list (list N)) :=
  match run_session (vt_new 3 1 l) ss with
  | Ok (v, outs) => Some (collector_total outs (lines (buf (vterm v))))
  | Panic _ => None
  end.

(** the statement WITHOUT the outer [strip_empty_tail] is false: with limit 0 the empty lines
    scrolled out after "b" are handed out before [flush] can strip them *)
Example collector_needs_strip :
  chk_total (Some 0%N) chk_session = Some [[97]; []; []; [32; 98]; []; []; []]%N
  /\ chk_total None chk_session = Some [[97]; []; []; [32; 98]]%N.
Proof. vm_compute. split; reflexivity. Qed.

Example collector_chk_strip :
  option_map strip_empty_tail (chk_total (Some 0%N) chk_session)
  = option_map strip_empty_tail (chk_total None chk_session).
Proof. vm_compute. reflexivity. Qed.
