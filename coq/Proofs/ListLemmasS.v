(** Generic list lemmas used by [Proofs/BufScroll.v]: "exact" firstn/skipn on appends,
    splitting a list into pieces of given lengths, and the model's slice primitives
    ([upd], [on_range], [fill_range], [rotl], [rotr], [insert_n], [last_opt]) on such pieces. *)

From Avt Require Import Model.Base.
Require Import Lia.

Section Lists.
  Context {A : Type}.
  Implicit Types (l X B C D M : list A).

  Lemma firstn_app_exact X D n : length X = n -> firstn n (X ++ D) = X.
  Proof.
    intros <-. rewrite firstn_app, Nat.sub_diag, firstn_all. cbn [firstn]. apply app_nil_r.
  Qed.

  Lemma skipn_app_exact X D n : length X = n -> skipn n (X ++ D) = D.
  Proof.
    intros <-. rewrite skipn_app, Nat.sub_diag, skipn_all. reflexivity.
  Qed.

  Lemma split2 l n :
    n <= length l -> exists X D, l = X ++ D /\ length X = n /\ length D = length l - n.
  Proof.
    intros H. exists (firstn n l), (skipn n l).
    rewrite firstn_skipn, firstn_length, skipn_length. repeat split; lia.
  Qed.

  Lemma split3 l a z :
    a <= z -> z <= length l ->
    exists X M D, l = X ++ M ++ D /\ length X = a /\ length M = z - a /\ length D = length l - z.
  Proof.
    intros Haz Hz.
    destruct (split2 l a ltac:(lia)) as (X & R & -> & HX & HR).
    destruct (split2 R (z - a) ltac:(lia)) as (M & D & -> & HM & HD).
    exists X, M, D. rewrite !app_length in *. repeat split; lia.
  Qed.

  Lemma split4 l a k z :
    a + k <= z -> z <= length l ->
    exists X B C D, l = X ++ B ++ C ++ D /\ length X = a /\ length B = k
                    /\ length C = z - a - k /\ length D = length l - z.
  Proof.
    intros Hak Hz.
    destruct (split2 l a ltac:(lia)) as (X & R & -> & HX & HR).
    destruct (split3 R k (z - a) ltac:(lia) ltac:(lia)) as (B & C & D & -> & HB & HC & HD).
    exists X, B, C, D. rewrite !app_length in *. repeat split; lia.
  Qed.

  (** ** [upd] *)

  Lemma upd_app_exact X y D i (f : A -> A) :
    length X = i -> upd i f (X ++ y :: D) = X ++ f y :: D.
  Proof.
    intros H. unfold upd. rewrite (skipn_app_exact _ _ _ H), (firstn_app_exact _ _ _ H).
    reflexivity.
  Qed.

  Lemma upd_ge l i (f : A -> A) : length l <= i -> upd i f l = l.
  Proof.
    intros H. unfold upd. rewrite skipn_all2 by exact H. reflexivity.
  Qed.

  Lemma upd_split l i (f : A -> A) :
    i < length l ->
    exists X y D, l = X ++ y :: D /\ length X = i /\ length D = length l - i - 1
                  /\ upd i f l = X ++ f y :: D.
  Proof.
    intros H.
    destruct (split2 l i ltac:(lia)) as (X & R & -> & HX & HR).
    destruct R as [|y D]; [cbn in HR; rewrite app_length in *; cbn in *; lia|].
    exists X, y, D. rewrite app_length in *. cbn [length] in *.
    repeat split; try lia. apply upd_app_exact, HX.
  Qed.

  Lemma upd_length l i (f : A -> A) : length (upd i f l) = length l.
  Proof.
    destruct (Nat.lt_ge_cases i (length l)) as [H|H].
    - destruct (upd_split l i f H) as (X & y & D & -> & _ & _ & ->).
      rewrite !app_length. reflexivity.
    - rewrite upd_ge by exact H. reflexivity.
  Qed.

  Lemma upd_Forall (P : A -> Prop) l i (f : A -> A) :
    (forall x, P x -> P (f x)) -> Forall P l -> Forall P (upd i f l).
  Proof.
    intros Hf Hl.
    destruct (Nat.lt_ge_cases i (length l)) as [H|H].
    - destruct (upd_split l i f H) as (X & y & D & -> & _ & _ & ->).
      apply Forall_app in Hl. destruct Hl as [HX HyD]. inversion HyD; subst.
      apply Forall_app. split; [assumption|]. constructor; auto.
    - rewrite upd_ge by exact H. exact Hl.
  Qed.

  Lemma upd_app_r X l i (f : A -> A) :
    upd (length X + i) f (X ++ l) = X ++ upd i f l.
  Proof.
    unfold upd. rewrite skipn_app, firstn_app.
    rewrite skipn_all2 by lia. rewrite firstn_all2 by lia.
    replace (length X + i - length X) with i by lia. cbn [app].
    destruct (skipn i l); [reflexivity|]. rewrite app_assoc. reflexivity.
  Qed.

  Lemma upd_const l i x (f : A -> A) :
    nth_error l i = Some x -> upd i (fun _ => f x) l = upd i f l.
  Proof.
    intros H.
    assert (Hi : i < length l) by (apply nth_error_Some; congruence).
    destruct (split2 l i ltac:(lia)) as (X & R & -> & HX & HR).
    rewrite nth_error_app2 in H by lia. rewrite HX, Nat.sub_diag in H.
    destruct R as [|y D]; [discriminate|]. cbn in H. injection H as ->.
    rewrite !upd_app_exact by exact HX. reflexivity.
  Qed.

  Lemma nth_error_app_r X l i : nth_error (X ++ l) (length X + i) = nth_error l i.
  Proof.
    rewrite nth_error_app2 by lia. f_equal. lia.
  Qed.

  (** ** [on_range], [fill_range], [insert_n], rotations *)

  Lemma on_range_pieces X M D a z (f : list A -> list A) :
    length X = a -> length M = z - a -> a <= z ->
    on_range a z f (X ++ M ++ D) = X ++ f M ++ D.
  Proof.
    intros HX HM Haz. unfold on_range.
    rewrite (firstn_app_exact _ _ _ HX), (skipn_app_exact _ _ _ HX).
    rewrite (firstn_app_exact _ _ _ HM).
    rewrite (app_assoc X M D). rewrite skipn_app_exact; [reflexivity|].
    rewrite app_length. lia.
  Qed.

  Lemma fill_range_pieces X M D a z (x : A) :
    length X = a -> length M = z - a -> a <= z ->
    fill_range a z x (X ++ M ++ D) = X ++ repeat x (z - a) ++ D.
  Proof.
    intros HX HM Haz. unfold fill_range.
    rewrite (firstn_app_exact _ _ _ HX).
    rewrite (app_assoc X M D). rewrite skipn_app_exact; [reflexivity|].
    rewrite app_length. lia.
  Qed.

  Lemma insert_n_pieces X D i n (x : A) :
    length X = i -> insert_n i n x (X ++ D) = X ++ repeat x n ++ D.
  Proof.
    intros HX. unfold insert_n.
    rewrite (firstn_app_exact _ _ _ HX), (skipn_app_exact _ _ _ HX). reflexivity.
  Qed.

  Lemma rotl_pieces B C k : length B = k -> rotl k (B ++ C) = C ++ B.
  Proof.
    intros HB. unfold rotl.
    rewrite (firstn_app_exact _ _ _ HB), (skipn_app_exact _ _ _ HB). reflexivity.
  Qed.

  Lemma rotr_pieces C B k : length B = k -> rotr k (C ++ B) = B ++ C.
  Proof.
    intros HB. unfold rotr.
    assert (H : length C = length (C ++ B) - k) by (rewrite app_length; lia).
    rewrite (firstn_app_exact _ _ _ H), (skipn_app_exact _ _ _ H). reflexivity.
  Qed.

  (** ** [Forall] through [firstn]/[skipn]/[repeat] *)

  Lemma Forall_firstn_S (P : A -> Prop) n l : Forall P l -> Forall P (firstn n l).
  Proof.
    intros H. rewrite <- (firstn_skipn n l) in H. apply Forall_app in H. tauto.
  Qed.

  Lemma Forall_skipn_S (P : A -> Prop) n l : Forall P l -> Forall P (skipn n l).
  Proof.
    intros H. rewrite <- (firstn_skipn n l) in H. apply Forall_app in H. tauto.
  Qed.

  Lemma Forall_repeat_S (P : A -> Prop) n x : P x -> Forall P (repeat x n).
  Proof.
    intros H. induction n; cbn; constructor; auto.
  Qed.

  (** ** [last_opt] *)

  Lemma last_opt_app_ne X D : D <> [] -> last_opt (X ++ D) = last_opt D.
  Proof.
    intros HD. induction X as [|x X IH]; [reflexivity|].
    cbn [app last_opt]. destruct (X ++ D) eqn:E.
    - apply app_eq_nil in E. tauto.
    - exact IH.
  Qed.

  Lemma last_opt_snoc X y : last_opt (X ++ [y]) = Some y.
  Proof.
    rewrite last_opt_app_ne by discriminate. reflexivity.
  Qed.

  Lemma last_opt_cons_ne y D : D <> [] -> last_opt (y :: D) = last_opt D.
  Proof.
    intros HD. destruct D; [contradiction|]. reflexivity.
  Qed.

  Lemma length_zero_nil l : length l = 0 -> l = [].
  Proof. destruct l; [reflexivity|discriminate]. Qed.

  Lemma length_pos_ne l : 0 < length l -> l <> [].
  Proof. destruct l; cbn; [lia|discriminate]. Qed.
End Lists.
