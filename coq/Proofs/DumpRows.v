(** Property C11, rows part: replaying [Buffer::dump] on a blank "ready" terminal of the same
    size reproduces the view ([buf_dump_replay]).

    Structure:
    1. parser layer: from [Ground], printable characters print, 13 / 10 are CR / LF,
       [ESC [ n b] is [Rep n] (for [n < 65536]), [pen_dump q] is one [Sgr (pen_ops q)];
    2. machine layer: the invariant [MInv] ties the [vt] to the abstract replay state
       [(done, cur)] and the pen in force; one lemma per piece of dump text
       ([M_print], [M_rep], [M_flush], [M_rep_go], [M_pen], [M_chunks], [M_crlf], [M_rows]);
    3. the theorem. *)

From Coq Require Import Lia ZArith ZifyBool ZifyNat ZifyN.
From Avt Require Import Model.Vt Spec.Williams Spec.Screen Oracles.Rel Proofs.Inv Proofs.ParserTable
     Proofs.ParserInv Proofs.ListLemmasS Proofs.BufRow Proofs.Sgr Proofs.DumpPen Proofs.PenInv
     Proofs.Frames Proofs.InvTerm Proofs.DumpRowsList Proofs.DumpRowsStep.
Ltac Zify.zify_post_hook ::= Z.div_mod_to_equations.

(** * 1. the parser layer *)

Definition GroundP (p : parser) : Prop := PInv p /\ pst p = Ground.

Lemma dr_ground_finite :
  forallb (fun x => implb (printable_c09 x) (trans_eqb (williams Ground x) (stay Ground KPrint)))
          (codes_upto 161) = true.
Proof. vm_compute. reflexivity. Qed.

Lemma dr_ground_print x :
  printable_c09 x = true -> williams Ground x = stay Ground KPrint.
Proof.
  intros Hx. pose proof dr_ground_finite as F. rewrite forallb_forall in F.
  destruct (N.lt_ge_cases x 161) as [H|H].
  - specialize (F x (codes_upto_complete 161 x ltac:(cbn; lia))).
    rewrite Hx in F. cbn [implb] in F. apply trans_eqb_eq. exact F.
  - rewrite williams_high by lia.
    specialize (F 160%N (codes_upto_complete 161 160%N ltac:(cbn; lia))).
    apply trans_eqb_eq. exact F.
Qed.

Lemma step_printable p x :
  GroundP p -> printable_c09 x = true ->
  GroundP (feed_step p x) /\ feed_emit p x = Some (Print x).
Proof.
  intros [HP Hg] Hx. split; [split|].
  - apply feed_step_inv; exact HP.
  - rewrite feed_step_pst, Hg, (dr_ground_print x Hx). reflexivity.
  - unfold feed_emit. rewrite Hg, (dr_ground_print x Hx). reflexivity.
Qed.

Lemma step_cr p : GroundP p -> GroundP (feed_step p 13%N) /\ feed_emit p 13%N = Some Cr.
Proof.
  intros [HP Hg]. split; [split|].
  - apply feed_step_inv; exact HP.
  - rewrite feed_step_pst, Hg. reflexivity.
  - unfold feed_emit. rewrite Hg. reflexivity.
Qed.

Lemma step_lf p : GroundP p -> GroundP (feed_step p 10%N) /\ feed_emit p 10%N = Some Lf.
Proof.
  intros [HP Hg]. split; [split|].
  - apply feed_step_inv; exact HP.
  - rewrite feed_step_pst, Hg. reflexivity.
  - unfold feed_emit. rewrite Hg. reflexivity.
Qed.

(** [ESC [ n b] *)
Lemma run_rep pr (n : N) :
  GroundP pr -> (n < 65536)%N ->
  GroundP (run_step pr ([27; 91]%N ++ show_N n ++ [98%N]))
  /\ run_emit pr ([27; 91]%N ++ show_N n ++ [98%N]) = [Rep n].
Proof.
  intros [HP HG] Hn.
  destruct (run_esc_bracket pr HP HG) as [A1 A2].
  assert (Hok : Forall part_ok [[n]]).
  { constructor; [|constructor]. split; [discriminate|]. split; [cbn; lia|]. constructor; [exact Hn|constructor]. }
  destruct (run_csi_params [[n]] ltac:(discriminate) ltac:(cbn; lia) Hok) as [B1 B2].
  assert (Et : params_text [[n]] = show_N n).
  { unfold params_text, part_text. cbn [map join_with]. rewrite ?app_nil_r. reflexivity. }
  rewrite Et in B1, B2.
  split; [split|].
  - apply run_step_inv. exact HP.
  - rewrite !run_step_app, A1, B1. reflexivity.
  - rewrite !run_emit_app, ?run_step_app, A1, A2, B1, B2. reflexivity.
Qed.

(** * 2. [feed_chars] through the parser *)

Lemma feed_chars_app a : forall v b,
  feed_chars v (a ++ b) = (v' <- feed_chars v a ;; feed_chars v' b).
Proof.
  induction a as [|x a IH]; intros v b; [reflexivity|].
  cbn [app feed_chars]. destruct (vt_feed v x) as [v1|e]; cbn [bind]; [apply IH|reflexivity].
Qed.

Lemma feed_chars_run s : forall v,
  PInv (vparser v) ->
  feed_chars v s = (t' <- foldM execute (run_emit (vparser v) s) (vterm v) ;;
                    Ok (mkVt (run_step (vparser v) s) t')).
Proof.
  induction s as [|x s IH]; intros v HP.
  - cbn [feed_chars run_emit run_step foldM bind]. destruct v; reflexivity.
  - cbn [feed_chars run_emit run_step]. unfold vt_feed. rewrite (feedM_char _ x HP). cbn [bind].
    destruct (feed_emit (vparser v) x) as [f|]; cbn [opt_cons foldM].
    + destruct (execute (vterm v) f) as [t1|e]; cbn [bind]; [|reflexivity].
      rewrite IH by (cbn [vparser]; apply feed_step_inv; exact HP). reflexivity.
    + cbn [bind]. rewrite IH by (cbn [vparser]; apply feed_step_inv; exact HP). reflexivity.
Qed.

Lemma feed_one v txt f t' :
  PInv (vparser v) -> run_emit (vparser v) txt = [f] -> execute (vterm v) f = Ok t' ->
  feed_chars v txt = Ok (mkVt (run_step (vparser v) txt) t').
Proof.
  intros HP Ee Ex. rewrite (feed_chars_run txt v HP), Ee. cbn [foldM]. rewrite Ex. reflexivity.
Qed.

(** * 3. the machine layer *)

Definition cell_ok (x : cell) : Prop := printable_c09 (ch x) = true /\ pen_wf (cpen x).

Lemma pen_wf_default : pen_wf default_pen.
Proof. split; [apply pen_ok_default|reflexivity]. Qed.

Section Machine.
Variables c r : nat.
Variable v0 : vt.

Definition MInv (v : vt) (s : astate) (p : pen) : Prop :=
  GroundP (vparser v) /\ TInv (vterm v) /\ Md (vterm v) /\ Conc c r s (vterm v)
  /\ tpen (vterm v) = p /\ pen_wf p
  /\ pfr (vterm v0) (vterm v) /\ tsb (vterm v) = tsb (vterm v0).

(** a [tfr]-step of the terminal, with the parser back in ground state *)
Lemma MInv_step v s p pr' t' s' :
  MInv v s p -> GroundP pr' -> TInv t' -> tfr (vterm v) t' -> tsb t' = tsb (vterm v) ->
  Conc c r s' t' -> MInv (mkVt pr' t') s' p.
Proof.
  intros (HP & HT & M & HC & Hp & Hwf & HF & HS) HP' HT' F B C'.
  unfold MInv. cbn [vparser vterm].
  split; [exact HP'|]. split; [exact HT'|]. split; [exact (tfr_Md _ _ F M)|].
  split; [exact C'|]. split; [rewrite (tfr_tpen _ _ F); exact Hp|]. split; [exact Hwf|].
  split; [exact (pfr_trans _ _ _ HF (tfr_pfr _ _ F))|congruence].
Qed.

Lemma M_print v s p x :
  MInv v s p -> printable_c09 x = true -> room c r s 1 ->
  exists v', feed_chars v [x] = Ok v' /\ MInv v' (a_put c s [mkCell x p]) p.
Proof.
  intros HM Hx Hroom. pose proof HM as (HP & HT & M & HC & Hp & _).
  destruct (step_printable _ x HP Hx) as [HP' Ee].
  destruct (T_print c r _ s x HT M HC Hroom) as (t' & E & HT' & F & B & C').
  eexists. split.
  - apply (feed_one v [x] (Print x) t' (proj1 HP)); [cbn [run_emit]; rewrite Ee; reflexivity|exact E].
  - rewrite Hp in C'. exact (MInv_step v s p _ t' _ HM HP' HT' F B C').
Qed.

Lemma M_prints x p : forall k v s,
  MInv v s p -> printable_c09 x = true -> room c r s k ->
  exists v', feed_chars v (repeat x k) = Ok v' /\ MInv v' (a_put c s (repeat (mkCell x p) k)) p.
Proof.
  induction k as [|k IH]; intros v s HM Hx Hroom.
  - exists v. split; [reflexivity|exact HM].
  - cbn [repeat].
    change (S k) with (length [mkCell x p] + k) in Hroom.
    rewrite <- (repeat_length (mkCell x p) k) in Hroom at 1.
    destruct (a_put_app c r s _ _ Hroom) as [Eapp Hroom1]. rewrite repeat_length in Hroom1.
    rewrite repeat_length in Hroom.
    destruct (M_print v s p x HM Hx (room_app c r s 1 k Hroom)) as (v1 & E1 & HM1).
    destruct (IH v1 _ HM1 Hx Hroom1) as (v2 & E2 & HM2).
    exists v2. split.
    + change (x :: repeat x k) with ([x] ++ repeat x k). rewrite feed_chars_app, E1. exact E2.
    + rewrite Eapp in HM2. exact HM2.
Qed.

Lemma M_rep v s p x k pre c0 :
  MInv v s p -> snd s = pre ++ [c0] -> ch c0 = x -> 1 <= k -> (N.of_nat k < 65536)%N -> room c r s k ->
  exists v', feed_chars v ([27; 91]%N ++ show_nat k ++ [98%N]) = Ok v'
             /\ MInv v' (a_put c s (repeat (mkCell x p) k)) p.
Proof.
  intros HM Hs Hx Hk Hk2 Hroom. pose proof HM as (HP & HT & M & HC & Hp & _).
  destruct (run_rep _ (N.of_nat k) HP ltac:(lia)) as [HP' Ee].
  destruct (T_rep c r _ s x k pre c0 HT M HC Hs Hx Hk Hroom) as (t' & E & HT' & F & B & C').
  eexists. split.
  - unfold show_nat. apply (feed_one v _ _ t' (proj1 HP) Ee E).
  - rewrite Hp in C'. exact (MInv_step v s p _ t' _ HM HP' HT' F B C').
Qed.

Lemma repeat_snoc {A} (a : A) k : [a] ++ repeat a k = repeat a (S k).
Proof. reflexivity. Qed.

Lemma repeat_snoc_r {A} (a : A) k : repeat a k ++ [a] = repeat a (S k).
Proof. induction k as [|k IH]; [reflexivity|]. cbn [repeat app]. now rewrite IH. Qed.

Lemma M_flush v s p x count :
  MInv v s p -> printable_c09 x = true -> 1 <= count -> (N.of_nat count <= 65536)%N -> room c r s count ->
  exists v', feed_chars v (rep_flush x count) = Ok v'
             /\ MInv v' (a_put c s (repeat (mkCell x p) count)) p.
Proof.
  intros HM Hx H1 H2 Hroom. unfold rep_flush.
  destruct (Nat.ltb_spec 5 count) as [Hbig|Hsmall]; [|apply M_prints; assumption].
  set (cl := mkCell x p).
  assert (Hroom' : room c r s (length [cl] + length (repeat cl (count - 1)))).
  { rewrite repeat_length. cbn [length]. replace (1 + (count - 1)) with count by lia. exact Hroom. }
  destruct (a_put_app c r s _ _ Hroom') as [Eapp Hroom1]. rewrite repeat_length in Hroom1.
  destruct (M_print v s p x HM Hx (room_le c r s 1 count Hroom ltac:(lia))) as (v1 & E1 & HM1).
  fold cl in HM1.
  destruct (a_put_last c s cl []) as (pre & Hpre). cbn [app] in Hpre.
  destruct (M_rep v1 _ p x (count - 1) pre cl HM1 Hpre eq_refl ltac:(lia) ltac:(lia) Hroom1)
    as (v2 & E2 & HM2).
  exists v2. split.
  - change (x :: ?l) with ([x] ++ l). rewrite feed_chars_app, E1. exact E2.
  - fold cl in HM2. rewrite Eapp, repeat_snoc in HM2.
    replace (S (count - 1)) with count in HM2 by lia. exact HM2.
Qed.

Lemma M_rep_go p : forall l x count v s,
  MInv v s p -> printable_c09 x = true ->
  Forall (fun y => printable_c09 (ch y) = true /\ cpen y = p) l ->
  1 <= count -> (N.of_nat (count + length l) <= 65536)%N -> room c r s (count + length l) ->
  exists v', feed_chars v (rep_go x count l) = Ok v'
             /\ MInv v' (a_put c s (repeat (mkCell x p) count ++ l)) p.
Proof.
  induction l as [|y l IH]; intros x count v s HM Hx HF H1 H2 Hroom; cbn [rep_go].
  - cbn [length] in *. rewrite Nat.add_0_r in *. rewrite app_nil_r.
    apply M_flush; assumption.
  - cbn [length] in *. pose proof (Forall_inv HF) as [Hy Hyp]. pose proof (Forall_inv_tail HF) as HF'.
    destruct (N.eqb_spec (ch y) x) as [Eq|Ne].
    + destruct (IH x (S count) v s HM Hx HF' ltac:(lia) ltac:(lia)
                   ltac:(replace (S count + length l) with (count + S (length l)) by lia; exact Hroom))
        as (v' & E & HM').
      exists v'. split; [exact E|].
      replace (repeat (mkCell x p) count ++ y :: l) with (repeat (mkCell x p) (S count) ++ l); [exact HM'|].
      rewrite <- repeat_snoc_r, <- app_assoc. destruct y as [yc yp]. cbn [ch cpen] in *. subst. reflexivity.
    + set (cl := mkCell x p).
      assert (Hroom' : room c r s (length (repeat cl count) + length (y :: l))).
      { rewrite repeat_length. exact Hroom. }
      destruct (a_put_app c r s _ _ Hroom') as [Eapp Hroom1]. cbn [length] in Hroom1.
      assert (Hroom0 : room c r s count) by (apply (room_le c r s _ _ Hroom); lia).
      destruct (M_flush v s p x count HM Hx H1 ltac:(lia) Hroom0) as (v1 & E1 & HM1).
      fold cl in HM1.
      destruct (IH (ch y) 1 v1 _ HM1 Hy HF' ltac:(lia) ltac:(lia) Hroom1) as (v2 & E2 & HM2).
      exists v2. split.
      * rewrite feed_chars_app, E1. exact E2.
      * cbn [repeat app] in HM2.
        replace (mkCell (ch y) p :: l) with (y :: l) in HM2
          by (destruct y as [yc yp]; cbn [ch cpen] in *; subst; reflexivity).
        rewrite Eapp in HM2. exact HM2.
Qed.

Lemma M_pen v s p q :
  MInv v s p -> pen_wf q ->
  exists v', feed_chars v (pen_dump q) = Ok v' /\ MInv v' s q.
Proof.
  intros (HP & HT & M & HC & Hp & Hwf & HF & HS) Hq.
  pose proof (run_pen_dump_ops (vparser v) q (proj1 HP) (proj2 HP) (proj1 Hq)) as R.
  rewrite runP_char in R by exact (proj1 HP). apply Ok_inj in R.
  assert (R1 : run_step (vparser v) (pen_dump q) = (cstate CsiParam (pen_params q)) <| pst := Ground |>)
    by exact (f_equal fst R).
  assert (R2 : run_emit (vparser v) (pen_dump q) = [Sgr (pen_ops q)]) by exact (f_equal snd R).
  set (t' := (vterm v) <| tpen := q |>).
  assert (E : execute (vterm v) (Sgr (pen_ops q)) = Ok t').
  { rewrite C08_execute_sgr, (pen_ops_exact q _ (proj2 Hq)). reflexivity. }
  eexists. split; [exact (feed_one v _ _ t' (proj1 HP) R2 E)|].
  unfold MInv. cbn [vparser vterm].
  split; [split; [apply run_step_inv; exact (proj1 HP)|rewrite R1; reflexivity]|].
  split; [apply TInv_set_tpen; exact HT|]. split; [apply Md_set_tpen; exact M|].
  split; [apply Conc_set_tpen; exact HC|]. split; [destruct (vterm v); reflexivity|].
  split; [exact Hq|]. split; [exact (pfr_trans _ _ _ HF (pfr_set_tpen _ _))|].
  unfold t'. rewrite tsb_set_tpen. exact HS.
Qed.

Lemma M_chunks : forall cks p s v txt p',
  dump_chunks cks p = Ok (txt, p') -> MInv v s p ->
  Forall chunk_ok cks -> Forall (Forall cell_ok) cks ->
  (N.of_nat (length (concat cks)) <= 65536)%N -> room c r s (length (concat cks)) ->
  exists v', feed_chars v txt = Ok v' /\ MInv v' (a_put c s (concat cks)) p'.
Proof.
  induction cks as [|ck cks IH]; intros p s v txt p' D HM Hck Hcell Hlen Hroom.
  - cbn [dump_chunks] in D. apply Ok_inj in D. injection D as <- <-.
    exists v. split; [reflexivity|exact HM].
  - cbn [dump_chunks] in D. pose proof (Forall_inv Hck) as Hc1. pose proof (Forall_inv Hcell) as Hce1.
    destruct ck as [|c0 r0]; [contradiction|].
    cbn [concat] in Hlen, Hroom. rewrite app_length in Hlen, Hroom.
    destruct (a_put_app c r s _ _ Hroom) as [Eapp Hroom1].
    pose proof (Forall_inv Hce1) as [Hx0 Hwf0].
    (* bring the pen of the chunk in force *)
    assert (Hpre : exists pre, (if negb (pen_eqb (cpen c0) p) then (pen_dump (cpen c0), cpen c0) else ([], p))
                               = (pre, cpen c0)
                               /\ exists v1, feed_chars v pre = Ok v1 /\ MInv v1 s (cpen c0)).
    { destruct (pen_eqb (cpen c0) p) eqn:Ep; cbn [negb].
      - apply dr_pen_eqb_eq in Ep. exists []. rewrite Ep. split; [reflexivity|].
        exists v. split; [reflexivity|]. rewrite <- Ep. rewrite <- Ep in HM. exact HM.
      - eexists. split; [reflexivity|]. apply (M_pen v s p); assumption. }
    destruct Hpre as (pre & Epre & v1 & E1 & HM1). rewrite Epre in D.
    cbn [rep_encode bind] in D.
    destruct (dump_chunks cks (cpen c0)) as [[rest p'']|e] eqn:Drest; cbn [bind] in D; [|discriminate].
    apply Ok_inj in D. injection D as <- <-.
    (* the body *)
    assert (HF0 : Forall (fun y => printable_c09 (ch y) = true /\ cpen y = cpen c0) r0).
    { unfold chunk_ok, upen in Hc1. pose proof (Forall_inv_tail Hc1) as Hu.
      pose proof (Forall_inv_tail Hce1) as Hcs.
      rewrite Forall_forall in *. intros y Hy. split; [apply (Hcs y Hy)|apply (Hu y Hy)]. }
    cbn [length] in Hlen, Hroom.
    assert (Hroom0 : room c r s (1 + length r0))
      by (apply (room_le c r s _ _ Hroom); lia).
    destruct (M_rep_go (cpen c0) r0 (ch c0) 1 v1 s HM1 Hx0 HF0 (le_n 1) ltac:(lia) Hroom0)
      as (v2 & E2 & HM2).
    cbn [repeat app] in HM2.
    replace (mkCell (ch c0) (cpen c0)) with c0 in HM2 by (destruct c0; reflexivity).
    destruct (IH (cpen c0) _ v2 rest p'' Drest HM2 (Forall_inv_tail Hck) (Forall_inv_tail Hcell)
                ltac:(lia) Hroom1) as (v3 & E3 & HM3).
    exists v3. split.
    + rewrite feed_chars_app, E1. cbn [bind]. rewrite feed_chars_app, E2. exact E3.
    + cbn [concat]. rewrite <- Eapp. exact HM3.
Qed.

Lemma M_crlf v s p :
  MInv v s p -> length (fst s) + 1 < r ->
  exists v', feed_chars v [13; 10]%N = Ok v' /\ MInv v' (a_crlf c s) p.
Proof.
  intros HM Hlt. pose proof HM as (HP & HT & M & HC & Hp & _).
  destruct (step_cr _ HP) as [HP1 Ee1]. destruct (step_lf _ HP1) as [HP2 Ee2].
  destruct (T_crlf c r _ s HT M HC Hlt) as (t1 & t2 & E1 & E2 & HT2 & F & B & C').
  eexists. split.
  - rewrite (feed_chars_run _ v (proj1 HP)). cbn [run_emit run_step]. rewrite Ee1, Ee2.
    cbn [opt_cons foldM]. rewrite E1. cbn [bind]. rewrite E2. reflexivity.
  - apply (MInv_step v s p _ t2 _ HM HP2 HT2 F); [|exact C']. unfold tsb. rewrite B. reflexivity.
Qed.

(** ** rows *)

Definition row_ok (l : line) : Prop := length (cells l) = c /\ Forall cell_ok (cells l).

(** the abstract state at a row boundary, [pre] being the original rows replayed so far:
    fresh on the next row; or wrap-pending after a soft-wrapped row; or wrap-pending after
    the (unwrapped) last row of the screen *)
Definition J (s : astate) (pre : list line) : Prop :=
  (snd s = [] /\ fst s = pre)
  \/ (length (snd s) = c /\ pre = fst s ++ [mkLine (snd s) true])
  \/ (length (snd s) = c /\ pre = fst s ++ [mkLine (snd s) false] /\ length pre = r).

Lemma M_rows : forall vs i p s pre v txt,
  1 <= c -> (N.of_nat c <= 65536)%N ->
  dump_rows vs i (r - 1) p = Ok txt -> MInv v s p -> J s pre -> length pre = i ->
  i + length vs <= r -> Forall row_ok vs ->
  exists v' s' p', feed_chars v txt = Ok v' /\ MInv v' s' p' /\ J s' (pre ++ vs).
Proof.
  induction vs as [|l vs IH]; intros i p s pre v txt Hc1 Hc2 D HM HJ Hpre Hlen Hrows.
  - cbn [dump_rows] in D. apply Ok_inj in D. subst txt.
    exists v, s, p. split; [reflexivity|]. split; [exact HM|]. rewrite app_nil_r. exact HJ.
  - cbn [dump_rows] in D. cbn [length] in Hlen.
    pose proof (Forall_inv Hrows) as [Hl Hcells].
    destruct (dump_chunks (chunks l) p) as [[stxt p1]|e] eqn:Dc; cbn [bind] in D; [|discriminate].
    destruct (dump_rows vs (S i) (r - 1) p1) as [rest|e] eqn:Dr; cbn [bind] in D; [|discriminate].
    apply Ok_inj in D. subst txt.
    (* the state after the cells of the row *)
    destruct s as [dn cur]. unfold J in HJ. cbn [fst snd] in HJ.
    assert (Hroom : room c r (dn, cur) (length (concat (chunks l)))).
    { rewrite chunks_concat, Hl. unfold room.
      destruct HJ as [[-> ->]|[[Hcur ->]|[Hcur [-> Hr]]]].
      - cbn [length]. lia.
      - rewrite app_length in Hpre. cbn [length] in Hpre. lia.
      - lia. }
    assert (Eput : a_put c (dn, cur) (cells l) = (pre, cells l)).
    { unfold a_put. destruct (cells l) as [|x xs] eqn:El; [cbn [length] in Hl; lia|].
      destruct HJ as [[-> ->]|[[Hcur ->]|[Hcur [-> Hr]]]].
      - cbn [length]. replace (0 <? c) with true by lia. reflexivity.
      - replace (length cur <? c) with false by lia. reflexivity.
      - lia. }
    assert (Hcell : Forall (Forall cell_ok) (chunks l)).
    { pose proof (chunks_concat l) as Ec. rewrite <- Ec in Hcells.
      revert Hcells. generalize (chunks l). intros cks. induction cks as [|ck cks IHc]; intros H; [constructor|].
      cbn [concat] in H. apply Forall_app in H as [Ha Hb]. constructor; [exact Ha|exact (IHc Hb)]. }
    destruct (M_chunks (chunks l) p (dn, cur) v stxt p1 Dc HM (chunks_ok l) Hcell
                ltac:(rewrite chunks_concat, Hl; lia) Hroom) as (v1 & E1 & HM1).
    rewrite chunks_concat, Eput in HM1.
    (* the line break *)
    assert (Hnl : exists v2 s2,
               feed_chars v1 (if (i <? r - 1) && negb (wrapped l) then [13; 10]%N else []) = Ok v2
               /\ MInv v2 s2 p1 /\ J s2 (pre ++ [l])).
    { destruct (wrapped l) eqn:Ew; cbn [negb]; rewrite ?andb_false_r, ?andb_true_r.
      - exists v1, (pre, cells l). split; [reflexivity|]. split; [exact HM1|].
        right. left. cbn [fst snd]. split; [exact Hl|]. f_equal. f_equal. rewrite <- Ew. destruct l; reflexivity.
      - destruct (Nat.ltb_spec i (r - 1)) as [Hi|Hi].
        + destruct (M_crlf v1 _ p1 HM1 ltac:(cbn [fst]; lia)) as (v2 & E2 & HM2).
          exists v2, (a_crlf c (pre, cells l)). split; [exact E2|]. split; [exact HM2|].
          left. unfold a_crlf. cbn [fst snd]. split; [reflexivity|]. f_equal. f_equal.
          rewrite Hl, Nat.sub_diag. unfold blanks. cbn [repeat]. rewrite app_nil_r.
          rewrite <- Ew. destruct l; reflexivity.
        + exists v1, (pre, cells l). split; [reflexivity|]. split; [exact HM1|].
          right. right. cbn [fst snd]. split; [exact Hl|]. split.
          * f_equal. f_equal. rewrite <- Ew. destruct l; reflexivity.
          * rewrite app_length. cbn [length]. lia. }
    destruct Hnl as (v2 & s2 & E2 & HM2 & HJ2).
    destruct (IH (S i) p1 s2 (pre ++ [l]) v2 rest Hc1 Hc2 Dr HM2 HJ2
                ltac:(rewrite app_length; cbn [length]; lia) ltac:(lia) (Forall_inv_tail Hrows))
      as (v3 & s3 & p3 & E3 & HM3 & HJ3).
    exists v3, s3, p3. split.
    + rewrite feed_chars_app, E1. cbn [bind]. rewrite feed_chars_app, E2. exact E3.
    + split; [exact HM3|]. rewrite <- app_assoc in HJ3. exact HJ3.
Qed.

End Machine.

(** * 4. the theorem *)

Definition Ready (t : term) : Prop :=
  TInv t /\ awm t = true /\ ins t = false /\ cs0 t = CsAscii /\ cs1 t = CsAscii /\ acs t = 0
  /\ top t = 0 /\ bot t = rows t - 1
  /\ cur_col t = 0 /\ cur_row t = 0 /\ pend t = false /\ tpen t = default_pen
  /\ tview t = repeat (blank_line (cols t) default_pen) (rows t).

Definition printable_view (ls : list line) : Prop :=
  Forall (fun l => Forall (fun x => printable_c09 (ch x) = true) (cells l)) ls.

Theorem buf_dump_replay : forall b v d,
  BGeom b -> (N.of_nat (bcols b) <= 65536)%N ->
  printable_view (view b) -> lines_wf (view b) -> last_not_wrapped (view b) ->
  Ready (vterm v) -> PInv (vparser v) -> pst (vparser v) = Ground ->
  cols (vterm v) = bcols b -> rows (vterm v) = brows b ->
  buf_dump b = Ok d ->
  exists v',
    feed_chars v d = Ok v'
    /\ pst (vparser v') = Ground /\ PInv (vparser v') /\ TInv (vterm v')
    /\ tview (vterm v') = view b
    /\ tsb (vterm v') = tsb (vterm v)
    /\ vterm v' = (vterm v) <| buf := buf (vterm v') |> <| cur_col := cur_col (vterm v') |>
                             <| cur_row := cur_row (vterm v') |> <| pend := pend (vterm v') |>
                             <| tpen := tpen (vterm v') |> <| dirty := dirty (vterm v') |>
    /\ pen_wf (tpen (vterm v')).
Proof.
  intros b v d HG Hwide Hpr Hwf Hlast HR HP Hgr Hcols Hrows D.
  destruct HR as (HT & Hawm & Hins & Hcs0 & Hcs1 & Hacs & Htop & Hbot & Hcc & Hcr & Hpd & Hpen & Hview).
  set (c := bcols b) in *. set (r := brows b) in *. set (V := view b) in *.
  destruct HG as (G1 & G2 & G3 & G4).
  assert (HGb : BGeom b) by (repeat split; assumption).
  assert (HVl : length V = r) by (apply view_length; exact HGb).
  assert (HVF : Forall (LineInv c) V) by (apply view_Forall; exact HGb).
  (* unfold the dump *)
  unfold buf_dump, viewM in D. rewrite (view_ok_true b HGb) in D. cbn [bind] in D.
  replace (1 <=? brows b) with true in D by (fold r; lia). cbn [guard bind] in D.
  fold V r in D. set (k := dump_cutoff V 0 false 0) in *.
  destruct (cutoff_facts c V HVF Hlast) as (Hk & Hsplit & Hlk). fold k in Hk, Hsplit, Hlk.
  (* the initial state *)
  assert (HM0 : MInv c r v v ([], []) default_pen).
  { unfold MInv. split; [split; assumption|]. split; [exact HT|].
    split; [constructor; assumption|]. split.
    - unfold Conc. cbn [fst snd length]. repeat split; try assumption.
      rewrite Hview, Hcols, Hrows. fold c r. unfold sview. cbn [app length].
      rewrite !Nat.sub_0_r. replace r with (S (r - 1)) at 1 by lia. reflexivity.
    - split; [exact Hpen|]. split; [apply pen_wf_default|]. split; [apply pfr_refl|reflexivity]. }
  assert (Hrowsok : Forall (row_ok c) (firstn k V)).
  { apply Forall_firstn_S. unfold printable_view, lines_wf, cells_wf in *.
    rewrite Forall_forall in *. intros l Hl. split; [apply (HVF l Hl)|].
    specialize (Hpr l Hl). specialize (Hwf l Hl). rewrite Forall_forall in *.
    intros x Hx. split; [apply (Hpr x Hx)|apply (Hwf x Hx)]. }
  destruct (M_rows c r v (firstn k V) 0 default_pen ([], []) [] v d G1 Hwide D HM0
              ltac:(left; split; reflexivity) eq_refl
              ltac:(rewrite firstn_length; lia) Hrowsok)
    as (v' & s' & p' & E & HM' & HJ').
  cbn [app] in HJ'.
  destruct HM' as ((HP' & Hg') & HT' & M' & (Hc' & Hr' & Hv' & Hcol' & Hrow') & Hp' & Hwf' & HF' & HS').
  exists v'. split; [exact E|]. split; [exact Hg'|]. split; [exact HP'|]. split; [exact HT'|].
  split; [|split; [exact HS'|split; [apply pfr_record; exact HF'|rewrite Hp'; exact Hwf']]].
  (* the final view *)
  rewrite Hv'. destruct s' as [dn cur]. unfold J in HJ'. cbn [fst snd] in *.
  assert (Hfl : length (firstn k V) = k) by (rewrite firstn_length; lia).
  pose proof (ti_row _ HT') as Hrw. rewrite Hr', Hrow' in Hrw.
  destruct HJ' as [[-> ->]|[[Hcur Epre]|[Hcur [Epre Hlen]]]].
  - unfold sview. cbn [app length]. rewrite Hfl in *. rewrite Nat.sub_0_r.
    transitivity (firstn k V ++ repeat (blank_line c default_pen) (length V - k));
      [|symmetry; exact Hsplit].
    f_equal. rewrite HVl.
    remember (r - k - 1) as m eqn:Em. replace (r - k) with (S m) by lia. reflexivity.
  - exfalso. unfold last_not_wrapped in Hlk. rewrite Epre, last_opt_snoc in Hlk. discriminate.
  - rewrite Hfl in Hlen. subst k. rewrite Hlen, <- HVl, firstn_all in Epre.
    unfold sview. rewrite Epre. f_equal.
    assert (Hd : length dn = r - 1).
    { rewrite <- HVl, Epre, app_length. cbn [length]. lia. }
    rewrite Hd, Hcur, Nat.sub_diag. replace (r - (r - 1) - 1) with 0 by lia.
    unfold blanks. cbn [repeat]. rewrite app_nil_r. reflexivity.
Qed.
Print Assumptions buf_dump_replay.

(** a freshly constructed terminal is ready *)
Lemma Ready_new c r l : 1 <= c -> 1 <= r -> Ready (term_new_gen c r l).
Proof.
  intros Hc Hr. unfold Ready. split; [apply term_new_TInv; assumption|].
  repeat (split; [reflexivity|]).
  unfold tview, view, sb_len, term_new_gen, buffer_new. cbn [buf lines brows cols rows].
  rewrite repeat_length, Nat.sub_diag. reflexivity.
Qed.

Corollary buf_dump_replay_new : forall b l d,
  BGeom b -> (N.of_nat (bcols b) <= 65536)%N ->
  printable_view (view b) -> lines_wf (view b) -> last_not_wrapped (view b) ->
  buf_dump b = Ok d ->
  exists v', feed_chars (vt_new (bcols b) (brows b) l) d = Ok v' /\ tview (vterm v') = view b.
Proof.
  intros b l d HG Hw Hp Hwf Hl D. pose proof HG as (G1 & G2 & _).
  destruct (buf_dump_replay b (vt_new (bcols b) (brows b) l) d HG Hw Hp Hwf Hl
              (Ready_new _ _ l G1 G2) init_parser_PInv eq_refl eq_refl eq_refl D)
    as (v' & E & _ & _ & _ & Hv & _).
  exists v'. split; assumption.
Qed.
Print Assumptions buf_dump_replay_new.
