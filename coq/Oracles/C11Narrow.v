(** Executable classes of the C11 known findings, refined by Proofs/C11More.v (definitions only; extracted). *)
From Coq Require Import List Arith NArith Bool.
From Avt Require Import Model.Vt Spec.Screen Spec.Eqb Oracles.Step Oracles.Rel.
Import ListNotations.

(** KF-C11-1, exact extent: in the [CSI u] branch of step 9 of Terminal::dump (origin mode on, cursor outside the region)
    the restore is still exact iff the saved context has origin mode on, has auto-wrap on or the terminal has neither
    auto-wrap on nor a pending wrap, and no margin lies between the saved row and the cursor row *)
Definition kf1_restorable (t : term) : bool :=
  sc_origin (sctx t)
  && (sc_awm (sctx t) || negb (awm t || pend t))
  && negb ((cur_row t <? top t) && (top t <=? sc_row (sctx t)))
  && negb ((bot t <? cur_row t) && (sc_row (sctx t) <=? bot t)).

Definition kf1_C11_narrow (t : term) : bool := kf1_C11 t && negb (kf1_restorable t).


(** KF-C11-3, second half: primary screen showing and the alternate screen's saved cursor at column or row >= 65535 *)
Definition kf3b_C11 (t : term) : bool :=
  negb (is_alt_b t)
  && ((65535 <=? N.of_nat (sc_col (asctx t)))%N || (65535 <=? N.of_nat (sc_row (asctx t)))%N).

