(** C16, the text of the primary screen on RETURN from the alternate screen (audit: global gaps 1 and 9,
    C16 clauses 5-7).  Executable statement only; proved in [Proofs/C16Text.v].

    Vocabulary ([Spec/Logical.v]): [L] = [logical_t (lines (other t))] are the logical lines (rows joined across
    soft-wrap marks, trailing default blanks dropped) of the PARKED primary, scrollback included; [L'] those of the
    primary that is showing after the return.

    [tail_ok L' L] read on the WHOLE lists is the cursor-free statement: [L'] agrees with [L] cell for cell up to some
    logical line, that line is possibly cut short (a prefix), and whatever follows in [L'] is empty - nothing is
    invented, reordered or altered; text is at most cut at ONE place, and everything after the cut is gone.
    [existsb (text_at L L')] is the same fact in the shape of [resize_preserves] ("there is a k such that ...");
    it follows from [tail_ok L' L] ([tail_ok_text_at]) and is kept because the cursor-aware clauses name that k. *)

From Avt Require Export Oracles.Step Oracles.Rel Spec.Logical.

(** the cursor-independent conjuncts of [resize_preserves] at logical line [k] *)
Definition text_at (L L' : list (list cell)) (k : nat) : bool :=
  list_eqb cells_eqb (firstn k L') (firstn k L)
  && is_prefix (nth k L' []) (nth k L [])
  && tail_ok (skipn (S k) L') (skipn (S k) L).

(** all text conjuncts of [resize_preserves] for a translation cursor at logical line [k], cell offset [o]:
    nothing before offset [o] of line [k] is lost except trailing default blanks *)
Definition text_upto (L L' : list (list cell)) (k o : nat) : bool :=
  let old_k := nth k L [] in
  let new_k := nth k L' [] in
  let m := length old_k in
  text_at L L' k
  && eq_upto_blank (firstn (Nat.min o m) new_k) (firstn (Nat.min o m) old_k).

(** cursor-free: [L'] is [L] cut at one place at most, then only empty lines *)
Definition return_text_ok (L L' : list (list cell)) : bool :=
  tail_ok L' L && existsb (text_at L L') (seq 0 (S (length L))).

(** One [Decrst ms] step that goes Alternate -> Primary, for EVERY mode list [ms], every scrollback limit and every
    pair of geometries (parked / current):
    - the cursor-free text clause;
    - unchanged geometry: the lines come back exactly (scrollback, wrap marks included);
    - the geometry invariants of the post-state;
    - for the plain returns [?47l] / [?1047l] ([Decrst [AltScreenBuffer]]) the translation cursor handed to
      [Buffer::resize] is the ALTERNATE screen's cursor [(cur_col t, cur_row t)] read in the parked buffer's
      coordinates: [curs (other t) ..] is its logical line [k] and offset [o]; a row below the parked view is clamped
      by [curs] to [k = length L] ("after the last line": then nothing at all is cut).  Everything above logical line
      [k] and everything before offset [o] in it survives; when the row lies inside the parked view the whole of
      [resize_preserves] holds (the new cursor is on the same logical line / the same character);
    - for [?1049l] the translation cursor is the saved one, inside the parked view by the invariant: the whole of
      [resize_preserves] (this is the [Decrst [SaveCursorAltScreenBuffer]] clause of [holds_C16_resized] without
      its restriction to [sb_limit = None]). *)
Definition holds_C16_return_text (pre : vt) (f : func) (post : vt) : bool :=
  let t := vterm pre in
  let t' := vterm post in
  if is_alt_b t && negb (is_alt_b t') then
    match f with
    | Decrst ms =>
      let L := logical_t (lines (other t)) in
      let L' := logical_t (lines (buf t')) in
      return_text_ok L L'
      && (if (bcols (other t) =? cols t) && (brows (other t) =? rows t)
          then lines_eqb (lines (buf t')) (lines (other t)) else true)
      && holds_C02_state post
      && match ms with
         | [AltScreenBuffer] =>
           (let '(k, o) := curs (other t) (cur_col t) (cur_row t) in text_upto L L' k o)
           && (if cur_row t <? brows (other t)
               then resize_preserves (other t) (cur_col t) (cur_row t) (buf t') (cur_col t') (cur_row t')
               else true)
         | [SaveCursorAltScreenBuffer] =>
           let c := saved_of t Primary in
           resize_preserves (other t) (sc_col c) (sc_row c) (buf t') (cur_col t') (cur_row t')
         | _ => true
         end
    | _ => true
    end
  else true.

(** the same text clause against an arbitrary reference buffer: used by the excursion theorem, where the reference is
    the primary buffer as it was BEFORE entering the alternate screen *)
Definition excursion_text_ok (before : buffer) (after : buffer) : bool :=
  return_text_ok (logical_t (lines before)) (logical_t (lines after))
  && (if (bcols before =? bcols after) && (brows before =? brows after)
      then lines_eqb (lines after) (lines before) else true).
