(** Executable statements: one boolean predicate per property over an
    (implementation pre-state, operation, implementation post-state) triple.
    The same predicates are the conclusions of the theorems in [Properties/]. *)

From Avt Require Export Spec.Screen Spec.Inert Spec.Williams Spec.Functions.
From Avt Require Import Model.Parser.

(** * C02 *)
Definition holds_C02_state (v : vt) : bool :=
  let t := vterm v in
  geom_ok t && buffer_geom_ok (other t).

Definition holds_C02_call (o : op) (post : vt) (ls : list nat) : bool :=
  let t := vterm post in
  holds_C02_state post
  && strictly_increasing_below (rows t) None ls
  && match o with
     | Resize c r => (cols t =? c) && (rows t =? r)
     | _ => true
     end.

(** * C04 *)
Definition holds_C04 (pre : vt) (f : func) (post : vt) : bool :=
  let t := vterm pre in
  match f with
  | Print c => visible_eqb (spec_print t c) (vterm post)
  | Rep n => visible_eqb (spec_rep t n) (vterm post)
  | So => visible_eqb (t <| acs := 1 |>) (vterm post)
  | Si => visible_eqb (t <| acs := 0 |>) (vterm post)
  | Gzd4 c => visible_eqb (t <| cs0 := c |>) (vterm post)
  | G1d4 c => visible_eqb (t <| cs1 := c |>) (vterm post)
  | _ => true
  end.

(** * C05 *)
Definition holds_C05 (pre : vt) (f : func) (post : vt) : bool :=
  match spec_cursor (vterm pre) f with
  | Some t' => visible_eqb t' (vterm post)
  | None => true
  end.

(** * C06 *)
Definition holds_C06 (pre : vt) (f : func) (post : vt) : bool :=
  let t := vterm pre in
  let t' := vterm post in
  (match spec_scroll t f with
   | Some e => visible_eqb e t'
   | None => true
   end)
  && (if may_touch_scrollback f then true
      else lines_eqb (tsb t) (tsb t') && buffer_vis_eqb (other t) (other t'))
  && (match f with
      | Decstbm _ _ => true   (* margins: in spec_cursor (C05) *)
      | Decstr | Ris | Decset _ | Decrst _ | Xtwinops _ => true
      | _ => (top t =? top t') && (bot t =? bot t')
      end).

(** * C07 *)
Definition holds_C07 (pre : vt) (f : func) (post : vt) : bool :=
  match spec_edit (vterm pre) f with
  | Some t' => visible_eqb t' (vterm post)
  | None => true
  end.

(** the emitted SGR ops are the grammar's reading of the parameters as written (C03 / C08) *)
Definition sgr_op_eqb (a b : sgr_op) : bool :=
  match a, b with
  | SetForegroundColor c, SetForegroundColor d
  | SetBackgroundColor c, SetBackgroundColor d => color_eqb c d
  | Reset, Reset | SetBoldIntensity, SetBoldIntensity
  | SetFaintIntensity, SetFaintIntensity | SetItalic, SetItalic
  | SetUnderline, SetUnderline | SetBlink, SetBlink | SetInverse, SetInverse
  | SetStrikethrough, SetStrikethrough | ResetIntensity, ResetIntensity
  | ResetItalic, ResetItalic | ResetUnderline, ResetUnderline
  | ResetBlink, ResetBlink | ResetInverse, ResetInverse
  | ResetStrikethrough, ResetStrikethrough
  | ResetForegroundColor, ResetForegroundColor
  | ResetBackgroundColor, ResetBackgroundColor => true
  | _, _ => false
  end.

Definition sgr_decode_ok (ops : list sgr_op) (p : parser) : bool :=
  list_eqb sgr_op_eqb ops (spec_sgr_params (firstn (S (cur_param p)) (params p))).

Definition holds_C03_sgr (f : func) (post : vt) : bool :=
  match f with Sgr ops => sgr_decode_ok ops (vparser post) | _ => true end.

(** * C03: what one character emits according to the hand-written tables (Williams diagram +
    function table), given the parser's state before that character *)
Definition spec_emit (p : parser) (c : N) : option func :=
  match t_kind (williams (pst p) c) with
  | KPrint => Some (Print c)
  | KExecute => execute_spec c
  | KCsiDispatch => csi_spec (params p) (cur_param p) (inter p) c
  | KEscDispatch => esc_spec (inter p) c
  | _ => None
  end.

(** one step of the SPECIFICATION parser: Williams' transition + entry action, the hand-written function table for what is
    emitted.  Independent of the generated tables; [Proofs/SpecParser.v] proves it equal to the model's [feedM]. *)
Definition spec_feed (p : parser) (c : N) : parser * option func :=
  let t := williams (pst p) c in
  let p1 := if t_clear t then clear p
            else match t_kind t with
                 | KCollect => collect p c
                 | KParam => param_step p c
                 | _ => p
                 end in
  (p1 <| pst := t_next t |>, spec_emit p c).

Fixpoint spec_run (p : parser) (cs : list N) : parser * list func :=
  match cs with
  | [] => (p, [])
  | c :: r =>
    let '(p1, f) := spec_feed p c in
    let '(p2, fs) := spec_run p1 r in
    (p2, match f with Some x => x :: fs | None => fs end)
  end.

(** * C08 *)
Definition holds_C08 (pre : vt) (f : func) (post : vt) : bool :=
  let t := vterm pre in
  match f with
  | Sgr ops =>
    obs_eqb (observe (tpen (vterm post))) (fold_left spec_sgr_one ops (observe (tpen t)))
    && visible_eqb (t <| tpen := tpen (vterm post) |>) (vterm post)
    (* decoding: the emitted ops are the grammar's reading of the parameters *)
    && sgr_decode_ok ops (vparser post)
  | _ => pen_eqb (tpen t) (tpen (vterm post))
         || match f with Decrc | Scorc | Decrst _ | Decstr | Ris => true | _ => false end
  end.

(** * C13 *)
Definition holds_C13 (post : vt) : bool :=
  let t := vterm post in
  let n := length (lines (buf t)) in
  match active t with
  | Alternate => n =? rows t
  | Primary =>
    match sb_limit t with
    | None => true
    | Some l => (N.of_nat n <=? N.of_nat (rows t) + l + l / 10)%N
                && (if (l =? 0)%N then n =? rows t else true)
    end
  end.

(** * C15: [prev] is the view at the previous report (or at construction) *)
Definition holds_C15 (prev : list line) (post : vt) (ls : list nat) : bool :=
  let v := tview (vterm post) in
  forallb (fun r => existsb (Nat.eqb r) ls
                    || ((length prev =? length v)
                        && list_eqb cell_eqb (cells (row_at prev r)) (cells (row_at v r))))
          (seq 0 (length v)).

(** * C16 *)
Definition is_alt_b (t : term) : bool := btype_eqb (active t) Alternate.

Definition holds_C16 (pre : vt) (f : func) (post : vt) : bool :=
  let t := vterm pre in
  let t' := vterm post in
  if is_alt_b t && is_alt_b t' then
    (* nothing done on the alternate screen touches the parked primary *)
    buffer_vis_eqb (other t) (other t')
  else if negb (is_alt_b t) && is_alt_b t' then
    (* entering: primary parked unchanged, alternate blank in the current pen *)
    buffer_vis_eqb (buf t) (other t')
    && lines_eqb (lines (buf t')) (repeat (blank_line (cols t) (tpen t)) (rows t))
    && (match f with
        | Decset [SaveCursorAltScreenBuffer] => ctx_eqb (asctx t') (spec_saved_now t)
        | Decset [AltScreenBuffer] => ctx_eqb (asctx t') (sctx t)
        | _ => true
        end)
  else if is_alt_b t && negb (is_alt_b t') then
    match f with
    | Decrst _ =>
      (* leaving with unchanged size: the primary comes back exactly *)
      if (bcols (other t) =? cols t) && (brows (other t) =? rows t)
      then lines_eqb (lines (buf t')) (lines (other t))
      else true
    | _ => true
    end
  else true.

(** * C17 *)
Definition clamp_ctx (c : saved_ctx) (ncols nrows : nat) : saved_ctx :=
  c <| sc_col := Nat.min (sc_col c) (ncols - 1) |> <| sc_row := Nat.min (sc_row c) (nrows - 1) |>.

Definition other_screen (s : btype) : btype :=
  match s with Primary => Alternate | Alternate => Primary end.

Definition holds_C17 (pre : vt) (f : func) (post : vt) : bool :=
  let t := vterm pre in
  let t' := vterm post in
  let a := active t in
  match f with
  | Decsc | Scosc | Decset [SaveCursor] =>
    visible_eqb (t <| sctx := spec_saved_now t |>) t'
  | Decrc | Scorc | Decrst [SaveCursor] =>
    visible_eqb (spec_restore t) t'
    && (cur_col t' <? cols t') && (cur_row t' <? rows t')
  | Decset [SaveCursorAltScreenBuffer] =>
    (* saved on the screen that was active, then the alternate screen is shown *)
    ctx_eqb (saved_of t' a) (spec_saved_now t)
  | Decrst [SaveCursorAltScreenBuffer] =>
    (* back on the primary screen, with the primary's saved context restored *)
    let c := saved_of t Primary in
    pen_eqb (tpen t') (sc_pen c) && Bool.eqb (org t') (sc_origin c) && Bool.eqb (awm t') (sc_awm c)
    && negb (pend t') && (cur_col t' <? cols t') && (cur_row t' <? rows t')
    && (if (bcols (primary_buffer t) =? cols t) && (brows (primary_buffer t) =? rows t)
        then (cur_col t' =? sc_col c) && (cur_row t' =? sc_row c) else true)
  | Decstr =>
    ctx_eqb (saved_of t' a) default_ctx && ctx_eqb (saved_of t' (other_screen a)) (saved_of t (other_screen a))
  | Ris => ctx_eqb (sctx t') default_ctx && ctx_eqb (asctx t') default_ctx
  | Decset _ | Decrst _ | Xtwinops _ => true
  | _ => ctx_eqb (sctx t) (sctx t') && ctx_eqb (asctx t) (asctx t') && btype_eqb (active t) (active t')
  end.

(** C17 (separate contexts): switching screens / toggling DEC modes other than the two save-cursor ones keeps the saved
    context of EACH screen (up to the clamp into the current size that a return to a resized primary performs) *)
Definition no_save_modes (ms : list dec_mode) : bool :=
  forallb (fun m => match m with SaveCursor | SaveCursorAltScreenBuffer => false | _ => true end) ms.

Definition holds_C17_switch (pre : vt) (f : func) (post : vt) : bool :=
  let t := vterm pre in
  let t' := vterm post in
  match f with
  | Decset ms | Decrst ms =>
    if no_save_modes ms then
      forallb (fun s => ctx_eqb (clamp_ctx (saved_of t' s) (cols t') (rows t')) (clamp_ctx (saved_of t s) (cols t') (rows t')))
              [Primary; Alternate]
    else true
  | _ => true
  end.

Definition holds_C17_resize (pre : vt) (post : vt) : bool :=
  let t := vterm pre in
  let t' := vterm post in
  ctx_eqb (sctx t') (clamp_ctx (sctx t) (cols t') (rows t')) && ctx_eqb (asctx t') (asctx t).

(** * C18 *)
Fixpoint strictly_sorted (l : list nat) : bool :=
  match l with
  | a :: ((b :: _) as r) => (a <? b) && strictly_sorted r
  | _ => true
  end.

Definition stops_agree (bound : nat) (l : list nat) (f : nat -> bool) : bool :=
  forallb (fun k => Bool.eqb (is_stop l k) (f k)) (seq 0 (bound + 2))
  && forallb (fun k => k <? bound) l && strictly_sorted l.

Definition holds_C18 (pre : vt) (f : func) (post : vt) : bool :=
  let t := vterm pre in
  let t' := vterm post in
  let col := cur_col t in
  match f with
  | Hts | Ctc CtcSet =>
    stops_agree (cols t) (tabs t') (fun k => is_stop (tabs t) k || ((k =? col) && (0 <? col) && (col <? cols t)))
  | Ctc CtcClearCurrentColumn | Tbc TbcCurrentColumn =>
    stops_agree (cols t) (tabs t') (fun k => is_stop (tabs t) k && negb (k =? col))
  | Ctc CtcClearAll | Tbc TbcAll => match tabs t' with [] => true | _ => false end
  | Ris => stops_agree (cols t) (tabs t') (default_stop (cols t))
  | Xtwinops _ => true
  | _ => list_eqb Nat.eqb (tabs t) (tabs t')
  end.

Definition holds_C18_resize (pre : vt) (post : vt) : bool :=
  let t := vterm pre in
  let t' := vterm post in
  stops_agree (cols t') (tabs t')
    (fun k => (is_stop (tabs t) k && (k <? cols t'))
              || ((cols t <=? k) && (k <? cols t') && (k mod 8 =? 0) && (0 <? k))).

(** a terminal whose stops are the defaults for its width keeps that property *)
Definition tabs_are_default (t : term) : bool := stops_agree (cols t) (tabs t) (default_stop (cols t)).

(** * C19 *)
Definition holds_C19 (pre : vt) (f : func) (post : vt) : bool :=
  match f with
  | Ris => vt_eqb post (vt_new (cols (vterm pre)) (rows (vterm pre)) (sb_limit (vterm pre)))
  | _ => true
  end.

(** * C20: [cs] fed from [pre] produced no function and ended in [post] *)
Definition holds_C20 (pre : vt) (cs : list N) (post : vt) : bool :=
  match pst (vparser pre) with
  | Ground =>
    if inert_spec cs then
      term_eqb (vterm pre) (vterm post) && pstate_eqb (pst (vparser post)) Ground
    else true
  | _ => true
  end.

(** the chunk is claimed inert by the specification (so a function emitted inside it is a
    violation); [known_C20] classifies the known finding *)
Definition claims_inert (pre : vt) (cs : list N) : bool :=
  match pst (vparser pre) with Ground => inert_spec cs | _ => false end.

Definition known_C20 (cs : list N) : bool := kf_c20 cs.

(** C06 (margins): switching screens or toggling any DEC / ANSI mode never changes the scroll region; only DECSTBM, the
    resets and a height change (C05 / resize) do *)
Definition holds_C06_modes (pre : vt) (f : func) (post : vt) : bool :=
  match f with
  | Decset _ | Decrst _ | Sm _ | Rm _ =>
    (top (vterm pre) =? top (vterm post)) && (bot (vterm pre) =? bot (vterm post))
  | _ => true
  end.

(** a resize resets the region to the full screen exactly when the height changes *)
Definition holds_C06_resize (pre post : vt) : bool :=
  if rows (vterm pre) =? rows (vterm post)
  then (top (vterm pre) =? top (vterm post)) && (bot (vterm pre) =? bot (vterm post))
  else (top (vterm post) =? 0) && (bot (vterm post) =? rows (vterm post) - 1).
