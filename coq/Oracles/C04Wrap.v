(** C04, clause 5 (the soft-wrap mark): executable statements.

    With auto-wrap on and a wrap pending, the next printable "first moves to column 0 of the
    next row (scrolling the region if on the bottom margin) and marks the row it left as
    soft-wrapped".  [holds_C04_wrapmark] states the last part on the states before / after one
    [Print c]; [kf1_C04] is the class of the known finding KF-C04-1 (the mark is set and then
    cleared again by [Buffer::scroll_up] when the wrap happens on a bottom margin that lies
    above the last screen row); [wrapmark_lost] says that the finding really manifests.

    Definitions only (extracted to OCaml); the theorems are in [Proofs/C04Wrap.v]. *)

From Avt Require Export Spec.Screen.

(** where the row the cursor leaves is to be found after the wrap *)
Inductive left_loc :=
| InView (i : nat)   (* row [i] of the view *)
| InScrollback       (* the last line of the scrollback *)
| Discarded          (* scrolled out of a region that does not start at row 0: it no longer exists *)
| Stays.             (* last screen row, below the region: the cursor does not leave the row *)

(** [t]: the terminal before [Print c], with auto-wrap on and a wrap pending.
    - cursor on the bottom margin: the region [top..bot] scrolls up by one; the row left moves up by one
      inside the region; if it was also the TOP row of the region (one-row region) it leaves the region:
      into the scrollback when the region starts at row 0, into nothing otherwise;
    - otherwise, above the last screen row: no scroll, the row stays where it was;
    - otherwise (last screen row, below the region): there is no next row; the cursor stays on its row. *)
Definition wrap_left (t : term) : left_loc :=
  let r := cur_row t in
  if r =? bot t then
    if top t <? r then InView (r - 1)
    else if top t =? 0 then InScrollback
    else Discarded
  else if r <? rows t - 1 then InView r
  else Stays.

Definition line_at (t' : term) (loc : left_loc) : option line :=
  match loc with
  | InView i => nth_error (tview t') i
  | InScrollback => last_opt (tsb t')
  | Discarded | Stays => None
  end.

(** the deferred wrap is due: [f] is a printable, auto-wrap is on, a wrap is pending *)
Definition wrap_due (t : term) (f : func) : bool :=
  match f with Print _ => awm t && pend t | _ => false end.

(** KF-C04-1: the wrap happens on a bottom margin above the last screen row, and the row left survives
    the scroll (it does not when the region is a single row not at the top of the screen: then the row
    is scrolled out of existence and there is nothing to mark) *)
Definition kf1_C04 (pre : vt) (f : func) : bool :=
  let t := vterm pre in
  wrap_due t f && (cur_row t =? bot t) && (bot t <? rows t - 1)
  && ((top t =? 0) || (top t <? bot t)).

Definition holds_C04_wrapmark (pre : vt) (f : func) (post : vt) : bool :=
  let t := vterm pre in
  let t' := vterm post in
  if wrap_due t f && negb (kf1_C04 pre f) then
    match wrap_left t with
    | Discarded => true
    | Stays =>
      (* no row is left: the cursor stays on the row and the row's mark is what it was *)
      (cur_row t' =? cur_row t)
      && match nth_error (tview t) (cur_row t), nth_error (tview t') (cur_row t) with
         | Some l, Some l' => Bool.eqb (wrapped l) (wrapped l')
         | _, _ => false
         end
    | loc =>
      match line_at t' loc with
      | Some l => wrapped l
      | None => false
      end
    end
  else true.

(** in the class of the known finding: the row left is there and is NOT marked *)
Definition wrapmark_lost (pre : vt) (f : func) (post : vt) : bool :=
  kf1_C04 pre f
  && match line_at (vterm post) (wrap_left (vterm pre)) with
     | Some l => negb (wrapped l)
     | None => false
     end.
